#!/usr/bin/env python3
"""mut.py <ID> <scratchname> <relative-file> <old> <new> [tier]
Copies /repo to /var/tmp/scratch-<scratchname>, replaces the first occurrence of <old> by <new> in <relative-file>,
checks that the package still builds, runs ./vcheck <ID> quick against the copy and reports caught / missed."""
import os, subprocess, sys, time
cid, name, rel, old, new = sys.argv[1:6]
tier = sys.argv[6] if len(sys.argv) > 6 else "quick"
d = "/var/tmp/scratch-" + name
subprocess.run(["rsync", "-a", "--delete", "--exclude", ".git", "/repo/", d + "/"], check=True)
p = os.path.join(d, rel)
s = open(p).read()
if old not in s:
    print("MUTANT-ERROR: pattern not found in", rel); sys.exit(3)
open(p, "w").write(s.replace(old, new, 1))
env = dict(os.environ, GOFLAGS="-mod=mod", GOPROXY="off")
b = subprocess.run(["go", "build", "./" + os.path.dirname(rel) + "/"], cwd=d, env=env, stdout=subprocess.PIPE, stderr=subprocess.STDOUT, text=True)
if b.returncode != 0:
    print("MUTANT-ERROR: does not compile\n" + b.stdout[-1500:]); sys.exit(3)
t0 = time.time()
r = subprocess.run(["./vcheck", cid, tier], cwd="/verif", env=dict(os.environ, VERIF_REPO=d), stdout=subprocess.PIPE, stderr=subprocess.STDOUT, text=True)
dt = time.time() - t0
lines = [l for l in r.stdout.splitlines() if ("_test.go" in l and "draw" not in l) or l.startswith(("VIOLATION", "OK", "INCONCLUSIVE", "MUSTHIT"))]
print("\n".join(lines[:6]))
print("MUTANT %s: %s rc=%d %.0fs  [%s: %r -> %r]" % (cid, {0: "MISSED", 1: "CAUGHT", 2: "INCONCLUSIVE"}.get(r.returncode, "?"), r.returncode, dt, rel, old[:60], new[:60]))
