#!/usr/bin/env python3
"""Writes meta.json for the round-5 seeds (continuation session: Cnn-5 for ten properties, Cnn-7 for the other ten)
from the table below and the logs tools/seedintake.sh produced."""
import json, os, re
B5 = {
 "C03-5": ("same change as C03-1 (reorg no longer collects the transactions of old blocks above the new head's height), independently rediscovered", "a reorganisation to a heavier, shorter branch and a transaction mined only in a dropped block above the new head", "duplicate of C03-1"),
 "C08-5": ("CODECOPY truncates its code offset to 64 bits: an offset >= 2^64 whose low 64 bits lie inside the code copies code bytes instead of zero padding", "a CODECOPY whose code offset is a multiple of 2^64 plus a small value (2^64, 2^255)", ""),
 "C10-5": ("the hasher embeds a child whose RLP encoding is exactly 32 bytes instead of referencing it by hash: the root differs from the specification's for that boundary shape only", "a non-root node that encodes to exactly 32 bytes (e.g. a leaf under a branch with a 2-byte compact key and a 27-byte value)", ""),
 "C11-5": ("decodeBigInt's leading-zero check skips single bytes: a lone 0x00 decodes as big.Int zero, a second accepted encoding beside 0x80", "the one-byte string 0x00 decoded into a *big.Int target (top level or as a struct field)", ""),
 "C12-5": ("FrontierSigner.Equal also answers true for a HomesteadSigner: a sender cached under Frontier is served to a Homestead query, a high-S transaction gets a sender", "a high-S transaction whose sender was asked under FrontierSigner first, then under HomesteadSigner on the same object", "same class as C12-1 and C12-3, third mechanism"),
 "C13-5": ("same change as C13-3 (the HF6 duration limit is set only in the HF6 arm: above HF8 the 240 s limit returns), independently rediscovered", "a schedule with HF8, a height above it and a block time delta in [180,240)", "duplicate of C13-3"),
 "C14-5": ("VerifySeal returns nil for difficulty 1 before hashing ('the target is 2^256'): the mix-digest comparison is skipped too, a seal with a wrong mix digest is accepted", "difficulty 1 and a header whose mix digest is not the one the hash function yields (versions 1-4)", ""),
 "C16-5": ("LogsBloom hashes 'consecutive identical topics' once, the remembered topic starting as the zero hash: a zero topic that comes before any non-zero topic is never added to receipt and header bloom", "a log whose first topic is the zero hash", ""),
 "C18-5": ("the commented-out PublicTransactionPoolAPI.Resend (aqua_resend / eth_resend) is restored: it re-signs a pending transaction with the wallet and its name is not among the protected ones, so it signs on every transport without opt-in", "an unlocked keystore account with a matching pending transaction in the pool (e.g. submitted raw) and a resend call", ""),
 "C19-5": ("Feed.Send's handling of an unsubscription during a blocked send is off by one (index <= len(cases)): when a subscriber already served in this send unsubscribes, a still pending live subscriber is dropped from the select set and never gets the value", "a Send blocked on two or more subscribers while one that was already served unsubscribes", "same site as C19-1, other edit"),
}
B5.update(json.load(open(os.path.join(os.path.dirname(__file__), "seedmeta5_b.json"))) if os.path.exists(os.path.join(os.path.dirname(__file__), "seedmeta5_b.json")) else {})
n = 0
for seed, (breaks, needs, note) in B5.items():
    d = "/verif/seeded/" + seed
    if not os.path.isdir(d): continue
    ex = open(d + "/existing_tests.log").read().strip().splitlines()
    det = open(d + "/detection_quick.log").read()
    caught = "CAUGHT" in det
    m = re.search(r"replay=\S*/C\d\d-(\w+)-seed", det)
    by = m.group(1) if m else ""
    if not by:
        m = re.search(r"(\w+_test\.go):\d+", det); by = m.group(1) if m else "?"
    meta = {"seed": seed, "property": seed.split("-")[0], "breaks": breaks, "needs_to_manifest": needs,
      "author": "independent sub-agent given only the property text and a scratch worktree (round 5: one change each, told that the obvious changes are taken)",
      "confirmed_by_lead": {"patch_applies_to_repo_head": True, "builds": True, "demo_with_change": "FAIL (see demo_with_change.log)", "demo_without_change": "PASS (see demo_without_change.log)",
         "existing_tests_of_touched_packages": " / ".join(ex), "how": "tools/seedintake.sh <nn> <offset>: tools/seedconfirm2.sh in a scratch worktree at /repo HEAD, go test of the touched packages with the change, tools/seedrun.py <patch> <ID> quick (rsync copy of /repo + patch, VERIF_REPO)"},
      "demo": {"file": "seeded_demo_test.go", "copy_into_package_dir": open(d + "/demo_pkg.txt").read().strip()},
      "detection": {"tier": "quick", "caught_by": by, "result": "CAUGHT (exit 1, VIOLATION line)" if caught else "MISSED", "note": note}}
    json.dump(meta, open(d + "/meta.json", "w"), indent=1); n += 1
    if not caught: print("still missed:", seed)
print(n, "round-5 metas written")
