#!/usr/bin/env python3
"""seedrun.py <patch.diff> <ID> [tier]  - apply a seeded change to a scratch copy of /repo and run the check against it."""
import os, subprocess, sys, time
patch, cid = os.path.abspath(sys.argv[1]), sys.argv[2]
tier = sys.argv[3] if len(sys.argv) > 3 else "quick"
d = "/var/tmp/scratch-seed-" + cid.lower()
subprocess.run(["rsync", "-a", "--delete", "--exclude", ".git", "/repo/", d + "/"], check=True)
r = subprocess.run(["patch", "-p1", "-s", "-i", patch], cwd=d, stdout=subprocess.PIPE, stderr=subprocess.STDOUT, text=True)
if r.returncode != 0:
    print("SEED-ERROR: patch does not apply\n" + r.stdout[-1500:]); sys.exit(3)
env = dict(os.environ, GOFLAGS="-mod=mod", GOPROXY="off")
b = subprocess.run(["go", "build", "./..."], cwd=d, env=env, stdout=subprocess.PIPE, stderr=subprocess.STDOUT, text=True)
if b.returncode != 0:
    print("SEED-ERROR: does not compile\n" + b.stdout[-1500:]); sys.exit(3)
t0 = time.time()
r = subprocess.run(["./vcheck", cid, tier], cwd="/verif", env=dict(os.environ, VERIF_REPO=d), stdout=subprocess.PIPE, stderr=subprocess.STDOUT, text=True)
lines = [l for l in r.stdout.splitlines() if ("_test.go" in l and "draw" not in l and "rapid] failed" not in l) or l.startswith(("VIOLATION", "OK", "INCONCLUSIVE", "MUSTHIT"))]
print("\n".join(l[:400] for l in lines[:5]))
print("SEED %s %s: %s rc=%d %.0fs [%s]" % (cid, tier, {0: "MISSED", 1: "CAUGHT", 2: "INCONCLUSIVE"}.get(r.returncode, "?"), r.returncode, time.time() - t0, patch))
subprocess.run(["rm", "-rf", d])
