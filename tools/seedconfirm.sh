#!/bin/bash
# seedconfirm.sh <worktree> <k> <pkgdir> [extra go test args]
# Confirms a seeded change in its scratch worktree: the demonstration test (copied into <pkgdir>) must FAIL
# with patch.diff applied and PASS without it. Leaves the worktree clean.
set -u
WT=$1; K=$2; PKG=$3; shift 3
export GOFLAGS=-mod=mod GOPROXY=off
S=$WT/SEEDED/$K
cd $WT || exit 3
git checkout -q -- . ; git clean -fdq -e SEEDED -e PROPERTY.txt
demos=$(ls $S/*_test.go 2>/dev/null)
[ -z "$demos" ] && { echo "no *_test.go demonstration in $S"; exit 3; }
for f in $demos; do cp $f $PKG/; done
names=$(grep -ho "^func Test[A-Za-z0-9_]*" $demos | sed 's/func //' | paste -sd'|')
git apply $S/patch.diff || { echo "patch does not apply"; exit 3; }
go build ./... || { echo "does not build"; exit 3; }
go test -count=1 -vet=off -run "^($names)\$" "$@" ./$PKG/ > /var/tmp/seed_with.log 2>&1; with=$?
git apply -R $S/patch.diff
go test -count=1 -vet=off -run "^($names)\$" "$@" ./$PKG/ > /var/tmp/seed_without.log 2>&1; without=$?
for f in $demos; do rm -f $PKG/$(basename $f); done
git checkout -q -- . ; git clean -fdq -e SEEDED -e PROPERTY.txt
echo "demo tests: $names"
echo "with change: exit $with   (expected non-zero)"; grep -m3 -- "--- FAIL\|panic:" /var/tmp/seed_with.log
echo "without change: exit $without (expected 0)"; tail -1 /var/tmp/seed_without.log
[ $with -ne 0 ] && [ $without -eq 0 ] && echo CONFIRMED || echo NOT-CONFIRMED
