#!/bin/bash
# seedintake.sh <nn> [offset]  e.g. 20 2 : collects /tmp/wt-c<nn>/SEEDED/{1,2} into /verif/seeded/C<nn>-(k+offset), confirms and evaluates them
export GOFLAGS=-mod=mod GOPROXY=off
nn=$1; ID=C$nn; OFF=${2:-0}
for k in 1 2; do
  S=/tmp/wt-c$nn/SEEDED/$k; N=$ID-$((k+OFF)); D=/verif/seeded/$N
  [ -f $S/patch.diff ] || { echo "$N: no patch"; continue; }
  mkdir -p $D; cp $S/patch.diff $D/; [ -f $S/README.md ] && cp $S/README.md $D/
  demo=$(ls $S/seeded_demo_test.go $S/*_test.go $S/_demo/*_test.go $S/*_test.go.txt 2>/dev/null | head -1)
  [ -n "$demo" ] && cp "$demo" $D/seeded_demo_test.go
  if [ -f $S/demo_pkg.txt ]; then tr -d ' \n' < $S/demo_pkg.txt > $D/demo_pkg.txt; else echo "MISSING demo_pkg"; fi
  (cd /repo && git apply --check $D/patch.diff) || { echo "$N: PATCH DOES NOT APPLY TO /repo HEAD"; continue; }
  /verif/tools/seedconfirm2.sh $D
  # existing tests of the touched packages (twice if the first run fails: tells a flaky test from a caught change)
  cd /tmp/wt-confirm && git checkout -q -- . && git clean -fdq && git apply $D/patch.diff
  pk=$(grep '^+++ b/' $D/patch.diff | sed 's#+++ b/##' | xargs -n1 dirname | sort -u | sed 's#^#./#' | tr '\n' ' ')
  go test -count=1 -vet=off $pk > /var/tmp/existing.tmp 2>&1; rc=$?
  echo "$N: existing tests of [$pk] exit $rc $(grep -c '^ok' /var/tmp/existing.tmp) ok $(grep '^--- FAIL' /var/tmp/existing.tmp | head -3 | tr '\n' ' ')" | tee $D/existing_tests.log
  if [ $rc -ne 0 ]; then
    go test -count=1 -vet=off $pk > /var/tmp/existing.tmp 2>&1; rc=$?
    echo "$N: existing tests, second run: exit $rc $(grep '^--- FAIL' /var/tmp/existing.tmp | head -3 | tr '\n' ' ')" | tee -a $D/existing_tests.log
  fi
  git checkout -q -- . ; git clean -fdq
  cd /verif && tools/seedrun.py $D/patch.diff $ID quick | grep -v "^KNOWN" | tail -3 | cut -c1-400 | tee $D/detection_quick.log
done
