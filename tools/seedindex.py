#!/usr/bin/env python3
"""Regenerates /verif/seeded/INDEX.md from the meta.json files."""
import glob, json, os
rows = []
for f in sorted(glob.glob('/verif/seeded/C*/meta.json')):
    m = json.load(open(f))
    d = m['detection']
    rows.append("| %s | %s | %s | %s, `%s` | %s |" % (m['seed'], m['breaks'], m['needs_to_manifest'], d['tier'], d['caught_by'], d.get('note', '') or '—'))
out = ["# Seeded changes", "",
       "Each directory holds `patch.diff` (apply with `git -C /repo apply <file>`, undo with `git -C /repo checkout -- .`), the independent",
       "author's demonstration (`seeded_demo_test.go`, to be copied into the package named in `demo_pkg.txt`), the author's `README.md`,",
       "the lead's confirmation logs (`demo_with_change.log`, `demo_without_change.log`, `existing_tests.log`) and `meta.json`.",
       "All changes were written by sub-agents that saw only the property text and a scratch worktree; each was kept only after the lead",
       "confirmed: applies to /repo HEAD, builds, existing tests of the touched packages pass, demonstration fails with it and passes without.",
       "", "| seed | what the change breaks | what it needs to manifest | caught in tier, by | note |", "|---|---|---|---|---|"] + rows
extra = "/verif/seeded/NOT_KEPT.md"
if os.path.exists(extra):
    out += ["", open(extra).read()]
open('/verif/seeded/INDEX.md', 'w').write("\n".join(out) + "\n")
print(len(rows), "seeds indexed")
