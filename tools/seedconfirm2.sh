#!/bin/bash
# seedconfirm2.sh <seed dir under /verif/seeded>: confirms the demonstration both ways in the scratch worktree /tmp/wt-confirm (at /repo's HEAD)
export GOFLAGS=-mod=mod GOPROXY=off
D=$1; WT=/tmp/wt-confirm; PKG=$(cat $D/demo_pkg.txt)
cd $WT && git checkout -q -- . && git clean -fdq
cp $D/seeded_demo_test.go $PKG/zz_seeded_demo_test.go
names=$(grep -ho "^func Test[A-Za-z0-9_]*" $D/seeded_demo_test.go | sed 's/func //' | paste -sd'|')
git apply $D/patch.diff || { echo "$D: PATCH-DOES-NOT-APPLY"; exit 3; }
go build ./... 2>/dev/null || { echo "$D: DOES-NOT-BUILD"; git checkout -q -- .; exit 3; }
go test -count=1 -vet=off -run "^($names)\$" ./$PKG/ > $D/demo_with_change.log 2>&1; with=$?
git apply -R $D/patch.diff
go test -count=1 -vet=off -run "^($names)\$" ./$PKG/ > $D/demo_without_change.log 2>&1; without=$?
rm -f $PKG/zz_seeded_demo_test.go; git checkout -q -- .; git clean -fdq
tail -c 1500 $D/demo_with_change.log > $D/.t && mv $D/.t $D/demo_with_change.log
tail -c 600 $D/demo_without_change.log > $D/.t && mv $D/.t $D/demo_without_change.log
if [ $with -ne 0 ] && [ $without -eq 0 ]; then echo "$(basename $D): CONFIRMED (with: exit $with, without: exit 0) tests=$names"; else echo "$(basename $D): NOT-CONFIRMED with=$with without=$without"; fi
