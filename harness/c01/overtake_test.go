package c01

import (
	"fmt"
	"math/big"
	"testing"

	"gitlab.com/aquachain/aquachain/aquadb"
	"gitlab.com/aquachain/aquachain/core"
	"gitlab.com/aquachain/aquachain/core/state"
	"gitlab.com/aquachain/aquachain/core/types"
	"pgregory.net/rapid"
	"verifharness/ev"
	"verifharness/gen"
)

// TestCorruptOvertakingBlock: the corrupted block is the one with which a side
// branch overtakes the canonical chain on a pruning node that has been
// restarted since the fork point (so the side branch's blocks were stored
// unexecuted and the branch is executed when it wins). A block whose
// commitments do not match its content must be rejected on that path like on
// any other, and the good block must import afterwards.
func TestCorruptOvertakingBlock(t *testing.T) {
	ev.Check(t, ev.N(40, 800), func(t *rapid.T) {
		nc := gen.ConfigByName(rapid.SampledFrom([]string{"steep", "steep", "all-at-0", "test-hf1-7"}).Draw(t, "config"))
		g := gen.Genesis(nc.Config, 0)
		b, err := gen.NewBuilder(g)
		if err != nil {
			t.Fatal(err)
		}
		defer b.Chain.Stop()
		idx := 0
		mk := func(parent *gen.TNode, spec gen.BlockSpec) *gen.TNode {
			built, err := b.Build(parent.Block, spec)
			if err != nil {
				t.Fatalf("build: %v", err)
			}
			idx++
			return &gen.TNode{Block: built.Block, Receipts: built.Receipts, Parent: parent, Height: parent.Height + 1, TD: new(big.Int).Add(parent.TD, built.Block.Difficulty()), Index: idx}
		}
		txs := func(n int) func(spec *gen.BlockSpec) {
			return func(spec *gen.BlockSpec) {
				cnt := 0
				spec.TxFn = func(st *state.StateDB, h *types.Header, gasLeft uint64) *types.Transaction {
					if cnt >= n {
						return nil
					}
					cnt++
					tx, _ := gen.DrawTx(t, gen.TxCtx{Config: nc.Config, Num: h.Number, State: st, GasLeft: gasLeft, Kinds: []string{"transfer", "store-set", "emit", "bouncer", "create"}})
					return tx
				}
			}
		}
		root := &gen.TNode{Block: b.Chain.Genesis(), TD: new(big.Int).Set(b.Chain.Genesis().Difficulty())}
		// the canonical branch: slow blocks
		lenA := rapid.IntRange(4, 7).Draw(t, "lenA")
		A := []*gen.TNode{root}
		for i := 0; i < lenA; i++ {
			spec := gen.BlockSpec{TimeDelta: 3000, Coinbase: gen.Keys[5].Addr}
			txs(rapid.IntRange(0, 2).Draw(t, "ntxA"))(&spec)
			A = append(A, mk(A[len(A)-1], spec))
		}
		// the rival: fast blocks from an early fork point, until it is heavier
		fork := rapid.IntRange(0, lenA-3).Draw(t, "fork")
		B := []*gen.TNode{A[fork]}
		var victim *gen.TNode
		uncleUsed := false
		for i := 0; i < 12; i++ {
			spec := gen.BlockSpec{TimeDelta: rapid.SampledFrom([]int64{1, 1, 13}).Draw(t, "paceB"), Coinbase: gen.Keys[6].Addr}
			txs(rapid.IntRange(0, 2).Draw(t, "ntxB"))(&spec)
			parent := B[len(B)-1]
			// an uncle from the canonical branch where one is in reach (child of the fork point)
			if h := parent.Height + 1; h >= uint64(fork)+2 && h <= uint64(fork)+7 && !uncleUsed && rapid.Bool().Draw(t, "withuncle") {
				spec.Uncles = []*types.Header{A[fork+1].Block.Header()}
				uncleUsed = true
			}
			nd := mk(parent, spec)
			B = append(B, nd)
			if nd.TD.Cmp(A[lenA].TD) > 0 {
				victim = nd
				break
			}
		}
		if victim == nil || len(B) < 3 {
			t.Skip("the rival does not overtake within 12 blocks or overtakes with its first block")
		}
		core.VerifResetGlobals()
		n, err := gen.NewNode(aquadb.NewMemDatabase(), g, gen.Pruning(), nil)
		if err != nil {
			t.Fatal(err)
		}
		defer func() { n.Chain.Stop() }()
		for _, nd := range A[1:] {
			if _, err := n.Chain.InsertChain(types.Blocks{nd.Block}); err != nil {
				t.Fatalf("import of canonical block %d: %v", nd.Height, err)
			}
		}
		if err := n.Restart(); err != nil {
			t.Fatalf("restart: %v", err)
		}
		for _, nd := range B[1 : len(B)-1] {
			if _, err := n.Chain.InsertChain(types.Blocks{nd.Block}); err != nil {
				t.Fatalf("import of side block at height %d: %v", nd.Height, err)
			}
		}
		if n.Chain.CurrentBlock().Hash() != A[lenA].Block.Hash() {
			t.Fatalf("harness: the side branch became the head before its overtaking block")
		}
		unexecuted := !n.Chain.HasState(B[len(B)-2].Block.Root())
		kinds := append([]string{}, corruptions...)
		if len(victim.Block.Uncles()) > 0 {
			kinds = append(kinds, "body-uncle-variant", "body-uncle-variant")
		}
		kind := rapid.SampledFrom(kinds).Draw(t, "corruption")
		tr := &gen.Tree{Nodes: append(append([]*gen.TNode{}, A...), B[1:]...)}
		var bad *types.Block
		if kind == "body-uncle-variant" {
			// the same uncle in every respect that matters to execution (height, miner), another header
			u := types.CopyHeader(victim.Block.Uncles()[0])
			u.Extra = append(append([]byte{}, u.Extra...), 0x01)
			bad = types.NewBlockWithHeader(victim.Block.Header()).WithBody(victim.Block.Transactions(), []*types.Header{u})
		} else {
			bad = corrupt(t, kind, victim.Block, tr, victim)
		}
		if bad == nil {
			kind = rapid.SampledFrom(corruptions[:6]).Draw(t, "fallback")
			bad = corrupt(t, kind, victim.Block, tr, victim)
		}
		headBefore := n.Chain.CurrentBlock()
		if _, err := n.Chain.InsertChain(types.Blocks{bad}); err == nil {
			t.Fatalf("a block whose %s does not match its content was accepted when it arrived as the block with which a side branch overtakes on a restarted pruning node (height %d, %d txs, %d uncles, side branch unexecuted before: %v, config %s; head moved: %v)",
				kind, victim.Height, len(victim.Block.Transactions()), len(victim.Block.Uncles()), unexecuted, nc.Name, n.Chain.CurrentBlock().Hash() != headBefore.Hash())
		}
		if got := n.Chain.CurrentBlock(); got.Hash() != headBefore.Hash() && got.Hash() != B[len(B)-2].Block.Hash() {
			// (the valid part of the side branch may legitimately have been executed on the way)
			t.Fatalf("after the rejected block the head is neither the old head nor the last valid block of the side branch")
		}
		if _, err := n.Chain.InsertChain(types.Blocks{victim.Block}); err != nil {
			t.Fatalf("the good overtaking block was refused after its corrupted twin (%s): %v", kind, err)
		}
		if n.Chain.CurrentBlock().Hash() != victim.Block.Hash() {
			t.Fatalf("the heavier side branch did not become the head")
		}
		checkCommitments(t, n, victim, "overtaking block after rejection")
		lbl := []string{"corrupt-overtaking:" + kind, "corrupt-overtaking"}
		if unexecuted {
			lbl = append(lbl, "overtaking-branch-was-unexecuted")
		}
		ev.Case(true, append([]byte("overtake:"+kind), bad.Hash().Bytes()...), lbl...)
		ev.Sample(map[string]interface{}{"leg": "corrupt-overtaking", "config": nc.Name, "corruption": kind, "height": victim.Height, "fork": fork, "unexecuted_before": unexecuted})
	})
}

var _ = fmt.Sprint
