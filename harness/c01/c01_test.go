// C01 — Block import is deterministic and accepts only self-consistent blocks.
//
// Oracles: (1) differential between delivery histories of one generated block
// tree (block-by-block archive node vs. batches / fork interleavings / restarts
// / pruning), (2) every header commitment recomputed with independent
// reference code, (3) single-field corruptions must be rejected without trace.
package c01

import (
	"bytes"
	"fmt"
	"math/big"
	"strings"
	"testing"

	"gitlab.com/aquachain/aquachain/aquadb"
	"gitlab.com/aquachain/aquachain/common"
	"gitlab.com/aquachain/aquachain/core"
	"gitlab.com/aquachain/aquachain/core/types"
	"gitlab.com/aquachain/aquachain/trie"
	"pgregory.net/rapid"
	"verifharness/ev"
	"verifharness/gen"
	"verifharness/ref/refmpt"
	"verifharness/ref/refrlp"
)

func TestMain(m *testing.M) {
	gen.Quiet()
	ev.MustHit("restart-in-history", "pruning-config", "block-with-uncle", "failing-tx-in-block", "fork-crossing-block", "reorg-during-history", "batch>1",
		"corrupt:root", "corrupt:receipthash", "corrupt:bloom", "corrupt:gasused", "corrupt:txhash", "corrupt:unclehash", "corrupt:body-drop-tx", "corrupt:body-dup-tx",
		"corrupt:body-swap-tx", "corrupt:body-add-uncle", "corrupt:body-drop-uncle", "corrupt:txhash-recomputed-root-stale", "commitments-recomputed", "contract-executing-tx", "corrupt-overtaking", "overtaking-branch-was-unexecuted", "forked-deployments", "forked-ancestry", "same-address-different-code-on-branches")
	ev.Main(m, ev.Config{
		Property: "C01",
		Level:    "exploration",
		Rule: "rapid-generated block trees on six fork configurations (every fork crossed) with transactions from the whole contract zoo, uncles and empty blocks, built by the harness builder; each tree is imported by a reference node (archive, one block per call) and by a node under a generated history (linked batches, fork interleavings, restarts, archive/pruning/eager-pruning caches); " +
			"receipts, gas, logs, blooms and the full state at every block both nodes hold are compared with each other, with the builder's record and with commitments recomputed by independent reference code; then one accepted block is corrupted in one commitment or in its body and offered again - on the ordinary import path and as the block with which an unexecuted side branch overtakes on a restarted pruning node. " +
			"non-trivial = a tree with >= 2 branches and >= 1 contract-executing transaction whose history differs from block-by-block delivery; distinct by hash of tree+history",
		Assumptions: []string{
			"fake-PoW engine (all header rules enforced, seal skipped)",
			"reference commitments: transaction/receipt roots by harness/ref/refmpt over harness/ref/refrlp encodings, uncle hash by keccak of the reference list encoding, bloom by the harness's own bloom9, state root by a complete state walk re-rooted with refmpt",
			"the block-building path exercised here is the harness builder (ApplyTransaction + engine.Finalize, the same calls the miner's worker makes); the miner process itself is exercised in TestMinerBlocksImport",
		},
	})
}

// ---------- independent commitments ----------

func txItem(tx *types.Transaction) refrlp.Item {
	v, r, s := tx.RawSignatureValues()
	to := refrlp.B(nil)
	if tx.To() != nil {
		to = refrlp.B(tx.To().Bytes())
	}
	return refrlp.L(refrlp.U(tx.Nonce()), refrlp.Big(tx.GasPrice()), refrlp.U(tx.Gas()), to, refrlp.Big(tx.Value()), refrlp.B(tx.Data()), refrlp.Big(v), refrlp.Big(r), refrlp.Big(s))
}

func bloom9(data []byte, bloom *[256]byte) {
	h := refmpt.Keccak(data)
	for i := 0; i < 6; i += 2 {
		bit := (uint(h[i+1]) + uint(h[i])<<8) & 2047
		bloom[255-bit/8] |= 1 << (bit % 8)
	}
}

func logsBloom(logs []*types.Log) [256]byte {
	var b [256]byte
	for _, l := range logs {
		bloom9(l.Address[:], &b)
		for _, t := range l.Topics {
			bloom9(t[:], &b)
		}
	}
	return b
}

func receiptItem(r *types.Receipt) refrlp.Item {
	var post refrlp.Item
	if len(r.PostState) > 0 {
		post = refrlp.B(r.PostState)
	} else if r.Status == types.ReceiptStatusSuccessful {
		post = refrlp.B([]byte{1})
	} else {
		post = refrlp.B(nil)
	}
	var logs []refrlp.Item
	for _, l := range r.Logs {
		var topics []refrlp.Item
		for _, t := range l.Topics {
			topics = append(topics, refrlp.B(t[:]))
		}
		logs = append(logs, refrlp.L(refrlp.B(l.Address[:]), refrlp.L(topics...), refrlp.B(l.Data)))
	}
	bl := logsBloom(r.Logs)
	return refrlp.L(post, refrlp.U(r.CumulativeGasUsed), refrlp.B(bl[:]), refrlp.L(logs...))
}

func headerItem(h *types.Header) refrlp.Item {
	return refrlp.L(refrlp.B(h.ParentHash[:]), refrlp.B(h.UncleHash[:]), refrlp.B(h.Coinbase[:]), refrlp.B(h.Root[:]),
		refrlp.B(h.TxHash[:]), refrlp.B(h.ReceiptHash[:]), refrlp.B(h.Bloom[:]), refrlp.Big(h.Difficulty), refrlp.Big(h.Number),
		refrlp.U(h.GasLimit), refrlp.U(h.GasUsed), refrlp.Big(h.Time), refrlp.B(h.Extra), refrlp.B(h.MixDigest[:]), refrlp.B(h.Nonce[:]))
}

// isCanonical: b is the block the canonical chain holds at its height (a side
// branch may reach above the canonical head, where no height maps to anything).
func isCanonical(bc *core.BlockChain, b *types.Block) bool {
	c := bc.GetBlockByNumber(b.NumberU64())
	return c != nil && c.Hash() == b.Hash()
}

// checkCommitments recomputes every commitment of an accepted block from its
// body, the receipts the node stored and the state at its root.
func checkCommitments(t *rapid.T, n *gen.Node, nd *gen.TNode, what string) {
	bc := n.Chain
	b := bc.GetBlockByHash(nd.Block.Hash())
	if b == nil {
		t.Fatalf("%s: accepted block #%d is not retrievable", what, nd.Index)
	}
	h := b.Header()
	var txs [][]byte
	for _, tx := range b.Transactions() {
		txs = append(txs, refrlp.Encode(txItem(tx)))
	}
	if got := refmpt.RootList(txs); !bytes.Equal(got, h.TxHash[:]) {
		t.Fatalf("%s: block #%d accepted with transaction root %x, the reference root of its %d transactions is %x", what, nd.Index, h.TxHash, len(txs), got)
	}
	var uncles []refrlp.Item
	for _, u := range b.Uncles() {
		uncles = append(uncles, headerItem(u))
	}
	if got := refmpt.Keccak(refrlp.Encode(refrlp.L(uncles...))); !bytes.Equal(got, h.UncleHash[:]) {
		t.Fatalf("%s: block #%d accepted with uncle hash %x, the reference hash of its %d uncles is %x", what, nd.Index, h.UncleHash, len(uncles), got)
	}
	receipts := bc.GetReceiptsByHash(b.Hash())
	if len(receipts) == 0 && len(b.Transactions()) > 0 && n.Cache != nil && !n.Cache.Disabled && !bc.HasState(b.Root()) && !isCanonical(bc, b) {
		// a pruning node stores a side block whose parent state is gone without executing it
		// (it is executed if its branch ever becomes the heaviest): nothing was processed yet
		ev.Label("side-block-stored-unexecuted")
		return
	}
	if len(receipts) != len(b.Transactions()) {
		t.Fatalf("%s: block #%d has %d transactions but %d stored receipts", what, nd.Index, len(b.Transactions()), len(receipts))
	}
	var encs [][]byte
	var allLogs []*types.Log
	var lastCum uint64
	for i, r := range receipts {
		if r.CumulativeGasUsed < lastCum {
			t.Fatalf("%s: block #%d receipt %d: cumulative gas decreases", what, nd.Index, i)
		}
		lastCum = r.CumulativeGasUsed
		encs = append(encs, refrlp.Encode(receiptItem(r)))
		allLogs = append(allLogs, r.Logs...)
		if want := logsBloom(r.Logs); r.Bloom != types.Bloom(want) {
			t.Fatalf("%s: block #%d receipt %d: stored bloom differs from the reference bloom of its logs", what, nd.Index, i)
		}
	}
	if got := refmpt.RootList(encs); !bytes.Equal(got, h.ReceiptHash[:]) {
		t.Fatalf("%s: block #%d accepted with receipt root %x, the reference root of the stored receipts is %x", what, nd.Index, h.ReceiptHash, got)
	}
	if want := logsBloom(allLogs); h.Bloom != types.Bloom(want) {
		t.Fatalf("%s: block #%d accepted with a header bloom that differs from the reference bloom of its %d logs", what, nd.Index, len(allLogs))
	}
	if h.GasUsed != lastCum {
		t.Fatalf("%s: block #%d accepted with gasUsed %d, its last receipt's cumulative gas is %d", what, nd.Index, h.GasUsed, lastCum)
	}
	// agreement with what the builder recorded when it assembled the block
	for i, r := range receipts {
		br := nd.Receipts[i]
		// the status flag is part of a receipt only when it carries no post-state root (Byzantium form)
		statusDiffers := len(br.PostState) == 0 && r.Status != br.Status
		if r.CumulativeGasUsed != br.CumulativeGasUsed || statusDiffers || !bytes.Equal(r.PostState, br.PostState) || r.Bloom != br.Bloom || len(r.Logs) != len(br.Logs) {
			t.Fatalf("%s: block #%d receipt %d differs from the builder's (cum %d/%d status %d/%d logs %d/%d)", what, nd.Index, i,
				r.CumulativeGasUsed, br.CumulativeGasUsed, r.Status, br.Status, len(r.Logs), len(br.Logs))
		}
		for j, l := range r.Logs {
			bl := br.Logs[j]
			if l.Address != bl.Address || !bytes.Equal(l.Data, bl.Data) || len(l.Topics) != len(bl.Topics) {
				t.Fatalf("%s: block #%d receipt %d log %d differs from the builder's", what, nd.Index, i, j)
			}
			for k := range l.Topics {
				if l.Topics[k] != bl.Topics[k] {
					t.Fatalf("%s: block #%d receipt %d log %d topic %d differs", what, nd.Index, i, j, k)
				}
			}
		}
	}
	ev.Label("commitments-recomputed")
}

// stateOf walks the complete state at root through the node's trie database
// and checks it against the independent Merkle-Patricia root.
func stateOf(t *rapid.T, n *gen.Node, root common.Hash, what string) *gen.WorldState {
	st, err := n.Chain.StateAt(root)
	if err != nil {
		t.Fatalf("%s: state %x not available: %v", what, root, err)
	}
	var tdb *trie.Database = st.Database().TrieDB()
	w, err := gen.WalkState(tdb, root)
	if err != nil {
		t.Fatalf("%s: %v", what, err)
	}
	rr, err := w.RefRoot()
	if err != nil {
		t.Fatalf("%s: %v", what, err)
	}
	if rr != root {
		t.Fatalf("%s: state root %x, reference Merkle-Patricia root of its content %x", what, root, rr)
	}
	return w
}

// ---------- histories ----------

type historyStep struct {
	batch   gen.Batch
	restart bool
}

func describe(steps []historyStep) []string {
	var out []string
	for _, s := range steps {
		r := ""
		if s.restart {
			r = " after restart"
		}
		out = append(out, fmt.Sprintf("#%d..#%d(%d)%s", s.batch[0].Index, s.batch[len(s.batch)-1].Index, len(s.batch), r))
	}
	return out
}

func forkCrossing(nc gen.NamedConfig, h uint64) bool {
	for i := 1; i <= 9; i++ {
		if f := nc.Config.GetHF(i); f != nil && f.Sign() > 0 && f.Uint64() == h {
			return true
		}
	}
	return false
}

func TestImportIsDeterministic(t *testing.T) {
	ev.Check(t, ev.N(140, 2400), func(t *rapid.T) {
		importIsDeterministic(t, gen.TreeOpts{MaxBranches: ev.Pick(3, 5), MaxDepth: ev.Pick(9, 24), MaxTxs: 4, Uncles: true, MinMain: 3, ReuseTxs: true, Rivals: true}, "")
	})
}

// TestForkedDeployments: the same oracle on short trees in which one sender
// deploys contracts, so that competing branches put different code at the same
// address, and transactions whose result depends on what the node says about
// that address (code size, code, storage) follow on every branch: results must
// not depend on what the node executed before on another branch.
func TestForkedDeployments(t *testing.T) {
	ev.Check(t, ev.N(70, 1500), func(t *rapid.T) {
		importIsDeterministic(t, gen.TreeOpts{MaxBranches: 3, MaxDepth: 4, MaxTxs: 3, MinMain: 2, Senders: 1,
			Kinds: []string{"create", "create", "codesize", "codesize", "codesize", "touch-created", "touch-created", "store-set", "transfer"}}, "forked-deployments")
	})
}

// TestForkedAncestry: the same oracle on short trees whose transactions read
// the executing block's own ancestry (BLOCKHASH at generated depths): on
// competing branches the answer differs, whatever the node executed before.
func TestForkedAncestry(t *testing.T) {
	ev.Check(t, ev.N(70, 1500), func(t *rapid.T) {
		importIsDeterministic(t, gen.TreeOpts{MaxBranches: 3, MaxDepth: 5, MaxTxs: 2, MinMain: 2, Rivals: true,
			Kinds: []string{"blockhash", "blockhash", "blockhash", "transfer", "store-set"}}, "forked-ancestry")
	})
}

func importIsDeterministic(t *rapid.T, opts gen.TreeOpts, leg string) {
	{
		nc := rapid.SampledFrom(gen.Configs()).Draw(t, "config")
		tr := gen.DrawTree(t, nc, opts)
		defer tr.Close()
		labels := map[string]bool{"config:" + nc.Name: true}
		contract := false
		for _, nd := range tr.Nodes[1:] {
			if len(nd.Block.Uncles()) > 0 {
				labels["block-with-uncle"] = true
			}
			if forkCrossing(nc, nd.Height) {
				labels["fork-crossing-block"] = true
			}
			for i, r := range nd.Receipts {
				if len(r.PostState) == 0 && r.Status == types.ReceiptStatusFailed {
					labels["failing-tx-in-block"] = true
				}
				k := nd.TxKinds
				if i < len(k) && k[i] != "transfer" && k[i] != "transfer-new" {
					contract = true
				}
			}
			for _, k := range nd.TxKinds {
				if k == "reverter" || k == "oog" || k == "invalid" || k == "call-then-fail" {
					labels["failing-tx-in-block"] = true
				}
			}
		}
		if contract {
			labels["contract-executing-tx"] = true
		}
		// node A: archive, one block per call, in build order
		core.VerifResetGlobals()
		a, err := gen.NewNode(aquadb.NewMemDatabase(), tr.B.Genesis, gen.Archive(), nil)
		if err != nil {
			t.Fatal(err)
		}
		defer func() { a.Chain.Stop() }()
		for _, nd := range tr.Nodes[1:] {
			if _, err := a.Chain.InsertChain(types.Blocks{nd.Block}); err != nil {
				t.Fatalf("reference node (one block per call) rejected block #%d that the builder produced: %v", nd.Index, err)
			}
		}
		// node B: generated history
		cacheKind := rapid.SampledFrom([]string{"archive", "pruning", "pruning-eager"}).Draw(t, "cache")
		cache := map[string]*core.CacheConfig{"archive": gen.Archive(), "pruning": gen.Pruning(), "pruning-eager": gen.PruningEager()}[cacheKind]
		if cacheKind != "archive" {
			labels["pruning-config"] = true
		}
		hist := gen.DrawHistory(t, tr, 6, true)
		var steps []historyStep
		for i, bt := range hist {
			st := historyStep{batch: bt}
			if i > 0 && rapid.IntRange(0, 4).Draw(t, "restart") == 0 {
				st.restart = true
				labels["restart-in-history"] = true
			}
			if len(bt) > 1 {
				labels["batch>1"] = true
			}
			steps = append(steps, st)
		}
		b, err := gen.NewNode(aquadb.NewMemDatabase(), tr.B.Genesis, cache, nil)
		if err != nil {
			t.Fatal(err)
		}
		defer func() { b.Chain.Stop() }()
		prevHead := tr.Root
		for i, st := range steps {
			if st.restart {
				if err := b.Restart(); err != nil {
					t.Fatalf("restart before batch %d: %v", i, err)
				}
			}
			if idx, err := b.Chain.InsertChain(st.batch.Blocks()); err != nil {
				t.Fatalf("history node (%s) rejected block #%d in batch %d although the reference node accepted it: %v\nhistory: %v", cacheKind, st.batch[idx].Index, i, err, describe(steps))
			}
			head := tr.ByHash[b.Chain.CurrentBlock().Hash()]
			if head == nil {
				t.Fatalf("head is not a block of the tree")
			}
			if head != prevHead && !gen.IsAncestor(prevHead, head) {
				labels["reorg-during-history"] = true
			}
			prevHead = head
		}
		// both nodes hold every block: compare commitments, receipts and state
		ha, hb := tr.ByHash[a.Chain.CurrentBlock().Hash()], tr.ByHash[b.Chain.CurrentBlock().Hash()]
		if ha.TD.Cmp(hb.TD) != 0 {
			t.Fatalf("heads differ in total difficulty after the same blocks: reference #%d (td %v), history node #%d (td %v)", ha.Index, ha.TD, hb.Index, hb.TD)
		}
		for _, nd := range tr.Nodes[1:] {
			checkCommitments(t, a, nd, "reference node")
			checkCommitments(t, b, nd, "history node ("+cacheKind+")")
		}
		// full state: at every block on the archive node, at the head on the history node
		for _, nd := range tr.Nodes[1:] {
			if rapid.IntRange(0, 3).Draw(t, "walk") == 0 || nd == ha {
				stateOf(t, a, nd.Block.Root(), fmt.Sprintf("reference node, block #%d", nd.Index))
			}
		}
		wb := stateOf(t, b, hb.Block.Root(), "history node head")
		if ha == hb {
			wa := stateOf(t, a, ha.Block.Root(), "reference node head")
			if d := gen.Diff(wa, wb); len(d) != 0 {
				t.Fatalf("the two nodes hold different state at the same head: %x", d)
			}
		}
		var lb []string
		for k := range labels {
			lb = append(lb, k)
		}
		nt := contract && len(tr.Nodes) > 2 && (labels["batch>1"] || labels["restart-in-history"]) && hasFork(tr)
		canon := strings.Join(tr.Describe(), ";") + "|" + strings.Join(describe(steps), ",") + cacheKind
		if leg != "" {
			lb = append(lb, leg)
			// the same address deployed with different code on two branches
			codeAt := map[common.Address]map[common.Hash]bool{}
			for _, nd := range tr.Nodes[1:] {
				for _, r := range nd.Receipts {
					if r.ContractAddress != (common.Address{}) && r.Status == types.ReceiptStatusSuccessful || (r.ContractAddress != (common.Address{}) && len(r.PostState) > 0) {
						if codeAt[r.ContractAddress] == nil {
							codeAt[r.ContractAddress] = map[common.Hash]bool{}
						}
						st, err := a.Chain.StateAt(nd.Block.Root())
						if err == nil {
							codeAt[r.ContractAddress][st.GetCodeHash(r.ContractAddress)] = true
						}
					}
				}
			}
			for _, hs := range codeAt {
				if len(hs) > 1 {
					lb = append(lb, "same-address-different-code-on-branches")
					break
				}
			}
			canon = leg + canon
		}
		ev.Case(nt, []byte(canon), lb...)
		ev.Sample(map[string]interface{}{"config": nc.Name, "cache": cacheKind, "tree": tr.Describe(), "history": describe(steps)})
	}
}

func hasFork(tr *gen.Tree) bool {
	for _, n := range tr.Nodes {
		if len(n.Children) > 1 {
			return true
		}
	}
	return false
}

// ---------- corruptions ----------

var corruptions = []string{"root", "receipthash", "bloom", "gasused", "txhash", "unclehash", "body-drop-tx", "body-dup-tx", "body-swap-tx", "body-add-uncle", "body-drop-uncle", "txhash-recomputed-root-stale"}

// corrupt returns a block that differs from good in one commitment or in its
// body; nil if the kind does not apply to this block.
func corrupt(t *rapid.T, kind string, good *types.Block, tr *gen.Tree, nd *gen.TNode) *types.Block {
	h := good.Header()
	txs := append(types.Transactions{}, good.Transactions()...)
	uncles := good.Uncles()
	switch kind {
	case "root":
		h.Root[rapid.IntRange(0, 31).Draw(t, "byte")] ^= byte(1 << uint(rapid.IntRange(0, 7).Draw(t, "bit")))
	case "receipthash":
		h.ReceiptHash[rapid.IntRange(0, 31).Draw(t, "byte")] ^= 0x10
	case "bloom":
		h.Bloom[rapid.IntRange(0, 255).Draw(t, "byte")] ^= byte(1 << uint(rapid.IntRange(0, 7).Draw(t, "bit")))
	case "gasused":
		if rapid.Bool().Draw(t, "up") && h.GasUsed < h.GasLimit {
			h.GasUsed++
		} else if h.GasUsed > 0 {
			h.GasUsed--
		} else {
			h.GasUsed++
		}
	case "txhash":
		h.TxHash[rapid.IntRange(0, 31).Draw(t, "byte")] ^= 0x01
	case "unclehash":
		h.UncleHash[rapid.IntRange(0, 31).Draw(t, "byte")] ^= 0x80
	case "body-drop-tx":
		if len(txs) == 0 {
			return nil
		}
		i := rapid.IntRange(0, len(txs)-1).Draw(t, "i")
		txs = append(txs[:i], txs[i+1:]...)
	case "body-dup-tx":
		if len(txs) == 0 {
			return nil
		}
		txs = append(txs, txs[rapid.IntRange(0, len(txs)-1).Draw(t, "i")])
	case "body-swap-tx":
		if len(txs) < 2 || txs[0].Hash() == txs[1].Hash() {
			return nil
		}
		txs[0], txs[1] = txs[1], txs[0]
	case "body-add-uncle":
		// any other header of the tree at a lower height
		var cands []*gen.TNode
		for _, o := range tr.Nodes[1:] {
			if o.Height < nd.Height && o != nd.Parent {
				cands = append(cands, o)
			}
		}
		if len(cands) == 0 {
			return nil
		}
		uncles = append(append([]*types.Header{}, uncles...), cands[rapid.IntRange(0, len(cands)-1).Draw(t, "u")].Block.Header())
	case "body-drop-uncle":
		if len(uncles) == 0 {
			return nil
		}
		uncles = uncles[1:]
	case "txhash-recomputed-root-stale":
		if len(txs) == 0 {
			return nil
		}
		i := rapid.IntRange(0, len(txs)-1).Draw(t, "i")
		txs = append(txs[:i], txs[i+1:]...)
		h.TxHash = types.DeriveSha(txs)
	}
	return types.NewBlockWithHeader(h).WithBody(txs, uncles)
}

func TestCorruptBlocksRejected(t *testing.T) {
	ev.Check(t, ev.N(220, 4000), func(t *rapid.T) {
		nc := rapid.SampledFrom(gen.Configs()).Draw(t, "config")
		tr := gen.DrawTree(t, nc, gen.TreeOpts{MaxBranches: 3, MaxDepth: 7, MaxTxs: 4, Uncles: true, MinMain: 4,
			Kinds: []string{"transfer", "store-set", "store-clear", "emit", "emit", "reverter", "create", "bouncer", "forward", "suicide"}})
		defer tr.Close()
		cacheKind := rapid.SampledFrom([]string{"archive", "pruning"}).Draw(t, "cache")
		cache := gen.Archive()
		if cacheKind == "pruning" {
			cache = gen.Pruning()
		}
		core.VerifResetGlobals()
		n, err := gen.NewNode(aquadb.NewMemDatabase(), tr.B.Genesis, cache, nil)
		if err != nil {
			t.Fatal(err)
		}
		defer func() { n.Chain.Stop() }()
		// choose the victim: prefer blocks with transactions / uncles
		kind := rapid.SampledFrom(corruptions).Draw(t, "corruption")
		var fit []*gen.TNode
		for _, nd := range tr.Nodes[1:] {
			switch {
			case strings.Contains(kind, "uncle") && kind != "unclehash" && kind != "body-add-uncle":
				if len(nd.Block.Uncles()) > 0 {
					fit = append(fit, nd)
				}
			case kind == "body-swap-tx":
				if len(nd.Block.Transactions()) > 1 {
					fit = append(fit, nd)
				}
			case strings.Contains(kind, "tx") && kind != "txhash":
				if len(nd.Block.Transactions()) > 0 {
					fit = append(fit, nd)
				}
			default:
				fit = append(fit, nd)
			}
		}
		if len(fit) == 0 {
			fit = tr.Nodes[1:]
		}
		victim := fit[rapid.IntRange(0, len(fit)-1).Draw(t, "victim")]
		for _, nd := range tr.Nodes[1:] {
			if nd == victim {
				break
			}
			if nd.Index < victim.Index {
				if _, err := n.Chain.InsertChain(types.Blocks{nd.Block}); err != nil {
					t.Fatalf("import of block #%d: %v", nd.Index, err)
				}
			}
		}
		bad := corrupt(t, kind, victim.Block, tr, victim)
		if bad == nil {
			// the kind does not apply to this block (no transactions / uncles): fall back to a header corruption
			kind = rapid.SampledFrom(corruptions[:6]).Draw(t, "fallback")
			bad = corrupt(t, kind, victim.Block, tr, victim)
		}
		// snapshot
		headBefore := n.Chain.CurrentBlock()
		stateBefore := stateOf(t, n, headBefore.Root(), "before")
		tdBefore := n.Chain.GetTd(headBefore.Hash(), headBefore.NumberU64())
		canonBefore := map[uint64]common.Hash{}
		for i := uint64(0); i <= headBefore.NumberU64()+3; i++ {
			if h := n.Chain.GetHeaderByNumber(i); h != nil {
				canonBefore[i] = h.Hash()
			}
		}
		// a batch: optionally preceded by nothing, the corrupted block first in its batch or after good ones is covered by index check
		idx, err := n.Chain.InsertChain(types.Blocks{bad})
		if err == nil {
			t.Fatalf("a block whose %s does not match its content was accepted (block #%d, height %d, %d txs, %d uncles, config %s)", kind, victim.Index, victim.Height, len(victim.Block.Transactions()), len(victim.Block.Uncles()), nc.Name)
		}
		if idx != 0 {
			t.Fatalf("InsertChain reported index %d for a one-block batch", idx)
		}
		headAfter := n.Chain.CurrentBlock()
		if headAfter.Hash() != headBefore.Hash() {
			t.Fatalf("the head moved (%x -> %x) although the block was rejected (%s)", headBefore.Hash().Bytes()[:4], headAfter.Hash().Bytes()[:4], kind)
		}
		if n.Chain.CurrentHeader().Hash() != headBefore.Hash() {
			t.Fatalf("the header head moved although the block was rejected (%s)", kind)
		}
		if td := n.Chain.GetTd(headAfter.Hash(), headAfter.NumberU64()); td.Cmp(tdBefore) != 0 {
			t.Fatalf("total difficulty of the head changed")
		}
		for i := uint64(0); i <= headBefore.NumberU64()+3; i++ {
			var got common.Hash
			if h := n.Chain.GetHeaderByNumber(i); h != nil {
				got = h.Hash()
			}
			if got != canonBefore[i] {
				t.Fatalf("canonical hash at height %d changed by a rejected block (%s)", i, kind)
			}
		}
		stateAfter := stateOf(t, n, headAfter.Root(), "after")
		if d := gen.Diff(stateBefore, stateAfter); len(d) != 0 {
			t.Fatalf("state at the head changed by a rejected block")
		}
		// the good block still imports, with the builder's results
		if _, err := n.Chain.InsertChain(types.Blocks{victim.Block}); err != nil {
			t.Fatalf("the good block #%d was refused after its corrupted twin (%s): %v", victim.Index, kind, err)
		}
		checkCommitments(t, n, victim, "after rejection")
		ev.Case(true, append([]byte(kind), bad.Hash().Bytes()...), "corrupt:"+kind, "config:"+nc.Name, "cache:"+cacheKind)
		ev.Sample(map[string]interface{}{"config": nc.Name, "corruption": kind, "height": victim.Height, "txs": len(victim.Block.Transactions()), "uncles": len(victim.Block.Uncles())})
	})
}

var _ = big.NewInt
