package c01

import (
	"fmt"
	"math/big"
	"testing"
	"time"

	"gitlab.com/aquachain/aquachain/aqua/accounts"
	"gitlab.com/aquachain/aquachain/aqua/event"
	"gitlab.com/aquachain/aquachain/aquadb"
	"gitlab.com/aquachain/aquachain/consensus"
	"gitlab.com/aquachain/aquachain/core"
	"gitlab.com/aquachain/aquachain/core/state"
	"gitlab.com/aquachain/aquachain/core/types"
	"gitlab.com/aquachain/aquachain/opt/miner"
	"pgregory.net/rapid"
	"verifharness/ev"
	"verifharness/gen"
)

type minerBackend struct {
	n    *gen.Node
	pool *core.TxPool
}

func (b *minerBackend) AccountManager() *accounts.Manager { return nil }
func (b *minerBackend) BlockChain() *core.BlockChain      { return b.n.Chain }
func (b *minerBackend) TxPool() *core.TxPool              { return b.pool }
func (b *minerBackend) ChainDb() aquadb.Database          { return b.n.DB }

// gateEngine holds every Seal call until the test releases it, so that the test
// decides what happens while a block is being sealed (transactions arriving in
// the pool, for one).
type gateEngine struct {
	consensus.Engine
	started chan *types.Block
	release chan struct{}
}

func (g *gateEngine) Seal(chain consensus.ChainReader, block *types.Block, stop <-chan struct{}) (*types.Block, error) {
	select {
	case g.started <- block:
	case <-stop:
		return nil, nil
	}
	select {
	case <-g.release:
	case <-stop:
		return nil, nil
	}
	return g.Engine.Seal(chain, block, stop)
}

// TestMinerBlocksImport runs the node's own block-building path (miner +
// worker + tx pool, fake PoW) and gives every block it announces to an
// independent node, which must accept it with identical receipts and state.
// The miner stamps blocks with the wall clock (>= 1 s apart); the verdict does
// not depend on the times read. A miner that produces nothing within the
// budget makes the case inconclusive (counted), not a violation.
func TestMinerBlocksImport(t *testing.T) {
	ev.MustHit("miner-block-imported", "miner-block-with-txs", "tx-arrived-while-sealing", "pool-holds-tx-that-fails-at-execution")
	ev.Check(t, ev.N(3, 48), func(t *rapid.T) {
		nc := rapid.SampledFrom([]gen.NamedConfig{gen.ConfigByName("all-at-0"), gen.ConfigByName("test-hf1-7"), gen.ConfigByName("testnet2-like"), gen.ConfigByName("steep")}).Draw(t, "config")
		g := gen.Genesis(nc.Config, 0)
		core.VerifResetGlobals()
		m, err := gen.NewNode(aquadb.NewMemDatabase(), g, gen.Archive(), nil)
		if err != nil {
			t.Fatal(err)
		}
		defer func() { m.Chain.Stop() }()
		imp, err := gen.NewNode(aquadb.NewMemDatabase(), g, rapid.SampledFrom([]*core.CacheConfig{gen.Archive(), gen.Pruning()}).Draw(t, "cache"), nil)
		if err != nil {
			t.Fatal(err)
		}
		defer func() { imp.Chain.Stop() }()
		pcfg := core.DefaultTxPoolConfig
		pcfg.Journal = ""
		pool := core.NewTxPool(pcfg, nc.Config, m.Chain)
		defer pool.Stop()
		mux := new(event.TypeMux)
		gate := &gateEngine{Engine: m.Engine, started: make(chan *types.Block), release: make(chan struct{})}
		mn := miner.New(&minerBackend{n: m, pool: pool}, nc.Config, mux, gate)
		sub := mux.Subscribe(core.NewMinedBlockEvent{})
		defer sub.Unsubscribe()

		addTxs := func() int {
			head := m.Chain.CurrentBlock()
			st, err := state.New(head.Root(), state.NewDatabase(m.DB))
			if err != nil {
				t.Fatalf("state: %v", err)
			}
			next := new(big.Int).Add(head.Number(), big.NewInt(1))
			added := 0
			for i, k := range gen.Keys[:3] {
				if rapid.IntRange(0, 2).Draw(t, "skipkey") == 0 {
					continue
				}
				if rapid.IntRange(0, 3).Draw(t, "overspend") == 0 {
					// two transfers that are each affordable at the head but not one after the other: the pool
					// takes both, the block builder must leave the second out without keeping any of its effects
					bal, n := st.GetBalance(k.Addr), st.GetNonce(k.Addr)
					v := new(big.Int).Div(new(big.Int).Mul(bal, big.NewInt(6)), big.NewInt(10))
					to := gen.Keys[7].Addr
					ok := 0
					for j := uint64(0); j < 2; j++ {
						if pool.AddLocal(gen.SignedTx(nc.Config, next, k, n+j, &to, v, 21000, big.NewInt(2), nil)) == nil {
							ok++
						}
					}
					if ok == 2 {
						ev.Label("pool-holds-tx-that-fails-at-execution")
					}
					added += ok
					continue
				}
				tx, _ := gen.DrawTx(t, gen.TxCtx{Config: nc.Config, Num: next, State: st, GasLeft: 1_000_000, Keys: gen.Keys[i : i+1],
					Kinds: []string{"transfer", "store-set", "store-clear", "emit", "reverter", "bouncer", "forward", "create", "creator", "multistore"}})
				_ = k
				if tx == nil {
					continue
				}
				if tx.GasPrice().Sign() == 0 {
					continue // the pool's default price floor refuses free transactions
				}
				if err := pool.AddLocal(tx); err == nil {
					added++
				}
			}
			return added
		}
		added := addTxs()
		mn.Start(gen.Keys[5].Addr)
		defer mn.Stop()
		want := ev.Pick(3, 6)
		got := 0
		withTxs := false
		deadline := time.After(90 * time.Second)
	loop:
		for got < want {
			select {
			case e := <-sub.Chan():
				if e == nil {
					break loop
				}
				block := e.Data.(core.NewMinedBlockEvent).Block
				// the miner's own record of the block
				mreceipts := m.Chain.GetReceiptsByHash(block.Hash())
				if _, err := imp.Chain.InsertChain(types.Blocks{block}); err != nil {
					t.Fatalf("a block assembled by the node's own miner (height %v, %d txs) was rejected by the import path: %v", block.Number(), len(block.Transactions()), err)
				}
				nd := &gen.TNode{Block: block, Receipts: mreceipts, Index: int(block.NumberU64()), Height: block.NumberU64()}
				checkCommitments(t, imp, nd, fmt.Sprintf("importer of mined block %v (config %s)", block.Number(), nc.Name))
				checkCommitments(t, m, nd, "miner's own chain")
				wa := stateOf(t, m, block.Root(), "miner state")
				wb := stateOf(t, imp, block.Root(), "importer state")
				if d := gen.Diff(wa, wb); len(d) != 0 {
					t.Fatalf("miner and importer hold different state for block %v", block.Number())
				}
				got++
				ev.Label("miner-block-imported")
				if len(block.Transactions()) > 0 {
					withTxs = true
					ev.Label("miner-block-with-txs")
				}
				added += addTxs()
			case <-gate.started:
				// a block is being sealed: transactions may reach the pool right now
				if rapid.IntRange(0, 2).Draw(t, "lateTxs") > 0 {
					if n := addTxs(); n > 0 {
						added += n
						ev.Label("tx-arrived-while-sealing", "pool-holds-tx-that-fails-at-execution")
						time.Sleep(5 * time.Millisecond) // let the worker see the pool event before the seal returns
					}
				}
				select {
				case gate.release <- struct{}{}:
				case <-time.After(2 * time.Second): // that work was aborted meanwhile
				}
			case <-deadline:
				ev.Label("miner-timeout")
				break loop
			}
		}
		ev.Case(withTxs, []byte(fmt.Sprintf("miner:%s:%d:%d:%x", nc.Name, got, added, m.Chain.CurrentBlock().Hash())), "config:"+nc.Name)
	})
}
