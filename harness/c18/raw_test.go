package c18

// Byte-level entry: raw JSON-RPC request bodies posted to the HTTP endpoint of a
// node running in *this* process, which the driver starts with a scrubbed
// environment (no UNSAFE_* variable), i.e. the default environment. Oracle: the
// keystore signing counter does not move. Used by the saved corpus
// (/verif/corpus/C18/*.json), by the seeds of FuzzRawRequest in the quick tier
// and by coverage-guided fuzzing in the thorough tier.
//
// Only HTTP is used here: on HTTP a panicking handler is recovered by the rpc
// server, on persistent connections it kills the process (see FINDINGS.md,
// observations), which would drown the signing oracle in unrelated crashes.

import (
	"bytes"
	"encoding/json"
	"io"
	"net/http"
	"os"
	"path/filepath"
	"strings"
	"sync"
	"testing"
	"time"

	"gitlab.com/aquachain/aquachain/aqua/accounts/keystore"
	"verifharness/ev"
)

var (
	rawOnce sync.Once
	rawFx   *fixture
	rawErr  error
	rawMu   sync.Mutex
	rawHTTP = &http.Client{Timeout: 4 * time.Second}
)

func processEnvIsDefault() bool {
	for _, kv := range os.Environ() {
		k := strings.SplitN(kv, "=", 2)[0]
		if strings.HasPrefix(strings.ToUpper(k), "UNSAFE_") {
			return false
		}
	}
	_, err := os.Stat(".env")
	return err != nil
}

func rawFixture() (*fixture, error) {
	rawOnce.Do(func() {
		dir, err := os.MkdirTemp("", "c18raw-")
		if err != nil {
			rawErr = err
			return
		}
		rawFx, rawErr = startFixture(dir)
	})
	return rawFx, rawErr
}

// methodsOf decodes the request the way the server does (encoding/json into a
// struct with a "method" field; a leading '[' means batch) and returns the
// method names it will dispatch on.
func methodsOf(body []byte) []string {
	type req struct {
		Method string `json:"method"`
	}
	trim := bytes.TrimLeft(body, " \t\r\n")
	var out []string
	if len(trim) > 0 && trim[0] == '[' {
		var rs []req
		if json.Unmarshal(trim, &rs) == nil {
			for _, r := range rs {
				out = append(out, r.Method)
			}
		}
		return out
	}
	var r req
	dec := json.NewDecoder(bytes.NewReader(trim))
	if dec.Decode(&r) == nil {
		out = append(out, r.Method)
	}
	return out
}

func wireName(m string) string {
	if strings.HasPrefix(m, "eth_") {
		m = "aqua_" + m[4:]
	}
	return m
}

// checkRaw posts one body and judges it. Returns false when the input was skipped.
func checkRaw(fail func(string, ...interface{}), body []byte) bool {
	if !processEnvIsDefault() {
		return false
	}
	if len(body) > 8192 {
		return false
	}
	names := methodsOf(body)
	for _, m := range names {
		m = wireName(m)
		if _, bad := excludedMethods[m]; bad {
			return false
		}
		if strings.HasSuffix(m, "_subscribe") { // the subscription form of an excluded method
			for ex := range excludedMethods {
				if strings.Contains(string(body), strings.SplitN(ex, "_", 2)[1]) {
					return false
				}
			}
		}
		if m == "personal_signAndSendTransaction" && ev.Known(knownAlias) {
			ev.Excluded(knownAlias)
			return false
		}
	}
	fx, err := rawFixture()
	if err != nil {
		fail("harness: cannot start node: %v", err)
		return false
	}
	rawMu.Lock()
	defer rawMu.Unlock()
	fx.restore()
	before := keystore.VerifSignCount()
	resp, err := rawHTTP.Post(fx.httpURL, "application/json", bytes.NewReader(body))
	var answer []byte
	if err == nil {
		answer, _ = io.ReadAll(io.LimitReader(resp.Body, 4096))
		resp.Body.Close()
	}
	after := keystore.VerifSignCount()
	ev.Case(len(names) > 0 && (bytes.Contains(bytes.ToLower(body), []byte(strings.ToLower(fx.acctA.Address.Hex()[2:]))) || bytes.Contains(bytes.ToLower(body), []byte(strings.ToLower(fx.acctB.Address.Hex()[2:])))),
		append([]byte("raw:"), body...), "raw-request")
	if after != before {
		fail("raw HTTP request produced %d signature(s) in the default environment\n request: %s\n answer: %s", after-before, body, answer)
	}
	return true
}

func rawSeeds() [][]byte {
	A := "0x" + strings.ToLower("71562b71999873DB5b286dF957af199Ec94617F7")
	B := "0x" + strings.ToLower("703c4b2bD70c169f5717101CaeE543299Fc946C7")
	C := "0x" + strings.ToLower("0D3ab14BBaD3D99F4203bd7a11aCB94882050E7e")
	tx := func(from string) string { return `{"from":"` + from + `","to":"` + C + `","value":"0x1"}` }
	full := func(from string) string {
		return `{"from":"` + from + `","to":"` + C + `","gas":"0x5208","gasPrice":"0x3b9aca00","value":"0x1","nonce":"0x0"}`
	}
	s := []string{
		`{"jsonrpc":"2.0","id":1,"method":"rpc_modules","params":[]}`,
		`{"jsonrpc":"2.0","id":1,"method":"aqua_sign","params":["` + A + `","0x68656c6c6f"]}`,
		`{"jsonrpc":"2.0","id":1,"method":"eth_sign","params":["` + A + `","0x68656c6c6f"]}`,
		`{"jsonrpc":"2.0","id":"x","method":"aqua_signTransaction","params":[` + full(A) + `]}`,
		`{"jsonrpc":"2.0","id":1,"method":"aqua_sendTransaction","params":[` + tx(A) + `]}`,
		`{"jsonrpc":"2.0","id":1,"method":"eth_sendTransaction","params":[` + tx(A) + `]}`,
		`{"jsonrpc":"2.0","id":1,"method":"personal_sign","params":["0x68656c6c6f","` + B + `","` + passB + `"]}`,
		`{"jsonrpc":"2.0","id":1,"method":"personal_signTransaction","params":[` + full(B) + `,"` + passB + `"]}`,
		`{"jsonrpc":"2.0","id":1,"method":"personal_sendTransaction","params":[` + tx(B) + `,"` + passB + `"]}`,
		`{"jsonrpc":"2.0","id":1,"method":"personal_unlockAccount","params":["` + B + `","` + passB + `",0]}`,
		`[{"jsonrpc":"2.0","id":1,"method":"personal_unlockAccount","params":["` + B + `","` + passB + `"]},{"jsonrpc":"2.0","id":2,"method":"aqua_sendTransaction","params":[` + tx(B) + `]}]`,
		`[{"jsonrpc":"2.0","id":1,"method":"aqua_sign","params":["` + A + `","0x00"]},{"jsonrpc":"2.0","id":2,"method":"personal_sign","params":["0x00","` + A + `","` + passA + `"]}]`,
		`{"jsonrpc":"2.0","id":1,"method":"aqua_resend","params":[` + full(A) + `,"0x77359400","0x5208"]}`,
		`{"jsonrpc":"2.0","id":1,"method":"aqua_Sign","params":["` + A + `","0x68656c6c6f"]}`,
		`{"jsonrpc":"2.0","id":1,"method":"Aqua_sign","params":["` + A + `","0x68656c6c6f"]}`,
		`{"jsonrpc":"2.0","id":1,"method":"aqua_sign\u0000","params":["` + A + `","0x68656c6c6f"]}`,
		`{"jsonrpc":"2.0","id":1,"method":"sign","params":["` + A + `","0x68656c6c6f"]}`,
		`{"jsonrpc":"2.0","id":1,"Method":"aqua_sign","method":"eth_sign","params":["` + A + `","0x68656c6c6f"]}`,
		`{"jsonrpc":"2.0","id":1,"method":"personal_subscribe","params":["sign","0x00","` + A + `","` + passA + `"]}`,
		`{"jsonrpc":"2.0","id":1,"method":"aqua_subscribe","params":["sendTransaction",` + tx(A) + `]}`,
		`{"jsonrpc":"2.0","id":1,"method":"personal_importRawKey","params":["49a7b37aa6f6645917e7b807e9d1c00d4fa71f18343b0d4122a4d2df64dd6fee","pw"]}`,
		`{"jsonrpc":"2.0","id":1,"method":"miner_setAquabase","params":["` + A + `"]}`,
		`{"jsonrpc":"2.0","id":1,"method":"testing_getBlockTemplate","params":["` + A + `"]}`,
	}
	out := make([][]byte, len(s))
	for i := range s {
		out[i] = []byte(s[i])
	}
	return out
}

// TestCorpusReplay posts every saved request of /verif/corpus/C18 (raw JSON-RPC bodies).
func TestCorpusReplay(t *testing.T) {
	dir := os.Getenv("VERIF_CORPUS")
	ents, _ := os.ReadDir(dir)
	n := 0
	for _, e := range ents {
		if !strings.HasSuffix(e.Name(), ".json") {
			continue
		}
		b, err := os.ReadFile(filepath.Join(dir, e.Name()))
		if err != nil {
			continue
		}
		if checkRaw(func(f string, a ...interface{}) { t.Errorf(e.Name()+": "+f, a...) }, bytes.TrimSpace(b)) {
			n++
			ev.Label("corpus")
		}
	}
	ev.Add("corpus-requests", int64(n))
}

// FuzzRawRequest: coverage-guided search over raw request bodies (default environment, HTTP).
func FuzzRawRequest(f *testing.F) {
	for _, s := range rawSeeds() {
		f.Add(s)
	}
	f.Fuzz(func(t *testing.T, body []byte) {
		checkRaw(func(f string, a ...interface{}) { t.Fatalf(f, a...) }, body)
	})
}
