// C18 — No RPC endpoint can make the node sign unless explicitly opted in.
//
// Oracle: keystore.VerifSignCount() (hook, build tag verif) read around every
// RPC call made to a real node.Node over in-proc, IPC, HTTP and WS. The opt-in
// switches are package-level variables of rpc initialised from the environment,
// so every environment configuration is one child process: this test binary
// re-executes itself (TestChild) with a scrubbed environment in an empty
// working directory. See envs_test.go (configurations and what the statement
// demands of each), node_test.go (node, keystore, method universe),
// argsgen_test.go (type-directed argument generator), child_test.go (the sweep).
package c18

import (
	"encoding/binary"
	"encoding/json"
	"fmt"
	"os"
	"os/exec"
	"path/filepath"
	"sort"
	"strings"
	"sync"
	"testing"
	"time"

	"verifharness/ev"
	"verifharness/gen"
)

const knownAlias = "default-env/personal_signAndSendTransaction"

var knownKeys = []string{knownAlias}

func TestMain(m *testing.M) {
	if os.Getenv("C18_CHILD") == "1" {
		gen.Quiet()
		os.Exit(m.Run())
	}
	gen.Quiet()
	ev.MustHit("env:default", "children-all-completed",
		"transport:inproc", "transport:ipc", "transport:http", "transport:ws",
		"nontrivial:inproc", "nontrivial:ipc", "nontrivial:http", "nontrivial:ws",
		"ns:admin", "ns:aqua", "ns:btc", "ns:debug", "ns:miner", "ns:net", "ns:personal", "ns:rpc", "ns:testing", "ns:txpool", "ns:web3",
		"reached:unlocked-account", "reached:right-passphrase", "names:locked-account", "pass:wrong", "txargs:mirror-pending",
		"wire-alias", "sent-in-batch", "subscription", "witness",
		"positive-control-fired", "expect:must-not", "expect:must")
	if !ev.Thorough() {
		// must-hit classes are judged per shard process; in the thorough tier the explicit-negative,
		// mixed and unparsable environments are spread over the shards (see the merged label
		// histogram), every shard has the default environment and at least one opted-in transport
		ev.MustHit("env-kind:falsy", "env:only-inproc", "env:only-ipc", "env:only-http", "env:only-ws", "env:only-global", "env:all-negative")
	}
	var excl []string
	for k, v := range excludedMethods {
		excl = append(excl, k+" ("+v+")")
	}
	sort.Strings(excl)
	ev.Main(m, ev.Config{
		Property: "C18",
		Level:    "exploration",
		Rule: "one child process per environment configuration (quick: default + each of the 5 UNSAFE_* variables alone + all five set to explicit negatives; thorough: all 32 combinations with varied affirmative spellings, explicit negatives, unparsable values, look-alike names; the default environment in every shard). " +
			"Each child starts a real node.Node (aqua service, fake PoW, in-memory chain, real light-scrypt keystore with one unlocked and one locked account whose keys the harness also holds, a pending pool transaction from the unlocked one) with in-proc, IPC, HTTP and WS endpoints and every namespace of the in-proc rpc_modules whitelisted on HTTP/WS. " +
			"Method universe = reflection over the API list the node registered (node.Node.rpcAPIs) ∪ the callbacks found in each endpoint's rpc.Server registry ∪ RegisterName's own name list ∪ wire aliases (eth_X for aqua_X, bare names for btc_). " +
			"Per transport: a fixed list of documented signing calls (witnesses / positive control), then per method N calls (quick 20, thorough 24) whose arguments are drawn with rapid from the reflected parameter types; 1 in 12 calls is sent inside a JSON-RPC batch; subscriptions are created through <ns>_subscribe. " +
			"Verdict per call: signing-counter delta in the child. evaluation = one RPC call. non-trivial = the arguments name a keystore account (locked or unlocked) and the call reached a registered method (answer is neither method-not-found nor invalid-params); distinct by hash(env, transport, method, params JSON).",
		Assumptions: []string{
			"keystore.VerifSignCount counts every signature made with a keystore key (hook calls sit in SignHash, SignHashAllowed, SignHashOK, SignTx, SignHashWithPassphrase, SignTxWithPassphrase)",
			"what the statement demands per transport T: variable of T explicitly affirmative (1,true,yes,on,enable,enabled) => documented signing methods over T must sign; variable of T unset/empty/explicit negative and UNSAFE_RPC_SIGNING unset/negative => no call over T may sign; otherwise (UNSAFE_RPC_SIGNING affirmative, or an unparsable value) the statement does not decide for T and only the other transports are judged",
			"consensus engine is aquahash (fake seal): block sealing does not use keystore keys; a clique chain, where miner_start signs blocks by design, is out of scope",
			"a signature is attributed to the call during which the counter moved; calls are strictly sequential in the child, locked-down transports are exercised before opted-in ones, and the counter is checked again 300 ms after the last call",
			"state the generated calls may change (lock state of the two accounts, pending transaction, mining, GC percent) is restored before every call, outside the measured window",
			"methods never called (disruptive, none can sign): " + strings.Join(excl, "; "),
		},
	})
}

// ---------- running children ----------

type childRun struct {
	env       envConf
	outs      []*childOut // one per child process segment (a crashed child is resumed after the method in flight)
	crashedAt []string    // transport/method in flight when a segment died
	completed bool
	log       string
	err       error
	wall      time.Duration
}

func workRoot(t *testing.T) string {
	d, err := os.MkdirTemp("", "c18-")
	if err != nil {
		t.Fatal(err)
	}
	return d
}

const maxSegments = 6

// failFast is closed when some environment has reported a violation: the run is
// red whatever the others find, so they are stopped instead of being waited for.
var (
	failFast     = make(chan struct{})
	failFastOnce sync.Once
)

// runChild runs one environment configuration to completion: a child process,
// and, if it dies while a method is in flight (a handler panic on a persistent
// connection is not recovered by the rpc server and kills the node), further
// child processes that continue after that method.
func runChild(root string, idx int, conf childConf, timeout time.Duration) childRun {
	start := time.Now()
	res := childRun{env: conf.Env}
	deadline := start.Add(timeout)
	for seg := 0; seg < maxSegments; seg++ {
		o, crashed, log, err := runSegment(root, idx, seg, conf, time.Until(deadline))
		res.log, res.err = log, err
		if o != nil {
			res.outs = append(res.outs, o)
			if len(o.Violations) > 0 {
				failFastOnce.Do(func() { close(failFast) })
				break
			}
			if o.Completed {
				res.completed = true
				break
			}
			if o.HarnessError != "" {
				break
			}
		}
		if crashed == "" || time.Now().After(deadline) {
			break
		}
		res.crashedAt = append(res.crashedAt, crashed)
		parts := strings.SplitN(crashed, "\t", 2)
		conf.ResumeTransport, conf.ResumeMethod = parts[0], parts[1]
	}
	res.wall = time.Since(start)
	return res
}

func runSegment(root string, idx, seg int, conf childConf, timeout time.Duration) (out *childOut, crashedAt, logTail string, err error) {
	dir := filepath.Join(root, fmt.Sprintf("e%d.%d", idx, seg))
	cwd := filepath.Join(dir, "cwd")
	os.MkdirAll(cwd, 0o700)
	os.MkdirAll(filepath.Join(dir, "tmp"), 0o700)
	conf.Dir = dir
	conf.Out = filepath.Join(dir, "out.json")
	conf.Progress = filepath.Join(dir, "progress")
	cb, _ := json.Marshal(conf)
	confPath := filepath.Join(dir, "conf.json")
	os.WriteFile(confPath, cb, 0o600)
	exe, e := os.Executable()
	if e != nil {
		exe = os.Args[0]
	}
	cmd := exec.Command(exe, "-test.run", "^TestChild$", "-test.count", "1", "-test.timeout", fmt.Sprintf("%ds", int(timeout.Seconds())+30))
	cmd.Dir = cwd
	// scrubbed environment: nothing is inherited
	cmd.Env = append([]string{
		"PATH=/usr/local/bin:/usr/bin:/bin",
		"HOME=" + dir,
		"TMPDIR=" + filepath.Join(dir, "tmp"),
		"C18_CHILD=1",
		"C18_CONF=" + confPath,
	}, conf.Env.environ()...)
	logPath := filepath.Join(dir, "log")
	lf, _ := os.Create(logPath)
	cmd.Stdout, cmd.Stderr = lf, lf
	if err = cmd.Start(); err != nil {
		lf.Close()
		return nil, "", "", err
	}
	done := make(chan error, 1)
	go func() { done <- cmd.Wait() }()
	timedOut := false
	select {
	case err = <-done:
	case <-failFast:
		cmd.Process.Kill()
		<-done
		timedOut = true
		err = fmt.Errorf("stopped: another environment reported a violation")
	case <-time.After(timeout):
		cmd.Process.Kill()
		<-done
		timedOut = true
		err = fmt.Errorf("child timed out after %v", timeout.Round(time.Second))
	}
	lf.Close()
	if b, e := os.ReadFile(logPath); e == nil {
		if len(b) > 5000 {
			b = b[len(b)-5000:]
		}
		logTail = string(b)
	}
	if b, e := os.ReadFile(conf.Out); e == nil {
		var o childOut
		if json.Unmarshal(b, &o) == nil {
			out = &o
		}
	}
	if !timedOut && (out == nil || !out.Completed) {
		if b, e := os.ReadFile(conf.Progress); e == nil && strings.Contains(string(b), "\t") {
			crashedAt = string(b)
		}
	}
	return out, crashedAt, logTail, err
}

func known() []string {
	var k []string
	for _, key := range knownKeys {
		if ev.Known(key) {
			k = append(k, key)
		}
	}
	return k
}

// merge feeds one child's counts into the parent's evidence.
func merge(o *childOut) {
	for _, h := range o.NTHashes {
		var b [8]byte
		binary.BigEndian.PutUint64(b[:], h)
		ev.Case(true, b[:])
	}
	for i := int64(0); i < o.Trivial; i++ {
		ev.Case(false, nil)
	}
	for l, n := range o.Labels {
		for i := int64(0); i < n; i++ {
			ev.Label(l)
		}
	}
	for k, n := range o.Excluded {
		for i := int64(0); i < n; i++ {
			ev.Excluded(k)
		}
	}
	for k, n := range o.Extra {
		ev.Add(k, n)
	}
	for _, s := range o.Samples {
		ev.Sample(s)
	}
}

func TestSigningLockdown(t *testing.T) {
	var envs []envConf
	if ev.Thorough() {
		all := thoroughEnvs()
		envs = append(envs, all[0]) // default environment in every shard
		for i, e := range all[1:] {
			if i%ev.NShards() == ev.Shard() {
				envs = append(envs, e)
			}
		}
	} else {
		all := quickEnvs()
		envs = append(envs, all[0])
		for i, e := range all[1:] {
			if i%ev.NShards() == ev.Shard() {
				envs = append(envs, e)
			}
		}
	}
	calls := ev.Pick(20, 24)
	par := ev.Pick(7, 3)
	// generous: a child takes ~30 s on an idle machine, several times that on a loaded one;
	// a child that runs out of time makes the run inconclusive, never a violation
	timeout := time.Duration(ev.Pick(340, 1300)) * time.Second
	root := workRoot(t)
	defer os.RemoveAll(root)

	results := make([]childRun, len(envs))
	var wg sync.WaitGroup
	sem := make(chan struct{}, par)
	for i := range envs {
		wg.Add(1)
		go func(i int) {
			defer wg.Done()
			sem <- struct{}{}
			defer func() { <-sem }()
			select {
			case <-failFast:
				results[i] = childRun{env: envs[i], err: fmt.Errorf("not started: another environment reported a violation")}
				return
			default:
			}
			conf := childConf{Env: envs[i], Seed: uint64(ev.Seed())*131 + uint64(ev.Shard())*17 + uint64(i), Calls: calls, Known: known(), Mode: "sweep",
				Only: os.Getenv("C18_ONLY")}
			results[i] = runChild(root, i, conf, timeout)
		}(i)
	}
	wg.Wait()

	completed := 0
	maxMethods := 0
	for _, r := range results {
		if !r.completed {
			// no verdict from this environment (child could not set up, timed out, or kept
			// dying): not a violation; the run is inconclusive because the must-hit class
			// children-all-completed stays at zero. Violations seen before that still count.
			msg := ""
			if n := len(r.outs); n > 0 {
				msg = r.outs[n-1].HarnessError
			}
			stopped := r.err != nil && strings.Contains(r.err.Error(), "another environment reported a violation")
			hasViol := false
			for _, o := range r.outs {
				hasViol = hasViol || len(o.Violations) > 0
			}
			if !stopped && !hasViol {
				fmt.Printf("C18: environment %s gave no verdict (%v %s)\n%s\n", r.env.Name, r.err, msg, r.log)
			}
		} else {
			completed++
			ev.Label("env:" + r.env.Name)
		}
		ev.Add("child-wall-ms", int64(r.wall/time.Millisecond))
		for _, at := range r.crashedAt {
			// a call killed the node process (handler panic): no signing verdict for the rest
			// of that method's calls on that transport; listed in the evidence
			ev.Label("node-died-during:" + strings.Replace(at, "\t", "/", 1))
			ev.Add("node-deaths", 1)
		}
		for _, o := range r.outs {
			merge(o)
			if o.Methods > maxMethods {
				maxMethods = o.Methods
			}
			for key, trs := range o.KnownSeen {
				if len(trs) > 0 {
					ev.KnownFinding(key)
					ev.Sample(map[string]interface{}{"known_finding": key, "env": r.env.Name, "reproduced_over": trs})
				}
			}
			for i, v := range o.Violations {
				p := ev.SaveCase(fmt.Sprintf("lockdown-%s-%d", r.env.Name, i), v)
				t.Errorf("env %s: %s\n  call: %s %s over %s -> %s\n  case file: %s", r.env.Name, v.What, v.Method, string(v.Params), v.Transport, v.Result, p)
			}
			if os.Getenv("C18_SLOW") != "" {
				for k, d := range o.Slow {
					fmt.Printf("slow %s %s %.1fs\n", r.env.Name, k, d)
				}
			}
		}
	}
	if ev.Shard() == 0 {
		ev.Add("methods-in-universe", int64(maxMethods))
	}
	ev.Add("environments", int64(len(envs)))
	if completed == len(envs) {
		ev.Label("children-all-completed")
	}
}

// TestReplay re-runs one saved call (case file written by ev.SaveCase) in a
// fresh child with the case's environment.
func TestReplay(t *testing.T) {
	p := ev.ReplayPath()
	if p == "" {
		t.Skip("no VERIF_REPLAY")
	}
	b, err := os.ReadFile(p)
	if err != nil {
		t.Fatal(err)
	}
	var cs callCase
	if err := json.Unmarshal(b, &cs); err != nil {
		t.Fatalf("not a C18 case file: %v", err)
	}
	// the expectation is recomputed from the variables, not trusted from the file
	env := mkEnv(cs.Env.Name, cs.Env.Kind, cs.Env.Vars)
	cs.Env = env
	root := workRoot(t)
	defer os.RemoveAll(root)
	r := runChild(root, 0, childConf{Env: env, Seed: 1, Calls: 1, Mode: "replay", Replay: &cs}, 120*time.Second)
	fmt.Print(r.log)
	nv := 0
	for _, o := range r.outs {
		for _, v := range o.Violations {
			nv++
			t.Errorf("%s", v.What)
		}
	}
	if nv == 0 && !r.completed {
		t.Fatalf("replay child gave no verdict: %v", r.err)
	}
}
