package c18

import (
	"context"
	"fmt"
	"math/big"
	"net"
	"os"
	"path/filepath"
	"reflect"
	"runtime"
	"runtime/debug"
	"runtime/pprof"
	"runtime/trace"
	"sort"
	"strings"
	"time"
	"unsafe"

	"gitlab.com/aquachain/aquachain/aqua"
	"gitlab.com/aquachain/aquachain/aqua/accounts"
	"gitlab.com/aquachain/aquachain/aqua/accounts/keystore"
	"gitlab.com/aquachain/aquachain/common"
	"gitlab.com/aquachain/aquachain/consensus/aquahash"
	"gitlab.com/aquachain/aquachain/core/types"
	"gitlab.com/aquachain/aquachain/crypto"
	"gitlab.com/aquachain/aquachain/node"
	"gitlab.com/aquachain/aquachain/p2p"
	"gitlab.com/aquachain/aquachain/params"
	"gitlab.com/aquachain/aquachain/rlp"
	"gitlab.com/aquachain/aquachain/rpc"
	rpcclient "gitlab.com/aquachain/aquachain/rpc/rpcclient"
	"verifharness/gen"
)

const (
	chainID = 1405
	passA   = "correct horse A"
	passB   = "battery staple B"
	passBad = "not the passphrase"
)

// fixture is the running node of one child process.
type fixture struct {
	dir     string
	stack   *node.Node
	svc     *aqua.Aquachain
	ks      *keystore.KeyStore
	cfg     *params.ChainConfig
	acctA   accounts.Account // unlocked
	acctB   accounts.Account // locked
	addrC   common.Address   // funded, not in the keystore (harness holds the key)
	pending *types.Transaction
	clients map[string]*rpcclient.Client
	modules map[string][]string // per transport: namespaces reported by rpc_modules
	ipcPath string
	httpURL string
	wsURL   string
	genesis common.Hash
	sigC    []byte // a signature made by the harness' own key C (for ecRecover arguments)
	rawC    []byte // a raw transaction signed by C
}

var chainCfgRegistered *params.ChainConfig

func chainConfig() *params.ChainConfig {
	if chainCfgRegistered == nil {
		c := *gen.ConfigByName("all-at-0").Config
		c.ChainId = big.NewInt(chainID)
		chainCfgRegistered = &c
		params.AddChainConfig("c18", chainCfgRegistered)
	}
	return chainCfgRegistered
}

func freePort() int {
	l, err := net.Listen("tcp4", "127.0.0.1:0")
	if err != nil {
		panic(err)
	}
	defer l.Close()
	return l.Addr().(*net.TCPAddr).Port
}

// buildStack creates (does not start) a node with the aqua service registered.
// modules == nil starts only the in-process endpoint.
func buildStack(dir string, modules []string, full bool) (*node.Node, error) {
	cfg := chainConfig()
	conf := &node.Config{
		Context:           context.Background(),
		CloseMain:         func(error) {},
		Name:              "testc18",
		DataDir:           "", // ephemeral: in-memory chain database, nothing under $HOME
		KeyStoreDir:       filepath.Join(dir, "keystore"),
		UseLightweightKDF: true,
		NoCountdown:       true,
		P2P:               &p2p.Config{ChainId: chainID, NoDiscovery: true, MaxPeers: 0, ListenAddr: "127.0.0.1:0", NoDial: true},
		RPCAllowIP:        []string{"127.0.0.1/32"},
		HTTPVirtualHosts:  []string{"*"},
	}
	if full {
		conf.IPCPath = filepath.Join(dir, "n.ipc")
		conf.HTTPHost, conf.HTTPPort = "127.0.0.1", freePort()
		conf.WSHost, conf.WSPort = "127.0.0.1", freePort()
		conf.HTTPModules, conf.WSModules = modules, modules
		conf.WSOrigins = []string{"*"}
	}
	stack, err := node.New(conf)
	if err != nil {
		return nil, err
	}
	acfg := aqua.NewDefaultConfig()
	acfg.Genesis = gen.Genesis(cfg, 0)
	acfg.ChainId = chainID
	// Real proof-of-work in test mode rather than the fake sealer: with the fake sealer
	// miner_start / aqua_getWork mine several blocks per millisecond, block timestamps run
	// ahead of the clock, and the worker then sleeps holding the lock every "pending"
	// query needs. With real PoW no block is found within the microseconds the miner runs
	// (restore() stops it before the next call). Neither sealer uses keystore keys.
	acfg.Aquahash = &aquahash.Config{PowMode: aquahash.ModeTest}
	acfg.Aquabase = gen.Keys[2].Addr
	acfg.GasPrice = 1
	acfg.TxPool.Journal = ""
	nodename := "test/c18/x/y"
	err = stack.Register(func(nctx *node.ServiceContext) (node.Service, error) {
		return aqua.New(context.Background(), nctx, acfg, nodename)
	})
	if err != nil {
		return nil, err
	}
	return stack, nil
}

func startFixture(dir string) (*fixture, error) {
	os.MkdirAll(filepath.Join(dir, "keystore"), 0o700)
	// first start: in-process only, to learn every namespace the node serves
	st0, err := buildStack(dir, nil, false)
	if err != nil {
		return nil, fmt.Errorf("first node: %v", err)
	}
	if err := st0.Start(context.Background()); err != nil {
		return nil, fmt.Errorf("first start: %v", err)
	}
	c0, err := st0.Attach(context.Background(), "c18-probe")
	if err != nil {
		return nil, err
	}
	mods, err := c0.SupportedModules()
	if err != nil {
		return nil, fmt.Errorf("rpc_modules: %v", err)
	}
	// Wait until the filter event loop this start created is running before stopping the
	// node: it subscribes to the tx pool when it is first scheduled, and a pool that was
	// closed in the meantime hands it a nil subscription (nil dereference, process dies).
	// Installing a filter is handled by that loop, so the call returns only once it runs.
	var fid string
	if err := c0.Call(&fid, "aqua_newBlockFilter"); err == nil {
		var ok bool
		c0.Call(&ok, "aqua_uninstallFilter", fid)
	}
	c0.Close()
	if err := st0.Stop(); err != nil {
		return nil, fmt.Errorf("first stop: %v", err)
	}
	var modList []string
	for m := range mods {
		modList = append(modList, m)
	}
	sort.Strings(modList)

	// real start: every namespace whitelisted on HTTP and WS
	stack, err := buildStack(dir, modList, true)
	if err != nil {
		return nil, err
	}
	if err := stack.Start(context.Background()); err != nil {
		return nil, fmt.Errorf("start: %v", err)
	}
	fx := &fixture{dir: dir, stack: stack, cfg: chainConfig(), clients: map[string]*rpcclient.Client{}, modules: map[string][]string{}}
	if err := stack.Service(&fx.svc); err != nil {
		return nil, fmt.Errorf("aqua service: %v", err)
	}
	fx.genesis = fx.svc.BlockChain().Genesis().Hash()
	am := stack.AccountManager()
	if am == nil {
		return nil, fmt.Errorf("no account manager")
	}
	fx.ks = am.Backends(keystore.KeyStoreType)[0].(*keystore.KeyStore)
	if fx.acctA, err = importOrFind(fx.ks, gen.Keys[0], passA); err != nil {
		return nil, err
	}
	if fx.acctB, err = importOrFind(fx.ks, gen.Keys[1], passB); err != nil {
		return nil, err
	}
	fx.addrC = gen.Keys[2].Addr
	if err := fx.ks.Unlock(fx.acctA, passA); err != nil {
		return nil, err
	}
	fx.ks.Lock(fx.acctB.Address)

	// harness-made artefacts (signed with keys the harness holds itself, never through the keystore)
	msgHash := crypto.Keccak256([]byte("\x19Aquachain Signed Message:\n5hello"))
	sig, err := crypto.Sign(msgHash, gen.Keys[2].Priv)
	if err != nil {
		return nil, err
	}
	sig[64] += 27
	fx.sigC = sig
	rawTx := gen.SignedTx(fx.cfg, big.NewInt(0), gen.Keys[2], 0, &fx.acctB.Address, big.NewInt(3), 21000, big.NewInt(2_000_000_000), nil)
	fx.rawC, _ = rlp.EncodeToBytes(rawTx)

	if err := fx.ensurePending(); err != nil {
		return nil, err
	}

	// clients
	fx.ipcPath = stack.IPCEndpoint()
	fx.httpURL = "http://" + stack.HTTPEndpoint()
	fx.wsURL = "ws://" + stack.WSEndpoint()
	if fx.clients["inproc"], err = stack.Attach(context.Background(), "c18"); err != nil {
		return nil, err
	}
	if fx.clients["ipc"], err = rpcclient.DialIPC(context.Background(), fx.ipcPath); err != nil {
		return nil, fmt.Errorf("dial ipc: %v", err)
	}
	if fx.clients["http"], err = rpcclient.DialHTTP(fx.httpURL); err != nil {
		return nil, fmt.Errorf("dial http: %v", err)
	}
	if fx.clients["ws"], err = rpcclient.DialWebsocket(context.Background(), fx.wsURL, "http://localhost"); err != nil {
		return nil, fmt.Errorf("dial ws: %v", err)
	}
	for _, tr := range transports {
		m, err := fx.clients[tr].SupportedModules()
		if err != nil {
			return nil, fmt.Errorf("rpc_modules over %s: %v", tr, err)
		}
		for ns := range m {
			fx.modules[tr] = append(fx.modules[tr], ns)
		}
		sort.Strings(fx.modules[tr])
	}
	return fx, nil
}

func importOrFind(ks *keystore.KeyStore, k gen.Key, pass string) (accounts.Account, error) {
	for _, a := range ks.Accounts() {
		if a.Address == k.Addr {
			return a, nil
		}
	}
	return ks.ImportECDSA(k.Priv, pass)
}

// ensurePending makes sure the pool holds a pending transaction from the
// unlocked account A (signed by the harness with its own copy of the key).
func (fx *fixture) ensurePending() error {
	pool := fx.svc.TxPool()
	if fx.pending != nil && pool.Get(fx.pending.Hash()) != nil {
		return nil
	}
	nonce := pool.State().GetNonce(fx.acctA.Address)
	head := fx.svc.BlockChain().CurrentBlock().Number()
	tx := gen.SignedTx(fx.cfg, head, gen.Keys[0], nonce, &fx.addrC, big.NewInt(1000), 21000, big.NewInt(1_000_000_000), nil)
	if err := pool.AddLocal(tx); err != nil {
		// a transaction with this nonce may already be there (sent through an opted-in endpoint)
		if pend, _ := pool.Pending(); len(pend[fx.acctA.Address]) > 0 {
			fx.pending = pend[fx.acctA.Address][0]
			return nil
		}
		return fmt.Errorf("cannot add pending transaction: %v", err)
	}
	fx.pending = tx
	return nil
}

// restore puts the pieces of node state the generated calls may have changed
// back: A unlocked, B locked, a pending transaction from A, miner stopped,
// default GC settings. Called before every measured call, outside the measured
// window (the unlocked-probe itself uses the keystore).
func (fx *fixture) restore() {
	debug.SetGCPercent(100)
	trace.Stop()
	pprof.StopCPUProfile()
	runtime.SetBlockProfileRate(0)
	if fx.svc.IsMining() {
		fx.svc.StopMining()
	}
	probe := make([]byte, 32)
	if _, err := fx.ks.SignHash(fx.acctA, probe); err != nil {
		fx.ks.Unlock(fx.acctA, passA)
	}
	fx.ks.Lock(fx.acctB.Address)
	fx.ensurePending()
}

func (fx *fixture) stop() {
	for _, c := range fx.clients {
		if c != nil {
			c.Close()
		}
	}
	done := make(chan struct{})
	go func() { fx.stack.Stop(); close(done) }()
	select {
	case <-done:
	case <-time.After(5 * time.Second):
	}
}

// ---------- method universe ----------

type methodInfo struct {
	Full      string         // name as sent on the wire, e.g. personal_sign, eth_sign, getblockcount
	Namespace string         // registered namespace
	GoName    string         // Go method name
	Params    []reflect.Type // nil when unknown (then Untyped)
	Untyped   bool
	Sub       bool   // subscription: sent as <ns>_subscribe [name, args...]
	Source    string // apis | registry | alias | registerName
}

var (
	ctxType = reflect.TypeOf((*context.Context)(nil)).Elem()
	subType = reflect.TypeOf((*rpc.Subscription)(nil))
	errType = reflect.TypeOf((*error)(nil)).Elem()
)

func lowerFirst(s string) string {
	if s == "" {
		return s
	}
	return strings.ToLower(s[:1]) + s[1:]
}

// nodeAPIs returns the exact API list the node registered on its endpoints
// (node.Node.rpcAPIs, read through reflection because it is not exported), or,
// when that field cannot be read, the list rebuilt from exported constructors.
func nodeAPIs(fx *fixture) ([]rpc.API, string) {
	v := reflect.ValueOf(fx.stack).Elem()
	f := v.FieldByName("rpcAPIs")
	if f.IsValid() && f.Type() == reflect.TypeOf([]rpc.API{}) {
		apis := *(*[]rpc.API)(unsafe.Pointer(f.UnsafeAddr()))
		if len(apis) > 0 {
			return append([]rpc.API{}, apis...), "node.rpcAPIs"
		}
	}
	apis := []rpc.API{
		{Namespace: "admin", Service: node.NewPrivateAdminAPI(fx.stack)},
		{Namespace: "admin", Service: node.NewPublicAdminAPI(fx.stack)},
		{Namespace: "debug", Service: node.NewPublicDebugAPI(fx.stack)},
		{Namespace: "web3", Service: node.NewPublicWeb3API(fx.stack)},
	}
	apis = append(apis, fx.svc.APIs()...)
	return apis, "constructors"
}

func reflectAPI(api rpc.API, source string) []methodInfo {
	var out []methodInfo
	typ := reflect.TypeOf(api.Service)
	for i := 0; i < typ.NumMethod(); i++ {
		m := typ.Method(i)
		if m.PkgPath != "" {
			continue
		}
		mt := m.Type
		first := 1
		if mt.NumIn() >= 2 && mt.In(1) == ctxType {
			first = 2
		}
		mi := methodInfo{Namespace: api.Namespace, GoName: m.Name, Source: source, Params: []reflect.Type{}}
		for j := first; j < mt.NumIn(); j++ {
			mi.Params = append(mi.Params, mt.In(j))
		}
		if first == 2 && mt.NumOut() == 2 && mt.Out(0) == subType && mt.Out(1).Implements(errType) {
			mi.Sub = true
		}
		mi.Full = api.Namespace + "_" + lowerFirst(m.Name)
		out = append(out, mi)
	}
	return out
}

// registryMethods reads the callbacks actually registered on one endpoint's
// rpc.Server (unexported; read through reflection). Returns nil if the layout
// is not what this harness knows.
func registryMethods(fx *fixture, handlerField string) (out []methodInfo) {
	defer func() {
		if r := recover(); r != nil {
			out = nil
		}
	}()
	v := reflect.ValueOf(fx.stack).Elem().FieldByName(handlerField)
	if !v.IsValid() || v.IsNil() {
		return nil
	}
	services := v.Elem().FieldByName("services")
	if !services.IsValid() || services.Kind() != reflect.Map {
		return nil
	}
	for _, nsKey := range services.MapKeys() {
		svc := services.MapIndex(nsKey).Elem()
		for _, kind := range []string{"callbacks", "subscriptions"} {
			m := svc.FieldByName(kind)
			if !m.IsValid() || m.Kind() != reflect.Map {
				continue
			}
			for _, k := range m.MapKeys() {
				cb := m.MapIndex(k).Elem()
				mi := methodInfo{Namespace: nsKey.String(), Full: nsKey.String() + "_" + k.String(), Source: "registry", Sub: kind == "subscriptions", Untyped: true}
				at := cb.FieldByName("argTypes")
				if at.IsValid() && at.Kind() == reflect.Slice {
					// copy the []reflect.Type out of the unexported field
					types := make([]reflect.Type, at.Len())
					ok := true
					for i := 0; i < at.Len(); i++ {
						e := at.Index(i)
						if e.Kind() != reflect.Interface || e.IsNil() {
							ok = false
							break
						}
						// e holds a reflect.Type; its dynamic value is a *rtype
						p := reflect.NewAt(e.Type(), unsafe.Pointer(e.UnsafeAddr())).Elem().Interface()
						t, isT := p.(reflect.Type)
						if !isT {
							ok = false
							break
						}
						types[i] = t
					}
					if ok {
						mi.Params, mi.Untyped = types, false
					}
				}
				mth := cb.FieldByName("method")
				if mth.IsValid() {
					if n := mth.FieldByName("Name"); n.IsValid() && n.Kind() == reflect.String {
						mi.GoName = n.String()
					}
				}
				out = append(out, mi)
			}
		}
	}
	return out
}

var handlerFields = map[string]string{"inproc": "inprocHandler", "ipc": "ipcHandler", "http": "httpHandler", "ws": "wsHandler"}

// universe builds the list of wire method names to exercise.
func universe(fx *fixture) (list []methodInfo, info map[string]interface{}) {
	info = map[string]interface{}{}
	byName := map[string]methodInfo{}
	add := func(mi methodInfo) {
		old, seen := byName[mi.Full]
		if !seen || (old.Untyped && !mi.Untyped) {
			byName[mi.Full] = mi
		}
	}
	apis, src := nodeAPIs(fx)
	info["api_source"] = src
	info["api_count"] = len(apis)
	for _, api := range apis {
		for _, mi := range reflectAPI(api, "apis") {
			add(mi)
		}
		// the code's own rule for what is a callable method (minus what it filters)
		if names, err := rpc.NewServer().RegisterName(api.Namespace, api.Service); err == nil {
			for _, n := range names {
				sub := strings.HasPrefix(n, "Subscription: ")
				n = strings.TrimPrefix(n, "Subscription: ")
				if _, ok := byName[n]; !ok {
					add(methodInfo{Full: n, Namespace: api.Namespace, Untyped: true, Sub: sub, Source: "registerName"})
				}
			}
		}
	}
	// the metadata service every server registers for itself
	add(methodInfo{Full: "rpc_modules", Namespace: "rpc", GoName: "Modules", Params: []reflect.Type{}, Source: "apis"})
	regSeen := 0
	for _, tr := range transports {
		for _, mi := range registryMethods(fx, handlerFields[tr]) {
			regSeen++
			add(mi)
		}
	}
	info["registry_entries"] = regSeen
	// wire aliases: eth_X is rewritten to aqua_X; a name without '_' is sent to btc_
	var names []string
	for n := range byName {
		names = append(names, n)
	}
	sort.Strings(names)
	for _, n := range names {
		mi := byName[n]
		if mi.Namespace == "aqua" && !mi.Sub {
			al := mi
			al.Full = "eth_" + strings.TrimPrefix(n, "aqua_")
			al.Source = "alias"
			add(al)
		}
		if mi.Namespace == "btc" {
			al := mi
			al.Full = strings.TrimPrefix(n, "btc_")
			al.Source = "alias"
			if !strings.Contains(al.Full, "_") {
				add(al)
			}
		}
	}
	names = names[:0]
	for n := range byName {
		names = append(names, n)
	}
	sort.Strings(names)
	for _, n := range names {
		list = append(list, byName[n])
	}
	return list, info
}

// excludedMethods are never called; each entry says why, and why it cannot sign.
var excludedMethods = map[string]string{
	"admin_shutdown":     "stops the node (node.Stop); body only calls api.node.Stop",
	"admin_stopRPC":      "closes the HTTP endpoint under test; body only calls node.stopHTTP",
	"admin_stopWS":       "closes the WS endpoint under test; body only calls node.stopWS",
	"debug_cpuProfile":   "sleeps nsec seconds while writing a runtime profile; internal/debug does not import accounts",
	"debug_goTrace":      "sleeps nsec seconds while writing a runtime trace; internal/debug does not import accounts",
	"debug_blockProfile": "sleeps nsec seconds while writing a runtime profile; internal/debug does not import accounts",
	// the glog handler these three use is installed only by the command-line flag setup
	// (internal/debug.Setup), which an embedding program cannot call; with it unset they
	// dereference nil, and a handler panic on a persistent connection (in-proc, IPC, WS) is
	// not recovered and kills the process. They only touch the log handler.
	"debug_verbosity":   "nil glog handler in an embedded node: handler panic kills the process; only sets the log level",
	"debug_vmodule":     "nil glog handler in an embedded node: handler panic kills the process; only sets a log pattern",
	"debug_backtraceAt": "nil glog handler in an embedded node: handler panic kills the process; only sets a log location",
	"debug_traceChain":  "subscription that panics (makechan: size out of range) when end < start; not recovered, kills the process; re-executes blocks with a tracer, never touches the account manager",
}
