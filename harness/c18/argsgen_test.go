package c18

import (
	"encoding/base64"
	"encoding/hex"
	"fmt"
	"reflect"
	"strings"

	"gitlab.com/aquachain/aquachain/common"
	"pgregory.net/rapid"
)

// genCtx generates the arguments of one call, type-directed from the reflected
// parameter types, and remembers what the call names (for labels).
type genCtx struct {
	rt *rapid.T
	fx *fixture

	namedA, namedB, namedOther      bool
	passRight, passWrong, passEmpty bool
	mirrorsPending                  bool
	lastAcct                        string // "A", "B" or ""
}

func (g *genCtx) pick(label string, n int) int { return rapid.IntRange(0, n-1).Draw(g.rt, label) }

func (g *genCtx) randBytes(label string, min, max int) []byte {
	return rapid.SliceOfN(rapid.Byte(), min, max).Draw(g.rt, label)
}

func hx(b []byte) string { return "0x" + hex.EncodeToString(b) }

func (g *genCtx) address() string {
	switch k := g.pick("addr", 20); {
	case k < 8:
		g.namedA, g.lastAcct = true, "A"
		return g.fx.acctA.Address.Hex()
	case k < 15:
		g.namedB, g.lastAcct = true, "B"
		return g.fx.acctB.Address.Hex()
	case k < 17:
		g.namedOther = true
		return g.fx.addrC.Hex()
	case k < 18:
		g.namedOther = true
		return common.Address{}.Hex()
	default:
		g.namedOther = true
		return hx(g.randBytes("rawaddr", 20, 20))
	}
}

func (g *genCtx) hash() string {
	switch g.pick("hash", 5) {
	case 0:
		if g.fx.pending != nil {
			return g.fx.pending.Hash().Hex()
		}
		return g.fx.genesis.Hex()
	case 1:
		return g.fx.genesis.Hex()
	case 2:
		return common.Hash{}.Hex()
	default:
		return hx(g.randBytes("rawhash", 32, 32))
	}
}

func (g *genCtx) hexBytes() string {
	switch g.pick("bytes", 8) {
	case 0:
		return "0x"
	case 1:
		return hx([]byte("hello"))
	case 2:
		return hx(g.fx.sigC)
	case 3:
		return hx(g.fx.rawC)
	case 4:
		return hx(g.randBytes("b32", 32, 32))
	case 5:
		return hx(g.randBytes("b65", 65, 65))
	default:
		return hx(g.randBytes("bshort", 0, 12))
	}
}

func (g *genCtx) smallUint(label string) uint64 {
	return rapid.SampledFrom([]uint64{0, 0, 0, 1, 1, 2, 3, 5, 21000, 90000, 1 << 32}).Draw(g.rt, label)
}

func (g *genCtx) hexUint() string { return fmt.Sprintf("0x%x", g.smallUint("hexuint")) }

func (g *genCtx) hexBig() string {
	return rapid.SampledFrom([]string{"0x0", "0x1", "0x3e8", "0x3b9aca00", "0x77359400", "0xde0b6b3a7640000"}).Draw(g.rt, "hexbig")
}

func (g *genCtx) blockNumber() interface{} {
	return rapid.SampledFrom([]interface{}{"latest", "pending", "earliest", "0x0", "0x1", 0}).Draw(g.rt, "blocknr")
}

// str: passphrases (right one for the account named so far, the other account's,
// a wrong one, empty), and the other string shapes the APIs take.
func (g *genCtx) str() string {
	right, other := "", ""
	switch g.lastAcct {
	case "A":
		right, other = passA, passB
	case "B":
		right, other = passB, passA
	}
	k := g.pick("str", 20)
	if right != "" {
		switch {
		case k < 9:
			g.passRight = true
			return right
		case k < 12:
			g.passWrong = true
			return other
		case k < 14:
			g.passWrong = true
			return passBad
		case k < 16:
			g.passEmpty = true
			return ""
		}
	}
	switch k % 10 {
	case 0:
		return passA
	case 1:
		return passB
	case 2:
		return ""
	case 3:
		return passBad
	case 4: // a raw private key (personal_importRawKey): key 3 of the pool, not otherwise in the keystore
		return "49a7b37aa6f6645917e7b807e9d1c00d4fa71f18343b0d4122a4d2df64dd6fee"
	case 5: // wallet URL of a keystore account
		return g.fx.acctA.URL.String()
	case 6:
		return g.fx.acctB.URL.String()
	case 7:
		return g.fx.dir + "/out.tmp"
	case 8:
		return g.fx.acctB.Address.Hex()
	default:
		return "m/44'/60'/0'/0"
	}
}

func typeName(t reflect.Type) string {
	if t.PkgPath() == "" {
		return t.Name()
	}
	p := t.PkgPath()
	if i := strings.LastIndex(p, "/"); i >= 0 {
		p = p[i+1:]
	}
	return p + "." + t.Name()
}

// txArgs generates a SendTxArgs/CallArgs-shaped object: from = keystore account,
// the other fields mirroring the pending transaction, minimal, or random.
func (g *genCtx) txArgs(t reflect.Type) interface{} {
	has := func(name string) bool { _, ok := t.FieldByName(name); return ok }
	m := map[string]interface{}{}
	shape := g.pick("txshape", 6)
	p := g.fx.pending
	if shape <= 1 && p != nil { // mirror the pending transaction of A exactly
		g.namedA, g.lastAcct, g.mirrorsPending = true, "A", true
		m["from"] = g.fx.acctA.Address.Hex()
		m["to"] = p.To().Hex()
		m["gas"] = fmt.Sprintf("0x%x", p.Gas())
		m["gasPrice"] = fmt.Sprintf("0x%x", p.GasPrice())
		m["value"] = fmt.Sprintf("0x%x", p.Value())
		if has("Nonce") {
			m["nonce"] = fmt.Sprintf("0x%x", p.Nonce())
		}
		return m
	}
	m["from"] = g.address()
	if shape == 2 { // minimal: node fills in the defaults
		m["to"] = g.fx.addrC.Hex()
		m["value"] = "0x1"
		return m
	}
	if g.pick("hasto", 5) > 0 {
		m["to"] = rapid.SampledFrom([]string{g.fx.addrC.Hex(), g.fx.acctA.Address.Hex(), g.fx.acctB.Address.Hex()}).Draw(g.rt, "to")
	} else {
		m["data"] = "0x600160005500"
	}
	if shape != 3 || g.pick("gas?", 2) == 0 {
		m["gas"] = rapid.SampledFrom([]string{"0x5208", "0x15f90", "0x0"}).Draw(g.rt, "gas")
	}
	if shape != 3 || g.pick("price?", 2) == 0 {
		m["gasPrice"] = g.hexBig()
	}
	m["value"] = g.hexBig()
	if has("Nonce") && (shape != 3 || g.pick("nonce?", 2) == 0) {
		m["nonce"] = rapid.SampledFrom([]string{"0x0", "0x1", "0x2", "0x64"}).Draw(g.rt, "nonce")
	}
	if has("Input") && g.pick("input?", 6) == 0 {
		m["input"] = g.hexBytes()
	}
	return m
}

func (g *genCtx) value(t reflect.Type, depth int) interface{} {
	switch typeName(t) {
	case "common.Address":
		return g.address()
	case "common.Hash":
		return g.hash()
	case "hexutil.Bytes":
		return g.hexBytes()
	case "hexutil.Big":
		return g.hexBig()
	case "hexutil.Uint64", "hexutil.Uint":
		return g.hexUint()
	case "rpc.BlockNumber":
		return g.blockNumber()
	case "rpc.ID":
		return hx(g.randBytes("id", 16, 16))
	case "types.BlockNonce":
		return hx(g.randBytes("nonce8", 8, 8))
	case "big.Int":
		return g.smallUint("bigint")
	case "filters.FilterCriteria":
		m := map[string]interface{}{"fromBlock": "0x0", "toBlock": "latest"}
		if g.pick("fc-addr", 2) == 0 {
			m["address"] = g.address()
		}
		if g.pick("fc-topics", 2) == 0 {
			m["topics"] = []interface{}{g.hash()}
		}
		return m
	}
	switch t.Kind() {
	case reflect.Ptr:
		if g.pick("nil?", 4) == 0 {
			return nil
		}
		return g.value(t.Elem(), depth)
	case reflect.String:
		return g.str()
	case reflect.Bool:
		return rapid.Bool().Draw(g.rt, "bool")
	case reflect.Int, reflect.Int8, reflect.Int16, reflect.Int32, reflect.Int64:
		return rapid.SampledFrom([]int{0, 0, 1, 1, 2, 3, 10, -1}).Draw(g.rt, "int")
	case reflect.Uint, reflect.Uint8, reflect.Uint16, reflect.Uint32, reflect.Uint64:
		return g.smallUint("uint")
	case reflect.Float32, reflect.Float64:
		return 1.5
	case reflect.Slice:
		if t.Elem().Kind() == reflect.Uint8 { // encoding/json: base64 string
			switch g.pick("rawbytes", 3) {
			case 0:
				return base64.StdEncoding.EncodeToString(g.fx.rawC)
			case 1:
				return ""
			default:
				return base64.StdEncoding.EncodeToString(g.randBytes("raw", 0, 40))
			}
		}
		n := 0
		if depth < 3 {
			n = g.pick("slicelen", 3)
		}
		out := make([]interface{}, n)
		for i := range out {
			out[i] = g.value(t.Elem(), depth+1)
		}
		return out
	case reflect.Array:
		out := make([]interface{}, t.Len())
		if t.Elem().Kind() == reflect.Uint8 {
			return hx(g.randBytes("arr", t.Len(), t.Len()))
		}
		for i := range out {
			out[i] = g.value(t.Elem(), depth+1)
		}
		return out
	case reflect.Struct:
		if f, ok := t.FieldByName("From"); ok && typeName(f.Type) == "common.Address" {
			return g.txArgs(t)
		}
		m := map[string]interface{}{}
		if depth > 3 {
			return m
		}
		g.structFields(t, m, depth)
		return m
	case reflect.Map:
		return map[string]interface{}{}
	case reflect.Interface:
		return g.str()
	}
	return nil
}

func (g *genCtx) structFields(t reflect.Type, m map[string]interface{}, depth int) {
	for i := 0; i < t.NumField(); i++ {
		f := t.Field(i)
		if f.PkgPath != "" && !f.Anonymous {
			continue
		}
		if f.Anonymous {
			ft := f.Type
			for ft.Kind() == reflect.Ptr {
				ft = ft.Elem()
			}
			if ft.Kind() == reflect.Struct {
				g.structFields(ft, m, depth+1)
			}
			continue
		}
		name := f.Name
		if tag := f.Tag.Get("json"); tag != "" {
			n := strings.Split(tag, ",")[0]
			if n == "-" {
				continue
			}
			if n != "" {
				name = n
			}
		}
		if f.Type.Kind() == reflect.Ptr && g.pick("omit?", 2) == 0 {
			continue
		}
		m[name] = g.value(f.Type, depth+1)
	}
}

// untypedArgs: for a method whose parameter types could not be learned.
func (g *genCtx) untypedArgs() []interface{} {
	switch g.pick("untyped", 6) {
	case 0:
		return []interface{}{}
	case 1:
		return []interface{}{g.address()}
	case 2:
		a := g.address()
		return []interface{}{a, g.str()}
	case 3:
		a := g.address()
		return []interface{}{a, g.hexBytes()}
	case 4:
		a := g.address()
		return []interface{}{g.hexBytes(), a, g.str()}
	default:
		return []interface{}{g.txArgs(reflect.TypeOf(struct{ Nonce int }{})), g.str()}
	}
}

func (g *genCtx) args(mi methodInfo) []interface{} {
	if mi.Untyped {
		return g.untypedArgs()
	}
	out := make([]interface{}, 0, len(mi.Params))
	for _, p := range mi.Params {
		out = append(out, g.value(p, 0))
	}
	// optional trailing pointer parameters may be left out on the wire
	for len(out) > 0 && out[len(out)-1] == nil && mi.Params[len(out)-1].Kind() == reflect.Ptr && g.pick("trim", 2) == 0 {
		out = out[:len(out)-1]
	}
	return out
}

func (g *genCtx) labels() []string {
	var l []string
	if g.namedA {
		l = append(l, "names:unlocked-account")
	}
	if g.namedB {
		l = append(l, "names:locked-account")
	}
	if g.namedOther && !g.namedA && !g.namedB {
		l = append(l, "names:non-keystore-address")
	}
	if g.passRight {
		l = append(l, "pass:right")
	}
	if g.passWrong {
		l = append(l, "pass:wrong")
	}
	if g.passEmpty {
		l = append(l, "pass:empty")
	}
	if g.mirrorsPending {
		l = append(l, "txargs:mirror-pending")
	}
	return l
}
