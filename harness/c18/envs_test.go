package c18

import (
	"fmt"
	"sort"
	"strings"
)

// The four transports and the opt-in variable each start function consults
// (rpc/server.go). UNSAFE_RPC_SIGNING is the transport-independent variable.
var transports = []string{"inproc", "ipc", "http", "ws"}

var transportVar = map[string]string{
	"inproc": "UNSAFE_ALLOW_SIGN_INPROC",
	"ipc":    "UNSAFE_ALLOW_SIGN_IPC",
	"http":   "UNSAFE_RPC_SIGNING_HTTP",
	"ws":     "UNSAFE_RPC_SIGNING_WS",
}

const globalVar = "UNSAFE_RPC_SIGNING"

// How a value of an opt-in variable is read by the harness' own model of
// "explicitly opted in". This is deliberately NOT sense.EnvBool: it is the
// model the property statement implies.
//
//	unset, "" or an explicit negative => not opted in
//	an explicit affirmative           => opted in
//	anything else                     => undetermined by the statement
var affirmative = map[string]bool{"1": true, "true": true, "yes": true, "on": true, "enabled": true, "enable": true}
var negative = map[string]bool{"": true, "0": true, "false": true, "no": true, "off": true, "disabled": true, "disable": true}

type optState int

const (
	optOff optState = iota
	optOn
	optUnknown
)

func classify(vars map[string]string, name string) optState {
	v, ok := vars[name]
	if !ok {
		return optOff
	}
	l := strings.ToLower(v)
	if negative[l] {
		return optOff
	}
	if affirmative[l] {
		return optOn
	}
	return optUnknown
}

// Expectation for signing over one transport.
const (
	mustNot = "must-not" // no call over this transport may move the signing counter
	may     = "may"      // the statement does not decide (global variable set, or unparsable value)
	must    = "must"     // explicitly opted in: documented signing methods must work (positive control)
)

type envConf struct {
	Name   string            `json:"name"`
	Vars   map[string]string `json:"vars"`
	Expect map[string]string `json:"expect"` // per transport
	Kind   string            `json:"kind"`   // default | single | combo | falsy | unparsable | mixed
}

func mkEnv(name, kind string, vars map[string]string) envConf {
	e := envConf{Name: name, Kind: kind, Vars: vars, Expect: map[string]string{}}
	g := classify(vars, globalVar)
	for _, tr := range transports {
		s := classify(vars, transportVar[tr])
		switch {
		case s == optOn:
			e.Expect[tr] = must
		case s == optUnknown || g != optOff:
			e.Expect[tr] = may
		default:
			e.Expect[tr] = mustNot
		}
	}
	return e
}

var allVars = []string{globalVar, "UNSAFE_ALLOW_SIGN_INPROC", "UNSAFE_ALLOW_SIGN_IPC", "UNSAFE_RPC_SIGNING_HTTP", "UNSAFE_RPC_SIGNING_WS"}

func shortVar(v string) string {
	switch v {
	case globalVar:
		return "global"
	case "UNSAFE_ALLOW_SIGN_INPROC":
		return "inproc"
	case "UNSAFE_ALLOW_SIGN_IPC":
		return "ipc"
	case "UNSAFE_RPC_SIGNING_HTTP":
		return "http"
	case "UNSAFE_RPC_SIGNING_WS":
		return "ws"
	}
	return v
}

func defaultEnv() envConf { return mkEnv("default", "default", map[string]string{}) }

// quickEnvs: the default environment, each single opt-in, and one all-negative environment.
func quickEnvs() []envConf {
	out := []envConf{defaultEnv()}
	for _, v := range allVars {
		out = append(out, mkEnv("only-"+shortVar(v), "single", map[string]string{v: "1"}))
	}
	// every variable set to an explicit negative: must behave like the default environment
	out = append(out, mkEnv("all-negative", "falsy", map[string]string{
		globalVar: "false", "UNSAFE_ALLOW_SIGN_INPROC": "0", "UNSAFE_ALLOW_SIGN_IPC": "no", "UNSAFE_RPC_SIGNING_HTTP": "off", "UNSAFE_RPC_SIGNING_WS": ""}))
	return out
}

// thoroughEnvs: all 32 combinations (with varying affirmative spellings), explicit
// negatives, unparsable values and mixtures. The default environment comes first.
func thoroughEnvs() []envConf {
	out := []envConf{defaultEnv()}
	yes := []string{"1", "true", "YES", "on", "enabled", "True", "enable"}
	for mask := 1; mask < 32; mask++ {
		vars := map[string]string{}
		var parts []string
		for i, v := range allVars {
			if mask&(1<<i) != 0 {
				vars[v] = yes[(mask+i)%len(yes)]
				parts = append(parts, shortVar(v))
			}
		}
		kind := "combo"
		if len(parts) == 1 {
			kind = "single"
		}
		out = append(out, mkEnv("on-"+strings.Join(parts, "+"), kind, vars))
	}
	// explicit negatives: must behave exactly like the default environment
	no := []string{"0", "false", "no", "off", "disabled", "", "FALSE", "disable"}
	for k := 0; k < 3; k++ {
		vars := map[string]string{}
		for i, v := range allVars {
			vars[v] = no[(k*3+i)%len(no)]
		}
		out = append(out, mkEnv(fmt.Sprintf("all-negative-%d", k), "falsy", vars))
	}
	// one affirmative among explicit negatives
	for i, tr := range transports {
		vars := map[string]string{}
		for j, v := range allVars {
			vars[v] = no[(i+j)%len(no)]
		}
		vars[transportVar[tr]] = yes[i]
		out = append(out, mkEnv("negatives-but-"+tr, "mixed", vars))
	}
	// unparsable values (the statement does not say what they mean for the variable's
	// own transport; every other transport must stay locked down)
	junk := []string{"maybe", "2", "nope", "-1", " 1", "y", "si"}
	for i, v := range allVars {
		out = append(out, mkEnv("unparsable-"+shortVar(v), "unparsable", map[string]string{v: junk[i%len(junk)]}))
	}
	out = append(out, mkEnv("unparsable-ipc+on-ws", "unparsable", map[string]string{"UNSAFE_ALLOW_SIGN_IPC": "nope", "UNSAFE_RPC_SIGNING_WS": "1"}))
	// look-alike variable names must not opt anything in
	out = append(out, mkEnv("lookalike-names", "falsy", map[string]string{
		"UNSAFE_RPC_SIGNING_IPC": "1", "UNSAFE_ALLOW_SIGN_HTTP": "1", "UNSAFE_ALLOW_SIGN_WS": "1", "UNSAFE_RPC_SIGNING_INPROC": "1",
		"unsafe_rpc_signing_http": "1", "UNSAFE_RPC_UNLOCK": "1", "UNSAFE_SIGNING": "1"}))
	return out
}

func (e envConf) environ() []string {
	var out []string
	for k, v := range e.Vars {
		out = append(out, k+"="+v)
	}
	sort.Strings(out)
	return out
}
