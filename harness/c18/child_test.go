package c18

import (
	"context"
	"encoding/json"
	"errors"
	"flag"
	"fmt"
	"hash/fnv"
	"os"
	"sort"
	"strconv"
	"strings"
	"testing"
	"time"

	"gitlab.com/aquachain/aquachain/aqua/accounts/keystore"
	"gitlab.com/aquachain/aquachain/rpc"
	rpcclient "gitlab.com/aquachain/aquachain/rpc/rpcclient"
	"pgregory.net/rapid"
)

// ---------- parent <-> child protocol ----------

type childConf struct {
	Env    envConf   `json:"env"`
	Seed   uint64    `json:"seed"`
	Calls  int       `json:"calls"` // generated calls per method per transport
	Known  []string  `json:"known"` // keys of listed, unrepaired findings
	Out    string    `json:"out"`
	Dir    string    `json:"dir"`
	Mode   string    `json:"mode"` // sweep | replay
	Replay *callCase `json:"replay,omitempty"`
	Only   string    `json:"only,omitempty"` // restrict the sweep to wire names with this prefix (development aid)
	// Resume: a previous child of this environment died while exercising this
	// transport/method; continue with the method after it (and skip the witnesses).
	ResumeTransport string `json:"resume_transport,omitempty"`
	ResumeMethod    string `json:"resume_method,omitempty"`
	Progress        string `json:"progress"` // file holding "transport\tmethod" of the method in flight
}

// callCase is one RPC call with its verdict; it is also the replay file format.
type callCase struct {
	Env       envConf         `json:"env"`
	Transport string          `json:"transport"`
	Method    string          `json:"method"`
	Params    json.RawMessage `json:"params"`
	Batch     bool            `json:"batch,omitempty"`
	Sub       bool            `json:"subscription,omitempty"`
	Expect    string          `json:"expect"`
	Moved     uint64          `json:"signatures_during_call"`
	Result    string          `json:"result"`
	What      string          `json:"what"`
}

type childOut struct {
	Env          string                 `json:"env"`
	Completed    bool                   `json:"completed"`
	HarnessError string                 `json:"harness_error,omitempty"`
	Trivial      int64                  `json:"trivial"`
	NTHashes     []uint64               `json:"nt_hashes"`
	Labels       map[string]int64       `json:"labels"`
	Excluded     map[string]int64       `json:"excluded"`
	Extra        map[string]int64       `json:"extra"`
	Samples      []callCase             `json:"samples"`
	Violations   []callCase             `json:"violations"`
	KnownSeen    map[string][]string    `json:"known_seen"`
	Universe     map[string]interface{} `json:"universe"`
	Methods      int                    `json:"methods"`
	WallS        float64                `json:"wall_s"`
	Slow         map[string]float64     `json:"slow,omitempty"` // transport/method -> seconds for its calls, when > 1.5 s
}

type child struct {
	list      []methodInfo
	reached   map[string]bool // transport/namespace reached by some call
	skipping  bool
	flush     func()
	lastFlush time.Time
	t         *testing.T
	conf      childConf
	fx        *fixture
	out       *childOut
	known     map[string]bool
	last      *callCase // most recent failing case (rapid's final run is the shrunk one)
}

func (c *child) label(l ...string) {
	for _, x := range l {
		if x != "" {
			c.out.Labels[x]++
		}
	}
}

func hash64(s string) uint64 {
	h := fnv.New64a()
	h.Write([]byte(s))
	return h.Sum64()
}

type callResult struct {
	moved  uint64
	class  string // ok | error | notfound | invalid-params | timeout | io
	errMsg string
}

func classifyErr(err error) (string, string) {
	if err == nil {
		return "ok", ""
	}
	var je *rpc.JsonError
	if errors.As(err, &je) {
		switch je.Code {
		case -32601:
			return "notfound", je.Message
		case -32602:
			return "invalid-params", je.Message
		}
		return "error", je.Message
	}
	if errors.Is(err, context.DeadlineExceeded) {
		return "timeout", err.Error()
	}
	return "io", err.Error()
}

// call performs one RPC call over one transport and measures the keystore
// signing counter around it.
func (c *child) call(tr string, mi methodInfo, args []interface{}, batch bool) callResult {
	cl := c.fx.clients[tr]
	c.fx.restore()
	ctx, cancel := context.WithTimeout(context.Background(), 4*time.Second)
	defer cancel()
	var raw json.RawMessage
	var err error
	before := keystore.VerifSignCount()
	switch {
	case mi.Sub:
		name := strings.TrimPrefix(mi.Full, mi.Namespace+"_")
		var id string
		err = cl.CallContext(ctx, &id, mi.Namespace+"_subscribe", append([]interface{}{name}, args...)...)
		if err == nil && id != "" {
			var ok bool
			cl.CallContext(ctx, &ok, mi.Namespace+"_unsubscribe", id)
		}
	case batch:
		var mods map[string]string
		elems := []rpcclient.BatchElem{{Method: mi.Full, Args: args, Result: &raw}, {Method: "rpc_modules", Result: &mods}}
		err = cl.BatchCallContext(ctx, elems)
		if err == nil {
			err = elems[0].Error
		}
	default:
		err = cl.CallContext(ctx, &raw, mi.Full, args...)
	}
	after := keystore.VerifSignCount()
	class, msg := classifyErr(err)
	if class == "io" && tr != "http" {
		// connection lost (e.g. the server closed it): re-dial for the following calls
		c.redial(tr)
	}
	return callResult{moved: after - before, class: class, errMsg: msg}
}

func (c *child) redial(tr string) {
	var cl *rpcclient.Client
	var err error
	switch tr {
	case "inproc":
		cl, err = c.fx.stack.Attach(context.Background(), "c18")
	case "ipc":
		cl, err = rpcclient.DialIPC(context.Background(), c.fx.ipcPath)
	case "ws":
		cl, err = rpcclient.DialWebsocket(context.Background(), c.fx.wsURL, "http://localhost")
	default:
		return
	}
	if err == nil {
		c.fx.clients[tr] = cl
		c.out.Extra["redials"]++
	}
}

func (c *child) mkCase(tr string, mi methodInfo, args []interface{}, batch bool, res callResult, what string) callCase {
	p, _ := json.Marshal(args)
	r := res.class
	if res.errMsg != "" {
		r += ": " + res.errMsg
	}
	if len(r) > 300 {
		r = r[:300]
	}
	return callCase{Env: c.conf.Env, Transport: tr, Method: mi.Full, Params: p, Batch: batch, Sub: mi.Sub,
		Expect: c.conf.Env.Expect[tr], Moved: res.moved, Result: r, What: what}
}

// ---------- documented signing calls (deterministic witnesses / positive control) ----------

type witness struct {
	method string
	args   []interface{}
	known  string // key of a listed finding this call is the witness of
	doc    bool   // a documented signing method: must work where the transport is opted in
}

func (c *child) witnesses() []witness {
	fx := c.fx
	A, B, C := fx.acctA.Address.Hex(), fx.acctB.Address.Hex(), fx.addrC.Hex()
	full := func(from string, nonce string) map[string]interface{} {
		return map[string]interface{}{"from": from, "to": C, "gas": "0x5208", "gasPrice": "0x3b9aca00", "value": "0x1", "nonce": nonce}
	}
	min := func(from string) map[string]interface{} {
		return map[string]interface{}{"from": from, "to": C, "value": "0x1"}
	}
	hello := "0x68656c6c6f"
	return []witness{
		{method: "aqua_sign", args: []interface{}{A, hello}, doc: true},
		{method: "eth_sign", args: []interface{}{A, hello}, doc: true},
		{method: "aqua_signTransaction", args: []interface{}{full(A, "0x7")}, doc: true},
		{method: "eth_signTransaction", args: []interface{}{full(A, "0x7")}, doc: true},
		{method: "personal_sign", args: []interface{}{hello, B, passB}, doc: true},
		{method: "personal_signTransaction", args: []interface{}{full(B, "0x0"), passB}, doc: true},
		{method: "personal_sendTransaction", args: []interface{}{min(B), passB}, doc: true},
		{method: "aqua_sendTransaction", args: []interface{}{min(A)}, doc: true},
		{method: "eth_sendTransaction", args: []interface{}{min(A)}, doc: true},
		// the deprecated alias of personal_sendTransaction
		{method: "personal_signAndSendTransaction", args: []interface{}{min(B), passB}, known: "default-env/personal_signAndSendTransaction"},
		{method: "personal_signAndSendTransaction", args: []interface{}{min(A), passA}, known: "default-env/personal_signAndSendTransaction"},
	}
}

func (c *child) runWitnesses(group []string) {
	for _, tr := range group {
		expect := c.conf.Env.Expect[tr]
		for _, w := range c.witnesses() {
			mi := methodInfo{Full: w.method, Namespace: strings.SplitN(w.method, "_", 2)[0]}
			res := c.call(tr, mi, w.args, false)
			// an opted-in signing method that did not answer in time (loaded machine) says
			// nothing about the opt-in: ask again; without an answer there is no verdict
			for try := 0; expect == must && w.doc && res.moved == 0 && (res.class == "timeout" || res.class == "io") && try < 3; try++ {
				time.Sleep(500 * time.Millisecond)
				res = c.call(tr, mi, w.args, false)
			}
			if expect == must && w.doc && res.moved == 0 && (res.class == "timeout" || res.class == "io") {
				c.out.HarnessError = "positive control " + w.method + " over " + tr + " got no answer: " + res.errMsg
				c.t.Errorf("%s", c.out.HarnessError)
				return
			}
			cs := c.mkCase(tr, mi, w.args, false, res, "")
			c.record(tr, mi, cs, res, []string{"witness", "names:keystore-account"}, true)
			switch {
			case expect == mustNot && res.moved > 0:
				if w.known != "" && c.known[w.known] {
					c.out.KnownSeen[w.known] = appendUniq(c.out.KnownSeen[w.known], tr)
					c.label("known-witness-reproduced:" + tr)
				} else {
					cs.What = fmt.Sprintf("%s over %s produced %d signature(s) although %s is not opted in", w.method, tr, res.moved, tr)
					c.violation(cs)
				}
			case expect == must && w.doc && res.moved == 0:
				cs.What = fmt.Sprintf("%s is opted in (%s=%q) but the documented signing method %s did not sign: %s",
					tr, transportVar[tr], c.conf.Env.Vars[transportVar[tr]], w.method, cs.Result)
				c.violation(cs)
			case expect == must && w.doc:
				c.label("positive-control-fired", "positive-control-fired:"+tr)
			case expect == may && res.moved > 0:
				c.label("undetermined-transport-signed:" + c.conf.Env.Kind)
			}
		}
	}
}

func appendUniq(l []string, s string) []string {
	for _, x := range l {
		if x == s {
			return l
		}
	}
	return append(l, s)
}

func (c *child) violation(cs callCase) {
	if len(c.out.Violations) < 12 {
		c.out.Violations = append(c.out.Violations, cs)
	}
	c.t.Errorf("VIOLATION env=%s: %s\n  call: %s %s -> %s", c.conf.Env.Name, cs.What, cs.Method, string(cs.Params), cs.Result)
}

// groups: locked-down transports first, opted-in (or undetermined) ones after, and the
// second group is not touched before the first is finished: nothing an opted-in endpoint
// does, not even a call that answers late, can fall into a locked-down call's window.
func (c *child) groups() [][]string {
	var a, b []string
	for _, tr := range transports {
		if c.conf.Env.Expect[tr] == mustNot {
			a = append(a, tr)
		} else {
			b = append(b, tr)
		}
	}
	var g [][]string
	if len(a) > 0 {
		g = append(g, a)
	}
	if len(b) > 0 {
		g = append(g, b)
	}
	return g
}

// record accounts one executed call in the evidence.
func (c *child) record(tr string, mi methodInfo, cs callCase, res callResult, lbls []string, namesAcct bool) {
	reached := res.class == "ok" || res.class == "error" || res.class == "timeout"
	if c.reached != nil && (reached || res.class == "invalid-params") {
		c.reached[tr+"/"+mi.Namespace] = true
	}
	nt := namesAcct && reached
	if nt {
		c.out.NTHashes = append(c.out.NTHashes, hash64(c.conf.Env.Name+"|"+tr+"|"+cs.Method+"|"+string(cs.Params)))
	} else {
		c.out.Trivial++
	}
	c.label("transport:"+tr, "ns:"+mi.Namespace, "result:"+res.class, "expect:"+cs.Expect, "env-kind:"+c.conf.Env.Kind)
	c.label(lbls...)
	if nt {
		c.label("nontrivial:" + tr)
		for _, l := range lbls {
			if l == "names:unlocked-account" {
				c.label("reached:unlocked-account")
			}
			if l == "pass:right" {
				c.label("reached:right-passphrase")
			}
		}
	}
	if res.moved > 0 {
		c.label("signed:" + cs.Expect)
	}
	n := c.out.Extra["sample-offers"]
	c.out.Extra["sample-offers"]++
	if nt && (len(c.out.Samples) < 4 || n&(n-1) == 0) {
		if len(c.out.Samples) < 6 {
			c.out.Samples = append(c.out.Samples, cs)
		} else {
			c.out.Samples[int(n)%6] = cs
		}
	}
}

// ---------- the generated sweep ----------

func (c *child) prepare() bool {
	list, info := universe(c.fx)
	c.list = list
	c.reached = map[string]bool{}
	c.out.Universe = info
	c.out.Methods = len(list)
	// nothing may be hidden from a network endpoint by the module whitelist
	for _, tr := range transports[1:] {
		if strings.Join(c.fx.modules[tr], ",") != strings.Join(c.fx.modules["inproc"], ",") {
			c.out.HarnessError = fmt.Sprintf("%s serves modules %v, in-proc serves %v", tr, c.fx.modules[tr], c.fx.modules["inproc"])
			c.t.Errorf("%s", c.out.HarnessError)
			return false
		}
	}
	modNS := map[string]bool{}
	for _, tr := range transports {
		for _, ns := range c.fx.modules[tr] {
			modNS[ns] = true
		}
		info["modules_"+tr] = strings.Join(c.fx.modules[tr], ",")
	}
	have := map[string]bool{}
	for _, mi := range list {
		have[mi.Namespace] = true
	}
	for ns := range modNS {
		if !have[ns] {
			c.out.HarnessError = "namespace " + ns + " is served (rpc_modules) but no method of it is in the universe"
			c.t.Errorf("%s", c.out.HarnessError)
			return false
		}
	}
	var untyped []string
	for _, mi := range list {
		if mi.Untyped {
			untyped = append(untyped, mi.Full)
		}
	}
	info["untyped"] = strings.Join(untyped, ",")
	c.skipping = c.conf.ResumeMethod != ""
	return true
}

func (c *child) sweep(group []string) {
	list := c.list
	for _, tr := range group {
		expect := c.conf.Env.Expect[tr]
		for _, mi := range list {
			if c.skipping {
				if tr == c.conf.ResumeTransport && mi.Full == c.conf.ResumeMethod {
					c.skipping = false
				}
				continue
			}
			if c.conf.Only != "" && !strings.HasPrefix(mi.Full, c.conf.Only) {
				continue
			}
			if why, ok := excludedMethods[mi.Full]; ok {
				_ = why
				c.out.Extra["excluded-disruptive-calls"] += int64(c.conf.Calls)
				continue
			}
			if mi.Full == "personal_signAndSendTransaction" && expect == mustNot && c.known["default-env/personal_signAndSendTransaction"] {
				c.out.Excluded["default-env/personal_signAndSendTransaction"] += int64(c.conf.Calls)
				continue
			}
			if len(c.out.Violations) >= 3 {
				return
			}
			os.WriteFile(c.conf.Progress, []byte(tr+"\t"+mi.Full), 0o644)
			t0 := time.Now()
			nv := len(c.out.Violations)
			c.sweepMethod(tr, mi, expect)
			if d := time.Since(t0).Seconds(); d > 1.5 {
				c.out.Slow[tr+"/"+mi.Full] = d
			}
			if len(c.out.Violations) != nv || time.Since(c.lastFlush) > 2*time.Second {
				c.flush()
				c.lastFlush = time.Now()
			}
		}
	}
	os.Remove(c.conf.Progress)
}

func (c *child) finish() {
	// every namespace an endpoint reports was reached over that endpoint
	if c.conf.Only == "" && c.conf.ResumeMethod == "" {
		for _, tr := range transports {
			for _, ns := range c.fx.modules[tr] {
				if !c.reached[tr+"/"+ns] {
					c.out.HarnessError = "no call reached a method of namespace " + ns + " over " + tr
					c.t.Errorf("%s", c.out.HarnessError)
					return
				}
			}
		}
	}
	// nothing may sign after the fact either
	last := keystore.VerifSignCount()
	time.Sleep(300 * time.Millisecond)
	if now := keystore.VerifSignCount(); now != last {
		allLocked := true
		for _, tr := range transports {
			if c.conf.Env.Expect[tr] != mustNot {
				allLocked = false
			}
		}
		if allLocked {
			c.violation(callCase{Env: c.conf.Env, Method: "(after the sweep)", Moved: now - last, Expect: mustNot,
				What: "the signing counter moved after the last call returned, with no transport opted in"})
		} else {
			c.label("late-signature-with-opt-in")
		}
	}
}

func (c *child) sweepMethod(tr string, mi methodInfo, expect string) {
	seed := (c.conf.Seed*1000003+hash64(tr+"/"+mi.Full))%(1<<31) + 1
	flag.Set("rapid.seed", strconv.FormatUint(seed, 10))
	c.t.Run(tr+"/"+mi.Full, func(t *testing.T) {
		c.last = nil
		// rapid.Check ends a failing run with t.Fatalf (Goexit), so the shrunk case is
		// collected in a deferred function
		defer func() {
			if t.Failed() {
				if c.last == nil {
					c.last = &callCase{Env: c.conf.Env, Transport: tr, Method: mi.Full, Expect: expect, What: "rapid property failed without a recorded case (harness error?)"}
				}
				if len(c.out.Violations) < 12 {
					c.out.Violations = append(c.out.Violations, *c.last)
				}
			}
		}()
		rapid.Check(t, func(rt *rapid.T) {
			g := &genCtx{rt: rt, fx: c.fx}
			args := g.args(mi)
			batch := !mi.Sub && rapid.IntRange(0, 11).Draw(rt, "batch") == 0
			res := c.call(tr, mi, args, batch)
			cs := c.mkCase(tr, mi, args, batch, res, "")
			lbls := g.labels()
			if batch {
				lbls = append(lbls, "sent-in-batch")
			}
			if mi.Sub {
				lbls = append(lbls, "subscription")
			}
			if mi.Source == "alias" {
				lbls = append(lbls, "wire-alias")
			}
			c.record(tr, mi, cs, res, lbls, g.namedA || g.namedB)
			if res.moved > 0 && expect == mustNot {
				cs.What = fmt.Sprintf("%s over %s produced %d signature(s) although %s is not opted in", mi.Full, tr, res.moved, tr)
				c.last = &cs
				rt.Fatalf("%s; params %s; result %s", cs.What, string(cs.Params), cs.Result)
			}
		})
	})
}

// ---------- entry point ----------

func TestChild(t *testing.T) {
	if os.Getenv("C18_CHILD") != "1" {
		t.Skip("child process only")
	}
	start := time.Now()
	b, err := os.ReadFile(os.Getenv("C18_CONF"))
	if err != nil {
		t.Fatal(err)
	}
	var conf childConf
	if err := json.Unmarshal(b, &conf); err != nil {
		t.Fatal(err)
	}
	out := &childOut{Env: conf.Env.Name, Labels: map[string]int64{}, Excluded: map[string]int64{}, Extra: map[string]int64{}, KnownSeen: map[string][]string{}, Slow: map[string]float64{}}
	c := &child{t: t, conf: conf, out: out, known: map[string]bool{}}
	for _, k := range conf.Known {
		c.known[k] = true
	}
	write := func() {
		out.WallS = time.Since(start).Seconds()
		sort.Slice(out.NTHashes, func(i, j int) bool { return out.NTHashes[i] < out.NTHashes[j] })
		jb, _ := json.Marshal(out)
		os.WriteFile(conf.Out+".tmp", jb, 0o644)
		os.Rename(conf.Out+".tmp", conf.Out)
	}
	defer write()
	c.flush, c.lastFlush = write, time.Now()

	// the child must see exactly the configured opt-in variables and nothing else of that family
	for _, kv := range os.Environ() {
		k := strings.SplitN(kv, "=", 2)[0]
		if strings.HasPrefix(strings.ToUpper(k), "UNSAFE_") || k == "NO_SIGN" || k == "NOSIGN" || k == "NO_KEYS" || k == "NOKEYS" {
			if _, ok := conf.Env.Vars[k]; !ok {
				out.HarnessError = "stray environment variable in child: " + k
				t.Fatal(out.HarnessError)
			}
		}
	}
	for k, v := range conf.Env.Vars {
		if got, ok := os.LookupEnv(k); !ok || got != v {
			out.HarnessError = "environment variable not delivered to child: " + k
			t.Fatal(out.HarnessError)
		}
	}
	if _, err := os.Stat(".env"); err == nil {
		out.HarnessError = ".env present in the child's working directory"
		t.Fatal(out.HarnessError)
	}

	flag.Set("rapid.checks", strconv.Itoa(conf.Calls))
	flag.Set("rapid.nofailfile", "true")
	flag.Set("rapid.shrinktime", "3s")

	fx, err := startFixture(conf.Dir)
	if err != nil {
		out.HarnessError = "node start: " + err.Error()
		t.Fatal(out.HarnessError)
	}
	c.fx = fx
	defer fx.stop()
	out.Extra["node-start-ms"] = time.Since(start).Milliseconds()

	switch conf.Mode {
	case "replay":
		c.replay()
	default:
		if !c.prepare() {
			break
		}
		resumeInGroup := func(g []string) bool {
			for _, tr := range g {
				if tr == conf.ResumeTransport {
					return true
				}
			}
			return false
		}
		for _, g := range c.groups() {
			if c.skipping && !resumeInGroup(g) {
				continue // this group was finished by the child that died
			}
			if !c.skipping {
				c.runWitnesses(g)
				c.flush()
				if len(out.Violations) > 0 {
					// the deterministic witnesses already failed: report at once
					fmt.Println("witness calls violated the property; generated sweep skipped")
					break
				}
				if out.HarnessError != "" {
					break
				}
			}
			c.sweep(g)
			if len(out.Violations) > 0 {
				break
			}
		}
		if len(out.Violations) == 0 && out.HarnessError == "" {
			c.finish()
		}
	}
	if out.HarnessError == "" {
		out.Completed = true
	}
}

func (c *child) replay() {
	r := c.conf.Replay
	var args []interface{}
	json.Unmarshal(r.Params, &args)
	ns := strings.SplitN(r.Method, "_", 2)[0]
	mi := methodInfo{Full: r.Method, Namespace: ns, Sub: r.Sub}
	res := c.call(r.Transport, mi, args, r.Batch)
	cs := c.mkCase(r.Transport, mi, args, r.Batch, res, "")
	c.record(r.Transport, mi, cs, res, []string{"replay"}, true)
	expect := c.conf.Env.Expect[r.Transport]
	fmt.Printf("replay: env=%s %s over %s params=%s -> %s, signatures during call: %d (expectation for this transport: %s)\n",
		c.conf.Env.Name, r.Method, r.Transport, string(r.Params), cs.Result, res.moved, expect)
	if expect == mustNot && res.moved > 0 {
		cs.What = fmt.Sprintf("%s over %s produced %d signature(s) although %s is not opted in", r.Method, r.Transport, res.moved, r.Transport)
		c.violation(cs)
	}
	if expect == must && r.Moved == 0 && res.moved == 0 && strings.Contains(r.What, "did not sign") {
		cs.What = r.What
		c.violation(cs)
	}
}
