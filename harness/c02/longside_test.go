package c02

import (
	"fmt"
	"math/big"
	"testing"

	"gitlab.com/aquachain/aquachain/aquadb"
	"gitlab.com/aquachain/aquachain/core"
	"pgregory.net/rapid"
	"verifharness/ev"
	"verifharness/gen"
)

// TestLongLightSideBranch: a long, slow (light) branch is canonical, a short
// fast (heavy) branch takes over, and then the long branch keeps growing as a
// side branch until it is more than 128 blocks above the canonical head. Every
// block is valid and must be accepted (as a side block), on pruning and
// archive nodes; the usual invariants are judged after every call.
func TestLongLightSideBranch(t *testing.T) {
	ev.Check(t, ev.N(20, 60), func(t *rapid.T) {
		nc := gen.ConfigByName("steep")
		g := gen.Genesis(nc.Config, 0)
		b, err := gen.NewBuilder(g)
		if err != nil {
			t.Fatal(err)
		}
		defer b.Chain.Stop()
		mk := func(parent *gen.TNode, dt int64, idx *int) *gen.TNode {
			// (the two branches are mined by different accounts: with one miner and empty blocks their states
			// at equal heights would be identical and keep each other alive in the node's trie cache)
			cb := gen.Keys[5].Addr
			if dt == 1 {
				cb = gen.Keys[6].Addr
			}
			built, err := b.Build(parent.Block, gen.BlockSpec{TimeDelta: dt, Coinbase: cb})
			if err != nil {
				t.Fatalf("build: %v", err)
			}
			*idx++
			return &gen.TNode{Block: built.Block, Parent: parent, Height: parent.Height + 1, TD: new(big.Int).Add(parent.TD, built.Block.Difficulty()), Index: *idx}
		}
		root := &gen.TNode{Block: b.Chain.Genesis(), TD: new(big.Int).Set(b.Chain.Genesis().Difficulty())}
		idx := 0
		longLen := rapid.IntRange(155, 172).Draw(t, "longlen")
		shortLen := rapid.IntRange(12, 24).Draw(t, "shortlen") // the long branch ends more than 128 above the short one: a pruning node drops the head's state
		firstPart := longLen - rapid.IntRange(13, 22).Draw(t, "later") // more than the 12 tries the state database keeps cached after their commit
		var long, short gen.Batch
		p := root
		for i := 0; i < longLen; i++ {
			p = mk(p, 3000, &idx)
			long = append(long, p)
		}
		p = root
		for i := 0; i < shortLen; i++ {
			p = mk(p, 1, &idx)
			short = append(short, p)
		}
		if short[len(short)-1].TD.Cmp(long[len(long)-1].TD) <= 0 {
			t.Skip("the short branch is not heavier in this draw")
		}
		byHash := map[[32]byte]*gen.TNode{root.Block.Hash(): root}
		for _, n := range append(append(gen.Batch{}, long...), short...) {
			byHash[n.Block.Hash()] = n
		}
		cacheKind := rapid.SampledFrom([]string{"pruning", "pruning", "pruning", "pruning", "archive"}).Draw(t, "cache")
		cache := gen.Pruning()
		if cacheKind == "archive" {
			cache = gen.Archive()
		}
		core.VerifResetGlobals()
		n, err := gen.NewNode(aquadb.NewMemDatabase(), g, cache, nil)
		if err != nil {
			t.Fatal(err)
		}
		defer func() { n.Chain.Stop() }()
		feed := func(what string, bt gen.Batch) {
			for len(bt) > 0 {
				k := rapid.IntRange(1, 40).Draw(t, "piece")
				if k > len(bt) {
					k = len(bt)
				}
				if i, err := n.Chain.InsertChain(bt[:k].Blocks()); err != nil {
					t.Fatalf("%s: valid block at height %d refused: %v (%s node; canonical head at height %d)", what, bt[i].Height, err, cacheKind, n.Chain.CurrentBlock().NumberU64())
				}
				for _, x := range bt[:k] {
					if td := n.Chain.GetTd(x.Block.Hash(), x.Height); td == nil || td.Cmp(x.TD) != 0 {
						t.Fatalf("%s: stored TD of block at height %d = %v, want %v", what, x.Height, td, x.TD)
					}
				}
				bt = bt[k:]
			}
		}
		feed("long branch, first part", long[:firstPart])
		feed("short heavy branch", short)
		head := byHash[n.Chain.CurrentBlock().Hash()]
		if head != short[len(short)-1] {
			t.Fatalf("after the heavier short branch the head is at height %d, want the short branch tip at %d", n.Chain.CurrentBlock().NumberU64(), shortLen)
		}
		feed("long branch, later part (side blocks far above the head)", long[firstPart:])
		head = byHash[n.Chain.CurrentBlock().Hash()]
		if head == nil || head.TD.Cmp(short[len(short)-1].TD) < 0 {
			t.Fatalf("head TD decreased")
		}
		// the head's own branch goes on: with the side branch so far above it, a pruning node has
		// dropped the head's state from memory and re-executes its own branch to build on it
		tip := short[len(short)-1]
		if !n.Chain.HasState(tip.Block.Root()) {
			ev.Label("head-state-dropped-before-extension")
		}
		for i := 0; i < 2; i++ {
			tip = mk(tip, 1, &idx)
			byHash[tip.Block.Hash()] = tip
			if _, err := n.Chain.InsertChain(gen.Batch{tip}.Blocks()); err != nil {
				t.Fatalf("the block that extends the head (height %d, td %v) was refused: %v (%s node, side branch up to height %d)", tip.Height, tip.TD, err, cacheKind, longLen)
			}
			if got := byHash[n.Chain.CurrentBlock().Hash()]; got != tip {
				t.Fatalf("after the block that extends the head (height %d, td %v) was imported the head is at height %d", tip.Height, tip.TD, n.Chain.CurrentBlock().NumberU64())
			}
			if td := n.Chain.GetTd(tip.Block.Hash(), tip.Height); td == nil || td.Cmp(tip.TD) != 0 {
				t.Fatalf("stored TD of the extending block = %v, want %v", td, tip.TD)
			}
		}
		ev.Case(true, []byte(fmt.Sprintf("longside:%d:%d:%d:%s", longLen, shortLen, firstPart, cacheKind)), "long-light-side-branch", "shorter-heavier-wins", "head-extended-under-far-side-branch", "cache:"+cacheKind)
	})
}
