// C02 — The head is always a heaviest fully validated block.
//
// Oracle: a total-difficulty model kept with plain big integers over the
// generated block tree; judged after every InsertChain call.
package c02

import (
	"fmt"
	"math/big"
	"strings"
	"testing"

	"gitlab.com/aquachain/aquachain/aquadb"
	"gitlab.com/aquachain/aquachain/core"
	"pgregory.net/rapid"
	"verifharness/ev"
	"verifharness/gen"
)

func TestMain(m *testing.M) {
	gen.Quiet()
	ev.MustHit("head-changed-branch", "shorter-heavier-wins", "longer-lighter-ignored", "side-before-main", "restart", "pruning-config", "batch>1", "concurrent-entry-points")
	ev.MustHitThorough("exact-tie", "deep>128")
	ev.Main(m, ev.Config{
		Property: "C02",
		Level:    "exploration",
		Rule: "rapid-generated block trees (<=4/8 branches, per-branch block pace drawn from {1..3000}s so that shorter-but-heavier and longer-but-lighter branches occur; configurations steep/nofork/test/all-at-0) " +
			"delivered in a generated parent-closed order cut into linked batches, on archive and pruning nodes, with generated restarts; after every InsertChain the TD table, the head's maximality, TD monotonicity and CurrentHeader are judged against a big-integer model. " +
			"A further leg delivers two sibling blocks of different weight concurrently through the node's two import paths (InsertChain for a peer's block, WriteBlockWithState for the miner's own), 20-40 heights per case: the head must end on the heavier one under every interleaving. " +
			"A header leg (TestHeadersAndBlocksMixed) announces some batches by InsertHeaderChain before their blocks and delivers others as blocks only: header imports never move the block head nor lower the header head's TD, the header head is at least as heavy as every header of the call and, after block imports, as the block head (non-trivial there = lighter side headers imported after blocks moved the head). " +
			"non-trivial = a history in which the head moved to a different branch at least once; distinct by hash of tree shape+difficulties+delivery order",
		Assumptions: []string{
			"fake-PoW engine (aquahash.NewFaker): every header rule is enforced, only the seal is skipped",
			"an exact total-difficulty tie may resolve either way (the statement allows it)",
			"blocks are built by the harness builder (gen.Builder) and each was accepted by an archive node of its own",
		},
	})
}

var configs = []string{"steep", "steep", "nofork", "test-hf1-7", "all-at-0"}

type nodeView struct {
	n *gen.Node
}

func checkAfter(t *rapid.T, n *gen.Node, tr *gen.Tree, delivered []*gen.TNode, prevHeadTD *big.Int, step string) *big.Int {
	td := checkBlocks(t, n, tr, delivered, prevHeadTD, step)
	// (iv) header head is the block head after full imports
	if n.Chain.CurrentHeader().Hash() != n.Chain.CurrentBlock().Hash() {
		t.Fatalf("%s: CurrentHeader %x differs from CurrentBlock %x", step, n.Chain.CurrentHeader().Hash(), n.Chain.CurrentBlock().Hash())
	}
	return td
}

// checkBlocks: judgements (i)-(iii), which also hold when headers were imported ahead of blocks.
func checkBlocks(t *rapid.T, n *gen.Node, tr *gen.Tree, delivered []*gen.TNode, prevHeadTD *big.Int, step string) *big.Int {
	bc := n.Chain
	head := bc.CurrentBlock()
	hn := tr.ByHash[head.Hash()]
	if hn == nil {
		t.Fatalf("%s: head %x is not a block of the tree", step, head.Hash())
	}
	// (i) TD table agrees with the model for every delivered block
	for _, d := range delivered {
		got := bc.GetTd(d.Block.Hash(), d.Height)
		if got == nil {
			t.Fatalf("%s: no total difficulty stored for delivered block #%d (height %d)", step, d.Index, d.Height)
		}
		if got.Cmp(d.TD) != 0 {
			t.Fatalf("%s: stored TD of block #%d = %v, parent TD + difficulty = %v", step, d.Index, got, d.TD)
		}
	}
	// (ii) the head is a heaviest delivered block (all delivered blocks were executed: archive or within the pruning window)
	best := gen.Heaviest(delivered)
	if hn.TD.Cmp(best) < 0 {
		var heavier []string
		for _, d := range delivered {
			if d.TD.Cmp(hn.TD) > 0 {
				heavier = append(heavier, fmt.Sprintf("#%d(td=%v)", d.Index, d.TD))
			}
		}
		t.Fatalf("%s: head is block #%d with TD %v but heavier validated blocks exist: %s", step, hn.Index, hn.TD, strings.Join(heavier, " "))
	}
	// (iii) the head's TD never decreases
	if prevHeadTD != nil && hn.TD.Cmp(prevHeadTD) < 0 {
		t.Fatalf("%s: head total difficulty decreased from %v to %v", step, prevHeadTD, hn.TD)
	}
	return hn.TD
}

func runHistory(t *rapid.T, tr *gen.Tree, hist []gen.Batch, cache *core.CacheConfig, restarts map[int]bool) (labels []string, canon []byte, nontrivial bool) {
	core.VerifResetGlobals()
	n, err := gen.NewNode(aquadb.NewMemDatabase(), tr.B.Genesis, cache, nil)
	if err != nil {
		t.Fatalf("node: %v", err)
	}
	defer func() { n.Chain.Stop() }()
	delivered := []*gen.TNode{tr.Root}
	var prevTD *big.Int
	prevHead := tr.Root
	seen := map[string]bool{}
	for i, batch := range hist {
		if restarts[i] {
			if err := n.Restart(); err != nil {
				t.Fatalf("restart before batch %d: %v", i, err)
			}
			seen["restart"] = true
			prevTD = checkAfter(t, n, tr, delivered, prevTD, fmt.Sprintf("after restart before batch %d", i))
		}
		// classification before import
		bestBefore := gen.Heaviest(delivered)
		if idx, err := n.Chain.InsertChain(batch.Blocks()); err != nil {
			t.Fatalf("batch %d: InsertChain rejected valid block #%d: %v", i, batch[idx].Index, err)
		}
		delivered = append(delivered, batch...)
		if len(batch) > 1 {
			seen["batch>1"] = true
		}
		prevTD = checkAfter(t, n, tr, delivered, prevTD, fmt.Sprintf("after batch %d", i))
		head := tr.ByHash[n.Chain.CurrentBlock().Hash()]
		if head != prevHead {
			if !gen.IsAncestor(prevHead, head) {
				nontrivial = true
				seen["head-changed-branch"] = true
				if head.Height < prevHead.Height {
					seen["shorter-heavier-wins"] = true
				}
			}
		} else {
			last := batch[len(batch)-1]
			if last.Height > head.Height && last.TD.Cmp(head.TD) < 0 {
				seen["longer-lighter-ignored"] = true
			}
			if last.TD.Cmp(bestBefore) == 0 && last != head {
				seen["exact-tie"] = true
			}
		}
		if batch[0].Branch != 0 && head.Branch == 0 && batch[0].Parent.Branch != batch[0].Branch {
			_ = 0
		}
		prevHead = head
	}
	// side-before-main: some non-zero branch was fully delivered before the main branch tip
	if len(hist) > 1 && hist[0][0].Branch != 0 {
		seen["side-before-main"] = true
	}
	for k := range seen {
		labels = append(labels, k)
	}
	// final: feed everything again in build order; nothing changes and no error for known blocks
	var sb strings.Builder
	for _, nd := range tr.Nodes[1:] {
		fmt.Fprintf(&sb, "%d<-%d:%v;", nd.Index, nd.Parent.Index, nd.Block.Difficulty())
	}
	for _, b := range hist {
		fmt.Fprintf(&sb, "|%d+%d", b[0].Index, len(b))
	}
	return labels, []byte(sb.String()), nontrivial
}

func TestHeadIsHeaviest(t *testing.T) {
	ev.Check(t, ev.N(500, 16000), func(t *rapid.T) {
		nc := gen.ConfigByName(rapid.SampledFrom(configs).Draw(t, "config"))
		tr := gen.DrawTree(t, nc, gen.TreeOpts{MaxBranches: ev.Pick(4, 8), MaxDepth: ev.Pick(10, 24), MaxTxs: 0, MinMain: 2, Rivals: true, TimeDeltas: []int64{1, 13, 240, 3000}})
		defer tr.Close()
		nOrders := rapid.IntRange(1, 3).Draw(t, "orders")
		for o := 0; o < nOrders; o++ {
			hist := gen.DrawHistory(t, tr, 6, false)
			cacheKind := rapid.SampledFrom([]string{"archive", "pruning", "pruning-eager"}).Draw(t, "cache")
			cache := gen.Archive()
			lbl := []string{"config:" + nc.Name, "cache:" + cacheKind}
			switch cacheKind {
			case "pruning":
				cache = gen.Pruning()
				lbl = append(lbl, "pruning-config")
			case "pruning-eager":
				cache = gen.PruningEager()
				lbl = append(lbl, "pruning-config")
			}
			restarts := map[int]bool{}
			if rapid.IntRange(0, 2).Draw(t, "withrestart") == 0 && len(hist) > 1 {
				restarts[rapid.IntRange(1, len(hist)-1).Draw(t, "restartat")] = true
			}
			labels, canon, nt := runHistory(t, tr, hist, cache, restarts)
			ev.Case(nt, canon, append(lbl, labels...)...)
			ev.Sample(map[string]interface{}{"config": nc.Name, "cache": cacheKind, "tree": tr.Describe(), "batches": describe(hist), "labels": labels})
		}
	})
}

func describe(h []gen.Batch) []string {
	var out []string
	for _, b := range h {
		out = append(out, fmt.Sprintf("#%d..#%d(%d blocks)", b[0].Index, b[len(b)-1].Index, len(b)))
	}
	return out
}

// TestDeepSideChain crosses the 128-block state-pruning window: a long
// canonical chain on a pruning node, then a competing branch that forks below
// the window (ErrPrunedAncestor path: stored without state, executed when it
// overtakes).
func TestDeepSideChain(t *testing.T) {
	if !ev.Thorough() {
		t.Skip("thorough tier only")
	}
	ev.Check(t, ev.N(1, 24), func(t *rapid.T) {
		nc := gen.ConfigByName("steep")
		mainLen := rapid.IntRange(135, 150).Draw(t, "mainlen")
		tr := gen.DrawTree(t, nc, gen.TreeOpts{MaxBranches: 1, MaxDepth: mainLen, MinMain: mainLen, TimeDeltas: []int64{240}})
		defer tr.Close()
		// side branch from a low fork point, fast blocks so it overtakes
		forkAt := rapid.IntRange(1, 5).Draw(t, "forkat")
		parent := tr.Nodes[forkAt]
		sideLen := rapid.IntRange(mainLen-forkAt-8, mainLen-forkAt+2).Draw(t, "sidelen")
		var side gen.Batch
		for i := 0; i < sideLen; i++ {
			b, err := tr.B.Build(parent.Block, gen.BlockSpec{TimeDelta: rapid.SampledFrom([]int64{1, 1, 240}).Draw(t, "dt"), Coinbase: gen.Keys[5].Addr})
			if err != nil {
				t.Fatalf("build side: %v", err)
			}
			n := &gen.TNode{Block: b.Block, Parent: parent, Height: parent.Height + 1, TD: new(big.Int).Add(parent.TD, b.Block.Difficulty()), Branch: 1, Index: len(tr.Nodes)}
			tr.Nodes = append(tr.Nodes, n)
			tr.ByHash[b.Block.Hash()] = n
			parent.Children = append(parent.Children, n)
			side = append(side, n)
			parent = n
		}
		core.VerifResetGlobals()
		n, err := gen.NewNode(aquadb.NewMemDatabase(), tr.B.Genesis, gen.Pruning(), nil)
		if err != nil {
			t.Fatal(err)
		}
		defer func() { n.Chain.Stop() }()
		main := gen.Batch(tr.Nodes[1 : mainLen+1])
		if _, err := n.Chain.InsertChain(main.Blocks()); err != nil {
			t.Fatalf("main: %v", err)
		}
		delivered := append([]*gen.TNode{tr.Root}, main...)
		prev := checkAfter(t, n, tr, delivered, nil, "after main chain")
		// deliver the side chain in pieces
		for len(side) > 0 {
			k := rapid.IntRange(1, 40).Draw(t, "piece")
			if k > len(side) {
				k = len(side)
			}
			piece := side[:k]
			side = side[k:]
			if idx, err := n.Chain.InsertChain(piece.Blocks()); err != nil {
				t.Fatalf("side piece: block #%d: %v", piece[idx].Index, err)
			}
			// blocks stored without state are not "fully validated" yet: they are judged only for the TD table
			for _, p := range piece {
				got := n.Chain.GetTd(p.Block.Hash(), p.Height)
				if got == nil || got.Cmp(p.TD) != 0 {
					t.Fatalf("side block #%d: stored TD %v, model %v", p.Index, got, p.TD)
				}
			}
			head := tr.ByHash[n.Chain.CurrentBlock().Hash()]
			if head == nil {
				t.Fatalf("head not in tree")
			}
			if head.TD.Cmp(prev) < 0 {
				t.Fatalf("head TD decreased")
			}
			prev = head.TD
			// once a side block's TD exceeds the main tip, the head must have moved to it
			last := piece[len(piece)-1]
			if last.TD.Cmp(main[len(main)-1].TD) > 0 && head.TD.Cmp(last.TD) < 0 {
				t.Fatalf("side chain with TD %v out-weighs head TD %v but the head did not move", last.TD, head.TD)
			}
			if head.Branch == 1 {
				ev.Label("deep>128")
			}
		}
		ev.Case(true, []byte(fmt.Sprintf("deep:%d:%d:%d", mainLen, forkAt, sideLen)), "deep-case")
	})
}
