package c02

import (
	"fmt"
	"math/big"
	"strings"
	"testing"

	"gitlab.com/aquachain/aquachain/aquadb"
	"gitlab.com/aquachain/aquachain/core"
	"gitlab.com/aquachain/aquachain/core/types"
	"pgregory.net/rapid"
	"verifharness/ev"
	"verifharness/gen"
)

// TestHeadersAndBlocksMixed: the header chain "uses the same rule" (anchor core/headerchain.go WriteHeader, observable
// BlockChain.CurrentHeader()). One node receives a generated history in which some batches are announced by their
// headers (InsertHeaderChain) before their blocks arrive and others come as blocks only, so the header head is moved
// now by WriteHeader and now by BlockChain.insert (SetCurrentHeader). After every header import: the block head is
// unchanged, the header head is a header that was delivered, its total difficulty is not below what it was before the
// call and not below that of any header in the call. After every block import the usual C02 judgement (TD table,
// maximality, monotonicity) applies and the header head is not lighter than the block head.
func TestHeadersAndBlocksMixed(t *testing.T) {
	ev.Check(t, ev.N(200, 6000), func(t *rapid.T) {
		nc := gen.ConfigByName(rapid.SampledFrom(configs).Draw(t, "config"))
		tr := gen.DrawTree(t, nc, gen.TreeOpts{MaxBranches: ev.Pick(4, 8), MaxDepth: ev.Pick(10, 20), MaxTxs: 0, MinMain: 3, Rivals: true, TimeDeltas: []int64{1, 13, 240, 3000}})
		defer tr.Close()
		hist := gen.DrawHistory(t, tr, 8, false)
		core.VerifResetGlobals()
		n, err := gen.NewNode(aquadb.NewMemDatabase(), tr.B.Genesis, gen.Archive(), nil)
		if err != nil {
			t.Fatalf("node: %v", err)
		}
		defer func() { n.Chain.Stop() }()
		bc := n.Chain
		delivered := []*gen.TNode{tr.Root}
		hdelivered := map[*gen.TNode]bool{tr.Root: true}
		var prevTD *big.Int
		seen := map[string]bool{}
		var acts []string
		nontrivial := false
		blockHeadAtLastHeaderCall := tr.Root
		for i, batch := range hist {
			if rapid.IntRange(0, 1).Draw(t, fmt.Sprintf("announce%d", i)) == 0 {
				k := rapid.IntRange(1, len(batch)).Draw(t, "nheaders")
				hs := make([]*types.Header, k)
				for j := 0; j < k; j++ {
					hs[j] = batch[j].Block.Header()
				}
				blockHead := bc.CurrentBlock().Hash()
				before := tr.ByHash[bc.CurrentHeader().Hash()]
				if before == nil {
					t.Fatalf("batch %d: header head %x is not a block of the tree", i, bc.CurrentHeader().Hash())
				}
				if j, err := bc.InsertHeaderChain(hs, 1); err != nil {
					t.Fatalf("batch %d: InsertHeaderChain rejected valid header #%d: %v", i, batch[j].Index, err)
				}
				for j := 0; j < k; j++ {
					hdelivered[batch[j]] = true
				}
				acts = append(acts, fmt.Sprintf("H#%d+%d", batch[0].Index, k))
				step := fmt.Sprintf("after headers of batch %d (%s)", i, strings.Join(acts, " "))
				if bc.CurrentBlock().Hash() != blockHead {
					t.Fatalf("%s: a header import moved the block head", step)
				}
				after := tr.ByHash[bc.CurrentHeader().Hash()]
				if after == nil || !hdelivered[after] {
					t.Fatalf("%s: header head %x is not a delivered header", step, bc.CurrentHeader().Hash())
				}
				if after.TD.Cmp(before.TD) < 0 {
					t.Fatalf("%s: the header head's total difficulty decreased from %v (#%d) to %v (#%d)", step, before.TD, before.Index, after.TD, after.Index)
				}
				for j := 0; j < k; j++ {
					if batch[j].TD.Cmp(after.TD) > 0 {
						t.Fatalf("%s: header head is #%d with TD %v but the heavier header #%d (TD %v) was just imported", step, after.Index, after.TD, batch[j].Index, batch[j].TD)
					}
				}
				if got := bc.GetTd(after.Block.Hash(), after.Height); got == nil || got.Cmp(after.TD) != 0 {
					t.Fatalf("%s: stored TD of the header head #%d = %v, parent TD + difficulty = %v", step, after.Index, got, after.TD)
				}
				seen["headers-announced"] = true
				cur := tr.ByHash[blockHead]
				if cur != blockHeadAtLastHeaderCall && blockHeadAtLastHeaderCall != tr.Root {
					seen["block-head-moved-between-header-imports"] = true
					if batch[0].Parent != cur && batch[k-1].TD.Cmp(cur.TD) < 0 {
						// lighter side headers after the head was moved by blocks: the shape that needs the header head's TD to be current
						seen["lighter-side-headers-after-block-head-moved"] = true
						nontrivial = true
					}
				}
				blockHeadAtLastHeaderCall = cur
				if after != before && !gen.IsAncestor(before, after) {
					seen["header-reorg"] = true
				}
			}
			if idx, err := bc.InsertChain(batch.Blocks()); err != nil {
				t.Fatalf("batch %d: InsertChain rejected valid block #%d: %v", i, batch[idx].Index, err)
			}
			for _, b := range batch {
				hdelivered[b] = true
			}
			delivered = append(delivered, batch...)
			acts = append(acts, fmt.Sprintf("B#%d+%d", batch[0].Index, len(batch)))
			step := fmt.Sprintf("after blocks of batch %d (%s)", i, strings.Join(acts, " "))
			prevTD = checkBlocks(t, n, tr, delivered, prevTD, step)
			hh := tr.ByHash[bc.CurrentHeader().Hash()]
			if hh == nil || !hdelivered[hh] {
				t.Fatalf("%s: header head %x is not a delivered header", step, bc.CurrentHeader().Hash())
			}
			if hh.TD.Cmp(prevTD) < 0 {
				t.Fatalf("%s: header head #%d (TD %v) is lighter than the block head (TD %v)", step, hh.Index, hh.TD, prevTD)
			}
		}
		var labels []string
		for k := range seen {
			labels = append(labels, k)
		}
		ev.Case(nontrivial, []byte(strings.Join(acts, " ")+"|"+strings.Join(tr.Describe(), ";")), append(labels, "config:"+nc.Name)...)
		ev.Sample(map[string]interface{}{"config": nc.Name, "tree": tr.Describe(), "actions": acts, "labels": labels})
	})
}
