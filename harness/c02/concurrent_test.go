package c02

import (
	"fmt"
	"math/big"
	"os"
	"sync"
	"testing"

	"gitlab.com/aquachain/aquachain/aquadb"
	"gitlab.com/aquachain/aquachain/core"
	"gitlab.com/aquachain/aquachain/core/types"
	"gitlab.com/aquachain/aquachain/core/vm"
	"pgregory.net/rapid"
	"verifharness/ev"
	"verifharness/gen"
)

// TestConcurrentEntryPoints: the node has two import paths that run
// concurrently in production - blocks from peers (InsertChain) and the block its
// own miner just sealed (WriteBlockWithState, called by the miner's worker
// without the chain lock). Along a chain of heights two sibling blocks of
// different weight arrive at the same time, one through each path; when both
// calls have returned the head must be the heavier one and the head's total
// difficulty must not have gone down. The verdict does not depend on timing:
// every interleaving must end in the same head.
func TestConcurrentEntryPoints(t *testing.T) {
	ev.Check(t, ev.N(6, 120), func(t *rapid.T) {
		nc := gen.ConfigByName("steep")
		g := gen.Genesis(nc.Config, 0)
		b, err := gen.NewBuilder(g)
		if err != nil {
			t.Fatal(err)
		}
		defer b.Chain.Stop()
		core.VerifResetGlobals()
		n, err := gen.NewNode(aquadb.NewMemDatabase(), g, rapid.SampledFrom([]*core.CacheConfig{gen.Archive(), gen.Pruning()}).Draw(t, "cache"), nil)
		if err != nil {
			t.Fatal(err)
		}
		defer func() { n.Chain.Stop() }()
		// a schedule-dependent failure cannot be replayed by rapid ("flaky test"): say what happened on stderr as well
		fatalf := func(format string, a ...interface{}) {
			msg := fmt.Sprintf(format, a...)
			fmt.Fprintln(os.Stderr, "TestConcurrentEntryPoints: "+msg)
			t.Fatalf("%s", msg)
		}
		rounds := rapid.IntRange(20, 40).Draw(t, "rounds")
		parent := b.Chain.Genesis()
		stale := 0
		for r := 0; r < rounds; r++ {
			heavy, err := b.Build(parent, gen.BlockSpec{TimeDelta: 1, Coinbase: gen.Keys[5].Addr})
			if err != nil {
				t.Fatalf("build: %v", err)
			}
			light, err := b.Build(parent, gen.BlockSpec{TimeDelta: 3000, Coinbase: gen.Keys[6].Addr})
			if err != nil {
				t.Fatalf("build: %v", err)
			}
			if heavy.Block.Difficulty().Cmp(light.Block.Difficulty()) <= 0 {
				t.Fatalf("harness: the fast sibling is not heavier (%v vs %v)", heavy.Block.Difficulty(), light.Block.Difficulty())
			}
			// which sibling comes from the miner (direct write), which from a peer (InsertChain)
			minedHeavy := rapid.Bool().Draw(t, "minedHeavy")
			mined, peer := light, heavy
			if minedHeavy {
				mined, peer = heavy, light
			}
			// the miner's worker holds the block's receipts and post-state from its own execution
			statedb, err := n.Chain.StateAt(parent.Root())
			if err != nil {
				t.Fatalf("state of the common parent: %v", err)
			}
			receipts, _, _, err := n.Chain.Processor().Process(mined.Block, statedb, vm.Config{})
			if err != nil {
				t.Fatalf("processing the mined sibling: %v", err)
			}
			spinA, spinB := rapid.IntRange(0, 3).Draw(t, "spinA"), rapid.IntRange(0, 3).Draw(t, "spinB")
			tdBefore := n.Chain.GetTd(n.Chain.CurrentBlock().Hash(), n.Chain.CurrentBlock().NumberU64())
			var wg sync.WaitGroup
			var errMined, errPeer error
			start := make(chan struct{})
			wg.Add(2)
			go func() {
				defer wg.Done()
				<-start
				spin(spinA)
				_, errMined = n.Chain.WriteBlockWithState(mined.Block, receipts, statedb)
			}()
			go func() {
				defer wg.Done()
				<-start
				spin(spinB)
				_, errPeer = n.Chain.InsertChain(types.Blocks{peer.Block})
			}()
			close(start)
			wg.Wait()
			if errMined != nil || errPeer != nil {
				fatalf("round %d: a valid sibling was refused: mined path %v, peer path %v", r, errMined, errPeer)
			}
			head := n.Chain.CurrentBlock()
			tdAfter := n.Chain.GetTd(head.Hash(), head.NumberU64())
			want := new(big.Int).Add(n.Chain.GetTd(parent.Hash(), parent.NumberU64()), heavy.Block.Difficulty())
			if head.Hash() != heavy.Block.Hash() {
				fatalf("round %d (height %d): after a mined block and a peer block arrived concurrently the head is the lighter sibling %x (td %v), although the fully validated sibling %x (td %v) was imported too (heavier one came through the %s path)",
					r, heavy.Block.NumberU64(), head.Hash().Bytes()[:4], tdAfter, heavy.Block.Hash().Bytes()[:4], want, map[bool]string{true: "miner", false: "peer"}[minedHeavy])
			}
			if tdBefore != nil && tdAfter.Cmp(tdBefore) < 0 {
				fatalf("round %d: the head's total difficulty went down from %v to %v", r, tdBefore, tdAfter)
			}
			if n.Chain.GetTd(light.Block.Hash(), light.Block.NumberU64()) == nil {
				stale++
			}
			parent = heavy.Block
		}
		ev.Label("concurrent-entry-points")
		ev.Case(true, []byte(fmt.Sprintf("concurrent:%d:%x", rounds, parent.Hash())), "concurrent-entry-points")
		ev.Add("concurrent_sibling_rounds", int64(rounds))
	})
}

func spin(k int) {
	x := 0
	for i := 0; i < k*20000; i++ {
		x += i
	}
	_ = x
}
