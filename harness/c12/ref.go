// Package c12 checks property C12 (a transaction is bound to its signer and to
// its chain).
//
// This file is the independent reference model. It imports nothing from the
// repository under test: RLP comes from harness/ref/refrlp, Keccak-256 from
// golang.org/x/crypto/sha3, the group law of secp256k1 from btcec. The
// signature rules (which V/R/S are acceptable under which signer, which hash is
// signed, how the public key is recovered) are written here from the Yellow
// Paper (appendix F), EIP-2 (low S from Homestead on) and EIP-155.
package c12

import (
	"bytes"
	"math/big"

	"github.com/btcsuite/btcd/btcec/v2"
	becdsa "github.com/btcsuite/btcd/btcec/v2/ecdsa"
	"golang.org/x/crypto/sha3"
	"verifharness/ref/refrlp"
)

var (
	curveN, _  = new(big.Int).SetString("fffffffffffffffffffffffffffffffebaaedce6af48a03bbfd25e8cd0364141", 16)
	curveP, _  = new(big.Int).SetString("fffffffffffffffffffffffffffffffffffffffffffffffffffffffefffffc2f", 16)
	curveHalfN = new(big.Int).Rsh(curveN, 1)
	big0       = new(big.Int)
	big1       = big.NewInt(1)
	big2       = big.NewInt(2)
	big27      = big.NewInt(27)
	big28      = big.NewInt(28)
	big35      = big.NewInt(35)
	two256     = new(big.Int).Lsh(big1, 256)
)

func keccak(b ...[]byte) (h [32]byte) {
	d := sha3.NewLegacyKeccak256()
	for _, x := range b {
		d.Write(x)
	}
	d.Sum(h[:0])
	return h
}

// Fields is a transaction as nine abstract values.
type Fields struct {
	Nonce   uint64
	Price   *big.Int
	Gas     uint64
	To      []byte // nil (creation) or 20 bytes
	Value   *big.Int
	Data    []byte
	V, R, S *big.Int
}

func (f Fields) clone() Fields {
	g := f
	g.Price = new(big.Int).Set(f.Price)
	g.Value = new(big.Int).Set(f.Value)
	g.V = new(big.Int).Set(f.V)
	g.R = new(big.Int).Set(f.R)
	g.S = new(big.Int).Set(f.S)
	g.Data = append([]byte{}, f.Data...)
	if f.To != nil {
		g.To = append([]byte{}, f.To...)
	}
	return g
}

func (f Fields) six() []refrlp.Item {
	return []refrlp.Item{refrlp.U(f.Nonce), refrlp.Big(f.Price), refrlp.U(f.Gas), refrlp.B(f.To), refrlp.Big(f.Value), refrlp.B(f.Data)}
}

// Encode is the canonical RLP encoding of the signed transaction.
func (f Fields) Encode() []byte {
	return refrlp.Encode(refrlp.L(append(f.six(), refrlp.Big(f.V), refrlp.Big(f.R), refrlp.Big(f.S))...))
}

// TxHash is keccak256 of the nine-field encoding.
func (f Fields) TxHash() [32]byte { return keccak(f.Encode()) }

// SigHash is the hash a signer signs: six fields, or six fields followed by
// (chain id, 0, 0) when chainID is non-nil (EIP-155).
func (f Fields) SigHash(chainID *big.Int) [32]byte {
	items := f.six()
	if chainID != nil {
		items = append(items, refrlp.Big(chainID), refrlp.B(nil), refrlp.B(nil))
	}
	return keccak(refrlp.Encode(refrlp.L(items...)))
}

// decodeFields parses a canonical nine-field transaction encoding.
func decodeFields(raw []byte) (Fields, bool) {
	it, err := refrlp.DecodeExact(raw)
	if err != nil || !it.IsList || len(it.List) != 9 {
		return Fields{}, false
	}
	for _, c := range it.List {
		if c.IsList {
			return Fields{}, false
		}
	}
	num := func(b []byte, max int) (*big.Int, bool) {
		if len(b) > 0 && b[0] == 0 {
			return nil, false
		}
		if max > 0 && len(b) > max {
			return nil, false
		}
		return new(big.Int).SetBytes(b), true
	}
	l := it.List
	var f Fields
	var ok bool
	var n *big.Int
	if n, ok = num(l[0].Bytes, 8); !ok {
		return f, false
	}
	f.Nonce = n.Uint64()
	if f.Price, ok = num(l[1].Bytes, 0); !ok {
		return f, false
	}
	if n, ok = num(l[2].Bytes, 8); !ok {
		return f, false
	}
	f.Gas = n.Uint64()
	switch len(l[3].Bytes) {
	case 0:
	case 20:
		f.To = append([]byte{}, l[3].Bytes...)
	default:
		return f, false
	}
	if f.Value, ok = num(l[4].Bytes, 0); !ok {
		return f, false
	}
	f.Data = append([]byte{}, l[5].Bytes...)
	if f.V, ok = num(l[6].Bytes, 0); !ok {
		return f, false
	}
	if f.R, ok = num(l[7].Bytes, 0); !ok {
		return f, false
	}
	if f.S, ok = num(l[8].Bytes, 0); !ok {
		return f, false
	}
	return f, true
}

// ---------- keys ----------

// refKey derives public key and address from a 32-byte scalar, with btcec's
// group law and Keccak only.
func refKey(scalar []byte) (*btcec.PrivateKey, *btcec.PublicKey, [20]byte) {
	priv, pub := btcec.PrivKeyFromBytes(scalar)
	return priv, pub, pubAddr(pub)
}

func pubAddr(pub *btcec.PublicKey) (a [20]byte) {
	u := pub.SerializeUncompressed() // 0x04 || X || Y
	h := keccak(u[1:])
	copy(a[:], h[12:])
	return a
}

// ---------- signature rules ----------

const (
	kindFrontier  = 0
	kindHomestead = 1
	kindEIP155    = 2
)

// SignerSpec names a signer abstractly.
type SignerSpec struct {
	Kind    int
	ChainID *big.Int // kindEIP155 only
}

func (s SignerSpec) String() string {
	switch s.Kind {
	case kindFrontier:
		return "frontier"
	case kindHomestead:
		return "homestead"
	}
	return "eip155/" + s.ChainID.String()
}

func (s SignerSpec) equal(o SignerSpec) bool {
	return s.Kind == o.Kind && (s.Kind != kindEIP155 || s.ChainID.Cmp(o.ChainID) == 0)
}

// recoverPub is public key recovery (SEC 1, 4.1.6) restricted to recovery ids
// 0 and 1 (x = r, y parity = recid), which is all a 27/28-style V can express.
// ok=false when no key exists (x not on the curve, or the result is infinity).
func recoverPub(hash [32]byte, r, s *big.Int, recid int) (*btcec.PublicKey, bool) {
	if r.Sign() <= 0 || s.Sign() <= 0 || r.Cmp(curveN) >= 0 || s.Cmp(curveN) >= 0 || recid < 0 || recid > 1 {
		return nil, false
	}
	// y^2 = x^3 + 7 mod p
	x := new(big.Int).Set(r)
	y2 := new(big.Int).Exp(x, big.NewInt(3), curveP)
	y2.Add(y2, big.NewInt(7))
	y2.Mod(y2, curveP)
	y := new(big.Int).ModSqrt(y2, curveP)
	if y == nil {
		return nil, false
	}
	if int(y.Bit(0)) != recid {
		y.Sub(curveP, y)
	}
	c := btcec.S256()
	e := new(big.Int).SetBytes(hash[:])
	e.Mod(e, curveN)
	rinv := new(big.Int).ModInverse(r, curveN)
	u1 := new(big.Int).Mul(e, rinv)
	u1.Neg(u1)
	u1.Mod(u1, curveN)
	u2 := new(big.Int).Mul(s, rinv)
	u2.Mod(u2, curveN)
	pad := func(v *big.Int) []byte { b := make([]byte, 32); v.FillBytes(b); return b }
	x2, y2b := c.ScalarMult(x, y, pad(u2))
	qx, qy := x2, y2b
	if u1.Sign() != 0 {
		x1, y1 := c.ScalarBaseMult(pad(u1))
		if x1.Cmp(x2) == 0 && y1.Cmp(y2b) != 0 {
			return nil, false // P + (-P) = infinity
		}
		qx, qy = c.Add(x1, y1, x2, y2b)
	}
	if qx.Sign() == 0 && qy.Sign() == 0 {
		return nil, false
	}
	var fx, fy btcec.FieldVal
	fx.SetByteSlice(pad(qx))
	fy.SetByteSlice(pad(qy))
	pub := btcec.NewPublicKey(&fx, &fy)
	if !pub.IsOnCurve() {
		return nil, false
	}
	return pub, true
}

// refVerify is plain ECDSA verification by btcec (no recovery involved).
func refVerify(hash [32]byte, r, s *big.Int, pub *btcec.PublicKey) bool {
	if r.Sign() <= 0 || s.Sign() <= 0 || r.Cmp(curveN) >= 0 || s.Cmp(curveN) >= 0 {
		return false
	}
	var rs, ss btcec.ModNScalar
	rb, sb := make([]byte, 32), make([]byte, 32)
	r.FillBytes(rb)
	s.FillBytes(sb)
	if rs.SetByteSlice(rb) || ss.SetByteSlice(sb) {
		return false
	}
	return becdsa.NewSignature(&rs, &ss).Verify(hash[:], pub)
}

// Rejection reasons of the reference.
const (
	rejNone     = ""
	rejV        = "v-out-of-range"
	rejRS       = "rs-out-of-range"
	rejHighS    = "high-s"
	rejChain    = "foreign-chain-id"
	rejNoKey    = "no-public-key"
	rejInternal = "reference-inconsistent"
)

// refSender says to whom the specification attributes the transaction under
// the given signer, or why it is rejected. lowS155=false evaluates the EIP-155
// branch without the low-S rule (used only to keep judging everything else
// behind the recorded finding EIP155/high-S).
func refSender(sp SignerSpec, f Fields, lowS155 bool) (addr [20]byte, rej string) {
	return refSenderV(sp, f, lowS155, true)
}

// refSenderV: verify=false skips the (redundant, costly) re-verification of the
// recovered key.
func refSenderV(sp SignerSpec, f Fields, lowS155, verify bool) (addr [20]byte, rej string) {
	var recid int
	var hash [32]byte
	lowS := false
	isLegacyV := f.V.Cmp(big27) == 0 || f.V.Cmp(big28) == 0
	switch {
	case sp.Kind == kindFrontier || sp.Kind == kindHomestead || (sp.Kind == kindEIP155 && isLegacyV):
		if !isLegacyV {
			return addr, rejV
		}
		recid = int(f.V.Int64() - 27)
		hash = f.SigHash(nil)
		lowS = sp.Kind != kindFrontier
	default: // EIP-155 signer, replay-protected V
		if f.V.Cmp(big35) < 0 {
			return addr, rejV
		}
		d := new(big.Int).Sub(f.V, big35)
		cid := new(big.Int).Rsh(d, 1)
		if cid.Cmp(sp.ChainID) != 0 {
			return addr, rejChain
		}
		recid = int(d.Bit(0))
		hash = f.SigHash(sp.ChainID)
		lowS = lowS155
	}
	if f.R.Sign() <= 0 || f.S.Sign() <= 0 || f.R.Cmp(curveN) >= 0 || f.S.Cmp(curveN) >= 0 {
		return addr, rejRS
	}
	if lowS && f.S.Cmp(curveHalfN) > 0 {
		return addr, rejHighS
	}
	pub, ok := recoverPub(hash, f.R, f.S, recid)
	if !ok {
		return addr, rejNoKey
	}
	if verify && !refVerify(hash, f.R, f.S, pub) {
		// recovery and verification are two separate pieces of arithmetic; if
		// they disagree the reference itself is wrong
		return addr, rejInternal
	}
	return pubAddr(pub), rejNone
}

// isProtectedShape: V is neither 27 nor 28.
func isProtectedShape(f Fields) bool { return !(f.V.Cmp(big27) == 0 || f.V.Cmp(big28) == 0) }

// expectedV is the V a signer must emit for a recovery id.
func expectedV(sp SignerSpec, recid int) *big.Int {
	if sp.Kind != kindEIP155 || sp.ChainID.Sign() == 0 {
		return big.NewInt(int64(27 + recid))
	}
	v := new(big.Int).Lsh(sp.ChainID, 1)
	return v.Add(v, big.NewInt(int64(35+recid)))
}

func hexQuantity(v *big.Int) string {
	if v.Sign() == 0 {
		return "0x0"
	}
	return "0x" + v.Text(16)
}

func sameBytes(a, b []byte) bool { return bytes.Equal(a, b) }
