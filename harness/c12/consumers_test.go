package c12

// (vi) the two consumers of sender recovery — TxPool.AddRemote and
// core.ApplyTransaction — and MakeSigner's choice per network and height.

import (
	"encoding/hex"
	"fmt"
	"math/big"
	"sync"
	"testing"

	"gitlab.com/aquachain/aquachain/aqua/event"
	"gitlab.com/aquachain/aquachain/aquadb"
	"gitlab.com/aquachain/aquachain/common"
	"gitlab.com/aquachain/aquachain/core"
	"gitlab.com/aquachain/aquachain/core/state"
	"gitlab.com/aquachain/aquachain/core/types"
	"gitlab.com/aquachain/aquachain/core/vm"
	"gitlab.com/aquachain/aquachain/params"
	"gitlab.com/aquachain/aquachain/rlp"
	"pgregory.net/rapid"
	"verifharness/ev"
	"verifharness/gen"
)

// ---------- a chain head the harness defines ----------

type world struct {
	sdb     state.Database
	root    common.Hash
	bc      *core.BlockChain // only handed to ApplyTransaction for BLOCKHASH look-ups
	funding *big.Int
}

var (
	worldOnce sync.Once
	theWorld  *world
	worldErr  error
)

func getWorld() (*world, error) {
	worldOnce.Do(func() {
		w := &world{sdb: state.NewDatabase(aquadb.NewMemDatabase()), funding: new(big.Int).Mul(big.NewInt(1_000_000), gen.Ether)}
		st, err := state.New(common.Hash{}, w.sdb)
		if err != nil {
			worldErr = err
			return
		}
		for _, sc := range scalarPool {
			_, _, a := refKey(sc)
			st.AddBalance(common.Address(a), w.funding)
		}
		if w.root, err = st.Commit(false); err != nil {
			worldErr = err
			return
		}
		n, err := gen.NewNode(aquadb.NewMemDatabase(), gen.Genesis(gen.ConfigByName("all-at-0").Config, 0), gen.Archive(), nil)
		if err != nil {
			worldErr = err
			return
		}
		w.bc = n.Chain
		theWorld = w
	})
	return theWorld, worldErr
}

type stubChain struct {
	w    *world
	head *types.Block
	feed event.Feed
}

func (c *stubChain) CurrentBlock() *types.Block                    { return c.head }
func (c *stubChain) GetBlock(common.Hash, uint64) *types.Block      { return nil }
func (c *stubChain) StateAt(r common.Hash) (*state.StateDB, error) { return state.New(r, c.w.sdb) }
func (c *stubChain) SubscribeChainHeadEvent(ch chan<- core.ChainHeadEvent) event.Subscription {
	return c.feed.Subscribe(ch)
}

const headGasLimit = 8_000_000

func newPool(w *world, cfg *params.ChainConfig, height uint64) *core.TxPool {
	num := new(big.Int).SetUint64(height)
	if height > 0 {
		num.Sub(num, big1) // the head is the parent of the block being filled
	}
	h := &types.Header{Number: num, GasLimit: headGasLimit, Root: w.root, Difficulty: big.NewInt(1), Time: big.NewInt(1_600_000_000), Version: 1}
	pc := core.DefaultTxPoolConfig
	pc.Journal, pc.NoLocals = "", true
	return core.NewTxPool(pc, cfg, &stubChain{w: w, head: types.NewBlockWithHeader(h)})
}

func makeConfig(chainID *big.Int, eip155 *big.Int) *params.ChainConfig {
	return &params.ChainConfig{
		ChainId: new(big.Int).Set(chainID), HomesteadBlock: big.NewInt(0), EIP150Block: big.NewInt(0),
		EIP155Block: eip155, EIP158Block: eip155, ByzantiumBlock: eip155, Aquahash: new(params.AquahashConfig),
	}
}

// expectedSpec is the signer the configuration prescribes at a height, read
// off the configuration's fields.
func expectedSpec(cfg *params.ChainConfig, height *big.Int) SignerSpec {
	switch {
	case cfg.EIP155Block != nil && cfg.EIP155Block.Cmp(height) <= 0:
		return SignerSpec{Kind: kindEIP155, ChainID: cfg.ChainId}
	case cfg.HomesteadBlock != nil && cfg.HomesteadBlock.Cmp(height) <= 0:
		return SignerSpec{Kind: kindHomestead}
	}
	return SignerSpec{Kind: kindFrontier}
}

// poolHolder returns the accounts under which the pool files tx hash h.
func poolHolder(p *core.TxPool, h common.Hash) []common.Address {
	var out []common.Address
	pend, queued := p.Content()
	for _, m := range []map[common.Address]types.Transactions{pend, queued} {
		for a, txs := range m {
			for _, tx := range txs {
				if tx.Hash() == h {
					out = append(out, a)
				}
			}
		}
	}
	return out
}

func poolCount(p *core.TxPool, a common.Address) int {
	pend, queued := p.Content()
	return len(pend[a]) + len(queued[a])
}

func applyOnce(w *world, cfg *params.ChainConfig, height uint64, tx *types.Transaction) (*state.StateDB, *types.Receipt, error) {
	st, err := state.New(w.root, w.sdb)
	if err != nil {
		return nil, nil, err
	}
	coinbase := common.HexToAddress("0x00000000000000000000000000000000000c0ffe")
	h := &types.Header{Number: new(big.Int).SetUint64(height), GasLimit: headGasLimit, Difficulty: big.NewInt(1), Time: big.NewInt(1_600_000_240), Coinbase: coinbase, Version: 1}
	gp := new(core.GasPool).AddGas(headGasLimit)
	var used uint64
	st.Prepare(tx.Hash(), common.Hash{}, 0)
	rc, _, aerr := core.ApplyTransaction(cfg, w.bc, &coinbase, gp, st, h, tx, &used, vm.Config{})
	return st, rc, aerr
}

func TestConsumers(t *testing.T) {
	w, err := getWorld()
	if err != nil {
		t.Fatal(err)
	}
	nmut := ev.Pick(10, 16)
	ev.Check(t, ev.N(150, 8_000), func(t *rapid.T) {
		k := mkKey(scalarPool[rapid.IntRange(0, len(scalarPool)-1).Draw(t, "keyidx")], false)
		chain := rapid.SampledFrom(chainIDs).Draw(t, "chain")
		var e155 *big.Int
		switch rapid.IntRange(0, 3).Draw(t, "eip155at") {
		case 0: // never
		case 1:
			e155 = big.NewInt(0)
		default:
			e155 = big.NewInt(5)
		}
		cfg := makeConfig(chain, e155)
		height := rapid.SampledFrom([]uint64{0, 1, 4, 5, 6, 1000}).Draw(t, "height")
		hspec := expectedSpec(cfg, new(big.Int).SetUint64(height))
		poolSpec := SignerSpec{Kind: kindEIP155, ChainID: chain} // the pool always uses the EIP-155 signer of its chain

		// a transaction both consumers must accept
		var to []byte
		data := rapid.SliceOfN(rapid.Byte(), 0, 24).Draw(t, "data")
		switch rapid.IntRange(0, 3).Draw(t, "tokind") {
		case 0:
			data = append([]byte{0x00}, data...) // creation whose init code stops at once
		case 1:
			to = make([]byte, 20)
		case 2:
			_, _, a := refKey(scalarPool[rapid.IntRange(0, len(scalarPool)-1).Draw(t, "rcpt")])
			to = a[:]
		default:
			to = append([]byte{0xee}, rapid.SliceOfN(rapid.Byte(), 19, 19).Draw(t, "fresh")...)
		}
		intrinsic := gen.Intrinsic(data, to == nil)
		c := Fields{
			Nonce: 0, Price: big.NewInt(rapid.SampledFrom([]int64{1, 2, 1_000_000_000}).Draw(t, "price")),
			Gas:   intrinsic + rapid.SampledFrom([]uint64{0, 1, 20000, 100000}).Draw(t, "gasextra"), To: to,
			Value: big.NewInt(rapid.SampledFrom([]int64{0, 1, 1_000_000_000_000_000_000}).Draw(t, "value")), Data: data,
			V: new(big.Int), R: new(big.Int), S: new(big.Int),
		}
		// signed the way the chain prescribes at this height, or (always admissible) unprotected
		signSpec := hspec
		if hspec.Kind == kindEIP155 && rapid.IntRange(0, 3).Draw(t, "unprotected") == 0 {
			signSpec = SignerSpec{Kind: kindHomestead}
		}
		var signer types.Signer
		if signSpec.equal(hspec) {
			signer = types.MakeSigner(cfg, new(big.Int).SetUint64(height))
		} else {
			signer = mkSigner(signSpec)
		}
		signed, err := types.SignTx(unsignedTx(c), signer, k.priv)
		if err != nil {
			t.Fatalf("SignTx: %v", err)
		}
		f0 := fieldsOf(signed)
		raw0 := f0.Encode()
		if a, rej := refSender(signSpec, f0, true); rej != rejNone || a != k.addr {
			t.Fatalf("MakeSigner(%v,%d)-signed transaction is not attributable to the key under %v (%s): %x", cfg.ChainId, height, signSpec, rej, raw0)
		}
		orig := common.Address(k.addr)
		canon := func(kind string, raw []byte) []byte {
			return append([]byte(fmt.Sprintf("%s|%v|%v|%d|", kind, chain, e155, height)), raw...)
		}

		// --- pool, original ---
		{
			p := newPool(w, cfg, height)
			var tx types.Transaction
			mustDecode(t, raw0, &tx)
			err := p.AddRemote(&tx)
			holders := poolHolder(p, tx.Hash())
			p.Stop()
			if err != nil {
				t.Fatalf("pool (chain %v) refused a valid transaction signed under %v by a funded key: %v\n tx %x", chain, signSpec, err, raw0)
			}
			if len(holders) != 1 || holders[0] != orig {
				t.Fatalf("pool files the transaction under %x, signer is %x: tx %x", holders, orig, raw0)
			}
			ev.Case(true, canon("pool-orig", raw0), "consumer:pool-original-accepted")
		}
		// --- ApplyTransaction, original ---
		{
			var tx types.Transaction
			mustDecode(t, raw0, &tx)
			st, rc, err := applyOnce(w, cfg, height, &tx)
			if err != nil || rc == nil {
				t.Fatalf("ApplyTransaction (chain %v, height %d) refused a valid transaction signed under %v: %v\n tx %x", chain, height, signSpec, err, raw0)
			}
			if st.GetNonce(orig) != 1 {
				t.Fatalf("ApplyTransaction did not charge the signer %x (nonce %d): tx %x", orig, st.GetNonce(orig), raw0)
			}
			ev.Case(true, canon("apply-orig", raw0), "consumer:apply-original")
		}

		// --- mutations at both consumers ---
		muts := mutationsOf(t, signSpec, f0, raw0, 6)
		for _, i := range drawIdx(t, "mutpick", len(muts), nmut) {
			m := muts[i]
			raw := m.raw
			if raw == nil {
				raw = m.f.Encode()
			}
			var probe types.Transaction
			if rlpErr := decodeTx(raw, &probe); rlpErr != nil {
				ev.Case(false, canon("undecodable", raw), m.class, "undecodable")
				continue
			}
			g := fieldsOf(&probe)
			if string(g.Encode()) != string(raw) || string(raw) == string(raw0) {
				continue
			}
			// pool
			{
				p := newPool(w, cfg, height)
				var tx types.Transaction
				mustDecode(t, raw, &tx)
				err := p.AddRemote(&tx)
				holders := poolHolder(p, tx.Hash())
				underOrig := poolCount(p, orig)
				p.Stop()
				refA, rej := refSender(poolSpec, g, true)
				known := rej == rejHighS && isProtectedShape(g)
				if known {
					refA, rej = refSender(poolSpec, g, false)
				}
				if err == nil {
					if len(holders) != 1 {
						t.Fatalf("pool accepted a transaction but files it under %x: %x", holders, raw)
					}
					if known {
						if !ev.Known(keyHighS) {
							t.Fatalf("pool accepted a malleable (S > n/2) replay-protected transaction for %x: %x", holders[0], raw)
						}
						ev.Excluded(keyHighS)
					}
					if rej != rejNone || common.Address(refA) != holders[0] {
						t.Fatalf("pool files %s transaction under %x; specification: 0x%x (%s) under %v\n tx %x", m.class, holders[0], refA, rej, poolSpec, raw)
					}
					if holders[0] == orig && !known {
						t.Fatalf("pool attributes a mutated transaction (%s) to the original signer %x\n original %x\n mutated  %x", m.class, orig, raw0, raw)
					}
				} else if underOrig != 0 {
					t.Fatalf("pool reported %v but holds a transaction under the original signer: %x", err, raw)
				}
				ev.Case(true, canon("pool-mut", raw), "consumer:pool-mutated", m.class)
			}
			// ApplyTransaction
			{
				var tx types.Transaction
				mustDecode(t, raw, &tx)
				st, _, err := applyOnce(w, cfg, height, &tx)
				refA, rej := refSender(hspec, g, true)
				known := rej == rejHighS && hspec.Kind == kindEIP155 && isProtectedShape(g)
				if known {
					refA, rej = refSender(hspec, g, false)
				}
				charged := st.GetNonce(orig) != 0 || st.GetBalance(orig).Cmp(w.funding) < 0
				if charged {
					if known && ev.Known(keyHighS) {
						ev.Excluded(keyHighS)
					} else {
						t.Fatalf("ApplyTransaction (height %d, %v) charged the original signer %x for a mutated transaction (%s), err=%v\n original %x\n mutated  %x", height, hspec, orig, m.class, err, raw0, raw)
					}
				}
				if err == nil {
					if known && !ev.Known(keyHighS) {
						t.Fatalf("ApplyTransaction executed a malleable (S > n/2) replay-protected transaction: %x", raw)
					}
					if rej != rejNone {
						t.Fatalf("ApplyTransaction (height %d) executed a transaction the specification rejects under %v (%s): %x", height, hspec, rej, raw)
					}
					if st.GetNonce(common.Address(refA)) != g.Nonce+1 {
						t.Fatalf("ApplyTransaction executed the transaction but not as its signer 0x%x: %x", refA, raw)
					}
				}
				ev.Case(true, canon("apply-mut", raw), "consumer:apply-mutated", m.class)
			}
		}

		// --- foreign chain / wrong era at the consumers ---
		if signSpec.Kind == kindEIP155 {
			other := makeConfig(new(big.Int).Add(chain, big1), e155)
			p := newPool(w, other, height)
			var tx types.Transaction
			mustDecode(t, raw0, &tx)
			err := p.AddRemote(&tx)
			n := poolCount(p, orig)
			p.Stop()
			if err == nil || n != 0 {
				t.Fatalf("pool of chain %v accepted a transaction signed for chain %v: %x", other.ChainId, chain, raw0)
			}
			var tx2 types.Transaction
			mustDecode(t, raw0, &tx2)
			st, _, aerr := applyOnce(w, other, height, &tx2)
			if aerr == nil || st.GetNonce(orig) != 0 {
				t.Fatalf("ApplyTransaction on chain %v executed a transaction signed for chain %v: %x", other.ChainId, chain, raw0)
			}
			// before the fork height a replay-protected transaction is not valid in a block
			if e155 != nil && e155.Sign() > 0 {
				var tx3 types.Transaction
				mustDecode(t, raw0, &tx3)
				st, _, aerr := applyOnce(w, cfg, e155.Uint64()-1, &tx3)
				if aerr == nil || st.GetNonce(orig) != 0 {
					t.Fatalf("ApplyTransaction executed a replay-protected transaction at height %d, before EIP-155 (%v): %x", e155.Uint64()-1, e155, raw0)
				}
			}
			ev.Case(true, canon("consumer-foreign", raw0), "foreign-chain-rejected")
		}
		ev.Sample(map[string]interface{}{"kind": "consumers", "chain": chain.String(), "eip155": fmt.Sprint(e155), "height": height, "signed-under": signSpec.String(), "tx": hex.EncodeToString(raw0)})
	})
}

func decodeTx(raw []byte, tx *types.Transaction) error {
	return rlp.DecodeBytes(raw, tx)
}

// ---------- MakeSigner on the built-in networks ----------

func TestMakeSignerBuiltin(t *testing.T) {
	nets := []struct {
		name string
		cfg  *params.ChainConfig
	}{
		{"mainnet", params.MainnetChainConfig}, {"testnet", params.TestnetChainConfig}, {"testnet2", params.Testnet2ChainConfig},
		{"testnet3", params.Testnet3ChainConfig}, {"all-aquahash", params.AllAquahashProtocolChanges}, {"all-clique", params.AllCliqueProtocolChanges},
		{"test", params.TestChainConfig},
	}
	k := mkKey(scalarPool[40], false)
	content := Fields{Nonce: 7, Price: big.NewInt(1_000_000_000), Gas: 21000, To: k.addr[:], Value: big.NewInt(5), V: new(big.Int), R: new(big.Int), S: new(big.Int)}
	for _, n := range nets {
		heights := []*big.Int{big.NewInt(0), big.NewInt(1), big.NewInt(1_000_000), new(big.Int).Lsh(big1, 40)}
		if e := n.cfg.EIP155Block; e != nil {
			heights = append(heights, new(big.Int).Set(e), new(big.Int).Add(e, big1))
			if e.Sign() > 0 {
				heights = append(heights, new(big.Int).Sub(e, big1))
			}
		}
		for _, h := range heights {
			want := expectedSpec(n.cfg, h)
			if want.Kind == kindFrontier {
				t.Fatalf("%s at %v: configuration prescribes the Frontier signer; the check's assumption (Homestead from block 0 everywhere) does not hold", n.name, h)
			}
			// probes: signed under Homestead, under this chain's id, under a neighbouring id; each also malleated
			probeSpecs := []SignerSpec{{Kind: kindHomestead}, {Kind: kindEIP155, ChainID: n.cfg.ChainId}, {Kind: kindEIP155, ChainID: new(big.Int).Add(n.cfg.ChainId, big1)}}
			for _, ps := range probeSpecs {
				signed, err := types.SignTx(unsignedTx(content), mkSigner(ps), k.priv)
				if err != nil {
					t.Fatal(err)
				}
				f := fieldsOf(signed)
				mal := f.clone()
				mal.S.Sub(curveN, mal.S)
				if ps.Kind == kindEIP155 {
					if new(big.Int).Sub(mal.V, big35).Bit(0) == 0 {
						mal.V.Add(mal.V, big1)
					} else {
						mal.V.Sub(mal.V, big1)
					}
				} else {
					mal.V.SetInt64(27 + 28 - mal.V.Int64())
				}
				for _, g := range []Fields{f, mal} {
					var tx types.Transaction
					mustDecode(t, g.Encode(), &tx)
					cs := &caseSaver{t: t, name: "makesigner-" + n.name, raw: g.Encode(), sp: want}
					got := implSender(types.MakeSigner(n.cfg, h), &tx)
					agree(cs, fmt.Sprintf("MakeSigner(%s,%v)", n.name, h), want, g, got)
					ev.Case(true, []byte(fmt.Sprintf("builtin|%s|%v|%v|%x", n.name, h, ps, g.Encode())), "makesigner:builtin", "makesigner:"+n.name+":"+want.String())
				}
			}
		}
	}
}
