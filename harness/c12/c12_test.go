// C12 — a transaction is bound to its signer and to its chain.
//
// Oracles (see ref.go for the reference model, which shares no code with the
// repository):
//
//	(i)   Sender(signer, SignTx(tx, signer, key)) == address(key), with address(key),
//	      the signing hash and the ECDSA verification all computed independently;
//	(ii)  every mutation of a signed transaction is rejected or attributed to some
//	      other address;
//	(iii) a replay-protected transaction resolves only under its own chain id, also
//	      through the sender cache;
//	(iv)  R,S outside [1,n-1] are rejected by every signer, S > n/2 by the Homestead
//	      and EIP-155 signers (EIP-155: recorded finding EIP155/high-S);
//	(v)   hash and sender survive RLP, JSON and RLP->JSON->RLP re-encoding, also when
//	      the decoder fills an object that held another transaction (reuse_test.go);
//	(vi)  the same at TxPool.AddRemote and core.ApplyTransaction;
//	plus a differential: whatever types.Sender answers must be what the reference
//	model answers for the same nine fields under the same signer.
package c12

import (
	"bytes"
	"encoding/hex"
	"encoding/json"
	"fmt"
	"math/big"
	"os"
	"sort"
	"strings"
	"testing"

	"github.com/btcsuite/btcd/btcec/v2"
	"gitlab.com/aquachain/aquachain/common"
	"gitlab.com/aquachain/aquachain/core/types"
	"gitlab.com/aquachain/aquachain/rlp"
	"pgregory.net/rapid"
	"verifharness/ev"
	"verifharness/gen"
)

const keyHighS = "EIP155/high-S"

func TestMain(m *testing.M) {
	gen.Quiet()
	ev.MustHit(
		"signer:frontier", "signer:homestead", "signer:eip155",
		"mut:bitflip", "mut:field-neighbour", "mut:chainid+-1", "mut:v-parity", "mut:malleate",
		"mut:r-boundary", "mut:s-boundary", "mut:v-boundary", "mut:v-wrap-256", "mut:strip-protection",
		"chainid:V>8bit", "chainid:V>32bit", "chainid:V>64bit",
		"cache:other-signer", "cache:via-String", "foreign-chain-rejected",
		"key:leading-zero-scalar", "key:near-n", "key:drawn",
		"reenc:rlp", "reenc:json", "reenc:rlp-json-rlp",
		"outcome:rejected", "outcome:other-address", "outcome:original-ok",
		"consumer:pool-original-accepted", "consumer:pool-mutated", "consumer:apply-original", "consumer:apply-mutated",
		"makesigner:builtin", "to:nil", "to:address", "vector:published", "corpus", "witness:" + keyHighS,
		"reuse:json-into-cached", "reuse:json-into-clean", "reuse:rlp-into-cached", "reuse:json-into-fresh", "reuse:rlp-into-fresh",
		"reuse:json-after-other-hash-cached", "reuse:json-after-other-sender-cached", "reuse:json-foreign-hash-member",
		"reuse:holder:ptr", "reuse:holder:value", "reuse:holder:slice", "reuse:holder:struct", "reuse:into-signing-parent", "witness:" + keyReuse,
	)
	ev.MustHitThorough("sig:short-r-or-s", "frontier-high-s-not-judged", "reenc:json-refused-invalid-sig")
	ev.Main(m, ev.Config{
		Property: "C12",
		Level:    "exploration",
		Rule: "one evaluation = one (transaction encoding, signer) pair judged: a freshly signed transaction, one mutation of it (bit flip in the encoding, field replaced by a neighbour, " +
			"chain id +-1, V parity, (R,n-S,V') malleation, R/S/V boundary value, V+256k wrap, protection stripped), a cross-signer or cached-sender query, a consumer (TxPool.AddRemote, ApplyTransaction) submission, " +
			"or one object produced by one decoding of a receiver history (TestReusedReceiver: 2-4 signed or mutated transactions are decoded in a drawn order, through RLP or JSON (repository-emitted or reference-built, with an own, a foreign or no hash member), " +
			"2-6 (thorough 2-9) times into ONE holder - a *Transaction variable, a Transaction value, a []*Transaction of 0-3 elements, a struct with a transaction and a list - with a drawn subset of {Hash, Sender under the own or another signer, Size, MarshalJSON} observed between the decodings; " +
			"after each decoding the object must report the fields, hash and sender of what was decoded; plus a decoding into the object a signed copy was made from). " +
			"Keys: 64-scalar pool (small, leading-zero, near n) + drawn scalars in [2,n-1]; signers Frontier, Homestead, EIP-155 with chain ids {1,3,1337,61717561,617175611,2^31,2^62,2^63}. " +
			"non-trivial = the mutated bytes still decode as a transaction different from the original (or a consumer/cross-signer query on a decodable transaction); distinct by hash of class-free (signer, encoding)",
		Assumptions: []string{
			"reference model (harness/c12/ref.go): Yellow Paper appendix F + EIP-2 + EIP-155 rules, refrlp encoding, x/crypto Keccak-256, btcec group law; checked against the eip155 test vectors published in core/types/transaction_signing_test.go",
			"ECDSA is unforgeable: a mutated transaction recovering to the original address by chance (2^-160) is not considered",
			"keys are scalars in [2,n-1] (crypto.BytesToKey rejects 0 and 1); price and value are below 2^256 (hexutil.Big's documented JSON limit)",
			"the Frontier signer's acceptance of S > n/2 is protocol-defined and not judged; no built-in network selects it (checked by TestMakeSignerBuiltin)",
			"consumers run on a stub chain head (harness-defined blockChain for the pool, fresh state per submission for ApplyTransaction)",
			"a receiver that was used before is a supported decoding target for both codecs (encoding/json and package rlp both document that a non-nil pointer is re-used); for RLP the hash/sender questions on an object that carries another transaction's memoised answer are skipped as recorded finding DecodeRLP/reused-receiver (fields and re-encoding are still judged there; JSON is judged in full); receiver histories are sequential (no concurrent decoding into one object); Size() is observed but not judged",
		},
	})
}

type fataler interface {
	Fatalf(string, ...interface{})
}

// ---------- signers ----------

var chainIDs = []*big.Int{
	big.NewInt(1), big.NewInt(3), big.NewInt(1337), big.NewInt(61717561), big.NewInt(617175611),
	new(big.Int).Lsh(big1, 31), new(big.Int).Lsh(big1, 62), new(big.Int).Lsh(big1, 63),
}

func allSpecs() []SignerSpec {
	out := []SignerSpec{{Kind: kindFrontier}, {Kind: kindHomestead}}
	for _, c := range chainIDs {
		out = append(out, SignerSpec{Kind: kindEIP155, ChainID: c})
	}
	return out
}

func mkSigner(sp SignerSpec) types.Signer {
	switch sp.Kind {
	case kindFrontier:
		return types.FrontierSigner{}
	case kindHomestead:
		return types.HomesteadSigner{}
	}
	return types.NewEIP155Signer(new(big.Int).Set(sp.ChainID))
}

func chainLabels(c *big.Int) []string {
	v := expectedV(SignerSpec{Kind: kindEIP155, ChainID: c}, 0)
	var l []string
	if v.BitLen() > 8 {
		l = append(l, "chainid:V>8bit")
	}
	if v.BitLen() > 32 {
		l = append(l, "chainid:V>32bit")
	}
	if v.BitLen() > 64 {
		l = append(l, "chainid:V>64bit")
	}
	return l
}

// ---------- keys ----------

var scalarPool [][]byte

func init() {
	add := func(v *big.Int) {
		b := make([]byte, 32)
		v.FillBytes(b)
		scalarPool = append(scalarPool, b)
	}
	for _, s := range []int64{2, 3, 4, 5, 7, 0x7f, 0x80, 0xff, 0x100, 0xffff, 1_000_000, 0x7fffffffffffffff} {
		add(big.NewInt(s))
	}
	for _, k := range []uint{8, 16, 63, 64, 65, 127, 128, 192, 200, 247, 248, 254, 255} {
		add(new(big.Int).Lsh(big1, k))
	}
	for _, d := range []int64{1, 2, 3, 4, 0x141, 0x10000} {
		add(new(big.Int).Sub(curveN, big.NewInt(d)))
	}
	add(new(big.Int).Set(curveHalfN))
	add(new(big.Int).Add(curveHalfN, big1))
	add(new(big.Int).Sub(curveHalfN, big1))
	for i := 0; len(scalarPool) < 64; i++ {
		h := keccak([]byte(fmt.Sprintf("c12-key-%d", i)))
		v := new(big.Int).SetBytes(h[:])
		switch i % 4 {
		case 1: // leading zero bytes
			v.Rsh(v, uint(8*(1+i%9)))
		case 2: // top bits set
			v.SetBit(v, 255, 1)
		}
		v.Mod(v, new(big.Int).Sub(curveN, big2))
		v.Add(v, big2)
		add(v)
	}
}

type keyT struct {
	scalar []byte
	priv   *btcec.PrivateKey
	pub    *btcec.PublicKey
	addr   [20]byte
	labels []string
}

func mkKey(scalar []byte, drawn bool) keyT {
	priv, pub, addr := refKey(scalar)
	k := keyT{scalar: scalar, priv: priv, pub: pub, addr: addr}
	if scalar[0] == 0 {
		k.labels = append(k.labels, "key:leading-zero-scalar")
	}
	v := new(big.Int).SetBytes(scalar)
	if new(big.Int).Sub(curveN, v).BitLen() <= 24 {
		k.labels = append(k.labels, "key:near-n")
	}
	if drawn {
		k.labels = append(k.labels, "key:drawn")
	}
	return k
}

func drawKey(t *rapid.T) keyT {
	if rapid.IntRange(0, 3).Draw(t, "keysrc") == 0 {
		b := rapid.SliceOfN(rapid.Byte(), 32, 32).Draw(t, "scalar")
		v := new(big.Int).SetBytes(b)
		v.Mod(v, new(big.Int).Sub(curveN, big2))
		v.Add(v, big2)
		s := make([]byte, 32)
		v.FillBytes(s)
		return mkKey(s, true)
	}
	return mkKey(scalarPool[rapid.IntRange(0, len(scalarPool)-1).Draw(t, "keyidx")], false)
}

// ---------- transaction contents ----------

var bigBoundaries = func() []*big.Int {
	var out []*big.Int
	for _, s := range []string{"0", "1", "2", "7f", "80", "ff", "100", "ffff", "10000", "3b9aca00", "ffffffffffffffff", "10000000000000000", "de0b6b3a7640000"} {
		v, _ := new(big.Int).SetString(s, 16)
		out = append(out, v)
	}
	out = append(out, new(big.Int).Lsh(big1, 255), new(big.Int).Sub(two256, big1), new(big.Int).Lsh(big1, 248))
	return out
}()

func drawBig256(t *rapid.T, l string) *big.Int {
	if rapid.Bool().Draw(t, l+"-boundary") {
		return new(big.Int).Set(rapid.SampledFrom(bigBoundaries).Draw(t, l))
	}
	return new(big.Int).SetBytes(rapid.SliceOfN(rapid.Byte(), 0, 32).Draw(t, l))
}

func drawU64(t *rapid.T, l string) uint64 {
	if rapid.Bool().Draw(t, l+"-boundary") {
		return rapid.SampledFrom([]uint64{0, 1, 0x7f, 0x80, 0xff, 0x100, 21000, 53000, 0xffff, 0x10000, 1<<32 - 1, 1 << 32, 1<<56 - 1, 1 << 56, 1<<63 - 1, 1 << 63, 1<<64 - 2, 1<<64 - 1}).Draw(t, l)
	}
	return rapid.Uint64().Draw(t, l)
}

func drawTo(t *rapid.T) []byte {
	switch rapid.IntRange(0, 5).Draw(t, "tokind") {
	case 0:
		return nil
	case 1:
		return make([]byte, 20) // the zero address: differs from creation only by length
	case 2:
		a := make([]byte, 20)
		a[19] = byte(rapid.IntRange(1, 9).Draw(t, "precompile"))
		return a
	case 3:
		a := rapid.SliceOfN(rapid.Byte(), 20, 20).Draw(t, "to")
		a[0] = 0
		return a
	default:
		return rapid.SliceOfN(rapid.Byte(), 20, 20).Draw(t, "to")
	}
}

func drawData(t *rapid.T) []byte {
	switch rapid.IntRange(0, 6).Draw(t, "datakind") {
	case 0:
		return nil
	case 1:
		return []byte{rapid.Byte().Draw(t, "d1")}
	case 2:
		n := rapid.SampledFrom([]int{2, 31, 32, 36, 54, 55, 56, 57, 68, 130, 255, 256, 300}).Draw(t, "dlen")
		return rapid.SliceOfN(rapid.Byte(), n, n).Draw(t, "data")
	case 3: // mostly zero bytes
		n := rapid.IntRange(1, 70).Draw(t, "zlen")
		d := make([]byte, n)
		d[rapid.IntRange(0, n-1).Draw(t, "zpos")] = rapid.Byte().Draw(t, "zval")
		return d
	default:
		return rapid.SliceOfN(rapid.Byte(), 0, 48).Draw(t, "data")
	}
}

func drawContents(t *rapid.T) Fields {
	return Fields{
		Nonce: drawU64(t, "nonce"), Price: drawBig256(t, "price"), Gas: drawU64(t, "gas"), To: drawTo(t),
		Value: drawBig256(t, "value"), Data: drawData(t), V: new(big.Int), R: new(big.Int), S: new(big.Int),
	}
}

func unsignedTx(f Fields) *types.Transaction {
	if f.To == nil {
		return types.NewContractCreation(f.Nonce, f.Value, f.Gas, f.Price, f.Data)
	}
	return types.NewTransaction(f.Nonce, common.BytesToAddress(f.To), f.Value, f.Gas, f.Price, f.Data)
}

// fieldsOf reads a transaction back through its public getters.
func fieldsOf(tx *types.Transaction) Fields {
	v, r, s := tx.RawSignatureValues()
	f := Fields{Nonce: tx.Nonce(), Price: tx.GasPrice(), Gas: tx.Gas(), Value: tx.Value(), Data: tx.Data(),
		V: new(big.Int).Set(v), R: new(big.Int).Set(r), S: new(big.Int).Set(s)}
	if to := tx.To(); to != nil {
		f.To = append([]byte{}, to[:]...)
	}
	return f
}

// ---------- the judge ----------

type outcome struct {
	addr [20]byte
	err  error
}

func (o outcome) String() string {
	if o.err != nil {
		return "error(" + o.err.Error() + ")"
	}
	return "0x" + hex.EncodeToString(o.addr[:])
}

func (o outcome) same(p outcome) bool {
	return (o.err == nil) == (p.err == nil) && (o.err != nil || o.addr == p.addr)
}

func implSender(signer types.Signer, tx *types.Transaction) outcome {
	a, err := types.Sender(signer, tx)
	if err != nil {
		return outcome{err: err}
	}
	return outcome{addr: a}
}

// agree compares one answer of types.Sender with the reference model. It
// returns whether the answer was reached only through the recorded finding
// EIP155/high-S (accepted although S > n/2).
func agree(t fataler, what string, sp SignerSpec, g Fields, got outcome) (viaKnown bool) {
	return agreeV(t, what, sp, g, got, true)
}

func agreeV(t fataler, what string, sp SignerSpec, g Fields, got outcome, verify bool) (viaKnown bool) {
	refA, rej := refSenderV(sp, g, true, verify)
	if rej == rejInternal {
		t.Fatalf("harness error: reference recovery and verification disagree for %x under %v", g.Encode(), sp)
	}
	if rej == rejHighS && sp.Kind == kindEIP155 && isProtectedShape(g) {
		// exactly the recorded shape: replay-protected V of this chain, R and S in
		// range, S in the upper half
		if got.err != nil {
			return false // rejected, as the statement demands
		}
		if !ev.Known(keyHighS) {
			t.Fatalf("%s: EIP-155 signer %v accepted a malleable signature (S > n/2) and attributed it to %v: tx %x", what, sp, got, g.Encode())
		}
		ev.Excluded(keyHighS)
		refA2, rej2 := refSender(sp, g, false)
		if rej2 != rejNone || refA2 != got.addr {
			t.Fatalf("%s: high-S transaction attributed to %v, but the signature belongs to 0x%x (%s): tx %x under %v", what, got, refA2, rej2, g.Encode(), sp)
		}
		return true
	}
	if got.err == nil {
		if rej != rejNone {
			t.Fatalf("%s: sender %v accepted under %v, specification rejects (%s): tx %x", what, got, sp, rej, g.Encode())
		}
		if refA != got.addr {
			t.Fatalf("%s: attributed to %v under %v, but the signature over the specified signing hash belongs to 0x%x: tx %x", what, got, sp, refA, g.Encode())
		}
	} else if rej == rejNone {
		t.Fatalf("%s: valid signature of 0x%x rejected under %v (%v): tx %x", what, refA, sp, got.err, g.Encode())
	}
	return false
}

type judgeOpts struct {
	orig      *[20]byte // original signer of the transaction this one was mutated from
	origRaw   []byte
	class     string
	reencode  bool // hash / encoding survival (cheap)
	deep      bool // also: sender survival through the re-encodings, AsMessage, reference re-verification (4 more recoveries)
	sameOK    bool // this class may legitimately keep the original sender (Frontier malleation only)
	extraLbls []string
}

// judge runs every oracle on one (encoding, signer) pair. It returns whether
// the bytes decoded as a transaction different from the original.
func judge(t fataler, sp SignerSpec, raw []byte, o judgeOpts) bool {
	var tx types.Transaction
	lbls := append([]string{o.class}, o.extraLbls...)
	canon := append(append([]byte(sp.String()), '|'), raw...)
	if err := rlp.DecodeBytes(raw, &tx); err != nil {
		ev.Case(false, canon, append(lbls, "undecodable")...)
		return false
	}
	g := fieldsOf(&tx)
	if !bytes.Equal(g.Encode(), raw) {
		// the decoder accepted a second encoding of some transaction: property C11's subject
		ev.Case(false, canon, append(lbls, "noncanonical-accepted(C11)")...)
		return false
	}
	if o.origRaw != nil && bytes.Equal(raw, o.origRaw) {
		ev.Case(false, canon, append(lbls, "mutation-was-identity")...)
		return false
	}
	signer := mkSigner(sp)
	got := implSender(signer, &tx)
	viaKnown := agreeV(t, o.class, sp, g, got, o.deep)
	switch {
	case got.err != nil:
		lbls = append(lbls, "outcome:rejected")
	case o.orig != nil && got.addr == *o.orig:
		if o.sameOK {
			lbls = append(lbls, "frontier-high-s-not-judged")
		} else if viaKnown {
			lbls = append(lbls, "known:"+keyHighS)
		} else {
			t.Fatalf("%s: mutated transaction is still attributed to the original signer 0x%x under %v\n original %x\n mutated  %x", o.class, *o.orig, sp, o.origRaw, raw)
		}
	case o.orig != nil:
		lbls = append(lbls, "outcome:other-address")
	default:
		lbls = append(lbls, "outcome:original-ok")
	}
	if o.deep {
		// AsMessage is the other observation point of the same computation
		var tx1 types.Transaction
		mustDecode(t, raw, &tx1)
		msg, merr := tx1.AsMessage(signer)
		if (merr == nil) != (got.err == nil) || (merr == nil && [20]byte(msg.From()) != got.addr) {
			t.Fatalf("%s: AsMessage and Sender disagree under %v: %v / %v, tx %x", o.class, sp, msg.From(), got, raw)
		}
	}
	if o.reencode {
		reencode(t, sp, signer, &tx, g, raw, got, o.class, o.deep)
	}
	ev.Case(true, canon, lbls...)
	return true
}

func mustDecode(t fataler, raw []byte, tx *types.Transaction) {
	if err := rlp.DecodeBytes(raw, tx); err != nil {
		t.Fatalf("second decoding of %x failed: %v", raw, err)
	}
}

func fits256(g Fields) bool {
	for _, v := range []*big.Int{g.Price, g.Value, g.V, g.R, g.S} {
		if v.BitLen() > 256 {
			return false
		}
	}
	return true
}

// reencode: hash and sender survive RLP, JSON and RLP->JSON->RLP.
func reencode(t fataler, sp SignerSpec, signer types.Signer, tx *types.Transaction, g Fields, raw []byte, got outcome, class string, deep bool) {
	want := g.TxHash()
	if h := tx.Hash(); [32]byte(h) != want {
		t.Fatalf("%s: Hash() = %x, keccak256(rlp(nine fields)) = %x, tx %x", class, h, want, raw)
	}
	enc, err := rlp.EncodeToBytes(tx)
	if err != nil || !bytes.Equal(enc, raw) {
		t.Fatalf("%s: RLP re-encoding differs: %x -> %x (%v)", class, raw, enc, err)
	}
	var tx2 types.Transaction
	mustDecode(t, enc, &tx2)
	if tx2.Hash() != tx.Hash() {
		t.Fatalf("%s: hash changed by RLP round trip, tx %x", class, raw)
	}
	if !deep {
	} else if o2 := implSender(signer, &tx2); !o2.same(got) {
		t.Fatalf("%s: sender changed by RLP round trip: %v -> %v under %v, tx %x", class, got, o2, sp, raw)
	}
	ev.Label("reenc:rlp")

	js, err := tx.MarshalJSON()
	if err != nil {
		t.Fatalf("%s: MarshalJSON failed: %v, tx %x", class, err, raw)
	}
	checkJSONContent(t, js, g, want, class)
	var tx3 types.Transaction
	if err := tx3.UnmarshalJSON(js); err != nil {
		if got.err == nil && fits256(g) {
			t.Fatalf("%s: transaction with sender %v does not survive JSON: %v\n json %s", class, got, err, js)
		}
		ev.Label("reenc:json-refused-invalid-sig")
		return
	}
	if tx3.Hash() != tx.Hash() {
		t.Fatalf("%s: hash changed by JSON round trip: %x -> %x\n json %s", class, tx.Hash(), tx3.Hash(), js)
	}
	if !deep {
	} else if o3 := implSender(signer, &tx3); !o3.same(got) {
		t.Fatalf("%s: sender changed by JSON round trip: %v -> %v under %v\n json %s", class, got, o3, sp, js)
	}
	ev.Label("reenc:json")
	enc3, err := rlp.EncodeToBytes(&tx3)
	if err != nil || !bytes.Equal(enc3, raw) {
		t.Fatalf("%s: RLP->JSON->RLP differs: %x -> %x (%v)", class, raw, enc3, err)
	}
	ev.Label("reenc:rlp-json-rlp")
}

// checkJSONContent compares the web3 JSON object with the reference fields.
func checkJSONContent(t fataler, js []byte, g Fields, hash [32]byte, class string) {
	var m map[string]interface{}
	if err := json.Unmarshal(js, &m); err != nil {
		t.Fatalf("%s: MarshalJSON produced invalid JSON: %v", class, err)
	}
	want := map[string]interface{}{
		"nonce": hexQuantity(new(big.Int).SetUint64(g.Nonce)), "gasPrice": hexQuantity(g.Price), "gas": hexQuantity(new(big.Int).SetUint64(g.Gas)),
		"value": hexQuantity(g.Value), "input": "0x" + hex.EncodeToString(g.Data), "v": hexQuantity(g.V), "r": hexQuantity(g.R), "s": hexQuantity(g.S),
		"hash": "0x" + hex.EncodeToString(hash[:]),
	}
	if g.To == nil {
		want["to"] = nil
	} else {
		want["to"] = "0x" + hex.EncodeToString(g.To)
	}
	for k, w := range want {
		gotv, ok := m[k]
		if !ok {
			t.Fatalf("%s: JSON lacks field %q: %s", class, k, js)
		}
		if ws, isStr := w.(string); isStr {
			gs, _ := gotv.(string)
			if strings.ToLower(gs) != ws {
				t.Fatalf("%s: JSON field %q = %v, want %v: %s", class, k, gotv, w, js)
			}
		} else if gotv != nil {
			t.Fatalf("%s: JSON field %q = %v, want null: %s", class, k, gotv, js)
		}
	}
}

// ---------- mutations ----------

type mutation struct {
	class  string
	f      Fields
	raw    []byte // used instead of f when non-nil (bit flips)
	sameOK bool
}

func rsBoundary() []*big.Int {
	return []*big.Int{
		new(big.Int), big.NewInt(1), big.NewInt(2), new(big.Int).Sub(curveN, big1), new(big.Int).Set(curveN), new(big.Int).Add(curveN, big1),
		new(big.Int).Set(curveHalfN), new(big.Int).Add(curveHalfN, big1), new(big.Int).Add(curveHalfN, big2),
		new(big.Int).Sub(two256, big1), new(big.Int).Set(two256), new(big.Int).Set(curveP), new(big.Int).Sub(curveP, big1),
	}
}

func vBoundary(sp SignerSpec, v0 *big.Int) []*big.Int {
	two64 := new(big.Int).Lsh(big1, 64)
	out := []*big.Int{}
	for _, x := range []int64{0, 1, 2, 26, 27, 28, 29, 30, 34, 35, 36, 37, 38, 255, 256} {
		out = append(out, big.NewInt(x))
	}
	out = append(out, new(big.Int).Sub(two64, big1), new(big.Int).Set(two64), new(big.Int).Add(two64, big27), new(big.Int).Add(two64, big28),
		new(big.Int).Add(v0, two64), new(big.Int).Add(v0, new(big.Int).Lsh(big1, 32)), new(big.Int).Add(v0, new(big.Int).Lsh(big1, 256)))
	for _, c := range chainIDs {
		base := expectedV(SignerSpec{Kind: kindEIP155, ChainID: c}, 0)
		for d := int64(-1); d <= 2; d++ {
			out = append(out, new(big.Int).Add(base, big.NewInt(d)))
		}
	}
	return out
}

// fieldNeighbours replaces each signed field by a neighbouring value.
func fieldNeighbours(t *rapid.T, f Fields) []Fields {
	var out []Fields
	m := func(fn func(g *Fields)) {
		g := f.clone()
		fn(&g)
		out = append(out, g)
	}
	bit := func(l string, n int) uint { return uint(rapid.IntRange(0, n-1).Draw(t, l)) }
	m(func(g *Fields) { g.Nonce++ })
	m(func(g *Fields) { g.Nonce-- })
	nb := bit("noncebit", 64)
	m(func(g *Fields) { g.Nonce ^= 1 << nb })
	m(func(g *Fields) { g.Gas++ })
	m(func(g *Fields) { g.Gas-- })
	gb := bit("gasbit", 64)
	m(func(g *Fields) { g.Gas ^= 1 << gb })
	if new(big.Int).Add(f.Price, big1).BitLen() <= 256 {
		m(func(g *Fields) { g.Price.Add(g.Price, big1) })
	}
	if f.Price.Sign() > 0 {
		m(func(g *Fields) { g.Price.Sub(g.Price, big1) })
	}
	pb := bit("pricebit", 256)
	m(func(g *Fields) { g.Price.SetBit(g.Price, int(pb), g.Price.Bit(int(pb))^1) })
	if new(big.Int).Add(f.Value, big1).BitLen() <= 256 {
		m(func(g *Fields) { g.Value.Add(g.Value, big1) })
	}
	if f.Value.Sign() > 0 {
		m(func(g *Fields) { g.Value.Sub(g.Value, big1) })
	}
	vb := bit("valuebit", 256)
	m(func(g *Fields) { g.Value.SetBit(g.Value, int(vb), g.Value.Bit(int(vb))^1) })
	if f.To == nil {
		m(func(g *Fields) { g.To = make([]byte, 20) })
		m(func(g *Fields) { g.To = append([]byte{}, g.Data...); g.To = append(g.To, make([]byte, 20)...)[:20] })
	} else {
		m(func(g *Fields) { g.To = nil })
		m(func(g *Fields) { g.To[19] ^= 1 })
		m(func(g *Fields) { g.To[0] ^= 0x80 })
		tb := bit("tobit", 160)
		m(func(g *Fields) { g.To[tb/8] ^= 1 << (tb % 8) })
	}
	m(func(g *Fields) { g.Data = append(g.Data, 0) })
	m(func(g *Fields) { g.Data = append([]byte{0}, g.Data...) })
	if len(f.Data) > 0 {
		m(func(g *Fields) { g.Data = g.Data[:len(g.Data)-1] })
		m(func(g *Fields) { g.Data = g.Data[1:] })
		db := bit("databit", 8*len(f.Data))
		m(func(g *Fields) { g.Data[db/8] ^= 1 << (db % 8) })
	}
	// swapped neighbours
	if f.Nonce != f.Gas {
		m(func(g *Fields) { g.Nonce, g.Gas = g.Gas, g.Nonce })
	}
	if f.Price.Cmp(f.Value) != 0 {
		m(func(g *Fields) { g.Price, g.Value = g.Value, g.Price })
	}
	return out
}

func mutationsOf(t *rapid.T, sp SignerSpec, f0 Fields, raw0 []byte, nflips int) []mutation {
	var out []mutation
	for _, g := range fieldNeighbours(t, f0) {
		out = append(out, mutation{class: "mut:field-neighbour", f: g})
	}
	// V parity
	par := f0.clone()
	if sp.Kind == kindEIP155 {
		// 35+2c <-> 36+2c
		if new(big.Int).Sub(par.V, big35).Bit(0) == 0 {
			par.V.Add(par.V, big1)
		} else {
			par.V.Sub(par.V, big1)
		}
	} else {
		par.V.SetInt64(27 + 28 - par.V.Int64())
	}
	out = append(out, mutation{class: "mut:v-parity", f: par})
	// malleation: (R, n-S, V with the other parity)
	mal := par.clone()
	mal.S.Sub(curveN, mal.S)
	out = append(out, mutation{class: "mut:malleate", f: mal, sameOK: sp.Kind == kindFrontier})
	// n-S alone (parity kept)
	neg := f0.clone()
	neg.S.Sub(curveN, neg.S)
	out = append(out, mutation{class: "mut:s-boundary", f: neg})
	// chain id +-1 (parity kept) — for legacy V this turns 27/28 into 25/26/29/30
	for _, d := range []int64{-2, 2} {
		g := f0.clone()
		g.V.Add(g.V, big.NewInt(d))
		cl := "mut:chainid+-1"
		if sp.Kind != kindEIP155 {
			cl = "mut:v-boundary"
		}
		out = append(out, mutation{class: cl, f: g})
	}
	// protection stripped / added
	if sp.Kind == kindEIP155 {
		g := f0.clone()
		g.V.SetInt64(27 + int64(new(big.Int).Sub(f0.V, big35).Bit(0)))
		out = append(out, mutation{class: "mut:strip-protection", f: g})
	} else {
		c := rapid.SampledFrom(chainIDs).Draw(t, "addprot")
		g := f0.clone()
		g.V = expectedV(SignerSpec{Kind: kindEIP155, ChainID: c}, int(f0.V.Int64()-27))
		out = append(out, mutation{class: "mut:strip-protection", f: g})
	}
	// V + 256k, V + 2^64: must not be truncated back to V
	for _, sh := range []uint{8, 9, 16, 64} {
		g := f0.clone()
		g.V.Add(g.V, new(big.Int).Lsh(big1, sh))
		out = append(out, mutation{class: "mut:v-wrap-256", f: g})
	}
	if f0.V.BitLen() > 8 {
		g := f0.clone()
		g.V.And(g.V, big.NewInt(0xff))
		out = append(out, mutation{class: "mut:v-wrap-256", f: g})
	}
	// boundary values
	vs := vBoundary(sp, f0.V)
	for _, i := range drawIdx(t, "vidx", len(vs), 6) {
		g := f0.clone()
		g.V = new(big.Int).Set(vs[i])
		out = append(out, mutation{class: "mut:v-boundary", f: g})
	}
	rs := rsBoundary()
	for _, i := range drawIdx(t, "ridx", len(rs), 3) {
		g := f0.clone()
		g.R = new(big.Int).Set(rs[i])
		out = append(out, mutation{class: "mut:r-boundary", f: g})
	}
	for _, i := range drawIdx(t, "sidx", len(rs), 3) {
		g := f0.clone()
		g.S = new(big.Int).Set(rs[i])
		out = append(out, mutation{class: "mut:s-boundary", f: g})
		if rapid.IntRange(0, 3).Draw(t, "sboth") == 0 {
			h := g.clone()
			h.V = par.V
			out = append(out, mutation{class: "mut:s-boundary", f: h})
		}
	}
	// R,S +-1
	for _, d := range []int64{-1, 1} {
		g := f0.clone()
		g.R.Add(g.R, big.NewInt(d))
		out = append(out, mutation{class: "mut:r-boundary", f: g})
		h := f0.clone()
		h.S.Add(h.S, big.NewInt(d))
		out = append(out, mutation{class: "mut:s-boundary", f: h})
	}
	// single bit flips of the encoding
	nbits := 8 * len(raw0)
	var bits []int
	if nflips <= 0 || nflips >= nbits {
		for i := 0; i < nbits; i++ {
			bits = append(bits, i)
		}
	} else {
		bits = drawIdx(t, "flip", nbits, nflips)
	}
	for _, b := range bits {
		r := append([]byte{}, raw0...)
		r[b/8] ^= 1 << (7 - b%8)
		out = append(out, mutation{class: "mut:bitflip", raw: r})
	}
	return out
}

// drawIdx draws k distinct indices below n (all of them if k >= n).
func drawIdx(t *rapid.T, l string, n, k int) []int {
	if k >= n {
		out := make([]int, n)
		for i := range out {
			out[i] = i
		}
		return out
	}
	seen := map[int]bool{}
	var out []int
	for len(out) < k {
		i := rapid.IntRange(0, n-1).Draw(t, l)
		if !seen[i] {
			seen[i] = true
			out = append(out, i)
		}
	}
	sort.Ints(out)
	return out
}

// ---------- (0) the recorded finding's fixed witness ----------

// witnessHighS builds the fixed witness: a transfer signed for mainnet's chain
// id, then (R, n-S, V with the other parity).
func witnessHighS() (sp SignerSpec, orig, mal Fields, addr [20]byte, err error) {
	sp = SignerSpec{Kind: kindEIP155, ChainID: big.NewInt(61717561)}
	k := mkKey(scalarPool[34], false)
	to, _ := hex.DecodeString("29f3f6bd8d7d37400a138a9f9fab7f7c2ca847d0")
	f := Fields{Nonce: 1, Price: big.NewInt(1_000_000_000), Gas: 21000, To: to, Value: big.NewInt(1_000_000_000_000_000_000), V: new(big.Int), R: new(big.Int), S: new(big.Int)}
	signed, e := types.SignTx(unsignedTx(f), mkSigner(sp), k.priv)
	if e != nil {
		return sp, f, f, k.addr, e
	}
	orig = fieldsOf(signed)
	mal = orig.clone()
	mal.S.Sub(curveN, mal.S)
	if new(big.Int).Sub(mal.V, big35).Bit(0) == 0 {
		mal.V.Add(mal.V, big1)
	} else {
		mal.V.Sub(mal.V, big1)
	}
	return sp, orig, mal, k.addr, nil
}

func TestKnownWitness(t *testing.T) {
	sp, orig, mal, addr, err := witnessHighS()
	if err != nil {
		t.Fatal(err)
	}
	var tx types.Transaction
	mustDecode(t, mal.Encode(), &tx)
	got := implSender(mkSigner(sp), &tx)
	if got.err == nil && got.addr == addr {
		if ev.Known(keyHighS) {
			ev.KnownFinding(keyHighS)
		} else {
			t.Fatalf("EIP-155 signer accepts the malleated (R, n-S, V') form of a transaction and attributes it to the same sender 0x%x with a different hash:\n original %x (hash %x)\n malleated %x (hash %x)",
				addr, orig.Encode(), orig.TxHash(), mal.Encode(), mal.TxHash())
		}
	} else if got.err == nil {
		t.Fatalf("malleated witness attributed to %v, neither rejected nor the original signer", got)
	}
	// the same malleation under the Homestead signer (unprotected form) must be rejected
	k := mkKey(scalarPool[34], false)
	f := orig.clone()
	f.V, f.R, f.S = new(big.Int), new(big.Int), new(big.Int)
	signed, err := types.SignTx(unsignedTx(f), types.HomesteadSigner{}, k.priv)
	if err != nil {
		t.Fatal(err)
	}
	h := fieldsOf(signed)
	h.S.Sub(curveN, h.S)
	h.V.SetInt64(27 + 28 - h.V.Int64())
	for _, s := range []SignerSpec{{Kind: kindHomestead}, sp} {
		var tx2 types.Transaction
		mustDecode(t, h.Encode(), &tx2)
		if o := implSender(mkSigner(s), &tx2); o.err == nil {
			t.Fatalf("unprotected high-S transaction accepted under %v: %v", s, o)
		}
	}
	ev.Case(true, append([]byte("witness|"), mal.Encode()...), "witness:"+keyHighS)
}

// ---------- reference self-test against the published vectors ----------

var publishedVectors = []struct {
	chain     int64
	raw, addr string
}{
	{1, "f864808504a817c800825208943535353535353535353535353535353535353535808025a0044852b2a670ade5407e78fb2863c51de9fcb96542a07186fe3aeda6bb8a116da0044852b2a670ade5407e78fb2863c51de9fcb96542a07186fe3aeda6bb8a116d", "f0f6f18bca1b28cd68e4357452947e021241e9ce"},
	{1, "f864018504a817c80182a410943535353535353535353535353535353535353535018025a0489efdaa54c0f20c7adf612882df0950f5a951637e0307cdcb4c672f298b8bcaa0489efdaa54c0f20c7adf612882df0950f5a951637e0307cdcb4c672f298b8bc6", "23ef145a395ea3fa3deb533b8a9e1b4c6c25d112"},
	{1, "f864028504a817c80282f618943535353535353535353535353535353535353535088025a02d7c5bef027816a800da1736444fb58a807ef4c9603b7848673f7e3a68eb14a5a02d7c5bef027816a800da1736444fb58a807ef4c9603b7848673f7e3a68eb14a5", "2e485e0c23b4c3c542628a5f672eeab0ad4888be"},
	{1, "f865038504a817c803830148209435353535353535353535353535353535353535351b8025a02a80e1ef1d7842f27f2e6be0972bb708b9a135c38860dbe73c27c3486c34f4e0a02a80e1ef1d7842f27f2e6be0972bb708b9a135c38860dbe73c27c3486c34f4de", "82a88539669a3fd524d669e858935de5e5410cf0"},
	{1, "f865048504a817c80483019a28943535353535353535353535353535353535353535408025a013600b294191fc92924bb3ce4b969c1e7e2bab8f4c93c3fc6d0a51733df3c063a013600b294191fc92924bb3ce4b969c1e7e2bab8f4c93c3fc6d0a51733df3c060", "f9358f2538fd5ccfeb848b64a96b743fcc930554"},
	{1, "f865058504a817c8058301ec309435353535353535353535353535353535353535357d8025a04eebf77a833b30520287ddd9478ff51abbdffa30aa90a8d655dba0e8a79ce0c1a04eebf77a833b30520287ddd9478ff51abbdffa30aa90a8d655dba0e8a79ce0c1", "a8f7aba377317440bc5b26198a363ad22af1f3a4"},
	{1, "f866068504a817c80683023e3894353535353535353535353535353535353535353581d88025a06455bf8ea6e7463a1046a0b52804526e119b4bf5136279614e0b1e8e296a4e2fa06455bf8ea6e7463a1046a0b52804526e119b4bf5136279614e0b1e8e296a4e2d", "f1f571dc362a0e5b2696b8e775f8491d3e50de35"},
	{1, "f867078504a817c807830290409435353535353535353535353535353535353535358201578025a052f1a9b320cab38e5da8a8f97989383aab0a49165fc91c737310e4f7e9821021a052f1a9b320cab38e5da8a8f97989383aab0a49165fc91c737310e4f7e9821021", "d37922162ab7cea97c97a87551ed02c9a38b7332"},
	{1, "f867088504a817c8088302e2489435353535353535353535353535353535353535358202008025a064b1702d9298fee62dfeccc57d322a463ad55ca201256d01f62b45b2e1c21c12a064b1702d9298fee62dfeccc57d322a463ad55ca201256d01f62b45b2e1c21c10", "9bddad43f934d313c2b79ca28a432dd2b7281029"},
	{1, "f867098504a817c809830334509435353535353535353535353535353535353535358202d98025a052f8f61201b2b11a78d6e866abc9c3db2ae8631fa656bfe5cb53668255367afba052f8f61201b2b11a78d6e866abc9c3db2ae8631fa656bfe5cb53668255367afb", "3c24d7329e92f84f08556ceb6df1cdb0104ca49f"},
	{61717561, "f86f01843b9aca008252089429f3f6bd8d7d37400a138a9f9fab7f7c2ca847d0880de0b6b3a76400008084075b7896a0cfb22a5ed7e2a1ef0a8d768823c00d845f6bd4df06b56de4ac9c306b9861bf03a04b76a486e0934b07b21868b364038a884c174bbcbbbe181f726837637909ef88", "29f3f6bd8d7d37400a138a9f9fab7f7c2ca847d0"},
}

func TestReferenceVectors(t *testing.T) {
	for i, v := range publishedVectors {
		raw, _ := hex.DecodeString(v.raw)
		f, ok := decodeFields(raw)
		if !ok {
			t.Fatalf("vector %d: reference decoder rejects it", i)
		}
		sp := SignerSpec{Kind: kindEIP155, ChainID: big.NewInt(v.chain)}
		a, rej := refSender(sp, f, true)
		if rej != rejNone || hex.EncodeToString(a[:]) != v.addr {
			t.Fatalf("vector %d: reference says 0x%x (%s), published 0x%s", i, a, rej, v.addr)
		}
		if !judge(t, sp, raw, judgeOpts{class: "vector:published", reencode: true, deep: true}) {
			t.Fatalf("vector %d did not decode", i)
		}
	}
	// key derivation vector from the repository's own test: scalar -> address
	sc, _ := hex.DecodeString("e6d3285a7082f22916b290f7d1afbead14358e3ffdcacc7a72435fafb16c22c3")
	if _, _, a := refKey(sc); hex.EncodeToString(a[:]) != "20116804405ae3bbb05ade6bb57e7f97be546b82" {
		t.Fatalf("reference key derivation: got 0x%x", a)
	}
}

// ---------- (i)-(v): sign, mutate, cross-query ----------

func TestSignMutate(t *testing.T) {
	nflips := ev.Pick(14, 32)
	ev.Check(t, ev.N(300, 40_000), func(t *rapid.T) {
		signMutateCase(t, nflips, false)
	})
}

// TestAllBits flips every single bit of the encoding (thorough: many
// transactions; quick: a few), without the re-encoding legs.
func TestAllBits(t *testing.T) {
	ev.Check(t, ev.N(8, 2_400), func(t *rapid.T) {
		signMutateCase(t, 0, true)
	})
}

func signMutateCase(t *rapid.T, nflips int, bitsOnly bool) {
	k := drawKey(t)
	specs := allSpecs()
	var sp SignerSpec
	switch x := rapid.IntRange(0, 19).Draw(t, "signerkind"); {
	case x < 3:
		sp = specs[0]
	case x < 9:
		sp = specs[1]
	default:
		sp = specs[rapid.IntRange(2, len(specs)-1).Draw(t, "signer155")]
	}
	c := drawContents(t)
	signer := mkSigner(sp)
	signed, err := types.SignTx(unsignedTx(c), signer, k.priv)
	if err != nil {
		t.Fatalf("SignTx failed under %v: %v", sp, err)
	}
	f0 := fieldsOf(signed)
	// SignTx must not touch the content
	chk := f0.clone()
	chk.V, chk.R, chk.S = c.V, c.R, c.S
	if !bytes.Equal(chk.Encode(), c.Encode()) {
		t.Fatalf("SignTx changed the transaction's content: %x -> %x", c.Encode(), chk.Encode())
	}
	// (i) the signature is a valid ECDSA signature of the key over the specified hash
	var chain *big.Int
	lbls := append([]string{}, k.labels...)
	switch sp.Kind {
	case kindEIP155:
		chain = sp.ChainID
		lbls = append(lbls, "signer:eip155")
		lbls = append(lbls, chainLabels(chain)...)
	case kindHomestead:
		lbls = append(lbls, "signer:homestead")
	default:
		lbls = append(lbls, "signer:frontier")
	}
	if c.To == nil {
		lbls = append(lbls, "to:nil")
	} else {
		lbls = append(lbls, "to:address")
	}
	if len(f0.R.Bytes()) < 32 || len(f0.S.Bytes()) < 32 {
		lbls = append(lbls, "sig:short-r-or-s")
	}
	if !refVerify(f0.SigHash(chain), f0.R, f0.S, k.pub) {
		t.Fatalf("signature produced by SignTx under %v does not verify over the specified signing hash %x with the key's public key: tx %x", sp, f0.SigHash(chain), f0.Encode())
	}
	if a, rej := refSender(sp, f0, true); rej != rejNone || a != k.addr {
		t.Fatalf("signed transaction is not attributable to 0x%x by the specification under %v (%s, 0x%x): V=%v tx %x", k.addr, sp, rej, a, f0.V, f0.Encode())
	}
	if got := implSender(signer, signed); got.err != nil || got.addr != k.addr {
		t.Fatalf("Sender(SignTx(tx)) = %v, key's address 0x%x, under %v", got, k.addr, sp)
	}
	if sp.Kind == kindEIP155 {
		if !signed.Protected() || signed.ChainId().Cmp(chain) != 0 {
			t.Fatalf("transaction signed for chain %v reports Protected=%v ChainId=%v", chain, signed.Protected(), signed.ChainId())
		}
	}
	raw0 := f0.Encode()
	if enc, _ := rlp.EncodeToBytes(signed); !bytes.Equal(enc, raw0) {
		t.Fatalf("encoding of the signed transaction differs from the reference encoding: %x / %x", enc, raw0)
	}
	orig := k.addr
	judge(t, sp, raw0, judgeOpts{class: "original", reencode: true, deep: !bitsOnly, extraLbls: lbls})
	ev.Sample(map[string]interface{}{"signer": sp.String(), "key": hex.EncodeToString(k.scalar), "tx": hex.EncodeToString(raw0), "sender": hex.EncodeToString(orig[:])})

	// (ii)/(iv) mutations
	muts := mutationsOf(t, sp, f0, raw0, nflips)
	for i, m := range muts {
		if bitsOnly && m.class != "mut:bitflip" {
			continue
		}
		raw := m.raw
		if raw == nil {
			raw = m.f.Encode()
		}
		// hash/encoding survival for every mutation; the recovery-heavy legs (sender
		// survival, AsMessage, reference re-verification) for every 3rd
		deep := !bitsOnly && i%3 == 0
		judge(t, sp, raw, judgeOpts{orig: &orig, origRaw: raw0, class: m.class, reencode: true, deep: deep, sameOK: m.sameOK})
	}
	if bitsOnly {
		return
	}

	// (iii) chain binding and cross-signer queries, fresh and through the cache
	others := drawIdx(t, "other", len(specs), 4)
	for _, oi := range others {
		osp := specs[oi]
		if osp.equal(sp) {
			continue
		}
		crossQuery(t, sp, osp, f0, raw0)
	}
	if sp.Kind == kindEIP155 {
		for _, d := range []int64{-1, 1} {
			cid := new(big.Int).Add(sp.ChainID, big.NewInt(d))
			if cid.Sign() > 0 {
				crossQuery(t, sp, SignerSpec{Kind: kindEIP155, ChainID: cid}, f0, raw0)
			}
		}
	}
	// cache poisoned by String() (which derives a signer from V and caches the result)
	var txs types.Transaction
	mustDecode(t, raw0, &txs)
	_ = txs.String()
	osp := specs[rapid.IntRange(0, len(specs)-1).Draw(t, "afterString")]
	agree(t, "cache:via-String", osp, f0, implSender(mkSigner(osp), &txs))
	ev.Case(true, append([]byte("string|"+osp.String()+"|"), raw0...), "cache:via-String")

	// the malleated form through the cache: cached under Frontier (accepts), asked under the original signer
	if sp.Kind != kindFrontier {
		for _, m := range muts {
			if m.class != "mut:malleate" {
				continue
			}
			var tx types.Transaction
			mustDecode(t, m.f.Encode(), &tx)
			implSender(types.FrontierSigner{}, &tx)
			got := implSender(signer, &tx)
			via := agree(t, "cache:frontier-then-strict", sp, m.f, got)
			if got.err == nil && got.addr == orig && !via {
				t.Fatalf("malleated transaction attributed to the original signer under %v after its sender was cached under the Frontier signer: %x", sp, m.f.Encode())
			}
			ev.Case(true, append([]byte("cachemal|"+sp.String()+"|"), m.f.Encode()...), "cache:other-signer")
		}
	}
}

// crossQuery asks for the sender of a transaction signed under sp with another
// signer osp: fresh, and on a copy whose sender is already cached under sp.
func crossQuery(t fataler, sp, osp SignerSpec, f0 Fields, raw0 []byte) {
	signer, osigner := mkSigner(sp), mkSigner(osp)
	for _, cached := range []bool{false, true} {
		var tx types.Transaction
		mustDecode(t, raw0, &tx)
		what := "cross:fresh"
		if cached {
			what = "cache:other-signer"
			if o := implSender(signer, &tx); o.err != nil {
				t.Fatalf("sender of the original lost: %v", o.err)
			}
		}
		got := implSender(osigner, &tx)
		agree(t, what, osp, f0, got)
		// a replay-protected transaction resolves under no other signer at all
		if sp.Kind == kindEIP155 {
			if got.err == nil {
				t.Fatalf("%s: transaction signed for chain %v resolves to %v under %v: %x", what, sp.ChainID, got, osp, raw0)
			}
			ev.Label("foreign-chain-rejected")
		}
		// and asking the original signer again still gives the original answer
		back := implSender(signer, &tx)
		agree(t, what+"/back", sp, f0, back)
		if back.err != nil {
			t.Fatalf("%s: original signer %v no longer resolves the transaction after a query under %v: %v", what, sp, osp, back.err)
		}
		ev.Case(true, append([]byte(what+"|"+sp.String()+">"+osp.String()+"|"), raw0...), what)
	}
}

// ---------- corpus of hostile encodings, judged under every signer ----------

func corpusInputs() map[string][]byte {
	out := map[string][]byte{}
	for i, v := range publishedVectors {
		b, _ := hex.DecodeString(v.raw)
		out[fmt.Sprintf("vector-%02d", i)] = b
	}
	if dir := os.Getenv("VERIF_CORPUS"); dir != "" {
		ents, _ := os.ReadDir(dir)
		for _, e := range ents {
			b, err := os.ReadFile(dir + "/" + e.Name())
			if err != nil {
				continue
			}
			if d, err := hex.DecodeString(strings.TrimSpace(string(b))); err == nil {
				b = d
			}
			out["corpus-"+e.Name()] = b
		}
	}
	return out
}

func TestCorpus(t *testing.T) {
	in := corpusInputs()
	names := make([]string, 0, len(in))
	for n := range in {
		names = append(names, n)
	}
	sort.Strings(names)
	for _, n := range names {
		for _, sp := range allSpecs() {
			ft := &caseSaver{t: t, name: "corpus", raw: in[n], sp: sp}
			judge(ft, sp, in[n], judgeOpts{class: "corpus", reencode: true, deep: true})
		}
	}
}

// caseSaver turns a failure of a non-rapid test into a replayable case file.
type caseSaver struct {
	t    *testing.T
	name string
	raw  []byte
	sp   SignerSpec
}

type replayCase struct {
	Raw    string `json:"raw"`
	Signer string `json:"signer"`
	Note   string `json:"note"`
}

func (c *caseSaver) Fatalf(f string, a ...interface{}) {
	msg := fmt.Sprintf(f, a...)
	ev.SaveCase(c.name, replayCase{Raw: hex.EncodeToString(c.raw), Signer: c.sp.String(), Note: msg})
	c.t.Fatalf("%s", msg)
}

func parseSpec(s string) (SignerSpec, error) {
	switch {
	case s == "frontier":
		return SignerSpec{Kind: kindFrontier}, nil
	case s == "homestead":
		return SignerSpec{Kind: kindHomestead}, nil
	case strings.HasPrefix(s, "eip155/"):
		c, ok := new(big.Int).SetString(s[7:], 10)
		if ok && c.Sign() > 0 {
			return SignerSpec{Kind: kindEIP155, ChainID: c}, nil
		}
	}
	return SignerSpec{}, fmt.Errorf("bad signer %q", s)
}

// TestReplay re-runs one saved case file without rapid.
func TestReplay(t *testing.T) {
	p := ev.ReplayPath()
	if p == "" {
		t.Skip("no VERIF_REPLAY")
	}
	b, err := os.ReadFile(p)
	if err != nil {
		t.Fatal(err)
	}
	var rc replayCase
	if err := json.Unmarshal(b, &rc); err != nil {
		t.Fatal(err)
	}
	raw, err := hex.DecodeString(rc.Raw)
	if err != nil {
		t.Fatal(err)
	}
	sp, err := parseSpec(rc.Signer)
	if err != nil {
		t.Fatal(err)
	}
	judge(t, sp, raw, judgeOpts{class: "replay", reencode: true, deep: true})
}

// ---------- native fuzz target: arbitrary bytes as a transaction under a chosen signer ----------

func FuzzSender(f *testing.F) {
	for i, v := range publishedVectors {
		b, _ := hex.DecodeString(v.raw)
		f.Add(b, uint8(i))
	}
	_, orig, mal, _, err := witnessHighS()
	if err == nil {
		f.Add(orig.Encode(), uint8(5))
		f.Add(mal.Encode(), uint8(5))
		g := orig.clone()
		g.V.SetInt64(27 + 256)
		f.Add(g.Encode(), uint8(1))
		g.R.Set(curveN)
		f.Add(g.Encode(), uint8(0))
	}
	specs := allSpecs()
	f.Fuzz(func(t *testing.T, raw []byte, sel uint8) {
		if len(raw) > 2048 {
			return
		}
		judge(t, specs[int(sel)%len(specs)], raw, judgeOpts{class: "fuzz", reencode: true, deep: true})
	})
}
