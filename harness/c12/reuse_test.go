package c12

// (v') hash and sender survive a re-encoding whatever the receiver of the
// decoding held before.
//
// The statement "a transaction's hash and sender survive every supported
// re-encoding (RLP and JSON) unchanged" does not speak about the object the
// decoder fills. Both decoders of the repository accept a receiver that was used
// before: encoding/json re-uses a non-nil *Transaction (a variable declared
// outside a loop, an element of a slice that is decoded into again, a field of a
// struct that is decoded into again) and so does package rlp, by its documented
// contract ("if the pointer is non-nil, the existing value will be reused").
// Transaction memoises Hash() and Sender() in the object, so the re-encoded
// transaction is only the same transaction if nothing of the receiver's past
// shows through.
//
// One case = one history: a few signed (some of them mutated) transactions are
// decoded, in a drawn order and through drawn codecs, into ONE holder (a
// *Transaction variable, a Transaction value, a []*Transaction, a struct with
// both); between the decodings a drawn subset of {Hash, Sender under a drawn
// signer, Size, MarshalJSON} is observed, which is what fills the caches. After
// every decoding the object must report the nine fields, the hash
// (keccak256 of the reference encoding) and the sender (reference model) of the
// transaction that was just decoded.
//
// The model of "which caches does this object carry" is kept per object
// (pointer identity); it is needed only to step around the recorded finding
// DecodeRLP/reused-receiver exactly: an RLP decoding into an object whose hash
// (resp. sender under an equal signer) is memoised is not judged for the hash
// (resp. the sender under that signer) while the finding is listed as known.

import (
	"bytes"
	"encoding/hex"
	"encoding/json"
	"fmt"
	"math/big"
	"strings"
	"testing"

	"gitlab.com/aquachain/aquachain/core/types"
	"gitlab.com/aquachain/aquachain/rlp"
	"pgregory.net/rapid"
	"verifharness/ev"
	"verifharness/ref/refrlp"
)

const keyReuse = "DecodeRLP/reused-receiver"

func (f Fields) item() refrlp.Item {
	return refrlp.L(append(f.six(), refrlp.Big(f.V), refrlp.Big(f.R), refrlp.Big(f.S))...)
}

// refJSON renders the web3 transaction object from the reference fields alone.
// hashField: nil = no "hash" member.
func refJSON(f Fields, hashField *[32]byte) []byte {
	var b strings.Builder
	q := func(v *big.Int) string { return `"` + hexQuantity(v) + `"` }
	b.WriteString(`{"nonce":` + q(new(big.Int).SetUint64(f.Nonce)))
	b.WriteString(`,"gasPrice":` + q(f.Price))
	b.WriteString(`,"gas":` + q(new(big.Int).SetUint64(f.Gas)))
	if f.To == nil {
		b.WriteString(`,"to":null`)
	} else {
		b.WriteString(`,"to":"0x` + hex.EncodeToString(f.To) + `"`)
	}
	b.WriteString(`,"value":` + q(f.Value))
	b.WriteString(`,"input":"0x` + hex.EncodeToString(f.Data) + `"`)
	b.WriteString(`,"v":` + q(f.V) + `,"r":` + q(f.R) + `,"s":` + q(f.S))
	if hashField != nil {
		b.WriteString(`,"hash":"0x` + hex.EncodeToString(hashField[:]) + `"`)
	}
	b.WriteString(`}`)
	return []byte(b.String())
}

// ---------- the histories ----------

type ruTx struct {
	f    Fields
	raw  []byte
	sp   SignerSpec // the signer it was signed under
	kind string     // "signed" or the mutation applied afterwards
}

// objState: which memoised answers the object carries, as far as the
// statement (and the recorded finding) lets them be carried.
type objState struct {
	// set (bit i = transaction i) of the contents the object held while it was
	// asked anything since it was last started afresh: the memoised hash, if
	// there is one, is the hash of one of them (Sender itself asks for the hash
	// on some paths, e.g. to log a foreign chain id, so any question MAY memoise
	// it). Empty: nothing is memoised. hashSure: Hash() or MarshalJSON() was
	// called, the hash IS memoised and hashMay has exactly one member.
	hashMay  uint
	hashSure bool
	fromSpec *SignerSpec // signer under which a sender is memoised (Sender succeeded)
	fromOf   int
	decodes  int
}

func (s *objState) dirty() bool   { return s.hashSure || s.fromSpec != nil }
func (s *objState) touched() bool { return s.hashMay != 0 || s.fromSpec != nil }
func (s *objState) touch(i int) {
	if !s.hashSure {
		s.hashMay |= 1 << uint(i)
	}
}

type envelope struct {
	Tx  *types.Transaction   `json:"tx"`
	Txs []*types.Transaction `json:"txs"`
}

const (
	holderPtr = iota
	holderValue
	holderSlice
	holderStruct
	nHolders
)

var holderNames = [...]string{"ptr", "value", "slice", "struct"}

type holder struct {
	kind int
	p    *types.Transaction
	v    types.Transaction
	s    []*types.Transaction
	e    envelope
}

// decode feeds the transactions txs[idx...] to the holder through the codec
// and returns the objects that now stand for them, in order.
func (h *holder) decode(t fataler, useJSON, direct bool, txs []ruTx, idx []int, jsons [][]byte) []*types.Transaction {
	fail := func(err error) {
		if err != nil {
			t.Fatalf("reuse: decoding %d valid transaction(s) into a %s holder (json=%v) failed: %v", len(idx), holderNames[h.kind], useJSON, err)
		}
	}
	jsList := func(ix []int) string {
		parts := make([]string, len(ix))
		for k := range ix {
			parts[k] = string(jsons[k])
		}
		return "[" + strings.Join(parts, ",") + "]"
	}
	rlpList := func(ix []int) refrlp.Item {
		items := make([]refrlp.Item, len(ix))
		for k, i := range ix {
			items[k] = txs[i].f.item()
		}
		return refrlp.L(items...)
	}
	switch h.kind {
	case holderPtr:
		if useJSON {
			fail(json.Unmarshal(jsons[0], &h.p))
		} else {
			fail(rlp.DecodeBytes(txs[idx[0]].raw, &h.p))
		}
		return []*types.Transaction{h.p}
	case holderValue:
		switch {
		case useJSON && direct:
			fail(h.v.UnmarshalJSON(jsons[0]))
		case useJSON:
			fail(json.Unmarshal(jsons[0], &h.v))
		default:
			fail(rlp.DecodeBytes(txs[idx[0]].raw, &h.v))
		}
		return []*types.Transaction{&h.v}
	case holderSlice:
		if useJSON {
			fail(json.Unmarshal([]byte(jsList(idx)), &h.s))
		} else {
			fail(rlp.DecodeBytes(refrlp.Encode(rlpList(idx)), &h.s))
		}
		if len(h.s) != len(idx) {
			t.Fatalf("reuse: a list of %d transactions decoded into %d", len(idx), len(h.s))
		}
		return append([]*types.Transaction{}, h.s...)
	default:
		// the first transaction in the single field, the rest in the list
		if useJSON {
			js := `{"tx":` + string(jsons[0]) + `,"txs":[`
			for k := 1; k < len(idx); k++ {
				if k > 1 {
					js += ","
				}
				js += string(jsons[k])
			}
			fail(json.Unmarshal([]byte(js+"]}"), &h.e))
		} else {
			fail(rlp.DecodeBytes(refrlp.Encode(refrlp.L(txs[idx[0]].f.item(), rlpList(idx[1:]))), &h.e))
		}
		if h.e.Tx == nil || len(h.e.Txs) != len(idx)-1 {
			t.Fatalf("reuse: envelope of 1+%d transactions decoded into %v+%d", len(idx)-1, h.e.Tx != nil, len(h.e.Txs))
		}
		return append([]*types.Transaction{h.e.Tx}, h.e.Txs...)
	}
}

func drawReuseTxs(t *rapid.T, n int) []ruTx {
	specs := allSpecs()
	out := make([]ruTx, 0, n)
	for len(out) < n {
		k := drawKey(t)
		var sp SignerSpec
		switch x := rapid.IntRange(0, 9).Draw(t, "signerkind"); {
		case x < 1:
			sp = specs[0]
		case x < 4:
			sp = specs[1]
		case x < 8 && len(out) > 0:
			sp = out[0].sp // several transactions of one chain: the sender cache answers for an equal signer
		default:
			sp = specs[rapid.IntRange(2, len(specs)-1).Draw(t, "signer155")]
		}
		signed, err := types.SignTx(unsignedTx(drawContents(t)), mkSigner(sp), k.priv)
		if err != nil {
			t.Fatalf("SignTx failed under %v: %v", sp, err)
		}
		f := fieldsOf(signed)
		kind := "signed"
		// some transactions are not the signer's any more (the sender, or the
		// rejection, of those must survive just the same)
		switch rapid.IntRange(0, 7).Draw(t, "mutate") {
		case 0:
			kind = "nonce+1"
			f.Nonce++
		case 1:
			kind = "v-parity"
			if sp.Kind == kindEIP155 {
				if new(big.Int).Sub(f.V, big35).Bit(0) == 0 {
					f.V.Add(f.V, big1)
				} else {
					f.V.Sub(f.V, big1)
				}
			} else {
				f.V.SetInt64(27 + 28 - f.V.Int64())
			}
		case 2:
			kind = "data+0"
			f.Data = append(f.Data, 0)
		}
		out = append(out, ruTx{f: f, raw: f.Encode(), sp: sp, kind: kind})
	}
	return out
}

func TestReusedReceiver(t *testing.T) {
	maxSteps := ev.Pick(6, 9)
	ev.Check(t, ev.N(400, 48_000), func(t *rapid.T) {
		reusedReceiverCase(t, maxSteps)
	})
}

func reusedReceiverCase(t *rapid.T, maxSteps int) {
	txs := drawReuseTxs(t, rapid.IntRange(2, 4).Draw(t, "ntx"))
	specs := allSpecs()
	h := &holder{kind: rapid.IntRange(0, nHolders-1).Draw(t, "holder")}
	states := map[*types.Transaction]*objState{}
	steps := rapid.IntRange(2, maxSteps).Draw(t, "steps")
	hname := holderNames[h.kind]
	ev.Label("reuse:holder:" + hname)

	for step := 0; step < steps; step++ {
		last := step == steps-1
		useJSON := rapid.IntRange(0, 3).Draw(t, "codec") != 0
		direct := rapid.Bool().Draw(t, "direct")
		cnt := 1
		switch h.kind {
		case holderSlice:
			cnt = rapid.IntRange(0, 3).Draw(t, "count")
		case holderStruct:
			cnt = rapid.IntRange(1, 3).Draw(t, "count")
		}
		idx := make([]int, cnt)
		jsons := make([][]byte, cnt)
		for k := range idx {
			idx[k] = rapid.IntRange(0, len(txs)-1).Draw(t, "tx")
			if !useJSON {
				continue
			}
			x := txs[idx[k]]
			switch rapid.IntRange(0, 3).Draw(t, "jsonsrc") {
			case 0: // what the repository itself emits for a fresh copy
				var fresh types.Transaction
				mustDecode(t, x.raw, &fresh)
				js, err := fresh.MarshalJSON()
				if err != nil {
					t.Fatalf("MarshalJSON: %v", err)
				}
				jsons[k] = js
			case 1: // no hash member
				jsons[k] = refJSON(x.f, nil)
			case 2: // a hash member that belongs to another transaction: the hash is a function of the nine fields
				o := txs[(idx[k]+1)%len(txs)].f.TxHash()
				jsons[k] = refJSON(x.f, &o)
				ev.Label("reuse:json-foreign-hash-member")
			default:
				own := x.f.TxHash()
				jsons[k] = refJSON(x.f, &own)
			}
		}
		codec := "rlp"
		if useJSON {
			codec = "json"
		}
		objs := h.decode(t, useJSON, direct, txs, idx, jsons)

		seen := map[*types.Transaction]bool{}
		for k, obj := range objs {
			x := txs[idx[k]]
			if obj == nil || seen[obj] {
				t.Fatalf("reuse: %s decoding of %d transactions into a %s holder yields a nil or repeated object at %d", codec, len(idx), hname, k)
			}
			seen[obj] = true
			st := states[obj]
			reused := st != nil
			var before objState
			if !reused {
				st = &objState{}
				states[obj] = st
			} else {
				before = *st
				if useJSON || !ev.Known(keyReuse) {
					// a decoding starts the object afresh (for RLP: unless the
					// recorded finding is still open, then the model carries what
					// the object carries, to skip exactly those questions)
					*st = objState{decodes: before.decodes}
				}
			}
			st.decodes++
			class := "reuse:" + codec + "-into-fresh"
			if reused {
				switch {
				case before.dirty():
					class = "reuse:" + codec + "-into-cached" // Hash()/MarshalJSON() or a successful Sender() happened on the previous content
				case before.touched():
					class = "reuse:" + codec + "-into-touched" // only questions that need not memoise anything
				default:
					class = "reuse:" + codec + "-into-clean"
				}
			}
			what := fmt.Sprintf("%s (step %d, %s holder, object decoded into %d time(s), tx %d/%s signed under %v)", class, step, hname, st.decodes, idx[k], x.kind, x.sp)

			// the nine fields, read through the getters and through a further RLP encoding
			// (neither touches a cache)
			if got := fieldsOf(obj).Encode(); !bytes.Equal(got, x.raw) {
				t.Fatalf("%s: the object does not hold the decoded transaction:\n decoded %x\n holds   %x", what, x.raw, got)
			}
			if enc, err := rlp.EncodeToBytes(obj); err != nil || !bytes.Equal(enc, x.raw) {
				t.Fatalf("%s: RLP re-encoding of the object differs: %x -> %x (%v)", what, x.raw, enc, err)
			}

			// observations (they fill the caches the next decoding finds)
			obs := rapid.IntRange(0, 15).Draw(t, "observe")
			if last {
				obs |= 3
			}
			lbls := []string{class}
			nontrivial := reused && before.dirty()
			// the recorded shape: the object carries (or may carry) the hash of other content
			// through an RLP decoding; st only carries anything in that situation
			staleHash := st.hashMay&^(1<<uint(idx[k])) != 0
			if staleHash && (useJSON || !ev.Known(keyReuse)) {
				t.Fatalf("harness error: the model carries a memoised hash through a %s decoding", codec)
			}
			if obs&1 != 0 { // Hash
				if staleHash {
					ev.Excluded(keyReuse)
					lbls = append(lbls, "known:"+keyReuse)
				} else {
					want := x.f.TxHash()
					if got := obj.Hash(); [32]byte(got) != want {
						msg := ""
						for j := range txs {
							if before.hashMay&(1<<uint(j)) != 0 {
								msg += fmt.Sprintf(" (the object held tx %d before, hash %x)", j, txs[j].f.TxHash())
							}
						}
						t.Fatalf("%s: Hash() = %x, keccak256(rlp(nine fields)) = %x%s\n tx %x", what, got, want, msg, x.raw)
					}
					st.hashMay, st.hashSure = 1<<uint(idx[k]), true
					if reused && before.hashSure && before.hashMay != 1<<uint(idx[k]) {
						lbls = append(lbls, "reuse:"+codec+"-after-other-hash-cached")
					}
				}
			}
			if obs&2 != 0 { // Sender
				q := x.sp
				if !last && rapid.IntRange(0, 3).Draw(t, "askother") == 0 {
					q = specs[rapid.IntRange(0, len(specs)-1).Draw(t, "asksigner")]
				}
				if st.fromSpec != nil && st.fromSpec.equal(q) && st.fromOf != idx[k] {
					if useJSON || !ev.Known(keyReuse) {
						t.Fatalf("harness error: the model carries a memoised sender through a %s decoding", codec)
					}
					ev.Excluded(keyReuse)
					lbls = append(lbls, "known:"+keyReuse)
				} else {
					got := implSender(mkSigner(q), obj)
					st.touch(idx[k])
					agreeV(t, what, q, x.f, got, false)
					if x.kind == "signed" && q.equal(x.sp) && got.err != nil {
						t.Fatalf("%s: sender of a signed transaction lost: %v", what, got.err)
					}
					if reused && before.fromSpec != nil && before.fromSpec.equal(q) && before.fromOf != idx[k] {
						lbls = append(lbls, "reuse:"+codec+"-after-other-sender-cached")
					}
					if got.err == nil {
						qq := q
						st.fromSpec, st.fromOf = &qq, idx[k]
					}
				}
			}
			if obs&4 != 0 { // Size: observed, not judged (the statement does not speak about it)
				_ = obj.Size()
			}
			if obs&8 != 0 && !staleHash { // MarshalJSON reports Hash()
				js, err := obj.MarshalJSON()
				if err != nil {
					t.Fatalf("%s: MarshalJSON failed: %v", what, err)
				}
				checkJSONContent(t, js, x.f, x.f.TxHash(), what)
				st.hashMay, st.hashSure = 1<<uint(idx[k]), true
			}
			ev.Case(nontrivial, []byte(fmt.Sprintf("%s|%d|%d|%v|%x", class, h.kind, obs, before.dirty(), x.raw)), lbls...)
		}
	}

	// the object a signed copy was made from: WithSignature copies the struct, so
	// the copy shares the big numbers and the recipient with its parent; decoding
	// into the parent must not reach the signed transaction
	k := drawKey(t)
	sp := txs[0].sp
	parent := unsignedTx(drawContents(t))
	signed, err := types.SignTx(parent, mkSigner(sp), k.priv)
	if err != nil {
		t.Fatalf("SignTx failed under %v: %v", sp, err)
	}
	f0 := fieldsOf(signed)
	raw0 := f0.Encode()
	other := txs[rapid.IntRange(0, len(txs)-1).Draw(t, "into-parent")]
	viaJSON := rapid.Bool().Draw(t, "parent-json")
	if viaJSON {
		if err := json.Unmarshal(refJSON(other.f, nil), parent); err != nil {
			t.Fatalf("reuse: JSON decoding into the parent of a signed copy failed: %v", err)
		}
	} else if err := rlp.DecodeBytes(other.raw, parent); err != nil {
		t.Fatalf("reuse: RLP decoding into the parent of a signed copy failed: %v", err)
	}
	if !bytes.Equal(fieldsOf(parent).Encode(), other.raw) {
		t.Fatalf("reuse: the parent does not hold the transaction decoded into it: %x / %x", fieldsOf(parent).Encode(), other.raw)
	}
	if got := fieldsOf(signed).Encode(); !bytes.Equal(got, raw0) {
		if !viaJSON && ev.Known(keyReuse) {
			ev.Excluded(keyReuse)
		} else {
			t.Fatalf("reuse: decoding another transaction into the object SignTx was given changed the signed transaction (json=%v):\n signed %x\n now    %x\n decoded into the parent: %x", viaJSON, raw0, got, other.raw)
		}
	} else if got := implSender(mkSigner(sp), signed); got.err != nil || got.addr != k.addr || [32]byte(signed.Hash()) != f0.TxHash() {
		t.Fatalf("reuse: signed transaction lost its sender or hash after a decoding into its parent: %v, hash %x, tx %x", got, signed.Hash(), raw0)
	}
	ev.Case(true, append([]byte(fmt.Sprintf("parent|%v|", viaJSON)), raw0...), "reuse:into-signing-parent")
	ev.Sample(map[string]interface{}{"kind": "reused-receiver", "holder": hname, "steps": steps, "first-tx": hex.EncodeToString(txs[0].raw)})
}

// ---------- the recorded finding's fixed witness ----------

// Recorded finding DecodeRLP/reused-receiver (known, NOT consensus-changing).
//
// Transaction.DecodeRLP decodes in place (s.Decode(&tx.data)) and refreshes only
// the size cache; tx.hash and tx.from stay. Package rlp documents that a non-nil
// pointer is re-used and re-uses the elements of a slice that is decoded into
// again, so after
//
//	var rx types.Transaction
//	rlp.DecodeBytes(A, &rx); rx.Hash(); types.Sender(signer, &rx)
//	rlp.DecodeBytes(B, &rx)
//
// rx holds B's nine fields (and re-encodes to B) but reports A's hash and, under
// an equal signer, A's sender. Because the big numbers and the recipient are
// overwritten in place, a copy made by WithSignature/SignTx from the receiver
// (it shares Price, Amount and Recipient with its parent) changes with it.
// UnmarshalJSON decodes into a local txdata and ends with
// *tx = Transaction{data: dec}: the JSON path is clean, and must stay so.
//
// Reach: no non-test call site in the tree passes a used receiver (tx journal,
// TxMsg handler, block bodies, database reads, SendRawTransaction, block import
// all allocate per decoding), so the node itself never reports a stale hash or
// sender; the defect is at the level of the exported API (a variable declared
// outside a loop over a stream, a result slice decoded into again). go-ethereum
// has the same DecodeRLP.
//
// Repair: PROPOSED_FIX_round3_1.diff (decode into a local txdata, then start the
// receiver afresh like UnmarshalJSON; on error the receiver is left untouched).
//
// Stepping around it: only for an RLP decoding into an object that may carry
// another transaction's memoised hash (resp. carries its sender under an equal
// signer) the Hash()/MarshalJSON() (resp. Sender under that signer) verdict is
// skipped; fields, re-encoding, Sender under other signers and every JSON
// decoding are judged. With the entry's status "fixed" nothing is skipped.

func TestKnownWitnessReuse(t *testing.T) {
	sp, a, _, _, err := witnessHighS()
	if err != nil {
		t.Fatal(err)
	}
	k2 := mkKey(scalarPool[35], false)
	c := a.clone()
	c.Nonce, c.V, c.R, c.S = 2, new(big.Int), new(big.Int), new(big.Int)
	signedB, err := types.SignTx(unsignedTx(c), mkSigner(sp), k2.priv)
	if err != nil {
		t.Fatal(err)
	}
	b := fieldsOf(signedB)
	signer := mkSigner(sp)

	// RLP: a receiver whose hash and sender were asked for, then decoded into again
	var rx types.Transaction
	mustDecode(t, a.Encode(), &rx)
	hashA := rx.Hash()
	fromA := implSender(signer, &rx)
	mustDecode(t, b.Encode(), &rx)
	if !bytes.Equal(fieldsOf(&rx).Encode(), b.Encode()) {
		t.Fatalf("RLP decoding into a used receiver does not yield the decoded fields")
	}
	staleHash := [32]byte(rx.Hash()) != b.TxHash()
	got := implSender(signer, &rx)
	staleFrom := got.err != nil || got.addr != k2.addr
	// the signed copy and its parent
	parent := unsignedTx(c)
	signedC, err := types.SignTx(parent, signer, k2.priv)
	if err != nil {
		t.Fatal(err)
	}
	rawC := fieldsOf(signedC).Encode()
	o := a.clone() // differs from the parent in the price, the value and the recipient too
	o.Price.Add(o.Price, big1)
	o.Value.Add(o.Value, big2)
	o.To[19] ^= 1
	if err := rlp.DecodeBytes(o.Encode(), parent); err != nil {
		t.Fatal(err)
	}
	aliased := !bytes.Equal(fieldsOf(signedC).Encode(), rawC)
	if staleHash || staleFrom || aliased {
		if ev.Known(keyReuse) {
			ev.KnownFinding(keyReuse)
		} else {
			t.Fatalf("DecodeRLP into a used receiver: stale hash %v (reports %x = hash of the previous content %x; decoded %x), stale sender %v (reports %v, previous %v, signer of the decoded transaction 0x%x), signed copy changed through its parent %v\n first  %x\n second %x",
				staleHash, rx.Hash(), hashA, b.TxHash(), staleFrom, got, fromA, k2.addr, aliased, a.Encode(), b.Encode())
		}
	}

	// JSON: the same history must be clean whatever the finding's status
	var jx *types.Transaction
	for i, f := range []Fields{a, b, a} {
		if err := json.Unmarshal(refJSON(f, nil), &jx); err != nil {
			t.Fatal(err)
		}
		if [32]byte(jx.Hash()) != f.TxHash() {
			t.Fatalf("JSON decoding %d into a used receiver: Hash() = %x, want %x", i, jx.Hash(), f.TxHash())
		}
		agree(t, "witness/json-reuse", sp, f, implSender(signer, jx))
	}
	ev.Case(true, append([]byte("witness-reuse|"), b.Encode()...), "witness:"+keyReuse)
}
