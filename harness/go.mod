module verifharness

go 1.24.0

require (
	gitlab.com/aquachain/aquachain v0.0.0
	pgregory.net/rapid v1.3.0
	github.com/BurntSushi/toml v1.5.0
	github.com/aerth/tgun v0.2.0
	github.com/btcsuite/btcd/btcec/v2 v2.3.5-0.20250307104530-c7191d2913c7
	github.com/cespare/cp v1.1.1
	github.com/davecgh/go-spew v1.1.1
	github.com/deckarep/golang-set v1.8.0
	github.com/decred/dcrd/dcrec/secp256k1/v4 v4.4.0
	github.com/edsrzf/mmap-go v1.2.0
	github.com/fatih/color v1.18.0
	github.com/go-stack/stack v1.8.1
	github.com/golang/snappy v1.0.0
	github.com/hashicorp/golang-lru v1.0.2
	github.com/huin/goupnp v1.3.0
	github.com/jackpal/go-nat-pmp v1.0.2
	github.com/joho/godotenv v1.5.1
	github.com/mattn/go-colorable v0.1.14
	github.com/pborman/uuid v1.2.1
	github.com/peterh/liner v1.2.2
	github.com/robertkrimen/otto v0.5.1
	github.com/rs/cors v1.11.1
	github.com/shopspring/decimal v1.4.0
	github.com/stretchr/testify v1.10.0
	github.com/syndtr/goleveldb v1.0.0
	golang.org/x/crypto v0.37.0
	golang.org/x/net v0.39.0
	golang.org/x/sys v0.32.0
	golang.org/x/tools v0.32.0
	gopkg.in/check.v1 v1.0.0-20201130134442-10cb98267c6c
	gopkg.in/natefinch/npipe.v2 v2.0.0-20160621034901-c1b8fa8bdcce
	gopkg.in/olebedev/go-duktape.v3 v3.0.0-20210326210528-650f7c854440
	github.com/kr/pretty v0.3.1
	github.com/rogpeppe/go-internal v1.14.1
	github.com/google/uuid v1.6.0
	github.com/kr/text v0.2.0
	github.com/mattn/go-isatty v0.0.20
	github.com/mattn/go-runewidth v0.0.16
	github.com/pmezard/go-difflib v1.0.0
	github.com/rivo/uniseg v0.4.7
	github.com/urfave/cli/v3 v3.1.1
	golang.org/x/mod v0.24.0
	golang.org/x/sync v0.13.0
	golang.org/x/text v0.24.0
	gopkg.in/sourcemap.v1 v1.0.5
	gopkg.in/yaml.v2 v2.4.0
	gopkg.in/yaml.v3 v3.0.1
)

replace gitlab.com/aquachain/aquachain => /repo
