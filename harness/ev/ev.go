// Package ev is the evidence collector and run configuration shared by every
// property check. A check calls ev.Main from TestMain, ev.Check to run a rapid
// property with the tier's case count and the run's seed, and ev.Case for each
// generated case so that evaluations / distinct non-trivial cases / label
// distribution / samples are measured, not asserted.
package ev

import (
	"encoding/json"
	"flag"
	"fmt"
	"hash/fnv"
	"os"
	"sort"
	"strconv"
	"strings"
	"sync"
	"testing"
	"time"

	"pgregory.net/rapid"
)

type finding struct {
	Property string `json:"property"`
	Key      string `json:"key"`
	Status   string `json:"status"` // "known" | "fixed"
	Commit   string `json:"commit,omitempty"`
	What     string `json:"what"`
}

type shardOut struct {
	Property    string            `json:"property_id"`
	Tier        string            `json:"tier"`
	Seed        int64             `json:"seed"`
	Shard       int               `json:"shard"`
	Level       string            `json:"level"`
	Rule        string            `json:"rule"`
	Assumptions []string          `json:"assumptions"`
	Evaluations int64             `json:"evaluations"`
	Hashes      []uint64          `json:"hashes"`
	HashesTrunc bool              `json:"hashes_truncated"`
	Labels      map[string]int64  `json:"labels"`
	Samples     []json.RawMessage `json:"samples"`
	Excluded    map[string]int64  `json:"excluded_known"`
	KnownSeen   []string          `json:"known_seen"`
	MustMissing []string          `json:"musthit_missing"`
	Exhaustive  map[string]bool   `json:"exhaustive"`
	Extra       map[string]int64  `json:"extra"`
	WallS       float64           `json:"wall_s"`
	ExitCode    int               `json:"exit_code"`
}

var (
	mu          sync.Mutex
	propertyID  string
	evaluations int64
	hashes      = map[uint64]struct{}{}
	labels      = map[string]int64{}
	samples     []json.RawMessage
	sampleSeen  int64
	excluded    = map[string]int64{}
	knownSeen   = map[string]bool{}
	mustHit     []string
	mustHitTh   []string
	exhaustive  = map[string]bool{}
	extra       = map[string]int64{}
	findings    []finding
	start       time.Time
)

const maxHashes = 4_000_000
const maxSamples = 6

// Tier returns "quick" or "thorough".
func Tier() string {
	if os.Getenv("VERIF_TIER") == "thorough" {
		return "thorough"
	}
	return "quick"
}

func Thorough() bool { return Tier() == "thorough" }

// Seed is VERIF_SEED (default 1).
func Seed() int64 {
	s, err := strconv.ParseInt(os.Getenv("VERIF_SEED"), 10, 64)
	if err != nil {
		return 1
	}
	return s
}

func Shard() int {
	s, _ := strconv.Atoi(os.Getenv("VERIF_SHARD"))
	return s
}

func NShards() int {
	s, _ := strconv.Atoi(os.Getenv("VERIF_NSHARDS"))
	if s < 1 {
		return 1
	}
	return s
}

// N picks a case count by tier. The thorough count is the total over all
// shards; each shard gets its share.
func N(quick, thorough int) int {
	if Thorough() {
		n := thorough / NShards()
		if n < 1 {
			n = 1
		}
		return n
	}
	return quick
}

// Pick chooses a size bound by tier (not divided by shards).
func Pick(quick, thorough int) int {
	if Thorough() {
		return thorough
	}
	return quick
}

func rapidSeed(name string) uint64 {
	h := fnv.New32a()
	h.Write([]byte(name))
	v := (uint64(Seed())*1000003 + uint64(Shard())*7919 + uint64(h.Sum32()%65521)) % (1 << 31)
	return v + 1 // 0 means "random" to rapid
}

// Check runs a rapid property with `checks` cases and the seed derived from
// VERIF_SEED, the shard and the check's name.
func Check(t *testing.T, checks int, prop func(*rapid.T)) {
	t.Helper()
	if os.Getenv("VERIF_RAPID_FAILFILE") == "" {
		flag.Set("rapid.checks", strconv.Itoa(checks))
		flag.Set("rapid.seed", strconv.FormatUint(rapidSeed(t.Name()), 10))
	} else {
		flag.Set("rapid.failfile", os.Getenv("VERIF_RAPID_FAILFILE"))
	}
	if os.Getenv("VERIF_SHRINKTIME") != "" {
		flag.Set("rapid.shrinktime", os.Getenv("VERIF_SHRINKTIME"))
	}
	rapid.Check(t, prop)
}

func hash64(b []byte) uint64 {
	h := fnv.New64a()
	h.Write(b)
	return h.Sum64()
}

// Case records one generated case. canon is a canonical rendering of the case
// (used only to count distinct non-trivial cases); labels classify it.
func Case(nontrivial bool, canon []byte, lbls ...string) {
	mu.Lock()
	defer mu.Unlock()
	evaluations++
	if nontrivial {
		labels["nontrivial"]++
		if len(hashes) < maxHashes {
			hashes[hash64(canon)] = struct{}{}
		}
	}
	for _, l := range lbls {
		if l != "" {
			labels[l]++
		}
	}
}

// Label counts a class hit without counting an evaluation.
func Label(lbls ...string) {
	mu.Lock()
	defer mu.Unlock()
	for _, l := range lbls {
		if l != "" {
			labels[l]++
		}
	}
}

// Add adds to a free-form counter reported under coverage.
func Add(key string, n int64) {
	mu.Lock()
	defer mu.Unlock()
	extra[key] += n
}

// Sample offers a case for the evidence samples (reservoir, deterministic:
// keeps the first few and then every 2^k-th).
func Sample(v interface{}) {
	mu.Lock()
	defer mu.Unlock()
	sampleSeen++
	n := sampleSeen
	keep := len(samples) < maxSamples
	idx := len(samples)
	if !keep && n&(n-1) == 0 { // power of two: replace a slot round-robin
		keep = true
		idx = int(popcountLog(n)) % maxSamples
	}
	if !keep {
		return
	}
	b, err := json.Marshal(v)
	if err != nil {
		b, _ = json.Marshal(fmt.Sprintf("%+v", v))
	}
	if len(b) > 4096 {
		b, _ = json.Marshal(string(b[:4000]) + "…(truncated)")
	}
	if idx == len(samples) {
		samples = append(samples, b)
	} else {
		samples[idx] = b
	}
}

func popcountLog(n int64) int64 {
	var k int64
	for n > 1 {
		n >>= 1
		k++
	}
	return k
}

// Excluded counts a case shape that was excluded (or a mismatch that was
// skipped) because it is a listed known finding.
func Excluded(key string) {
	mu.Lock()
	defer mu.Unlock()
	excluded[key]++
}

// Exhaustive records that a named finite sub-domain was enumerated completely.
func Exhaustive(name string) {
	mu.Lock()
	defer mu.Unlock()
	exhaustive[name] = true
}

// Known reports whether key is listed with status "known" for this property
// (a recorded, unrepaired defect whose shape the generator must step around).
func Known(key string) bool {
	for _, f := range findings {
		if f.Property == propertyID && f.Key == key && f.Status == "known" {
			return true
		}
	}
	return false
}

// KnownFinding prints the KNOWN-FINDING line for a listed finding whose witness
// still reproduces. It panics if the key is not listed as known: a check may
// never silence a violation the committed file does not list.
func KnownFinding(key string) {
	for _, f := range findings {
		if f.Property == propertyID && f.Key == key && f.Status == "known" {
			mu.Lock()
			first := !knownSeen[key]
			knownSeen[key] = true
			mu.Unlock()
			if first {
				fmt.Printf("KNOWN-FINDING: property=%s %s: %s\n", propertyID, key, f.What)
			}
			return
		}
	}
	panic("ev.KnownFinding: key not listed as known: " + key)
}

// MustHit declares label classes that must be non-zero at the end of the run
// in every tier; MustHitThorough in the thorough tier only.
func MustHit(lbls ...string)         { mustHit = append(mustHit, lbls...) }
func MustHitThorough(lbls ...string) { mustHitTh = append(mustHitTh, lbls...) }

type Config struct {
	Property    string
	Level       string // "exploration" | "fault_enumeration"
	Rule        string
	Assumptions []string
}

// Main runs the tests and writes the shard evidence file named by
// VERIF_EVIDENCE_OUT. Exit status: the tests' own status, or 3 when a must-hit
// class was never generated (the driver maps that to "inconclusive").
func Main(m *testing.M, cfg Config) {
	propertyID = cfg.Property
	start = time.Now()
	if p := os.Getenv("VERIF_KNOWN_FINDINGS"); p != "" {
		// a directory holding one committed file per property: <dir>/<ID>.json
		if b, err := os.ReadFile(p + "/" + cfg.Property + ".json"); err == nil {
			var kf struct {
				Findings []finding `json:"findings"`
			}
			if err := json.Unmarshal(b, &kf); err != nil {
				fmt.Fprintln(os.Stderr, "ev: cannot parse known findings:", err)
				os.Exit(4)
			}
			findings = kf.Findings
		}
	}
	code := m.Run()
	mu.Lock()
	out := shardOut{
		Property: cfg.Property, Tier: Tier(), Seed: Seed(), Shard: Shard(), Level: cfg.Level,
		Rule: cfg.Rule, Assumptions: cfg.Assumptions, Evaluations: evaluations,
		Labels: labels, Samples: samples, Excluded: excluded, Exhaustive: exhaustive, Extra: extra,
		WallS: time.Since(start).Seconds(),
	}
	for h := range hashes {
		out.Hashes = append(out.Hashes, h)
	}
	out.HashesTrunc = len(hashes) >= maxHashes
	sort.Slice(out.Hashes, func(i, j int) bool { return out.Hashes[i] < out.Hashes[j] })
	for k := range knownSeen {
		out.KnownSeen = append(out.KnownSeen, k)
	}
	sort.Strings(out.KnownSeen)
	replaying := os.Getenv("VERIF_RAPID_FAILFILE") != "" || os.Getenv("VERIF_REPLAY") != "" || os.Getenv("VERIF_NO_MUSTHIT") != ""
	if code == 0 && !replaying {
		need := append([]string{}, mustHit...)
		if Thorough() {
			need = append(need, mustHitTh...)
		}
		for _, l := range need {
			if labels[l] == 0 {
				out.MustMissing = append(out.MustMissing, l)
			}
		}
		if len(out.MustMissing) > 0 {
			fmt.Printf("MUSTHIT-MISSING: property=%s classes=%s\n", cfg.Property, strings.Join(out.MustMissing, ","))
			code = 3
		}
	}
	out.ExitCode = code
	mu.Unlock()
	if p := os.Getenv("VERIF_EVIDENCE_OUT"); p != "" {
		b, _ := json.Marshal(out)
		if err := os.WriteFile(p, b, 0o644); err != nil {
			fmt.Fprintln(os.Stderr, "ev: cannot write evidence:", err)
		}
	}
	os.Exit(code)
}

// ReplayPath returns the path of a case file to replay (VERIF_REPLAY) or "".
func ReplayPath() string { return os.Getenv("VERIF_REPLAY") }

// SaveCase writes a failing case (our own rendering, independent of rapid's
// fail file) into the directory named by VERIF_CASE_DIR and returns its path.
func SaveCase(name string, v interface{}) string {
	dir := os.Getenv("VERIF_CASE_DIR")
	if dir == "" {
		return ""
	}
	b, _ := json.MarshalIndent(v, "", " ")
	p := fmt.Sprintf("%s/%s-%s-seed%d-shard%d.json", dir, propertyID, name, Seed(), Shard())
	os.WriteFile(p, b, 0o644)
	return p
}
