package c03

import (
	"fmt"
	"testing"

	"gitlab.com/aquachain/aquachain/aquadb"
	"gitlab.com/aquachain/aquachain/core"
	"gitlab.com/aquachain/aquachain/core/types"
	"pgregory.net/rapid"
	"verifharness/ev"
	"verifharness/gen"
)

// TestHeaderFirstWithBodies: header-first import followed by body/receipt
// completion (InsertReceiptChain), as a fast-syncing node does, then rewinds.
// For every block completed this way and still canonical, header, body,
// receipts and total difficulty must be retrievable and its transactions must
// resolve to their position; after SetHead the transactions of removed blocks
// must not resolve any more.
func TestHeaderFirstWithBodies(t *testing.T) {
	ev.Check(t, ev.N(60, 3000), func(t *rapid.T) {
		nc := gen.ConfigByName(rapid.SampledFrom(configs).Draw(t, "config"))
		tr := gen.DrawTree(t, nc, gen.TreeOpts{MaxBranches: 1, MaxDepth: ev.Pick(10, 24), MinMain: 4, MaxTxs: 3,
			Kinds: []string{"transfer", "transfer-new", "store-set", "emit", "reverter", "create", "bouncer"}})
		defer tr.Close()
		core.VerifResetGlobals()
		n, err := gen.NewNode(aquadb.NewMemDatabase(), tr.B.Genesis, gen.Archive(), nil)
		if err != nil {
			t.Fatal(err)
		}
		defer func() { n.Chain.Stop() }()
		main := tr.Nodes[1:]
		// headers first, in pieces
		for i := 0; i < len(main); {
			k := rapid.IntRange(1, 6).Draw(t, "hpiece")
			if i+k > len(main) {
				k = len(main) - i
			}
			hs := make([]*types.Header, k)
			for j := 0; j < k; j++ {
				hs[j] = main[i+j].Block.Header()
			}
			if _, err := n.Chain.InsertHeaderChain(hs, 1); err != nil {
				t.Fatalf("InsertHeaderChain: %v", err)
			}
			i += k
		}
		// bodies and receipts for a prefix, in pieces
		upto := rapid.IntRange(1, len(main)).Draw(t, "bodiesupto")
		for i := 0; i < upto; {
			k := rapid.IntRange(1, 5).Draw(t, "bpiece")
			if i+k > upto {
				k = upto - i
			}
			blocks := make(types.Blocks, k)
			receipts := make([]types.Receipts, k)
			for j := 0; j < k; j++ {
				blocks[j] = main[i+j].Block
				// the downloader hands over receipts as decoded from the wire: consensus fields only
				for _, r := range main[i+j].Receipts {
					cp := &types.Receipt{PostState: append([]byte{}, r.PostState...), Status: r.Status, CumulativeGasUsed: r.CumulativeGasUsed, Bloom: r.Bloom, Logs: r.Logs}
					receipts[j] = append(receipts[j], cp)
				}
			}
			if idx, err := n.Chain.InsertReceiptChain(blocks, receipts); err != nil {
				t.Fatalf("InsertReceiptChain refused block #%d: %v", main[i+idx].Index, err)
			}
			i += k
		}
		check := func(step string, completed int, headHeight uint64) {
			txSeen := false
			for i, nd := range main {
				canonical := nd.Height <= headHeight
				has := i < completed && canonical
				b := n.Chain.GetBlockByNumber(nd.Height)
				if has {
					if b == nil || b.Hash() != nd.Block.Hash() || len(b.Transactions()) != len(nd.Block.Transactions()) {
						t.Fatalf("%s: completed canonical block #%d is not retrievable with its body", step, nd.Index)
					}
					rs := n.Chain.GetReceiptsByHash(nd.Block.Hash())
					if len(rs) != len(nd.Receipts) {
						t.Fatalf("%s: block #%d has %d receipts stored, %d were delivered", step, nd.Index, len(rs), len(nd.Receipts))
					}
					for j, r := range rs {
						if r.CumulativeGasUsed != nd.Receipts[j].CumulativeGasUsed || len(r.Logs) != len(nd.Receipts[j].Logs) {
							t.Fatalf("%s: receipt %d of block #%d differs from what was delivered", step, j, nd.Index)
						}
					}
					if td := n.Chain.GetTd(nd.Block.Hash(), nd.Height); td == nil || td.Cmp(nd.TD) != 0 {
						t.Fatalf("%s: TD of block #%d = %v, want %v", step, nd.Index, td, nd.TD)
					}
				}
				for j, tx := range nd.Block.Transactions() {
					got, bh, bn, ti := core.GetTransaction(n.DB, tx.Hash())
					if has {
						txSeen = true
						if got == nil || bh != nd.Block.Hash() || bn != nd.Height || int(ti) != j {
							t.Fatalf("%s: transaction %d of completed canonical block #%d does not resolve to its position", step, j, nd.Index)
						}
					} else if !canonical && got != nil {
						t.Fatalf("%s: transaction %x of removed block #%d (height %d > head %d) still resolves", step, tx.Hash().Bytes()[:4], nd.Index, nd.Height, headHeight)
					}
				}
			}
			if txSeen {
				ev.Label("fastsync-tx-resolved")
			}
		}
		top := main[len(main)-1].Height
		check("after completion", upto, top)
		if fb := n.Chain.CurrentFastBlock(); fb.NumberU64() != main[upto-1].Height {
			t.Fatalf("fast head is at height %d after completing blocks up to height %d", fb.NumberU64(), main[upto-1].Height)
		}
		// rewind
		target := uint64(rapid.IntRange(0, int(top)).Draw(t, "sethead"))
		if err := n.Chain.SetHead(target); err != nil {
			t.Fatalf("SetHead: %v", err)
		}
		check(fmt.Sprintf("after SetHead(%d)", target), upto, target)
		if hh := n.Chain.CurrentHeader().Number.Uint64(); hh != target {
			t.Fatalf("header head at %d after SetHead(%d)", hh, target)
		}
		ev.Case(upto > 1, []byte(fmt.Sprintf("fast:%v:%d:%d", tr.Describe(), upto, target)), "header-first-with-bodies")
	})
}
