// C03 — The canonical index describes exactly the chain that ends at the head.
//
// Oracle: invariant over public getters, evaluated after every action of a
// generated history (import / reorg / rewind / restart), against the parent
// links of the generated tree.
package c03

import (
	"fmt"
	"strings"
	"testing"

	"gitlab.com/aquachain/aquachain/aquadb"
	"gitlab.com/aquachain/aquachain/common"
	"gitlab.com/aquachain/aquachain/core"
	"gitlab.com/aquachain/aquachain/core/types"
	"pgregory.net/rapid"
	"verifharness/ev"
	"verifharness/gen"
)

const keyStaleNumbers = "stale-canonical-numbers-after-shorter-reorg"

func TestMain(m *testing.M) {
	gen.Quiet()
	ev.MustHit("reorg", "reorg-to-shorter", "sethead", "sethead-after-reorg", "restart", "dup-tx-two-branches", "tx-dropped-by-reorg", "header-first", "header-reorg-to-shorter")
	ev.Main(m, ev.Config{
		Property: "C03",
		Level:    "exploration",
		Rule: "rapid state machine over a generated transaction-carrying block tree (<=4/6 branches, transactions of one branch re-placed on others): actions InsertChain(linked batch, parent-closed), InsertHeaderChain ahead of the blocks, SetHead(n<=head), restart, " +
			"and on a separate header-only node InsertHeaderChain/SetHead; after every action the number index, header/body/receipt/TD retrievability, absence above the head and transaction lookups (both directions, for every transaction of the tree) are judged against the tree's parent links. " +
			"non-trivial = a history with a reorganisation or a rewind after at least one canonical transaction; distinct by hash of tree+action list",
		Assumptions: []string{
			"fake-PoW engine; archive node (so SetHead never lacks state) for the full-import machine",
			"transaction resolution is judged at core.GetTransaction, the level the RPC layer uses",
			"in the full-import machine headers are imported ahead of blocks only as extensions of the current header head (as a syncing node does); header branches that compete with the block head are the header-only machine's domain; body/receipt completion (InsertReceiptChain) is exercised on a third node",
		},
	})
}

type txLoc struct {
	node *gen.TNode
	idx  int
}

type machine struct {
	tr          *gen.Tree
	n           *gen.Node
	delivered   map[*gen.TNode]bool
	hdelivered  map[*gen.TNode]bool // header known (imported ahead of its block)
	tallest     uint64
	actions     []string
	labels      map[string]bool
	reorged     bool
	lastShorter uint64
	canonTx     bool
	allTxs      map[common.Hash][]txLoc
}

func (m *machine) head(t *rapid.T) *gen.TNode {
	h := m.tr.ByHash[m.n.Chain.CurrentBlock().Hash()]
	if h == nil {
		t.Fatalf("head %x is not a block of the tree", m.n.Chain.CurrentBlock().Hash())
	}
	return h
}

// check is the invariant.
func (m *machine) check(t *rapid.T, step string) {
	bc := m.n.Chain
	H := m.head(t)
	HH := m.tr.ByHash[bc.CurrentHeader().Hash()]
	if HH == nil {
		t.Fatalf("%s: header head not in tree", step)
	}
	// (a) every height up to the block head maps to the head's ancestor, with all parts retrievable
	for x := H; x != nil; x = x.Parent {
		b := bc.GetBlockByNumber(x.Height)
		if b == nil {
			t.Fatalf("%s: GetBlockByNumber(%d) = nil but the head #%d (height %d) has an ancestor there", step, x.Height, H.Index, H.Height)
		}
		if b.Hash() != x.Block.Hash() {
			other := m.tr.ByHash[b.Hash()]
			oi := -1
			if other != nil {
				oi = other.Index
			}
			t.Fatalf("%s: height %d maps to block #%d, but the head #%d's ancestor there is #%d", step, x.Height, oi, H.Index, x.Index)
		}
		if len(b.Transactions()) != len(x.Block.Transactions()) {
			t.Fatalf("%s: body of canonical block #%d has %d transactions, want %d", step, x.Index, len(b.Transactions()), len(x.Block.Transactions()))
		}
		if bc.GetHeaderByNumber(x.Height) == nil || bc.GetHeaderByNumber(x.Height).Hash() != x.Block.Hash() {
			t.Fatalf("%s: GetHeaderByNumber(%d) does not return canonical block #%d", step, x.Height, x.Index)
		}
		if td := bc.GetTd(x.Block.Hash(), x.Height); td == nil || td.Cmp(x.TD) != 0 {
			t.Fatalf("%s: TD of canonical block #%d = %v, want %v", step, x.Index, td, x.TD)
		}
		rs := bc.GetReceiptsByHash(x.Block.Hash())
		if len(rs) != len(x.Block.Transactions()) {
			t.Fatalf("%s: %d receipts for canonical block #%d with %d transactions", step, len(rs), x.Index, len(x.Block.Transactions()))
		}
		for i, r := range rs {
			if x.Receipts != nil && r.CumulativeGasUsed != x.Receipts[i].CumulativeGasUsed {
				t.Fatalf("%s: receipt %d of block #%d has cumulative gas %d, builder recorded %d", step, i, x.Index, r.CumulativeGasUsed, x.Receipts[i].CumulativeGasUsed)
			}
		}
	}
	// (b) the header head's ancestry
	for x := HH; x != nil; x = x.Parent {
		h := bc.GetHeaderByNumber(x.Height)
		if h == nil || h.Hash() != x.Block.Hash() {
			t.Fatalf("%s: GetHeaderByNumber(%d) is not the header head #%d's ancestor #%d", step, x.Height, HH.Index, x.Index)
		}
	}
	// (c) nothing above the heads
	top := H.Height
	if HH.Height > top {
		top = HH.Height
	}
	for n := top + 1; n <= m.tallest+2; n++ {
		if h := bc.GetHeaderByNumber(n); h != nil {
			if H.Height < m.lastShorter && ev.Known(keyStaleNumbers) {
				ev.Excluded(keyStaleNumbers)
				continue
			}
			t.Fatalf("%s: height %d (above the head at %d) still maps to header %x (block #%d)", step, n, top, h.Hash(), idx(m.tr, h.Hash()))
		}
		if b := bc.GetBlockByNumber(n); b != nil {
			t.Fatalf("%s: height %d (above the head at %d) still maps to block #%d", step, n, top, idx(m.tr, b.Hash()))
		}
	}
	// (d) transaction lookups, both directions
	for hash, locs := range m.allTxs {
		var want *txLoc
		for i := range locs {
			l := locs[i]
			if l.node.Height <= H.Height && gen.AncestorAt(H, l.node.Height) == l.node {
				want = &locs[i]
			}
		}
		tx, bh, bn, ti := core.GetTransaction(m.n.DB, hash)
		if want == nil {
			if tx != nil {
				t.Fatalf("%s: transaction %x resolves to block #%d index %d, but it is in no canonical block (head #%d)", step, hash[:4], idx(m.tr, bh), ti, H.Index)
			}
			continue
		}
		if tx == nil {
			t.Fatalf("%s: transaction %x is in canonical block #%d at index %d but does not resolve", step, hash[:4], want.node.Index, want.idx)
		}
		if bh != want.node.Block.Hash() || bn != want.node.Height || int(ti) != want.idx || tx.Hash() != hash {
			t.Fatalf("%s: transaction %x resolves to (block #%d, number %d, index %d), want (block #%d, number %d, index %d)",
				step, hash[:4], idx(m.tr, bh), bn, ti, want.node.Index, want.node.Height, want.idx)
		}
		r, rbh, _, ri := core.GetReceipt(m.n.DB, hash)
		if r == nil || rbh != bh || ri != ti {
			t.Fatalf("%s: receipt of canonical transaction %x not found at its position", step, hash[:4])
		}
		if want.node.Receipts != nil && r.CumulativeGasUsed != want.node.Receipts[want.idx].CumulativeGasUsed {
			t.Fatalf("%s: receipt of transaction %x has the wrong cumulative gas", step, hash[:4])
		}
		m.canonTx = true
	}
}

func idx(tr *gen.Tree, h common.Hash) int {
	if n := tr.ByHash[h]; n != nil {
		return n.Index
	}
	return -1
}

func collectTxs(tr *gen.Tree) (map[common.Hash][]txLoc, bool) {
	all := map[common.Hash][]txLoc{}
	dup := false
	for _, n := range tr.Nodes[1:] {
		for i, tx := range n.Block.Transactions() {
			all[tx.Hash()] = append(all[tx.Hash()], txLoc{n, i})
			if len(all[tx.Hash()]) > 1 {
				dup = true
			}
		}
	}
	return all, dup
}

func drawBatch(t *rapid.T, tr *gen.Tree, delivered map[*gen.TNode]bool, maxBatch int) gen.Batch {
	var frontier []*gen.TNode
	for _, n := range tr.Nodes {
		if !delivered[n] && delivered[n.Parent] {
			frontier = append(frontier, n)
		}
	}
	if len(frontier) == 0 {
		return nil
	}
	n := frontier[rapid.IntRange(0, len(frontier)-1).Draw(t, "next")]
	if rapid.Bool().Draw(t, "oldestfirst") {
		n = frontier[0] // finish earlier branches first: later branches then arrive as competitors
	}
	k := rapid.IntRange(1, maxBatch).Draw(t, "batchlen")
	var batch gen.Batch
	for n != nil && len(batch) < k {
		batch = append(batch, n)
		var und []*gen.TNode
		for _, c := range n.Children {
			if !delivered[c] {
				und = append(und, c)
			}
		}
		n = nil
		if len(und) > 0 {
			n = und[rapid.IntRange(0, len(und)-1).Draw(t, "follow")]
		}
	}
	return batch
}

func (m *machine) lbl(l string) { m.labels[l] = true }

var configs = []string{"steep", "steep", "steep", "nofork", "test-hf1-7", "all-at-0", "spread"}

func TestCanonicalIndex(t *testing.T) {
	ev.Check(t, ev.N(400, 8000), func(t *rapid.T) {
		nc := gen.ConfigByName(rapid.SampledFrom(configs).Draw(t, "config"))
		tr := gen.DrawTree(t, nc, gen.TreeOpts{MaxBranches: ev.Pick(4, 6), MaxDepth: ev.Pick(8, 14), MaxTxs: 3, MinMain: 2, ReuseTxs: true, Rivals: true, TimeDeltas: []int64{1, 13, 240, 3000},
			Kinds: []string{"transfer", "transfer-new", "store-set", "store-clear", "emit", "reverter", "create", "bouncer"}})
		defer tr.Close()
		core.VerifResetGlobals()
		n, err := gen.NewNode(aquadb.NewMemDatabase(), tr.B.Genesis, gen.Archive(), nil)
		if err != nil {
			t.Fatal(err)
		}
		m := &machine{tr: tr, n: n, delivered: map[*gen.TNode]bool{tr.Root: true}, hdelivered: map[*gen.TNode]bool{}, labels: map[string]bool{}}
		defer func() { m.n.Chain.Stop() }()
		var dup bool
		m.allTxs, dup = collectTxs(tr)
		if dup {
			m.lbl("dup-tx-two-branches")
		}
		for _, nd := range tr.Nodes {
			if nd.Height > m.tallest {
				m.tallest = nd.Height
			}
		}
		m.check(t, "initially")
		steps := 0
		t.Repeat(map[string]func(*rapid.T){
			"insert": func(t *rapid.T) {
				batch := drawBatch(t, tr, m.delivered, 5)
				if batch == nil {
					t.Skip("everything delivered")
				}
				before := m.head(t)
				if i, err := m.n.Chain.InsertChain(batch.Blocks()); err != nil {
					t.Fatalf("InsertChain rejected valid block #%d: %v", batch[i].Index, err)
				}
				for _, b := range batch {
					m.delivered[b] = true
				}
				after := m.head(t)
				m.actions = append(m.actions, fmt.Sprintf("insert #%d+%d", batch[0].Index, len(batch)))
				if after != before && !gen.IsAncestor(before, after) {
					m.reorged = true
					m.lbl("reorg")
					if after.Height < before.Height {
						m.lbl("reorg-to-shorter")
						m.lastShorter = before.Height
					}
					// a transaction that was canonical and is not on the new branch
					for _, locs := range m.allTxs {
						was, is := false, false
						for _, l := range locs {
							if gen.IsAncestor(l.node, before) {
								was = true
							}
							if gen.IsAncestor(l.node, after) {
								is = true
							}
						}
						if was && !is {
							m.lbl("tx-dropped-by-reorg")
						}
					}
				}
			},
			"headersAhead": func(t *rapid.T) {
				// headers imported ahead of blocks, as a syncing node does: only ever extending the
				// current header head (a header branch competing with the block head is the
				// header-only machine's domain)
				hh := m.tr.ByHash[m.n.Chain.CurrentHeader().Hash()]
				var path []*gen.TNode
				for x := hh; len(path) < 4; {
					var next *gen.TNode
					for _, c := range x.Children {
						if !m.delivered[c] && !m.hdelivered[c] {
							next = c
							break
						}
					}
					if next == nil {
						break
					}
					path = append(path, next)
					x = next
				}
				if len(path) == 0 {
					t.Skip("no undelivered child of the header head")
				}
				k := rapid.IntRange(1, len(path)).Draw(t, "nheaders")
				hs := make([]*types.Header, k)
				for i := 0; i < k; i++ {
					hs[i] = path[i].Block.Header()
				}
				if i, err := m.n.Chain.InsertHeaderChain(hs, 1); err != nil {
					t.Fatalf("InsertHeaderChain rejected valid header #%d: %v", path[i].Index, err)
				}
				for i := 0; i < k; i++ {
					m.hdelivered[path[i]] = true
				}
				m.actions = append(m.actions, fmt.Sprintf("headersAhead #%d+%d", path[0].Index, k))
				m.lbl("headers-ahead-of-blocks")
			},
			"sethead": func(t *rapid.T) {
				h := m.head(t)
				hh := m.tr.ByHash[m.n.Chain.CurrentHeader().Hash()]
				if hh == nil {
					t.Fatalf("header head not in tree")
				}
				top := hh // the header head is the block head or (after headersAhead) a descendant of it
				if top.Height == 0 {
					t.Skip("at genesis")
				}
				target := uint64(rapid.IntRange(0, int(top.Height)).Draw(t, "target"))
				if err := m.n.Chain.SetHead(target); err != nil {
					t.Fatalf("SetHead(%d): %v", target, err)
				}
				m.actions = append(m.actions, fmt.Sprintf("sethead %d", target))
				want := h
				if h.Height > target {
					want = gen.AncestorAt(h, target)
				}
				if got := m.head(t); got != want {
					t.Fatalf("after SetHead(%d) the head is #%d (height %d), want #%d", target, got.Index, got.Height, want.Index)
				}
				if got := m.tr.ByHash[m.n.Chain.CurrentHeader().Hash()]; got != gen.AncestorAt(top, target) {
					t.Fatalf("after SetHead(%d) the header head is #%d, want #%d", target, idxOfNode(got), gen.AncestorAt(top, target).Index)
				}
				// headers and blocks above the target on the rewound chain were removed: they may be delivered again
				for x := top; x != nil && x.Height > target; x = x.Parent {
					m.undeliver(x)
				}
				m.lbl("sethead")
				if m.reorged {
					m.lbl("sethead-after-reorg")
				}
				m.lastShorter = 0
			},
			"restart": func(t *rapid.T) {
				h := m.head(t)
				if err := m.n.Restart(); err != nil {
					t.Fatalf("restart: %v", err)
				}
				m.actions = append(m.actions, "restart")
				if m.head(t) != h {
					t.Fatalf("head changed across a clean restart: #%d -> #%d", h.Index, m.head(t).Index)
				}
				m.lbl("restart")
			},
			"": func(t *rapid.T) {
				steps++
				m.check(t, fmt.Sprintf("after action %d (%s)", len(m.actions), last(m.actions)))
			},
		})
		var lb []string
		for k := range m.labels {
			lb = append(lb, k)
		}
		nt := (m.labels["reorg"] || m.labels["sethead"]) && m.canonTx
		canon := strings.Join(tr.Describe(), ";") + "|" + strings.Join(m.actions, ",")
		ev.Case(nt, []byte(canon), append(lb, "config:"+nc.Name)...)
		ev.Sample(map[string]interface{}{"config": nc.Name, "tree": tr.Describe(), "actions": m.actions})
	})
}

// undeliver marks a rewound block and everything delivered on top of it as
// deliverable again (SetHead removed their bodies or they lost their parent).
func (m *machine) undeliver(x *gen.TNode) {
	delete(m.delivered, x)
	delete(m.hdelivered, x)
	for _, c := range x.Children {
		if m.delivered[c] || m.hdelivered[c] {
			m.undeliver(c)
		}
	}
}

func idxOfNode(n *gen.TNode) int {
	if n == nil {
		return -1
	}
	return n.Index
}

func last(a []string) string {
	if len(a) == 0 {
		return "-"
	}
	return a[len(a)-1]
}

// ---------- header-first node ----------

func TestHeaderChainIndex(t *testing.T) {
	ev.Check(t, ev.N(150, 6000), func(t *rapid.T) {
		nc := gen.ConfigByName(rapid.SampledFrom(configs).Draw(t, "config"))
		tr := gen.DrawTree(t, nc, gen.TreeOpts{MaxBranches: ev.Pick(4, 6), MaxDepth: ev.Pick(10, 20), MinMain: 2, Rivals: true, TimeDeltas: []int64{1, 13, 240, 3000}})
		defer tr.Close()
		core.VerifResetGlobals()
		n, err := gen.NewNode(aquadb.NewMemDatabase(), tr.B.Genesis, gen.Archive(), nil)
		if err != nil {
			t.Fatal(err)
		}
		defer func() { n.Chain.Stop() }()
		delivered := map[*gen.TNode]bool{tr.Root: true}
		var tallest uint64
		for _, nd := range tr.Nodes {
			if nd.Height > tallest {
				tallest = nd.Height
			}
		}
		var actions []string
		labels := map[string]bool{}
		check := func(step string) {
			bc := n.Chain
			HH := tr.ByHash[bc.CurrentHeader().Hash()]
			if HH == nil {
				t.Fatalf("%s: header head not in tree", step)
			}
			for x := HH; x != nil; x = x.Parent {
				h := bc.GetHeaderByNumber(x.Height)
				if h == nil || h.Hash() != x.Block.Hash() {
					t.Fatalf("%s: GetHeaderByNumber(%d) is not the header head #%d's ancestor #%d (got #%d)", step, x.Height, HH.Index, x.Index, idxh(tr, h))
				}
				if td := bc.GetTd(x.Block.Hash(), x.Height); td == nil || td.Cmp(x.TD) != 0 {
					t.Fatalf("%s: TD of canonical header #%d = %v, want %v", step, x.Index, td, x.TD)
				}
			}
			for k := HH.Height + 1; k <= tallest+2; k++ {
				if h := bc.GetHeaderByNumber(k); h != nil {
					t.Fatalf("%s: height %d above the header head (%d) still maps to header #%d", step, k, HH.Height, idxh(tr, h))
				}
			}
			if bc.CurrentBlock().NumberU64() != 0 {
				t.Fatalf("%s: block head moved on a header-only import", step)
			}
		}
		t.Repeat(map[string]func(*rapid.T){
			"headers": func(t *rapid.T) {
				batch := drawBatch(t, tr, delivered, 8)
				if batch == nil {
					t.Skip("everything delivered")
				}
				hs := make([]*types.Header, len(batch))
				for i, b := range batch {
					hs[i] = b.Block.Header()
				}
				before := tr.ByHash[n.Chain.CurrentHeader().Hash()]
				freq := rapid.SampledFrom([]int{1, 2, 100}).Draw(t, "checkfreq")
				if i, err := n.Chain.InsertHeaderChain(hs, freq); err != nil {
					t.Fatalf("InsertHeaderChain rejected valid header #%d: %v", batch[i].Index, err)
				}
				for _, b := range batch {
					delivered[b] = true
				}
				after := tr.ByHash[n.Chain.CurrentHeader().Hash()]
				actions = append(actions, fmt.Sprintf("headers #%d+%d", batch[0].Index, len(batch)))
				labels["header-first"] = true
				if after != before && !gen.IsAncestor(before, after) {
					labels["header-reorg"] = true
					if after.Height < before.Height {
						labels["header-reorg-to-shorter"] = true
					}
				}
			},
			"sethead": func(t *rapid.T) {
				hh := tr.ByHash[n.Chain.CurrentHeader().Hash()]
				if hh.Height == 0 {
					t.Skip("at genesis")
				}
				target := uint64(rapid.IntRange(0, int(hh.Height)).Draw(t, "target"))
				if err := n.Chain.SetHead(target); err != nil {
					t.Fatalf("SetHead: %v", err)
				}
				actions = append(actions, fmt.Sprintf("sethead %d", target))
				want := gen.AncestorAt(hh, target)
				if got := tr.ByHash[n.Chain.CurrentHeader().Hash()]; got != want {
					t.Fatalf("after SetHead(%d) the header head is #%d, want #%d", target, got.Index, want.Index)
				}
				var drop func(x *gen.TNode)
				drop = func(x *gen.TNode) {
					delete(delivered, x)
					for _, c := range x.Children {
						if delivered[c] {
							drop(c)
						}
					}
				}
				for x := hh; x != nil && x.Height > target; x = x.Parent {
					drop(x)
				}
				labels["header-sethead"] = true
			},
			"": func(t *rapid.T) { check(fmt.Sprintf("after action %d (%s)", len(actions), last(actions))) },
		})
		var lb []string
		for k := range labels {
			lb = append(lb, k)
		}
		ev.Case(labels["header-reorg"] || labels["header-sethead"], []byte("H|"+strings.Join(tr.Describe(), ";")+"|"+strings.Join(actions, ",")), lb...)
	})
}

func idxh(tr *gen.Tree, h *types.Header) int {
	if h == nil {
		return -1
	}
	return idx(tr, h.Hash())
}
