package c03

import (
	"fmt"
	"testing"

	"gitlab.com/aquachain/aquachain/aquadb"
	"gitlab.com/aquachain/aquachain/core"
	"gitlab.com/aquachain/aquachain/core/types"
	"pgregory.net/rapid"
	"verifharness/ev"
	"verifharness/gen"
)

// branchBatches returns the tree's nodes grouped per branch, in build order.
func branchBatches(tr *gen.Tree) [][]*gen.TNode {
	var out [][]*gen.TNode
	for _, n := range tr.Nodes[1:] {
		for len(out) <= n.Branch {
			out = append(out, nil)
		}
		out[n.Branch] = append(out[n.Branch], n)
	}
	return out
}

// TestDirectedShorterReorg builds, by construction, the shape in which a
// shorter but heavier branch replaces a longer one (slow main branch first,
// then the fast rival), for full imports and for header-first imports, and
// runs the same invariants as the state machines.
func TestDirectedShorterReorg(t *testing.T) {
	ev.Check(t, ev.N(40, 1500), func(t *rapid.T) {
		nc := gen.ConfigByName("steep")
		tr := gen.DrawTree(t, nc, gen.TreeOpts{MaxBranches: 3, MaxDepth: 9, MaxTxs: 2, MinMain: 5, ForceRival: true, ReuseTxs: true,
			TimeDeltas: []int64{1, 13, 240, 3000}, Kinds: []string{"transfer", "store-set", "emit", "bouncer"}})
		defer tr.Close()
		var tallest uint64
		for _, nd := range tr.Nodes {
			if nd.Height > tallest {
				tallest = nd.Height
			}
		}
		headerMode := rapid.Bool().Draw(t, "headermode")
		core.VerifResetGlobals()
		n, err := gen.NewNode(aquadb.NewMemDatabase(), tr.B.Genesis, gen.Archive(), nil)
		if err != nil {
			t.Fatal(err)
		}
		defer func() { n.Chain.Stop() }()
		m := &machine{tr: tr, n: n, delivered: map[*gen.TNode]bool{tr.Root: true}, hdelivered: map[*gen.TNode]bool{}, labels: map[string]bool{}, tallest: tallest}
		m.allTxs, _ = collectTxs(tr)
		shorter := false
		for bi, br := range branchBatches(tr) {
			// a branch is a path only up to where later branches fork; deliver it block by block in linked runs
			for len(br) > 0 {
				k := rapid.IntRange(1, len(br)).Draw(t, "run")
				run := br[:k]
				br = br[k:]
				var before *gen.TNode
				if headerMode {
					before = tr.ByHash[n.Chain.CurrentHeader().Hash()]
					hs := make([]*types.Header, len(run))
					for i, b := range run {
						hs[i] = b.Block.Header()
					}
					if i, err := n.Chain.InsertHeaderChain(hs, 1); err != nil {
						t.Fatalf("InsertHeaderChain rejected valid header #%d: %v", run[i].Index, err)
					}
					after := tr.ByHash[n.Chain.CurrentHeader().Hash()]
					checkHeaderIndex(t, n, tr, tallest, fmt.Sprintf("after headers of branch %d up to #%d", bi, run[len(run)-1].Index))
					if after != before && !gen.IsAncestor(before, after) && after.Height < before.Height {
						shorter = true
					}
				} else {
					before = m.head(t)
					blocks := make(types.Blocks, len(run))
					for i, b := range run {
						blocks[i] = b.Block
					}
					if i, err := n.Chain.InsertChain(blocks); err != nil {
						t.Fatalf("InsertChain rejected valid block #%d: %v", run[i].Index, err)
					}
					after := m.head(t)
					m.check(t, fmt.Sprintf("after blocks of branch %d up to #%d", bi, run[len(run)-1].Index))
					if after != before && !gen.IsAncestor(before, after) && after.Height < before.Height {
						shorter = true
					}
				}
			}
		}
		lbl := "directed-no-shorter-reorg"
		if shorter && headerMode {
			lbl = "header-reorg-to-shorter"
		} else if shorter {
			lbl = "reorg-to-shorter"
		}
		ev.Case(shorter, []byte(fmt.Sprintf("directed:%v:%v", headerMode, tr.Describe())), lbl, "directed")
	})
}

func checkHeaderIndex(t *rapid.T, n *gen.Node, tr *gen.Tree, tallest uint64, step string) {
	bc := n.Chain
	HH := tr.ByHash[bc.CurrentHeader().Hash()]
	if HH == nil {
		t.Fatalf("%s: header head not in tree", step)
	}
	for x := HH; x != nil; x = x.Parent {
		h := bc.GetHeaderByNumber(x.Height)
		if h == nil || h.Hash() != x.Block.Hash() {
			t.Fatalf("%s: GetHeaderByNumber(%d) is not the header head #%d's ancestor #%d (got #%d)", step, x.Height, HH.Index, x.Index, idxh(tr, h))
		}
	}
	for k := HH.Height + 1; k <= tallest+2; k++ {
		if h := bc.GetHeaderByNumber(k); h != nil {
			t.Fatalf("%s: height %d above the header head (%d) still maps to header #%d", step, k, HH.Height, idxh(tr, h))
		}
	}
}
