// C04 — The chain database survives a crash at any write boundary.
//
// Technique: a recording database turns "the process dies between any two
// writes" into an enumerable set (every prefix of the write log of a generated
// history is a crash image), and "a disk write fails" into a re-run of the
// history with that step failing. Every image is reopened and judged.
package c04

import (
	"bytes"
	"context"
	"fmt"
	"math/big"
	"runtime"
	"strings"
	"testing"
	"time"

	"gitlab.com/aquachain/aquachain/aquadb"
	"gitlab.com/aquachain/aquachain/common"
	"gitlab.com/aquachain/aquachain/common/log"
	"gitlab.com/aquachain/aquachain/consensus/aquahash"
	"gitlab.com/aquachain/aquachain/core"
	"gitlab.com/aquachain/aquachain/core/types"
	"gitlab.com/aquachain/aquachain/core/vm"
	"gitlab.com/aquachain/aquachain/trie"
	"pgregory.net/rapid"
	"verifharness/ev"
	"verifharness/faultdb"
	"verifharness/gen"
)

func TestMain(m *testing.M) {
	gen.Quiet()
	// log.Crit ends the process in production: nothing runs after it, no deferred function either. The
	// goroutine that hit it is therefore parked for good (unwinding it with a panic would run the node's
	// deferred unlocks in a state the real process never reaches) and the watchdog reports the death.
	log.VerifSetCritHandler(func(msg string) {
		critCh <- msg
		select {}
	})
	ev.MustHit("crash-inside-import", "crash-inside-reorg", "crash-inside-stop-flush", "fault:batch-write", "fault:single-put", "fault:node-died(log.Crit)",
		"archive", "pruning", "history-with-reorg", "history-with-storage-contract", "image-head-is-not-final-head", "refeed-converged", "closure-checked", "stop-leg:pruning", "history-reuses-deployed-contract", "history-with-restart", "directed:side-branch-overtakes-after-restart", "refeed-latest-first")
	ev.MustHitThorough("big-state-flush")
	ev.Main(m, ev.Config{
		Property: "C04",
		Level:    "fault_enumeration",
		Rule: "for each rapid-generated history (block tree with reorganisations to longer and to shorter-heavier branches, contracts with storage, archive or pruning cache, clean restarts between batches, final Stop) the write log of a crash-free run is recorded by a wrapping database; EVERY prefix of the log (exhaustive per history) is materialised as a crash image, reopened with NewBlockChain and judged (no error/panic, head = last head the log made, complete state re-rooted with the reference MPT, number index = ancestry, closure of every state root on disk, re-feeding converges); " +
			"then the history is re-run with one write step failing (every batch write + a stratified sample of single puts in quick, all in thorough), under a watchdog, and the resulting database judged the same way. " +
			"A further leg judges only the images of the shutdown flush (every step inside it, and the clean image) over many longer histories that deploy contracts and use them again blocks later (pruning and archive). " +
			"non-trivial = a (history, step) pair whose step lies strictly inside a block import, reorganisation or shutdown flush (not on an InsertChain boundary); distinct by history hash + step index + mode",
		Assumptions: []string{
			"crash model: loss of a suffix of atomic write steps; a Batch.Write is atomic and steps are durable in order (as goleveldb's are); torn batches, reordered writes and media corruption are outside the model",
			"the head a node 'had made its head' is read from the write log (last value stored under the head-block key), because a reorganisation moves the head block by block inside one InsertChain call",
			"a failed single Put reaches log.Crit: with the verif hook that is observed as process death at that step (sentinel panic) and judged like a crash",
			"fake-PoW engine; in-memory database underneath",
		},
	})
}

var headBlockKey = []byte("LastBlock")

type history struct {
	tr      *gen.Tree
	batches []gen.Batch
	restart []bool // restart[i]: the node is stopped cleanly and reopened before batch i
	cache   string
	name    string
}

func cacheOf(kind string) *core.CacheConfig {
	if kind == "pruning" {
		return gen.Pruning()
	}
	return gen.Archive()
}

// run executes the history on a recording database; failAt < 0 is the crash-free run.
type runResult struct {
	db        *faultdb.DB
	died      string   // non-empty: the node died (log.Crit / panic) with this message
	deadlock  string   // non-empty: goroutine dump of a hang
	bounds    []int    // number of applied steps after each InsertChain call and after Stop
	insertErr []string // errors returned by InsertChain
	finalHead common.Hash
	stopFrom  int // applied steps when Stop began
}

var critCh = make(chan string, 64)

func withWatchdog(d time.Duration, f func()) (dump string, panicked interface{}) {
	for len(critCh) > 0 { // a death reported by a background goroutine of an abandoned node
		<-critCh
	}
	done := make(chan interface{}, 1)
	go func() {
		defer func() { done <- recover() }()
		f()
	}()
	select {
	case p := <-done:
		return "", p
	case msg := <-critCh:
		return "", log.VerifCritPanic{Msg: msg}
	case <-time.After(d):
		buf := make([]byte, 1<<20)
		n := runtime.Stack(buf, true)
		return string(buf[:n]), nil
	}
}

func run(h *history, failAt int) *runResult {
	core.VerifResetGlobals()
	db := faultdb.New()
	res := &runResult{db: db}
	n, err := gen.NewNode(db, h.tr.B.Genesis, cacheOf(h.cache), nil)
	if err != nil {
		res.died = "open: " + err.Error()
		return res
	}
	db.StartRecording()
	db.FailAt(failAt)
	for bi, b := range h.batches {
		if bi < len(h.restart) && h.restart[bi] {
			// a clean stop and a new process in the middle of the history (a pruning node then holds
			// only the flushed states; later side blocks are stored unexecuted)
			var rerr error
			dump, p := withWatchdog(60*time.Second, func() {
				n.Chain.Stop()
				core.VerifResetGlobals()
				n, rerr = gen.NewNode(db, h.tr.B.Genesis, cacheOf(h.cache), nil)
			})
			if dump != "" {
				res.deadlock = dump
				return res
			}
			if p != nil || rerr != nil {
				res.died = fmt.Sprint("restart: ", p, rerr)
				res.bounds = append(res.bounds, db.Steps())
				return res
			}
		}
		var ierr error
		dump, p := withWatchdog(60*time.Second, func() { _, ierr = n.Chain.InsertChain(b.Blocks()) })
		if dump != "" {
			res.deadlock = dump
			return res
		}
		if p != nil {
			res.died = fmt.Sprint(p)
			res.bounds = append(res.bounds, db.Steps())
			return res
		}
		if ierr != nil {
			res.insertErr = append(res.insertErr, ierr.Error())
		}
		res.bounds = append(res.bounds, db.Steps())
	}
	res.stopFrom = db.Steps()
	res.finalHead = n.Chain.CurrentBlock().Hash()
	dump, p := withWatchdog(30*time.Second, func() { n.Chain.Stop() })
	if dump != "" {
		res.deadlock = dump
		return res
	}
	if p != nil {
		res.died = fmt.Sprint(p)
	}
	res.bounds = append(res.bounds, db.Steps())
	return res
}

// lastHead returns the hash most recently stored under the head-block key within the first k steps.
func lastHead(steps []faultdb.Step, k int, genesis common.Hash) common.Hash {
	h := genesis
	for _, s := range steps[:k] {
		for _, e := range s.Entries {
			if !e.Del && bytes.Equal(e.Key, headBlockKey) {
				h = common.BytesToHash(e.Value)
			}
		}
	}
	return h
}

func stateComplete(img aquadb.Database, root common.Hash) (*gen.WorldState, error) {
	w, err := gen.WalkState(trie.NewDatabase(img), root)
	if err != nil {
		return nil, err
	}
	rr, err := w.RefRoot()
	if err != nil {
		return nil, err
	}
	if rr != root {
		return nil, fmt.Errorf("content of %x re-roots to %x", root, rr)
	}
	return w, nil
}

// judge reopens one database image and checks every clause. what names the image.
func judge(h *history, img *aquadb.MemDatabase, steps []faultdb.Step, k int, finalTD *gen.TNode, what string) (violation string, labels []string) {
	tr := h.tr
	genesisHash := tr.Root.Block.Hash()
	eHash := lastHead(steps, k, genesisHash)
	E := tr.ByHash[eHash]
	if E == nil {
		return fmt.Sprintf("%s: the head-block key names %x, which is not a block of the history", what, eHash), nil
	}
	// independent view of the image before the node touches it
	expected := E
	if h.cache == "pruning" {
		for x := E; x != nil; x = x.Parent {
			if _, err := stateComplete(img, x.Block.Root()); err == nil {
				expected = x
				break
			}
		}
	}
	// (e) closure: a state root present on disk has its whole trie on disk
	for _, nd := range tr.Nodes {
		if has, _ := img.Has(nd.Block.Root().Bytes()); has {
			if _, err := stateComplete(img, nd.Block.Root()); err != nil {
				return fmt.Sprintf("%s: the state root of block #%d is on disk but its trie is not complete: %v", what, nd.Index, err), nil
			}
			labels = append(labels, "closure-checked")
		}
	}
	// (a) reopen
	var bc *core.BlockChain
	var oerr error
	dump, p := withWatchdog(60*time.Second, func() {
		bc, oerr = core.NewBlockChain(context.Background(), img, cacheOf(h.cache), tr.B.Config, aquahash.NewFaker(), vm.Config{})
	})
	if dump != "" {
		return fmt.Sprintf("%s: reopening hangs\n%s", what, dump), nil
	}
	if p != nil {
		return fmt.Sprintf("%s: reopening the database panics: %v (head-block key names block #%d)", what, p, E.Index), nil
	}
	if oerr != nil {
		return fmt.Sprintf("%s: reopening the database fails: %v", what, oerr), nil
	}
	defer bc.Stop()
	// (b) the head
	got := tr.ByHash[bc.CurrentBlock().Hash()]
	if got == nil {
		return fmt.Sprintf("%s: reopened head %x is not a block of the history", what, bc.CurrentBlock().Hash()), nil
	}
	if got != expected {
		return fmt.Sprintf("%s: reopened node exposes block #%d (height %d) as head; the last head made before the crash was #%d (height %d)%s", what, got.Index, got.Height, E.Index, E.Height,
			map[bool]string{true: fmt.Sprintf(", whose nearest ancestor with flushed state is #%d", expected.Index), false: ""}[h.cache == "pruning"]), nil
	}
	if expected != finalTD {
		labels = append(labels, "image-head-is-not-final-head")
	}
	// (c) complete state at the head
	if _, err := stateComplete(img, got.Block.Root()); err != nil {
		return fmt.Sprintf("%s: state of the reopened head #%d is not fully readable: %v", what, got.Index, err), nil
	}
	// (d) number index agrees with the head's ancestry
	for x := got; x != nil; x = x.Parent {
		hd := bc.GetHeaderByNumber(x.Height)
		if hd == nil || hd.Hash() != x.Block.Hash() {
			at := "nothing"
			if hd != nil {
				at = fmt.Sprintf("block #%d", idxOf(tr.ByHash[hd.Hash()]))
			}
			return fmt.Sprintf("%s: after reopening, height %d maps to %s, not to the head #%d's ancestor #%d (header head is #%d)\nlast write steps: %s", what, x.Height, at, got.Index, x.Index, idxOf(tr.ByHash[bc.CurrentHeader().Hash()]), tail(tr, steps, k)), nil
		}
		if bc.GetBlockByNumber(x.Height) == nil {
			return fmt.Sprintf("%s: after reopening, the body of canonical block #%d is missing", what, x.Index), nil
		}
	}
	// (f) feeding the original blocks again converges to the crash-free head. The batches come in their
	// original order for even images and latest-first for odd ones (a batch is offered as soon as the block
	// it builds on is there): peers re-announce branches in no particular order.
	order := h.batches
	if k%2 == 1 {
		order = nil
		fed := map[int]bool{}
		for len(order) < len(h.batches) {
			progress := false
			for i := len(h.batches) - 1; i >= 0; i-- {
				if fed[i] {
					continue
				}
				par := h.batches[i][0].Parent
				linkable := bc.GetBlock(par.Block.Hash(), par.Height) != nil // header and body (a crash can leave a block half written)
				for j := range h.batches {
					if fed[j] && h.batches[j][len(h.batches[j])-1] == par {
						linkable = true
					}
				}
				if linkable {
					fed[i], progress = true, true
					order = append(order, h.batches[i])
					break
				}
			}
			if !progress { // cannot happen for a parent-closed history; fall back to the original order
				order = h.batches
				break
			}
		}
		labels = append(labels, "refeed-latest-first")
	}
	for i, b := range order {
		var ierr error
		dump, p := withWatchdog(60*time.Second, func() { _, ierr = bc.InsertChain(b.Blocks()) })
		if dump != "" {
			return fmt.Sprintf("%s: re-feeding batch %d hangs\n%s", what, i, dump), nil
		}
		if p != nil {
			return fmt.Sprintf("%s: re-feeding batch %d panics: %v", what, i, p), nil
		}
		if ierr != nil {
			dbg := fmt.Sprintf(" [order:")
			for _, ob := range order {
				dbg += fmt.Sprintf(" #%d+%d", ob[0].Index, len(ob))
			}
			dbg += fmt.Sprintf("; head now #%d, header head #%d; image head-block key #%d, reopened head was #%d]", idxOf(tr.ByHash[bc.CurrentBlock().Hash()]), idxOf(tr.ByHash[bc.CurrentHeader().Hash()]), E.Index, got.Index)
			for _, nd := range tr.Nodes {
				dbg += fmt.Sprintf(" #%d:blk=%v,state=%v", nd.Index, bc.GetBlock(nd.Block.Hash(), nd.Height) != nil, bc.HasState(nd.Block.Root()))
			}
			return fmt.Sprintf("%s: re-feeding batch %d (blocks #%d..) is refused: %v%s", what, i, b[0].Index, ierr, dbg), nil
		}
	}
	end := tr.ByHash[bc.CurrentBlock().Hash()]
	if end == nil || end.TD.Cmp(finalTD.TD) != 0 {
		return fmt.Sprintf("%s: after re-feeding all blocks the head is #%d, the crash-free run ended at #%d", what, idxOf(end), finalTD.Index), nil
	}
	labels = append(labels, "refeed-converged")
	return "", labels
}

func idxOf(n *gen.TNode) int {
	if n == nil {
		return -1
	}
	return n.Index
}

func drawHistory(t *rapid.T, big bool) *history {
	nc := gen.ConfigByName(rapid.SampledFrom([]string{"steep", "steep", "all-at-0", "test-hf1-7"}).Draw(t, "config"))
	opts := gen.TreeOpts{MaxBranches: 3, MaxDepth: 6, MinMain: 3, MaxTxs: 2, Rivals: true, TimeDeltas: []int64{1, 13, 240, 3000},
		Kinds: []string{"transfer", "store-set", "store-clear", "multistore", "emit", "create", "create", "touch-created", "touch-created", "suicide", "bouncer"}}
	if big {
		opts.MaxBranches, opts.MaxDepth = 2, 4
	}
	tr := gen.DrawTree(t, nc, opts)
	h := &history{tr: tr, cache: rapid.SampledFrom([]string{"archive", "pruning"}).Draw(t, "cache")}
	h.batches = gen.DrawHistory(t, tr, 4, true)
	var sb strings.Builder
	for i, b := range h.batches {
		r := i > 0 && rapid.IntRange(0, 4).Draw(t, "restartbefore") == 0
		h.restart = append(h.restart, r)
		if r {
			sb.WriteString("RESTART ")
		}
		fmt.Fprintf(&sb, "#%d+%d ", b[0].Index, len(b))
	}
	h.name = fmt.Sprintf("%s/%s/%s| %s", nc.Name, h.cache, strings.Join(tr.Describe(), ";"), sb.String())
	return h
}

// classify says where in the run step k lies.
func classify(res *runResult, steps []faultdb.Step, k int) (labels []string, nontrivial bool) {
	onBoundary := k == 0
	for _, b := range res.bounds {
		if k == b {
			onBoundary = true
		}
	}
	if k >= res.stopFrom && k < len(steps) {
		if !onBoundary {
			labels = append(labels, "crash-inside-stop-flush")
		}
	} else if !onBoundary {
		labels = append(labels, "crash-inside-import")
		// inside a reorganisation: the batch in which this step lies re-points an already used height
		lo := 0
		for _, b := range res.bounds {
			if b <= k {
				lo = b
			}
		}
		canon := 0
		for _, s := range steps[lo:k] {
			for _, e := range s.Entries {
				if bytes.Equal(e.Key, headBlockKey) {
					canon++
				}
			}
		}
		if canon >= 2 {
			labels = append(labels, "crash-inside-reorg")
		}
	}
	return labels, !onBoundary
}

func TestCrashAndFaultEnumeration(t *testing.T) {
	ev.Check(t, ev.N(24, 480), func(t *rapid.T) {
		h := drawHistory(t, false)
		defer h.tr.Close()
		enumerate(t, h)
	})
}

// TestCrashWhileSideBranchOvertakes: the same enumeration over a directed shape:
// a pruning node imports the slow main branch, is restarted (it then holds only
// the flushed states), and receives a faster rival branch that forks near the
// root piece by piece: its first blocks are stored unexecuted as side blocks,
// the last ones make it win and the whole branch is executed. Every write step
// of that is a crash point and a fault point.
func TestCrashWhileSideBranchOvertakes(t *testing.T) {
	ev.Check(t, ev.N(8, 160), func(t *rapid.T) {
		nc := gen.ConfigByName("steep")
		tr := gen.DrawTree(t, nc, gen.TreeOpts{MaxBranches: 2, MaxDepth: 7, MinMain: 5, MaxTxs: 2, ForceRival: true, TimeDeltas: []int64{1, 13, 240, 3000},
			Kinds: []string{"transfer", "store-set", "store-clear", "create", "touch-created", "emit"}})
		defer tr.Close()
		var main, rival gen.Batch
		for _, nd := range tr.Nodes[1:] {
			if nd.Branch == 0 {
				main = append(main, nd)
			} else {
				rival = append(rival, nd)
			}
		}
		if len(rival) < 2 {
			t.Skip("the rival branch is a single block")
		}
		h := &history{tr: tr, cache: "pruning"}
		cut := rapid.IntRange(1, len(main)).Draw(t, "maincut")
		h.batches = append(h.batches, main[:cut])
		h.restart = append(h.restart, false)
		if cut < len(main) {
			h.batches = append(h.batches, main[cut:])
			h.restart = append(h.restart, false)
		}
		for first := true; len(rival) > 0; first = false {
			k := rapid.IntRange(1, 2).Draw(t, "rivalpiece")
			if k > len(rival) {
				k = len(rival)
			}
			h.batches = append(h.batches, rival[:k])
			h.restart = append(h.restart, first || rapid.IntRange(0, 5).Draw(t, "restartagain") == 0)
			rival = rival[k:]
		}
		var sb strings.Builder
		for i, b := range h.batches {
			if h.restart[i] {
				sb.WriteString("RESTART ")
			}
			fmt.Fprintf(&sb, "#%d+%d ", b[0].Index, len(b))
		}
		h.name = fmt.Sprintf("%s/%s/%s| %s", nc.Name, h.cache, strings.Join(tr.Describe(), ";"), sb.String())
		ev.Label("directed:side-branch-overtakes-after-restart")
		enumerate(t, h)
	})
}

func enumerate(t *rapid.T, h *history) {
	base := run(h, -1)
	if base.deadlock != "" || base.died != "" {
		t.Fatalf("the crash-free run itself failed: %s %s", base.died, base.deadlock)
	}
	if len(base.insertErr) > 0 {
		t.Fatalf("the crash-free run refused valid blocks: %v", base.insertErr)
	}
	steps := base.db.Log()
	final := h.tr.ByHash[base.finalHead]
	lbl := []string{h.cache}
	reorg := false
	prev := h.tr.Root
	for k := 0; k <= len(steps); k++ {
		if e := h.tr.ByHash[lastHead(steps, k, h.tr.Root.Block.Hash())]; e != nil && e != prev {
			if !gen.IsAncestor(prev, e) {
				reorg = true
			}
			prev = e
		}
	}
	if reorg {
		lbl = append(lbl, "history-with-reorg")
	}
	for _, nd := range h.tr.Nodes[1:] {
		for _, k := range nd.TxKinds {
			if k == "store-set" || k == "multistore" || k == "create" {
				lbl = append(lbl, "history-with-storage-contract")
			}
		}
	}
	for _, r := range h.restart {
		if r {
			lbl = append(lbl, "history-with-restart")
			break
		}
	}
	ev.Label(lbl...)
	// crash enumeration: every prefix
	for k := 0; k <= len(steps); k++ {
		img := base.db.Image(k)
		what := fmt.Sprintf("history {%s} crash after write step %d of %d", h.name, k, len(steps))
		viol, labels := judge(h, img, steps, k, final, what)
		if viol != "" {
			t.Fatalf("%s", viol)
		}
		cl, nt := classify(base, steps, k)
		ev.Case(nt, []byte(fmt.Sprintf("%s|crash|%d", h.name, k)), append(labels, cl...)...)
	}
	ev.Exhaustive("every prefix of the recorded write log of each generated history (crash images)")
	ev.Sample(map[string]interface{}{"history": h.name, "write_steps": len(steps), "batches": len(h.batches), "final_head": final.Index})
	// fault enumeration
	for k := 0; k < len(steps); k++ {
		isBatch := steps[k].Batch
		if !ev.Thorough() && !isBatch && rapid.IntRange(0, 7).Draw(t, "samplefault") != 0 {
			continue
		}
		res := run(h, k)
		what := fmt.Sprintf("history {%s} with write step %d of %d failing (%s)", h.name, k, len(steps), map[bool]string{true: "batch write", false: "single put"}[isBatch])
		if res.deadlock != "" {
			t.Fatalf("%s: the node hangs afterwards\n%s", what, res.deadlock)
		}
		flog := res.db.Log()
		fl := []string{"fault:" + map[bool]string{true: "batch-write", false: "single-put"}[isBatch]}
		if res.died != "" {
			fl = append(fl, "fault:node-died(log.Crit)")
		}
		viol, labels := judge(h, res.db.Image(len(flog)), flog, len(flog), final, what)
		if viol != "" {
			t.Fatalf("%s", viol)
		}
		ev.Case(true, []byte(fmt.Sprintf("%s|fault|%d", h.name, k)), append(labels, fl...)...)
	}
}

// TestBigStateFlush: a pruning node whose shutdown flush carries more than one
// write batch of hash preimages (a storage-heavy contract), with every write
// step of the flush failing in turn.
func TestBigStateFlush(t *testing.T) {
	ev.Check(t, ev.N(1, 16), func(t *rapid.T) {
		nc := gen.ConfigByName("all-at-0")
		g := gen.Genesis(nc.Config, 400_000_000)
		b, err := gen.NewBuilder(g)
		if err != nil {
			t.Fatal(err)
		}
		tr := &gen.Tree{B: b, ByHash: map[common.Hash]*gen.TNode{}}
		root := &gen.TNode{Block: b.Chain.Genesis(), TD: b.Chain.Genesis().Difficulty()}
		tr.Root, tr.Nodes = root, []*gen.TNode{root}
		tr.ByHash[root.Block.Hash()] = root
		defer tr.Close()
		parent := root
		nblocks := rapid.IntRange(2, 3).Draw(t, "nblocks")
		for i := 0; i < nblocks; i++ {
			var txs []*types.Transaction
			if i == 0 {
				n := uint64(rapid.IntRange(3300, 3600).Draw(t, "slots"))
				data := gen.Cat(gen.Word(1000), gen.Word(n), gen.Word(7))
				to := gen.AddrMultiStore
				txs = append(txs, gen.SignedTx(nc.Config, common.Big1, gen.Keys[0], 0, &to, common.Big0, gen.Intrinsic(data, false)+n*20300+50000, common.Big1, data))
			}
			built, err := b.Build(parent.Block, gen.BlockSpec{Coinbase: gen.Keys[5].Addr, Txs: txs, TimeDelta: 13})
			if err != nil {
				t.Fatal(err)
			}
			if i == 0 && (len(built.Block.Transactions()) != 1 || built.Receipts[0].Status != types.ReceiptStatusSuccessful) {
				t.Fatalf("storage-heavy transaction did not execute (skipped: %v)", built.SkippedTxs)
			}
			nd := &gen.TNode{Block: built.Block, Receipts: built.Receipts, Parent: parent, Height: parent.Height + 1, Index: len(tr.Nodes)}
			nd.TD = nd.Block.Difficulty()
			nd.TD.Add(nd.TD, parent.TD)
			parent.Children = append(parent.Children, nd)
			tr.Nodes = append(tr.Nodes, nd)
			tr.ByHash[nd.Block.Hash()] = nd
			parent = nd
		}
		h := &history{tr: tr, cache: "pruning", name: fmt.Sprintf("big-state/%d blocks", nblocks)}
		for _, nd := range tr.Nodes[1:] {
			h.batches = append(h.batches, gen.Batch{nd})
		}
		ev.Label("big-state-flush")
		enumerate(t, h)
	})
}

// tail renders the last write steps before k for failure messages.
func tail(tr *gen.Tree, steps []faultdb.Step, k int) string {
	var out []string
	lo := k - 16
	if lo < 0 {
		lo = 0
	}
	for i := lo; i < k; i++ {
		var es []string
		for _, e := range steps[i].Entries {
			key := fmt.Sprintf("%x", e.Key)
			switch {
			case bytes.HasPrefix(e.Key, []byte("Last")):
				key = string(e.Key)
			case len(e.Key) == 10 && e.Key[0] == 'h' && e.Key[9] == 'n':
				key = fmt.Sprintf("canon(%d)", new(big.Int).SetBytes(e.Key[1:9]).Uint64())
			case len(e.Key) > 9 && (e.Key[0] == 'h' || e.Key[0] == 'b' || e.Key[0] == 'r'):
				key = fmt.Sprintf("%c(%d,#%d)%s", e.Key[0], new(big.Int).SetBytes(e.Key[1:9]).Uint64(), idxOf(tr.ByHash[common.BytesToHash(e.Key[9:41])]), string(e.Key[41:]))
			case len(e.Key) == 32:
				key = "node"
			case e.Key[0] == 'l':
				key = "txlookup"
			}
			v := ""
			if len(e.Value) == 32 {
				if n := tr.ByHash[common.BytesToHash(e.Value)]; n != nil {
					v = fmt.Sprintf("=#%d", n.Index)
				}
			}
			if e.Del {
				v = " DEL"
			}
			es = append(es, key+v)
		}
		if len(es) > 6 {
			es = append(es[:6], fmt.Sprintf("…(%d entries)", len(steps[i].Entries)))
		}
		out = append(out, fmt.Sprintf("[%d] %s", i, strings.Join(es, ",")))
	}
	return strings.Join(out, "\n  ")
}
