package c04

import (
	"fmt"
	"strings"
	"testing"

	"pgregory.net/rapid"
	"verifharness/ev"
	"verifharness/gen"
)

// TestStopAndReopen: longer, contract-heavy histories (contracts deployed in
// one block and used again blocks later) on pruning and archive nodes, judged
// at the images of a clean shutdown and of every crash point inside the
// shutdown flush only. Cheap per history, so many more histories than the
// full enumeration can afford.
func TestStopAndReopen(t *testing.T) {
	ev.Check(t, ev.N(60, 1500), func(t *rapid.T) {
		nc := gen.ConfigByName(rapid.SampledFrom([]string{"steep", "all-at-0", "test-hf1-7", "nofork"}).Draw(t, "config"))
		tr := gen.DrawTree(t, nc, gen.TreeOpts{MaxBranches: 2, MaxDepth: 12, MinMain: 5, MaxTxs: 3, TimeDeltas: []int64{1, 13, 240},
			Kinds: []string{"create", "create", "touch-created", "touch-created", "touch-created", "creator", "store-set", "store-clear", "multistore", "suicide", "transfer", "call-loop"}})
		defer tr.Close()
		h := &history{tr: tr, cache: rapid.SampledFrom([]string{"pruning", "pruning", "pruning", "archive"}).Draw(t, "cache")}
		h.batches = gen.DrawHistory(t, tr, 6, true)
		var sb strings.Builder
		for i, b := range h.batches {
			r := i > 0 && rapid.IntRange(0, 3).Draw(t, "restartbefore") == 0
			h.restart = append(h.restart, r)
			if r {
				sb.WriteString("RESTART ")
			}
			fmt.Fprintf(&sb, "#%d+%d ", b[0].Index, len(b))
		}
		h.name = fmt.Sprintf("%s/%s/%s| %s", nc.Name, h.cache, strings.Join(tr.Describe(), ";"), sb.String())
		base := run(h, -1)
		if base.deadlock != "" || base.died != "" {
			t.Fatalf("the crash-free run itself failed: %s %s", base.died, base.deadlock)
		}
		if len(base.insertErr) > 0 {
			t.Fatalf("the crash-free run refused valid blocks: %v", base.insertErr)
		}
		steps := base.db.Log()
		final := h.tr.ByHash[base.finalHead]
		lbl := []string{"stop-leg", "stop-leg:" + h.cache}
		reused := false
		for _, nd := range tr.Nodes[1:] {
			for _, k := range nd.TxKinds {
				if k == "touch-created" {
					reused = true
				}
			}
		}
		if reused {
			lbl = append(lbl, "history-reuses-deployed-contract")
		}
		for k := base.stopFrom; k <= len(steps); k++ {
			what := fmt.Sprintf("history {%s} crash after write step %d of %d (shutdown flush starts at %d)", h.name, k, len(steps), base.stopFrom)
			if k == len(steps) {
				what = fmt.Sprintf("history {%s} after a clean shutdown", h.name)
			}
			viol, labels := judge(h, base.db.Image(k), steps, k, final, what)
			if viol != "" {
				t.Fatalf("%s", viol)
			}
			cl, _ := classify(base, steps, k)
			ev.Case(reused, []byte(fmt.Sprintf("%s|stop|%d", h.name, k)), append(append(labels, cl...), lbl...)...)
		}
	})
}
