// Package refmpt computes the Merkle-Patricia trie root of a key/value map
// directly from the Yellow-Paper definition (appendix D), and verifies Merkle
// proofs independently. It shares no code with /repo/trie.
package refmpt

import (
	"bytes"
	"errors"
	"sort"

	"golang.org/x/crypto/sha3"
	"verifharness/ref/refrlp"
)

func Keccak(b ...[]byte) []byte {
	h := sha3.NewLegacyKeccak256()
	for _, x := range b {
		h.Write(x)
	}
	return h.Sum(nil)
}

// EmptyRoot is keccak(rlp("")).
var EmptyRoot = Keccak([]byte{0x80})

func nibbles(k []byte) []byte {
	n := make([]byte, 0, len(k)*2)
	for _, b := range k {
		n = append(n, b>>4, b&15)
	}
	return n
}

// hexPrefix is HP(x, t).
func hexPrefix(nib []byte, leaf bool) []byte {
	var f byte
	if leaf {
		f = 2
	}
	var out []byte
	if len(nib)%2 == 1 {
		out = append(out, (f+1)<<4|nib[0])
		nib = nib[1:]
	} else {
		out = append(out, f<<4)
	}
	for i := 0; i < len(nib); i += 2 {
		out = append(out, nib[i]<<4|nib[i+1])
	}
	return out
}

type kv struct {
	k []byte // nibbles
	v []byte
}

// node returns the structural composition c(J, i) as an RLP item.
func node(set []kv, i int) refrlp.Item {
	if len(set) == 1 {
		return refrlp.L(refrlp.B(hexPrefix(set[0].k[i:], true)), refrlp.B(set[0].v))
	}
	// longest common prefix beyond i
	j := len(set[0].k)
	for _, e := range set[1:] {
		n := i
		for n < len(e.k) && n < j && e.k[n] == set[0].k[n] {
			n++
		}
		if n < j {
			j = n
		}
	}
	if j > i {
		return refrlp.L(refrlp.B(hexPrefix(set[0].k[i:j], false)), ref(set, j))
	}
	items := make([]refrlp.Item, 17)
	var val []byte
	for nb := 0; nb < 16; nb++ {
		var sub []kv
		for _, e := range set {
			if len(e.k) > i && e.k[i] == byte(nb) {
				sub = append(sub, e)
			}
		}
		if len(sub) == 0 {
			items[nb] = refrlp.B(nil)
		} else {
			items[nb] = ref(sub, i+1)
		}
	}
	for _, e := range set {
		if len(e.k) == i {
			val = e.v
		}
	}
	items[16] = refrlp.B(val)
	return refrlp.L(items...)
}

// ref is n(J, i): the node itself if its RLP is shorter than 32 bytes, else its hash.
func ref(set []kv, i int) refrlp.Item {
	if len(set) == 0 {
		return refrlp.B(nil)
	}
	n := node(set, i)
	enc := refrlp.Encode(n)
	if len(enc) < 32 {
		return n
	}
	return refrlp.B(Keccak(enc))
}

// Root returns the trie root of content (byte-string keys; empty values are
// treated as absent).
func Root(content map[string][]byte) []byte {
	var set []kv
	for k, v := range content {
		if len(v) == 0 {
			continue
		}
		set = append(set, kv{nibbles([]byte(k)), v})
	}
	if len(set) == 0 {
		return EmptyRoot
	}
	sort.Slice(set, func(a, b int) bool { return bytes.Compare(set[a].k, set[b].k) < 0 })
	return Keccak(refrlp.Encode(node(set, 0)))
}

// RootList is the root of the trie mapping rlp(index) -> item for an ordered list.
func RootList(items [][]byte) []byte {
	m := map[string][]byte{}
	for i, it := range items {
		m[string(refrlp.Encode(refrlp.U(uint64(i))))] = it
	}
	return Root(m)
}

var ErrBadProof = errors.New("refmpt: invalid proof")

func unhex(b []byte) (nib []byte, leaf bool, err error) {
	if len(b) == 0 {
		return nil, false, ErrBadProof
	}
	f := b[0] >> 4
	if f > 3 {
		return nil, false, ErrBadProof
	}
	leaf = f&2 != 0
	if f&1 == 1 {
		nib = append(nib, b[0]&15)
	} else if b[0]&15 != 0 {
		return nil, false, ErrBadProof
	}
	for _, x := range b[1:] {
		nib = append(nib, x>>4, x&15)
	}
	return nib, leaf, nil
}

// ProofCheck walks nodes (looked up by their keccak hash) from root along key
// and returns the value, or nil if the proof shows the key is absent. It
// returns an error if a needed node is missing or malformed.
func ProofCheck(root []byte, key []byte, nodes [][]byte) ([]byte, error) {
	db := map[string][]byte{}
	for _, n := range nodes {
		db[string(Keccak(n))] = n
	}
	path := nibbles(key)
	enc, ok := db[string(root)]
	if !ok {
		return nil, ErrBadProof
	}
	it, err := refrlp.DecodeExact(enc)
	if err != nil {
		return nil, ErrBadProof
	}
	for {
		if !it.IsList {
			return nil, ErrBadProof
		}
		var next refrlp.Item
		switch len(it.List) {
		case 2:
			if it.List[0].IsList {
				return nil, ErrBadProof
			}
			nib, leaf, err := unhex(it.List[0].Bytes)
			if err != nil {
				return nil, err
			}
			if leaf {
				if bytes.Equal(nib, path) {
					if it.List[1].IsList {
						return nil, ErrBadProof
					}
					return it.List[1].Bytes, nil
				}
				return nil, nil
			}
			if len(path) < len(nib) || !bytes.Equal(nib, path[:len(nib)]) {
				return nil, nil
			}
			path = path[len(nib):]
			next = it.List[1]
		case 17:
			if len(path) == 0 {
				if it.List[16].IsList {
					return nil, ErrBadProof
				}
				if len(it.List[16].Bytes) == 0 {
					return nil, nil
				}
				return it.List[16].Bytes, nil
			}
			next = it.List[path[0]]
			path = path[1:]
		default:
			return nil, ErrBadProof
		}
		if next.IsList {
			it = next // embedded node
			continue
		}
		if len(next.Bytes) == 0 {
			return nil, nil
		}
		if len(next.Bytes) != 32 {
			return nil, ErrBadProof
		}
		enc, ok := db[string(next.Bytes)]
		if !ok {
			return nil, ErrBadProof
		}
		it, err = refrlp.DecodeExact(enc)
		if err != nil {
			return nil, ErrBadProof
		}
	}
}
