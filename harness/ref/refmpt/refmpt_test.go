package refmpt

import (
	"encoding/hex"
	"testing"
)

func TestVectors(t *testing.T) {
	// vectors from the ethereum trie tests ("dogs", "puppy", "foo")
	got := hex.EncodeToString(Root(map[string][]byte{"doe": []byte("reindeer"), "dog": []byte("puppy"), "dogglesworth": []byte("cat")}))
	if got != "8aad789dff2f538bca5d8ea56e8abe10f4c7ba3a5dea95fea4cd6e7c3a1168d3" {
		t.Fatal(got)
	}
	got = hex.EncodeToString(Root(map[string][]byte{"A": []byte("aaaaaaaaaaaaaaaaaaaaaaaaaaaaaaaaaaaaaaaaaaaaaaaaaa")}))
	if got != "d23786fb4a010da3ce639d66d5e904a11dbc02746d1ce25029e53290cabf28ab" {
		t.Fatal(got)
	}
	if hex.EncodeToString(EmptyRoot) != "56e81f171bcc55a6ff8345e692c0f86e5b48e01b996cadc001622fb5e363b421" {
		t.Fatal("empty")
	}
	got = hex.EncodeToString(Root(map[string][]byte{"do": []byte("verb"), "horse": []byte("stallion"), "doge": []byte("coin"), "dog": []byte("puppy")}))
	if got != "5991bb8c6514148a29db676a14ac506cd2cd5775ace63c30a4fe457715e9ac84" {
		t.Fatal(got)
	}
}
