// Package refrlp is a strict reference implementation of canonical RLP over an
// abstract item type, written from the RLP grammar (Yellow Paper appendix B).
// It shares no code with /repo/rlp.
package refrlp

import (
	"errors"
	"math/big"
)

// Item is either a byte string (List == nil && !IsList) or a list.
type Item struct {
	IsList bool
	Bytes  []byte
	List   []Item
}

func B(b []byte) Item     { return Item{Bytes: append([]byte{}, b...)} }
func L(items ...Item) Item { return Item{IsList: true, List: items} }

// U encodes an unsigned integer as a minimal big-endian byte string.
func U(v uint64) Item {
	var b []byte
	for v > 0 {
		b = append([]byte{byte(v)}, b...)
		v >>= 8
	}
	return Item{Bytes: b}
}

// Big encodes a non-negative big integer as minimal big-endian bytes.
func Big(v *big.Int) Item {
	if v == nil {
		return Item{}
	}
	return Item{Bytes: v.Bytes()}
}

func be(n int) []byte {
	var b []byte
	for n > 0 {
		b = append([]byte{byte(n)}, b...)
		n >>= 8
	}
	return b
}

func head(short, long byte, n int) []byte {
	if n < 56 {
		return []byte{short + byte(n)}
	}
	l := be(n)
	return append([]byte{long + byte(len(l))}, l...)
}

// Encode returns the canonical encoding of it.
func Encode(it Item) []byte {
	if !it.IsList {
		if len(it.Bytes) == 1 && it.Bytes[0] < 0x80 {
			return []byte{it.Bytes[0]}
		}
		return append(head(0x80, 0xb7, len(it.Bytes)), it.Bytes...)
	}
	var body []byte
	for _, c := range it.List {
		body = append(body, Encode(c)...)
	}
	return append(head(0xc0, 0xf7, len(body)), body...)
}

var (
	ErrEmpty        = errors.New("refrlp: empty input")
	ErrTruncated    = errors.New("refrlp: truncated")
	ErrNonCanonical = errors.New("refrlp: non-canonical")
	ErrTrailing     = errors.New("refrlp: trailing bytes")
	ErrTooBig       = errors.New("refrlp: length overflows")
)

// readLen reads an n-byte big-endian length, rejecting leading zeros and
// values below 56.
func readLen(b []byte, n int) (int, error) {
	if len(b) < n {
		return 0, ErrTruncated
	}
	if b[0] == 0 {
		return 0, ErrNonCanonical
	}
	if n > 8 {
		return 0, ErrTooBig
	}
	var v uint64
	for i := 0; i < n; i++ {
		v = v<<8 | uint64(b[i])
	}
	if v < 56 {
		return 0, ErrNonCanonical
	}
	if v > 1<<62 {
		return 0, ErrTooBig
	}
	return int(v), nil
}

// Decode decodes exactly one item from the front of b and returns the rest.
func Decode(b []byte) (Item, []byte, error) {
	if len(b) == 0 {
		return Item{}, nil, ErrEmpty
	}
	t := b[0]
	switch {
	case t < 0x80:
		return Item{Bytes: []byte{t}}, b[1:], nil
	case t <= 0xb7:
		n := int(t - 0x80)
		if len(b)-1 < n {
			return Item{}, nil, ErrTruncated
		}
		if n == 1 && b[1] < 0x80 {
			return Item{}, nil, ErrNonCanonical
		}
		return Item{Bytes: append([]byte{}, b[1:1+n]...)}, b[1+n:], nil
	case t <= 0xbf:
		ll := int(t - 0xb7)
		n, err := readLen(b[1:], ll)
		if err != nil {
			return Item{}, nil, err
		}
		if len(b)-1-ll < n {
			return Item{}, nil, ErrTruncated
		}
		return Item{Bytes: append([]byte{}, b[1+ll:1+ll+n]...)}, b[1+ll+n:], nil
	case t <= 0xf7:
		n := int(t - 0xc0)
		if len(b)-1 < n {
			return Item{}, nil, ErrTruncated
		}
		items, err := decodeList(b[1 : 1+n])
		if err != nil {
			return Item{}, nil, err
		}
		return Item{IsList: true, List: items}, b[1+n:], nil
	default:
		ll := int(t - 0xf7)
		n, err := readLen(b[1:], ll)
		if err != nil {
			return Item{}, nil, err
		}
		if len(b)-1-ll < n {
			return Item{}, nil, ErrTruncated
		}
		items, err := decodeList(b[1+ll : 1+ll+n])
		if err != nil {
			return Item{}, nil, err
		}
		return Item{IsList: true, List: items}, b[1+ll+n:], nil
	}
}

func decodeList(b []byte) ([]Item, error) {
	items := []Item{}
	for len(b) > 0 {
		it, rest, err := Decode(b)
		if err != nil {
			return nil, err
		}
		items = append(items, it)
		b = rest
	}
	return items, nil
}

// DecodeExact decodes b as exactly one item with no trailing bytes.
func DecodeExact(b []byte) (Item, error) {
	it, rest, err := Decode(b)
	if err != nil {
		return Item{}, err
	}
	if len(rest) != 0 {
		return Item{}, ErrTrailing
	}
	return it, nil
}

// Equal reports deep equality of two items.
func Equal(a, b Item) bool {
	if a.IsList != b.IsList {
		return false
	}
	if !a.IsList {
		if len(a.Bytes) != len(b.Bytes) {
			return false
		}
		for i := range a.Bytes {
			if a.Bytes[i] != b.Bytes[i] {
				return false
			}
		}
		return true
	}
	if len(a.List) != len(b.List) {
		return false
	}
	for i := range a.List {
		if !Equal(a.List[i], b.List[i]) {
			return false
		}
	}
	return true
}

// Depth returns the nesting depth (0 for a string).
func Depth(a Item) int {
	if !a.IsList {
		return 0
	}
	d := 0
	for _, c := range a.List {
		if x := Depth(c); x > d {
			d = x
		}
	}
	return d + 1
}

// SplitHead parses only the header of the first item of b, validating
// canonical form of the header (and the single-byte rule), not nested content.
// kind: 0 = string, 1 = list.
func SplitHead(b []byte) (isList bool, content, rest []byte, err error) {
	if len(b) == 0 {
		return false, nil, nil, ErrEmpty
	}
	t := b[0]
	var hl, n int
	switch {
	case t < 0x80:
		return false, b[:1], b[1:], nil
	case t <= 0xb7:
		hl, n = 1, int(t-0x80)
	case t <= 0xbf:
		ll := int(t - 0xb7)
		n, err = readLen(b[1:], ll)
		hl = 1 + ll
	case t <= 0xf7:
		isList, hl, n = true, 1, int(t-0xc0)
	default:
		ll := int(t - 0xf7)
		n, err = readLen(b[1:], ll)
		isList, hl = true, 1+ll
	}
	if err != nil {
		return false, nil, nil, err
	}
	if len(b)-hl < n {
		return false, nil, nil, ErrTruncated
	}
	if !isList && t <= 0xb7 && n == 1 && b[1] < 0x80 {
		return false, nil, nil, ErrNonCanonical
	}
	return isList, b[hl : hl+n], b[hl+n:], nil
}
