// Package faultdb is a recording, crash-image producing and fault-injecting
// aquadb.Database. Every atomic write step (a single Put, a single Delete, one
// Batch.Write with all its entries) is appended to a log. Image(k) is the
// database as it would be on disk had the process died between step k-1 and
// step k (batches are atomic and steps are durable in order). FailAt makes one
// step return an error instead of being applied.
package faultdb

import (
	"errors"
	"sync"

	"gitlab.com/aquachain/aquachain/aquadb"
)

// Entry is one key write or delete.
type Entry struct {
	Key   []byte
	Value []byte
	Del   bool
}

// Step is one atomic write.
type Step struct {
	Batch   bool
	Entries []Entry
}

// ErrInjected is returned by the step selected with FailAt.
var ErrInjected = errors.New("faultdb: injected write failure")

// DB implements aquadb.Database.
type DB struct {
	mu      sync.Mutex
	mem     *aquadb.MemDatabase
	base    map[string][]byte // content before recording started
	steps   []Step
	failAt  int // index of the step that fails (-1: none)
	Failed  bool
	FailedBatch bool
	attempted int // steps attempted (applied + failed)
}

// New wraps a fresh in-memory database. Call StartRecording after seeding it.
func New() *DB {
	return &DB{mem: aquadb.NewMemDatabase(), failAt: -1}
}

// StartRecording snapshots the current content as the base image and clears the log.
func (d *DB) StartRecording() {
	d.mu.Lock()
	defer d.mu.Unlock()
	d.base = map[string][]byte{}
	for _, k := range d.mem.Keys() {
		v, _ := d.mem.Get(k)
		d.base[string(k)] = append([]byte{}, v...)
	}
	d.steps = nil
	d.attempted = 0
}

// FailAt selects the step (by attempt index since StartRecording) that fails.
func (d *DB) FailAt(k int) { d.mu.Lock(); d.failAt = k; d.mu.Unlock() }

// Steps returns the number of applied steps.
func (d *DB) Steps() int { d.mu.Lock(); defer d.mu.Unlock(); return len(d.steps) }

// Log returns the applied steps.
func (d *DB) Log() []Step { d.mu.Lock(); defer d.mu.Unlock(); return append([]Step{}, d.steps...) }

// Image materialises base + the first k applied steps.
func (d *DB) Image(k int) *aquadb.MemDatabase {
	d.mu.Lock()
	defer d.mu.Unlock()
	out := aquadb.NewMemDatabase()
	for key, v := range d.base {
		out.Put([]byte(key), v)
	}
	for _, s := range d.steps[:k] {
		for _, e := range s.Entries {
			if e.Del {
				out.Delete(e.Key)
			} else {
				out.Put(e.Key, e.Value)
			}
		}
	}
	return out
}

func cp(b []byte) []byte { return append([]byte{}, b...) }

// apply runs one step: fails it if selected, otherwise applies and logs it.
func (d *DB) apply(s Step) error {
	d.mu.Lock()
	defer d.mu.Unlock()
	idx := d.attempted
	d.attempted++
	if idx == d.failAt {
		d.Failed = true
		d.FailedBatch = s.Batch
		return ErrInjected
	}
	for _, e := range s.Entries {
		if e.Del {
			d.mem.Delete(e.Key)
		} else {
			d.mem.Put(e.Key, e.Value)
		}
	}
	d.steps = append(d.steps, s)
	return nil
}

func (d *DB) Put(key, value []byte) error {
	return d.apply(Step{Entries: []Entry{{Key: cp(key), Value: cp(value)}}})
}
func (d *DB) Delete(key []byte) error {
	return d.apply(Step{Entries: []Entry{{Key: cp(key), Del: true}}})
}
func (d *DB) Get(key []byte) ([]byte, error) { return d.mem.Get(key) }
func (d *DB) Has(key []byte) (bool, error)   { return d.mem.Has(key) }
func (d *DB) Close()                         {}
func (d *DB) NewBatch() aquadb.Batch         { return &batch{db: d} }

type batch struct {
	db      *DB
	entries []Entry
	size    int
}

func (b *batch) Put(key, value []byte) error {
	b.entries = append(b.entries, Entry{Key: cp(key), Value: cp(value)})
	b.size += len(value)
	return nil
}
func (b *batch) Delete(key []byte) error {
	b.entries = append(b.entries, Entry{Key: cp(key), Del: true})
	b.size++
	return nil
}
func (b *batch) ValueSize() int { return b.size }
func (b *batch) Write() error {
	if len(b.entries) == 0 {
		return nil
	}
	return b.db.apply(Step{Batch: true, Entries: append([]Entry{}, b.entries...)})
}
func (b *batch) Reset() { b.entries, b.size = nil, 0 }
