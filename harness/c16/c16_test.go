// C16 — Log blooms have no false negatives; log queries are exact.
//
// Oracles: refbloom (independent bloom9 bit positions + brute-force matcher),
// brute-force scan of the logs the chain builder produced.
package c16

import (
	"bytes"
	"context"
	"encoding/hex"
	"encoding/json"
	"fmt"
	"math/big"
	"os"
	"sort"
	"strings"
	"testing"
	"time"

	"gitlab.com/aquachain/aquachain/aqua/filters"
	"gitlab.com/aquachain/aquachain/common"
	"gitlab.com/aquachain/aquachain/core/bloombits"
	"gitlab.com/aquachain/aquachain/core/types"
	"pgregory.net/rapid"
	"verifharness/c16/refbloom"
	"verifharness/ev"
	"verifharness/gen"
)

func TestMain(m *testing.M) {
	gen.Quiet()
	if os.Getenv("VERIF_SHRINKTIME") == "" {
		// a failing case re-builds a chain per shrink attempt; four rapid tests may fail at once
		os.Setenv("VERIF_SHRINKTIME", "8s")
	}
	ev.MustHit(
		// the design's must-hit classes
		"range:straddle", "topic:alternatives", "addr:list>1", "range:open-end", "log:4-topics-matched", "empty-on-bloom-positive",
		// further classes the statement quantifies over
		"range:open-begin", "range:one-section", "range:beyond-head", "range:single-block", "path:indexed", "path:unindexed", "path:indexed-only",
		"progress:0", "progress:all", "progress:partial", "size:8", "size:16", "size:64", "topic:wildcard-position", "topic:4-positions",
		"criteria-longer-than-log", "addr:none", "retrieval-dropped", "leg-a:real-exec-block-with-logs", "leg-a:generated", "leg-c:matcher-session",
		"leg-d:index-content", "index:chain-indexer", "chain:real", "chain:synthetic", "result:empty", "result:some", "result:all", "fp-block", "corpus",
		"reorg:during", "reorg:after", "reorg:before-start", "reorg:mid-section-after-fork", "reorg:indexed-above-fork")
	ev.Main(m, ev.Config{
		Property: "C16",
		Level:    "exploration",
		Rule: "a case is one log query (block range, address list, positional topic criteria, section size, index progress, retrieval batch size, dropped-retrieval plan) " +
			"against one chain; chains are (i) 40-300 block synthetic chains whose receipts hold generated logs (0-6 logs per receipt, 0-4 topics, pool and random addresses/topics) written to a node database " +
			"with the node's own writers, and (ii) chains of blocks executed by the node's state processor from generated transactions to the log-emitting contracts; 50-200 queries reuse one chain. " +
			"The bloom-bits index is built with the real Generator/WriteBloomBits for section sizes 8, 16, 64 (and 2048 in the thorough tier). " +
			"(iii) synthetic chains that reorganise under a running core.ChainIndexer before it starts, after it has indexed, or at a chosen canonical-number read in the middle of a section (the harness performs the reorganisation inside that database read and sends the chain events). " +
			"Also counted: generated receipt sets for the pure bloom functions. non-trivial = the brute-force answer is neither empty nor every log of the queried range; " +
			"distinct = hash of (head block hash, section size, progress, range, criteria)",
		Assumptions: []string{
			"refbloom (harness/c16/refbloom) implements the Yellow Paper's M3:2048 bit positions (low 11 bits of the byte pairs (0,1),(2,3),(4,5) of Keccak-256, bit i = 2^i of the big-endian 2048-bit value) and the filter semantics (address OR-list; positional topic OR-sets; empty position = wildcard; more positions than the log has topics = no match)",
			"a query's answer is compared with the logs the chain builder produced (for executed chains: the receipts returned by the state processor), with the derived fields block number/hash, tx hash/index, log index recomputed by the harness",
			"range ends: -1 means the head block; numbers above the head are clipped; begin > end selects nothing; the pending block (-2) is not queried",
			"index progress p is modelled as BloomStatus() = (size, p) over an index that holds at least the first p sections; sections are always complete and canonical (no reorg below the indexed height)",
			"the backend answers bit-vector retrievals like Aquachain.startBloomHandlers (bitutil-compressed vectors keyed by the section's last canonical hash); it never fails a retrieval, it only leaves the first request for some (bit, section) pairs unanswered",
			"a query that has not returned after 120 s is reported as a violation (typical latency is below 5 ms)",
		},
	})
}

// ---------- pools ----------

func hexAddr(s string) common.Address { return common.HexToAddress(s) }

var addrPool = []common.Address{
	hexAddr("0x0000000000000000000000000000000000001003"), hexAddr("0x0000000000000000000000000000000000001007"),
	hexAddr("0x0000000000000000000000000000000000000000"), hexAddr("0xffffffffffffffffffffffffffffffffffffffff"),
	hexAddr("0x095e7baea6a6c7c4c2dfeb977efac326af552d87"), hexAddr("0x00000000000000000000000000000000000000aa"),
	hexAddr("0xaa00000000000000000000000000000000000000"), hexAddr("0x1111111111111111111111111111111111111111"),
}

var topicPool = append(append([]common.Hash{}, gen.TopicPool...),
	common.HexToHash("0xffffffffffffffffffffffffffffffffffffffffffffffffffffffffffffffff"),
	common.HexToHash("0x0000000000000000000000000000000000000000000000000000000000001003"), // an address-looking topic
	common.HexToHash("0x8c5be1e5ebec7d5bd14f71427d1e84f3dd0314c0f7b2291e5b200ac8c7c3b925"),
)

var absentAddrs = []common.Address{hexAddr("0xdeaddeaddeaddeaddeaddeaddeaddeaddeaddead"), hexAddr("0x00000000000000000000000000000000000000ab"), hexAddr("0x2222222222222222222222222222222222222222")}
var absentTopics = []common.Hash{common.HexToHash("0xdead"), common.HexToHash("0x03"), common.HexToHash("0xbb00000000000000000000000000000000000000000000000000000000000000")}

func drawAddr(t *rapid.T, pool []common.Address) common.Address {
	if rapid.IntRange(0, 9).Draw(t, "addrsrc") == 0 {
		return common.BytesToAddress(rapid.SliceOfN(rapid.Byte(), 20, 20).Draw(t, "rawaddr"))
	}
	return rapid.SampledFrom(pool).Draw(t, "pooladdr")
}

func drawTopic(t *rapid.T, pool []common.Hash) common.Hash {
	if rapid.IntRange(0, 9).Draw(t, "topicsrc") == 0 {
		return common.BytesToHash(rapid.SliceOfN(rapid.Byte(), 32, 32).Draw(t, "rawtopic"))
	}
	return rapid.SampledFrom(pool).Draw(t, "pooltopic")
}

func drawLog(t *rapid.T, ap []common.Address, tp []common.Hash) lg {
	l := lg{Addr: drawAddr(t, ap)}
	n := rapid.SampledFrom([]int{0, 1, 1, 2, 2, 3, 3, 4, 4}).Draw(t, "ntopics")
	for i := 0; i < n; i++ {
		l.Topics = append(l.Topics, drawTopic(t, tp))
	}
	l.Data = rapid.SliceOfN(rapid.Byte(), 0, 40).Draw(t, "data")
	return l
}

// drawBlocks draws the receipts of a synthetic chain of n+1 blocks.
func drawBlocks(t *rapid.T, n int) [][][]lg {
	na := rapid.IntRange(2, 5).Draw(t, "npooladdr")
	nt := rapid.IntRange(3, 6).Draw(t, "npooltopic")
	ap := append([]common.Address{}, addrPool[:na]...)
	tp := append([]common.Hash{}, topicPool[:nt]...)
	if rapid.Bool().Draw(t, "poolshift") {
		ap = append([]common.Address{}, addrPool[len(addrPool)-na:]...)
		tp = append([]common.Hash{}, topicPool[len(topicPool)-nt:]...)
	}
	density := rapid.SampledFrom([]int{2, 4, 4, 8, 16}).Draw(t, "sparsity") // one block in `density` holds logs
	blocks := make([][][]lg, n+1)
	for b := 1; b <= n; b++ {
		if rapid.IntRange(0, density-1).Draw(t, "haslogs") != 0 {
			continue
		}
		nr := rapid.SampledFrom([]int{1, 1, 1, 2, 3}).Draw(t, "nreceipts")
		for r := 0; r < nr; r++ {
			nl := rapid.SampledFrom([]int{0, 1, 1, 1, 2, 2, 3, 6}).Draw(t, "nlogs")
			var logs []lg
			for i := 0; i < nl; i++ {
				logs = append(logs, drawLog(t, ap, tp))
			}
			blocks[b] = append(blocks[b], logs)
		}
	}
	return blocks
}

// ---------- queries ----------

type query struct {
	Size     uint64
	Sections uint64 // index progress
	Batch    int
	Drop     uint64
	Begin    int64
	End      int64
	Addrs    []common.Address
	Topics   [][]common.Hash
}

func (q query) criteria() refbloom.Criteria {
	var c refbloom.Criteria
	for _, a := range q.Addrs {
		c.Addresses = append(c.Addresses, a)
	}
	for _, alts := range q.Topics {
		var p [][32]byte
		for _, h := range alts {
			p = append(p, h)
		}
		c.Topics = append(c.Topics, p)
	}
	return c
}

func (q query) String() string {
	return fmt.Sprintf("size=%d sections=%d batch=%d drop=%d range=[%d,%d] addrs=%x topics=%x", q.Size, q.Sections, q.Batch, q.Drop, q.Begin, q.End, q.Addrs, q.Topics)
}

func (q query) canon(c *tchain) []byte {
	return []byte(c.hashes[c.head].Hex() + q.String())
}

// effective range of a query on a chain with the given head, after the
// documented meaning of -1 and clipping at the head. empty if lo > hi.
func (q query) span(head uint64) (lo, hi int64) {
	lo, hi = q.Begin, q.End
	if lo == -1 {
		lo = int64(head)
	}
	if hi == -1 || hi > int64(head) {
		hi = int64(head)
	}
	return
}

// expect is the brute-force scan.
func (c *tchain) expect(q query) (want []xlog, inRange int) {
	crit := q.criteria()
	lo, hi := q.span(c.head)
	for n := lo; n <= hi; n++ {
		for _, l := range c.logs[n] {
			inRange++
			if refbloom.Match(l.ref(), crit) {
				want = append(want, l)
			}
		}
	}
	return
}

// drawRange draws a block range; target >= 0 is a block the criteria were
// modelled on (ranges around it make non-empty answers likely).
func drawRange(t *rapid.T, c *tchain, size, sections uint64, target int64) (begin, end int64, mode string) {
	head := int64(c.head)
	indexed := int64(size * sections)
	modes := []string{"all", "all", "latest", "one-section", "one-section", "edge", "edge", "random", "random", "random", "open-end", "open-end", "open-begin", "beyond", "single", "inverted"}
	if indexed > 0 && indexed <= head {
		modes = append(modes, "straddle", "straddle", "straddle", "straddle", "straddle")
	}
	if target >= 0 {
		modes = append(modes, "around", "around", "around", "around", "around", "around")
	}
	mode = rapid.SampledFrom(modes).Draw(t, "rangemode")
	r := func(lo, hi int64, l string) int64 {
		if hi < lo {
			hi = lo
		}
		return rapid.Int64Range(lo, hi).Draw(t, l)
	}
	switch mode {
	case "all":
		return 0, -1, mode
	case "around":
		begin = r(max64(0, target-3*int64(size)), target, "abegin")
		if rapid.IntRange(0, 4).Draw(t, "aopen") == 0 {
			return begin, -1, mode
		}
		return begin, r(target, target+3*int64(size), "aend"), mode
	case "latest":
		return -1, -1, mode
	case "one-section":
		s := r(0, head/int64(size), "section")
		a := r(0, int64(size)-1, "a")
		b := r(a, int64(size)-1, "b")
		return s*int64(size) + a, s*int64(size) + b, mode
	case "straddle":
		begin = r(max64(0, indexed-2*int64(size)), indexed-1, "sbegin")
		if rapid.IntRange(0, 3).Draw(t, "sopen") == 0 {
			return begin, -1, mode
		}
		return begin, r(indexed, min64(head+2, indexed+2*int64(size)), "send"), mode
	case "edge":
		pts := []int64{0, 1, indexed - 1, indexed, indexed + 1, head - 1, head, head + 1, int64(size) - 1, int64(size), 2*int64(size) - 1, 2 * int64(size)}
		var ok []int64
		for _, p := range pts {
			if p >= 0 {
				ok = append(ok, p)
			}
		}
		a := rapid.SampledFrom(ok).Draw(t, "ea")
		b := rapid.SampledFrom(ok).Draw(t, "eb")
		if a > b {
			a, b = b, a
		}
		return a, b, mode
	case "random":
		begin = r(0, head, "rbegin")
		return begin, r(begin, head+3, "rend"), mode
	case "open-end":
		return r(0, head+1, "obegin"), -1, mode
	case "open-begin":
		return -1, rapid.SampledFrom([]int64{-1, head, head + 1, head + 100, head - 1, 0}).Draw(t, "oend"), mode
	case "beyond":
		return r(0, head+2, "bbegin"), head + r(1, 100, "bover"), mode
	case "single":
		n := r(0, head, "n")
		if len(c.withLogs) > 0 && rapid.Bool().Draw(t, "onlogblock") {
			n = int64(rapid.SampledFrom(c.withLogs).Draw(t, "logblock"))
		}
		return n, n, mode
	default: // inverted
		end = r(0, head, "iend")
		return end + r(1, 40, "iover"), end, mode
	}
}

func max64(a, b int64) int64 {
	if a > b {
		return a
	}
	return b
}
func min64(a, b int64) int64 {
	if a < b {
		return a
	}
	return b
}

func (c *tchain) pickLog(t *rapid.T, l string) *xlog {
	if len(c.withLogs) == 0 {
		return nil
	}
	n := rapid.SampledFrom(c.withLogs).Draw(t, l+"blk")
	return &c.logs[n][rapid.IntRange(0, len(c.logs[n])-1).Draw(t, l+"idx")]
}

func drawCriteria(t *rapid.T, c *tchain) (addrs []common.Address, topics [][]common.Hash, target int64) {
	target = -1
	ap := append(append([]common.Address{}, c.addrs...), absentAddrs...)
	tp := append(append([]common.Hash{}, c.topics...), absentTopics...)
	if len(c.addrs) > 0 { // present ones twice as likely
		ap = append(ap, c.addrs...)
	}
	if len(c.topics) > 0 {
		tp = append(tp, c.topics...)
	}
	mode := rapid.SampledFrom([]string{"free", "free", "from-log", "from-log", "from-log", "near-miss", "near-miss", "none"}).Draw(t, "critmode")
	l1 := c.pickLog(t, "l1")
	if l1 == nil && mode != "none" {
		mode = "free"
	}
	if l1 != nil && mode != "none" && mode != "free" {
		target = int64(l1.Block)
	}
	switch mode {
	case "none":
		return nil, nil, -1
	case "free":
		for i, n := 0, rapid.SampledFrom([]int{0, 0, 1, 1, 2, 3}).Draw(t, "naddr"); i < n; i++ {
			addrs = append(addrs, rapid.SampledFrom(ap).Draw(t, "addr"))
		}
		for i, n := 0, rapid.SampledFrom([]int{0, 1, 1, 2, 2, 3, 4}).Draw(t, "npos"); i < n; i++ {
			var alts []common.Hash
			for j, k := 0, rapid.SampledFrom([]int{0, 1, 1, 2, 3}).Draw(t, "nalts"); j < k; j++ {
				alts = append(alts, rapid.SampledFrom(tp).Draw(t, "alt"))
			}
			topics = append(topics, alts)
		}
	case "from-log":
		switch rapid.IntRange(0, 4).Draw(t, "addrkind") {
		case 0:
		case 1:
			addrs = []common.Address{l1.Addr}
		case 2, 3:
			addrs = []common.Address{l1.Addr}
			for i, n := 0, rapid.IntRange(1, 2).Draw(t, "xaddr"); i < n; i++ {
				addrs = append(addrs, rapid.SampledFrom(ap).Draw(t, "addr"))
			}
			if rapid.Bool().Draw(t, "addrfirst") {
				addrs[0], addrs[len(addrs)-1] = addrs[len(addrs)-1], addrs[0]
			}
		default:
			addrs = []common.Address{rapid.SampledFrom(ap).Draw(t, "addr")}
		}
		npos := rapid.IntRange(0, len(l1.Topics)).Draw(t, "npos")
		if rapid.IntRange(0, 7).Draw(t, "longer") == 0 && npos < 4 {
			npos = len(l1.Topics) + 1 // criteria longer than this log
		}
		for p := 0; p < npos; p++ {
			var alts []common.Hash
			k := rapid.IntRange(0, 9).Draw(t, "poskind")
			switch {
			case p >= len(l1.Topics):
				if k < 5 {
					alts = []common.Hash{rapid.SampledFrom(tp).Draw(t, "alt")}
				}
			case k < 3: // wildcard
			case k < 6:
				alts = []common.Hash{l1.Topics[p]}
			case k < 9:
				alts = []common.Hash{l1.Topics[p]}
				for j, n := 0, rapid.IntRange(1, 2).Draw(t, "xalts"); j < n; j++ {
					alts = append(alts, rapid.SampledFrom(tp).Draw(t, "alt"))
				}
				if rapid.Bool().Draw(t, "altfirst") {
					alts[0], alts[len(alts)-1] = alts[len(alts)-1], alts[0]
				}
			default:
				alts = []common.Hash{rapid.SampledFrom(tp).Draw(t, "alt")}
			}
			topics = append(topics, alts)
		}
	case "near-miss":
		// every item asked for occurs in the block of l1, so its bloom passes,
		// but address and topics come from different logs / shifted positions.
		blk := c.logs[l1.Block]
		l2 := &blk[rapid.IntRange(0, len(blk)-1).Draw(t, "l2")]
		if rapid.IntRange(0, 2).Draw(t, "nmaddr") > 0 {
			addrs = []common.Address{l1.Addr}
		}
		var blockTopics []common.Hash
		for _, l := range blk {
			blockTopics = append(blockTopics, l.Topics...)
		}
		switch {
		case len(blockTopics) == 0:
			addrs = []common.Address{l1.Addr}
			topics = [][]common.Hash{nil}
		case rapid.Bool().Draw(t, "shift") && len(l2.Topics) > 0 && len(l2.Topics) < 4:
			// l2's topics asked one position later
			topics = append(topics, []common.Hash{rapid.SampledFrom(blockTopics).Draw(t, "t0")})
			for _, tpc := range l2.Topics {
				topics = append(topics, []common.Hash{tpc})
			}
		default:
			for i, n := 0, rapid.IntRange(1, 4).Draw(t, "npos"); i < n; i++ {
				if rapid.IntRange(0, 3).Draw(t, "wild") == 0 {
					topics = append(topics, nil)
				} else {
					topics = append(topics, []common.Hash{rapid.SampledFrom(blockTopics).Draw(t, "bt")})
				}
			}
		}
	}
	return
}

// drawQuery draws a whole query against c for one of the given section sizes.
func drawQuery(t *rapid.T, c *tchain, sizes []uint64) (query, string) {
	q := query{Size: rapid.SampledFrom(sizes).Draw(t, "size")}
	full := c.fullSections(q.Size)
	switch rapid.IntRange(0, 6).Draw(t, "progresskind") {
	case 0:
		q.Sections = 0
	case 1, 2:
		q.Sections = full
	default:
		q.Sections = rapid.Uint64Range(0, full).Draw(t, "progress")
	}
	q.Batch = rapid.SampledFrom([]int{1, 2, 16, 16}).Draw(t, "batch")
	if rapid.Bool().Draw(t, "drops") {
		q.Drop = rapid.Uint64Range(1, 1<<32).Draw(t, "dropsalt")
	}
	var mode string
	var target int64
	q.Addrs, q.Topics, target = drawCriteria(t, c)
	q.Begin, q.End, mode = drawRange(t, c, q.Size, q.Sections, target)
	return q, mode
}

// ---------- running a query and judging it ----------

func fromNode(l *types.Log) xlog {
	return xlog{Block: l.BlockNumber, BlockHash: l.BlockHash, TxHash: l.TxHash, TxIndex: l.TxIndex, Index: l.Index,
		lg: lg{Addr: l.Address, Topics: l.Topics, Data: l.Data}}
}

func sameLog(a, b xlog) bool {
	if a.Block != b.Block || a.BlockHash != b.BlockHash || a.TxHash != b.TxHash || a.TxIndex != b.TxIndex || a.Index != b.Index ||
		a.Addr != b.Addr || len(a.Topics) != len(b.Topics) || !bytes.Equal(a.Data, b.Data) {
		return false
	}
	for i := range a.Topics {
		if a.Topics[i] != b.Topics[i] {
			return false
		}
	}
	return true
}

type backends map[uint64]*backend

func (c *tchain) backendFor(t fataler, bs backends, size uint64) *backend {
	if b := bs[size]; b != nil {
		return b
	}
	ix := c.index(t, size)
	c.checkIndexContent(t, ix)
	b := c.newBackend(ix)
	bs[size] = b
	return b
}

// checkIndexContent is oracle (d): the stored, rotated bit vectors are the
// transposition of the header blooms (checked for the bits of items that occur
// in the chain and a few fixed others).
func (c *tchain) checkIndexContent(t fataler, ix *bitsIndex) {
	if ix.full == 0 {
		return
	}
	bitset := map[uint]bool{0: true, 7: true, 8: true, 1023: true, 2040: true, 2047: true}
	for i, a := range c.addrs {
		if i < 4 {
			for _, b := range refbloom.Bits(a[:]) {
				bitset[b] = true
			}
		}
	}
	for i, tp := range c.topics {
		if i < 4 {
			for _, b := range refbloom.Bits(tp[:]) {
				bitset[b] = true
			}
		}
	}
	var bits []int
	for b := range bitset {
		bits = append(bits, int(b))
	}
	sort.Ints(bits)
	for _, bit := range bits {
		for s := uint64(0); s < ix.full; s++ {
			vec, err := ix.vector(c, uint(bit), s)
			if err != nil {
				t.Fatalf("index read-back: bit %d section %d: %v", bit, s, err)
			}
			for k := uint64(0); k < ix.size; k++ {
				got := vec[k/8]&(1<<(7-k%8)) != 0
				want := refbloom.TestBit(c.blooms[s*ix.size+k], uint(bit))
				if got != want {
					t.Fatalf("bloom-bits index (section size %d): bit %d of block %d is %v in the index, %v in the header bloom", ix.size, bit, s*ix.size+k, got, want)
				}
			}
		}
	}
	ev.Label("leg-d:index-content")
}

type verdict struct {
	want     []xlog
	inRange  int
	labels   []string
	nontriv  bool
	matcherN int
}

// judge runs q through the real Filter (and the real Matcher alone) and
// compares with the brute-force scan. It returns an error text on violation.
func (c *tchain) judge(t fataler, bs backends, q query, matcherLeg bool) (verdict, string) {
	var v verdict
	be := c.backendFor(t, bs, q.Size)
	if q.Sections > be.ix.full {
		t.Fatalf("harness: progress %d beyond the %d complete sections", q.Sections, be.ix.full)
	}
	be.prepare(q.Sections, q.Batch, q.Drop)
	v.want, v.inRange = c.expect(q)
	crit := q.criteria()

	f := filters.New(be, q.Begin, q.End, q.Addrs, q.Topics)
	ctx, cancel := context.WithTimeout(context.Background(), 120*time.Second)
	got, err := f.Logs(ctx)
	timedOut := ctx.Err() != nil
	cancel()
	if err != nil {
		if timedOut {
			c.hung(q, fmt.Sprintf("Filter.Logs did not return within 120 s (%v)", err))
		}
		return v, fmt.Sprintf("Filter.Logs failed: %v", err)
	}
	be.mu.Lock()
	dropped, bad := be.dropped, be.badSect
	be.mu.Unlock()
	if bad {
		return v, "the matcher requested a bloom-bits section at or above the announced index progress"
	}
	if len(got) != len(v.want) {
		return v, fmt.Sprintf("Filter.Logs returned %d logs, the brute-force scan %d%s", len(got), len(v.want), diffLogs(got, v.want))
	}
	for i := range got {
		if got[i] == nil || !sameLog(fromNode(got[i]), v.want[i]) {
			return v, fmt.Sprintf("Filter.Logs result differs at position %d%s", i, diffLogs(got, v.want))
		}
	}

	// ---- classification ----
	lo, hi := q.span(c.head)
	indexed := int64(q.Size * q.Sections)
	beginEff := q.Begin
	if beginEff == -1 {
		beginEff = int64(c.head)
	}
	lb := func(s string) { v.labels = append(v.labels, s) }
	lb(fmt.Sprintf("size:%d", q.Size))
	switch {
	case q.Sections == 0:
		lb("progress:0")
	case q.Sections == be.ix.full:
		lb("progress:all")
	default:
		lb("progress:partial")
	}
	usesIndex := indexed > beginEff && lo <= hi
	usesScan := lo <= hi && hi >= indexed
	if usesIndex {
		lb("path:indexed")
		if !usesScan {
			lb("path:indexed-only")
		}
	}
	if usesScan {
		lb("path:unindexed")
	}
	if usesIndex && usesScan {
		lb("range:straddle")
	}
	if q.End == -1 {
		lb("range:open-end")
	}
	if q.Begin == -1 {
		lb("range:open-begin")
	}
	if q.End > int64(c.head) {
		lb("range:beyond-head")
	}
	if q.Begin > int64(c.head) {
		lb("range:begin-beyond-head")
	}
	if lo == hi {
		lb("range:single-block")
	}
	if lo > hi {
		lb("range:empty-or-inverted")
	}
	if lo <= hi && lo/int64(q.Size) == hi/int64(q.Size) {
		lb("range:one-section")
	}
	switch {
	case len(q.Addrs) == 0:
		lb("addr:none")
	case len(q.Addrs) == 1:
		lb("addr:single")
	default:
		lb("addr:list>1")
	}
	lb(fmt.Sprintf("topic:%d-positions", len(q.Topics)))
	for _, alts := range q.Topics {
		if len(alts) == 0 {
			lb("topic:wildcard-position")
		}
		if len(alts) > 1 {
			lb("topic:alternatives")
		}
	}
	fp, longer := false, false
	for n := lo; n <= hi; n++ {
		if len(c.logs[n]) == 0 && !refbloom.BloomMayMatch(c.blooms[n], crit) {
			continue
		}
		any := false
		for _, l := range c.logs[n] {
			if refbloom.Match(l.ref(), crit) {
				any = true
			}
			if len(l.Topics) < len(q.Topics) {
				longer = true
			}
		}
		if !any && refbloom.BloomMayMatch(c.blooms[n], crit) && (len(q.Addrs) > 0 || len(q.Topics) > 0) {
			fp = true
		}
	}
	if fp {
		lb("fp-block") // a block passes the bloom test but holds no matching log
		if len(v.want) == 0 {
			lb("empty-on-bloom-positive")
		}
	}
	if longer {
		lb("criteria-longer-than-log")
	}
	for _, l := range v.want {
		if len(l.Topics) == 4 {
			lb("log:4-topics-matched")
			break
		}
	}
	switch {
	case len(v.want) == 0:
		lb("result:empty")
	case len(v.want) == v.inRange:
		lb("result:all")
	default:
		lb("result:some")
		v.nontriv = true
	}
	if dropped > 0 {
		lb("retrieval-dropped")
	}

	// ---- leg (c): the matcher session alone, over the indexed part ----
	if matcherLeg && usesIndex {
		mEnd := uint64(hi)
		if q.End != -1 && q.End >= 0 && uint64(q.End) < mEnd {
			mEnd = uint64(q.End)
		}
		if uint64(indexed-1) < mEnd {
			mEnd = uint64(indexed - 1)
		}
		if msg := c.matcherLeg(be, q, uint64(beginEff), mEnd, crit); msg != "" {
			return v, msg
		}
		lb("leg-c:matcher-session")
	}
	return v, ""
}

// hung reports a query that never returned and ends the process at once: every
// further query (and every shrink attempt) would wait another 120 s and turn a
// detected violation into an exhausted time budget. The case is saved first.
func (c *tchain) hung(q query, msg string) {
	if c.synthetic != nil {
		ev.SaveCase("hung", toCase(c.synthetic, q))
	}
	fmt.Printf("--- FAIL: C16 query hung: %s\nquery: %v\nchain head %d (%d blocks with logs)\n", msg, q, c.head, len(c.withLogs))
	os.Exit(1)
}

// matcherLeg is oracle (c): a bare Matcher session over [begin, end] (all
// inside the index) reports, in ascending order and without repeats, a set of
// blocks of the range that contains every block holding a matching log.
func (c *tchain) matcherLeg(be *backend, q query, begin, end uint64, crit refbloom.Criteria) string {
	var fl [][][]byte
	if len(q.Addrs) > 0 {
		var f [][]byte
		for _, a := range q.Addrs {
			f = append(f, a.Bytes())
		}
		fl = append(fl, f)
	}
	for _, alts := range q.Topics {
		var f [][]byte
		for _, h := range alts {
			f = append(f, h.Bytes())
		}
		fl = append(fl, f)
	}
	be.prepare(q.Sections, q.Batch, q.Drop)
	m := bloombits.NewMatcher(q.Size, fl)
	ctx, cancel := context.WithTimeout(context.Background(), 120*time.Second)
	defer cancel()
	results := make(chan uint64, 64)
	sess, err := m.Start(ctx, begin, end, results)
	if err != nil {
		return fmt.Sprintf("Matcher.Start: %v", err)
	}
	be.ServiceFilter(ctx, sess)
	var got []uint64
loop:
	for {
		select {
		case n, ok := <-results:
			if !ok {
				break loop
			}
			got = append(got, n)
		case <-ctx.Done():
			c.hung(q, "matcher session did not finish within 120 s")
		}
	}
	sess.Close()
	if err := sess.Error(); err != nil {
		return fmt.Sprintf("matcher session error: %v", err)
	}
	reported := map[uint64]bool{}
	for i, n := range got {
		if n < begin || n > end {
			return fmt.Sprintf("matcher reported block %d outside [%d,%d]", n, begin, end)
		}
		if i > 0 && got[i-1] >= n {
			return fmt.Sprintf("matcher results not strictly ascending: %v", got)
		}
		reported[n] = true
	}
	extra := 0
	for n := begin; n <= end; n++ {
		holds := false
		for _, l := range c.logs[n] {
			if refbloom.Match(l.ref(), crit) {
				holds = true
			}
		}
		if holds && !reported[n] {
			return fmt.Sprintf("matcher false negative: block %d holds a matching log but was not reported (reported %v)", n, got)
		}
		if reported[n] && !refbloom.BloomMayMatch(c.blooms[n], crit) {
			extra++
		}
	}
	if extra > 0 {
		ev.Add("matcher_blocks_reported_without_bloom_support", int64(extra))
	}
	return ""
}

func diffLogs(got []*types.Log, want []xlog) string {
	var sb strings.Builder
	sb.WriteString("\n got:")
	for i, l := range got {
		if i >= 12 {
			sb.WriteString(" …")
			break
		}
		if l == nil {
			sb.WriteString(" <nil>")
			continue
		}
		sb.WriteString(" " + fromNode(l).String())
	}
	sb.WriteString("\nwant:")
	for i, l := range want {
		if i >= 12 {
			sb.WriteString(" …")
			break
		}
		sb.WriteString(" " + l.String())
	}
	return sb.String()
}

// ---------- JSON case files (synthetic chains): replay, corpus, fuzz ----------

type caseLog struct {
	A string   `json:"a"`
	T []string `json:"t"`
	D string   `json:"d,omitempty"`
}

type caseFile struct {
	Head      uint64                 `json:"head"`
	Blocks    map[uint64][][]caseLog `json:"blocks"` // block number -> receipts -> logs
	Size      uint64                 `json:"size"`
	Sections  uint64                 `json:"sections"`
	Batch     int                    `json:"batch"`
	Drop      uint64                 `json:"drop"`
	Begin     int64                  `json:"begin"`
	End       int64                  `json:"end"`
	Addresses []string               `json:"addresses"`
	Topics    [][]string             `json:"topics"`
	Note      string                 `json:"note,omitempty"`
}

func toCase(blocks [][][]lg, q query) caseFile {
	cf := caseFile{Head: uint64(len(blocks) - 1), Blocks: map[uint64][][]caseLog{}, Size: q.Size, Sections: q.Sections, Batch: q.Batch, Drop: q.Drop,
		Begin: q.Begin, End: q.End, Addresses: []string{}, Topics: [][]string{}}
	for n, rc := range blocks {
		if n == 0 || len(rc) == 0 {
			continue
		}
		var out [][]caseLog
		for _, logs := range rc {
			cl := []caseLog{}
			for _, l := range logs {
				e := caseLog{A: hex.EncodeToString(l.Addr[:]), T: []string{}, D: hex.EncodeToString(l.Data)}
				for _, tp := range l.Topics {
					e.T = append(e.T, hex.EncodeToString(tp[:]))
				}
				cl = append(cl, e)
			}
			out = append(out, cl)
		}
		cf.Blocks[uint64(n)] = out
	}
	for _, a := range q.Addrs {
		cf.Addresses = append(cf.Addresses, hex.EncodeToString(a[:]))
	}
	for _, alts := range q.Topics {
		p := []string{}
		for _, h := range alts {
			p = append(p, hex.EncodeToString(h[:]))
		}
		cf.Topics = append(cf.Topics, p)
	}
	return cf
}

func (cf caseFile) decode() ([][][]lg, query, error) {
	if cf.Head > 5000 || cf.Size == 0 || cf.Size%8 != 0 || cf.Size > 4096 {
		return nil, query{}, fmt.Errorf("case out of bounds (head %d, size %d)", cf.Head, cf.Size)
	}
	blocks := make([][][]lg, cf.Head+1)
	hx := func(s string, n int) ([]byte, error) {
		b, err := hex.DecodeString(strings.TrimPrefix(s, "0x"))
		if err != nil || (n > 0 && len(b) != n) {
			return nil, fmt.Errorf("bad hex %q", s)
		}
		return b, nil
	}
	for n, rc := range cf.Blocks {
		if n == 0 || n > cf.Head {
			return nil, query{}, fmt.Errorf("block %d out of range", n)
		}
		for _, logs := range rc {
			var ls []lg
			for _, e := range logs {
				a, err := hx(e.A, 20)
				if err != nil {
					return nil, query{}, err
				}
				l := lg{Addr: common.BytesToAddress(a)}
				if len(e.T) > 4 {
					return nil, query{}, fmt.Errorf("log with %d topics", len(e.T))
				}
				for _, ts := range e.T {
					tb, err := hx(ts, 32)
					if err != nil {
						return nil, query{}, err
					}
					l.Topics = append(l.Topics, common.BytesToHash(tb))
				}
				if l.Data, err = hx(e.D, 0); err != nil {
					return nil, query{}, err
				}
				ls = append(ls, l)
			}
			blocks[n] = append(blocks[n], ls)
		}
	}
	q := query{Size: cf.Size, Sections: cf.Sections, Batch: cf.Batch, Drop: cf.Drop, Begin: cf.Begin, End: cf.End}
	if q.Batch < 1 {
		q.Batch = 16
	}
	if q.Sections > (cf.Head+1)/cf.Size {
		return nil, query{}, fmt.Errorf("progress %d beyond the chain", q.Sections)
	}
	if q.Begin < -1 || q.End < -1 {
		return nil, query{}, fmt.Errorf("negative range end other than -1")
	}
	for _, s := range cf.Addresses {
		a, err := hx(s, 20)
		if err != nil {
			return nil, query{}, err
		}
		q.Addrs = append(q.Addrs, common.BytesToAddress(a))
	}
	for _, p := range cf.Topics {
		var alts []common.Hash
		for _, s := range p {
			tb, err := hx(s, 32)
			if err != nil {
				return nil, query{}, err
			}
			alts = append(alts, common.BytesToHash(tb))
		}
		q.Topics = append(q.Topics, alts)
	}
	return blocks, q, nil
}

// runCase builds the synthetic chain of a case file and judges its one query.
func runCase(t fataler, cf caseFile) (verdict, string) {
	blocks, q, err := cf.decode()
	if err != nil {
		t.Fatalf("case file: %v", err)
	}
	c := buildSynthetic(t, blocks)
	defer c.close()
	c.checkStoredBlooms(t)
	return c.judge(t, backends{}, q, true)
}

// checkStoredBlooms is oracle (a) on what the node stored: header blooms and
// the blooms of the receipts read back from the database.
func (c *tchain) checkStoredBlooms(t fataler) {
	be := &backend{c: c}
	for _, n := range c.withLogs {
		exact := checkBloomCovers(t, fmt.Sprintf("stored header bloom of block %d", n), c.blooms[n], c.logs[n])
		if exact {
			ev.Label("header-bloom-exact")
		} else {
			ev.Label("header-bloom-has-extra-bits")
		}
		rcs, _ := be.GetReceipts(context.Background(), c.hashes[n])
		k := 0
		for _, r := range rcs {
			if k+len(r.Logs) > len(c.logs[n]) {
				t.Fatalf("stored receipts of block %d hold more logs than were produced", n)
			}
			checkBloomCovers(t, fmt.Sprintf("stored receipt bloom, block %d", n), r.Bloom[:], c.logs[n][k:k+len(r.Logs)])
			k += len(r.Logs)
		}
		if k != len(c.logs[n]) {
			t.Fatalf("stored receipts of block %d hold %d logs, %d were produced", n, k, len(c.logs[n]))
		}
	}
}

// ---------- (a) pure bloom functions on generated log sets ----------

func TestBloomFunctions(t *testing.T) {
	ev.Check(t, ev.N(1500, 400_000), func(t *rapid.T) {
		ap, tp := addrPool, topicPool
		nr := rapid.IntRange(0, 4).Draw(t, "nreceipts")
		var receipts types.Receipts
		var all []xlog
		total := 0
		for i := 0; i < nr; i++ {
			r := types.NewReceipt(nil, false, 0)
			var own []xlog
			for j, n := 0, rapid.IntRange(0, 6).Draw(t, "nlogs"); j < n; j++ {
				l := drawLog(t, ap, tp)
				r.Logs = append(r.Logs, &types.Log{Address: l.Addr, Topics: l.Topics, Data: l.Data})
				own = append(own, xlog{lg: l})
			}
			// LogsBloom -> 2048-bit integer; the receipt bloom is its big-endian form
			lb := types.LogsBloom(r.Logs)
			if lb.BitLen() > 2048 {
				t.Fatalf("LogsBloom wider than 2048 bits")
			}
			checkBloomCovers(t, "LogsBloom", common.LeftPadBytes(lb.Bytes(), 256), own)
			r.Bloom = types.CreateBloom(types.Receipts{r})
			checkBloomCovers(t, "CreateBloom(one receipt)", r.Bloom[:], own)
			bb := types.BytesToBloom(lb.Bytes())
			if bb != r.Bloom {
				t.Fatalf("BytesToBloom(LogsBloom) differs from CreateBloom of the same receipt")
			}
			receipts = append(receipts, r)
			all = append(all, own...)
			total += len(own)
		}
		bloom := types.CreateBloom(receipts)
		exact := checkBloomCovers(t, "CreateBloom(receipts)", bloom[:], all)
		hdr := types.NewBlock(&types.Header{Number: big.NewInt(1), Difficulty: big.NewInt(1), Time: big.NewInt(1), Version: 1}, nil, nil, receipts).Bloom()
		checkBloomCovers(t, "NewBlock header bloom", hdr[:], all)
		// the node's own lookups must be positive for every covered item
		ntop := 0
		for _, l := range all {
			if !types.BloomLookup(bloom, l.Addr) {
				t.Fatalf("BloomLookup false negative for address %x", l.Addr)
			}
			for _, tpc := range l.Topics {
				ntop++
				if !types.BloomLookup(bloom, tpc) {
					t.Fatalf("BloomLookup false negative for topic %x", tpc)
				}
				if tpc[0] != 0 && !bloom.TestBytes(tpc[:]) {
					t.Fatalf("Bloom.TestBytes false negative for topic %x", tpc)
				}
			}
			if len(l.Topics) == 4 {
				ev.Label("log:4-topics")
			}
		}
		// agreement of the lookup with the reference on an absent item (measured, not demanded)
		probe := drawTopic(t, absentTopics)
		if types.BloomLookup(bloom, probe) == refbloom.Contains(bloom[:], probe[:]) {
			ev.Label("lookup-agrees-with-reference")
		} else {
			ev.Label("lookup-differs-from-reference")
		}
		lbl := "bloom-has-extra-bits"
		if exact {
			lbl = "bloom-exact"
		}
		var canon bytes.Buffer
		for _, l := range all {
			canon.Write(l.Addr[:])
			for _, tpc := range l.Topics {
				canon.Write(tpc[:])
			}
			canon.WriteByte(byte(len(l.Topics)))
		}
		ev.Case(ntop > 0 && total > 1, append([]byte("bloom:"), canon.Bytes()...), "leg-a:generated", lbl)
	})
}

// Bloom.Add / Bloom.Test are the integer-keyed pair of the same filter.
func TestBloomAddTest(t *testing.T) {
	ev.Check(t, ev.N(300, 50_000), func(t *rapid.T) {
		var bl types.Bloom
		var items [][]byte
		for i, n := 0, rapid.IntRange(1, 8).Draw(t, "n"); i < n; i++ {
			b := rapid.SliceOfN(rapid.Byte(), 1, 32).Draw(t, "item")
			if b[0] == 0 {
				b[0] = 1 // integer keys have no leading zero bytes
			}
			items = append(items, b)
			bl.Add(new(big.Int).SetBytes(b))
		}
		for _, b := range items {
			if !refbloom.Contains(bl[:], b) {
				t.Fatalf("Bloom.Add(%x): reference bits %v not set", b, refbloom.Bits(b))
			}
			if !bl.Test(new(big.Int).SetBytes(b)) || !bl.TestBytes(b) {
				t.Fatalf("Bloom.Test false negative for %x", b)
			}
		}
		ev.Label("bloom-add-test")
	})
}

// ---------- (b)(c)(d) synthetic chains ----------

func drawSizes(t *rapid.T) []uint64 {
	s := []uint64{rapid.SampledFrom([]uint64{8, 16, 64}).Draw(t, "size1")}
	if rapid.IntRange(0, 2).Draw(t, "twosizes") == 0 {
		s2 := rapid.SampledFrom([]uint64{8, 16, 64}).Draw(t, "size2")
		if s2 != s[0] {
			s = append(s, s2)
		}
	}
	return s
}

func drawLength(t *rapid.T, sizes []uint64, lo, hi int) int {
	n := rapid.IntRange(lo, hi).Draw(t, "nblocks")
	switch rapid.IntRange(0, 5).Draw(t, "lenkind") {
	case 0: // head+1 is an exact multiple of the section size
		n = n/int(sizes[0])*int(sizes[0]) - 1
	case 1: // one block more than a multiple
		n = n / int(sizes[0]) * int(sizes[0])
	case 2: // one block short of a multiple
		n = n/int(sizes[0])*int(sizes[0]) - 2
	}
	if n < lo/2 {
		n = lo
	}
	return n
}

func TestSyntheticChains(t *testing.T) {
	nq := ev.Pick(50, 120)
	ev.Check(t, ev.N(200, 4000), func(t *rapid.T) {
		sizes := drawSizes(t)
		n := drawLength(t, sizes, 40, ev.Pick(300, 400))
		blocks := drawBlocks(t, n)
		c := buildSynthetic(t, blocks)
		defer c.close()
		c.checkStoredBlooms(t)
		ev.Label("chain:synthetic")
		bs := backends{}
		for i := 0; i < nq; i++ {
			q, mode := drawQuery(t, c, sizes)
			v, msg := c.judge(t, bs, q, i%3 == 0)
			if msg != "" {
				ev.SaveCase("TestSyntheticChains", toCase(blocks, q))
				t.Fatalf("%s\nquery: %v (range mode %s)\nchain: synthetic, head %d", msg, q, mode, c.head)
			}
			ev.Case(v.nontriv, q.canon(c), v.labels...)
			if i == 0 {
				ev.Sample(map[string]interface{}{"chain": "synthetic", "head": c.head, "blocks_with_logs": len(c.withLogs), "query": q.String(), "rangemode": mode, "matched": len(v.want), "logs_in_range": v.inRange})
			}
		}
	})
}

// A long synthetic chain with the node's production-sized generator call
// (section size 2048: Generator.Bitset is read out without any stepping around).
func TestLongChainSection2048(t *testing.T) {
	if !ev.Thorough() && ev.Seed()%4 != 1 {
		// quick tier: every fourth seed only (4 s); thorough: every shard
		t.Skip("quick tier runs this for VERIF_SEED = 1 mod 4")
	}
	nq := ev.Pick(30, 100)
	ev.Check(t, ev.N(1, 16), func(t *rapid.T) {
		n := rapid.IntRange(2047, 4500).Draw(t, "nblocks")
		blocks := drawBlocks(t, n)
		c := buildSynthetic(t, blocks)
		defer c.close()
		ev.Label("chain:synthetic", "chain:long")
		bs := backends{}
		for i := 0; i < nq; i++ {
			q, mode := drawQuery(t, c, []uint64{2048})
			v, msg := c.judge(t, bs, q, i%3 == 0)
			if msg != "" {
				ev.SaveCase("TestLongChainSection2048", toCase(blocks, q))
				t.Fatalf("%s\nquery: %v (range mode %s)\nchain: synthetic, head %d", msg, q, mode, c.head)
			}
			ev.Case(v.nontriv, q.canon(c), v.labels...)
		}
	})
}

// ---------- (a)(b)(c) chains executed by the node ----------

func TestRealChains(t *testing.T) {
	nq := ev.Pick(50, 120)
	ev.Check(t, ev.N(32, 1000), func(t *rapid.T) {
		sizes := drawSizes(t)
		n := drawLength(t, sizes, 40, ev.Pick(120, 300))
		var spec *ixSpec
		if rapid.Bool().Draw(t, "chainindexer") {
			spec = &ixSpec{size: sizes[0], confirms: rapid.SampledFrom([]uint64{0, 0, 3, sizes[0]}).Draw(t, "confirms"), early: rapid.Bool().Draw(t, "early")}
		}
		c := buildReal(t, n, spec)
		defer c.close()
		c.checkStoredBlooms(t)
		ev.Label("chain:real")
		bs := backends{}
		for i := 0; i < nq; i++ {
			q, mode := drawQuery(t, c, sizes)
			v, msg := c.judge(t, bs, q, i%3 == 0)
			if msg != "" {
				t.Fatalf("%s\nquery: %v (range mode %s)\nchain: executed, head %d", msg, q, mode, c.head)
			}
			ev.Case(v.nontriv, q.canon(c), v.labels...)
			if i == 0 {
				ev.Sample(map[string]interface{}{"chain": "executed", "head": c.head, "blocks_with_logs": len(c.withLogs), "addresses": len(c.addrs), "query": q.String(), "rangemode": mode, "matched": len(v.want), "logs_in_range": v.inRange})
			}
		}
	})
}

// ---------- known finding witness ----------

// TestGeneratorReadOut is the fixed witness for the Generator.Bitset bound: a
// full generator of every supported section size must hand out all 2048 bit
// vectors.
func TestGeneratorReadOut(t *testing.T) {
	for _, size := range []uint{8, 16, 64, 512, 2048, 4096} {
		g, err := bloombits.NewGenerator(size)
		if err != nil {
			t.Fatalf("NewGenerator(%d): %v", size, err)
		}
		for i := uint(0); i < size; i++ {
			var bl types.Bloom
			bl[255-int(i%256)] = 1 << (i % 8)
			if err := g.AddBloom(i, bl); err != nil {
				t.Fatalf("AddBloom: %v", err)
			}
		}
		for bit := uint(0); bit < types.BloomBitLength; bit++ {
			if _, err := g.Bitset(bit); err != nil {
				if size < types.BloomBitLength && bit >= size && ev.Known(knownGeneratorBound) {
					ev.KnownFinding(knownGeneratorBound)
					break
				}
				t.Fatalf("Generator of section size %d: Bitset(%d): %v — the bloom-bits index of this section size cannot be generated", size, bit, err)
			}
		}
	}
}

// ---------- corpus, replay, fuzz ----------

func corpusFiles() []string {
	dir := os.Getenv("VERIF_CORPUS")
	if dir == "" {
		if root := os.Getenv("VERIF_ROOT"); root != "" {
			dir = root + "/corpus/C16"
		}
	}
	ents, _ := os.ReadDir(dir)
	var out []string
	for _, e := range ents {
		if strings.HasSuffix(e.Name(), ".json") {
			out = append(out, dir+"/"+e.Name())
		}
	}
	sort.Strings(out)
	return out
}

func loadCase(path string) (caseFile, error) {
	var cf caseFile
	b, err := os.ReadFile(path)
	if err != nil {
		return cf, err
	}
	return cf, json.Unmarshal(b, &cf)
}

func TestCorpusReplay(t *testing.T) {
	for _, p := range corpusFiles() {
		cf, err := loadCase(p)
		if err != nil {
			t.Fatalf("%s: %v", p, err)
		}
		v, msg := runCase(t, cf)
		if msg != "" {
			t.Errorf("%s: %s", p, msg)
			continue
		}
		_, q, _ := cf.decode()
		ev.Case(v.nontriv, append([]byte("corpus:"+p), []byte(q.String())...), append(v.labels, "corpus")...)
	}
}

func TestReplay(t *testing.T) {
	p := ev.ReplayPath()
	if p == "" {
		t.Skip("no VERIF_REPLAY")
	}
	cf, err := loadCase(p)
	if err != nil {
		t.Fatal(err)
	}
	if _, msg := runCase(t, cf); msg != "" {
		t.Fatal(msg)
	}
}

// fuzzCase decodes raw bytes into a small synthetic case for the native fuzz
// target. The case is answered by header scanning only (section size 64 on a
// chain shorter than one section, progress 0): the bloom-bits pipeline is a
// set of goroutines whose latency under machine load could trip the fuzzing
// engine's 10 s per-input limit, which the driver would report as a violation;
// that pipeline is explored by the rapid properties instead. Layout: 8 header
// bytes (-, head, -, -, begin, end, criteria shape x2), then criteria items,
// then 3-byte log placements.
func fuzzCase(in []byte) (caseFile, bool) {
	if len(in) < 8 {
		return caseFile{}, false
	}
	head := 8 + uint64(in[1])%54 // < 63: no complete section of size 64
	cf := caseFile{Head: head, Blocks: map[uint64][][]caseLog{}, Size: 64, Sections: 0, Batch: 16}
	rng := func(b byte) int64 {
		if b == 255 {
			return -1
		}
		return int64(b) % int64(head+4)
	}
	cf.Begin, cf.End = rng(in[4]), rng(in[5])
	ah := func(i byte) string { a := addrPool[int(i)%4]; return hex.EncodeToString(a[:]) }
	th := func(i byte) string { h := topicPool[int(i)%5]; return hex.EncodeToString(h[:]) }
	naddr := int(in[6] % 4)
	npos := int(in[6]>>2) % 5
	rest := in[8:]
	next := func() byte {
		if len(rest) == 0 {
			return 0
		}
		b := rest[0]
		rest = rest[1:]
		return b
	}
	cf.Addresses = []string{}
	for i := 0; i < naddr; i++ {
		cf.Addresses = append(cf.Addresses, ah(next()))
	}
	cf.Topics = [][]string{}
	for p := 0; p < npos; p++ {
		k := int(in[7]>>(2*uint(p%4))) & 3 // 0 wildcard, 1..3 alternatives
		alts := []string{}
		for j := 0; j < k; j++ {
			alts = append(alts, th(next()))
		}
		cf.Topics = append(cf.Topics, alts)
	}
	for len(rest) >= 3 && len(cf.Blocks) < 64 {
		blk := 1 + uint64(rest[0])%head
		nt := int(rest[1]>>2) % 5
		e := caseLog{A: ah(rest[1] & 3), T: []string{}}
		tsel := rest[2]
		for i := 0; i < nt; i++ {
			e.T = append(e.T, th((tsel>>(2*uint(i)))&3+byte(i&1)))
		}
		rest = rest[3:]
		rc := cf.Blocks[blk]
		if len(rc) == 0 || len(rest) > 0 && rest[0]&1 == 1 && len(rc) < 3 {
			rc = append(rc, []caseLog{})
		}
		rc[len(rc)-1] = append(rc[len(rc)-1], e)
		cf.Blocks[blk] = rc
	}
	return cf, true
}

func FuzzScanFilter(f *testing.F) {
	for _, s := range []string{
		"00200210000aff05010203040506070809",
		"0140ff00ffff1b39000102030405060708090a0b0c0d0e0f1011121314",
		"02780101053c0f6d0a11330a12330b13770c14ff0d15ff",
		"003f0733103f06150001020a0f3f0a0f3f0b0f3f1e0f3f1f0f3f",
		"011f01000f1e09020100010a07000a0b000b07010b0b01",
	} {
		b, _ := hex.DecodeString(s)
		f.Add(b)
	}
	f.Fuzz(func(t *testing.T, in []byte) {
		if len(in) > 400 {
			return
		}
		cf, ok := fuzzCase(in)
		if !ok {
			return
		}
		if _, msg := runCase(t, cf); msg != "" {
			b, _ := json.Marshal(cf)
			t.Fatalf("%s\ncase: %s", msg, b)
		}
	})
}
