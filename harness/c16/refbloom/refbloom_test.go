package refbloom

import (
	"encoding/hex"
	"testing"
)

// Published Keccak-256 vectors (legacy padding, not SHA3-256).
func TestKeccakVectors(t *testing.T) {
	for in, want := range map[string]string{
		"":    "c5d2460186f7233c927e7db2dcc703c0e500b653ca82273b7bfad8045d85a470",
		"abc": "4e03657aea45a94fc7d47ba826c8d667c0d1e6e33a64a036ec44f58fa12d6c45",
	} {
		got := Keccak256([]byte(in))
		if hex.EncodeToString(got[:]) != want {
			t.Fatalf("keccak(%q) = %x, want %s", in, got, want)
		}
	}
}

// Bit positions worked out by hand from the digests above:
// keccak("") = c5d2 4601 86f7 ... -> 0x5d2, 0x601, 0x6f7.
func TestBitsByHand(t *testing.T) {
	if got := Bits(nil); got != [3]uint{0x5d2, 0x601, 0x6f7} {
		t.Fatalf("Bits(\"\") = %v", got)
	}
	// keccak("abc") = 4e03 657a ea45 ... -> 0x603, 0x57a, 0x245
	if got := Bits([]byte("abc")); got != [3]uint{0x603, 0x57a, 0x245} {
		t.Fatalf("Bits(abc) = %v", got)
	}
	bl := Make([][]byte{nil})
	// bit 0x5d2 = 1490 lives in byte 255-186 = 69, mask 1<<2
	if bl[69] != 4 || !TestBit(bl[:], 1490) || !Contains(bl[:], nil) || Contains(bl[:], []byte("abc")) {
		t.Fatalf("bloom layout wrong: byte 69 = %x", bl[69])
	}
	n := 0
	for _, b := range bl {
		for ; b != 0; b &= b - 1 {
			n++
		}
	}
	if n != 3 {
		t.Fatalf("%d bits set, want 3", n)
	}
}

func TestMatchSemantics(t *testing.T) {
	a1, a2 := [20]byte{1}, [20]byte{2}
	t1, t2, t3 := [32]byte{1}, [32]byte{2}, [32]byte{3}
	l := Log{Address: a1, Topics: [][32]byte{t1, t2}}
	cases := []struct {
		c    Criteria
		want bool
	}{
		{Criteria{}, true},
		{Criteria{Addresses: [][20]byte{a1}}, true},
		{Criteria{Addresses: [][20]byte{a2}}, false},
		{Criteria{Addresses: [][20]byte{a2, a1}}, true},
		{Criteria{Topics: [][][32]byte{{t1}}}, true},
		{Criteria{Topics: [][][32]byte{{t2}}}, false},
		{Criteria{Topics: [][][32]byte{{}, {t2}}}, true},
		{Criteria{Topics: [][][32]byte{nil, {t3, t2}}}, true},
		{Criteria{Topics: [][][32]byte{{t1}, {t3}}}, false},
		{Criteria{Topics: [][][32]byte{{t1}, {t2}, {}}}, false}, // more positions than topics
		{Criteria{Topics: [][][32]byte{{}, {}}}, true},
		{Criteria{Addresses: [][20]byte{a2}, Topics: [][][32]byte{{t1}}}, false},
	}
	for i, c := range cases {
		if got := Match(l, c.c); got != c.want {
			t.Fatalf("case %d: Match = %v, want %v", i, got, c.want)
		}
	}
}
