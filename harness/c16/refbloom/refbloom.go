// Package refbloom is the independent reference for property C16: the bloom9
// bit positions of the Yellow Paper's M3:2048 function and a brute-force log
// matcher written from the filter semantics. It imports nothing from the
// repository under test.
package refbloom

import (
	"golang.org/x/crypto/sha3"
)

// BloomBytes is the size of a log bloom (2048 bits).
const BloomBytes = 256

// Keccak256 is legacy Keccak-256 (not SHA3-256).
func Keccak256(b []byte) [32]byte {
	h := sha3.NewLegacyKeccak256()
	h.Write(b)
	var out [32]byte
	h.Sum(out[:0])
	return out
}

// Bits returns the three bit numbers (0..2047, bit 0 = least significant bit
// of the 2048-bit big-endian integer) that item sets in a log bloom: the low
// 11 bits of the big-endian byte pairs (0,1), (2,3), (4,5) of keccak(item).
func Bits(item []byte) [3]uint {
	h := Keccak256(item)
	var out [3]uint
	for i := 0; i < 3; i++ {
		out[i] = (uint(h[2*i])<<8 | uint(h[2*i+1])) % 2048
	}
	return out
}

// TestBit reports whether bit n of a 256-byte big-endian bloom is set.
func TestBit(bloom []byte, n uint) bool {
	return bloom[BloomBytes-1-n/8]&(1<<(n%8)) != 0
}

// Contains reports whether all three bits of item are set in bloom.
func Contains(bloom []byte, item []byte) bool {
	for _, b := range Bits(item) {
		if !TestBit(bloom, b) {
			return false
		}
	}
	return true
}

// Make builds the bloom of a set of items from nothing but Bits.
func Make(items [][]byte) [BloomBytes]byte {
	var out [BloomBytes]byte
	for _, it := range items {
		for _, b := range Bits(it) {
			out[BloomBytes-1-b/8] |= 1 << (b % 8)
		}
	}
	return out
}

// Log is the part of a log entry that filters look at.
type Log struct {
	Address [20]byte
	Topics  [][32]byte
}

// Criteria is a log filter: Addresses is an OR-list (empty = any address);
// Topics is positional, each position an OR-set (empty = wildcard). A log
// with fewer topics than there are positions never matches.
type Criteria struct {
	Addresses [][20]byte
	Topics    [][][32]byte
}

// Match is the brute-force matcher.
func Match(l Log, c Criteria) bool {
	if len(c.Addresses) > 0 {
		ok := false
		for _, a := range c.Addresses {
			if a == l.Address {
				ok = true
			}
		}
		if !ok {
			return false
		}
	}
	if len(c.Topics) > len(l.Topics) {
		return false
	}
	for pos, alts := range c.Topics {
		if len(alts) == 0 {
			continue
		}
		ok := false
		for _, t := range alts {
			if t == l.Topics[pos] {
				ok = true
			}
		}
		if !ok {
			return false
		}
	}
	return true
}

// BloomMayMatch is the weakest sound block-level pre-filter: false only if the
// bloom proves that no log of the block can satisfy c.
func BloomMayMatch(bloom []byte, c Criteria) bool {
	if len(c.Addresses) > 0 {
		ok := false
		for _, a := range c.Addresses {
			if Contains(bloom, a[:]) {
				ok = true
			}
		}
		if !ok {
			return false
		}
	}
	for _, alts := range c.Topics {
		if len(alts) == 0 {
			continue
		}
		ok := false
		for _, t := range alts {
			if Contains(bloom, t[:]) {
				ok = true
			}
		}
		if !ok {
			return false
		}
	}
	return true
}
