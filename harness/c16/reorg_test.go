package c16

// Leg (f): the bloom-bits index kept by the node's real core.ChainIndexer while
// the canonical chain reorganises - before, after and in the middle of a
// section being processed. The harness owns the schedule: the indexer reads
// the chain through a database wrapper that performs the reorganisation at a
// chosen read, and the chain events are sent by the harness.

import (
	"encoding/binary"
	"fmt"
	"math/big"
	"sync"
	"sync/atomic"
	"testing"
	"time"

	"gitlab.com/aquachain/aquachain/aqua/event"
	"gitlab.com/aquachain/aquachain/aquadb"
	"gitlab.com/aquachain/aquachain/common"
	"gitlab.com/aquachain/aquachain/core"
	"gitlab.com/aquachain/aquachain/core/types"
	"pgregory.net/rapid"
	"verifharness/ev"
)

// sblock is one synthetic block written to the database.
type sblock struct {
	block *types.Block
	hash  common.Hash
	logs  []xlog
}

// writeSynth writes block num on parent with the given receipts (not canonical yet).
func writeSynth(t fataler, db aquadb.Database, parent common.Hash, num uint64, rcpts [][]lg, extra string) sblock {
	var receipts types.Receipts
	for i, logs := range rcpts {
		r := types.NewReceipt(nil, false, uint64(21000*(i+1)))
		r.TxHash = synthTxHash(num, i)
		for _, l := range logs {
			r.Logs = append(r.Logs, &types.Log{Address: l.Addr, Topics: append([]common.Hash{}, l.Topics...), Data: append([]byte{}, l.Data...)})
		}
		r.Bloom = types.CreateBloom(types.Receipts{r})
		receipts = append(receipts, r)
	}
	header := &types.Header{ParentHash: parent, Number: new(big.Int).SetUint64(num), Difficulty: big.NewInt(1), GasLimit: 8_000_000,
		Time: new(big.Int).SetUint64(1_500_000_000 + 240*num), Extra: []byte(extra), Version: synthConfig.GetBlockVersion(new(big.Int).SetUint64(num))}
	block := types.NewBlock(header, nil, nil, receipts)
	hash := block.Hash()
	var xs []xlog
	idx := uint(0)
	for i, r := range receipts {
		for _, l := range r.Logs {
			l.BlockNumber, l.BlockHash, l.TxHash, l.TxIndex, l.Index = num, hash, r.TxHash, uint(i), idx
			xs = append(xs, xlog{Block: num, BlockHash: hash, TxHash: r.TxHash, TxIndex: uint(i), Index: idx,
				lg: lg{Addr: l.Address, Topics: append([]common.Hash{}, l.Topics...), Data: append([]byte{}, l.Data...)}})
			idx++
		}
	}
	if err := core.WriteBlock(db, block); err != nil {
		t.Fatalf("harness: WriteBlock: %v", err)
	}
	if err := core.WriteBlockReceipts(db, hash, num, receipts); err != nil {
		t.Fatalf("harness: WriteBlockReceipts: %v", err)
	}
	return sblock{block, hash, xs}
}

// fakeChain is the ChainIndexerChain the indexer is attached to: the canonical
// numbering lives in db, events are sent by the harness.
type fakeChain struct {
	db   aquadb.Database
	feed event.Feed
	mu   sync.Mutex
	head *types.Header
}

func (f *fakeChain) CurrentHeader() *types.Header {
	f.mu.Lock()
	defer f.mu.Unlock()
	return types.CopyHeader(f.head)
}

func (f *fakeChain) SubscribeChainEvent(ch chan<- core.ChainEvent) event.Subscription {
	return f.feed.Subscribe(ch)
}

// adopt makes blocks canonical (ascending, like BlockChain.insert/reorg do)
// and then announces those from index evFrom on, like InsertChain does for the
// blocks that were canonical when written.
func (f *fakeChain) adopt(blocks []sblock, evFrom int) {
	for _, b := range blocks {
		core.WriteCanonicalHash(f.db, b.hash, b.block.NumberU64())
	}
	last := blocks[len(blocks)-1]
	core.WriteHeadBlockHash(f.db, last.hash)
	core.WriteHeadHeaderHash(f.db, last.hash)
	f.mu.Lock()
	f.head = last.block.Header()
	f.mu.Unlock()
	for _, b := range blocks[evFrom:] {
		f.feed.Send(core.ChainEvent{Block: b.block, Hash: b.hash})
	}
}

// hookDB is the database the indexer reads the chain through.
type hookDB struct {
	aquadb.Database
	reads   int64
	mu      sync.Mutex
	trigger []byte // fire at the first Get of this key
	fire    func()
	watch   []byte        // a key whose Get (by the event loop, while the hook blocks the update loop) is signalled
	watched chan struct{} // closed when watch was read
	fired   chan struct{}
}

func (h *hookDB) Get(key []byte) ([]byte, error) {
	atomic.AddInt64(&h.reads, 1)
	h.mu.Lock()
	var fire func()
	if h.trigger != nil && string(key) == string(h.trigger) {
		fire, h.trigger, h.fire = h.fire, nil, nil
	} else if h.watch != nil && string(key) == string(h.watch) {
		h.watch = nil
		close(h.watched)
	}
	h.mu.Unlock()
	if fire != nil {
		fire()
		close(h.fired)
	}
	return h.Database.Get(key)
}

func (h *hookDB) idle(quiet, limit time.Duration) {
	deadline := time.Now().Add(limit)
	last, since := atomic.LoadInt64(&h.reads), time.Now()
	for time.Now().Before(deadline) {
		time.Sleep(time.Millisecond)
		if n := atomic.LoadInt64(&h.reads); n != last {
			last, since = n, time.Now()
		} else if time.Since(since) >= quiet {
			return
		}
	}
}

func canonKey(n uint64) []byte {
	k := make([]byte, 10)
	k[0] = 'h'
	binary.BigEndian.PutUint64(k[1:], n)
	k[9] = 'n'
	return k
}

func headerKeyOf(n uint64, h common.Hash) []byte {
	k := make([]byte, 9, 41)
	k[0] = 'h'
	binary.BigEndian.PutUint64(k[1:], n)
	return append(k, h[:]...)
}

func TestIndexerUnderReorg(t *testing.T) {
	nq := ev.Pick(12, 24)
	ev.Check(t, ev.N(60, 2500), func(t *rapid.T) {
		size := rapid.SampledFrom([]uint64{8, 16}).Draw(t, "size")
		confirms := rapid.SampledFrom([]uint64{0, 0, 3}).Draw(t, "confirms")
		L := rapid.IntRange(int(size)+2, 5*int(size)).Draw(t, "lenA")
		a := rapid.IntRange(0, L-1).Draw(t, "ancestor")
		over := rapid.IntRange(1, int(size)+2).Draw(t, "overtake") // B ends this many blocks above A
		const kicks = 3
		lenB := L - a + over + kicks
		scenario := rapid.SampledFrom([]string{"during", "during", "during", "after", "before-start"}).Draw(t, "scenario")

		db := aquadb.NewMemDatabase()
		recA := drawBlocks(t, L)
		recB := drawBlocks(t, lenB)
		A := make([]sblock, L+1)
		parent := common.Hash{}
		for n := 0; n <= L; n++ {
			r := recA[n]
			if n == 0 {
				r = nil
			}
			A[n] = writeSynth(t, db, parent, uint64(n), r, "c16")
			parent = A[n].hash
		}
		B := make([]sblock, lenB) // B[i] has number a+1+i
		parent = A[a].hash
		for i := 0; i < lenB; i++ {
			B[i] = writeSynth(t, db, parent, uint64(a+1+i), recB[i+1], "c16-rival")
			parent = B[i].hash
		}
		chain := &fakeChain{db: db}
		chain.adopt(A, len(A)) // canonical, nobody listening yet
		hdb := &hookDB{Database: db, fired: make(chan struct{}), watched: make(chan struct{})}

		first := len(B) - kicks // blocks of B adopted by the reorganisation itself
		evFrom := rapid.IntRange(L-a, first-1).Draw(t, "eventsfrom")
		reorg := func() { chain.adopt(B[:first], evFrom) }
		labels := []string{"reorg:" + scenario, fmt.Sprintf("size:%d", size)}

		var trig int
		if scenario == "during" {
			// the canonical read at which the chain reorganises: a block above the ancestor that the indexer will read
			hi := L
			if c := int((uint64(L)+1-min64u(confirms, uint64(L)+1))/size*size) - 1; c < hi {
				hi = c
			}
			if hi < a+1 {
				scenario = "after"
				labels[0] = "reorg:after"
			} else {
				trig = rapid.IntRange(a+1, hi).Draw(t, "trigger")
				hdb.trigger = canonKey(uint64(trig))
				hdb.fire = func() {
					hdb.mu.Lock()
					hdb.watch = headerKeyOf(uint64(a), A[a].hash) // the last header the event loop's search for the common ancestor reads
					hdb.mu.Unlock()
					reorg()
					// let the indexer's event loop see the reorganisation before the update loop goes on
					select {
					case <-hdb.watched:
						time.Sleep(2 * time.Millisecond)
					case <-time.After(2 * time.Second):
					}
				}
				if trig > a+1 {
					labels = append(labels, "reorg:mid-section-after-fork")
				}
			}
		}
		if scenario == "before-start" {
			reorg()
		}
		be := &bloomIndexer{size: size, db: aquadb.NewMemDatabase()}
		ix := core.NewChainIndexer(synthConfig, hdb, aquadb.NewTable(aquadb.NewMemDatabase(), "c16-index-"), be, size, confirms, 0, "bloombits")
		closed := false
		defer func() {
			if !closed {
				ix.Close()
			}
		}()
		ix.Start(chain)

		wantFor := func(head uint64) uint64 {
			if head < confirms {
				return 0
			}
			return (head + 1 - confirms) / size
		}
		switch scenario {
		case "during":
			select {
			case <-hdb.fired:
			case <-time.After(60 * time.Second):
				t.Fatalf("harness: the indexer never read canonical block %d (chain head %d, section size %d)", trig, L, size)
			}
		case "after":
			deadline := time.Now().Add(60 * time.Second)
			for {
				if s, _, _ := ix.Sections(); s >= wantFor(uint64(L)) {
					break
				}
				if time.Now().After(deadline) {
					t.Fatalf("ChainIndexer (section size %d, %d confirmations) did not index a chain with head %d", size, confirms, L)
				}
				time.Sleep(time.Millisecond)
			}
			reorg()
		}
		// the chain grows on (a failed section is only retried on the next head)
		delivered := first
		canonical := func() []sblock { return append(append([]sblock{}, A[:a+1]...), B[:delivered]...) }
		settled := func() (bool, uint64) {
			can := canonical()
			stored, _, _ := ix.Sections()
			if stored > uint64(len(can))/size {
				return false, stored
			}
			for s := uint64(0); s < stored; s++ {
				if ix.SectionHead(s) != can[(s+1)*size-1].hash {
					return false, stored
				}
			}
			return stored >= wantFor(uint64(len(can)-1)), stored
		}
		for k := 0; k < kicks; k++ {
			hdb.idle(10*time.Millisecond, time.Second)
			if ok, _ := settled(); ok {
				break
			}
			chain.adopt(B[delivered:delivered+1], 0)
			delivered++
		}
		// quiescence: every section the indexer calls valid ends in the canonical block of that number
		deadline := time.Now().Add(60 * time.Second)
		for {
			hdb.idle(10*time.Millisecond, time.Second)
			ok, stored := settled()
			if ok {
				break
			}
			can := canonical()
			headsOK := stored <= uint64(len(can))/size
			for s := uint64(0); headsOK && s < stored; s++ {
				headsOK = ix.SectionHead(s) == can[(s+1)*size-1].hash
			}
			if headsOK && time.Now().After(deadline.Add(-55*time.Second)) {
				// valid but lagging: the index may trail the chain (it is retried on the next head)
				labels = append(labels, "reorg:index-lags")
				break
			}
			if time.Now().After(deadline) {
				t.Fatalf("60 s after the last chain event the ChainIndexer (section size %d) still calls %d sections valid, one of which does not end in the canonical block (scenario %s, ancestor %d, old head %d, new head %d)",
					size, stored, scenario, a, L, len(can)-1)
			}
		}
		ix.Close()
		closed = true
		can := canonical()
		stored, _, _ := ix.Sections()
		c := &tchain{db: db, cfg: synthConfig, head: uint64(len(can) - 1)}
		for _, b := range can {
			c.hashes = append(c.hashes, b.hash)
			c.logs = append(c.logs, b.logs)
		}
		if stored > (c.head+1)/size {
			t.Fatalf("ChainIndexer reports %d sections of size %d for a chain of %d blocks", stored, size, c.head+1)
		}
		for s := uint64(0); s < stored; s++ {
			if h := ix.SectionHead(s); h != c.hashes[(s+1)*size-1] {
				// an event still in flight when the indexer was closed: nothing to judge
				ev.Case(false, []byte("unsettled"), "reorg:unsettled-at-close")
				return
			}
		}
		c.readBack(t)
		c.finish()
		defer c.close()
		c.idx[size] = &bitsIndex{size: size, full: stored, db: be.db}
		if stored*size > uint64(a)+1 {
			labels = append(labels, "reorg:indexed-above-fork")
		}
		ev.Label("index:chain-indexer")
		bs := backends{}
		for i := 0; i < nq; i++ {
			q, mode := drawQuery(t, c, []uint64{size})
			v, msg := c.judge(t, bs, q, i%3 == 0)
			if msg != "" {
				t.Fatalf("%s\nquery: %v (range mode %s)\nchain: synthetic, reorganised at ancestor %d from head %d to head %d; scenario %s, trigger read %d, %d sections of size %d indexed",
					msg, q, mode, a, L, c.head, scenario, trig, stored, size)
			}
			ev.Case(v.nontriv, append(q.canon(c), "reorg"...), append(v.labels, labels...)...)
			if i == 0 {
				ev.Sample(map[string]interface{}{"chain": "synthetic-reorg", "scenario": scenario, "ancestor": a, "old_head": L, "head": c.head, "trigger_read": trig,
					"sections_indexed": stored, "section_size": size, "query": q.String(), "matched": len(v.want)})
			}
		}
	})
}

func min64u(a, b uint64) uint64 {
	if a < b {
		return a
	}
	return b
}
