package c16

// Leg (e): the bloom-bits index produced by the node's real core.ChainIndexer
// driving a backend that does what aqua.BloomIndexer does (Reset / Process /
// Commit with the real Generator, bitutil and core.WriteBloomBits).

import (
	"time"

	"gitlab.com/aquachain/aquachain/aquadb"
	"gitlab.com/aquachain/aquachain/common"
	"gitlab.com/aquachain/aquachain/common/bitutil"
	"gitlab.com/aquachain/aquachain/core"
	"gitlab.com/aquachain/aquachain/core/bloombits"
	"gitlab.com/aquachain/aquachain/core/types"
	"gitlab.com/aquachain/aquachain/params"
	"verifharness/ev"
)

type bloomIndexer struct {
	size    uint64
	db      aquadb.Database
	gen     *bloombits.Generator
	slots   uint64
	next    uint64
	section uint64
	head    common.Hash
}

func (b *bloomIndexer) Reset(section uint64, lastSectionHead common.Hash) error {
	b.slots = b.size
	if b.size < types.BloomBitLength && ev.Known(knownGeneratorBound) {
		b.slots = types.BloomBitLength // step around the known read-out bound, see tchain.index
		ev.Excluded(knownGeneratorBound)
	}
	gen, err := bloombits.NewGenerator(uint(b.slots))
	b.gen, b.section, b.head, b.next = gen, section, common.Hash{}, 0
	return err
}

func (b *bloomIndexer) Process(header *types.Header) {
	b.gen.AddBloom(uint(header.Number.Uint64()-b.section*b.size), header.Bloom)
	b.head = header.Hash()
	b.next++
}

func (b *bloomIndexer) Commit() error {
	for ; b.next < b.slots; b.next++ { // padding, only when stepping around the known finding
		if err := b.gen.AddBloom(uint(b.next), types.Bloom{}); err != nil {
			return err
		}
	}
	batch := b.db.NewBatch()
	for i := 0; i < types.BloomBitLength; i++ {
		bits, err := b.gen.Bitset(uint(i))
		if err != nil {
			return err
		}
		core.WriteBloomBits(batch, uint(i), b.section, b.head, bitutil.CompressBytes(bits[:b.size/8]))
	}
	return batch.Write()
}

// startIndexer attaches a real ChainIndexer of the given section size and
// confirmation depth to chain (before or after the blocks are imported).
func startIndexer(chainDb aquadb.Database, cfg *params.ChainConfig, chain core.ChainIndexerChain, size, confirms uint64) (*core.ChainIndexer, *bloomIndexer) {
	be := &bloomIndexer{size: size, db: aquadb.NewMemDatabase()}
	table := aquadb.NewTable(aquadb.NewMemDatabase(), "c16-index-")
	ix := core.NewChainIndexer(cfg, chainDb, table, be, size, confirms, 0, "bloombits")
	ix.Start(chain)
	return ix, be
}

// adoptIndexer waits until the indexer has processed every confirmed section
// and installs its output as the chain's index of that section size.
func (c *tchain) adoptIndexer(t fataler, ix *core.ChainIndexer, be *bloomIndexer, confirms uint64) {
	want := uint64(0)
	if c.head >= confirms {
		want = (c.head + 1 - confirms) / be.size
	}
	deadline := time.Now().Add(60 * time.Second)
	var stored uint64
	for {
		stored, _, _ = ix.Sections()
		if stored >= want || time.Now().After(deadline) {
			break
		}
		time.Sleep(time.Millisecond)
	}
	if stored > (c.head+1)/be.size {
		t.Fatalf("ChainIndexer reports %d sections of size %d for a chain of %d blocks", stored, be.size, c.head+1)
	}
	if stored < want {
		t.Fatalf("ChainIndexer (section size %d, %d confirmations) stopped at %d of %d sections for a chain with head %d", be.size, confirms, stored, want, c.head)
	}
	for s := uint64(0); s < stored; s++ {
		if h := ix.SectionHead(s); h != c.hashes[(s+1)*be.size-1] {
			t.Fatalf("ChainIndexer: head of section %d is %x, canonical block %d is %x", s, h, (s+1)*be.size-1, c.hashes[(s+1)*be.size-1])
		}
	}
	c.idx[be.size] = &bitsIndex{size: be.size, full: stored, db: be.db}
	ev.Label("index:chain-indexer")
}
