package c16

// Chain model, chain builders (synthetic and real execution), bloom-bits index
// builder and the filters.Backend the real Filter/Matcher are run against.

import (
	"context"
	"encoding/binary"
	"fmt"
	"math/big"
	"sync"

	"gitlab.com/aquachain/aquachain/aqua/event"
	"gitlab.com/aquachain/aquachain/aquadb"
	"gitlab.com/aquachain/aquachain/common"
	"gitlab.com/aquachain/aquachain/common/bitutil"
	"gitlab.com/aquachain/aquachain/core"
	"gitlab.com/aquachain/aquachain/core/bloombits"
	"gitlab.com/aquachain/aquachain/core/state"
	"gitlab.com/aquachain/aquachain/core/types"
	"gitlab.com/aquachain/aquachain/params"
	"gitlab.com/aquachain/aquachain/rpc"
	"pgregory.net/rapid"
	"verifharness/c16/refbloom"
	"verifharness/ev"
	"verifharness/gen"
)

const knownGeneratorBound = "generator-bitset-bound-is-section-size"

type fataler interface {
	Fatalf(string, ...interface{})
}

// lg is a generated log (consensus fields only).
type lg struct {
	Addr   common.Address
	Topics []common.Hash
	Data   []byte
}

// xlog is an expected log with the derived fields the node must report.
type xlog struct {
	Block     uint64
	BlockHash common.Hash
	TxHash    common.Hash
	TxIndex   uint
	Index     uint
	lg
}

func (x xlog) ref() refbloom.Log {
	r := refbloom.Log{Address: x.Addr}
	for _, t := range x.Topics {
		r.Topics = append(r.Topics, t)
	}
	return r
}

func (x xlog) String() string {
	return fmt.Sprintf("{blk %d tx %d idx %d addr %x topics %x data %x}", x.Block, x.TxIndex, x.Index, x.Addr, x.Topics, x.Data)
}

// tchain is a canonical chain in a node database plus what the harness knows
// about it independently of that database.
type tchain struct {
	db        aquadb.Database
	cfg       *params.ChainConfig
	head      uint64
	hashes    []common.Hash    // canonical hash by number (as the builder produced them)
	blooms    [][]byte         // header bloom by number (as the node computed it)
	logs      [][]xlog         // expected logs by block, in order
	addrs     []common.Address // addresses that occur, in order of first occurrence
	topics    []common.Hash    // topics that occur, in order of first occurrence
	withLogs  []uint64         // numbers of the blocks that hold logs
	idx       map[uint64]*bitsIndex
	synthetic [][][]lg // the generated receipts, for synthetic chains (case files)
	stop      []func()
}

func (c *tchain) close() {
	for _, f := range c.stop {
		f()
	}
}

func (c *tchain) finish() {
	seenA := map[common.Address]bool{}
	seenT := map[common.Hash]bool{}
	for n, ls := range c.logs {
		if len(ls) > 0 {
			c.withLogs = append(c.withLogs, uint64(n))
		}
		for _, l := range ls {
			if !seenA[l.Addr] {
				seenA[l.Addr] = true
				c.addrs = append(c.addrs, l.Addr)
			}
			for _, t := range l.Topics {
				if !seenT[t] {
					seenT[t] = true
					c.topics = append(c.topics, t)
				}
			}
		}
	}
	c.idx = map[uint64]*bitsIndex{}
}

// readBack loads what the node stored: canonical hashes and header blooms.
func (c *tchain) readBack(t fataler) {
	c.blooms = make([][]byte, c.head+1)
	for n := uint64(0); n <= c.head; n++ {
		h := core.GetCanonicalHash(c.db, n)
		if h != c.hashes[n] {
			t.Fatalf("harness: canonical hash of block %d differs from the built block", n)
		}
		hd := core.GetHeaderNoVersion(c.db, h, n)
		if hd == nil {
			t.Fatalf("harness: header %d missing", n)
		}
		c.blooms[n] = append([]byte{}, hd.Bloom[:]...)
	}
}

// ---------- synthetic chains: generated receipts written like the repository's own filter tests do ----------

var synthConfig = &params.ChainConfig{ChainId: big.NewInt(1416), HomesteadBlock: big.NewInt(0), EIP150Block: big.NewInt(0),
	Aquahash: new(params.AquahashConfig), HF: params.ForkMap{}}

func synthTxHash(block uint64, i int) common.Hash {
	var b [12]byte
	binary.BigEndian.PutUint64(b[:8], block)
	binary.BigEndian.PutUint32(b[8:], uint32(i))
	return common.Hash(refbloom.Keccak256(b[:]))
}

// buildSynthetic writes a chain whose block n holds the receipts blocks[n]
// (each receipt a list of logs). Block 0 is the genesis and holds nothing.
func buildSynthetic(t fataler, blocks [][][]lg) *tchain {
	c := &tchain{db: aquadb.NewMemDatabase(), cfg: synthConfig, head: uint64(len(blocks) - 1), synthetic: blocks}
	parent := common.Hash{}
	for n, rcpts := range blocks {
		if n == 0 {
			rcpts = nil
		}
		num := uint64(n)
		var receipts types.Receipts
		for i, logs := range rcpts {
			r := types.NewReceipt(nil, false, uint64(21000*(i+1)))
			r.TxHash = synthTxHash(num, i)
			for _, l := range logs {
				r.Logs = append(r.Logs, &types.Log{Address: l.Addr, Topics: append([]common.Hash{}, l.Topics...), Data: append([]byte{}, l.Data...)})
			}
			r.Bloom = types.CreateBloom(types.Receipts{r})
			receipts = append(receipts, r)
		}
		header := &types.Header{ParentHash: parent, Number: new(big.Int).SetUint64(num), Difficulty: big.NewInt(1), GasLimit: 8_000_000,
			Time: new(big.Int).SetUint64(1_500_000_000 + 240*num), Extra: []byte("c16"), Version: c.cfg.GetBlockVersion(new(big.Int).SetUint64(num))}
		block := types.NewBlock(header, nil, nil, receipts)
		hash := block.Hash()
		var xs []xlog
		idx := uint(0)
		for i, r := range receipts {
			for _, l := range r.Logs {
				// derived fields, as the node fills them in when it stores a processed block
				l.BlockNumber, l.BlockHash, l.TxHash, l.TxIndex, l.Index = num, hash, r.TxHash, uint(i), idx
				xs = append(xs, xlog{Block: num, BlockHash: hash, TxHash: r.TxHash, TxIndex: uint(i), Index: idx,
					lg: lg{Addr: l.Address, Topics: append([]common.Hash{}, l.Topics...), Data: append([]byte{}, l.Data...)}})
				idx++
			}
		}
		if err := core.WriteBlock(c.db, block); err != nil {
			t.Fatalf("harness: WriteBlock: %v", err)
		}
		core.WriteCanonicalHash(c.db, hash, num)
		core.WriteHeadBlockHash(c.db, hash)
		core.WriteHeadHeaderHash(c.db, hash)
		if err := core.WriteBlockReceipts(c.db, hash, num, receipts); err != nil {
			t.Fatalf("harness: WriteBlockReceipts: %v", err)
		}
		c.hashes = append(c.hashes, hash)
		c.logs = append(c.logs, xs)
		parent = hash
	}
	c.readBack(t)
	c.finish()
	return c
}

// ---------- real chains: blocks executed by the node's own state processor ----------

var logKinds = []string{"emit", "emit", "emit", "forward", "forward", "forward-nested", "creator", "reverter", "transfer", "create"}

// ixSpec asks buildReal to index the chain with a real core.ChainIndexer.
type ixSpec struct {
	size, confirms uint64
	early          bool // attach before the blocks are imported (fed by chain events)
}

func buildReal(t *rapid.T, nblocks int, spec *ixSpec) *tchain {
	nc := rapid.SampledFrom(gen.Configs()).Draw(t, "config")
	g := gen.Genesis(nc.Config, 0)
	b, err := gen.NewBuilder(g)
	if err != nil {
		t.Fatalf("harness: builder: %v", err)
	}
	c := &tchain{db: b.DB, cfg: nc.Config, head: uint64(nblocks)}
	c.stop = append(c.stop, b.Chain.Stop)
	var cix *core.ChainIndexer
	var cbe *bloomIndexer
	if spec != nil && spec.early {
		cix, cbe = startIndexer(b.DB, nc.Config, b.Chain, spec.size, spec.confirms)
		c.stop = append(c.stop, func() { cix.Close() })
	}
	parent := b.Chain.Genesis()
	c.hashes = append(c.hashes, parent.Hash())
	c.logs = append(c.logs, nil)
	for n := 1; n <= nblocks; n++ {
		ntx := rapid.SampledFrom([]int{0, 0, 0, 1, 1, 2, 3, 4}).Draw(t, "ntx")
		cnt := 0
		bl, err := b.Build(parent, gen.BlockSpec{Coinbase: gen.Keys[5].Addr, TxFn: func(st *state.StateDB, h *types.Header, gasLeft uint64) *types.Transaction {
			if cnt >= ntx {
				return nil
			}
			cnt++
			tx, _ := gen.DrawTx(t, gen.TxCtx{Config: nc.Config, Num: h.Number, State: st, GasLeft: gasLeft, Kinds: logKinds})
			return tx
		}})
		if err != nil {
			t.Fatalf("harness: build block %d: %v", n, err)
		}
		hash := bl.Block.Hash()
		txs := bl.Block.Transactions()
		if len(txs) != len(bl.Receipts) {
			t.Fatalf("harness: %d txs, %d receipts", len(txs), len(bl.Receipts))
		}
		var xs []xlog
		idx := uint(0)
		for i, r := range bl.Receipts {
			for _, l := range r.Logs {
				xs = append(xs, xlog{Block: uint64(n), BlockHash: hash, TxHash: txs[i].Hash(), TxIndex: uint(i), Index: idx,
					lg: lg{Addr: l.Address, Topics: append([]common.Hash{}, l.Topics...), Data: append([]byte{}, l.Data...)}})
				idx++
			}
			// leg (a) on receipts produced by real execution: the receipt's own bloom
			checkBloomCovers(t, "receipt bloom (real execution)", r.Bloom[:], xs[len(xs)-len(r.Logs):])
		}
		// leg (a): the sealed header's bloom covers every log of the block
		hb := bl.Block.Bloom()
		checkBloomCovers(t, "header bloom (real execution)", hb[:], xs)
		if len(xs) > 0 {
			ev.Label("leg-a:real-exec-block-with-logs")
		}
		c.hashes = append(c.hashes, hash)
		c.logs = append(c.logs, xs)
		parent = bl.Block
	}
	c.readBack(t)
	c.finish()
	if spec != nil {
		if !spec.early {
			cix, cbe = startIndexer(b.DB, nc.Config, b.Chain, spec.size, spec.confirms)
			c.stop = append(c.stop, func() { cix.Close() })
		}
		c.adoptIndexer(t, cix, cbe, spec.confirms)
	}
	return c
}

// fullSections is the number of sections of the given size the chain's index holds (or will hold).
func (c *tchain) fullSections(size uint64) uint64 {
	if ix := c.idx[size]; ix != nil {
		return ix.full
	}
	return (c.head + 1) / size
}

// checkBloomCovers is oracle (a): every address and topic of every log sets its
// three reference bits in bloom. Returns whether bloom holds no other bit.
func checkBloomCovers(t fataler, what string, bloom []byte, logs []xlog) bool {
	var items [][]byte
	for _, l := range logs {
		if !refbloom.Contains(bloom, l.Addr[:]) {
			t.Fatalf("%s: false negative for address %x of log %v (bits %v)", what, l.Addr, l, refbloom.Bits(l.Addr[:]))
		}
		items = append(items, l.Addr[:])
		for i := range l.Topics {
			if !refbloom.Contains(bloom, l.Topics[i][:]) {
				t.Fatalf("%s: false negative for topic %d %x of log %v (bits %v)", what, i, l.Topics[i], l, refbloom.Bits(l.Topics[i][:]))
			}
			items = append(items, l.Topics[i][:])
		}
	}
	want := refbloom.Make(items)
	return string(want[:]) == string(bloom)
}

// ---------- bloom-bits index ----------

type bitsIndex struct {
	size uint64
	full uint64 // number of complete sections
	db   aquadb.Database
}

// index builds (once) the bloom-bits index of section size `size` for every
// complete section, with the real Generator, bitutil compression and
// core.WriteBloomBits, the way aqua.BloomIndexer's Process/Commit do.
func (c *tchain) index(t fataler, size uint64) *bitsIndex {
	if ix := c.idx[size]; ix != nil {
		return ix
	}
	ix := &bitsIndex{size: size, full: (c.head + 1) / size, db: aquadb.NewMemDatabase()}
	c.idx[size] = ix
	header := func(n uint64) *types.Header {
		h := core.GetHeaderNoVersion(c.db, core.GetCanonicalHash(c.db, n), n)
		if h == nil {
			t.Fatalf("harness: header %d missing", n)
		}
		return h
	}
	write := func(section uint64, bit uint, vec []byte) {
		if uint64(len(vec)) != size/8 {
			t.Fatalf("Generator: bit vector of %d bytes for section size %d", len(vec), size)
		}
		core.WriteBloomBits(ix.db, bit, section, c.hashes[(section+1)*size-1], bitutil.CompressBytes(vec))
	}
	if ix.full == 0 {
		return ix
	}
	if size < types.BloomBitLength && ev.Known(knownGeneratorBound) {
		// Known finding: Generator.Bitset(idx) refuses idx >= section size, so a
		// generator of the section's own size cannot be read out for section
		// sizes below 2048. Step around exactly that: feed the same blooms to one
		// real Generator of >= 2048 slots (padded with empty blooms) and cut its
		// vectors at the section boundaries (slot k of the generator is bit k of
		// the vector, MSB first, so a slice at a multiple of 8 is a section).
		slots := ix.full * size
		if slots < types.BloomBitLength {
			slots = types.BloomBitLength
		}
		g, err := bloombits.NewGenerator(uint(slots))
		if err != nil {
			t.Fatalf("NewGenerator(%d): %v", slots, err)
		}
		for n := uint64(0); n < slots; n++ {
			var bl types.Bloom
			if n < ix.full*size {
				bl = header(n).Bloom
			}
			if err := g.AddBloom(uint(n), bl); err != nil {
				t.Fatalf("AddBloom(%d): %v", n, err)
			}
		}
		for bit := uint(0); bit < types.BloomBitLength; bit++ {
			vec, err := g.Bitset(bit)
			if err != nil {
				t.Fatalf("Generator(%d).Bitset(%d): %v", slots, bit, err)
			}
			for s := uint64(0); s < ix.full; s++ {
				write(s, bit, vec[s*size/8:(s+1)*size/8])
			}
		}
		ev.Excluded(knownGeneratorBound)
		return ix
	}
	for s := uint64(0); s < ix.full; s++ {
		g, err := bloombits.NewGenerator(uint(size))
		if err != nil {
			t.Fatalf("NewGenerator(%d): %v", size, err)
		}
		for i := uint64(0); i < size; i++ {
			if err := g.AddBloom(uint(i), header(s*size+i).Bloom); err != nil {
				t.Fatalf("AddBloom(%d) in section %d: %v", i, s, err)
			}
		}
		for bit := uint(0); bit < types.BloomBitLength; bit++ {
			vec, err := g.Bitset(bit)
			if err != nil {
				t.Fatalf("bloom-bits index of section size %d cannot be generated: Generator.Bitset(%d): %v", size, bit, err)
			}
			write(s, bit, vec)
		}
	}
	ev.Label("generator:direct")
	return ix
}

// vector reads one stored bit vector back the way the node's bloom handlers do.
func (ix *bitsIndex) vector(c *tchain, bit uint, section uint64) ([]byte, error) {
	comp, err := core.GetBloomBits(ix.db, bit, section, c.hashes[(section+1)*ix.size-1])
	if err != nil {
		return nil, err
	}
	return bitutil.DecompressBytes(comp, int(ix.size/8))
}

// ---------- filters.Backend ----------

type backend struct {
	c        *tchain
	ix       *bitsIndex
	sections uint64 // index progress reported by BloomStatus
	batch    int
	mux      *event.TypeMux
	feeds    [4]event.Feed
	requests chan chan *bloombits.Retrieval
	quit     chan struct{}

	mu       sync.Mutex
	dropSalt uint64 // 0 = never drop
	attempts map[[2]uint64]int
	dropped  int
	served   int
	badSect  bool
}

func (c *tchain) newBackend(ix *bitsIndex) *backend {
	b := &backend{c: c, ix: ix, batch: 16, mux: new(event.TypeMux), requests: make(chan chan *bloombits.Retrieval), quit: make(chan struct{}),
		attempts: map[[2]uint64]int{}}
	for i := 0; i < 4; i++ {
		go b.serve()
	}
	c.stop = append(c.stop, func() { close(b.quit) })
	return b
}

// prepare sets the per-query knobs.
func (b *backend) prepare(sections uint64, batch int, dropSalt uint64) {
	b.mu.Lock()
	defer b.mu.Unlock()
	b.sections, b.batch, b.dropSalt = sections, batch, dropSalt
	b.attempts = map[[2]uint64]int{}
	b.dropped, b.served, b.badSect = 0, 0, false
}

func mix(a, b, c uint64) uint64 {
	x := a*0x9e3779b97f4a7c15 ^ b*0xc2b2ae3d27d4eb4f ^ c*0x165667b19e3779f9
	x ^= x >> 29
	x *= 0xbf58476d1ce4e5b9
	x ^= x >> 32
	return x
}

// serve answers retrieval tasks from the index database, like
// Aquachain.startBloomHandlers; the first request for some (bit, section)
// pairs is left unanswered (empty bitset), as the repository's own test
// backend does, so that the matcher's re-request path is exercised.
func (b *backend) serve() {
	for {
		select {
		case <-b.quit:
			return
		case request := <-b.requests:
			task := <-request
			task.Bitsets = make([][]byte, len(task.Sections))
			for i, section := range task.Sections {
				b.mu.Lock()
				k := [2]uint64{uint64(task.Bit), section}
				b.attempts[k]++
				drop := b.dropSalt != 0 && b.attempts[k] == 1 && mix(b.dropSalt, uint64(task.Bit), section)%4 == 0
				if drop {
					b.dropped++
				}
				b.served++
				if section >= b.sections {
					b.badSect = true // the matcher asked for a section the backend never announced
				}
				b.mu.Unlock()
				if drop {
					continue
				}
				if section >= b.ix.full {
					task.Error = fmt.Errorf("section %d not indexed", section)
					continue
				}
				vec, err := b.ix.vector(b.c, task.Bit, section)
				if err != nil {
					task.Error = err
					continue
				}
				task.Bitsets[i] = vec
			}
			request <- task
		}
	}
}

func (b *backend) ChainDb() aquadb.Database { return b.c.db }
func (b *backend) EventMux() *event.TypeMux { return b.mux }
func (b *backend) GetHeaderVersion(n *big.Int) params.HeaderVersion {
	return b.c.cfg.GetBlockVersion(n)
}

func (b *backend) HeaderByNumber(ctx context.Context, nr rpc.BlockNumber) (*types.Header, error) {
	var hash common.Hash
	var num uint64
	if nr == rpc.LatestBlockNumber {
		hash = core.GetHeadBlockHash(b.c.db)
		num = core.GetBlockNumber(b.c.db, hash)
	} else {
		num = uint64(nr)
		hash = core.GetCanonicalHash(b.c.db, num)
	}
	header := core.GetHeaderNoVersion(b.c.db, hash, num)
	if header != nil {
		header.Version = b.GetHeaderVersion(header.Number)
	}
	return header, nil
}

func (b *backend) GetReceipts(ctx context.Context, blockHash common.Hash) (types.Receipts, error) {
	return core.GetBlockReceipts(b.c.db, blockHash, core.GetBlockNumber(b.c.db, blockHash)), nil
}

func (b *backend) GetLogs(ctx context.Context, blockHash common.Hash) ([][]*types.Log, error) {
	receipts := core.GetBlockReceipts(b.c.db, blockHash, core.GetBlockNumber(b.c.db, blockHash))
	if receipts == nil {
		return nil, nil
	}
	logs := make([][]*types.Log, len(receipts))
	for i, r := range receipts {
		logs[i] = r.Logs
	}
	return logs, nil
}

func (b *backend) SubscribeTxPreEvent(ch chan<- core.TxPreEvent) event.Subscription {
	return b.feeds[0].Subscribe(ch)
}
func (b *backend) SubscribeChainEvent(ch chan<- core.ChainEvent) event.Subscription {
	return b.feeds[1].Subscribe(ch)
}
func (b *backend) SubscribeRemovedLogsEvent(ch chan<- core.RemovedLogsEvent) event.Subscription {
	return b.feeds[2].Subscribe(ch)
}
func (b *backend) SubscribeLogsEvent(ch chan<- []*types.Log) event.Subscription {
	return b.feeds[3].Subscribe(ch)
}

func (b *backend) BloomStatus() (uint64, uint64) {
	b.mu.Lock()
	defer b.mu.Unlock()
	return b.ix.size, b.sections
}

func (b *backend) ServiceFilter(ctx context.Context, session *bloombits.MatcherSession) {
	b.mu.Lock()
	batch := b.batch
	b.mu.Unlock()
	for i := 0; i < 3; i++ {
		go session.Multiplex(batch, 0, b.requests)
	}
}
