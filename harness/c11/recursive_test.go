package c11

import (
	"bytes"
	"encoding/hex"
	"reflect"
	"testing"

	"gitlab.com/aquachain/aquachain/rlp"
	"pgregory.net/rapid"
	"verifharness/ev"
	"verifharness/ref/refrlp"
)

// Recursive types are supported values too (the type cache terminates on them
// through a placeholder entry). Each family is first met by the codec in a
// different order: struct first (tRec, tMA/tMB), slice first (tRecS), pointer
// first (tRecP).

type tRec struct {
	V    uint64
	Kids []tRec
}

type tRecS struct {
	B    []byte
	Kids []tRecS
}

type tRecP struct {
	V    uint16
	Next *tRecP `rlp:"nil"`
	Kids []*tRecP
}

type tMA struct {
	V  uint8
	Bs []tMB
}

type tMB struct {
	S  string
	As []tMA
}

func drawRec(t *rapid.T, budget *int, depth int) (tRec, refrlp.Item) {
	v := tRec{V: genU64().Draw(t, "v")}
	var kids []refrlp.Item
	if depth < 4 {
		n := rapid.IntRange(0, 3).Draw(t, "nkids")
		for i := 0; i < n && *budget > 0; i++ {
			*budget--
			k, it := drawRec(t, budget, depth+1)
			v.Kids = append(v.Kids, k)
			kids = append(kids, it)
		}
	}
	return v, refrlp.L(refrlp.U(v.V), refrlp.L(kids...))
}

func drawRecS(t *rapid.T, budget *int, depth int) (tRecS, refrlp.Item) {
	v := tRecS{B: rapid.SliceOfN(rapid.Byte(), 0, 3).Draw(t, "b")}
	if len(v.B) == 0 {
		v.B = nil
	}
	var kids []refrlp.Item
	if depth < 4 {
		n := rapid.IntRange(0, 3).Draw(t, "nkids")
		for i := 0; i < n && *budget > 0; i++ {
			*budget--
			k, it := drawRecS(t, budget, depth+1)
			v.Kids = append(v.Kids, k)
			kids = append(kids, it)
		}
	}
	return v, refrlp.L(refrlp.B(v.B), refrlp.L(kids...))
}

func drawRecP(t *rapid.T, budget *int, depth int) (*tRecP, refrlp.Item) {
	v := &tRecP{V: rapid.Uint16().Draw(t, "v")}
	next := refrlp.L()
	var kids []refrlp.Item
	if depth < 4 {
		if *budget > 0 && rapid.Bool().Draw(t, "hasnext") {
			*budget--
			v.Next, next = drawRecP(t, budget, depth+1)
		}
		n := rapid.IntRange(0, 2).Draw(t, "nkids")
		for i := 0; i < n && *budget > 0; i++ {
			*budget--
			k, it := drawRecP(t, budget, depth+1)
			v.Kids = append(v.Kids, k)
			kids = append(kids, it)
		}
	}
	return v, refrlp.L(refrlp.U(uint64(v.V)), next, refrlp.L(kids...))
}

func drawMA(t *rapid.T, budget *int, depth int) (tMA, refrlp.Item) {
	v := tMA{V: rapid.Uint8().Draw(t, "v")}
	var bs []refrlp.Item
	if depth < 4 {
		n := rapid.IntRange(0, 2).Draw(t, "nb")
		for i := 0; i < n && *budget > 0; i++ {
			*budget--
			b := tMB{S: rapid.SampledFrom([]string{"", "a", "\x00", "\x80", "hello"}).Draw(t, "s")}
			var as []refrlp.Item
			m := rapid.IntRange(0, 2).Draw(t, "na")
			for j := 0; j < m && *budget > 0; j++ {
				*budget--
				a, it := drawMA(t, budget, depth+2)
				b.As = append(b.As, a)
				as = append(as, it)
			}
			v.Bs = append(v.Bs, b)
			bs = append(bs, refrlp.L(refrlp.B([]byte(b.S)), refrlp.L(as...)))
		}
	}
	return v, refrlp.L(refrlp.U(uint64(v.V)), refrlp.L(bs...))
}

// nilEmpty replaces empty slices by nil ones throughout v (the decoder yields
// empty non-nil slices for empty lists; both encode identically).
func nilEmpty(v reflect.Value) {
	switch v.Kind() {
	case reflect.Ptr:
		if !v.IsNil() {
			nilEmpty(v.Elem())
		}
	case reflect.Struct:
		for i := 0; i < v.NumField(); i++ {
			nilEmpty(v.Field(i))
		}
	case reflect.Slice:
		if v.Len() == 0 {
			if v.CanSet() {
				v.Set(reflect.Zero(v.Type()))
			}
			return
		}
		for i := 0; i < v.Len(); i++ {
			nilEmpty(v.Index(i))
		}
	}
}

// roundTrip: the encoding is the reference encoding of the hand-built item,
// and decoding it (DecodeBytes and Stream) gives back an equal value.
func roundTrip(t *rapid.T, name string, v interface{}, it refrlp.Item, fresh func() interface{}, deref func(interface{}) interface{}) []byte {
	want := refrlp.Encode(it)
	got, err := rlp.EncodeToBytes(v)
	if err != nil {
		t.Fatalf("%s: encode: %v", name, err)
	}
	if !bytes.Equal(got, want) {
		t.Fatalf("%s: encoding differs from reference:\n got %x\nwant %x", name, got, want)
	}
	back := fresh()
	if err := rlp.DecodeBytes(got, back); err != nil {
		t.Fatalf("%s: decode of own encoding failed: %v (%x)", name, err, got)
	}
	nilEmpty(reflect.ValueOf(back))
	if !reflect.DeepEqual(deref(back), v) {
		t.Fatalf("%s: round trip differs:\n in %+v\nout %+v (%x)", name, v, deref(back), got)
	}
	back2 := fresh()
	if err := rlp.NewStream(onlyReader{bytes.NewReader(got)}, uint64(len(got))).Decode(back2); err != nil {
		t.Fatalf("%s: Stream.Decode of own encoding failed: %v (%x)", name, err, got)
	}
	nilEmpty(reflect.ValueOf(back2))
	if !reflect.DeepEqual(deref(back2), v) {
		t.Fatalf("%s: Stream round trip differs (%x)", name, got)
	}
	return got
}

func TestRecursiveTypes(t *testing.T) {
	// slice-first family: the codec meets []tRecS before tRecS
	var warm []tRecS
	if err := rlp.DecodeBytes([]byte{0xc0}, &warm); err != nil {
		t.Fatalf("decoding an empty list into []tRecS: %v", err)
	}
	ev.Check(t, ev.N(1500, 60_000), func(t *rapid.T) {
		budget := rapid.IntRange(0, 14).Draw(t, "budget")
		var enc []byte
		nested := false
		switch fam := rapid.SampledFrom([]string{"struct-first", "slice-first", "pointer", "mutual"}).Draw(t, "family"); fam {
		case "struct-first":
			v, it := drawRec(t, &budget, 0)
			nested = len(v.Kids) > 0
			enc = roundTrip(t, fam, v, it, func() interface{} { return new(tRec) }, func(p interface{}) interface{} { return *p.(*tRec) })
		case "slice-first":
			v, it := drawRecS(t, &budget, 0)
			nested = len(v.Kids) > 0
			enc = roundTrip(t, fam, v, it, func() interface{} { return new(tRecS) }, func(p interface{}) interface{} { return *p.(*tRecS) })
		case "pointer":
			v, it := drawRecP(t, &budget, 0)
			nested = len(v.Kids) > 0 || v.Next != nil
			enc = roundTrip(t, fam, v, it, func() interface{} { return new(tRecP) }, func(p interface{}) interface{} { return p })
		case "mutual":
			v, it := drawMA(t, &budget, 0)
			nested = len(v.Bs) > 0
			enc = roundTrip(t, fam, v, it, func() interface{} { return new(tMA) }, func(p interface{}) interface{} { return *p.(*tMA) })
		}
		lbl := "recursive:leaf"
		if nested {
			lbl = "recursive:nested"
		}
		ev.Case(nested, append([]byte("rec:"), enc...), "type:recursive", lbl)
		if nested {
			ev.Sample(map[string]interface{}{"kind": "recursive-type", "encoding": hex.EncodeToString(enc)})
		}
	})
}
