// C11 — RLP is a canonical, total and bounded codec.
//
// Oracle: refrlp (independent strict codec over abstract items).
package c11

import (
	"bytes"
	"encoding/hex"
	"fmt"
	"io"
	"math/big"
	"os"
	"reflect"
	"runtime"
	"testing"

	"gitlab.com/aquachain/aquachain/common"
	"gitlab.com/aquachain/aquachain/core/state"
	"gitlab.com/aquachain/aquachain/core/types"
	"gitlab.com/aquachain/aquachain/rlp"
	"pgregory.net/rapid"
	"verifharness/ev"
	"verifharness/ref/refrlp"
)

func TestMain(m *testing.M) {
	ev.MustHit("noncanon:long-form-short-len", "noncanon:leading-zero-len", "noncanon:wrapped-single-byte",
		"noncanon:truncated", "noncanon:trailing", "noncanon:huge-len", "noncanon:int-leading-zero",
		"api:DecodeBytes", "api:Stream", "api:Split", "api:CountValues", "api:Decode(reader)",
		"type:Header", "type:Transaction", "type:Receipt", "type:Log", "type:Account", "type:Block", "type:struct", "recursive:nested",
		"accepted", "rejected", "nesting>=2", "alloc-measured",
		"allocp:long-payload-few-elements", "allocp:long-payload-few-elements-rejected", "allocp:many-elements",
		"allocp:input>=64KiB", "allocp:input>=512KiB", "allocp:consensus-type", "allocp:accepted", "allocp:rejected")
	ev.Main(m, ev.Config{
		Property: "C11",
		Level:    "exploration",
		Rule: "cases: (a) every byte string up to length 4 (quick) / 5 (thorough) over a 15-symbol boundary alphabet, enumerated; " +
			"(b) rapid-generated abstract items, their canonical encodings and single-header non-canonical re-encodings (long form for short length, leading-zero length, wrapped single byte, truncation, trailing byte, huge declared length); " +
			"(c) rapid-generated Go values of every supported kind and every consensus type (Header, Transaction, Block, Receipt, Log, Account), and trees of four recursive type families (struct-first, slice-first, pointer, mutually recursive); " +
			"(d) proportional allocation: for 24 slice-bearing targets ([]uint64, [][]byte, []string, []interface{}, interface{}, []*big.Int, []RawValue, slices of narrow/pointer/wide structs, nested slices, arrays of slices, tail and multi-slice structs, a recursive type, []*Header, []*Transaction, Transactions, Block, Body, []*Receipt, []*Log) a type-directed generator draws a valid item of 2 KiB..1 MiB in three size profiles (sparse = few elements holding large strings, dense = up to 15000 small/empty elements, mixed), optionally changes it (a large string or list inserted into some list, one item changing kind, decoding into another target, one non-canonical header, truncation, trailing byte), and DecodeBytes, NewStream(reader,len).Decode and Decode(bytes.Reader) are each measured (above 128 KiB: DecodeBytes and one of the other two) against min(1.5*need, A*len(input))+8*W*items+16KiB (allocp:* labels; long-payload-few-elements = some list has >= 16 KiB payload and >= 256 bytes per element); accepted inputs must re-encode to themselves, unchanged ones must be accepted, non-canonical/truncated/trailing ones rejected. " +
			"non-trivial = a near-miss (differs from a canonical encoding in one header) or an item with nesting >= 2 or a typed value or a proportional-allocation input of >= 1 KiB; distinct by hash of the input bytes + target name",
		Assumptions: []string{
			"refrlp (harness/ref/refrlp) is a correct strict RLP codec (checked against the grammar and unit vectors)",
			"small inputs (cases a, b, declared-length): TotalAlloc delta <= 256*len(input)+64KiB per decode, the worst case of one 40-byte interface node per input byte with slice growth: catches allocation from a declared length only",
			"large inputs (case d): TotalAlloc delta <= min(1.5*need, A*len(input)) + 8*W*items + 16KiB; need = bytes the leaves of the generated value are copied into ([]byte/RawValue/interface{} leaves once, string/big.Int leaves twice, byte arrays in place), used while the input is the (header-level changed, truncated or extended) encoding of the generated value; A=2 (all leaves copied once) or 3 (target has string/big.Int leaves) for structurally changed inputs; 1.5 and A include <=25% size-class/page rounding; W = widest Go object one item can become in the target type (reflect), items = number of RLP items the input was built from, 8 = 4.5x for 1.5x slice growth plus margin; measured on the unchanged tree: at most 0.70 of the bound; an excess must repeat in 5 measurements; memory proportional to the real element count times the element size is taken as needed by the value, memory proportional to payload bytes times the element size is not",
			"bulk contents of strings longer than 8 bytes in case (d) are a xorshift expansion of one drawn word, not drawn byte by byte",
		},
	})
}

// ---------- abstract item generator ----------

func genItem(depth int) *rapid.Generator[refrlp.Item] {
	return rapid.Custom(func(t *rapid.T) refrlp.Item {
		k := rapid.IntRange(0, 9).Draw(t, "kind")
		if depth <= 0 && k >= 6 {
			k = k % 6
		}
		switch {
		case k == 0:
			return refrlp.B(nil)
		case k == 1:
			return refrlp.B([]byte{rapid.Byte().Draw(t, "b")})
		case k <= 3:
			n := rapid.SampledFrom([]int{0, 1, 2, 3, 8, 20, 32, 54, 55, 56, 57, 100, 255, 256, 300}).Draw(t, "n")
			return refrlp.B(rapid.SliceOfN(rapid.Byte(), n, n).Draw(t, "bytes"))
		case k <= 5:
			return refrlp.B(rapid.SliceOfN(rapid.Byte(), 0, 6).Draw(t, "short"))
		default:
			n := rapid.IntRange(0, 5).Draw(t, "len")
			if k == 9 {
				n = rapid.SampledFrom([]int{0, 1, 55, 56, 60}).Draw(t, "biglen")
			}
			items := make([]refrlp.Item, n)
			for i := range items {
				d := depth - 1
				if n > 6 {
					d = 0
				}
				items[i] = genItem(d).Draw(t, "el")
			}
			return refrlp.L(items...)
		}
	})
}

// encodeMut encodes it canonically except that the header of the target-th
// node (pre-order) is re-encoded with the given non-canonical mode. Parent
// lengths are consistent with the mutated child, so the mutation is reached.
type mutator struct {
	target, seen int
	mode         string
	applied      bool
}

func be(n uint64) []byte {
	var b []byte
	for n > 0 {
		b = append([]byte{byte(n)}, b...)
		n >>= 8
	}
	return b
}

func (m *mutator) header(short, long byte, n int) []byte {
	if n < 56 {
		return []byte{short + byte(n)}
	}
	l := be(uint64(n))
	return append([]byte{long + byte(len(l))}, l...)
}

func (m *mutator) enc(it refrlp.Item) []byte {
	me := m.seen
	m.seen++
	var body []byte
	short, long := byte(0x80), byte(0xb7)
	if it.IsList {
		short, long = 0xc0, 0xf7
		for _, c := range it.List {
			body = append(body, m.enc(c)...)
		}
	} else {
		body = it.Bytes
	}
	if me != m.target {
		if !it.IsList && len(body) == 1 && body[0] < 0x80 {
			return []byte{body[0]}
		}
		return append(m.header(short, long, len(body)), body...)
	}
	n := len(body)
	switch m.mode {
	case "long-form-short-len":
		if n < 56 {
			m.applied = true
			l := []byte{byte(n)}
			return append(append([]byte{long + 1}, l...), body...)
		}
	case "leading-zero-len":
		l := be(uint64(n))
		if n >= 56 {
			m.applied = true
			l = append([]byte{0}, l...)
			return append(append([]byte{long + byte(len(l))}, l...), body...)
		}
		// short value re-encoded in long form with a 2-byte zero-led length
		m.applied = true
		return append([]byte{long + 2, 0, byte(n)}, body...)
	case "wrapped-single-byte":
		if !it.IsList && n == 1 && body[0] < 0x80 {
			m.applied = true
			return []byte{0x81, body[0]}
		}
	case "huge-len":
		m.applied = true
		return append([]byte{long + 8, 0xff, 0xff, 0xff, 0xff, 0xff, 0xff, 0xff, 0xf0}, body...)
	case "big-len":
		m.applied = true
		return append([]byte{long + 4, 0x7f, 0xff, 0xff, 0xff}, body...)
	}
	if !it.IsList && len(body) == 1 && body[0] < 0x80 {
		return []byte{body[0]}
	}
	return append(m.header(short, long, len(body)), body...)
}

func countNodes(it refrlp.Item) int {
	n := 1
	for _, c := range it.List {
		n += countNodes(c)
	}
	return n
}

// ---------- correspondence between rlp's interface{} decoding and refrlp ----------

func toItem(v interface{}) (refrlp.Item, error) {
	switch x := v.(type) {
	case []byte:
		return refrlp.B(x), nil
	case []interface{}:
		items := make([]refrlp.Item, len(x))
		for i := range x {
			it, err := toItem(x[i])
			if err != nil {
				return refrlp.Item{}, err
			}
			items[i] = it
		}
		return refrlp.L(items...), nil
	}
	return refrlp.Item{}, fmt.Errorf("unexpected decoded type %T", v)
}

func memDelta(f func()) uint64 {
	var a, b runtime.MemStats
	runtime.ReadMemStats(&a)
	f()
	runtime.ReadMemStats(&b)
	return b.TotalAlloc - a.TotalAlloc
}

func allocBound(n int) uint64 { return uint64(256*n + 64<<10) }

// checkBytes is the whole byte-level oracle for one input.
func checkBytes(fail func(string, ...interface{}), in []byte, measure bool) (accepted bool) {
	refIt, refErr := refrlp.DecodeExact(in)

	// --- DecodeBytes into interface{} ---
	var v interface{}
	var err error
	if measure {
		d := memDelta(func() { err = rlp.DecodeBytes(in, &v) })
		ev.Label("alloc-measured")
		if d > allocBound(len(in)) {
			fail("DecodeBytes(%x) allocated %d bytes for %d input bytes", in, d, len(in))
		}
	} else {
		err = rlp.DecodeBytes(in, &v)
	}
	ev.Label("api:DecodeBytes")
	if (err == nil) != (refErr == nil) {
		fail("acceptance differs for %x: rlp err=%v, reference err=%v", in, err, refErr)
		return
	}
	if err == nil {
		got, cerr := toItem(v)
		if cerr != nil {
			fail("%v", cerr)
		}
		if !refrlp.Equal(got, refIt) {
			fail("decoded value differs for %x", in)
		}
		re, eerr := rlp.EncodeToBytes(v)
		if eerr != nil || !bytes.Equal(re, in) {
			fail("re-encoding of accepted input differs: in=%x out=%x err=%v", in, re, eerr)
		}
	}

	// --- Stream walk with a known input limit must agree as well ---
	sItem, sErr := streamWalk(rlp.NewStream(bytes.NewReader(in), uint64(len(in))))
	ev.Label("api:Stream")
	// The stream walk reads exactly one value and ignores trailing bytes.
	oneIt, rest, oneErr := refrlp.Decode(in)
	_ = rest
	if (sErr == nil) != (oneErr == nil) {
		fail("Stream acceptance differs for %x: stream err=%v, reference err=%v", in, sErr, oneErr)
	} else if sErr == nil && !refrlp.Equal(sItem, oneIt) {
		fail("Stream value differs for %x", in)
	}

	// --- Decode from an io.Reader that is not a ByteReader with known length via NewStream limit ---
	var v2 interface{}
	err2 := rlp.NewStream(onlyReader{bytes.NewReader(in)}, uint64(len(in))).Decode(&v2)
	ev.Label("api:Decode(reader)")
	if (err2 == nil) != (oneErr == nil) {
		fail("Stream.Decode(reader) acceptance differs for %x: err=%v reference err=%v", in, err2, oneErr)
	}

	// --- Split / SplitList / SplitString / CountValues: header-level canonicity ---
	isList, content, rrest, hErr := refrlp.SplitHead(in)
	k, c, r, spErr := rlp.Split(in)
	ev.Label("api:Split")
	if (spErr == nil) != (hErr == nil) {
		fail("Split acceptance differs for %x: err=%v reference err=%v", in, spErr, hErr)
	} else if spErr == nil {
		if (k == rlp.List) != isList || !bytes.Equal(c, content) || !bytes.Equal(r, rrest) {
			fail("Split result differs for %x", in)
		}
		_, _, e1 := rlp.SplitList(in)
		_, _, e2 := rlp.SplitString(in)
		if (e1 == nil) != isList || (e2 == nil) == isList {
			fail("SplitList/SplitString kinds differ for %x", in)
		}
	}
	// CountValues over the whole input as a sequence
	want, wantErr := 0, error(nil)
	for b := in; len(b) > 0; {
		_, _, rr, e := refrlp.SplitHead(b)
		if e != nil {
			wantErr = e
			break
		}
		b = rr
		want++
	}
	n, cvErr := rlp.CountValues(in)
	ev.Label("api:CountValues")
	if (cvErr == nil) != (wantErr == nil) || (cvErr == nil && n != want) {
		fail("CountValues differs for %x: got %d,%v want %d,%v", in, n, cvErr, want, wantErr)
	}

	// --- typed targets: accept => re-encode equals input ---
	typedTargets(fail, in, refIt, refErr)
	return err == nil
}

type onlyReader struct{ r io.Reader }

func (o onlyReader) Read(p []byte) (int, error) { return o.r.Read(p) }

func streamWalk(s *rlp.Stream) (refrlp.Item, error) {
	kind, _, err := s.Kind()
	if err != nil {
		return refrlp.Item{}, err
	}
	if kind == rlp.List {
		if _, err := s.List(); err != nil {
			return refrlp.Item{}, err
		}
		items := []refrlp.Item{}
		for {
			it, err := streamWalk(s)
			if err == rlp.EOL {
				break
			}
			if err != nil {
				return refrlp.Item{}, err
			}
			items = append(items, it)
		}
		if err := s.ListEnd(); err != nil {
			return refrlp.Item{}, err
		}
		return refrlp.L(items...), nil
	}
	b, err := s.Bytes()
	if err != nil {
		return refrlp.Item{}, err
	}
	return refrlp.B(b), nil
}

type tInner struct {
	A uint64
	B []byte
}
type tNilAddr struct {
	N uint64
	P *[20]byte `rlp:"nil"`
}
type tNilStruct struct {
	N uint64
	P *tInner `rlp:"nil"`
}
type tTail struct {
	A    uint16
	Tail []uint32 `rlp:"tail"`
}
type tRaw struct {
	A rlp.RawValue
	B rlp.RawValue
}

// typedTargets decodes in into many Go types. For each: success implies that
// re-encoding gives the input back exactly (one accepted encoding per value),
// and, where the reference says what the value must be, that the value is it.
func typedTargets(fail func(string, ...interface{}), in []byte, refIt refrlp.Item, refErr error) {
	targets := []struct {
		name string
		mk   func() interface{}
	}{
		{"uint8", func() interface{} { return new(uint8) }},
		{"uint16", func() interface{} { return new(uint16) }},
		{"uint32", func() interface{} { return new(uint32) }},
		{"uint64", func() interface{} { return new(uint64) }},
		{"bool", func() interface{} { return new(bool) }},
		{"big", func() interface{} { return new(big.Int) }},
		{"string", func() interface{} { return new(string) }},
		{"bytes", func() interface{} { return new([]byte) }},
		{"[1]byte", func() interface{} { return new([1]byte) }},
		{"[2]byte", func() interface{} { return new([2]byte) }},
		{"[]uint16", func() interface{} { return new([]uint16) }},
		{"[2]uint16", func() interface{} { return new([2]uint16) }},
		{"[][]byte", func() interface{} { return new([][]byte) }},
		{"tInner", func() interface{} { return new(tInner) }},
		{"tNilAddr", func() interface{} { return new(tNilAddr) }},
		{"tNilStruct", func() interface{} { return new(tNilStruct) }},
		{"tTail", func() interface{} { return new(tTail) }},
		{"tRaw", func() interface{} { return new(tRaw) }},
		{"RawValue", func() interface{} { return new(rlp.RawValue) }},
		{"[]interface", func() interface{} { return new([]interface{}) }},
		{"Header", func() interface{} { return new(types.Header) }},
		{"Transaction", func() interface{} { return new(types.Transaction) }},
		{"Log", func() interface{} { return new(types.Log) }},
		{"Account", func() interface{} { return new(state.Account) }},
	}
	for _, tg := range targets {
		v := tg.mk()
		err := rlp.DecodeBytes(in, v)
		if err != nil {
			continue
		}
		// rlp.RawValue defers validation of the bytes it carries (documented:
		// "can be used to delay RLP decoding"); for it only the round trip is judged.
		if refErr != nil && tg.name != "RawValue" && tg.name != "tRaw" {
			fail("typed target %s accepted an input the reference rejects: %x (%v)", tg.name, in, refErr)
			continue
		}
		if refErr != nil {
			ev.Label("rawvalue-deferred")
		}
		re, eerr := rlp.EncodeToBytes(v)
		if eerr != nil {
			fail("typed target %s: cannot re-encode after decoding %x: %v", tg.name, in, eerr)
			continue
		}
		if !bytes.Equal(re, in) {
			if isNilTagShape(tg.name, in, re) && ev.Known("nil-tag-two-encodings") {
				ev.Excluded("nil-tag-two-encodings")
				continue
			}
			fail("typed target %s: two encodings for one value: accepted %x, canonical %x", tg.name, in, re)
		}
		// value check for scalars against the reference item
		switch x := v.(type) {
		case *uint64:
			if refIt.IsList || new(big.Int).SetBytes(refIt.Bytes).Uint64() != *x {
				fail("uint64 value differs for %x", in)
			}
		case *[]byte:
			if refIt.IsList || !bytes.Equal(refIt.Bytes, *x) {
				fail("[]byte value differs for %x", in)
			}
		case *big.Int:
			if refIt.IsList || new(big.Int).SetBytes(refIt.Bytes).Cmp(x) != 0 {
				fail("big value differs for %x", in)
			}
		}
	}
}

// isNilTagShape recognises the one listed finding's shape: the only difference
// between accepted input and canonical re-encoding is an empty string where
// the canonical form has an empty list, or the reverse, in an rlp:"nil" field.
func isNilTagShape(name string, in, re []byte) bool {
	if name != "tNilAddr" && name != "tNilStruct" && name != "Transaction" {
		return false
	}
	if len(in) != len(re) {
		return false
	}
	diff := 0
	for i := range in {
		if in[i] != re[i] {
			if !((in[i] == 0x80 && re[i] == 0xc0) || (in[i] == 0xc0 && re[i] == 0x80)) {
				return false
			}
			diff++
		}
	}
	return diff == 1
}

func failer(t interface {
	Fatalf(string, ...interface{})
}) func(string, ...interface{}) {
	return func(f string, a ...interface{}) { t.Fatalf(f, a...) }
}

// ---------- (a) exhaustive short strings ----------

var alphabet = []byte{0x00, 0x01, 0x7f, 0x80, 0x81, 0xb7, 0xb8, 0xb9, 0xbf, 0xc0, 0xc1, 0xf7, 0xf8, 0xf9, 0xff}

func TestExhaustiveShort(t *testing.T) {
	maxLen := ev.Pick(4, 5)
	shard, nsh := ev.Shard(), ev.NShards()
	idx := 0
	var rec func(prefix []byte)
	fail := func(f string, a ...interface{}) { t.Errorf(f, a...) }
	rec = func(prefix []byte) {
		if t.Failed() {
			return
		}
		idx++
		if idx%nsh == shard {
			in := append([]byte{}, prefix...)
			acc := checkBytes(fail, in, false)
			_, _, _, hErr := refrlp.SplitHead(in)
			lbl := "rejected"
			if acc {
				lbl = "accepted"
			}
			ev.Case(len(in) >= 2 && (acc || hErr != nil), append([]byte("short:"), in...), lbl)
			if idx%9973 == 0 {
				ev.Sample(map[string]interface{}{"kind": "exhaustive-short", "input": hex.EncodeToString(in), "accepted": acc})
			}
		}
		if len(prefix) == maxLen {
			return
		}
		for _, a := range alphabet {
			rec(append(prefix, a))
		}
	}
	rec(nil)
	if !t.Failed() {
		ev.Exhaustive(fmt.Sprintf("all byte strings of length <= %d over the 15-symbol boundary alphabet %x", maxLen, alphabet))
	} else {
		ev.SaveCase("TestExhaustiveShort", "see log")
	}
}

// ---------- (b) generated items, canonical and near-miss encodings ----------

var modes = []string{"canonical", "long-form-short-len", "leading-zero-len", "wrapped-single-byte", "truncated", "trailing", "huge-len", "big-len", "int-leading-zero", "random"}

func TestItemsAndNearMisses(t *testing.T) {
	ev.Check(t, ev.N(30000, 2_000_000), func(t *rapid.T) {
		it := genItem(3).Draw(t, "item")
		mode := rapid.SampledFrom(modes).Draw(t, "mode")
		canon := refrlp.Encode(it)
		in := canon
		label := ""
		switch mode {
		case "canonical":
		case "truncated":
			if len(canon) > 1 {
				in = canon[:rapid.IntRange(1, len(canon)-1).Draw(t, "cut")]
				label = "noncanon:truncated"
			}
		case "trailing":
			in = append(append([]byte{}, canon...), rapid.Byte().Draw(t, "extra"))
			label = "noncanon:trailing"
		case "int-leading-zero":
			// an integer with a leading zero byte: valid RLP string, invalid integer
			n := rapid.IntRange(1, 8).Draw(t, "n")
			b := append([]byte{0}, rapid.SliceOfN(rapid.Byte(), n-1, n-1).Draw(t, "ib")...)
			in = refrlp.Encode(refrlp.B(b))
			label = "noncanon:int-leading-zero"
			var u uint64
			if err := rlp.DecodeBytes(in, &u); err == nil {
				t.Fatalf("uint64 accepted integer with leading zero: %x", in)
			}
			var bi big.Int
			if err := rlp.DecodeBytes(in, &bi); err == nil {
				t.Fatalf("big.Int accepted integer with leading zero: %x", in)
			}
		case "random":
			in = rapid.SliceOfN(rapid.Byte(), 0, 40).Draw(t, "raw")
		default:
			m := &mutator{target: rapid.IntRange(0, countNodes(it)-1).Draw(t, "target"), mode: mode}
			in = m.enc(it)
			if m.applied {
				label = "noncanon:" + mode
				if mode == "big-len" {
					label = "noncanon:huge-len"
				}
				if _, err := refrlp.DecodeExact(in); err == nil {
					t.Fatalf("harness error: mutated encoding still canonical: %x", in)
				}
			}
		}
		acc := checkBytes(failer(t), in, true)
		if mode == "canonical" && !acc {
			t.Fatalf("canonical encoding rejected: %x", in)
		}
		lbls := []string{label, "rejected"}
		if acc {
			lbls[1] = "accepted"
		}
		d := refrlp.Depth(it)
		if d >= 2 {
			lbls = append(lbls, "nesting>=2")
		}
		ev.Case(label != "" || d >= 2, append([]byte("item:"), in...), lbls...)
		ev.Sample(map[string]interface{}{"kind": "item", "mode": mode, "input": hex.EncodeToString(in), "accepted": acc})
	})
}

// ---------- (c) typed values round trip ----------

type tStruct struct {
	U8   uint8
	U16  uint16
	U32  uint32
	U64  uint64
	Bool bool
	Big  *big.Int
	BigV big.Int
	S    string
	B    []byte
	Arr  [4]byte
	Arr1 [1]byte
	Sl   []uint16
	In   tInner
	P    *tInner
	NilP *tInner   `rlp:"nil"`
	NilA *[20]byte `rlp:"nil"`
	Ign  int       `rlp:"-"`
	If   interface{}
	Raw  rlp.RawValue
	Tail []uint64 `rlp:"tail"`
}

func genBig() *rapid.Generator[*big.Int] {
	return rapid.Custom(func(t *rapid.T) *big.Int {
		b := rapid.SliceOfN(rapid.Byte(), 0, 33).Draw(t, "bigbytes")
		return new(big.Int).SetBytes(b)
	})
}

func genU64() *rapid.Generator[uint64] {
	return rapid.OneOf(rapid.Uint64(), rapid.SampledFrom([]uint64{0, 1, 0x7f, 0x80, 0xff, 0x100, 0xffff, 0x10000, 1<<32 - 1, 1 << 32, 1<<56 - 1, 1 << 56, 1<<64 - 1}))
}

func TestTypedRoundTrip(t *testing.T) {
	ev.Check(t, ev.N(12000, 600_000), func(t *rapid.T) {
		var v tStruct
		v.U8 = rapid.Uint8().Draw(t, "u8")
		v.U16 = rapid.Uint16().Draw(t, "u16")
		v.U32 = rapid.Uint32().Draw(t, "u32")
		v.U64 = genU64().Draw(t, "u64")
		v.Bool = rapid.Bool().Draw(t, "bool")
		v.Big = genBig().Draw(t, "big")
		v.BigV = *genBig().Draw(t, "bigv")
		v.S = string(rapid.SliceOfN(rapid.Byte(), 0, 60).Draw(t, "s"))
		v.B = rapid.SliceOfN(rapid.Byte(), 0, 60).Draw(t, "b")
		copy(v.Arr[:], rapid.SliceOfN(rapid.Byte(), 4, 4).Draw(t, "arr"))
		v.Arr1[0] = rapid.Byte().Draw(t, "arr1")
		v.Sl = rapid.SliceOfN(rapid.Uint16(), 0, 5).Draw(t, "sl")
		v.In = tInner{genU64().Draw(t, "ina"), rapid.SliceOfN(rapid.Byte(), 0, 3).Draw(t, "inb")}
		v.P = &tInner{genU64().Draw(t, "pa"), rapid.SliceOfN(rapid.Byte(), 0, 3).Draw(t, "pb")}
		if rapid.Bool().Draw(t, "nilp") {
			v.NilP = &tInner{genU64().Draw(t, "npa"), rapid.SliceOfN(rapid.Byte(), 0, 3).Draw(t, "npb")}
		}
		if rapid.Bool().Draw(t, "nila") {
			var a [20]byte
			copy(a[:], rapid.SliceOfN(rapid.Byte(), 20, 20).Draw(t, "nab"))
			v.NilA = &a
		}
		v.Ign = 7
		ifItem := genItem(2).Draw(t, "if")
		v.If = fromItem(ifItem)
		rawItem := genItem(2).Draw(t, "raw")
		v.Raw = refrlp.Encode(rawItem)
		v.Tail = rapid.SliceOfN(genU64(), 0, 4).Draw(t, "tail")

		// abstract form, built by hand
		inner := func(x tInner) refrlp.Item { return refrlp.L(refrlp.U(x.A), refrlp.B(x.B)) }
		boolU := uint64(0)
		if v.Bool {
			boolU = 1
		}
		var sl []refrlp.Item
		for _, x := range v.Sl {
			sl = append(sl, refrlp.U(uint64(x)))
		}
		nilp := refrlp.L()
		if v.NilP != nil {
			nilp = inner(*v.NilP)
		}
		nila := refrlp.B(nil)
		if v.NilA != nil {
			nila = refrlp.B(v.NilA[:])
		}
		fields := []refrlp.Item{refrlp.U(uint64(v.U8)), refrlp.U(uint64(v.U16)), refrlp.U(uint64(v.U32)), refrlp.U(v.U64), refrlp.U(boolU),
			refrlp.Big(v.Big), refrlp.Big(&v.BigV), refrlp.B([]byte(v.S)), refrlp.B(v.B), refrlp.B(v.Arr[:]), refrlp.B(v.Arr1[:]),
			refrlp.L(sl...), inner(v.In), inner(*v.P), nilp, nila, ifItem, rawItem}
		for _, x := range v.Tail {
			fields = append(fields, refrlp.U(x))
		}
		want := refrlp.Encode(refrlp.L(fields...))
		got, err := rlp.EncodeToBytes(&v)
		if err != nil {
			t.Fatalf("encode: %v", err)
		}
		if !bytes.Equal(got, want) {
			t.Fatalf("encoding differs from reference:\n got %x\nwant %x", got, want)
		}
		// EncodeToReader and Encode(writer) must give the same bytes
		_, r, err := rlp.EncodeToReader(&v)
		if err != nil {
			t.Fatal(err)
		}
		rb, _ := io.ReadAll(r)
		var wb bytes.Buffer
		if err := rlp.Encode(&wb, &v); err != nil || !bytes.Equal(rb, want) || !bytes.Equal(wb.Bytes(), want) {
			t.Fatalf("EncodeToReader/Encode differ from EncodeToBytes")
		}
		var back tStruct
		if err := rlp.DecodeBytes(got, &back); err != nil {
			t.Fatalf("decode of own encoding failed: %v (%x)", err, got)
		}
		back.Ign = 7
		norm := func(s *tStruct) {
			if len(s.B) == 0 {
				s.B = nil
			}
			if len(s.Sl) == 0 {
				s.Sl = nil
			}
			if len(s.Tail) == 0 {
				s.Tail = nil
			}
			if len(s.In.B) == 0 {
				s.In.B = nil
			}
			if s.P != nil && len(s.P.B) == 0 {
				s.P.B = nil
			}
			if s.NilP != nil && len(s.NilP.B) == 0 {
				s.NilP.B = nil
			}
			s.Big = new(big.Int).SetBytes(s.Big.Bytes())
			s.BigV = *new(big.Int).SetBytes(s.BigV.Bytes())
			s.If = nil
		}
		gotIf, e1 := toItem(back.If)
		if e1 != nil || !refrlp.Equal(gotIf, ifItem) {
			t.Fatalf("interface field differs after round trip")
		}
		norm(&v)
		norm(&back)
		if !reflect.DeepEqual(v, back) {
			t.Fatalf("round trip differs:\n in %+v\nout %+v", v, back)
		}
		ev.Case(true, append([]byte("struct:"), got...), "type:struct")
		ev.Sample(map[string]interface{}{"kind": "typed-struct", "encoding": hex.EncodeToString(got)})
	})
}

func fromItem(it refrlp.Item) interface{} {
	if !it.IsList {
		return append([]byte{}, it.Bytes...)
	}
	out := make([]interface{}, len(it.List))
	for i, c := range it.List {
		out[i] = fromItem(c)
	}
	return out
}

// ---------- consensus types ----------

func genHash(t *rapid.T, l string) common.Hash {
	return common.BytesToHash(rapid.SliceOfN(rapid.Byte(), 32, 32).Draw(t, l))
}
func genAddr(t *rapid.T, l string) common.Address {
	return common.BytesToAddress(rapid.SliceOfN(rapid.Byte(), 20, 20).Draw(t, l))
}

func genHeader(t *rapid.T) *types.Header {
	h := &types.Header{
		ParentHash: genHash(t, "parent"), UncleHash: genHash(t, "uncle"), Coinbase: genAddr(t, "coinbase"),
		Root: genHash(t, "root"), TxHash: genHash(t, "txhash"), ReceiptHash: genHash(t, "rhash"),
		Difficulty: genBig().Draw(t, "diff"), Number: new(big.Int).SetUint64(genU64().Draw(t, "num")),
		GasLimit: genU64().Draw(t, "gl"), GasUsed: genU64().Draw(t, "gu"), Time: new(big.Int).SetUint64(genU64().Draw(t, "time")),
		Extra: rapid.SliceOfN(rapid.Byte(), 0, 40).Draw(t, "extra"), MixDigest: genHash(t, "mix"),
		Version: types.HeaderVersion(rapid.IntRange(1, 4).Draw(t, "ver")),
	}
	copy(h.Bloom[:], rapid.SliceOfN(rapid.Byte(), 256, 256).Draw(t, "bloom"))
	copy(h.Nonce[:], rapid.SliceOfN(rapid.Byte(), 8, 8).Draw(t, "nonce"))
	return h
}

func headerItem(h *types.Header) refrlp.Item {
	return refrlp.L(refrlp.B(h.ParentHash[:]), refrlp.B(h.UncleHash[:]), refrlp.B(h.Coinbase[:]), refrlp.B(h.Root[:]),
		refrlp.B(h.TxHash[:]), refrlp.B(h.ReceiptHash[:]), refrlp.B(h.Bloom[:]), refrlp.Big(h.Difficulty), refrlp.Big(h.Number),
		refrlp.U(h.GasLimit), refrlp.U(h.GasUsed), refrlp.Big(h.Time), refrlp.B(h.Extra), refrlp.B(h.MixDigest[:]), refrlp.B(h.Nonce[:]))
}

type txFields struct {
	nonce    uint64
	price    *big.Int
	gas      uint64
	to       *common.Address
	value    *big.Int
	data     []byte
	v, r, s  *big.Int
}

func genTx(t *rapid.T) (*types.Transaction, refrlp.Item) {
	f := txFields{nonce: genU64().Draw(t, "nonce"), price: genBig().Draw(t, "price"), gas: genU64().Draw(t, "gas"),
		value: genBig().Draw(t, "value"), data: rapid.SliceOfN(rapid.Byte(), 0, 70).Draw(t, "data"),
		v: new(big.Int).SetUint64(rapid.Uint64Range(0, 1<<40).Draw(t, "v")), r: genBig().Draw(t, "r"), s: genBig().Draw(t, "s")}
	toItem := refrlp.B(nil)
	if rapid.Bool().Draw(t, "hasTo") {
		a := genAddr(t, "to")
		f.to = &a
		toItem = refrlp.B(a[:])
	}
	item := refrlp.L(refrlp.U(f.nonce), refrlp.Big(f.price), refrlp.U(f.gas), toItem, refrlp.Big(f.value), refrlp.B(f.data),
		refrlp.Big(f.v), refrlp.Big(f.r), refrlp.Big(f.s))
	var tx types.Transaction
	if err := rlp.DecodeBytes(refrlp.Encode(item), &tx); err != nil {
		t.Fatalf("reference-encoded transaction rejected: %v", err)
	}
	// field agreement through the public getters
	if tx.Nonce() != f.nonce || tx.GasPrice().Cmp(f.price) != 0 || tx.Gas() != f.gas || tx.Value().Cmp(f.value) != 0 ||
		!bytes.Equal(tx.Data(), f.data) || (tx.To() == nil) != (f.to == nil) || (f.to != nil && *tx.To() != *f.to) {
		t.Fatalf("transaction fields differ after decoding")
	}
	v, r, s := tx.RawSignatureValues()
	if v.Cmp(f.v) != 0 || r.Cmp(f.r) != 0 || s.Cmp(f.s) != 0 {
		t.Fatalf("signature values differ after decoding")
	}
	return &tx, item
}

func genLog(t *rapid.T) (*types.Log, refrlp.Item) {
	l := &types.Log{Address: genAddr(t, "laddr"), Data: rapid.SliceOfN(rapid.Byte(), 0, 70).Draw(t, "ldata")}
	n := rapid.IntRange(0, 4).Draw(t, "ntopics")
	var topics []refrlp.Item
	for i := 0; i < n; i++ {
		h := genHash(t, "topic")
		l.Topics = append(l.Topics, h)
		topics = append(topics, refrlp.B(h[:]))
	}
	return l, refrlp.L(refrlp.B(l.Address[:]), refrlp.L(topics...), refrlp.B(l.Data))
}

func mutateOneHeader(t *rapid.T, it refrlp.Item) ([]byte, string) {
	mode := rapid.SampledFrom([]string{"long-form-short-len", "leading-zero-len", "wrapped-single-byte", "huge-len"}).Draw(t, "cmode")
	m := &mutator{target: rapid.IntRange(0, countNodes(it)-1).Draw(t, "ctarget"), mode: mode}
	out := m.enc(it)
	if !m.applied {
		return nil, ""
	}
	return out, mode
}

func TestConsensusTypes(t *testing.T) {
	ev.Check(t, ev.N(10000, 500_000), func(t *rapid.T) {
		which := rapid.SampledFrom([]string{"Header", "Transaction", "Receipt", "Log", "Account", "Block"}).Draw(t, "which")
		var val interface{}
		var item refrlp.Item
		mk := func() interface{} { return nil }
		switch which {
		case "Header":
			h := genHeader(t)
			val, item = h, headerItem(h)
			mk = func() interface{} { return new(types.Header) }
		case "Transaction":
			tx, it := genTx(t)
			val, item = tx, it
			mk = func() interface{} { return new(types.Transaction) }
		case "Log":
			l, it := genLog(t)
			val, item = l, it
			mk = func() interface{} { return new(types.Log) }
		case "Account":
			a := &state.Account{Nonce: genU64().Draw(t, "anonce"), Balance: genBig().Draw(t, "abal"), Root: genHash(t, "aroot"),
				CodeHash: rapid.SliceOfN(rapid.Byte(), 0, 32).Draw(t, "acode")}
			val = a
			item = refrlp.L(refrlp.U(a.Nonce), refrlp.Big(a.Balance), refrlp.B(a.Root[:]), refrlp.B(a.CodeHash))
			mk = func() interface{} { return new(state.Account) }
		case "Receipt":
			r := &types.Receipt{CumulativeGasUsed: genU64().Draw(t, "cgas")}
			var post refrlp.Item
			if rapid.Bool().Draw(t, "byz") {
				if rapid.Bool().Draw(t, "ok") {
					r.Status = types.ReceiptStatusSuccessful
					post = refrlp.B([]byte{1})
				} else {
					r.Status = types.ReceiptStatusFailed
					post = refrlp.B(nil)
				}
			} else {
				h := genHash(t, "post")
				r.PostState = h[:]
				post = refrlp.B(h[:])
			}
			var logs []refrlp.Item
			for i, n := 0, rapid.IntRange(0, 3).Draw(t, "nlogs"); i < n; i++ {
				l, it := genLog(t)
				r.Logs = append(r.Logs, l)
				logs = append(logs, it)
			}
			r.Bloom = types.CreateBloom(types.Receipts{r})
			val = r
			item = refrlp.L(post, refrlp.U(r.CumulativeGasUsed), refrlp.B(r.Bloom[:]), refrlp.L(logs...))
			mk = func() interface{} { return new(types.Receipt) }
		case "Block":
			h := genHeader(t)
			var txs []*types.Transaction
			var txItems, uncleItems []refrlp.Item
			for i, n := 0, rapid.IntRange(0, 3).Draw(t, "ntx"); i < n; i++ {
				tx, it := genTx(t)
				txs = append(txs, tx)
				txItems = append(txItems, it)
			}
			var uncles []*types.Header
			for i, n := 0, rapid.IntRange(0, 2).Draw(t, "nunc"); i < n; i++ {
				u := genHeader(t)
				uncles = append(uncles, u)
				uncleItems = append(uncleItems, headerItem(u))
			}
			b := types.NewBlockWithHeader(h).WithBody(txs, uncles)
			val = b
			item = refrlp.L(headerItem(h), refrlp.L(txItems...), refrlp.L(uncleItems...))
			mk = func() interface{} { return new(types.Block) }
		}
		want := refrlp.Encode(item)
		got, err := rlp.EncodeToBytes(val)
		if err != nil {
			t.Fatalf("%s: encode: %v", which, err)
		}
		if !bytes.Equal(got, want) {
			t.Fatalf("%s: encoding differs from reference:\n got %x\nwant %x", which, got, want)
		}
		back := mk()
		if err := rlp.DecodeBytes(got, back); err != nil {
			t.Fatalf("%s: decoding own encoding: %v", which, err)
		}
		re, err := rlp.EncodeToBytes(back)
		if err != nil || !bytes.Equal(re, got) {
			t.Fatalf("%s: decode/encode not idempotent", which)
		}
		// near-miss: one header of the encoding re-encoded non-minimally must be rejected
		if mut, mode := mutateOneHeader(t, item); mut != nil {
			x := mk()
			if err := rlp.DecodeBytes(mut, x); err == nil {
				t.Fatalf("%s: accepted a non-canonical encoding (%s): %x", which, mode, mut)
			}
			ev.Label("noncanon:" + mode)
		}
		// trailing garbage and truncation rejected
		x := mk()
		if err := rlp.DecodeBytes(append(append([]byte{}, got...), 0x00), x); err == nil {
			t.Fatalf("%s: accepted trailing byte", which)
		}
		if len(got) > 1 {
			cut := rapid.IntRange(0, len(got)-1).Draw(t, "cut")
			x = mk()
			if err := rlp.DecodeBytes(got[:cut], x); err == nil {
				t.Fatalf("%s: accepted truncated input (%d of %d bytes)", which, cut, len(got))
			}
		}
		// the alternative empty form in the rlp:"nil" recipient field (0xC0 for 0x80)
		if which == "Transaction" && val.(*types.Transaction).To() == nil {
			alt := append([]byte{}, got...)
			pos := txRecipientOffset(item)
			if alt[pos] != 0x80 {
				t.Fatalf("harness error: recipient offset")
			}
			alt[pos] = 0xc0
			x := new(types.Transaction)
			if err := rlp.DecodeBytes(alt, x); err == nil {
				if ev.Known("nil-tag-two-encodings") {
					ev.Excluded("nil-tag-two-encodings")
				} else {
					t.Fatalf("Transaction accepted 0xC0 as an empty recipient: two encodings for one value: %x", alt)
				}
			}
			ev.Label("tx-recipient-alt-empty")
		}
		ev.Case(true, append([]byte(which+":"), got...), "type:"+which)
		ev.Sample(map[string]interface{}{"kind": "consensus", "type": which, "encoding": hex.EncodeToString(got)})
	})
}

func txRecipientOffset(item refrlp.Item) int {
	full := refrlp.Encode(item)
	var body []byte
	for _, c := range item.List[:3] {
		body = append(body, refrlp.Encode(c)...)
	}
	var rest []byte
	for _, c := range item.List {
		rest = append(rest, refrlp.Encode(c)...)
	}
	return len(full) - len(rest) + len(body)
}

// ---------- bounded allocation with hostile declared lengths ----------

func TestDeclaredLengthBound(t *testing.T) {
	ev.Check(t, ev.N(5000, 100_000), func(t *rapid.T) {
		ll := rapid.IntRange(1, 8).Draw(t, "lenlen")
		lb := rapid.SliceOfN(rapid.Byte(), ll, ll).Draw(t, "lenbytes")
		if lb[0] == 0 {
			lb[0] = 1
		}
		base := rapid.SampledFrom([]byte{0xb7, 0xf7}).Draw(t, "base")
		in := append([]byte{base + byte(ll)}, lb...)
		in = append(in, rapid.SliceOfN(rapid.Byte(), 0, 30).Draw(t, "tail")...)
		prefixDepth := rapid.IntRange(0, 3).Draw(t, "wrap")
		for i := 0; i < prefixDepth; i++ {
			if len(in) < 56 {
				in = append([]byte{0xc0 + byte(len(in))}, in...)
			}
		}
		checkBytes(failer(t), in, true)
		// typed targets with declared lengths, measured
		for _, mk := range []func() interface{}{
			func() interface{} { return new([]byte) }, func() interface{} { return new(string) },
			func() interface{} { return new([]uint64) }, func() interface{} { return new(types.Transaction) },
			func() interface{} { return new(rlp.RawValue) }, func() interface{} { return new([][]byte) },
			func() interface{} { return new(types.Block) }, func() interface{} { return new(big.Int) },
		} {
			v := mk()
			d := memDelta(func() { rlp.DecodeBytes(in, v) })
			if d > allocBound(len(in)) {
				t.Fatalf("DecodeBytes(%x) into %T allocated %d bytes", in, v, d)
			}
			// Stream with an explicit limit from a plain reader
			v = mk()
			d = memDelta(func() { rlp.NewStream(onlyReader{bytes.NewReader(in)}, uint64(len(in))).Decode(v) })
			if d > allocBound(len(in)) {
				t.Fatalf("NewStream(limit).Decode(%x) into %T allocated %d bytes", in, v, d)
			}
		}
		ev.Case(true, append([]byte("declen:"), in...), "noncanon:huge-len", "alloc-measured")
	})
}

// ---------- saved corpus (regressions and fuzz finds) ----------

func TestCorpusReplay(t *testing.T) {
	dir := os.Getenv("VERIF_CORPUS")
	ents, _ := os.ReadDir(dir)
	for _, e := range ents {
		b, err := os.ReadFile(dir + "/" + e.Name())
		if err != nil {
			continue
		}
		in, err := hex.DecodeString(string(bytes.TrimSpace(b)))
		if err != nil {
			in = b
		}
		checkBytes(func(f string, a ...interface{}) { t.Errorf(e.Name()+": "+f, a...) }, in, true)
		ev.Case(true, append([]byte("corpus:"), in...), "corpus")
	}
}

// TestReplay re-runs one saved case file (hex input) without rapid.
func TestReplay(t *testing.T) {
	p := ev.ReplayPath()
	if p == "" {
		t.Skip("no VERIF_REPLAY")
	}
	b, err := os.ReadFile(p)
	if err != nil {
		t.Fatal(err)
	}
	in, err := hex.DecodeString(string(bytes.Trim(bytes.TrimSpace(b), "\"")))
	if err != nil {
		t.Fatalf("replay file is not hex: %v", err)
	}
	checkBytes(func(f string, a ...interface{}) { t.Errorf(f, a...) }, in, true)
}

// FuzzDecode is the coverage-guided target: same oracle, raw bytes.
func FuzzDecode(f *testing.F) {
	for _, s := range []string{"", "80", "c0", "8180", "b838", "f838", "c180", "f90000", "bfffffffffffffffff", "c883616263c3010203",
		"f85f800182520894095e7baea6a6c7c4c2dfeb977efac326af552d870b801ba048b55bfa915ac795c431978d8a6a992b628d557da5ff759b307d495a36649353a01fffd310ac743f371de3b9f7f9cb56c0b28ad43601b4ab949f53faa07bd2c804"} {
		b, _ := hex.DecodeString(s)
		f.Add(b)
	}
	f.Fuzz(func(t *testing.T, in []byte) {
		if len(in) > 4096 {
			return
		}
		checkBytes(func(f string, a ...interface{}) { t.Fatalf(f, a...) }, in, false)
	})
}
