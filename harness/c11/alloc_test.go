package c11

// Proportional allocation: "for inputs of known length, without allocating more
// than that length".
//
// The clause is read as: the memory a decode takes is proportional to the input
// and to the value that the input really holds - not to a declared size, and not
// to a count that is derived from a size (payload bytes taken as a number of
// elements) multiplied by the size of a Go element type. The bound judged here is
//
//	TotalAlloc delta <= data + 8*W(T)*nodes + 16 KiB
//	data = min(1.5*need, A(T)*len(input))
//
// nodes = number of RLP items that the input holds (known from the abstract item
// the input is built from), W(T) = widest Go object that one item can turn into
// for target type T (from reflect, see widest), need = bytes that the leaves of
// the generated value are copied into ([]byte, RawValue, interface{} leaves once,
// string and big.Int leaves twice, byte arrays in place; only known while the
// input still is the encoding of the generated value), A(T) = 2 for targets whose
// string leaves are all copied once, 3 for targets with string/big.Int leaves;
// 1.5 and A include the allocator's size-class and page rounding (<= 25%). The
// factor 8 covers the 1.5x growth of a slice that is filled element by element
// (sum of the discarded backing arrays <= 4.5x). On the unchanged tree the worst
// observed use of the bound is 0.70.
//
// Inputs are made large (up to 1 MiB) so that the constant does not hide a
// factor, and in two shapes that matter: long payloads with few elements (large
// strings inside lists) and many small/empty elements; accepted and rejected.

import (
	"bytes"
	"encoding/hex"
	"fmt"
	"math/big"
	"os"
	"reflect"
	"runtime"
	"strings"
	"testing"

	"gitlab.com/aquachain/aquachain/core/types"
	"gitlab.com/aquachain/aquachain/rlp"
	"pgregory.net/rapid"
	"verifharness/ev"
	"verifharness/ref/refrlp"
)

// ---------- wire shapes of the types that have their own DecodeRLP ----------

// wStatus is the first receipt field: empty, 0x01 or a 32-byte state root.
type wStatus []byte

type wTx struct {
	Nonce   uint64
	Price   *big.Int
	Gas     uint64
	To      *[20]byte `rlp:"nil"`
	Value   *big.Int
	Data    []byte
	V, R, S *big.Int
}

type wLog struct {
	Address [20]byte
	Topics  [][32]byte
	Data    []byte
}

type wReceipt struct {
	Post  wStatus
	Gas   uint64
	Bloom [256]byte
	Logs  []wLog
}

type wBlock struct {
	Header types.Header
	Txs    []wTx
	Uncles []types.Header
}

type wBody struct {
	Txs    []wTx
	Uncles []types.Header
}

// ---------- plain target types ----------

type tWide struct {
	H1, H2, H3, H4 [32]byte
	Bloom          [256]byte
	A, B, C, D     uint64
	Data           []byte
	N              *big.Int
	Pad            [64]byte
}

type tTailBig struct {
	A    uint16
	B    []byte
	Tail [][]byte `rlp:"tail"`
}

type tMulti struct {
	A []uint64
	B [][]byte
	C []string
	P *tInner `rlp:"nil"`
	D []tInner
}

type allocTarget struct {
	name string
	mk   func() interface{}
	wire reflect.Type // shape the generator follows (the target's own type unless it has a DecodeRLP)
	cons bool         // consensus type
}

func typeOf(p interface{}) reflect.Type { return reflect.TypeOf(p).Elem() }

var allocTargets = []allocTarget{
	{"[]uint64", func() interface{} { return new([]uint64) }, typeOf(new([]uint64)), false},
	{"[]uint16", func() interface{} { return new([]uint16) }, typeOf(new([]uint16)), false},
	{"[][]byte", func() interface{} { return new([][]byte) }, typeOf(new([][]byte)), false},
	{"[]string", func() interface{} { return new([]string) }, typeOf(new([]string)), false},
	{"[]interface{}", func() interface{} { return new([]interface{}) }, typeOf(new([]interface{})), false},
	{"interface{}", func() interface{} { return new(interface{}) }, typeOf(new(interface{})), false},
	{"[]*big.Int", func() interface{} { return new([]*big.Int) }, typeOf(new([]*big.Int)), false},
	{"[]RawValue", func() interface{} { return new([]rlp.RawValue) }, typeOf(new([]rlp.RawValue)), false},
	{"[]tInner", func() interface{} { return new([]tInner) }, typeOf(new([]tInner)), false},
	{"[]*tInner", func() interface{} { return new([]*tInner) }, typeOf(new([]*tInner)), false},
	{"[]tWide", func() interface{} { return new([]tWide) }, typeOf(new([]tWide)), false},
	{"[][]uint64", func() interface{} { return new([][]uint64) }, typeOf(new([][]uint64)), false},
	{"[][][]byte", func() interface{} { return new([][][]byte) }, typeOf(new([][][]byte)), false},
	{"[3][]uint64", func() interface{} { return new([3][]uint64) }, typeOf(new([3][]uint64)), false},
	{"tTailBig", func() interface{} { return new(tTailBig) }, typeOf(new(tTailBig)), false},
	{"tMulti", func() interface{} { return new(tMulti) }, typeOf(new(tMulti)), false},
	{"tRecS", func() interface{} { return new(tRecS) }, typeOf(new(tRecS)), false},
	{"[]*Header", func() interface{} { return new([]*types.Header) }, typeOf(new([]*types.Header)), true},
	{"[]*Transaction", func() interface{} { return new([]*types.Transaction) }, typeOf(new([]wTx)), true},
	{"Transactions", func() interface{} { return new(types.Transactions) }, typeOf(new([]wTx)), true},
	{"Block", func() interface{} { return new(types.Block) }, typeOf(new(wBlock)), true},
	{"Body", func() interface{} { return new(types.Body) }, typeOf(new(wBody)), true},
	{"[]*Receipt", func() interface{} { return new([]*types.Receipt) }, typeOf(new([]wReceipt)), true},
	{"[]*Log", func() interface{} { return new([]*types.Log) }, typeOf(new([]wLog)), true},
}

var (
	bigIntType   = reflect.TypeOf(big.Int{})
	rawValueType = reflect.TypeOf(rlp.RawValue{})
	statusType   = reflect.TypeOf(wStatus{})
)

// widest returns the size of the largest Go object that a single RLP item can
// become when decoding into typ: the element of a slice, the target of a
// pointer (plus the pointer), an interface slot plus the boxed slice header.
func widest(typ reflect.Type, seen map[reflect.Type]bool) uintptr {
	if seen[typ] {
		return 0
	}
	seen[typ] = true
	w := typ.Size()
	max := func(x uintptr) {
		if x > w {
			w = x
		}
	}
	switch typ.Kind() {
	case reflect.Ptr:
		max(8 + typ.Elem().Size())
		max(8 + widest(typ.Elem(), seen))
	case reflect.Slice, reflect.Array:
		max(widest(typ.Elem(), seen))
	case reflect.Struct:
		for i := 0; i < typ.NumField(); i++ {
			max(widest(typ.Field(i).Type, seen))
		}
	case reflect.Interface:
		max(16 + 24)
	}
	return w
}

// copiesTwice reports whether typ has leaves that the decoder must copy twice
// (string: bytes then string; big.Int: bytes then words).
func copiesTwice(typ reflect.Type, seen map[reflect.Type]bool) bool {
	if seen[typ] {
		return false
	}
	seen[typ] = true
	if typ == bigIntType {
		return true
	}
	switch typ.Kind() {
	case reflect.String:
		return true
	case reflect.Ptr, reflect.Slice, reflect.Array:
		return copiesTwice(typ.Elem(), seen)
	case reflect.Struct:
		for i := 0; i < typ.NumField(); i++ {
			if copiesTwice(typ.Field(i).Type, seen) {
				return true
			}
		}
	}
	return false
}

// defersValidation: RawValue leaves keep their bytes unjudged.
func defersValidation(typ reflect.Type, seen map[reflect.Type]bool) bool {
	if seen[typ] {
		return false
	}
	seen[typ] = true
	if typ == rawValueType {
		return true
	}
	switch typ.Kind() {
	case reflect.Ptr, reflect.Slice, reflect.Array:
		return defersValidation(typ.Elem(), seen)
	case reflect.Struct:
		for i := 0; i < typ.NumField(); i++ {
			if defersValidation(typ.Field(i).Type, seen) {
				return true
			}
		}
	}
	return false
}

const (
	propGrowth = 8
	propConst  = 16 << 10
)

// propBound: need is the number of bytes that the leaves of the value must be
// copied into (each []byte/RawValue/interface{} leaf once, each string/big.Int
// leaf twice, byte arrays in place), known when the input is an unchanged or
// header-level changed encoding of a generated value; it is allowed 1.5 times
// (size-class and page rounding take up to 25%). need < 0: unknown, the whole
// input is allowed A(T) = 2 or 3 times.
func propBound(tg allocTarget, inLen, nodes, need int) uint64 {
	real := reflect.TypeOf(tg.mk()).Elem()
	a := 2
	if copiesTwice(real, map[reflect.Type]bool{}) || copiesTwice(tg.wire, map[reflect.Type]bool{}) {
		a = 3
	}
	w := widest(real, map[reflect.Type]bool{})
	if w2 := widest(tg.wire, map[reflect.Type]bool{}); w2 > w {
		w = w2
	}
	data := a * inLen
	if need >= 0 && need+need/2 < data {
		data = need + need/2
	}
	return uint64(data) + uint64(propGrowth*int(w)*nodes) + propConst
}

// ---------- sizes ----------

// sizer decides how long strings and lists are in one case. Everything it
// decides is drawn from rapid; bulk string contents are a pure function of a
// drawn word (the contents of a large string do not matter to the decoder,
// drawing a megabyte byte by byte would only be slow).
type sizer struct {
	t      *rapid.T
	left   int // bytes that large strings may still take
	bigLen int // nominal length of a large string
	bigPc  int // chance (per cent) that a free-length string is large
	long   int // nominal length of a long list
	longPc int // chance (per cent) that a list is long
	nodes  int // items that may still be generated
	fill   uint64
	need   int // bytes the leaves generated so far must be copied into (see propBound)
}

// bulkPattern is a fixed block of xorshift output; bulk strings are windows
// into it (read-only, shared between items: the decoder copies what it keeps).
var bulkPattern = func() []byte {
	b := make([]byte, 2<<20+64)
	x := uint64(0x9e3779b97f4a7c15)
	for i := 0; i < len(b); i += 8 {
		x ^= x << 13
		x ^= x >> 7
		x ^= x << 17
		for j := 0; j < 8 && i+j < len(b); j++ {
			b[i+j] = byte(x >> (8 * uint(j)))
		}
	}
	return b
}()

func (z *sizer) bulk(n int, nonzeroLead bool) []byte {
	x := z.fill | 1
	x ^= x << 13
	x ^= x >> 7
	x ^= x << 17
	z.fill = x
	if n > 2<<20 {
		panic("c11: bulk string too long")
	}
	off := int(x % uint64(len(bulkPattern)-n-32))
	for nonzeroLead && n > 0 && bulkPattern[off] == 0 {
		off++
	}
	return bulkPattern[off : off+n : off+n]
}

// strLen: integer leaves (big.Int) are large five times less often than byte
// strings, so that in structs with many integer fields (transactions, headers)
// the byte-string fields get their share of the large strings.
func (z *sizer) strLen(integer bool) int {
	pc := z.bigPc
	if integer {
		pc = (pc + 4) / 5
	}
	if z.left > 0 && pc > 0 && rapid.IntRange(0, 99).Draw(z.t, "big?") < pc {
		n := z.bigLen
		switch rapid.IntRange(0, 3).Draw(z.t, "bigjit") {
		case 0:
			n = n / 2
		case 1:
			n = n + n/3
		}
		if n > z.left {
			n = z.left
		}
		if n < 1 {
			n = 1
		}
		z.left -= n
		return n
	}
	return rapid.SampledFrom([]int{0, 0, 0, 1, 1, 2, 8, 20, 32, 55, 56, 60}).Draw(z.t, "slen")
}

func (z *sizer) listLen() int {
	n := rapid.IntRange(0, 4).Draw(z.t, "llen")
	if z.longPc > 0 && rapid.IntRange(0, 99).Draw(z.t, "long?") < z.longPc {
		n = z.long
		if rapid.Bool().Draw(z.t, "longjit") {
			n = n/2 + 1
		}
	}
	if n > z.nodes {
		n = z.nodes
	}
	if n < 0 {
		n = 0
	}
	z.nodes -= n
	return n
}

// str draws a string leaf that the decoder copies `copies` times.
func (z *sizer) str(nonzeroLead bool, copies int) refrlp.Item {
	n := z.strLen(nonzeroLead)
	z.need += copies * n
	switch {
	case n == 0:
		return refrlp.Item{}
	case n == 1:
		// the single byte decides the form (below 0x80: unwrapped)
		b := rapid.SampledFrom([]byte{0x00, 0x01, 0x7f, 0x80, 0x81, 0xff}).Draw(z.t, "sb1")
		if nonzeroLead && b == 0 {
			b = 1
		}
		return refrlp.Item{Bytes: []byte{b}}
	case n <= 8:
		w := rapid.Uint64().Draw(z.t, "sbw")
		b := make([]byte, n)
		for i := range b {
			b[i] = byte(w >> (8 * uint(i)))
		}
		if nonzeroLead && b[0] == 0 {
			b[0] = 1
		}
		return refrlp.Item{Bytes: b}
	}
	return refrlp.Item{Bytes: z.bulk(n, nonzeroLead)}
}

// encSize / appendEnc: canonical encoding of an item into one buffer
// (refrlp.Encode copies the payload once per nesting level and element).
func encSize(it refrlp.Item) int {
	n := len(it.Bytes)
	if it.IsList {
		n = 0
		for _, c := range it.List {
			n += encSize(c)
		}
	} else if n == 1 && it.Bytes[0] < 0x80 {
		return 1
	}
	if n < 56 {
		return 1 + n
	}
	return 1 + len(be(uint64(n))) + n
}

func appendEnc(buf []byte, it refrlp.Item) []byte {
	short, long, n := byte(0x80), byte(0xb7), len(it.Bytes)
	if it.IsList {
		short, long, n = 0xc0, 0xf7, 0
		for _, c := range it.List {
			n += encSize(c)
		}
	} else if n == 1 && it.Bytes[0] < 0x80 {
		return append(buf, it.Bytes[0])
	}
	if n < 56 {
		buf = append(buf, short+byte(n))
	} else {
		l := be(uint64(n))
		buf = append(append(buf, long+byte(len(l))), l...)
	}
	if !it.IsList {
		return append(buf, it.Bytes...)
	}
	for _, c := range it.List {
		buf = appendEnc(buf, c)
	}
	return buf
}

func encodeItem(it refrlp.Item) []byte { return appendEnc(make([]byte, 0, encSize(it)), it) }

// pathTo returns the child indices that lead to the n-th item in pre-order.
func pathTo(it refrlp.Item, n *int, path []int) ([]int, bool) {
	if *n == 0 {
		return path, true
	}
	*n--
	for i, c := range it.List {
		if p, ok := pathTo(c, n, append(path, i)); ok {
			return p, true
		}
	}
	return nil, false
}

func preorderIndex(it refrlp.Item, path []int) int {
	idx := 0
	for _, step := range path {
		idx++
		for _, c := range it.List[:step] {
			idx += countNodes(c)
		}
		it = it.List[step]
	}
	return idx
}

// nonCanonHead is the header of a string/list of n payload bytes in the given
// non-canonical form, or nil where the form does not apply (same rules as
// mutator.enc).
func nonCanonHead(it refrlp.Item, n int, mode string) []byte {
	long := byte(0xb7)
	if it.IsList {
		long = 0xf7
	}
	switch mode {
	case "long-form-short-len":
		if n < 56 {
			return []byte{long + 1, byte(n)}
		}
	case "leading-zero-len":
		if n < 56 {
			return []byte{long + 2, 0, byte(n)}
		}
		l := be(uint64(n))
		return append([]byte{long + byte(len(l)) + 1, 0}, l...)
	case "wrapped-single-byte":
		if !it.IsList && n == 1 && it.Bytes[0] < 0x80 {
			return []byte{0x81}
		}
	}
	return nil
}

// appendEncOn is appendEnc with the header of the item at path written in a
// non-canonical form; the lengths of the enclosing lists follow.
func appendEncOn(buf []byte, it refrlp.Item, path []int, onPath bool, mode string, applied *bool) []byte {
	if !onPath {
		return appendEnc(buf, it)
	}
	if len(path) == 0 {
		n := len(it.Bytes)
		if it.IsList {
			n = 0
			for _, c := range it.List {
				n += encSize(c)
			}
		}
		h := nonCanonHead(it, n, mode)
		if h == nil {
			return appendEnc(buf, it)
		}
		*applied = true
		buf = append(buf, h...)
		if !it.IsList {
			return append(buf, it.Bytes...)
		}
		for _, c := range it.List {
			buf = appendEnc(buf, c)
		}
		return buf
	}
	body := make([]byte, 0, encSize(it)+16)
	for i, c := range it.List {
		body = appendEncOn(body, c, path[1:], i == path[0], mode, applied)
	}
	if n := len(body); n < 56 {
		buf = append(buf, 0xc0+byte(n))
	} else {
		l := be(uint64(n))
		buf = append(append(buf, 0xf7+byte(len(l))), l...)
	}
	return append(buf, body...)
}

func encodeItemOn(it refrlp.Item, path []int, mode string) ([]byte, bool) {
	applied := false
	out := appendEncOn(make([]byte, 0, encSize(it)+16), it, path, true, mode, &applied)
	return out, applied
}

// ---------- type-directed item generator ----------

type rlpTags struct{ nilOK, tail, ignored bool }

func tagsOf(f reflect.StructField) rlpTags {
	var ts rlpTags
	for _, p := range strings.Split(f.Tag.Get("rlp"), ",") {
		switch strings.TrimSpace(p) {
		case "-":
			ts.ignored = true
		case "nil":
			ts.nilOK = true
		case "tail":
			ts.tail = true
		}
	}
	return ts
}

func isByteType(t reflect.Type) bool { return t.Kind() == reflect.Uint8 }

// emptyFor is the one empty form of a nil pointer to typ.
func emptyFor(typ reflect.Type) refrlp.Item {
	k := typ.Kind()
	switch {
	case typ == bigIntType:
		return refrlp.Item{}
	case k == reflect.Array && isByteType(typ.Elem()), k == reflect.Slice && isByteType(typ.Elem()), k == reflect.String:
		return refrlp.Item{}
	case k == reflect.Struct || k == reflect.Array || k == reflect.Slice:
		return refrlp.L()
	}
	return refrlp.Item{}
}

// genAny draws an untyped item (interface{} / RawValue leaves).
func (z *sizer) genAny(depth int) refrlp.Item {
	if depth >= 3 || rapid.IntRange(0, 2).Draw(z.t, "anykind") > 0 {
		return z.str(false, 1)
	}
	n := z.listLen()
	items := make([]refrlp.Item, n)
	for i := range items {
		items[i] = z.genAny(depth + 1)
	}
	return refrlp.L(items...)
}

// genFor draws an item that decodes into typ.
func (z *sizer) genFor(typ reflect.Type, depth int) refrlp.Item {
	switch {
	case typ == bigIntType:
		return z.str(true, 2)
	case typ == rawValueType:
		return z.genAny(depth)
	case typ == statusType:
		switch rapid.IntRange(0, 2).Draw(z.t, "status") {
		case 0:
			return refrlp.Item{}
		case 1:
			return refrlp.Item{Bytes: []byte{1}}
		}
		z.need += 32
		return refrlp.Item{Bytes: z.bulk(32, false)}
	}
	switch typ.Kind() {
	case reflect.Bool:
		return refrlp.U(uint64(rapid.IntRange(0, 1).Draw(z.t, "bool")))
	case reflect.Uint8, reflect.Uint16, reflect.Uint32, reflect.Uint64, reflect.Uint:
		v := genU64().Draw(z.t, "u")
		if bits := uint(typ.Bits()); bits < 64 {
			v &= 1<<bits - 1
		}
		return refrlp.U(v)
	case reflect.String:
		return z.str(false, 2)
	case reflect.Interface:
		return z.genAny(depth)
	case reflect.Ptr:
		return z.genFor(typ.Elem(), depth)
	case reflect.Array:
		if isByteType(typ.Elem()) {
			if typ.Len() == 1 {
				return refrlp.Item{Bytes: []byte{rapid.SampledFrom([]byte{0x00, 0x01, 0x7f, 0x80, 0x81, 0xff}).Draw(z.t, "arr1")}}
			}
			return refrlp.Item{Bytes: z.bulk(typ.Len(), false)}
		}
		items := make([]refrlp.Item, typ.Len())
		for i := range items {
			items[i] = z.genFor(typ.Elem(), depth+1)
		}
		return refrlp.L(items...)
	case reflect.Slice:
		if isByteType(typ.Elem()) {
			return z.str(false, 1)
		}
		n := z.listLen()
		if depth >= 6 {
			n = 0
		}
		items := make([]refrlp.Item, n)
		for i := range items {
			items[i] = z.genFor(typ.Elem(), depth+1)
		}
		return refrlp.L(items...)
	case reflect.Struct:
		var items []refrlp.Item
		for i := 0; i < typ.NumField(); i++ {
			f := typ.Field(i)
			if f.PkgPath != "" {
				continue
			}
			ts := tagsOf(f)
			switch {
			case ts.ignored:
			case ts.tail:
				n := z.listLen()
				for j := 0; j < n; j++ {
					items = append(items, z.genFor(f.Type.Elem(), depth+1))
				}
			case ts.nilOK && rapid.Bool().Draw(z.t, "nil"):
				items = append(items, emptyFor(f.Type.Elem()))
			default:
				items = append(items, z.genFor(f.Type, depth+1))
			}
		}
		return refrlp.L(items...)
	}
	panic(fmt.Sprintf("c11: no generator for %v", typ))
}

// ---------- changes applied to a valid item ----------

func nthNode(it *refrlp.Item, n *int, onlyLists bool) *refrlp.Item {
	if !onlyLists || it.IsList {
		if *n == 0 {
			return it
		}
		*n--
	}
	for i := range it.List {
		if r := nthNode(&it.List[i], n, onlyLists); r != nil {
			return r
		}
	}
	return nil
}

func countLists(it refrlp.Item) int {
	n := 0
	if it.IsList {
		n = 1
	}
	for _, c := range it.List {
		n += countLists(c)
	}
	return n
}

func cloneItem(it refrlp.Item) refrlp.Item {
	out := refrlp.Item{IsList: it.IsList, Bytes: it.Bytes}
	if it.IsList {
		out.List = make([]refrlp.Item, len(it.List))
		for i, c := range it.List {
			out.List[i] = cloneItem(c)
		}
	}
	return out
}

// sparseList reports whether it holds a list whose payload is long compared
// with its number of elements (>= 16 KiB and >= 256 bytes per element).
func sparseList(it refrlp.Item) bool {
	if !it.IsList {
		return false
	}
	payload := 0
	for _, c := range it.List {
		if sparseList(c) {
			return true
		}
		payload += encSize(c)
	}
	return payload >= 16<<10 && payload >= 256*len(it.List)
}

var allocChanges = []string{"none", "none", "none", "blob-insert", "blob-insert", "list-blob-insert", "kind-swap", "cross-target",
	"long-form-short-len", "leading-zero-len", "wrapped-single-byte", "truncated", "trailing"}

func measuredMin(bound uint64, f func()) uint64 {
	d := memDelta(f)
	for i := 0; i < 4 && d > bound; i++ {
		// another goroutine of the runtime or the test binary may have allocated
		// in the window: only an excess that repeats counts
		if d2 := memDelta(f); d2 < d {
			d = d2
		}
	}
	return d
}

// TestAllocProportional: see the comment at the top of this file.
func TestAllocProportional(t *testing.T) {
	// A live but untouched block raises the heap goal, so that the megabyte-sized
	// buffers of successive cases are reused instead of being returned to the
	// system and faulted in again (speed only; TotalAlloc does not depend on it).
	ballast := make([]byte, 128<<20)
	defer runtime.KeepAlive(ballast)
	stats := os.Getenv("C11_ALLOC_STATS") != ""
	type stat struct {
		ratio float64
		desc  string
	}
	worst := map[string]stat{}
	ev.Check(t, ev.N(1200, 160_000), func(t *rapid.T) {
		ti := rapid.IntRange(0, len(allocTargets)-1).Draw(t, "target")
		tg := allocTargets[ti]
		total := rapid.SampledFrom([]int{2 << 10, 16 << 10, 64 << 10, 64 << 10, 256 << 10, 256 << 10, 1 << 20}).Draw(t, "total")
		profile := rapid.SampledFrom([]string{"sparse", "sparse", "dense", "mixed"}).Draw(t, "profile")
		z := &sizer{t: t, left: total, nodes: ev.Pick(20000, 60000), fill: rapid.Uint64().Draw(t, "fill")}
		switch profile {
		case "sparse":
			z.bigPc = 60
			z.bigLen = total / rapid.SampledFrom([]int{1, 2, 4, 16}).Draw(t, "parts")
		case "dense":
			z.longPc = 50
			z.long = rapid.SampledFrom([]int{50, 300, 2000, 15000}).Draw(t, "long")
			z.nodes = z.long * 3
		case "mixed":
			z.bigPc, z.longPc = 8, 25
			z.bigLen = total / 8
			z.long = rapid.SampledFrom([]int{20, 200, 1000}).Draw(t, "long")
		}
		item := z.genFor(tg.wire, 0)
		change := rapid.SampledFrom(allocChanges).Draw(t, "change")
		applied := "none"
		dst := tg
		switch change {
		case "blob-insert", "list-blob-insert":
			// one more element, a large one, somewhere in some list of the value
			item = cloneItem(item)
			if nl := countLists(item); nl > 0 {
				k := rapid.IntRange(0, nl-1).Draw(t, "blobat")
				l := nthNode(&item, &k, true)
				pos := rapid.IntRange(0, len(l.List)).Draw(t, "blobpos")
				n := rapid.SampledFrom([]int{1 << 10, 8 << 10, 64 << 10, 256 << 10, 1 << 20}).Draw(t, "bloblen")
				if n > total {
					n = total
				}
				blob := refrlp.Item{Bytes: z.bulk(n, true)}
				if change == "list-blob-insert" {
					blob = refrlp.L(blob)
				}
				l.List = append(l.List[:pos:pos], append([]refrlp.Item{blob}, l.List[pos:]...)...)
				applied = change
			}
		case "kind-swap":
			// one item keeps its payload but changes kind
			item = cloneItem(item)
			k := rapid.IntRange(0, countNodes(item)-1).Draw(t, "swapat")
			n := nthNode(&item, &k, false)
			if n.IsList {
				var payload []byte
				for _, c := range n.List {
					payload = appendEnc(payload, c)
				}
				*n = refrlp.Item{Bytes: payload}
			} else {
				*n = refrlp.L(*n)
			}
			applied = change
		case "cross-target":
			dst = allocTargets[rapid.IntRange(0, len(allocTargets)-1).Draw(t, "dst")]
			applied = change
		}
		nodes := countNodes(item)
		in := encodeItem(item)
		if len(in) <= 4096 && !bytes.Equal(in, refrlp.Encode(item)) {
			t.Fatalf("harness error: encodeItem differs from the reference encoder")
		}
		mustReject := false
		switch change {
		case "long-form-short-len", "leading-zero-len", "wrapped-single-byte":
			k := rapid.IntRange(0, nodes-1).Draw(t, "hdrat")
			path, _ := pathTo(item, &k, nil)
			if mut, ok := encodeItemOn(item, path, change); ok {
				if len(mut) <= 4096 {
					m := &mutator{target: preorderIndex(item, path), mode: change}
					if !bytes.Equal(mut, m.enc(item)) || !m.applied {
						t.Fatalf("harness error: encodeItemOn differs from mutator.enc")
					}
				}
				in, applied = mut, change
				mustReject = !defersValidation(tg.wire, map[reflect.Type]bool{})
			}
		case "truncated":
			if len(in) > 1 {
				in = in[:rapid.IntRange(1, len(in)-1).Draw(t, "cut")]
				applied, mustReject = change, true
			}
		case "trailing":
			in = append(append([]byte{}, in...), rapid.Byte().Draw(t, "extra"))
			applied, mustReject = change, true
		}
		need := -1
		switch applied {
		case "none", "long-form-short-len", "leading-zero-len", "wrapped-single-byte", "truncated", "trailing":
			need = z.need // the value is the generated one (or a prefix of it)
		}
		bound := propBound(dst, len(in), nodes, need)

		// --- the three entry points for inputs of known length ---
		var v interface{}
		var err error
		runs := []struct {
			api string
			f   func()
		}{
			{"DecodeBytes", func() { v = dst.mk(); err = rlp.DecodeBytes(in, v) }},
			{"NewStream(reader,len).Decode", func() {
				v = dst.mk()
				err = rlp.NewStream(onlyReader{bytes.NewReader(in)}, uint64(len(in))).Decode(v)
			}},
			{"Decode(bytes.Reader)", func() { v = dst.mk(); err = rlp.Decode(bytes.NewReader(in), v) }},
		}
		if len(in) > 128<<10 {
			// large inputs: DecodeBytes and one of the two stream entry points
			keep := rapid.IntRange(1, 2).Draw(t, "api")
			runs = []struct {
				api string
				f   func()
			}{runs[0], runs[keep]}
		}
		var firstErr error
		for i, r := range runs {
			d := measuredMin(bound, r.f)
			if stats {
				ratio := float64(d) / float64(bound)
				if key := dst.name + " " + profile; len(in) >= 4096 && ratio > worst[key].ratio {
					worst[key] = stat{ratio, fmt.Sprintf("%s %s/%s len=%d nodes=%d alloc=%d bound=%d err=%v", r.api, profile, applied, len(in), nodes, d, bound, err)}
				}
			}
			if d > bound {
				t.Fatalf("%s into %s allocated %d bytes for %d input bytes holding %d items (bound %d, %.1fx the input; %s/%s, err=%v)",
					r.api, dst.name, d, len(in), nodes, bound, float64(d)/float64(len(in)), profile, applied, err)
			}
			if i == 0 {
				firstErr = err
				if err == nil {
					// one accepted encoding per value, at sizes that need 2- and 3-byte lengths
					re, eerr := rlp.EncodeToBytes(v)
					if eerr != nil || !bytes.Equal(re, in) {
						t.Fatalf("%s: accepted a %d-byte input (%s) that does not re-encode to itself (err=%v, %d bytes back)", dst.name, len(in), applied, eerr, len(re))
					}
				}
			} else if applied != "trailing" && (err == nil) != (firstErr == nil) {
				// (the stream entry points read one value and leave trailing input alone)
				t.Fatalf("%s: %s and DecodeBytes disagree: %v / %v", dst.name, r.api, err, firstErr)
			}
		}
		if applied == "none" && firstErr != nil {
			t.Fatalf("%s: encoding of a valid value rejected: %v (%d bytes)", tg.name, firstErr, len(in))
		}
		if mustReject && firstErr == nil {
			t.Fatalf("%s: accepted a %s input of %d bytes", tg.name, applied, len(in))
		}

		lbls := []string{"alloc-measured", "allocp:" + profile, "allocp:change=" + applied}
		if firstErr == nil {
			lbls = append(lbls, "allocp:accepted")
		} else {
			lbls = append(lbls, "allocp:rejected")
		}
		if sparseList(item) {
			lbls = append(lbls, "allocp:long-payload-few-elements")
			if firstErr != nil {
				lbls = append(lbls, "allocp:long-payload-few-elements-rejected")
			}
		}
		if nodes >= 1000 {
			lbls = append(lbls, "allocp:many-elements")
		}
		switch {
		case len(in) >= 512<<10:
			lbls = append(lbls, "allocp:input>=512KiB", "allocp:input>=64KiB")
		case len(in) >= 64<<10:
			lbls = append(lbls, "allocp:input>=64KiB")
		}
		if dst.cons {
			lbls = append(lbls, "allocp:consensus-type")
		}
		hd := in
		if len(hd) > 64 {
			hd = hd[:64]
		}
		canon := append([]byte(fmt.Sprintf("allocp:%s:%d:%x:", dst.name, len(in), hash64(in))), hd...)
		ev.Case(len(in) >= 1024, canon, lbls...)
		ev.Sample(map[string]interface{}{"kind": "alloc-proportional", "target": dst.name, "profile": profile, "change": applied,
			"input_len": len(in), "items": nodes, "accepted": firstErr == nil, "input_head": hex.EncodeToString(hd)})
	})
	if stats {
		for _, tg := range allocTargets {
			for _, pr := range []string{"sparse", "dense", "mixed"} {
				w := worst[tg.name+" "+pr]
				fmt.Printf("ALLOCSTAT %-16s %-6s worst=%.3f %s\n", tg.name, pr, w.ratio, w.desc)
			}
		}
	}
}

func hash64(b []byte) uint64 {
	h := uint64(14695981039346656037)
	for _, c := range b {
		h ^= uint64(c)
		h *= 1099511628211
	}
	return h
}
