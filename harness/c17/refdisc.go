// Package c17 holds the check for property C17 (network input is
// authenticated or rejected, and never fatal).
//
// This file is the independent reference for the discv4 envelope and payload
// schemas, written from the wire format description:
//
//	datagram = hash(32) || sig(65 = R||S||V) || ptype(1) || ["aqua"] || rlp(payload) [|| ignored]
//	sig      = secp256k1-sign(keccak256(ptype || ...), key)      V in {0,1}
//	hash     = keccak256(sig || ptype || ...)
//
// It uses btcec and x/crypto keccak directly and does not import the packages
// under test (p2p/discover, crypto, rlp).
package c17

import (
	"bytes"
	"errors"
	"fmt"

	"github.com/btcsuite/btcd/btcec/v2"
	becdsa "github.com/btcsuite/btcd/btcec/v2/ecdsa"
	"verifharness/ref/refmpt"
	"verifharness/ref/refrlp"
)

const (
	refMacSize  = 32
	refSigSize  = 65
	refHeadSize = refMacSize + refSigSize
	maxDatagram = 1280
)

// refID is the 64-byte node identity: the uncompressed public key without the
// 0x04 format byte.
type refID [64]byte

func idOf(k *btcec.PrivateKey) (id refID) {
	copy(id[:], k.PubKey().SerializeUncompressed()[1:])
	return id
}

// refSeal hashes and signs body (= ptype || [tag] || payload bytes) with key.
func refSeal(key *btcec.PrivateKey, body []byte) []byte {
	sig := becdsa.SignCompact(key, refmpt.Keccak(body), false) // [27+recid] R S
	out := make([]byte, refHeadSize, refHeadSize+len(body))
	copy(out[refMacSize:], sig[1:])
	out[refMacSize+64] = sig[0] - 27
	out = append(out, body...)
	copy(out, refmpt.Keccak(out[refMacSize:]))
	return out
}

// refOpen verifies the envelope and returns the signer and the signed body.
func refOpen(buf []byte) (from refID, body []byte, err error) {
	if len(buf) < refHeadSize+1 {
		return from, nil, errors.New("ref: too small")
	}
	if !bytes.Equal(buf[:refMacSize], refmpt.Keccak(buf[refMacSize:])) {
		return from, nil, errors.New("ref: bad hash")
	}
	sig := buf[refMacSize:refHeadSize]
	// The last byte is the recovery id of the compact signature format: 0..3, plus 4 when
	// the signer flags a compressed key. The flag does not change the recovered key, so a
	// datagram with V^4 carries the same signed content from the same key.
	if sig[64] > 7 {
		return from, nil, errors.New("ref: bad recovery id")
	}
	compact := make([]byte, 65)
	compact[0] = 27 + sig[64]
	copy(compact[1:], sig[:64])
	pub, _, err := becdsa.RecoverCompact(compact, refmpt.Keccak(buf[refHeadSize:]))
	if err != nil {
		return from, nil, fmt.Errorf("ref: recover: %v", err)
	}
	copy(from[:], pub.SerializeUncompressed()[1:])
	return from, buf[refHeadSize:], nil
}

// ---- payload schemas over abstract RLP items ----

func isUint(it refrlp.Item, maxBytes int) bool {
	return !it.IsList && len(it.Bytes) <= maxBytes && (len(it.Bytes) == 0 || it.Bytes[0] != 0)
}

func isEndpoint(it refrlp.Item) bool {
	return it.IsList && len(it.List) == 3 && !it.List[0].IsList && isUint(it.List[1], 2) && isUint(it.List[2], 2)
}

func isRPCNode(it refrlp.Item) bool {
	return it.IsList && len(it.List) == 4 && !it.List[0].IsList && isUint(it.List[1], 2) && isUint(it.List[2], 2) &&
		!it.List[3].IsList && len(it.List[3].Bytes) == 64
}

// kinds are 0 ping, 1 pong, 2 findnode, 3 neighbors.
var kindNames = [4]string{"PING/v4", "PONG/v4", "FINDNODE/v4", "NEIGHBORS/v4"}

// conforms reports whether it is a well-formed payload of the kind and returns
// the index of its expiration field.
func conforms(kind int, it refrlp.Item) bool {
	if !it.IsList {
		return false
	}
	l := it.List
	switch kind {
	case 0:
		return len(l) >= 4 && isUint(l[0], 8) && isEndpoint(l[1]) && isEndpoint(l[2]) && isUint(l[3], 8)
	case 1:
		return len(l) >= 3 && isEndpoint(l[0]) && !l[1].IsList && isUint(l[2], 8)
	case 2:
		return len(l) >= 2 && !l[0].IsList && len(l[0].Bytes) == 64 && isUint(l[1], 8)
	case 3:
		if len(l) < 2 || !l[0].IsList || !isUint(l[1], 8) {
			return false
		}
		for _, n := range l[0].List {
			if !isRPCNode(n) {
				return false
			}
		}
		return true
	}
	return false
}

func expirationOf(kind int, it refrlp.Item) uint64 {
	idx := [4]int{3, 2, 1, 1}[kind]
	var v uint64
	for _, b := range it.List[idx].Bytes {
		v = v<<8 | uint64(b)
	}
	return v
}

// firstItem decodes the first RLP value of b the way a stream decoder that
// ignores trailing bytes does.
func firstItem(b []byte) (refrlp.Item, error) {
	it, _, err := refrlp.Decode(b)
	return it, err
}

func refKeccak(b []byte) []byte { return refmpt.Keccak(b) }
