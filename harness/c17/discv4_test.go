package c17

// Layer 1: discv4 datagrams (p2p/discover decodePacket / handlePacket).

import (
	"bytes"
	"encoding/hex"
	"encoding/json"
	"errors"
	"fmt"
	"net"
	"os"
	"strings"
	"sync"
	"testing"
	"time"

	"github.com/btcsuite/btcd/btcec/v2"
	"gitlab.com/aquachain/aquachain/p2p/discover"
	"gitlab.com/aquachain/aquachain/rlp"
	"pgregory.net/rapid"
	"verifharness/ev"
	"verifharness/ref/refrlp"
)

const keyShortSigned = "discv4/short-signed-body"

// ---------- keys ----------

func mustKey(hexkey string) *btcec.PrivateKey {
	b, err := hex.DecodeString(hexkey)
	if err != nil || len(b) != 32 {
		panic("bad key")
	}
	k, _ := btcec.PrivKeyFromBytes(b)
	return k
}

var (
	tableKey = mustKey("4c0883a69102937d6231471b5dbb6204fe5129617082792ae468d01a3f362318")
	// attackers 0..2 are bonded with the table during set-up; 3 pings but never answers the
	// table's pings (stays unbonded); 4..5 are "silent": they never send a live ping and never
	// appear inside a neighbors packet, so the table never has a request pending for them and
	// every reply packet from them is unsolicited.
	attackers = []*btcec.PrivateKey{
		mustKey("b71c71a67e1177ad4e901695e1b4b9ee17ae16c6668d313eac2f96dbcda3f291"),
		mustKey("0000000000000000000000000000000000000000000000000000000000000002"),
		mustKey("fffffffffffffffffffffffffffffffebaaedce6af48a03bbfd25e8cd0364140"), // n-1
		mustKey("8a1f9a8f95be41cd7ccb6168179afb4504aefe388d1e14474d32c45c72ce7b7a"),
		mustKey("0000a7b37aa6f6645917e7b807e9d1c00d4fa71f18343b0d4122a4d2df64dd6f"),
		mustKey("49a7b37aa6f6645917e7b807e9d1c00d4fa71f18343b0d4122a4d2df64dd6fee"),
	}
	nBonded     = 3
	firstSilent = 4
)

func attackerAddr(i int) *net.UDPAddr {
	return &net.UDPAddr{IP: net.IPv4(51, 15, byte(10+i), 7).To4(), Port: 30400 + i}
}

// ---------- fake UDP conn ----------

type sentPacket struct {
	to  *net.UDPAddr
	buf []byte
}

type fakeConn struct {
	mu     sync.Mutex
	sent   []sentPacket
	closed chan struct{}
	once   sync.Once
	local  *net.UDPAddr
}

func newFakeConn() *fakeConn {
	return &fakeConn{closed: make(chan struct{}), local: &net.UDPAddr{IP: net.IPv4(51, 15, 1, 1).To4(), Port: 21303}}
}

// ReadFromUDP never delivers anything: all input goes through VerifHandlePacket
// on a harness goroutine so that a panic is attributable to the datagram.
func (c *fakeConn) ReadFromUDP(b []byte) (int, *net.UDPAddr, error) {
	<-c.closed
	return 0, nil, errors.New("closed")
}

func (c *fakeConn) WriteToUDP(b []byte, addr *net.UDPAddr) (int, error) {
	c.mu.Lock()
	c.sent = append(c.sent, sentPacket{to: addr, buf: append([]byte{}, b...)})
	c.mu.Unlock()
	return len(b), nil
}

func (c *fakeConn) Close() error        { c.once.Do(func() { close(c.closed) }); return nil }
func (c *fakeConn) LocalAddr() net.Addr { return c.local }

func (c *fakeConn) drain() []sentPacket {
	c.mu.Lock()
	defer c.mu.Unlock()
	out := c.sent
	c.sent = nil
	return out
}

// ---------- live table ----------

type liveTable struct {
	netcompat bool
	tab       *discover.Table
	conn      *fakeConn
	selfID    refID
	types     [4]byte
	tag       []byte
	// lastPing[i]: when the table last accepted a not-certainly-expired ping from
	// attacker i (after which it may have a bonding ping, i.e. a pong request, pending)
	lastPing [6]time.Time
}

var (
	liveMu     sync.Mutex
	liveTables = map[bool]*liveTable{}
)

func bodyOf(lt *liveTable, kind int, payload []byte) []byte {
	b := []byte{lt.types[kind]}
	b = append(b, lt.tag...)
	return append(b, payload...)
}

func endpointItem(a *net.UDPAddr, tcp uint16) refrlp.Item {
	return refrlp.L(refrlp.B(a.IP.To4()), refrlp.U(uint64(a.Port)), refrlp.U(uint64(tcp)))
}

func future() uint64 { return uint64(time.Now().Unix()) + 3600 }

// kindOfType maps a wire type byte to the packet kind for the mode, or -1.
func kindOfType(netcompat bool, b byte) int {
	if netcompat && b < 133 {
		b += 133
	}
	if b >= 134 && b <= 137 {
		return int(b - 134)
	}
	return -1
}

// handleGuard runs VerifHandlePacket on its own goroutine under recover and a
// watchdog.
func handleGuard(lt *liveTable, from *net.UDPAddr, dgram []byte) (err error, panicked interface{}, hung bool) {
	type res struct {
		err error
		p   interface{}
	}
	ch := make(chan res, 1)
	buf := append([]byte{}, dgram...)
	go func() {
		var r res
		defer func() {
			if p := recover(); p != nil {
				r.p = p
			}
			ch <- r
		}()
		r.err = discover.VerifHandlePacket(lt.tab, from, buf)
	}()
	select {
	case r := <-ch:
		return r.err, r.p, false
	case <-time.After(20 * time.Second):
		return nil, nil, true
	}
}

func decodeGuard(netcompat bool, dgram []byte) (name string, reqRLP []byte, from discover.NodeID, hash []byte, err error, panicked interface{}) {
	defer func() {
		if p := recover(); p != nil {
			panicked = p
		}
	}()
	buf := append([]byte{}, dgram...) // decodePacket rewrites the type byte in netcompat mode
	name, reqRLP, from, hash, err = discover.VerifDecodePacket(netcompat, buf)
	return
}

func getTable(netcompat bool) *liveTable {
	liveMu.Lock()
	defer liveMu.Unlock()
	if lt := liveTables[netcompat]; lt != nil {
		return lt
	}
	conn := newFakeConn()
	chainID := uint64(61717561)
	if netcompat {
		chainID = 1
	}
	tab, err := discover.ListenUDP(conn, discover.Config{PrivateKey: tableKey, ChainId: chainID})
	if err != nil {
		panic(err)
	}
	lt := &liveTable{netcompat: netcompat, tab: tab, conn: conn, selfID: idOf(tableKey), types: discover.VerifPacketTypes(netcompat)}
	if !netcompat {
		lt.tag = []byte("aqua")
	}
	// bond attackers 0..nBonded-1: ping the table, wait for its ping, answer with a pong
	for i := 0; i < nBonded; i++ {
		if !bondAttacker(lt, i) {
			panic(fmt.Sprintf("harness: could not bond attacker %d with the table (netcompat=%v)", i, netcompat))
		}
	}
	liveTables[netcompat] = lt
	return lt
}

func pingPayload(from, to *net.UDPAddr, exp uint64) []byte {
	return refrlp.Encode(refrlp.L(refrlp.U(4), endpointItem(from, uint16(from.Port)), endpointItem(to, 0), refrlp.U(exp)))
}

func findnodePayload(target []byte, exp uint64) []byte {
	return refrlp.Encode(refrlp.L(refrlp.B(target), refrlp.U(exp)))
}

// answerPings answers the table's own pings to bonded attackers' addresses
// with correctly signed pongs. Returns how many were accepted.
func answerPings(lt *liveTable, pkts []sentPacket) (accepted int) {
	for _, p := range pkts {
		from, body, err := refOpen(p.buf)
		if err != nil || from != lt.selfID || len(body) == 0 || kindOfType(lt.netcompat, body[0]) != 0 {
			continue
		}
		for i := 0; i < nBonded; i++ {
			a := attackerAddr(i)
			if p.to.Port != a.Port || !p.to.IP.Equal(a.IP) {
				continue
			}
			pong := refrlp.Encode(refrlp.L(endpointItem(lt.conn.local, 0), refrlp.B(p.buf[:refMacSize]), refrlp.U(future())))
			err, pn, hung := handleGuard(lt, a, refSeal(attackers[i], bodyOf(lt, 1, pong)))
			if pn != nil || hung {
				panic(fmt.Sprintf("harness: solicited pong made handlePacket panic/hang: %v", pn))
			}
			if err == nil {
				accepted++
			}
		}
	}
	return accepted
}

func bondAttacker(lt *liveTable, i int) bool {
	a := attackerAddr(i)
	var id [64]byte
	for attempt := 0; attempt < 100; attempt++ {
		ping := refSeal(attackers[i], bodyOf(lt, 0, pingPayload(a, lt.conn.local, future())))
		if err, pn, hung := handleGuard(lt, a, ping); err != nil || pn != nil || hung {
			panic(fmt.Sprintf("harness: valid ping rejected during set-up: %v %v %v", err, pn, hung))
		}
		deadline := time.Now().Add(300 * time.Millisecond)
		for time.Now().Before(deadline) {
			answerPings(lt, lt.conn.drain())
			// bonded once a findnode is served instead of refused
			fn := refSeal(attackers[i], bodyOf(lt, 2, findnodePayload(id[:], future())))
			if err, _, _ := handleGuard(lt, a, fn); err == nil {
				lt.conn.drain()
				return true
			}
			time.Sleep(5 * time.Millisecond)
		}
	}
	return false
}

// ---------- generators ----------

func drawIP(t *rapid.T) []byte {
	switch rapid.IntRange(0, 7).Draw(t, "ipkind") {
	case 0:
		return nil
	case 1:
		return []byte{127, 0, 0, 1}
	case 2:
		return []byte{0, 0, 0, 0}
	case 3:
		return []byte{224, 0, 0, 1} // multicast
	case 4:
		return rapid.SliceOfN(rapid.Byte(), 16, 16).Draw(t, "ip16")
	case 5:
		return rapid.SliceOfN(rapid.Byte(), 0, 20).Draw(t, "ipodd")
	default:
		return rapid.SliceOfN(rapid.Byte(), 4, 4).Draw(t, "ip4")
	}
}

func drawPort(t *rapid.T) refrlp.Item {
	return refrlp.U(uint64(rapid.SampledFrom([]int{0, 1, 80, 1024, 1025, 30303, 65535}).Draw(t, "port")))
}

func drawExpiration(t *rapid.T) (uint64, string) {
	now := uint64(time.Now().Unix())
	switch rapid.SampledFrom([]string{"live", "live", "live", "zero", "recent", "old", "wrap1", "wrap2", "live"}).Draw(t, "expkind") {
	case "zero":
		return 0, "expired"
	case "recent":
		return now - 120, "expired"
	case "old":
		return now - 1 - uint64(rapid.IntRange(60, 1<<30).Draw(t, "ago")), "expired"
	case "wrap1":
		return ^uint64(0), "wrap" // int64(-1): one second before the epoch => expired
	case "wrap2":
		return 1 << 63, "wrap"
	default:
		return now + 120 + uint64(rapid.IntRange(0, 100000).Draw(t, "ahead")), "live"
	}
}

func drawNodeID(t *rapid.T) []byte {
	switch rapid.IntRange(0, 4).Draw(t, "idkind") {
	case 0:
		id := idOf(attackers[rapid.IntRange(0, firstSilent-1).Draw(t, "idkey")])
		return id[:]
	case 1:
		id := idOf(tableKey)
		return id[:]
	case 2:
		return make([]byte, 64) // not on the curve
	default:
		return rapid.SliceOfN(rapid.Byte(), 64, 64).Draw(t, "idraw")
	}
}

func drawTail(t *rapid.T) []refrlp.Item {
	n := rapid.SampledFrom([]int{0, 0, 0, 1, 2}).Draw(t, "ntail")
	var out []refrlp.Item
	for i := 0; i < n; i++ {
		if rapid.Bool().Draw(t, "taillist") {
			out = append(out, refrlp.L(refrlp.U(uint64(i)), refrlp.B([]byte("x"))))
		} else {
			out = append(out, refrlp.B(rapid.SliceOfN(rapid.Byte(), 0, 9).Draw(t, "tailb")))
		}
	}
	return out
}

// drawValid draws a schema-conforming payload of the kind.
func drawValid(t *rapid.T, lt *liveTable, kind int, att int) (refrlp.Item, string) {
	exp, expClass := drawExpiration(t)
	if kind == 0 && att >= firstSilent && expClass == "live" {
		exp, expClass = uint64(time.Now().Unix())-300, "expired"
	}
	ep := func() refrlp.Item { return refrlp.L(refrlp.B(drawIP(t)), drawPort(t), drawPort(t)) }
	var fields []refrlp.Item
	switch kind {
	case 0:
		ver := refrlp.U(uint64(rapid.SampledFrom([]int{4, 0, 3, 5, 255, 1 << 40}).Draw(t, "ver")))
		fields = []refrlp.Item{ver, ep(), ep(), refrlp.U(exp)}
	case 1:
		tok := rapid.SliceOfN(rapid.Byte(), 0, 40).Draw(t, "tok")
		fields = []refrlp.Item{ep(), refrlp.B(tok), refrlp.U(exp)}
	case 2:
		fields = []refrlp.Item{refrlp.B(drawNodeID(t)), refrlp.U(exp)}
	case 3:
		n := rapid.SampledFrom([]int{0, 1, 2, 5, 11}).Draw(t, "nnodes")
		nodes := make([]refrlp.Item, n)
		for i := range nodes {
			nodes[i] = refrlp.L(refrlp.B(drawIP(t)), drawPort(t), drawPort(t), refrlp.B(drawNodeID(t)))
		}
		fields = []refrlp.Item{refrlp.L(nodes...), refrlp.U(exp)}
	}
	fields = append(fields, drawTail(t)...)
	return refrlp.L(fields...), expClass
}

func drawNested(t *rapid.T) []byte {
	depth := rapid.SampledFrom([]int{1, 2, 10, 100, 400}).Draw(t, "depth")
	var b []byte
	switch rapid.IntRange(0, 2).Draw(t, "nestkind") {
	case 0: // unterminated list openers: each claims the rest of a long body
		for i := 0; i < depth; i++ {
			b = append(b, 0xf8, 0xff)
		}
	case 1: // properly nested empty lists
		it := refrlp.L()
		for i := 0; i < depth; i++ {
			it = refrlp.L(it)
		}
		b = refrlp.Encode(it)
	default: // length-prefix bombs
		hdr := rapid.SampledFrom([][]byte{
			{0xbf, 0xff, 0xff, 0xff, 0xff, 0xff, 0xff, 0xff, 0xf0}, {0xff, 0xff, 0xff, 0xff, 0xff, 0xff, 0xff, 0xff, 0xf0},
			{0xfb, 0x7f, 0xff, 0xff, 0xff}, {0xbb, 0x7f, 0xff, 0xff, 0xff}, {0xfa, 0xff, 0xff, 0xff}, {0xf9, 0xff, 0xff},
		}).Draw(t, "bomb")
		b = append(append([]byte{}, hdr...), rapid.SliceOfN(rapid.Byte(), 0, 30).Draw(t, "bombtail")...)
		for i := 0; i < depth%5; i++ {
			if len(b) < 56 {
				b = append([]byte{0xc0 + byte(len(b))}, b...)
			}
		}
	}
	if len(b) > 1100 {
		b = b[:1100]
	}
	return b
}

// ---------- the per-datagram oracle ----------

type dgramCase struct {
	Netcompat bool   `json:"netcompat"`
	Attacker  int    `json:"attacker"`
	Class     string `json:"class"`
	Datagram  string `json:"datagram"`
}

// isShortSigned recognises exactly the shape of the listed finding: aqua mode
// (the 4-byte tag is stripped), a known packet type byte, and a signed body
// (type byte included) of at most 4 bytes.
func isShortSigned(netcompat bool, body []byte) bool {
	return !netcompat && len(body) >= 1 && len(body) <= 4 && body[0] >= 134 && body[0] <= 137
}

func writeInflight(v interface{}) {
	if os.Getenv("VERIF_CASE_DIR") == "" {
		return // not under the driver (manual or native-fuzz run): the working directory is the source tree
	}
	b, _ := json.Marshal(v)
	os.WriteFile("inflight", b, 0o644)
}

// checkDatagram runs the whole oracle on one datagram presented as coming from
// attacker[att]'s address. wantAccept: the datagram was built valid and must decode.
func checkDatagram(fail func(string, ...interface{}), lt *liveTable, att int, class string, dgram []byte, wantAccept bool) (accepted bool, labels []string) {
	if len(dgram) > maxDatagram {
		dgram = dgram[:maxDatagram] // the read loop never hands more than 1280 bytes to handlePacket
	}
	refFrom, refBody, refErr := refOpen(dgram)
	if refErr == nil && isShortSigned(lt.netcompat, refBody) {
		labels = append(labels, "signed-but-short")
		if ev.Known(keyShortSigned) {
			ev.Excluded(keyShortSigned)
			return false, labels
		}
	}
	var (
		name          string
		reqRLP, hash  []byte
		from          discover.NodeID
		err           error
		pn            interface{}
		decAlloc      uint64
	)
	decAlloc = memDelta(func() { name, reqRLP, from, hash, err, pn = decodeGuard(lt.netcompat, dgram) })
	if pn != nil {
		fail("decodePacket panicked on %x: %v", dgram, pn)
		return
	}
	if a, over := overAlloc(decAlloc, allocSmall, func() uint64 { return memDelta(func() { decodeGuard(lt.netcompat, dgram) }) }); over {
		decAlloc = a
		fail("decodePacket allocated %d bytes for a %d-byte datagram %x", decAlloc, len(dgram), dgram)
	}
	if refErr != nil {
		labels = append(labels, "outer-auth-fails")
		if err == nil {
			fail("datagram that fails hash/signature verification was accepted (%s): %x", name, dgram)
			return
		}
	} else {
		labels = append(labels, "outer-auth-ok")
		// whatever the verdict on the payload, the sender reported is the key that signed
		if err == nil || from != (discover.NodeID{}) {
			if !bytes.Equal(from[:], refFrom[:]) {
				fail("sender %x reported for a datagram signed by %x", from[:8], refFrom[:8])
			}
		}
	}
	if err == nil {
		accepted = true
		if !bytes.Equal(hash, dgram[:refMacSize]) {
			fail("hash returned for an accepted datagram is not the datagram's hash")
		}
		kind := kindOfType(lt.netcompat, refBody[0])
		if kind < 0 || kindNames[kind] != name {
			fail("type byte %d decoded as %q", refBody[0], name)
			return
		}
		payload := refBody[1:]
		if !lt.netcompat {
			payload = refBody[5:]
		}
		// delivered == signed: the canonical re-encoding of the decoded request is
		// exactly the first RLP value of the signed payload
		if len(reqRLP) > len(payload) || !bytes.Equal(reqRLP, payload[:len(reqRLP)]) {
			fail("decoded %s differs from the signed payload:\n signed  %x\n decoded %x", name, payload, reqRLP)
		}
		if it, e := firstItem(payload); e == nil {
			if !conforms(kind, it) {
				fail("accepted %s payload that is not well-formed: %x", name, payload)
			}
		} else {
			labels = append(labels, "raw-tail-deferred")
		}
		labels = append(labels, "accepted:"+name)
	} else if wantAccept {
		fail("valid %s datagram rejected: %v (%x)", class, err, dgram)
		return
	}

	// ---- handlePacket on the live table ----
	fromAddr := attackerAddr(att)
	if n := answerPings(lt, lt.conn.drain()); n > 0 {
		labels = append(labels, "solicited-pong-accepted")
	}
	writeInflight(dgramCase{lt.netcompat, att, class, hex.EncodeToString(dgram)})
	var (
		herr  error
		hung  bool
		hpn   interface{}
		sent  []sentPacket
		alloc uint64
	)
	alloc = memDelta(func() {
		herr, hpn, hung = handleGuard(lt, fromAddr, dgram)
		sent = lt.conn.drain()
	})
	if hpn != nil {
		fail("handlePacket panicked on %x: %v", dgram, hpn)
		return
	}
	if hung {
		fail("handlePacket did not return within 20s on %x", dgram)
		return
	}
	if a, over := overAlloc(alloc, allocSmall, func() uint64 { return memDelta(func() { handleGuard(lt, fromAddr, dgram) }) }); over {
		alloc = a
		fail("handlePacket allocated %d bytes for a %d-byte datagram %x", alloc, len(dgram), dgram)
	}
	// replies written while handling: classify by kind, check they are ours
	var pongs, neigh [][]byte
	for _, p := range sent {
		sf, sb, e := refOpen(p.buf)
		if e != nil || sf != lt.selfID {
			fail("table wrote a datagram that is not signed by its own key: %x", p.buf)
			continue
		}
		if len(p.buf) > maxDatagram {
			fail("table wrote a %d-byte datagram (> 1280)", len(p.buf))
		}
		switch kindOfType(lt.netcompat, sb[0]) {
		case 1:
			pongs = append(pongs, sb)
		case 3:
			neigh = append(neigh, sb)
		}
	}
	if !accepted {
		if herr == nil {
			fail("handlePacket returned nil for a datagram decodePacket rejects: %x", dgram)
		}
		if len(pongs)+len(neigh) > 0 {
			fail("table replied (%d pong, %d neighbors) to a rejected datagram %x", len(pongs), len(neigh), dgram)
		}
		return accepted, labels
	}
	// accepted: expectations by kind where the schema says what must happen
	kind := kindOfType(lt.netcompat, refBody[0])
	payload := refBody[1+len(lt.tag):]
	it, e := firstItem(payload)
	if e != nil {
		return accepted, labels
	}
	exp := expirationOf(kind, it)
	now := uint64(time.Now().Unix())
	// who really signed: the attacker's own key, or (tampered signature) some key nobody holds
	signer := -1
	for i, k := range attackers {
		if refFrom == idOf(k) {
			signer = i
		}
	}
	if kind == 0 && signer >= 0 && int64(exp) >= int64(now)-30 {
		lt.lastPing[signer] = time.Now()
	}
	switch {
	case int64(exp) < int64(now)-30:
		labels = append(labels, "expired:"+name)
		if herr == nil {
			fail("expired %s (expiration %d, now %d) was handled without error", name, exp, now)
		}
		if len(pongs)+len(neigh) > 0 {
			fail("table replied to an expired %s", name)
		}
	case int64(exp) > int64(now)+30:
		labels = append(labels, "live:"+name)
		switch kind {
		case 0:
			if herr != nil {
				fail("live ping rejected by handlePacket: %v", herr)
			}
			if len(pongs) != 1 {
				fail("live ping answered with %d pongs", len(pongs))
				break
			}
			pb := pongs[0][1+len(lt.tag):]
			pit, e := firstItem(pb)
			if e != nil || !conforms(1, pit) {
				fail("table's pong is malformed: %x", pb)
				break
			}
			if !bytes.Equal(pit.List[1].Bytes, dgram[:refMacSize]) {
				fail("pong's reply token is not the ping's hash")
			}
			if !bytes.Equal(pit.List[0].List[0].Bytes, fromAddr.IP.To4()) {
				fail("pong's To endpoint is not the sender's address")
			}
			labels = append(labels, "pong-verified")
		case 2:
			if signer >= 0 && signer < nBonded {
				if herr != nil {
					fail("findnode from a bonded node refused: %v", herr)
				}
				if len(neigh) == 0 {
					fail("findnode from a bonded node got no neighbors reply")
				}
				for _, nb := range neigh {
					nit, e := firstItem(nb[1+len(lt.tag):])
					if e != nil || !conforms(3, nit) {
						fail("table's neighbors packet is malformed: %x", nb)
					}
				}
				labels = append(labels, "findnode-served")
			} else {
				if herr == nil || len(neigh) > 0 {
					fail("findnode from an unbonded node was served (err=%v, %d neighbors packets)", herr, len(neigh))
				}
				labels = append(labels, "findnode-refused-unbonded")
			}
		case 1, 3:
			// a reply is only acceptable if the table asked for it. The table has a
			// request pending only for nodes that pinged it or were named in a solicited
			// neighbors packet; the silent attackers never are.
			if signer < 0 || (signer >= firstSilent && time.Since(lt.lastPing[signer]) > 30*time.Second) {
				if herr == nil {
					fail("unsolicited %s accepted without error", name)
				}
				labels = append(labels, "unsolicited-reply-refused")
			}
		}
	}
	// keep bonded attackers alive in the table: answer its revalidation pings
	if n := answerPings(lt, sent); n > 0 {
		labels = append(labels, "solicited-pong-accepted")
	}
	return accepted, labels
}

// overAlloc re-measures once before believing an allocation excess: TotalAlloc
// is process-wide and the table's own goroutines allocate too.
func overAlloc(first uint64, bound uint64, again func() uint64) (uint64, bool) {
	if first <= bound {
		return first, false
	}
	second := again()
	if second < first {
		first = second
	}
	return first, first > bound
}

// ---------- properties ----------

var dgramClasses = []string{"valid", "mutate-byte", "mutate-resigned", "truncated-resigned", "random-resigned",
	"nested-resigned", "short-signed", "unknown-type", "raw", "wrong-mode", "sig-tamper"}

func TestDiscv4Datagrams(t *testing.T) {
	getTable(false)
	getTable(true)
	ev.Check(t, ev.N(9000, 900_000), func(t *rapid.T) {
		fail := failer(t)
		lt := getTable(rapid.Bool().Draw(t, "netcompat"))
		att := rapid.IntRange(0, len(attackers)-1).Draw(t, "attacker")
		key := attackers[att]
		class := rapid.SampledFrom(dgramClasses).Draw(t, "class")
		kind := rapid.IntRange(0, 3).Draw(t, "kind")
		validItem, _ := drawValid(t, lt, kind, att)
		validPayload := refrlp.Encode(validItem)
		validBody := bodyOf(lt, kind, validPayload)
		var dgram []byte
		want := false
		nontrivial := true
		switch class {
		case "valid":
			if len(validBody)+refHeadSize > maxDatagram {
				t.Skip("too large")
			}
			dgram = refSeal(key, validBody)
			want = true
			// the node's own encoder must produce a datagram the reference opens to the same key and payload
			pk, hash, err := discover.VerifEncodePacket(lt.netcompat, key, lt.types[kind], rlp.RawValue(validPayload))
			if err != nil {
				fail("encodePacket: %v", err)
			}
			f, b, e := refOpen(pk)
			if e != nil || f != idOf(key) || !bytes.Equal(b, validBody) || !bytes.Equal(hash, pk[:refMacSize]) {
				fail("encodePacket output does not open to (key, type, payload): %v\n %x", e, pk)
			}
			if rapid.Bool().Draw(t, "useOwnEncoding") {
				dgram = pk
			}
		case "mutate-byte":
			dgram = refSeal(key, validBody)
			if len(dgram) > maxDatagram {
				t.Skip("too large")
			}
			var pos int
			switch rapid.SampledFrom([]string{"payload", "hash", "sig", "type", "any"}).Draw(t, "region") {
			case "hash":
				pos = rapid.IntRange(0, refMacSize-1).Draw(t, "hpos")
			case "sig":
				pos = rapid.IntRange(refMacSize, refHeadSize-1).Draw(t, "spos")
			case "type":
				pos = refHeadSize
			case "payload":
				pos = rapid.IntRange(refHeadSize+1, len(dgram)-1).Draw(t, "ppos")
			default:
				pos = rapid.IntRange(0, len(dgram)-1).Draw(t, "pos")
			}
			dgram[pos] ^= byte(rapid.IntRange(1, 255).Draw(t, "xor"))
			region := "payload"
			switch {
			case pos < refMacSize:
				region = "hash"
			case pos < refHeadSize:
				region = "sig"
			case pos == refHeadSize:
				region = "type"
			}
			ev.Label("mutated:" + region)
			nontrivial = false
		case "sig-tamper":
			// hash recomputed over a tampered signature or body: passes the hash check, must
			// fail or be attributed to whatever key the signature recovers to (never the victim's)
			dgram = refSeal(key, validBody)
			pos := rapid.IntRange(refMacSize, len(dgram)-1).Draw(t, "pos")
			dgram[pos] ^= byte(rapid.IntRange(1, 255).Draw(t, "xor"))
			copy(dgram, refKeccak(dgram[refMacSize:]))
			if f, b, e := refOpen(dgram); e == nil && f == idOf(key) {
				// only the compressed-key flag of the recovery id can be flipped without
				// changing the recovered key; the signed content is then untouched
				if pos != refHeadSize-1 || !bytes.Equal(b, validBody) {
					fail("harness: tampered datagram still recovers to the original key")
				}
				ev.Label("sig-flag-malleable")
			}
			ev.Label("rehashed-tamper")
		case "mutate-resigned":
			p := append([]byte{}, validPayload...)
			pos := rapid.IntRange(0, len(p)-1).Draw(t, "pos")
			p[pos] ^= byte(rapid.IntRange(1, 255).Draw(t, "xor"))
			dgram = refSeal(key, bodyOf(lt, kind, p))
		case "truncated-resigned":
			cut := rapid.IntRange(1, len(validBody)-1).Draw(t, "cut")
			if rapid.Bool().Draw(t, "short") {
				cut = rapid.IntRange(1, min(12, len(validBody)-1)).Draw(t, "scut")
			}
			dgram = refSeal(key, validBody[:cut])
		case "random-resigned":
			dgram = refSeal(key, bodyOf(lt, kind, rapid.SliceOfN(rapid.Byte(), 0, 200).Draw(t, "rnd")))
		case "nested-resigned":
			dgram = refSeal(key, bodyOf(lt, kind, drawNested(t)))
		case "short-signed":
			n := rapid.IntRange(1, 6).Draw(t, "n")
			b := append([]byte{lt.types[kind]}, rapid.SliceOfN(rapid.Byte(), n-1, n-1).Draw(t, "sb")...)
			dgram = refSeal(key, b)
		case "unknown-type":
			b := append([]byte{}, validBody...)
			b[0] = rapid.SampledFrom([]byte{0, 5, 6, 100, 132, 133, 138, 139, 200, 255}).Draw(t, "badtype")
			dgram = refSeal(key, b)
		case "wrong-mode":
			// a packet of the other mode: eth type bytes to an aqua table and the reverse
			other := discover.VerifPacketTypes(!lt.netcompat)
			b := []byte{other[kind]}
			if lt.netcompat {
				b = append(b, "aqua"...)
			}
			dgram = refSeal(key, append(b, validPayload...))
		case "raw":
			dgram = rapid.SliceOfN(rapid.Byte(), 0, 300).Draw(t, "raw")
			if rapid.Bool().Draw(t, "hashed") && len(dgram) > refMacSize {
				copy(dgram, refKeccak(dgram[refMacSize:]))
				ev.Label("raw-hashed")
			}
			nontrivial = false
		}
		if len(dgram) > maxDatagram {
			t.Skip("too large")
		}
		acc, labels := checkDatagram(fail, lt, att, class, dgram, want)
		if class == "mutate-byte" && acc {
			fail("single-byte mutation accepted: %x", dgram)
		}
		if _, _, e := refOpen(dgram); e != nil {
			nontrivial = false
		}
		mode := "mode:aqua"
		if lt.netcompat {
			mode = "mode:netcompat"
		}
		labels = append(labels, "class:"+class, mode, "kind:"+kindNames[kind])
		ev.Case(nontrivial, append([]byte(mode+"|"), dgram[min(len(dgram), refHeadSize):]...), labels...)
		ev.Sample(dgramCase{lt.netcompat, att, class, hex.EncodeToString(dgram)})
	})
}

// TestDiscv4TruncateEvery: a valid packet of every type, signed body truncated
// at every length (and re-signed), in both modes: enumerated completely.
func TestDiscv4TruncateEvery(t *testing.T) {
	fail := func(f string, a ...interface{}) { t.Errorf(f, a...) }
	for _, nc := range []bool{false, true} {
		lt := getTable(nc)
		a := attackerAddr(0)
		var id [64]byte
		copy(id[:], bytes.Repeat([]byte{7}, 64))
		node := refrlp.L(refrlp.B([]byte{51, 15, 9, 9}), refrlp.U(30303), refrlp.U(30303), refrlp.B(id[:]))
		payloads := [4][]byte{
			pingPayload(a, lt.conn.local, future()),
			refrlp.Encode(refrlp.L(endpointItem(a, 0), refrlp.B(bytes.Repeat([]byte{1}, 32)), refrlp.U(future()))),
			findnodePayload(id[:], future()),
			refrlp.Encode(refrlp.L(refrlp.L(node, node), refrlp.U(future()))),
		}
		for kind, p := range payloads {
			body := bodyOf(lt, kind, p)
			for cut := 1; cut <= len(body); cut++ {
				dgram := refSeal(attackers[0], body[:cut])
				acc, labels := checkDatagram(fail, lt, 0, "truncate-every", dgram, cut == len(body))
				if acc != (cut == len(body)) {
					t.Errorf("%s truncated to %d of %d body bytes: accepted=%v", kindNames[kind], cut, len(body), acc)
				}
				ev.Case(true, append([]byte(fmt.Sprintf("trunc|%v|", nc)), dgram[refHeadSize:]...), append(labels, "class:truncate-every")...)
				if t.Failed() {
					ev.SaveCase("TestDiscv4TruncateEvery", dgramCase{nc, 0, "truncate-every", hex.EncodeToString(dgram)})
					return
				}
			}
		}
	}
	ev.Exhaustive("discv4: one valid packet of each of the 4 types, both modes, signed body truncated at every length")
}

// TestDiscv4KnownWitness runs the fixed witness of the listed finding.
func TestDiscv4KnownWitness(t *testing.T) {
	fail := failer(t)
	for n := 1; n <= 4; n++ {
		body := append([]byte{134}, make([]byte, n-1)...)
		dgram := refSeal(attackers[3], body)
		_, _, _, _, err, pn := decodeGuard(false, dgram)
		switch {
		case pn != nil && ev.Known(keyShortSigned):
			ev.KnownFinding(keyShortSigned)
		case pn != nil:
			ev.SaveCase("TestDiscv4KnownWitness", dgramCase{false, 3, "short-signed", hex.EncodeToString(dgram)})
			fail("decodePacket panics on a correctly signed datagram with a %d-byte body: %v", n, pn)
		case err == nil:
			fail("%d-byte body accepted", n)
		}
	}
}

// closeTables shuts the live tables down so that their goroutines (bonding
// pings, node database compaction) do not allocate while later layers measure.
func closeTables() {
	liveMu.Lock()
	defer liveMu.Unlock()
	for k, lt := range liveTables {
		done := make(chan struct{})
		go func() { lt.tab.Close(); close(done) }()
		select {
		case <-done:
		case <-time.After(10 * time.Second):
		}
		lt.conn.Close()
		delete(liveTables, k)
	}
}

// ---------- corpus / replay / fuzz ----------

func runDgramCase(fail func(string, ...interface{}), c dgramCase) {
	b, err := hex.DecodeString(c.Datagram)
	if err != nil {
		fail("bad hex in case: %v", err)
		return
	}
	if c.Attacker < 0 || c.Attacker >= len(attackers) {
		c.Attacker = 3
	}
	checkDatagram(fail, getTable(c.Netcompat), c.Attacker, c.Class, b, false)
}

func TestDiscv4Corpus(t *testing.T) {
	dir := os.Getenv("VERIF_CORPUS")
	ents, _ := os.ReadDir(dir)
	for _, e := range ents {
		if !strings.HasPrefix(e.Name(), "dgram-") {
			continue
		}
		b, err := os.ReadFile(dir + "/" + e.Name())
		if err != nil {
			continue
		}
		var c dgramCase
		if json.Unmarshal(b, &c) != nil {
			continue
		}
		runDgramCase(func(f string, a ...interface{}) { t.Errorf(e.Name()+": "+f, a...) }, c)
		ev.Case(true, []byte("corpus|"+c.Datagram), "corpus:dgram")
	}
}

// TestDiscv4Close ends layer 1 (tests run in source order).
func TestDiscv4Close(t *testing.T) {
	closeTables()
	time.Sleep(100 * time.Millisecond)
}

// fuzzDatagram turns fuzzer bytes into a correctly signed datagram (or, for
// selector 3, leaves them raw) and runs the oracle.
func fuzzDatagram(fail func(string, ...interface{}), data []byte) {
	if len(data) < 2 || len(data) > 1100 {
		return
	}
	sel := data[0]
	lt := getTable(sel&1 == 1)
	att := int(sel>>1) % len(attackers)
	var dgram []byte
	switch (sel >> 4) & 3 {
	case 3:
		dgram = append([]byte{}, data[1:]...)
		if len(dgram) > refMacSize {
			copy(dgram, refKeccak(dgram[refMacSize:]))
		}
	case 2: // type byte from the input, no tag inserted
		dgram = refSeal(attackers[att], data[1:])
	default: // a known type + tag + payload from the input
		dgram = refSeal(attackers[att], bodyOf(lt, int(data[1]&3), data[2:]))
	}
	checkDatagram(fail, lt, att, "fuzz", dgram, false)
}

func FuzzDiscv4(f *testing.F) {
	a := attackerAddr(0)
	var id [64]byte
	for _, nc := range []byte{0, 1} {
		f.Add(append([]byte{nc, 0}, pingPayload(a, a, future())...))
		f.Add(append([]byte{nc, 2}, findnodePayload(id[:], future())...))
		f.Add(append([]byte{nc, 3}, refrlp.Encode(refrlp.L(refrlp.L(), refrlp.U(future())))...))
		f.Add([]byte{nc | 0x20, 134, 0})
		f.Add([]byte{nc | 0x20, 1, 0xc0})
		f.Add(append([]byte{nc | 0x30}, make([]byte, 120)...))
	}
	f.Fuzz(func(t *testing.T, data []byte) {
		fuzzDatagram(func(f string, a ...interface{}) { t.Fatalf(f, a...) }, data)
	})
}
