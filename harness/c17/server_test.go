package c17

// Layer 4: p2p.Server as the connection handler (p2p/server.go listenLoop /
// SetupConn / run, p2p/peer.go readLoop / handle, p2p/peer_error.go), driven
// over real TCP loopback connections and the real RLPx transport.
//
// One case = one freshly started Server (small number of handshake slots,
// optionally NetRestrict = 127.0.0.1/32, a logger that formats every record),
// then
//
//  1. a generated sequence of inbound connections that are rejected or die
//     early (address outside NetRestrict, connect-and-close, attacker bytes as
//     auth packet, a real auth packet cut short, a completed encryption
//     handshake followed by a spoiled / refused / missing protocol handshake,
//     a peer that drops dead), some of which stay open while later ones arrive;
//  2. a legitimate peer, which must complete both handshakes and get a
//     sub-protocol message echoed ("no input wedges the connection handler");
//  3. a generated sequence of base-protocol and sub-protocol messages on that
//     peer's session: ping, pong, unknown base codes with any payload,
//     disconnect with every kind of reason / payload, codes outside every
//     protocol, sub-protocol messages that the node's handler holds for up to
//     3 further messages before it consumes and echoes them. Everything the
//     node delivers to its handler must be exactly what was written; the
//     connection must end up served or closed by the node, never silent; a
//     session of nothing but well-formed traffic must be served;
//  4. a second legitimate peer, and Server.Stop, which must return.
//
// A panic anywhere in a goroutine of the node kills the test process (the
// driver reports the crash; the case in flight is in the file "inflight").

import (
	"bytes"
	"context"
	"encoding/binary"
	"errors"
	"flag"
	"fmt"
	"io"
	"net"
	"os"
	"sync/atomic"
	"testing"
	"time"

	"github.com/btcsuite/btcd/btcec/v2"
	"gitlab.com/aquachain/aquachain/common/log"
	"gitlab.com/aquachain/aquachain/p2p"
	"gitlab.com/aquachain/aquachain/p2p/discover"
	"gitlab.com/aquachain/aquachain/p2p/netutil"
	"pgregory.net/rapid"
	"verifharness/ev"
	"verifharness/ref/refrlp"
)

const (
	// srvBoundGenerous is the generous bound for steps that take milliseconds: the
	// node answering a handshake, echoing a message, closing a connection it
	// has given up, Server.Stop returning.
	srvBoundGenerous = 20 * time.Second
	// srvBoundAfterwards applies in a process that has already seen a step miss the generous
	// bound (the verdict exists by then): the re-runs of rapid's reproduction and minimisation
	// would otherwise cost 20 s per failing attempt and exhaust the tier's time budget. A
	// replay starts with the generous bound again.
	srvBoundAfterwards = 3 * time.Second

	echoName    = "c17echo"
	echoVersion = 1
	echoLength  = 4 // code k (0..3): the handler may keep at most k messages unconsumed after this one
	baseLength  = 16
	srvName     = "c17-node/v0 (verif)"

	// keyDiscReason is the listed finding: DiscReason.String() indexes its table out of range.
	keyDiscReason = "p2p/disc-reason-out-of-table"
)

var srvBoundMissed atomic.Bool

func srvBound() time.Duration {
	if srvBoundMissed.Load() {
		return srvBoundAfterwards
	}
	return srvBoundGenerous
}

// noteTimeout records that a step has missed the bound (see srvBoundAfterwards).
func noteTimeout(err error) {
	if isTimeout(err) {
		srvBoundMissed.Store(true)
	}
}

// reasonOutOfTable is exactly the shape of the listed finding (64-bit uint):
// the table has 17 entries (0..16) and the guard is len(table) < int(d), so 17
// and everything that is negative as an int slip through.
func reasonOutOfTable(v uint64) bool { return v == 17 || v >= 1<<63 }

// firstListUint reads what the node's decoder (rlp.Decode into [1]DiscReason,
// errors ignored) has stored when it stops: the first element of the outer
// list, if that is a canonical integer of at most 8 bytes.
func firstListUint(p []byte) (uint64, bool) {
	isList, content, _, err := refrlp.SplitHead(p)
	if err != nil || !isList {
		return 0, false
	}
	isList, b, _, err := refrlp.SplitHead(content)
	if err != nil || isList || len(b) > 8 || (len(b) > 0 && b[0] == 0) {
		return 0, false
	}
	var v uint64
	for _, x := range b {
		v = v<<8 | uint64(x)
	}
	return v, true
}

// ---------- the node ----------

// echoProtocol is the sub-protocol the node runs for its peers. It is a
// handler as the node's own handlers are: it reads messages from rw and
// consumes every payload completely; it answers each consumed message with
// [declared size (4 bytes) || payload] under the same code. Code k means the
// handler may still be working on up to k earlier messages when it goes back
// to ReadMsg (a handler that is busy with a message while the read loop
// fetches the following frames).
func echoProtocol() p2p.Protocol {
	return p2p.Protocol{
		Name: echoName, Version: echoVersion, Length: echoLength,
		Run: func(p *p2p.Peer, rw p2p.MsgReadWriter) error {
			var held []p2p.Msg
			for {
				msg, err := rw.ReadMsg()
				if err != nil {
					return err
				}
				held = append(held, msg)
				for len(held) > int(msg.Code) {
					m := held[0]
					held = held[1:]
					body, err := io.ReadAll(m.Payload)
					if err != nil {
						return err
					}
					out := make([]byte, 4, 4+len(body))
					binary.BigEndian.PutUint32(out, m.Size)
					out = append(out, body...)
					if err := rw.WriteMsg(p2p.Msg{Code: m.Code, Size: uint32(len(out)), Payload: bytes.NewReader(out)}); err != nil {
						return err
					}
				}
			}
		},
	}
}

// formattingLogger formats every record of every level (as a node running with
// full verbosity does) and throws the text away.
func formattingLogger() log.LoggerI {
	l := log.New("c17", "srv")
	l.SetHandler(log.StreamHandler(io.Discard, log.TerminalFormat(false)))
	return l
}

type srvCase struct {
	srv      *p2p.Server
	key      *btcec.PrivateKey
	id       discover.NodeID
	addr     string
	slots    int
	restrict bool
	conns    []net.Conn // everything dialled in this case, closed at the end
}

func startServer(key *btcec.PrivateKey, slots int, restrict, verbose bool) (*srvCase, error) {
	cfg := &p2p.Config{
		PrivateKey:      key,
		MaxPeers:        50,
		MaxPendingPeers: slots,
		NoDiscovery:     true,
		NoDial:          true,
		Name:            srvName,
		ListenAddr:      "127.0.0.1:0",
		ChainId:         222, // not one of the public networks: Start does not count down 10 s
		Protocols:       []p2p.Protocol{echoProtocol()},
	}
	if restrict {
		nl, err := netutil.ParseNetlist("127.0.0.1/32")
		if err != nil {
			return nil, err
		}
		cfg.NetRestrict = nl
	}
	if verbose {
		cfg.Logger = formattingLogger()
	}
	srv := &p2p.Server{Config: cfg}
	if err := srv.Start(context.Background()); err != nil {
		return nil, err
	}
	return &srvCase{srv: srv, key: key, id: nodeIDOf(key), addr: srv.ListenAddr, slots: slots, restrict: restrict}, nil
}

// tcpEnd hides the deadline setters from the RLPx transport (which would set
// its own 5 s / 30 s ones): the harness sets the deadlines on the real
// connection itself.
type tcpEnd struct{ net.Conn }

func (tcpEnd) SetDeadline(time.Time) error      { return nil }
func (tcpEnd) SetReadDeadline(time.Time) error  { return nil }
func (tcpEnd) SetWriteDeadline(time.Time) error { return nil }

func (sc *srvCase) dial(ip string) (net.Conn, error) {
	d := net.Dialer{Timeout: srvBound(), LocalAddr: &net.TCPAddr{IP: net.ParseIP(ip)}}
	fd, err := d.Dial("tcp4", sc.addr)
	if err != nil {
		return nil, err
	}
	sc.conns = append(sc.conns, fd)
	fd.SetDeadline(time.Now().Add(srvBound()))
	return fd, nil
}

func (sc *srvCase) closeConns() {
	for _, c := range sc.conns {
		c.Close()
	}
	sc.conns = nil
}

// finish ends an offender's connection: shut down the writing side and wait
// (bounded, without a verdict) until the node has closed its side, so that the
// node has certainly dealt with the connection before the case goes on.
func finish(fd net.Conn) (closedByNode bool) {
	if tc, ok := fd.(*net.TCPConn); ok {
		tc.CloseWrite()
	}
	fd.SetReadDeadline(time.Now().Add(srvBound()))
	_, err := io.Copy(io.Discard, fd)
	fd.Close()
	var ne net.Error
	return !(errors.As(err, &ne) && ne.Timeout())
}

func isTimeout(err error) bool {
	var ne net.Error
	return errors.As(err, &ne) && ne.Timeout()
}

// ---------- the remote side ----------

type capSpec struct {
	name    string
	version uint64
}

type peerSpec struct {
	key     *btcec.PrivateKey
	version uint64 // devp2p version announced: >= 5 switches snappy on
	name    []byte
	caps    []capSpec
	port    uint64
	rest    int // extra trailing fields in the handshake (forward compatibility)
}

func (ps peerSpec) handshakeItem(id []byte) refrlp.Item {
	caps := make([]refrlp.Item, len(ps.caps))
	for i, c := range ps.caps {
		caps[i] = refrlp.L(refrlp.B([]byte(c.name)), refrlp.U(c.version))
	}
	items := []refrlp.Item{refrlp.U(ps.version), refrlp.B(ps.name), refrlp.L(caps...), refrlp.U(ps.port), refrlp.B(id)}
	for i := 0; i < ps.rest; i++ {
		items = append(items, refrlp.L(refrlp.U(uint64(i))))
	}
	return refrlp.L(items...)
}

func drawFreshKey(t *rapid.T, label string, not ...*btcec.PrivateKey) *btcec.PrivateKey {
	b := rapid.SliceOfN(rapid.Byte(), 32, 32).Draw(t, label+"-scalar")
	b[0] &= 0x7f // below the group order
	b[31] |= 1   // not zero
	for {
		k, _ := btcec.PrivKeyFromBytes(b)
		fresh := true
		for _, o := range not {
			if idOf(o) == idOf(k) {
				fresh = false
			}
		}
		if fresh {
			return k
		}
		b[30]++
	}
}

func drawPeerSpec(t *rapid.T, label string, key *btcec.PrivateKey) peerSpec {
	ps := peerSpec{key: key}
	ps.version = rapid.SampledFrom([]uint64{4, 4, 4, 5, 5, 255}).Draw(t, label+"-version")
	ps.name = rapid.SliceOfN(rapid.Byte(), 0, 200).Draw(t, label+"-name")
	ps.caps = []capSpec{{echoName, echoVersion}}
	for i, n := 0, rapid.IntRange(0, 3).Draw(t, label+"-extracaps"); i < n; i++ {
		ps.caps = append(ps.caps, capSpec{
			rapid.SampledFrom([]string{"aqua", "zzz", "", echoName, "a"}).Draw(t, label+"-capname"),
			rapid.SampledFrom([]uint64{0, 2, 64, 65, 1 << 31}).Draw(t, label+"-capver"),
		})
	}
	ps.port = rapid.SampledFrom([]uint64{0, 21303, 65535, 1 << 40}).Draw(t, label+"-port")
	ps.rest = rapid.IntRange(0, 2).Draw(t, label+"-rest")
	return ps
}

type clientEvent struct {
	code    uint64
	payload []byte
	err     error
}

type client struct {
	raw    net.Conn
	r      *p2p.VerifRLPX
	events chan clientEvent
}

// encHandshake runs the initiator side of the encryption handshake on fd.
func (sc *srvCase) encHandshake(fd net.Conn, key *btcec.PrivateKey) (*client, error) {
	fd.SetDeadline(time.Now().Add(srvBound()))
	r := p2p.VerifNewRLPX(tcpEnd{fd})
	id, err := r.EncHandshake(key.ToECDSA(), &discover.Node{ID: sc.id})
	if err != nil {
		return nil, fmt.Errorf("encryption handshake: %w", err)
	}
	if id != sc.id {
		return nil, fmt.Errorf("encryption handshake authenticated %x, the node is %x", id[:8], sc.id[:8])
	}
	return &client{raw: fd, r: r}, nil
}

func (c *client) write(code uint64, payload []byte) error {
	return c.r.WriteMsg(p2p.Msg{Code: code, Size: uint32(len(payload)), Payload: bytes.NewReader(payload)})
}

func (c *client) read() (uint64, []byte, error) {
	msg, err := c.r.ReadMsg()
	if err != nil {
		return 0, nil, err
	}
	body, err := io.ReadAll(msg.Payload)
	if err == nil && int(msg.Size) != len(body) {
		err = fmt.Errorf("message declares %d bytes and carries %d", msg.Size, len(body))
	}
	return msg.Code, body, err
}

// protoHandshake sends ps as the protocol handshake and checks the node's own.
func (sc *srvCase) protoHandshake(c *client, ps peerSpec) error {
	id := idOf(ps.key)
	if err := c.write(0, refrlp.Encode(ps.handshakeItem(id[:]))); err != nil {
		return fmt.Errorf("protocol handshake write: %w", err)
	}
	code, body, err := c.read()
	if err != nil {
		return fmt.Errorf("protocol handshake read: %w", err)
	}
	if code != 0 {
		return fmt.Errorf("protocol handshake: the node sent code %d payload %x instead of its handshake", code, body[:min(len(body), 40)])
	}
	it, err := refrlp.DecodeExact(body)
	if err != nil || !it.IsList || len(it.List) < 5 {
		return fmt.Errorf("protocol handshake: the node's handshake does not parse (%v): %x", err, body[:min(len(body), 80)])
	}
	if !bytes.Equal(it.List[1].Bytes, []byte(srvName)) || !bytes.Equal(it.List[4].Bytes, sc.id[:]) {
		return fmt.Errorf("protocol handshake: read name %q id %x, the node is %q %x", it.List[1].Bytes, it.List[4].Bytes[:min(len(it.List[4].Bytes), 8)], srvName, sc.id[:8])
	}
	c.r.SetSnappy(ps.version >= 5)
	return nil
}

func (c *client) startReader() {
	c.events = make(chan clientEvent, 4096)
	go func() {
		defer close(c.events)
		defer func() {
			if p := recover(); p != nil {
				c.events <- clientEvent{err: fmt.Errorf("reader panicked: %v", p)}
			}
		}()
		for {
			code, body, err := c.read()
			if err != nil {
				c.events <- clientEvent{err: err}
				return
			}
			c.raw.SetDeadline(time.Now().Add(srvBound())) // progress: the bound is per step
			c.events <- clientEvent{code: code, payload: body}
		}
	}()
}

type echoRec struct {
	code    uint64 // 0..3, relative to the sub-protocol
	payload []byte
}

// checkEcho compares one echoed message with what the remote side wrote.
func checkEcho(e clientEvent, want echoRec) error {
	if e.code != baseLength+want.code {
		return fmt.Errorf("the node's handler answered under code %d, the message was written under code %d", e.code, baseLength+want.code)
	}
	if len(e.payload) < 4 {
		return fmt.Errorf("echo of %d bytes", len(e.payload))
	}
	size, body := binary.BigEndian.Uint32(e.payload), e.payload[4:]
	if int(size) != len(want.payload) || !bytes.Equal(body, want.payload) {
		return fmt.Errorf("the node's handler was handed a message of declared size %d with a %d-byte payload (equal prefix %d); the remote wrote %d bytes",
			size, len(body), commonPrefix(body, want.payload), len(want.payload))
	}
	return nil
}

// connectPeer: a legitimate peer. Both handshakes, then one echoed message.
func (sc *srvCase) connectPeer(ps peerSpec, probe []byte) (*client, error) {
	fd, err := sc.dial("127.0.0.1")
	if err != nil {
		return nil, fmt.Errorf("dial: %w", err)
	}
	c, err := sc.encHandshake(fd, ps.key)
	if err != nil {
		return nil, err
	}
	if err := sc.protoHandshake(c, ps); err != nil {
		return nil, err
	}
	if err := c.write(baseLength, probe); err != nil {
		return nil, fmt.Errorf("first message: %w", err)
	}
	for {
		code, body, err := c.read()
		if err != nil {
			return nil, fmt.Errorf("waiting for the echo of the first message: %w", err)
		}
		if code == 2 { // the node's own keep-alive ping
			continue
		}
		if err := checkEcho(clientEvent{code: code, payload: body}, echoRec{0, probe}); err != nil {
			return nil, err
		}
		return c, nil
	}
}

// ---------- generators ----------

var discReasons = []uint64{0, 1, 2, 3, 4, 5, 6, 7, 8, 9, 10, 11, 12, 13, 15, 16, 17, 18, 31, 127, 128, 255, 256, 65535, 1<<31 - 1, 1 << 31, 1<<32 - 1, 1 << 32, 1<<63 - 1, 1 << 63, 1<<63 + 1, 1<<64 - 1}

// drawDiscPayload draws the payload of a disconnect message: the regular
// [reason] with every kind of reason value, and malformed variants.
func drawDiscPayload(t *rapid.T) (payload []byte, kind string) {
	r := rapid.SampledFrom(discReasons).Draw(t, "reason")
	if rapid.IntRange(0, 9).Draw(t, "reason-any") == 0 {
		r = rapid.Uint64().Draw(t, "reason-u64")
	}
	kind = rapid.SampledFrom([]string{"list1", "list1", "list1", "list1", "bare", "empty", "emptylist", "list2", "nested", "long-int", "leading-zero", "string", "truncated-list", "random"}).Draw(t, "disckind")
	switch kind {
	case "list1":
		payload = refrlp.Encode(refrlp.L(refrlp.U(r)))
	case "bare":
		payload = refrlp.Encode(refrlp.U(r))
	case "empty":
	case "emptylist":
		payload = []byte{0xc0}
	case "list2":
		payload = refrlp.Encode(refrlp.L(refrlp.U(r), refrlp.U(rapid.SampledFrom(discReasons).Draw(t, "reason2"))))
	case "nested":
		payload = refrlp.Encode(refrlp.L(refrlp.L(refrlp.U(r))))
	case "long-int":
		payload = refrlp.Encode(refrlp.L(refrlp.B(append([]byte{1}, refrlp.U(r | 1<<56).Bytes...))))
	case "leading-zero":
		payload = refrlp.Encode(refrlp.L(refrlp.B(append([]byte{0}, refrlp.U(r | 1).Bytes...))))
	case "string":
		payload = refrlp.Encode(refrlp.L(refrlp.B([]byte("breach of protocol, with a reason that is much longer than any integer"))))
	case "truncated-list":
		payload = append([]byte{0xf9, 0xff, 0xff}, refrlp.Encode(refrlp.U(r))...)
	default:
		payload = rapid.SliceOfN(rapid.Byte(), 1, 64).Draw(t, "discbytes")
	}
	return payload, kind
}

// knownDiscShape steps around exactly the listed finding.
func knownDiscShape(payload []byte) bool {
	if v, ok := firstListUint(payload); ok && reasonOutOfTable(v) && ev.Known(keyDiscReason) {
		ev.Excluded(keyDiscReason)
		return true
	}
	return false
}

func reasonClass(payload []byte) string {
	v, ok := firstListUint(payload)
	switch {
	case !ok:
		return "disc-reason:undecodable"
	case v <= 16:
		return "disc-reason:0-16"
	case v == 17:
		return "disc-reason:17"
	case v < 1<<63:
		return "disc-reason:18..2^63-1"
	default:
		return "disc-reason:>=2^63"
	}
}

type action struct {
	kind     string // echo | ping | pong | base | disc | badcode
	code     uint64
	payload  []byte
	terminal bool
	label    string
}

func drawSmallPayload(t *rapid.T, label string) []byte {
	switch rapid.SampledFrom([]string{"emptylist", "emptylist", "none", "rlp", "bytes", "big"}).Draw(t, label+"-pk") {
	case "emptylist":
		return []byte{0xc0}
	case "none":
		return nil
	case "rlp":
		return refrlp.Encode(refrlp.L(refrlp.U(rapid.Uint64().Draw(t, label+"-u")), refrlp.L(refrlp.L()), refrlp.B([]byte("x"))))
	case "big":
		return drawPayload(t, rapid.SampledFrom([]int{2048, 2049, 5000, 64 << 10}).Draw(t, label+"-bigsize"))
	default:
		return rapid.SliceOfN(rapid.Byte(), 1, 100).Draw(t, label+"-bytes")
	}
}

func drawAction(t *rapid.T, allowTerminal bool) action {
	kinds := []string{"echo", "echo", "echo", "echo", "ping", "ping", "base", "base", "pong"}
	if allowTerminal {
		kinds = append(kinds, "disc", "disc", "badcode")
	}
	switch k := rapid.SampledFrom(kinds).Draw(t, "action"); k {
	case "echo":
		keep := uint64(rapid.SampledFrom([]int{0, 0, 1, 1, 2, 3}).Draw(t, "keep"))
		size := rapid.SampledFrom([]int{0, 1, 15, 16, 17, 100, 300, 1024, 4096, 20000, 64 << 10}).Draw(t, "echosize")
		p := make([]byte, size)
		(&detRand{rapid.Uint64().Draw(t, "echofill") | 1}).Read(p)
		return action{kind: k, code: baseLength + keep, payload: p, label: fmt.Sprintf("echo-keep:%d", keep)}
	case "ping":
		return action{kind: k, code: 2, payload: drawSmallPayload(t, "ping"), label: "base:ping"}
	case "pong":
		return action{kind: k, code: 3, payload: drawSmallPayload(t, "pong"), label: "base:pong"}
	case "base":
		// the handshake code again, and the base-protocol codes that mean nothing
		code := uint64(rapid.SampledFrom([]int{0, 4, 5, 8, 15}).Draw(t, "basecode"))
		return action{kind: k, code: code, payload: drawSmallPayload(t, "base"), label: "base:other-code"}
	case "disc":
		p, dk := drawDiscPayload(t)
		return action{kind: k, code: 1, payload: p, terminal: true, label: "disc:" + dk}
	default:
		code := rapid.SampledFrom([]uint64{baseLength + echoLength, baseLength + echoLength + 1, 0x100, 1 << 32, 1<<64 - 1}).Draw(t, "badcode")
		return action{kind: "badcode", code: code, payload: drawSmallPayload(t, "bad"), terminal: true, label: "code-outside-protocols"}
	}
}

// realAuthPacket captures the auth packet a real initiator sends to the node.
func realAuthPacket(key *btcec.PrivateKey, to discover.NodeID) []byte {
	l, ca, _ := newLink(1)
	defer l.closeAll()
	r := p2p.VerifNewRLPX(ca)
	out := make(chan hsResult, 1)
	go guardedHandshake(l, r, key.ToECDSA(), &discover.Node{ID: to}, out)
	<-out // fails with the virtual i/o timeout after the auth packet has been written
	return append([]byte{}, ca.pending()...)
}

type offender struct {
	kind   string
	ip     string
	linger bool // stays open while later connections arrive
	data   []byte
	key    *btcec.PrivateKey
	spec   peerSpec
	canon  string
}

var preAuthKinds = []string{"connect-close", "attacker-auth", "truncated-auth", "silent"}
var postAuthKinds = []string{"hs-close", "hs-disc", "hs-wrong-id", "hs-zero-id", "hs-no-caps", "hs-garbage", "hs-wrong-code", "hs-too-big", "hs-short-id", "peer-drop"}

func drawOffender(t *rapid.T, sc *srvCase, used []*btcec.PrivateKey) offender {
	o := offender{}
	o.ip = rapid.SampledFrom([]string{"127.0.0.1", "127.0.0.1", "127.0.0.2", "127.0.0.2", "127.0.0.77"}).Draw(t, "ip")
	if rapid.Bool().Draw(t, "postauth") {
		o.kind = rapid.SampledFrom(postAuthKinds).Draw(t, "okind")
	} else {
		o.kind = rapid.SampledFrom(preAuthKinds).Draw(t, "okind")
	}
	o.canon = o.kind + "@" + o.ip
	switch o.kind {
	case "connect-close":
	case "silent":
		o.linger = true
	case "attacker-auth":
		o.data, _ = drawHandshakeBytes(t, sc.key, encAuthMsgLen)
		o.linger = rapid.Bool().Draw(t, "linger")
		o.canon += fmt.Sprintf(":%x", o.data[:min(len(o.data), 24)])
	case "truncated-auth":
		o.key = drawFreshKey(t, "okey", used...)
		full := realAuthPacket(o.key, sc.id)
		if len(full) < 2 {
			t.Fatalf("harness: no auth packet captured")
		}
		o.data = full[:rapid.IntRange(1, len(full)-1).Draw(t, "cut")]
		o.linger = rapid.Bool().Draw(t, "linger")
		o.canon += fmt.Sprintf(":%d", len(o.data))
	default:
		o.key = drawFreshKey(t, "okey", used...)
		o.spec = drawPeerSpec(t, "ospec", o.key)
		switch o.kind {
		case "hs-disc":
			o.data, _ = drawDiscPayload(t)
			o.canon += fmt.Sprintf(":%x", o.data[:min(len(o.data), 12)])
		case "hs-garbage", "hs-wrong-code":
			o.data = drawSmallPayload(t, "ohs")
		case "hs-too-big":
			o.data = make([]byte, rapid.SampledFrom([]int{2049, 4096, 70000}).Draw(t, "toobig"))
		}
	}
	if o.linger {
		o.canon += "+linger"
	}
	return o
}

// ---------- the property ----------

type srvInflight struct {
	Kind  string `json:"kind"`
	Trace string `json:"trace"`
}

func TestServerSession(t *testing.T) {
	// A wedged node shows only as "no answer within the bound": every failing attempt of the
	// minimiser costs that long, so the minimiser gets a short budget here (it stops at the
	// first attempt that ends after it; failures that show at once still shrink well in 5 s).
	if f := flag.Lookup("rapid.shrinktime"); f != nil && os.Getenv("VERIF_SHRINKTIME") == "" {
		old := f.Value.String()
		flag.Set("rapid.shrinktime", "5s")
		defer flag.Set("rapid.shrinktime", old)
	}
	ev.Check(t, ev.N(240, 9_600), func(t *rapid.T) {
		report := failer(t)
		fail := func(f string, a ...interface{}) {
			for _, x := range a {
				if err, ok := x.(error); ok {
					noteTimeout(err)
				}
			}
			report(f, a...)
		}
		srvKey := drawKey(t, "srvkey")
		slots := rapid.SampledFrom([]int{1, 1, 2, 3, 5}).Draw(t, "slots")
		restrict := rapid.Bool().Draw(t, "netrestrict")
		verbose := rapid.IntRange(0, 3).Draw(t, "verbose") > 0
		stall := ev.Thorough() && rapid.IntRange(0, 79).Draw(t, "stall") == 0
		labels := []string{fmt.Sprintf("srv:slots:%d", slots)}
		if restrict {
			labels = append(labels, "srv:netrestrict")
		}
		if verbose {
			labels = append(labels, "srv:log-formats-all")
		}
		srvID := idOf(srvKey)
		canon := []byte(fmt.Sprintf("srv|%x|%d|%v|%v|", srvID[:8], slots, restrict, verbose))

		sc, err := startServer(srvKey, slots, restrict, verbose)
		if err != nil {
			t.Fatalf("harness: cannot start the server: %v", err)
		}
		stopped := false
		defer func() {
			sc.closeConns()
			if !stopped {
				go sc.srv.Stop() // a failed case must not wait for a wedged server
			}
		}()
		used := []*btcec.PrivateKey{srvKey}

		// ---- 1. connections that are rejected or die early ----
		var lingering []net.Conn
		release := func() {
			for _, fd := range lingering {
				if !finish(fd) {
					labels = append(labels, "srv:offender-not-closed-in-time")
				}
			}
			lingering = nil
		}
		// a step that needs an answer from the node would otherwise wait for the node's own
		// 5 s handshake timeout of the connections that sit on all the slots
		needAnswer := func() {
			if len(lingering) >= slots && !stall {
				release()
			}
		}
		nOff := rapid.IntRange(0, 12).Draw(t, "offenders")
		for i := 0; i < nOff; i++ {
			o := drawOffender(t, sc, used)
			if o.key != nil {
				used = append(used, o.key)
			}
			if (o.kind == "hs-disc") && knownDiscShape(o.data) {
				continue
			}
			canon = append(canon, o.canon...)
			canon = append(canon, ';')
			writeInflight(srvInflight{"server-session", string(canon)})
			outside := restrict && o.ip != "127.0.0.1"
			postAuth := o.kind == "peer-drop" || o.kind[:3] == "hs-"
			if postAuth {
				needAnswer()
			}
			fd, err := sc.dial(o.ip)
			if err != nil {
				t.Fatalf("harness: cannot dial from %s: %v", o.ip, err)
			}
			labels = append(labels, "srv:offender:"+o.kind)
			if outside {
				labels = append(labels, "srv:offender-outside-netrestrict")
			}
			if !postAuth {
				if len(o.data) > 0 {
					fd.Write(o.data) // (an error means the node has closed the connection already)
				}
				if o.linger {
					if stall && len(lingering) >= slots {
						// stalled connections are never more than the slots: each slot is given
						// up by the node's own 5 s handshake timeout, once
						release()
					}
					lingering = append(lingering, fd)
					labels = append(labels, "srv:offender-lingers")
				} else if len(lingering) >= slots {
					// every slot may be taken by a connection that is still open: the node gets to
					// this one later (it finds it closed); nothing to wait for
					fd.Close()
					labels = append(labels, "srv:offender-queued-behind-full-slots")
				} else if !finish(fd) {
					labels = append(labels, "srv:offender-not-closed-in-time")
				}
				continue
			}
			c, err := sc.encHandshake(fd, o.key)
			if err != nil {
				if outside {
					fd.Close() // rejected before the handshake, as configured
					continue
				}
				fail("after %d rejected or dead connections (%s) a correct auth packet from an allowed address gets no handshake: %v", i, canon, err)
			}
			id := idOf(o.key)
			switch o.kind {
			case "hs-close":
			case "hs-disc":
				c.write(1, o.data)
				labels = append(labels, "srv:hs-"+reasonClass(o.data))
			case "hs-wrong-id":
				other := idOf(attackers[4])
				c.write(0, refrlp.Encode(o.spec.handshakeItem(other[:])))
			case "hs-zero-id":
				c.write(0, refrlp.Encode(o.spec.handshakeItem(make([]byte, 64))))
			case "hs-short-id":
				c.write(0, refrlp.Encode(o.spec.handshakeItem(id[:63])))
			case "hs-no-caps":
				o.spec.caps = o.spec.caps[1:]
				c.write(0, refrlp.Encode(o.spec.handshakeItem(id[:])))
			case "hs-garbage":
				c.write(0, o.data)
			case "hs-wrong-code":
				c.write(2, o.data)
			case "hs-too-big":
				c.write(0, o.data)
			case "peer-drop":
				if err := sc.protoHandshake(c, o.spec); err != nil {
					fail("after %d rejected or dead connections (%s) a legitimate peer cannot finish the protocol handshake: %v", i, canon, err)
				}
				fd.Close() // drops dead: no disconnect message, no shutdown
				continue
			}
			if !finish(fd) {
				labels = append(labels, "srv:offender-not-closed-in-time")
			}
		}
		if !stall {
			release()
		} else if len(lingering) > 0 {
			labels = append(labels, "srv:stalled-slots")
		}

		// ---- 2. a legitimate peer ----
		keyA := drawFreshKey(t, "keyA", used...)
		used = append(used, keyA)
		specA := drawPeerSpec(t, "A", keyA)
		probe := rapid.SliceOfN(rapid.Byte(), 0, 64).Draw(t, "probe")
		canon = append(canon, fmt.Sprintf("A:v%d:%d;", specA.version, len(specA.caps))...)
		writeInflight(srvInflight{"server-session", string(canon)})
		a, err := sc.connectPeer(specA, probe)
		if err != nil {
			fail("after %d rejected or dead connections (%s) a legitimate peer is not served: %v", nOff, canon, err)
		}
		release()
		labels = append(labels, "srv:legit-after-offenders", fmt.Sprintf("srv:peer-snappy:%v", specA.version >= 5))
		if nOff > 0 {
			labels = append(labels, "srv:legit-after-1+offenders")
		}
		if nOff >= slots {
			labels = append(labels, "srv:offenders>=slots")
		}

		// ---- 3. messages on the session ----
		var (
			acts     []action
			terminal *action
			trailing int
		)
		for i, n := 0, rapid.IntRange(0, 8).Draw(t, "nact"); i < n; i++ {
			ac := drawAction(t, true)
			if ac.kind == "disc" && knownDiscShape(ac.payload) {
				continue
			}
			acts = append(acts, ac)
			if ac.terminal {
				for j, m := 0, rapid.IntRange(0, 2).Draw(t, "trailing"); j < m; j++ {
					acts = append(acts, drawAction(t, false))
					trailing++
				}
				break
			}
		}
		if n := len(acts) - trailing; n > 0 && acts[n-1].terminal {
			terminal = &acts[n-1]
		}
		{
			// a last message that makes the handler consume everything it holds: its echo shows the
			// session is served (behind a message that ends the session it is normally never read)
			fin := make([]byte, 24)
			(&detRand{rapid.Uint64().Draw(t, "finfill") | 1}).Read(fin)
			acts = append(acts, action{kind: "echo", code: baseLength, payload: fin, label: "echo-keep:0"})
		}
		var wantEchoes []echoRec
		wantPongs := 0
		a.raw.SetDeadline(time.Now().Add(srvBound()))
		a.startReader()
		afterTerminal := false
		var sendErr error
		wellFormedOnly := true // so far only sub-protocol messages and canonical pings / pongs
		heldByHandler, sinceHeld := 0, 0 // messages the node's handler holds unconsumed; frames written meanwhile
		for _, ac := range acts {
			canon = append(canon, fmt.Sprintf("%s:%x:%d;", ac.kind, ac.code, len(ac.payload))...)
			labels = append(labels, "srv:"+ac.label)
			if ac.kind == "disc" {
				labels = append(labels, "srv:"+reasonClass(ac.payload))
			}
			writeInflight(srvInflight{"server-session", string(canon)})
			err := a.write(ac.code, ac.payload)
			if afterTerminal {
				// frames behind the one that ends the session: normally never looked at (the write may
				// fail, the node has closed); if the node does go on, their echoes are due like the others
				if ac.kind == "echo" {
					wantEchoes = append(wantEchoes, echoRec{ac.code - baseLength, ac.payload})
				} else if ac.kind == "ping" {
					wantPongs++
				}
				continue
			}
			if err != nil {
				// the node has closed the connection (or, on a timeout, has stopped reading it): nothing
				// more is sent; what that means is decided below, like an end seen by the reader
				sendErr = err
				break
			}
			// (evidence only) how many frames arrive while the node's handler still holds a message
			if heldByHandler > 0 {
				sinceHeld++
				labels = append(labels, fmt.Sprintf("srv:frames-while-handler-holds:%d", min(sinceHeld, 4)))
				if ac.kind != "echo" {
					labels = append(labels, "srv:read-loop-frame-while-handler-holds")
				}
			}
			switch ac.kind {
			case "echo":
				wantEchoes = append(wantEchoes, echoRec{ac.code - baseLength, ac.payload})
				heldByHandler = min(heldByHandler+1, int(ac.code-baseLength))
				if heldByHandler == 0 {
					sinceHeld = 0
				}
			case "ping":
				wantPongs++
				if !bytes.Equal(ac.payload, []byte{0xc0}) {
					wellFormedOnly = false
				}
			case "pong":
				if !bytes.Equal(ac.payload, []byte{0xc0}) {
					wellFormedOnly = false
				}
			default:
				wellFormedOnly = false
			}
			if ac.terminal {
				afterTerminal = true
			}
		}
		// What the statement demands of the session: every message is delivered as written or
		// rejected with an error, and the handler is never wedged. So: whatever the node's handler
		// consumed must be exactly what was written, in order; the connection must always end up
		// either served (the last message is echoed) or closed by the node, never silent; and a
		// session of nothing but well-formed traffic (sub-protocol messages, ping/pong with the
		// canonical empty list) must be served, because what one side writes the other must read.
		// A node may reject a peer for base-protocol codes it does not know or for malformed ping /
		// pong payloads; pongs are counted, not demanded.
		gotEchoes, gotPongs := 0, 0
		var endErr error
		next := func() {
			e, ok := <-a.events
			switch {
			case !ok:
				endErr = io.ErrUnexpectedEOF
			case e.err != nil:
				endErr = e.err
			case e.code == 2: // the node's keep-alive
			case e.code == 3:
				gotPongs++
				if gotPongs > wantPongs {
					fail("the node sent %d pongs for %d pings (trace %s)", gotPongs, wantPongs, canon)
				}
			case e.code == 1: // the node says why it is about to close
			case e.code >= baseLength:
				if gotEchoes >= len(wantEchoes) {
					fail("the node's handler answered a message nobody wrote (code %d, %d bytes; trace %s)", e.code, len(e.payload), canon)
				}
				if err := checkEcho(e, wantEchoes[gotEchoes]); err != nil {
					fail("sub-protocol message %d of the session: %v (trace %s)", gotEchoes, err, canon)
				}
				gotEchoes++
			default:
				fail("unexpected base-protocol message from the node: code %d payload %x", e.code, e.payload)
			}
		}
		for endErr == nil && (gotEchoes < len(wantEchoes) || sendErr != nil) {
			next()
		}
		if sendErr != nil {
			endErr = sendErr
		}
		if isTimeout(endErr) {
			bound := srvBound()
			noteTimeout(endErr)
			what := "messages that do not end the session"
			if afterTerminal {
				what = fmt.Sprintf("%s (code %d, payload %x)", terminal.kind, terminal.code, terminal.payload[:min(len(terminal.payload), 40)])
			}
			fail("the node neither serves nor closes the connection within %v after %s: %d of %d sub-protocol messages answered (trace %s)", bound, what, gotEchoes, len(wantEchoes), canon)
		}
		ev.Add("srv_echoes_verified", int64(gotEchoes))
		switch {
		case afterTerminal && endErr != nil:
			labels = append(labels, "srv:session-closed-by-node")
		case afterTerminal:
			labels = append(labels, "srv:session-served-past-its-end")
		case endErr != nil && wellFormedOnly:
			fail("the node ended the session (%v) of a peer that sent nothing but well-formed sub-protocol messages and pings: %d of %d messages answered (trace %s)",
				endErr, gotEchoes, len(wantEchoes), canon)
		case endErr != nil:
			labels = append(labels, "srv:session-rejected-by-node")
		default:
			labels = append(labels, "srv:session-stays-served")
			// the pongs still under way (no verdict: a bound that is missed only sets a label)
			for endErr == nil && gotPongs < wantPongs {
				next()
			}
			if gotPongs == wantPongs {
				labels = append(labels, "srv:all-pings-answered")
			} else {
				labels = append(labels, "srv:ping-unanswered")
			}
		}
		a.raw.Close()

		// ---- 4. the node goes on serving, and stops when told to ----
		keyB := drawFreshKey(t, "keyB", used...)
		specB := drawPeerSpec(t, "B", keyB)
		b, err := sc.connectPeer(specB, probe)
		if err != nil {
			fail("after the session (%s) a second legitimate peer is not served: %v", canon, err)
		}
		labels = append(labels, "srv:legit-after-session")
		if rapid.Bool().Draw(t, "closeB") {
			b.raw.Close()
		}
		done := make(chan struct{})
		go func() { sc.srv.Stop(); close(done) }()
		select {
		case <-done:
			stopped = true
			labels = append(labels, "srv:stop-returned")
		case <-time.After(srvBound()):
			bound := srvBound()
			srvBoundMissed.Store(true)
			fail("Server.Stop does not return within %v (trace %s)", bound, canon)
		}
		ev.Case(true, canon, labels...)
		ev.Sample(map[string]interface{}{"kind": "server-session", "trace": string(canon[:min(len(canon), 600)])})
	})
}

// keyN is a fixed key for enumerated (non-rapid) cases.
func keyN(n int) *btcec.PrivateKey {
	b := make([]byte, 32)
	copy(b, "c17 enumerated peer key")
	binary.BigEndian.PutUint32(b[28:], uint32(n)|1<<31)
	b[0] &= 0x7f
	k, _ := btcec.PrivKeyFromBytes(b)
	return k
}

type discReasonCase struct {
	DiscReason uint64 `json:"disc_reason"`
	Stage      string `json:"stage"` // "handshake": sent instead of the protocol handshake; "session": sent by a running peer
}

// runDiscReasonCase sends the regular disconnect message [reason] to a node
// that formats all its log records, and then requires what the generated
// sessions require: the connection is closed, a legitimate peer is served,
// Stop returns (and the process is still there).
func runDiscReasonCase(fail func(string, ...interface{}), c discReasonCase, n int) {
	sc, err := startServer(keyN(0), 2, false, true)
	if err != nil {
		fail("harness: cannot start the server: %v", err)
		return
	}
	stopped := false
	defer func() {
		sc.closeConns()
		if !stopped {
			go sc.srv.Stop()
		}
	}()
	writeInflight(c)
	payload := refrlp.Encode(refrlp.L(refrlp.U(c.DiscReason)))
	spec := peerSpec{key: keyN(2*n + 1), version: 4 + uint64(n%2), name: []byte("enumerated"), caps: []capSpec{{echoName, echoVersion}}}
	switch c.Stage {
	case "handshake":
		fd, err := sc.dial("127.0.0.1")
		if err != nil {
			fail("harness: dial: %v", err)
			return
		}
		cl, err := sc.encHandshake(fd, spec.key)
		if err != nil {
			fail("disconnect reason %d at the handshake: %v", c.DiscReason, err)
			return
		}
		cl.write(1, payload)
		finish(fd)
	default:
		cl, err := sc.connectPeer(spec, []byte("probe"))
		if err != nil {
			fail("disconnect reason %d: the peer is not served in the first place: %v", c.DiscReason, err)
			return
		}
		if err := cl.write(1, payload); err != nil {
			fail("disconnect reason %d: write: %v", c.DiscReason, err)
			return
		}
		// closed by the node (the expected end), or still served: never silent
		cl.raw.SetDeadline(time.Now().Add(srvBound()))
		cl.write(baseLength, []byte("still served?"))
		for {
			code, _, err := cl.read()
			if err != nil {
				if isTimeout(err) {
					fail("the node neither serves nor closes the connection within %v after a disconnect message with reason %d", srvBound(), c.DiscReason)
					return
				}
				break
			}
			if code >= baseLength {
				break
			}
		}
	}
	if _, err := sc.connectPeer(peerSpec{key: keyN(2*n + 2), version: 5, name: []byte("after"), caps: []capSpec{{echoName, echoVersion}}}, []byte("probe 2")); err != nil {
		fail("after a disconnect message with reason %d (%s) a legitimate peer is not served: %v", c.DiscReason, c.Stage, err)
		return
	}
	done := make(chan struct{})
	go func() { sc.srv.Stop(); close(done) }()
	select {
	case <-done:
		stopped = true
	case <-time.After(srvBound()):
		fail("Server.Stop does not return within %v after a disconnect message with reason %d", srvBound(), c.DiscReason)
	}
}

// TestServerDiscEveryReason enumerates the disconnect reason values: every
// defined one, the table's edges (16, 17, 18), byte and word edges, 2^63 and
// 2^64-1, at both places a remote can send them.
func TestServerDiscEveryReason(t *testing.T) {
	for _, stage := range []string{"handshake", "session"} {
		for i, r := range discReasons {
			c := discReasonCase{r, stage}
			payload := refrlp.Encode(refrlp.L(refrlp.U(r)))
			if knownDiscShape(payload) {
				continue
			}
			failed := false
			runDiscReasonCase(func(f string, a ...interface{}) {
				failed = true
				ev.SaveCase("TestServerDiscEveryReason", c)
				t.Errorf(f, a...)
			}, c, i)
			if failed {
				return
			}
			label := "srv:" + reasonClass(payload)
			if stage == "handshake" {
				label = "srv:hs-" + reasonClass(payload)
			}
			ev.Case(true, []byte(fmt.Sprintf("srv-disc|%s|%d", stage, r)), label, "srv:disc-enumerated")
		}
	}
	ev.Exhaustive("p2p.Server: disconnect message [reason] for every defined reason, 16/17/18, byte and word edges, 2^63, 2^64-1, before the protocol handshake and from a running peer (minus the listed finding while it is known)")
}

// TestDiscReasonKnownWitness runs the fixed witness of the listed finding: the
// error value Peer.run returns for a remote disconnect with reason 17 (or one
// above 2^63), on which Server.runPeer calls Error() unconditionally.
func TestDiscReasonKnownWitness(t *testing.T) {
	fail := failer(t)
	for _, r := range []uint64{17, 1 << 63, 1<<64 - 1} {
		pn := func() (pn interface{}) {
			defer func() { pn = recover() }()
			_ = p2p.DiscReason(r).Error()
			return nil
		}()
		switch {
		case pn != nil && ev.Known(keyDiscReason):
			ev.KnownFinding(keyDiscReason)
		case pn != nil:
			fail("DiscReason(%d).Error() panics: %v (a remote disconnect message with this reason reaches it in Server.runPeer)", r, pn)
		}
	}
	for _, r := range []uint64{0, 11, 12, 15, 16, 18, 1<<63 - 1} {
		pn := func() (pn interface{}) {
			defer func() { pn = recover() }()
			_ = p2p.DiscReason(r).Error()
			return nil
		}()
		if pn != nil {
			fail("DiscReason(%d).Error() panics: %v", r, pn)
		}
	}
}
