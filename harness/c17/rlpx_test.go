package c17

// Layer 2: RLPx encryption handshake and framing (p2p/rlpx.go), driven over
// the in-memory link of link.go.

import (
	"bytes"
	"crypto/ecdsa"
	"encoding/binary"
	"fmt"
	"io"
	"testing"
	"time"

	"github.com/btcsuite/btcd/btcec/v2"
	"gitlab.com/aquachain/aquachain/crypto/ecies"
	"gitlab.com/aquachain/aquachain/p2p"
	"gitlab.com/aquachain/aquachain/p2p/discover"
	"pgregory.net/rapid"
	"verifharness/ev"
	"verifharness/ref/refrlp"
)

const (
	maxFrame   = 1<<24 - 1
	allocFrame = 4 * (1 << 24)
)

// ---------- keys ----------

var rlpxKeyPool = append(append([]*btcec.PrivateKey{tableKey}, attackers...),
	mustKey("00000000000000000000000000000000000000000000000000000000000f4240"),
	mustKey("fffffffffffffffffffffffffffffffebaaedce6af48a03bbfd25e8cd0364000"))

func drawKey(t *rapid.T, label string) *btcec.PrivateKey {
	if rapid.Bool().Draw(t, label+"-pool") {
		return rlpxKeyPool[rapid.IntRange(0, len(rlpxKeyPool)-1).Draw(t, label+"-idx")]
	}
	b := rapid.SliceOfN(rapid.Byte(), 32, 32).Draw(t, label+"-scalar")
	b[0] &= 0x7f // below the group order
	b[31] |= 1   // not zero
	k, _ := btcec.PrivKeyFromBytes(b)
	return k
}

func nodeIDOf(k *btcec.PrivateKey) (id discover.NodeID) {
	r := idOf(k)
	copy(id[:], r[:])
	return id
}

// detRand is a deterministic byte stream (xorshift) for the attacker's own
// tools (ECIES ephemeral keys, IVs), seeded from a rapid draw.
type detRand struct{ s uint64 }

func (d *detRand) Read(p []byte) (int, error) {
	for i := range p {
		d.s ^= d.s << 13
		d.s ^= d.s >> 7
		d.s ^= d.s << 17
		p[i] = byte(d.s >> 24)
	}
	return len(p), nil
}

// ---------- guarded calls ----------

type hsResult struct {
	id  discover.NodeID
	err error
	pn  interface{}
}

func guardedHandshake(l *link, r *p2p.VerifRLPX, prv *ecdsa.PrivateKey, dial *discover.Node, out chan<- hsResult) {
	var res hsResult
	defer func() {
		if p := recover(); p != nil {
			res.pn = p
		}
		l.partyDone()
		out <- res
	}()
	res.id, res.err = r.EncHandshake(prv, dial)
}

// runHandshake runs both sides concurrently; returns (initiator result, receiver result, hung).
func runHandshake(l *link, ra, rb *p2p.VerifRLPX, ka, kb *btcec.PrivateKey, dial discover.NodeID) (a, b hsResult, hung bool) {
	ca, cb := make(chan hsResult, 1), make(chan hsResult, 1)
	l.setParties(2)
	go guardedHandshake(l, ra, ka.ToECDSA(), &discover.Node{ID: dial}, ca)
	go guardedHandshake(l, rb, kb.ToECDSA(), nil, cb)
	wd := time.After(30 * time.Second)
	for i := 0; i < 2; i++ {
		select {
		case a = <-ca:
		case b = <-cb:
		case <-wd:
			l.closeAll()
			return a, b, true
		}
	}
	l.setParties(1)
	return a, b, false
}

func guardedWrite(r *p2p.VerifRLPX, code uint64, payload []byte) (err error, pn interface{}) {
	defer func() {
		if p := recover(); p != nil {
			pn = p
		}
	}()
	return r.WriteMsg(p2p.Msg{Code: code, Size: uint32(len(payload)), Payload: bytes.NewReader(payload)}), nil
}

type readResult struct {
	alloc   uint64 // TotalAlloc delta of ReadMsg alone (not of this harness draining the payload)
	code    uint64
	size    uint32
	payload []byte
	err     error
	pn      interface{}
	held    io.Reader
}

func guardedRead(r *p2p.VerifRLPX) (res readResult) { return guardedReadHold(r, false) }

// guardedReadHold with hold set leaves the payload unread in res.held: the
// caller drains it after later reads on the same connection, the way a
// protocol handler still decodes message N while the read loop fetches N+1.
func guardedReadHold(r *p2p.VerifRLPX, hold bool) (res readResult) {
	defer func() {
		if p := recover(); p != nil {
			res.pn = p
		}
	}()
	var msg p2p.Msg
	var err error
	res.alloc = memDelta(func() { msg, err = r.ReadMsg() })
	if err != nil {
		res.err = err
		return
	}
	res.code, res.size = msg.Code, msg.Size
	if hold {
		res.held = msg.Payload
		return
	}
	res.payload, res.err = io.ReadAll(msg.Payload)
	return
}

type heldMsg struct {
	r     io.Reader
	want  []byte
	code  uint64
	at    int
	left  int // later reads on the same connection this payload still has to survive before it is consumed
	after int // later reads on the same connection that have happened while it was held
}

// ---------- message generator ----------

var msgCodes = []uint64{0, 1, 0x10, 0x7f, 0x80, 0xff, 0x100, 1<<32 - 1, 1 << 32, 1<<64 - 1}

func drawSize(t *rapid.T) int {
	sizes := []int{0, 1, 15, 16, 17, 1024, 64 << 10, 14, 31, 32, 33, 255, 4096}
	if ev.Thorough() {
		// (values from the middle of the range: rapid favours the ends)
		switch rapid.IntRange(0, 199).Draw(t, "bigsel") {
		case 100:
			return maxFrame
		case 101:
			return maxFrame - 9
		case 102:
			return maxFrame - 1
		case 103, 104, 105:
			return rapid.SampledFrom([]int{1 << 20, 4 << 20, 10<<20 + 1}).Draw(t, "big")
		}
	}
	return rapid.SampledFrom(sizes).Draw(t, "size")
}

func drawPayload(t *rapid.T, n int) []byte {
	p := make([]byte, n)
	switch rapid.SampledFrom([]string{"random", "zeros", "repeat"}).Draw(t, "fill") {
	case "random":
		seed := rapid.Uint64().Draw(t, "fillseed") | 1
		(&detRand{seed}).Read(p)
	case "repeat":
		pat := rapid.SliceOfN(rapid.Byte(), 1, 7).Draw(t, "pat")
		for i := range p {
			p[i] = pat[i%len(pat)]
		}
	}
	return p
}

func codeLen(code uint64) int { return len(refrlp.Encode(refrlp.U(code))) }

func roundup16(n int) int { return (n + 15) / 16 * 16 }

// allocBoundFor: 1 MiB for inputs below 1 KiB; otherwise 4 x the 16 MiB frame
// limit, or 8 x the bytes really received if that is more (ReadMsg with snappy
// holds the frame, drains it through a growing buffer and decompresses it:
// about 7 x the input, proportional to what the peer really sent).
func allocBoundFor(n int) uint64 {
	if n < 1024 {
		return allocSmall
	}
	if b := uint64(8 * n); b > allocFrame {
		return b
	}
	return allocFrame
}

// ---------- the session property ----------

func TestRLPXSession(t *testing.T) {
	ev.Check(t, ev.N(500, 33_000), func(t *rapid.T) {
		fail := failer(t)
		ka, kb := drawKey(t, "ka"), drawKey(t, "kb")
		if idOf(ka) == idOf(kb) {
			t.Skip("same key")
		}
		snappy := rapid.Bool().Draw(t, "snappy")
		scenario := rapid.SampledFrom([]string{"clean", "tamper-frame", "tamper-frame", "tamper-handshake", "wrong-dial", "snappy-bomb"}).Draw(t, "scenario")
		l, ca, cb := newLink(2)
		defer l.closeAll()
		conns := [2]*endConn{ca, cb}
		ra, rb := p2p.VerifNewRLPX(ca), p2p.VerifNewRLPX(cb)
		ends := [2]*p2p.VerifRLPX{ra, rb}
		labels := []string{"scenario:" + scenario}
		if snappy {
			labels = append(labels, "snappy:on")
		} else {
			labels = append(labels, "snappy:off")
		}
		ida, idb := idOf(ka), idOf(kb)
		canon := []byte(fmt.Sprintf("rlpx|%s|%v|%x|%x|", scenario, snappy, ida[:8], idb[:8]))

		dial := nodeIDOf(kb)
		hsDir := 0
		switch scenario {
		case "wrong-dial":
			kc := drawKey(t, "kc")
			if idOf(kc) == idOf(kb) {
				t.Skip("same key")
			}
			dial = nodeIDOf(kc)
		case "tamper-handshake":
			// tamper with one byte of the auth packet (direction 0) or the auth response (direction 1)
			d := rapid.IntRange(0, 1).Draw(t, "hsdir")
			hsDir = d
			kind := rapid.SampledFrom([]string{"flip", "drop", "insert", "truncate"}).Draw(t, "hskind")
			where := rapid.SampledFrom([]string{"prefix", "body", "tail"}).Draw(t, "hswhere")
			rel := rapid.IntRange(0, 1<<20).Draw(t, "hsrel")
			val := byte(rapid.IntRange(1, 255).Draw(t, "hsval"))
			l.dir[d].onWrite = func(n int, p []byte) []byte {
				if n != 0 || len(p) < 4 {
					return p
				}
				var pos int
				switch where {
				case "prefix":
					pos = rel % 2
				case "tail":
					pos = len(p) - 1 - rel%32
				default:
					pos = 2 + rel%(len(p)-2)
				}
				return mutateAt(p, pos, kind, val)
			}
			labels = append(labels, fmt.Sprintf("hs-tamper:%s:%s:dir%d", kind, where, d))
			canon = append(canon, fmt.Sprintf("%d%s%s%d", d, kind, where, rel)...)
		}

		var a, b hsResult
		var hung bool
		hsAlloc := memDelta(func() { a, b, hung = runHandshake(l, ra, rb, ka, kb, dial) })
		if hung {
			fail("handshake did not finish (scenario %s)", scenario)
		}
		if a.pn != nil || b.pn != nil {
			fail("handshake panicked: initiator %v, receiver %v", a.pn, b.pn)
		}
		if hsAlloc > 4<<20 && !backgroundNoisy() {
			fail("handshake allocated %d bytes", hsAlloc)
		}
		switch scenario {
		case "wrong-dial":
			// the receiver cannot open an auth message encrypted to somebody else's key
			if b.err == nil {
				fail("receiver completed a handshake addressed to a different identity")
			}
			if a.err == nil {
				fail("initiator completed a handshake although the peer does not hold the dialled identity")
			}
			ev.Case(true, canon, append(labels, "hs:rejected")...)
			return
		case "tamper-handshake":
			if a.err == nil && b.err == nil {
				// both think they are connected: then nothing may be delivered in the direction
				// whose bytes were tampered with (the other direction's stream is untouched)
				ra.SetSnappy(snappy)
				rb.SetSnappy(snappy)
				for d := hsDir; d == hsDir; d++ {
					if err, pn := guardedWrite(ends[d], 1, []byte("hello")); err != nil || pn != nil {
						continue
					}
					res := guardedRead(ends[1-d])
					if res.pn != nil {
						fail("ReadMsg panicked after tampered handshake: %v", res.pn)
					}
					if res.err == nil {
						fail("message delivered over a session whose handshake bytes were tampered with")
					}
				}
				labels = append(labels, "hs:tamper-detected-at-first-frame")
			} else {
				labels = append(labels, "hs:rejected")
			}
			ev.Case(true, canon, labels...)
			return
		}
		if a.err != nil || b.err != nil {
			fail("honest handshake failed: initiator %v, receiver %v", a.err, b.err)
		}
		// each side learns the peer's real identity (derived here from the btcec public key)
		if a.id != nodeIDOf(kb) {
			fail("initiator learnt id %x, peer is %x", a.id[:8], idb[:8])
		}
		if b.id != nodeIDOf(ka) {
			fail("receiver learnt id %x, peer is %x", b.id[:8], ida[:8])
		}
		labels = append(labels, "hs:ok")
		ra.SetSnappy(snappy)
		rb.SetSnappy(snappy)

		if scenario == "snappy-bomb" {
			// an authenticated peer that does not compress honestly: raw snappy headers
			d := rapid.IntRange(0, 1).Draw(t, "dir")
			ends[d].SetSnappy(false)
			ends[1-d].SetSnappy(true)
			declared := rapid.SampledFrom([]uint64{0, 1, 1 << 10, 1<<24 - 1, 1 << 24, 1<<24 + 1, 1<<32 - 1, 1 << 32, 1<<63 - 1}).Draw(t, "declared")
			hdr := binary.AppendUvarint(nil, declared)
			body := append(hdr, rapid.SliceOfN(rapid.Byte(), 0, 40).Draw(t, "bombbody")...)
			if err, pn := guardedWrite(ends[d], 3, body); err != nil || pn != nil {
				fail("WriteMsg: %v %v", err, pn)
			}
			res := guardedRead(ends[1-d])
			alloc := res.alloc
			if res.pn != nil {
				fail("ReadMsg panicked on a hostile snappy payload %x: %v", body, res.pn)
			}
			if res.err == nil && (uint64(res.size) != declared || uint64(len(res.payload)) != declared) {
				fail("snappy payload declaring %d bytes delivered as %d/%d bytes", declared, res.size, len(res.payload))
			}
			bound := uint64(allocFrame)
			if declared > maxFrame {
				if res.err == nil {
					fail("message declaring %d decompressed bytes (> 16 MiB) delivered", declared)
				}
				bound = allocSmall
			}
			if alloc > bound && !backgroundNoisy() {
				fail("ReadMsg allocated %d bytes for a %d-byte frame declaring %d decompressed bytes", alloc, len(body), declared)
			}
			ev.Case(true, append(canon, body...), append(labels, "snappy-bomb")...)
			return
		}

		// ---- message sequence ----
		nmsg := rapid.IntRange(1, 8).Draw(t, "nmsg")
		tamperAt := -1
		if scenario == "tamper-frame" {
			tamperAt = rapid.IntRange(0, nmsg-1).Draw(t, "tamperAt")
		}
		dead := [2]bool{} // direction whose stream has been tampered with
		delivered := 0
		// per reading end: messages delivered whose payload has not been consumed yet. A
		// delivered message stays what was written for as long as the receiver holds it:
		// each held payload is consumed only after a drawn number (1..4) of later reads
		// on the same connection, or at the end of the session.
		var holds [2][]heldMsg
		consume := func(h heldMsg, now int) {
			got, err := io.ReadAll(h.r)
			if err != nil || !bytes.Equal(got, h.want) {
				fail("message %d (code %x, %d bytes) was delivered, but its payload read after %d later read(s) on the same connection (at message %d) differs from what was written (err %v, %d bytes, equal prefix %d)",
					h.at, h.code, len(h.want), h.after, now, err, len(got), commonPrefix(got, h.want))
			}
			if h.after >= 1 {
				labels = append(labels, "payload-consumed-after-next-read")
			}
			labels = append(labels, fmt.Sprintf("held-across:%d", h.after))
		}
		// drainHeld is called after every read on a connection (all=false) and at the end (all=true).
		drainHeld := func(end int, now int, all bool) {
			keep := holds[end][:0]
			for _, h := range holds[end] {
				if !all {
					h.after++
					h.left--
				}
				if all || h.left <= 0 {
					consume(h, now)
				} else {
					keep = append(keep, h)
				}
			}
			holds[end] = keep
		}
		prevDir := -1
		for i := 0; i < nmsg; i++ {
			// runs of frames in one direction (2 in 3 follow the previous one), so that a held
			// payload sees several later frames, small and large, arrive on its connection
			d := rapid.IntRange(0, 1).Draw(t, "dir")
			if prevDir >= 0 && rapid.IntRange(0, 2).Draw(t, "turn") > 0 {
				d = prevDir
			}
			prevDir = d
			code := rapid.SampledFrom(msgCodes).Draw(t, "code")
			size := drawSize(t)
			payload := drawPayload(t, size)
			canon = append(canon, fmt.Sprintf("%d:%x:%d;", d, code, size)...)
			w, r := ends[d], ends[1-d]
			before := len(conns[d].pending())
			werr, wpn := guardedWrite(w, code, payload)
			if wpn != nil {
				fail("WriteMsg panicked (code %x size %d): %v", code, size, wpn)
			}
			if werr != nil {
				// only acceptable when the frame cannot be represented: wire size > 2^24-1
				if !snappy && codeLen(code)+size <= maxFrame {
					fail("WriteMsg refused a representable message (code %x, %d bytes): %v", code, size, werr)
				}
				if snappy && size < 1<<23 {
					fail("WriteMsg refused a message (code %x, %d bytes, snappy): %v", code, size, werr)
				}
				if len(conns[d].pending()) != before {
					fail("WriteMsg failed after putting %d bytes on the wire", len(conns[d].pending())-before)
				}
				labels = append(labels, "write-refused-too-large")
				continue
			}
			frame := conns[d].pending()[before:]
			if !snappy {
				if want := 32 + roundup16(codeLen(code)+size) + 16; len(frame) != want {
					fail("frame for code %x size %d is %d bytes on the wire, expected %d", code, size, len(frame), want)
				}
			}
			if i == tamperAt {
				kind := rapid.SampledFrom([]string{"flip", "flip", "drop", "insert"}).Draw(t, "tkind")
				region := rapid.SampledFrom([]string{"header", "header-mac", "frame", "frame-mac", "any"}).Draw(t, "tregion")
				var pos int
				switch region {
				case "header":
					pos = rapid.IntRange(0, 15).Draw(t, "tpos")
				case "header-mac":
					pos = rapid.IntRange(16, 31).Draw(t, "tpos")
				case "frame-mac":
					pos = len(frame) - 1 - rapid.IntRange(0, 15).Draw(t, "tpos")
				case "frame":
					if len(frame) == 48 {
						pos = rapid.IntRange(0, 47).Draw(t, "tpos")
					} else {
						pos = rapid.IntRange(32, len(frame)-17).Draw(t, "tpos")
					}
				default:
					pos = rapid.IntRange(0, len(frame)-1).Draw(t, "tpos")
				}
				val := byte(rapid.IntRange(1, 255).Draw(t, "tval"))
				all := conns[d].pending()
				tampered := mutateAt(append([]byte{}, frame...), pos, kind, val)
				if kind == "insert" && bytes.HasPrefix(tampered, frame) {
					// inserting a copy of the frame's last byte(s) at the end leaves the bytes the reader
					// consumes for this frame exactly as written (the ciphertext is random: 1 in 255 at the
					// last position): that is no tampering of this frame; insert a different value
					tampered = mutateAt(append([]byte{}, frame...), pos, kind, val^0xff)
				}
				mutated := append(append([]byte{}, all[:before]...), tampered...)
				conns[d].setPending(mutated)
				dead[d] = true
				labels = append(labels, "tamper:"+region, "tamper-kind:"+kind)
				canon = append(canon, fmt.Sprintf("T%s%d;", kind, pos)...)
			}
			hold := rapid.Bool().Draw(t, "holdpayload")
			holdFor := 1
			if hold {
				holdFor = rapid.IntRange(1, 4).Draw(t, "holdfor")
				canon = append(canon, fmt.Sprintf("H%d;", holdFor)...)
			}
			res := guardedReadHold(r, hold)
			alloc := res.alloc
			if res.pn != nil {
				fail("ReadMsg panicked (code %x size %d, tampered=%v): %v", code, size, dead[d], res.pn)
			}
			// The bound is judged up to and including the first failing read: the node's
			// connection handler stops reading at the first error (p2p.Peer.readLoop), so
			// reads after a failure exist only in this harness.
			if bound := allocBoundFor(size); alloc > bound && !(dead[d] && i != tamperAt) && !backgroundNoisy() {
				fail("ReadMsg allocated %d bytes for a %d-byte message (tampered=%v)", alloc, size, dead[d])
			}
			drainHeld(1-d, i, false)
			if res.held != nil && !dead[d] {
				if res.code != code || int(res.size) != size {
					fail("delivered message differs: wrote code %x size %d, read code %x size %d", code, size, res.code, res.size)
				}
				holds[1-d] = append(holds[1-d], heldMsg{r: res.held, want: payload, code: code, at: i, left: holdFor})
				delivered++
				labels = append(labels, sizeLabel(size))
				continue
			} else if res.held != nil {
				fail("message delivered from a stream tampered with at or before this frame (code %x; message %d, tamper at %d)", res.code, i, tamperAt)
			}
			if dead[d] {
				if res.err == nil {
					fail("message delivered from a stream tampered with at or before this frame (code %x, %d bytes; message %d, tamper at %d)", res.code, len(res.payload), i, tamperAt)
				}
				labels = append(labels, "tamper-detected")
				continue
			}
			if res.err != nil {
				fail("ReadMsg failed on an untouched frame (code %x size %d snappy=%v): %v", code, size, snappy, res.err)
			}
			if res.code != code || int(res.size) != size || !bytes.Equal(res.payload, payload) {
				fail("delivered message differs: wrote code %x size %d, read code %x size %d (payload equal: %v)",
					code, size, res.code, res.size, bytes.Equal(res.payload, payload))
			}
			delivered++
			labels = append(labels, sizeLabel(size))
		}
		drainHeld(0, nmsg, true)
		drainHeld(1, nmsg, true)
		if delivered > 0 {
			labels = append(labels, "delivered")
		}
		ev.Add("rlpx_messages_delivered", int64(delivered))
		ev.Case(true, canon, labels...)
		ev.Sample(map[string]interface{}{"kind": "rlpx-session", "scenario": scenario, "snappy": snappy, "trace": string(canon)})
	})
}

func commonPrefix(a, b []byte) int {
	n := 0
	for n < len(a) && n < len(b) && a[n] == b[n] {
		n++
	}
	return n
}

func sizeLabel(n int) string {
	switch {
	case n == 0:
		return "size:0"
	case n < 16:
		return "size:<16"
	case n <= 17:
		return "size:16-17"
	case n <= 1024:
		return "size:<=1KiB"
	case n <= 64<<10:
		return "size:<=64KiB"
	case n < maxFrame-16:
		return "size:>64KiB"
	default:
		return "size:~16MiB"
	}
}

func mutateAt(p []byte, pos int, kind string, val byte) []byte {
	if pos < 0 {
		pos = 0
	}
	if pos >= len(p) {
		pos = len(p) - 1
	}
	switch kind {
	case "flip":
		p[pos] ^= val
		return p
	case "drop":
		return append(p[:pos:pos], p[pos+1:]...)
	case "insert":
		out := append([]byte{}, p[:pos]...)
		out = append(out, val)
		return append(out, p[pos:]...)
	case "truncate":
		return p[:pos]
	}
	return p
}

// ---------- arbitrary bytes as handshake packets ----------

const (
	eciesOverhead  = 65 + 16 + 32
	encAuthMsgLen  = 65 + 32 + 64 + 32 + 1 + eciesOverhead // 307
	encAuthRespLen = 64 + 32 + 1 + eciesOverhead            // 210
)

func eciesPub(k *btcec.PrivateKey) *ecies.PublicKey {
	pub, err := nodeIDOf(k).Pubkey()
	if err != nil {
		panic(err)
	}
	return ecies.ImportECDSAPublic(pub)
}

// drawHandshakeBytes draws what an attacker might present as the auth packet
// (toReceiver) or as the auth response, knowing only the victim's public key.
func drawHandshakeBytes(t *rapid.T, victim *btcec.PrivateKey, plainSize int) ([]byte, string) {
	fail := failer(t)
	rnd := &detRand{rapid.Uint64().Draw(t, "seed") | 1}
	kind := rapid.SampledFrom([]string{"random", "prefix-underflow", "prefix-huge", "eip8-garbage", "eip8-rlp", "plain-garbage", "empty", "short"}).Draw(t, "hbkind")
	switch kind {
	case "empty":
		return nil, kind
	case "short":
		return rapid.SliceOfN(rapid.Byte(), 1, plainSize-1).Draw(t, "short"), kind
	case "random":
		n := rapid.SampledFrom([]int{plainSize, plainSize + 1, plainSize + 100, 1000, 70000}).Draw(t, "n")
		b := make([]byte, n)
		rnd.Read(b)
		return b, kind
	case "prefix-underflow":
		b := make([]byte, plainSize+50)
		rnd.Read(b)
		binary.BigEndian.PutUint16(b, uint16(rapid.IntRange(0, plainSize-1).Draw(t, "pfx")))
		return b, kind
	case "prefix-huge":
		b := make([]byte, plainSize+rapid.IntRange(0, 300).Draw(t, "extra"))
		rnd.Read(b)
		binary.BigEndian.PutUint16(b, uint16(rapid.SampledFrom([]int{65535, 65534, 40000, plainSize, plainSize + 1}).Draw(t, "pfx")))
		return b, kind
	case "plain-garbage":
		// a correctly ECIES-sealed pre-EIP-8 packet whose plaintext is attacker-chosen
		plain := make([]byte, plainSize-eciesOverhead)
		rnd.Read(plain)
		if rapid.Bool().Draw(t, "validpub") {
			// plausible layout: a real public key where the handshake expects one
			id := idOf(attackers[0])
			if plainSize == encAuthMsgLen {
				copy(plain[65+32:], id[:])
			} else {
				copy(plain, id[:])
			}
		}
		ct, err := ecies.Encrypt(rnd, eciesPub(victim), plain, nil, nil)
		if err != nil {
			fail("harness: ecies: %v", err)
		}
		return ct, kind
	default:
		// EIP-8 envelope sealed to the victim, plaintext garbage or hostile RLP
		var plain []byte
		if kind == "eip8-garbage" {
			plain = make([]byte, rapid.IntRange(0, 400).Draw(t, "plen"))
			rnd.Read(plain)
		} else {
			id := idOf(attackers[1])
			var it refrlp.Item
			sig := make([]byte, 65)
			rnd.Read(sig)
			sig[64] &= 1
			nonce := make([]byte, 32)
			rnd.Read(nonce)
			switch rapid.IntRange(0, 4).Draw(t, "rlpkind") {
			case 0: // well-formed auth with a garbage signature
				it = refrlp.L(refrlp.B(sig), refrlp.B(id[:]), refrlp.B(nonce), refrlp.U(4))
			case 1: // well-formed auth response with an off-curve ephemeral key
				it = refrlp.L(refrlp.B(make([]byte, 64)), refrlp.B(nonce), refrlp.U(4))
			case 2: // well-formed auth response with a real key
				it = refrlp.L(refrlp.B(id[:]), refrlp.B(nonce), refrlp.U(4))
			case 3: // auth with an off-curve initiator key
				it = refrlp.L(refrlp.B(sig), refrlp.B(bytes.Repeat([]byte{0xff}, 64)), refrlp.B(nonce), refrlp.U(4))
			default:
				it = refrlp.L(refrlp.L(refrlp.L()), refrlp.B(nil))
			}
			plain = refrlp.Encode(it)
			if rapid.Bool().Draw(t, "bomb") {
				plain = append([]byte{0xf9, 0xff, 0xff}, plain...)
			}
		}
		pad := rapid.SampledFrom([]int{0, 100, 200}).Draw(t, "pad")
		plain = append(plain, make([]byte, pad)...)
		if len(plain) == 0 {
			plain = []byte{0} // ecies cannot seal an empty message
		}
		prefix := make([]byte, 2)
		binary.BigEndian.PutUint16(prefix, uint16(len(plain)+eciesOverhead))
		ct, err := ecies.Encrypt(rnd, eciesPub(victim), plain, nil, prefix)
		if err != nil {
			fail("harness: ecies: %v", err)
		}
		return append(prefix, ct...), kind
	}
}

func TestRLPXHandshakeBytes(t *testing.T) {
	ev.Check(t, ev.N(1500, 240_000), func(t *rapid.T) {
		fail := failer(t)
		victim := drawKey(t, "victim")
		toReceiver := rapid.Bool().Draw(t, "toReceiver")
		plainSize := encAuthRespLen
		if toReceiver {
			plainSize = encAuthMsgLen
		}
		data, kind := drawHandshakeBytes(t, victim, plainSize)
		l, cv, catt := newLink(1)
		defer l.closeAll()
		if !toReceiver {
			// the initiator writes its auth packet first; let it, then answer with the attacker's bytes
			l.dir[0].onWrite = func(n int, p []byte) []byte {
				if n == 0 { // called with the link locked
					l.dir[1].buf = append(l.dir[1].buf, data...)
					l.dir[1].eof = true
				}
				return p
			}
		} else {
			catt.Write(data)
			catt.shutdownWrite()
		}
		r := p2p.VerifNewRLPX(cv)
		out := make(chan hsResult, 1)
		var res hsResult
		alloc := memDelta(func() {
			var dial *discover.Node
			if !toReceiver {
				dial = &discover.Node{ID: nodeIDOf(attackers[2])}
			}
			go guardedHandshake(l, r, victim.ToECDSA(), dial, out)
			select {
			case res = <-out:
			case <-time.After(30 * time.Second):
				l.closeAll()
				fail("handshake on attacker bytes (%s, %d bytes) did not return", kind, len(data))
			}
		})
		if res.pn != nil {
			fail("handshake panicked on attacker bytes (%s): %v\n%x", kind, res.pn, data)
		}
		bound := uint64(allocSmall)
		if alloc > bound && !backgroundNoisy() {
			fail("handshake allocated %d bytes on a %d-byte attacker packet (%s)", alloc, len(data), kind)
		}
		side := "to-initiator"
		if toReceiver {
			side = "to-receiver"
		}
		labels := []string{"hsbytes:" + kind, "hsbytes:" + side}
		if res.err == nil {
			// The attacker knows the victim's public key, so it can seal a packet the victim
			// opens; a handshake that "succeeds" proves nothing yet (RLPx authenticates with the
			// first frame). What must hold: the attacker, who cannot know the secrets, gets no
			// frame accepted.
			labels = append(labels, "hsbytes:completed-unauthenticated")
			l.setParties(1)
			junk := make([]byte, 96)
			(&detRand{uint64(len(data)) | 1}).Read(junk)
			l.mu.Lock()
			l.dir[1].eof = false
			l.dir[1].buf = append(l.dir[1].buf, junk...)
			l.mu.Unlock()
			rr := guardedRead(r)
			if rr.pn != nil {
				fail("ReadMsg panicked after an unauthenticated handshake: %v", rr.pn)
			}
			if rr.err == nil {
				fail("frame accepted from a peer that cannot know the session secrets (%s)", kind)
			}
		} else {
			labels = append(labels, "hsbytes:rejected")
		}
		ev.Case(kind != "empty" && kind != "short" && kind != "random", append([]byte("hsbytes|"+side+"|"), data[:min(len(data), 600)]...), labels...)
	})
}

// presentHandshakeBytes hands attacker bytes to one side of the encryption
// handshake and checks: no panic, and if the handshake "completes", no frame
// from the attacker (who cannot know the secrets) is accepted.
func presentHandshakeBytes(fail func(string, ...interface{}), victim *btcec.PrivateKey, toReceiver bool, data []byte) (completed bool) {
	l, cv, catt := newLink(1)
	defer l.closeAll()
	if !toReceiver {
		l.dir[0].onWrite = func(n int, p []byte) []byte {
			if n == 0 { // called with the link locked
				l.dir[1].buf = append(l.dir[1].buf, data...)
				l.dir[1].eof = true
			}
			return p
		}
	} else {
		catt.Write(data)
		catt.shutdownWrite()
	}
	r := p2p.VerifNewRLPX(cv)
	out := make(chan hsResult, 1)
	var dial *discover.Node
	if !toReceiver {
		dial = &discover.Node{ID: nodeIDOf(attackers[2])}
	}
	go guardedHandshake(l, r, victim.ToECDSA(), dial, out)
	var res hsResult
	select {
	case res = <-out:
	case <-time.After(30 * time.Second):
		fail("handshake on %d attacker bytes did not return", len(data))
		return false
	}
	if res.pn != nil {
		fail("handshake panicked on attacker bytes %x: %v", data, res.pn)
		return false
	}
	if res.err != nil {
		return false
	}
	l.setParties(1)
	junk := make([]byte, 96)
	(&detRand{uint64(len(data)) | 1}).Read(junk)
	l.mu.Lock()
	l.dir[1].eof = false
	l.dir[1].buf = append(l.dir[1].buf, junk...)
	l.mu.Unlock()
	rr := guardedRead(r)
	if rr.pn != nil {
		fail("ReadMsg panicked after an unauthenticated handshake: %v", rr.pn)
	}
	if rr.err == nil {
		fail("frame accepted from a peer that cannot know the session secrets")
	}
	return true
}

func FuzzRLPXHandshake(f *testing.F) {
	f.Add(true, make([]byte, encAuthMsgLen))
	f.Add(false, make([]byte, encAuthRespLen))
	f.Add(true, append([]byte{0x01, 0x90}, make([]byte, 0x190)...))
	f.Add(false, append([]byte{0x00, 0xd3}, make([]byte, 0xd3)...))
	f.Add(true, []byte{0xff, 0xff, 1, 2, 3})
	f.Fuzz(func(t *testing.T, toReceiver bool, data []byte) {
		if len(data) > 70000 {
			return
		}
		presentHandshakeBytes(func(f string, a ...interface{}) { t.Fatalf(f, a...) }, tableKey, toReceiver, data)
	})
}
