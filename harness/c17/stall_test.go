package c17

// Layer 4b: the teardown of a session while goroutines of the peer are blocked.
//
// "No input wedges the connection handler" includes the end of a session: after
// ANY way a session ends (a tampered or short frame, garbage, a disconnect
// message, a code outside every protocol, a half-closed or dropped connection)
// Peer.run has to return and the server has to take the peer out of its set,
// also when other goroutines of that peer are busy at that moment: the handler
// in the middle of a write that does not progress because the remote has
// stopped reading, pongs queued behind it, the keep-alive ping (first written
// pingInterval = 15 s after the peer started) waiting for the same transport.
//
// One case = one real Server and 4-8 sessions that run CONCURRENTLY (so that
// the 15 s are paid once per case). Each session: a legitimate peer over real
// loopback TCP with a small receive buffer is served, then asks for an echo
// that is larger than what the kernel buffers between the two ends can hold and
// never reads again (or stays idle), optionally sends pings whose pongs queue
// up, waits until before / after the node's keep-alive ping is due, ends the
// session in a generated way and drops the connection a little later.
// Required, each within a generous bound: the node forgets the peer
// (Server.Peers), the SAME identity connects again and is served, a fresh peer
// is served, Server.Stop returns.

import (
	"bytes"
	"flag"
	"fmt"
	"net"
	"os"
	"strconv"
	"strings"
	"sync"
	"syscall"
	"testing"
	"time"

	"github.com/btcsuite/btcd/btcec/v2"
	"gitlab.com/aquachain/aquachain/p2p/discover"
	"pgregory.net/rapid"
	"verifharness/ev"
)

const (
	// stallBound: the node forgetting a peer whose connection is gone takes
	// milliseconds; it is a violation when it has not happened after 30 s.
	stallBound = 30 * time.Second
	// nodePingInterval is p2p.pingInterval (unexported): when the first keep-alive
	// ping of a peer is written. Used only to aim the end of a session before or
	// after that moment, never for a verdict.
	nodePingInterval = 15 * time.Second
	// remoteRcvBuf is the receive buffer the remote asks for (the kernel doubles it).
	remoteRcvBuf = 4096
)

func stallBoundNow() time.Duration {
	if srvBoundMissed.Load() {
		return srvBoundAfterwards
	}
	return stallBound
}

// captureConn is the remote's end of the TCP connection. While capturing, what
// the RLPx transport writes is kept instead of sent, so that the harness can
// put a mutated copy of a correctly sealed frame on the wire.
type captureConn struct {
	net.Conn
	capturing bool
	buf       bytes.Buffer
}

func (c *captureConn) Write(p []byte) (int, error) {
	if c.capturing {
		return c.buf.Write(p)
	}
	return c.Conn.Write(p)
}

// sealedFrame returns the bytes of the next valid frame of the session
// (advancing the egress state as a real write does) without sending them.
func (cl *client) sealedFrame(cc *captureConn, code uint64, payload []byte) ([]byte, error) {
	cc.buf.Reset()
	cc.capturing = true
	err := cl.write(code, payload)
	cc.capturing = false
	return append([]byte{}, cc.buf.Bytes()...), err
}

// dialSmall dials the node from a socket with a small receive buffer (set
// before connecting, so that the window is small from the start).
func (sc *srvCase) dialSmall() (*captureConn, error) {
	d := net.Dialer{
		Timeout:   srvBound(),
		LocalAddr: &net.TCPAddr{IP: net.ParseIP("127.0.0.1")},
		Control: func(network, address string, c syscall.RawConn) error {
			var serr error
			if err := c.Control(func(fd uintptr) {
				serr = syscall.SetsockoptInt(int(fd), syscall.SOL_SOCKET, syscall.SO_RCVBUF, remoteRcvBuf)
			}); err != nil {
				return err
			}
			return serr
		},
	}
	fd, err := d.Dial("tcp4", sc.addr)
	if err != nil {
		return nil, err
	}
	fd.SetDeadline(time.Now().Add(srvBound()))
	return &captureConn{Conn: fd}, nil
}

// connectOn is connectPeer on a connection that is already there.
func (sc *srvCase) connectOn(fd net.Conn, ps peerSpec, probe []byte) (*client, error) {
	c, err := sc.encHandshake(fd, ps.key)
	if err != nil {
		return nil, err
	}
	if err := sc.protoHandshake(c, ps); err != nil {
		return nil, err
	}
	if err := c.write(baseLength, probe); err != nil {
		return nil, fmt.Errorf("first message: %w", err)
	}
	for {
		code, body, err := c.read()
		if err != nil {
			return nil, fmt.Errorf("waiting for the echo of the first message: %w", err)
		}
		if code == 2 {
			continue
		}
		if err := checkEcho(clientEvent{code: code, payload: body}, echoRec{0, probe}); err != nil {
			return nil, err
		}
		return c, nil
	}
}

// tcpQueues reads from /proc/net/tcp how many bytes sit in the kernel for the
// connection between the two loopback ports: nodeTx = written by the node and
// not yet acknowledged by the remote's kernel, remoteRx = received by the
// remote's kernel and not yet read by the remote. Evidence only.
func tcpQueues(nodePort, remotePort int) (nodeTx, remoteRx int64, ok bool) {
	b, err := os.ReadFile("/proc/net/tcp")
	if err != nil {
		return 0, 0, false
	}
	np, rp := fmt.Sprintf("0100007F:%04X", nodePort), fmt.Sprintf("0100007F:%04X", remotePort)
	seenN, seenR := false, false
	for _, line := range strings.Split(string(b), "\n") {
		f := strings.Fields(line)
		if len(f) < 5 {
			continue
		}
		q := strings.Split(f[4], ":")
		if len(q) != 2 {
			continue
		}
		tx, err1 := strconv.ParseInt(q[0], 16, 64)
		rx, err2 := strconv.ParseInt(q[1], 16, 64)
		if err1 != nil || err2 != nil {
			continue
		}
		switch {
		case f[1] == np && f[2] == rp:
			nodeTx, seenN = tx, true
		case f[1] == rp && f[2] == np:
			remoteRx, seenR = rx, true
		}
	}
	return nodeTx, remoteRx, seenN && seenR
}

type stallSession struct {
	key     *btcec.PrivateKey
	spec    peerSpec
	load    string // big-echo | idle
	size    int    // of the echo asked for
	fill    uint64
	pings   int    // pings sent behind the load: their pongs queue up in the node
	when    string // before-ping | past-ping
	wait    time.Duration
	end     string // tamper | short | garbage | disc | badcode | half-close | close
	pos     int    // tamper / short: position in the frame (mod its length)
	data    []byte // garbage bytes / disconnect payload
	code    uint64
	linger  time.Duration // between the end of the session and the drop of the connection
	skipped bool          // (the listed disconnect shape)
}

func (s *stallSession) canon() string {
	id := idOf(s.key)
	return fmt.Sprintf("%x:v%d:%s:%d:%d:%s:%v:%s:%d:%x:%v;", id[:4], s.spec.version, s.load, s.size, s.pings, s.when, s.wait, s.end, s.pos, s.data[:min(len(s.data), 12)], s.linger)
}

var stallEnds = []string{"tamper", "tamper", "short", "garbage", "disc", "disc", "badcode", "half-close", "close", "close"}

func drawStallSession(t *rapid.T, i int, used []*btcec.PrivateKey) *stallSession {
	l := fmt.Sprintf("s%d-", i)
	s := &stallSession{}
	s.key = drawFreshKey(t, l+"key", used...)
	s.spec = drawPeerSpec(t, l+"spec", s.key)
	s.load = rapid.SampledFrom([]string{"big-echo", "big-echo", "big-echo", "idle"}).Draw(t, l+"load")
	if s.load == "big-echo" {
		// the node does not set its send buffer: the kernel lets it grow to at most
		// tcp_wmem[2] (4 MiB by default); whether a size really blocked the node's write is observed
		s.size = rapid.SampledFrom([]int{1 << 20, 3 << 20, 6 << 20, 6 << 20, 8 << 20}).Draw(t, l+"size")
		s.fill = rapid.Uint64().Draw(t, l+"fill") | 1
	}
	s.pings = rapid.SampledFrom([]int{0, 0, 1, 3, 20}).Draw(t, l+"pings")
	s.when = rapid.SampledFrom([]string{"before-ping", "past-ping", "past-ping", "past-ping"}).Draw(t, l+"when")
	if s.when == "before-ping" {
		s.wait = time.Duration(rapid.SampledFrom([]int{0, 200, 2000, 14000}).Draw(t, l+"wait")) * time.Millisecond
	} else {
		s.wait = nodePingInterval + time.Duration(rapid.SampledFrom([]int{300, 800, 1500}).Draw(t, l+"wait"))*time.Millisecond
	}
	s.end = rapid.SampledFrom(stallEnds).Draw(t, l+"end")
	switch s.end {
	case "tamper", "short":
		s.pos = rapid.IntRange(0, 1<<20).Draw(t, l+"pos")
		s.data = rapid.SliceOfN(rapid.Byte(), 0, 40).Draw(t, l+"framepayload")
	case "garbage":
		s.data = rapid.SliceOfN(rapid.Byte(), 1, 200).Draw(t, l+"garbage")
	case "disc":
		s.data, _ = drawDiscPayload(t)
		s.skipped = knownDiscShape(s.data)
	case "badcode":
		s.code = rapid.SampledFrom([]uint64{baseLength + echoLength, 0x100, 1<<64 - 1}).Draw(t, l+"badcode")
		s.data = []byte{0xc0}
	}
	s.linger = time.Duration(rapid.SampledFrom([]int{0, 50, 300, 1000}).Draw(t, l+"linger")) * time.Millisecond
	return s
}

func (s *stallSession) fullStall() bool { return s.load == "big-echo" && s.when == "past-ping" }

type stallResult struct {
	labels []string
	err    error // a violation
	hErr   error // the harness could not do its part (no verdict)
}

// peerListed asks the server whether it still has a peer with this identity.
// A server that does not answer within the bound counts as "still listed".
func (sc *srvCase) peerListed(id discover.NodeID, bound time.Duration) (listed, answered bool) {
	out := make(chan bool, 1)
	go func() {
		for _, p := range sc.srv.Peers() {
			if p.ID() == id {
				out <- true
				return
			}
		}
		out <- false
	}()
	select {
	case l := <-out:
		return l, true
	case <-time.After(bound):
		return true, false
	}
}

func (sc *srvCase) runStallSession(s *stallSession, probe []byte, track func(net.Conn)) (res stallResult) {
	lab := func(l ...string) { res.labels = append(res.labels, l...) }
	id := nodeIDOf(s.key)
	cc, err := sc.dialSmall()
	if err != nil {
		res.hErr = fmt.Errorf("dial: %w", err)
		return
	}
	track(cc)
	cl, err := sc.connectOn(cc, s.spec, probe)
	if err != nil {
		res.err = fmt.Errorf("a legitimate peer (one of several connecting at the same time) is not served: %w", err)
		return
	}
	start := time.Now() // the node's peer has started before this moment
	cc.SetDeadline(time.Time{})
	nodePort := cc.RemoteAddr().(*net.TCPAddr).Port
	remotePort := cc.LocalAddr().(*net.TCPAddr).Port

	// ---- the load: from here on the remote never reads again ----
	lab("stall:load:" + s.load)
	var frameLen int64
	if s.load == "big-echo" {
		p := make([]byte, s.size)
		(&detRand{s.fill}).Read(p)
		cc.SetWriteDeadline(time.Now().Add(srvBound()))
		if err := cl.write(baseLength, p); err != nil {
			noteTimeout(err)
			res.err = fmt.Errorf("the node does not take a %d-byte sub-protocol message within %v: %w", s.size, srvBound(), err)
			return
		}
		frameLen = int64(s.size)
		lab(fmt.Sprintf("stall:echo-MiB:%d", s.size>>20))
	}
	for i := 0; i < s.pings; i++ {
		cc.SetWriteDeadline(time.Now().Add(srvBound()))
		if err := cl.write(2, []byte{0xc0}); err != nil {
			noteTimeout(err)
			res.err = fmt.Errorf("the node does not take ping %d behind a large message within %v: %w", i, srvBound(), err)
			return
		}
	}
	if s.pings > 0 {
		lab("stall:pongs-queued")
	}

	// ---- wait (aim only) ----
	time.Sleep(time.Until(start.Add(s.wait)))
	lab("stall:end-" + s.when)
	blocked := false
	if tx, rx, ok := tcpQueues(nodePort, remotePort); !ok {
		lab("stall:queues-unobserved")
	} else if frameLen > 0 && tx+rx < frameLen && tx+rx > 0 {
		// less than the echo has left the node's process and nothing is being read: its write is blocked
		blocked = true
		lab("stall:node-write-blocked")
		ev.Add("stall_bytes_in_kernel", tx+rx)
	} else if frameLen > 0 {
		lab("stall:node-write-fitted-the-buffers")
	}
	if blocked && s.when == "past-ping" {
		lab("stall:teardown-while-write-and-ping-blocked")
	}

	// ---- the end of the session ----
	lab("stall:end:" + s.end)
	cc.SetWriteDeadline(time.Now().Add(srvBound()))
	switch s.end {
	case "tamper", "short":
		raw, err := cl.sealedFrame(cc, baseLength, s.data)
		if err != nil || len(raw) == 0 {
			res.hErr = fmt.Errorf("cannot seal a frame: %v", err)
			return
		}
		pos := s.pos % len(raw)
		if s.end == "tamper" {
			raw[pos] ^= 1 << (uint(s.pos>>8) % 8)
		} else {
			raw = append(raw[:pos:pos], raw[pos+1:]...)
		}
		cc.Conn.Write(raw)
	case "garbage":
		cc.Conn.Write(s.data)
	case "disc":
		cl.write(1, s.data)
		lab("stall:" + reasonClass(s.data))
	case "badcode":
		cl.write(s.code, s.data)
	case "half-close":
		cc.Conn.(*net.TCPConn).CloseWrite()
	case "close":
	}
	// (a write error above means the node has closed already)
	time.Sleep(s.linger)
	cc.Conn.Close() // unread data: the node's end sees a reset, every blocked write of it fails
	dropped := time.Now()

	// ---- the node must forget the peer ----
	bound := stallBoundNow()
	for {
		listed, answered := sc.peerListed(id, bound)
		if !listed {
			break
		}
		if time.Since(dropped) > bound {
			srvBoundMissed.Store(true)
			how := "still lists the peer"
			if !answered {
				how = "does not answer Peers()"
			}
			res.err = fmt.Errorf("the connection handler is wedged: %v after the remote ended the session (%s) and dropped the connection, the server %s (load %s of %d bytes, %d pings behind it, session ended %v after it began, node's write blocked: %v)",
				bound, s.end, how, s.load, s.size, s.pings, s.wait, blocked)
			return
		}
		time.Sleep(20 * time.Millisecond)
	}
	lab("stall:peer-forgotten")

	// ---- and the same identity must be served again ----
	fd, err := sc.dialSmall()
	if err != nil {
		res.hErr = fmt.Errorf("dial again: %w", err)
		return
	}
	track(fd)
	if _, err := sc.connectOn(fd, s.spec, probe); err != nil {
		noteTimeout(err)
		res.err = fmt.Errorf("after its session ended (%s; load %s, node's write blocked: %v) and the server had forgotten the peer, the same identity is not served again: %w", s.end, s.load, blocked, err)
		return
	}
	fd.Close()
	lab("stall:same-identity-served-again")
	return
}

func TestServerStalledSessions(t *testing.T) {
	if f := flag.Lookup("rapid.shrinktime"); f != nil && os.Getenv("VERIF_SHRINKTIME") == "" {
		old := f.Value.String()
		flag.Set("rapid.shrinktime", "5s")
		defer flag.Set("rapid.shrinktime", old)
	}
	ev.Check(t, ev.N(1, 60), func(t *rapid.T) {
		report := failer(t)
		srvKey := drawKey(t, "srvkey")
		slots := rapid.SampledFrom([]int{1, 2, 3, 5}).Draw(t, "slots")
		verbose := rapid.IntRange(0, 3).Draw(t, "verbose") > 0
		used := []*btcec.PrivateKey{srvKey}
		n := rapid.IntRange(4, 8).Draw(t, "sessions")
		var sessions []*stallSession
		for i := 0; i < n; i++ {
			s := drawStallSession(t, i, used)
			used = append(used, s.key)
			if !s.skipped {
				sessions = append(sessions, s)
			}
		}
		// every case has at least one session that ends while the node's write and ping are blocked
		any := false
		for _, s := range sessions {
			any = any || s.fullStall()
		}
		if !any && len(sessions) > 0 {
			s := sessions[0]
			s.load, s.size, s.fill, s.when, s.wait = "big-echo", 6<<20, 0x9e3779b97f4a7c15, "past-ping", nodePingInterval+800*time.Millisecond
		}
		probe := rapid.SliceOfN(rapid.Byte(), 0, 64).Draw(t, "probe")
		keyZ := drawFreshKey(t, "keyZ", used...)
		specZ := drawPeerSpec(t, "Z", keyZ)

		srvID := idOf(srvKey)
		canon := []byte(fmt.Sprintf("stall|%x|%d|%v|", srvID[:8], slots, verbose))
		for _, s := range sessions {
			canon = append(canon, s.canon()...)
		}
		writeInflight(srvInflight{"server-stalled-sessions", string(canon)})

		sc, err := startServer(srvKey, slots, false, verbose)
		if err != nil {
			t.Fatalf("harness: cannot start the server: %v", err)
		}
		stopped := false
		var mu sync.Mutex
		var conns []net.Conn
		track := func(c net.Conn) { mu.Lock(); conns = append(conns, c); mu.Unlock() }
		defer func() {
			mu.Lock()
			for _, c := range conns {
				c.Close()
			}
			mu.Unlock()
			sc.closeConns()
			if !stopped {
				go sc.srv.Stop()
			}
		}()

		results := make([]stallResult, len(sessions))
		var wg sync.WaitGroup
		for i, s := range sessions {
			wg.Add(1)
			go func(i int, s *stallSession) {
				defer wg.Done()
				defer func() {
					if p := recover(); p != nil {
						results[i].hErr = fmt.Errorf("harness panicked: %v", p)
					}
				}()
				results[i] = sc.runStallSession(s, probe, track)
			}(i, s)
		}
		wg.Wait()
		labels := []string{"stall:case"}
		for i, r := range results {
			if r.err != nil {
				report("session %d of %d concurrent ones: %v (trace %s)", i, len(sessions), r.err, canon)
			}
		}
		for _, r := range results {
			if r.hErr != nil {
				t.Fatalf("harness: %v", r.hErr)
			}
			labels = append(labels, r.labels...)
		}

		// ---- the node goes on serving, and stops when told to ----
		if _, err := sc.connectPeer(specZ, probe); err != nil {
			noteTimeout(err)
			report("after %d sessions that ended while the node was writing to them (%s) a fresh legitimate peer is not served: %v", len(sessions), canon, err)
		}
		done := make(chan struct{})
		go func() { sc.srv.Stop(); close(done) }()
		select {
		case <-done:
			stopped = true
			labels = append(labels, "stall:stop-returned")
		case <-time.After(stallBoundNow()):
			bound := stallBoundNow()
			srvBoundMissed.Store(true)
			report("Server.Stop does not return within %v after sessions that ended while the node was writing to them (trace %s)", bound, canon)
		}
		ev.Case(true, canon, labels...)
		ev.Sample(map[string]interface{}{"kind": "server-stalled-sessions", "trace": string(canon[:min(len(canon), 600)])})
	})
}
