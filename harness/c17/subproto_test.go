package c17

// Layer 3: aqua sub-protocol messages into ProtocolManager.SubProtocols[i].Run
// over p2p.MsgPipe, after a status handshake.

import (
	"bytes"
	"encoding/binary"
	"encoding/hex"
	"fmt"
	"io"
	"math/big"
	"sync"
	"sync/atomic"
	"testing"
	"time"

	"gitlab.com/aquachain/aquachain/aqua"
	"gitlab.com/aquachain/aquachain/aqua/downloader"
	"gitlab.com/aquachain/aquachain/aqua/event"
	"gitlab.com/aquachain/aquachain/aquadb"
	"gitlab.com/aquachain/aquachain/common"
	"gitlab.com/aquachain/aquachain/core"
	"gitlab.com/aquachain/aquachain/core/types"
	"gitlab.com/aquachain/aquachain/p2p"
	"gitlab.com/aquachain/aquachain/p2p/discover"
	"gitlab.com/aquachain/aquachain/params"
	"gitlab.com/aquachain/aquachain/rlp"
	"pgregory.net/rapid"
	"verifharness/ev"
	"verifharness/gen"
	"verifharness/ref/refmpt"
	"verifharness/ref/refrlp"
)

const (
	subMaxMsg     = 10 * 1024 * 1024
	allocSubLarge = 4 * subMaxMsg
	networkID     = 61717561
	maxHeaderResp = 192
)

// message codes, transcribed from the protocol description
const (
	cStatus, cNewBlockHashes, cTx, cGetHeaders, cHeaders, cGetBodies, cBodies, cNewBlock = 0, 1, 2, 3, 4, 5, 6, 7
	cGetNodeData, cNodeData, cGetReceipts, cReceipts                                    = 0x0d, 0x0e, 0x0f, 0x10
)

var allCodes = []uint64{0, 1, 2, 3, 4, 5, 6, 7, 8, 9, 0x0a, 0x0b, 0x0c, 0x0d, 0x0e, 0x0f, 0x10}

// ---------- the node under test ----------

type subNode struct {
	cfg      *params.ChainConfig
	node     *gen.Node
	pm       *aqua.ProtocolManager
	builder  *gen.Builder
	blocks   []*types.Block // canonical chain the node was given, index = number
	next     *types.Block   // a valid child of the head, never imported unless a case sends it
	byHash   map[common.Hash]*types.Block
	known    map[common.Hash]bool // every block hash this harness ever built
	genesisH []byte               // rlp([genesis header])
	nextNonce uint64
	mu       sync.Mutex
	variants map[string]bool // header encodings of announced variants of next
}

var (
	subOnce sync.Once
	subN    *subNode
)

func mustItem(b []byte) refrlp.Item {
	it, err := refrlp.DecodeExact(b)
	if err != nil {
		panic(fmt.Sprintf("harness: node encoding is not canonical RLP: %v", err))
	}
	return it
}

func encItem(v interface{}) refrlp.Item {
	b, err := rlp.EncodeToBytes(v)
	if err != nil {
		panic(err)
	}
	return mustItem(b)
}

func getSubNode() *subNode {
	subOnce.Do(func() {
		nc := gen.ConfigByName("test-hf1-7")
		g := gen.Genesis(nc.Config, 0)
		b, err := gen.NewBuilder(g)
		if err != nil {
			panic(err)
		}
		sn := &subNode{cfg: nc.Config, builder: b, byHash: map[common.Hash]*types.Block{}, known: map[common.Hash]bool{}}
		parent := b.Chain.Genesis()
		sn.blocks = append(sn.blocks, parent)
		nonces := map[int]uint64{}
		mk := func(num int64, k int, to common.Address, data []byte, gas uint64) *types.Transaction {
			tx := gen.SignedTx(nc.Config, big.NewInt(num), gen.Keys[k], nonces[k], &to, big.NewInt(1000), gas, big.NewInt(1), data)
			nonces[k]++
			return tx
		}
		const nBlocks = 9
		for i := 1; i <= nBlocks+1; i++ {
			spec := gen.BlockSpec{TimeDelta: 240, Coinbase: gen.Keys[1].Addr, Extra: []byte{byte(i)}}
			spec.Txs = append(spec.Txs, mk(int64(i), 0, gen.Keys[2].Addr, nil, 21000))
			if i%2 == 0 {
				var topics [4]common.Hash
				topics[0] = common.BytesToHash([]byte{byte(i)})
				spec.Txs = append(spec.Txs, mk(int64(i), 1, gen.AddrEmit, gen.EmitData(1, topics, common.Hash{1}), 200000))
			}
			if i > 2 && i%3 == 0 {
				// an uncle: a sibling of the parent
				sib, err := b.Build(sn.blocks[i-2], gen.BlockSpec{TimeDelta: 250, Coinbase: gen.Keys[3].Addr, Extra: []byte("sib")})
				if err == nil {
					spec.Uncles = []*types.Header{sib.Block.Header()}
					sn.known[sib.Block.Hash()] = true
				}
			}
			built, err := b.Build(parent, spec)
			if err != nil {
				panic(err)
			}
			if i <= nBlocks {
				sn.blocks = append(sn.blocks, built.Block)
				parent = built.Block
			} else {
				sn.next = built.Block
			}
			sn.known[built.Block.Hash()] = true
		}
		sn.nextNonce = nonces[0]
		for _, bl := range sn.blocks {
			sn.byHash[bl.Hash()] = bl
		}
		sn.known[sn.blocks[0].Hash()] = true
		node, err := gen.NewNode(aquadb.NewMemDatabase(), g, gen.Archive(), nil)
		if err != nil {
			panic(err)
		}
		// re-decode so that the node gets its own copies
		var chain types.Blocks
		for _, bl := range sn.blocks[1:] {
			enc, _ := rlp.EncodeToBytes(bl)
			var cp types.Block
			if err := rlp.DecodeBytes(enc, &cp); err != nil {
				panic(err)
			}
			chain = append(chain, &cp)
		}
		if _, err := node.Chain.InsertChain(chain); err != nil {
			panic(fmt.Sprintf("harness: node rejected the built chain: %v", err))
		}
		sn.node = node
		poolCfg := core.DefaultTxPoolConfig
		poolCfg.Journal = "" // no journal file in the working directory
		pool := core.NewTxPool(poolCfg, nc.Config, node.Chain)
		pm, err := aqua.NewProtocolManager(nc.Config, downloader.FullSync, networkID, new(event.TypeMux), pool, node.Engine, node.Chain, node.DB)
		if err != nil {
			panic(err)
		}
		pm.Start(50)
		sn.pm = pm
		hdr := refrlp.L(encItem(sn.blocks[0].Header()))
		sn.genesisH = refrlp.Encode(hdr)
		subN = sn
	})
	return subN
}

func (sn *subNode) head() uint64 { return sn.node.Chain.CurrentBlock().NumberU64() }

func (sn *subNode) statusItem(version uint64) refrlp.Item {
	head := sn.node.Chain.CurrentBlock()
	td := sn.node.Chain.GetTd(head.Hash(), head.NumberU64())
	return refrlp.L(refrlp.U(version), refrlp.U(networkID), refrlp.Big(td), refrlp.B(head.Hash().Bytes()), refrlp.B(sn.blocks[0].Hash().Bytes()))
}

// ---------- a peer session ----------

type recvMsg struct {
	code    uint64
	payload []byte
}

type subSession struct {
	sn      *subNode
	app     *p2p.MsgPipeRW
	done    chan error // Run's return value
	panicked chan interface{}
	inbox   chan recvMsg
	version uint64
	mu      sync.Mutex
	answers map[string][2][]byte // announced hash -> (headers payload, bodies payload)
	bodiesServed int64
}

func newSession(sn *subNode, protoIdx int, id discover.NodeID) *subSession {
	app, net := p2p.MsgPipe()
	proto := sn.pm.SubProtocols[protoIdx]
	s := &subSession{sn: sn, app: app, done: make(chan error, 1), panicked: make(chan interface{}, 1), inbox: make(chan recvMsg, 4096),
		version: uint64(proto.Version), answers: map[string][2][]byte{}}
	peer := p2p.NewPeer(id, "c17-peer", []p2p.Cap{{Name: proto.Name, Version: proto.Version}})
	go func() {
		defer func() {
			if p := recover(); p != nil {
				s.panicked <- p
			}
			app.Close() // whatever happens, nobody may stay blocked on the pipe
		}()
		s.done <- proto.Run(peer, net)
	}()
	go s.drain()
	return s
}

// drain reads everything the node sends, answers fetcher requests for blocks
// this session announced, and queues the rest for the main goroutine.
func (s *subSession) drain() {
	for {
		msg, err := s.app.ReadMsg()
		if err != nil {
			return
		}
		payload, _ := io.ReadAll(io.LimitReader(msg.Payload, 32<<20))
		msg.Discard()
		if msg.Code == cGetHeaders || msg.Code == cGetBodies {
			if it, err := refrlp.DecodeExact(payload); err == nil && it.IsList && len(it.List) > 0 {
				key := it.List[0]
				s.mu.Lock()
				ans, ok := s.answers[string(key.Bytes)]
				var bodies []refrlp.Item
				if msg.Code == cGetBodies {
					for _, h := range it.List {
						if a, found := s.answers[string(h.Bytes)]; found && !h.IsList && a[1] != nil {
							if b, err := refrlp.DecodeExact(a[1]); err == nil {
								bodies = append(bodies, b.List...)
							}
						}
					}
				}
				s.mu.Unlock()
				if msg.Code == cGetHeaders && ok && !key.IsList && len(key.Bytes) == 32 && ans[0] != nil {
					go s.send(cHeaders, ans[0])
					ev.Label("fetch:header-requested")
				}
				if len(bodies) > 0 {
					go s.send(cBodies, refrlp.Encode(refrlp.L(bodies...)))
					ev.Label("fetch:body-requested")
					atomic.AddInt64(&s.bodiesServed, int64(len(bodies)))
				}
			}
		}
		select {
		case s.inbox <- recvMsg{msg.Code, payload}:
		default:
		}
	}
}

func (s *subSession) send(code uint64, payload []byte) error {
	return s.app.WriteMsg(p2p.Msg{Code: code, Size: uint32(len(payload)), Payload: bytes.NewReader(payload)})
}

// sendSync sends and waits until the node consumed the message or the session
// ended (the pipe is closed when Run returns); false = neither happened in 20s.
func (s *subSession) sendSync(code uint64, payload []byte, lazy uint32) bool {
	errc := make(chan error, 1)
	go func() {
		if lazy > 0 {
			errc <- s.sendLazy(code, lazy)
		} else {
			errc <- s.send(code, payload)
		}
	}()
	select {
	case <-errc:
		return true
	case <-time.After(20 * time.Second):
		return false
	}
}

type zeroReader struct{}

func (zeroReader) Read(p []byte) (int, error) {
	for i := range p {
		p[i] = 0
	}
	return len(p), nil
}

// sendLazy sends a message of the given size without materialising it.
func (s *subSession) sendLazy(code uint64, size uint32) error {
	return s.app.WriteMsg(p2p.Msg{Code: code, Size: size, Payload: io.LimitReader(zeroReader{}, int64(size))})
}

// await waits for the run to end or for a message satisfying match; other
// messages are appended to seen.
func (s *subSession) await(match func(recvMsg) bool, seen *[]recvMsg, d time.Duration) (outcome string, runErr error, pn interface{}) {
	timer := time.NewTimer(d)
	defer timer.Stop()
	for {
		select {
		case m := <-s.inbox:
			if match != nil && match(m) {
				return "matched", nil, nil
			}
			if seen != nil {
				*seen = append(*seen, m)
			}
		case err := <-s.done:
			return "ended", err, nil
		case p := <-s.panicked:
			return "panicked", nil, p
		case <-timer.C:
			return "timeout", nil, nil
		}
	}
}

// handshake reads the node's status and sends ours.
func (s *subSession) handshake(status []byte, code uint64) (string, error, interface{}) {
	var got []recvMsg
	out, err, pn := s.await(func(m recvMsg) bool { return m.code == cStatus }, &got, 10*time.Second)
	if out != "matched" {
		return out, err, pn
	}
	if !s.sendSync(code, status, 0) {
		return "timeout", nil, nil
	}
	return "sent", nil, nil
}

// probe checks the handler still serves: a GetNodeData for the genesis state
// root (which no generated request asks for) must be answered with exactly one
// blob that hashes to it.
func (s *subSession) probe(seen *[]recvMsg) (string, error, interface{}) {
	root := s.sn.blocks[0].Root().Bytes()
	q := refrlp.Encode(refrlp.L(refrlp.B(root)))
	if !s.sendSync(cGetNodeData, q, 0) {
		return "timeout", nil, nil
	}
	return s.await(func(m recvMsg) bool {
		if m.code != cNodeData {
			return false
		}
		it, err := refrlp.DecodeExact(m.payload)
		return err == nil && it.IsList && len(it.List) == 1 && bytes.Equal(refmpt.Keccak(it.List[0].Bytes), root)
	}, seen, 20*time.Second)
}

func (s *subSession) close() {
	s.app.Close()
}

// ---------- valid messages from chain data ----------

func (sn *subNode) drawKnownHash(t *rapid.T) []byte {
	switch rapid.IntRange(0, 5).Draw(t, "hashkind") {
	case 0:
		return rapid.SliceOfN(rapid.Byte(), 32, 32).Draw(t, "rndhash")
	case 1:
		return sn.next.Hash().Bytes()
	default:
		return sn.blocks[rapid.IntRange(0, len(sn.blocks)-1).Draw(t, "blk")].Hash().Bytes()
	}
}

func (sn *subNode) drawStateHash(t *rapid.T) []byte {
	bl := sn.blocks[rapid.IntRange(1, len(sn.blocks)-1).Draw(t, "sblk")] // not genesis: its root is the probe
	switch rapid.IntRange(0, 3).Draw(t, "statekind") {
	case 0:
		return bl.TxHash().Bytes()
	case 1:
		return refmpt.Keccak(gen.ZooCode()[gen.AddrEmit])
	case 2:
		return rapid.SliceOfN(rapid.Byte(), 32, 32).Draw(t, "rndnode")
	default:
		return bl.Root().Bytes()
	}
}

var u64Lattice = []uint64{0, 1, 2, 3, 5, 8, 9, 10, 11, 191, 192, 193, 1 << 20, 1<<32 - 1, 1<<63 - 1, 1 << 63, 1<<64 - 2, 1<<64 - 1}

type headerQuery struct {
	byHash  bool
	hash    []byte
	number  uint64
	amount  uint64
	skip    uint64
	reverse bool
}

func (q headerQuery) item() refrlp.Item {
	origin := refrlp.U(q.number)
	if q.byHash {
		origin = refrlp.B(q.hash)
	}
	rev := uint64(0)
	if q.reverse {
		rev = 1
	}
	return refrlp.L(origin, refrlp.U(q.amount), refrlp.U(q.skip), refrlp.U(rev))
}

func (sn *subNode) drawHeaderQuery(t *rapid.T) headerQuery {
	q := headerQuery{amount: rapid.SampledFrom(u64Lattice).Draw(t, "amount"), skip: rapid.SampledFrom(u64Lattice).Draw(t, "skip"), reverse: rapid.Bool().Draw(t, "reverse")}
	if rapid.Bool().Draw(t, "byHash") {
		q.byHash = true
		q.hash = sn.drawKnownHash(t)
	} else {
		q.number = rapid.SampledFrom(u64Lattice).Draw(t, "origin")
	}
	return q
}

// expectHeaders is the reference answer to a header query over the stable part
// of the canonical chain (numbers 0..len(blocks)-1). ok=false when the
// traversal leaves the part this harness can predict.
func (sn *subNode) expectHeaders(q headerQuery) (hashes []common.Hash, ok bool) {
	top := uint64(len(sn.blocks) - 1)
	n := q.number
	if q.byHash {
		bl := sn.byHash[common.BytesToHash(q.hash)]
		if bl == nil {
			if !sn.known[common.BytesToHash(q.hash)] {
				return nil, true // unknown to the node as well
			}
			return nil, false
		}
		n = bl.NumberU64()
	}
	if q.skip >= 1<<62 || q.amount >= 1<<63 {
		return nil, false // wrapping / sign-converting arithmetic in the handler: not modelled
	}
	step := q.skip + 1
	for uint64(len(hashes)) < q.amount && len(hashes) < maxHeaderResp {
		if n > top {
			return hashes, n > sn.head()
		}
		hashes = append(hashes, sn.blocks[n].Hash())
		if q.reverse {
			if n < step {
				break
			}
			n -= step
		} else {
			if n+step < n {
				return hashes, false
			}
			n += step
		}
	}
	return hashes, true
}

func (sn *subNode) validMessage(t *rapid.T, code uint64, s *subSession) (refrlp.Item, interface{}) {
	switch code {
	case cStatus:
		return sn.statusItem(s.version), nil
	case cNewBlockHashes:
		n := rapid.IntRange(0, 3).Draw(t, "nann")
		items := make([]refrlp.Item, n)
		for i := range items {
			items[i] = refrlp.L(refrlp.B(sn.drawKnownHash(t)), refrlp.U(rapid.SampledFrom(u64Lattice).Draw(t, "annnum")))
		}
		return refrlp.L(items...), nil
	case cTx:
		var items []refrlp.Item
		for i, n := 0, rapid.IntRange(0, 2).Draw(t, "ntx"); i < n; i++ {
			bl := sn.blocks[rapid.IntRange(1, len(sn.blocks)-1).Draw(t, "txblk")]
			items = append(items, encItem(bl.Transactions()[0]))
		}
		if rapid.Bool().Draw(t, "fresh") {
			sn.mu.Lock()
			nonce := sn.nextNonce + uint64(rapid.IntRange(0, 2).Draw(t, "gap"))
			sn.mu.Unlock()
			tx := gen.SignedTx(sn.cfg, big.NewInt(int64(sn.head())+1), gen.Keys[0], nonce, &gen.Keys[4].Addr, big.NewInt(5), 21000, big.NewInt(int64(rapid.IntRange(1, 1000).Draw(t, "price"))), nil)
			items = append(items, encItem(tx))
		}
		return refrlp.L(items...), nil
	case cGetHeaders:
		q := sn.drawHeaderQuery(t)
		return q.item(), q
	case cHeaders:
		var items []refrlp.Item
		for i, n := 0, rapid.IntRange(0, 3).Draw(t, "nh"); i < n; i++ {
			items = append(items, encItem(sn.blocks[rapid.IntRange(0, len(sn.blocks)-1).Draw(t, "hblk")].Header()))
		}
		return refrlp.L(items...), nil
	case cGetBodies, cGetReceipts:
		var hashes [][]byte
		var items []refrlp.Item
		for i, n := 0, rapid.IntRange(0, 4).Draw(t, "nhash"); i < n; i++ {
			h := sn.drawKnownHash(t)
			hashes = append(hashes, h)
			items = append(items, refrlp.B(h))
		}
		return refrlp.L(items...), hashes
	case cBodies:
		var items []refrlp.Item
		for i, n := 0, rapid.IntRange(0, 2).Draw(t, "nb"); i < n; i++ {
			bl := sn.blocks[rapid.IntRange(1, len(sn.blocks)-1).Draw(t, "bblk")]
			items = append(items, refrlp.L(encItem(bl.Transactions()), encItem(bl.Uncles())))
		}
		return refrlp.L(items...), nil
	case cNewBlock:
		var bl *types.Block
		switch rapid.IntRange(0, 3).Draw(t, "nbkind") {
		case 0:
			bl = sn.next
		default:
			bl = sn.blocks[rapid.IntRange(1, len(sn.blocks)-1).Draw(t, "nbblk")]
		}
		td := new(big.Int).SetUint64(rapid.SampledFrom(u64Lattice).Draw(t, "td"))
		if rapid.Bool().Draw(t, "hugetd") {
			td.Lsh(td, 200)
		}
		return refrlp.L(encItem(bl), refrlp.Big(td)), nil
	case cGetNodeData:
		var hashes [][]byte
		var items []refrlp.Item
		for i, n := 0, rapid.IntRange(0, 4).Draw(t, "nnode"); i < n; i++ {
			h := sn.drawStateHash(t)
			hashes = append(hashes, h)
			items = append(items, refrlp.B(h))
		}
		return refrlp.L(items...), hashes
	case cNodeData:
		var items []refrlp.Item
		for i, n := 0, rapid.IntRange(0, 3).Draw(t, "nd"); i < n; i++ {
			items = append(items, refrlp.B(rapid.SliceOfN(rapid.Byte(), 0, 80).Draw(t, "blob")))
		}
		return refrlp.L(items...), nil
	case cReceipts:
		var items []refrlp.Item
		for i, n := 0, rapid.IntRange(0, 2).Draw(t, "nr"); i < n; i++ {
			bl := sn.blocks[rapid.IntRange(1, len(sn.blocks)-1).Draw(t, "rblk")]
			rs := sn.builder.Chain.GetReceiptsByHash(bl.Hash())
			items = append(items, encItem(rs))
		}
		return refrlp.L(items...), nil
	}
	// unassigned code: any well-formed list
	return refrlp.L(refrlp.U(1), refrlp.B([]byte("x"))), nil
}

// drawVariant builds a block the node has never seen on top of its stable head:
// next with a different extra field (still valid), or with one header field
// spoiled, or with a different uncle list. Returns (hash, number to announce,
// BlockHeaders payload, BlockBodies payload).
var variantKinds = []string{"valid-sibling", "bad-root", "bad-gasused", "bad-number", "bad-time", "zero-difficulty", "huge-gaslimit", "uncle-ancestor", "uncle-self-parent", "uncle-many", "announce-wrong-number", "bad-txhash"}

func (sn *subNode) drawVariant(t *rapid.T) (common.Hash, uint64, []byte, []byte, string) {
	kind := rapid.SampledFrom(variantKinds).Draw(t, "variant")
	extra := rapid.SliceOfN(rapid.Byte(), 4, 8).Draw(t, "extra")
	delta := rapid.IntRange(1, 40).Draw(t, "dn")
	hash, num, hp, bp := sn.makeVariant(kind, extra, delta)
	return hash, num, hp, bp, kind
}

func (sn *subNode) makeVariant(kind string, extra []byte, delta int) (common.Hash, uint64, []byte, []byte) {
	h := types.CopyHeader(sn.next.Header())
	h.Extra = append([]byte("v"), extra...)
	uncles := sn.next.Uncles()
	switch kind {
	case "bad-root":
		h.Root[3] ^= 1
	case "bad-gasused":
		h.GasUsed++
	case "bad-number":
		h.Number = new(big.Int).Add(h.Number, big.NewInt(int64(delta)))
	case "bad-time":
		h.Time = big.NewInt(1)
	case "zero-difficulty":
		h.Difficulty = new(big.Int)
	case "huge-gaslimit":
		h.GasLimit = 1<<63 - 1
	case "uncle-ancestor":
		uncles = []*types.Header{sn.blocks[len(sn.blocks)-2].Header()}
	case "uncle-self-parent":
		uncles = []*types.Header{sn.blocks[len(sn.blocks)-1].Header(), sn.blocks[len(sn.blocks)-1].Header()}
	case "uncle-many":
		for i := 1; i < 5; i++ {
			uncles = append(uncles, sn.blocks[i].Header())
		}
	case "bad-txhash":
		h.TxHash[0] ^= 1
	}
	if len(kind) > 5 && kind[:5] == "uncle" {
		h.UncleHash = types.CalcUncleHash(uncles)
	}
	h.Version = sn.cfg.GetBlockVersion(h.Number)
	hash := h.Hash()
	num := h.Number.Uint64()
	if kind == "announce-wrong-number" {
		num += uint64(1 + delta%3)
	}
	hdrItem := encItem(h)
	sn.mu.Lock()
	if sn.variants == nil {
		sn.variants = map[string]bool{}
	}
	sn.variants[string(refrlp.Encode(hdrItem))] = true
	sn.known[hash] = true
	sn.mu.Unlock()
	var uncleItems []refrlp.Item
	for _, u := range uncles {
		uncleItems = append(uncleItems, encItem(u))
	}
	body := refrlp.L(refrlp.L(encItem(sn.next.Transactions()), refrlp.L(uncleItems...)))
	return hash, num, refrlp.Encode(refrlp.L(hdrItem)), refrlp.Encode(body)
}

// TestSubprotoFetch announces one block of every variant kind in one session and
// serves the fetcher's header and body requests: the import (or refusal) of
// attacker-supplied headers, uncles and bodies runs in node-owned goroutines.
func TestSubprotoFetch(t *testing.T) {
	sn := getSubNode()
	fail := func(f string, a ...interface{}) { t.Errorf(f, a...) }
	rounds := ev.Pick(1, 6)
	for round := 0; round < rounds && !t.Failed(); round++ {
		var id discover.NodeID
		binary.BigEndian.PutUint64(id[:8], atomic.AddUint64(&peerSeq, 1))
		s := newSession(sn, round%len(sn.pm.SubProtocols), id)
		if out, _, pn := s.handshake(refrlp.Encode(sn.statusItem(s.version)), cStatus); out != "sent" {
			t.Fatalf("valid status handshake failed: %s %v", out, pn)
		}
		var ann []refrlp.Item
		var validHash common.Hash
		for i, kind := range variantKinds {
			seed := uint64(ev.Seed())*1000 + uint64(ev.Shard())*100 + uint64(round)
			extra := []byte{byte(seed), byte(seed >> 8), byte(seed >> 16), byte(i), byte(round)}
			hash, num, hp, bp := sn.makeVariant(kind, extra, 1+i)
			s.answers[string(hash.Bytes())] = [2][]byte{hp, bp}
			ann = append(ann, refrlp.L(refrlp.B(hash.Bytes()), refrlp.U(num)))
			ev.Label("fetch:" + kind)
			if kind == "valid-sibling" {
				validHash = hash
			}
		}
		payload := refrlp.Encode(refrlp.L(ann...))
		writeInflight(subCase{"subproto-fetch", cNewBlockHashes, "announce-fetch", uint32(len(payload)), hex.EncodeToString(payload)})
		if !s.sendSync(cNewBlockHashes, payload, 0) {
			t.Fatalf("announcement not consumed")
		}
		deadline := time.Now().Add(4 * time.Second)
		for time.Now().Before(deadline) && atomic.LoadInt64(&s.bodiesServed) < 4 {
			o, _, p := s.await(func(m recvMsg) bool { return false }, nil, 100*time.Millisecond)
			if o == "panicked" {
				fail("Run panicked while the fetcher was pulling announced blocks: %v", p)
			}
			if o == "ended" {
				break
			}
		}
		time.Sleep(300 * time.Millisecond) // imports / refusals happen on the fetcher's goroutine
		if n := atomic.LoadInt64(&s.bodiesServed); n > 0 {
			ev.Label("fetch:body-served")
			ev.Add("fetch_bodies_served", n)
		}
		if sn.node.Chain.GetBlockByHash(validHash) != nil {
			ev.Label("fetch:valid-block-imported")
		}
		if o, _, p := s.probe(nil); o == "panicked" || o == "timeout" {
			fail("handler %s after the announce/fetch exchange: %v", o, p)
		}
		ev.Case(true, append([]byte("fetch|"), payload...), "class:announce-fetch")
		s.close()
	}
}

// ---------- item mutation ----------

func countLeaves(it refrlp.Item) int {
	if !it.IsList {
		return 1
	}
	n := 1
	for _, c := range it.List {
		n += countLeaves(c)
	}
	return n
}

// mutateNode rewrites the idx-th node (pre-order) of it.
func mutateNode(it refrlp.Item, idx *int, f func(refrlp.Item) refrlp.Item) refrlp.Item {
	if *idx == 0 {
		*idx = -1
		return f(it)
	}
	*idx--
	if !it.IsList {
		return it
	}
	out := refrlp.Item{IsList: true, List: make([]refrlp.Item, len(it.List))}
	for i, c := range it.List {
		if *idx >= 0 {
			out.List[i] = mutateNode(c, idx, f)
		} else {
			out.List[i] = c
		}
	}
	return out
}

func drawFieldMutation(t *rapid.T) (string, func(refrlp.Item) refrlp.Item) {
	kind := rapid.SampledFrom([]string{"flip", "shorten", "lengthen", "to-list", "to-empty", "to-empty-list", "max-u64", "over-u64", "u256", "over-u256", "dup-child", "drop-child", "zero-prefix"}).Draw(t, "mut")
	seed := rapid.IntRange(0, 1<<30).Draw(t, "mutseed")
	return kind, func(it refrlp.Item) refrlp.Item {
		switch kind {
		case "flip":
			if !it.IsList && len(it.Bytes) > 0 {
				b := append([]byte{}, it.Bytes...)
				b[seed%len(b)] ^= byte(1 + seed%255)
				return refrlp.B(b)
			}
		case "shorten":
			if !it.IsList && len(it.Bytes) > 0 {
				return refrlp.B(it.Bytes[:len(it.Bytes)-1])
			}
		case "lengthen":
			if !it.IsList {
				return refrlp.B(append(append([]byte{}, it.Bytes...), byte(seed)))
			}
		case "zero-prefix":
			if !it.IsList {
				return refrlp.B(append([]byte{0}, it.Bytes...))
			}
		case "to-list":
			return refrlp.L(it)
		case "to-empty":
			return refrlp.B(nil)
		case "to-empty-list":
			return refrlp.L()
		case "max-u64":
			return refrlp.U(1<<64 - 1)
		case "over-u64":
			return refrlp.B([]byte{1, 0, 0, 0, 0, 0, 0, 0, 0})
		case "u256":
			return refrlp.B(bytes.Repeat([]byte{0xff}, 32))
		case "over-u256":
			return refrlp.B(append([]byte{1}, make([]byte, 32)...))
		case "dup-child":
			if it.IsList && len(it.List) > 0 {
				return refrlp.L(append(append([]refrlp.Item{}, it.List...), it.List[seed%len(it.List)])...)
			}
		case "drop-child":
			if it.IsList && len(it.List) > 0 {
				i := seed % len(it.List)
				return refrlp.L(append(append([]refrlp.Item{}, it.List[:i]...), it.List[i+1:]...)...)
			}
		}
		if it.IsList {
			return refrlp.B([]byte{byte(seed)})
		}
		return refrlp.L()
	}
}

// ---------- response oracles ----------

func firstOf(seen []recvMsg, code uint64) *recvMsg {
	for i := range seen {
		if seen[i].code == code {
			return &seen[i]
		}
	}
	return nil
}

// hashOfHeaderItem recomputes a returned header's hash by decoding it as the
// node would and looking it up among the blocks this harness built.
func (sn *subNode) headerKnown(it refrlp.Item) (common.Hash, bool) {
	enc := refrlp.Encode(it)
	for h, bl := range sn.byHash {
		if bytes.Equal(refrlp.Encode(encItem(bl.Header())), enc) {
			return h, true
		}
	}
	if bytes.Equal(refrlp.Encode(encItem(sn.next.Header())), enc) {
		return sn.next.Hash(), true
	}
	sn.mu.Lock()
	defer sn.mu.Unlock()
	if sn.variants[string(enc)] {
		return common.Hash{1}, true
	}
	return common.Hash{}, false
}

func (sn *subNode) checkResponse(fail func(string, ...interface{}), code uint64, aux interface{}, seen []recvMsg) string {
	switch code {
	case cGetHeaders:
		q := aux.(headerQuery)
		r := firstOf(seen, cHeaders)
		if r == nil {
			fail("no BlockHeaders answer to a well-formed GetBlockHeaders %+v", q)
			return ""
		}
		it, err := refrlp.DecodeExact(r.payload)
		if err != nil || !it.IsList {
			fail("BlockHeaders answer is not canonical RLP: %x", r.payload)
			return ""
		}
		if uint64(len(it.List)) > q.amount || len(it.List) > maxHeaderResp {
			fail("GetBlockHeaders %+v answered with %d headers", q, len(it.List))
		}
		var got []common.Hash
		for _, h := range it.List {
			hash, ok := sn.headerKnown(h)
			if !ok {
				if sn.head() < uint64(len(sn.blocks)) {
					fail("GetBlockHeaders %+v returned a header that is not on the chain", q)
				}
				return "headers-unpredictable"
			}
			got = append(got, hash)
		}
		want, ok := sn.expectHeaders(q)
		if !ok {
			return "headers-authentic"
		}
		if len(got) != len(want) {
			fail("GetBlockHeaders %+v: got %d headers, reference says %d", q, len(got), len(want))
			return ""
		}
		for i := range got {
			if got[i] != want[i] {
				fail("GetBlockHeaders %+v: header %d is %x, reference says %x", q, i, got[i][:6], want[i][:6])
			}
		}
		return "headers-exact"
	case cGetBodies:
		hashes := aux.([][]byte)
		r := firstOf(seen, cBodies)
		if r == nil {
			fail("no BlockBodies answer to a well-formed GetBlockBodies")
			return ""
		}
		it, err := refrlp.DecodeExact(r.payload)
		if err != nil || !it.IsList {
			fail("BlockBodies answer is not canonical RLP")
			return ""
		}
		var want [][]byte
		for _, h := range hashes {
			if bl := sn.byHash[common.BytesToHash(h)]; bl != nil {
				want = append(want, refrlp.Encode(refrlp.L(encItem(bl.Transactions()), encItem(bl.Uncles()))))
			} else if sn.known[common.BytesToHash(h)] {
				return "bodies-unpredictable"
			}
		}
		if len(it.List) != len(want) {
			fail("GetBlockBodies: %d bodies returned, %d of the requested blocks exist", len(it.List), len(want))
			return ""
		}
		for i := range want {
			if !bytes.Equal(refrlp.Encode(it.List[i]), want[i]) {
				fail("GetBlockBodies: body %d differs from the block that was imported", i)
			}
		}
		return "bodies-exact"
	case cGetNodeData:
		hashes := aux.([][]byte)
		r := firstOf(seen, cNodeData)
		if r == nil {
			fail("no NodeData answer to a well-formed GetNodeData")
			return ""
		}
		it, err := refrlp.DecodeExact(r.payload)
		if err != nil || !it.IsList || len(it.List) > len(hashes) {
			fail("NodeData answer malformed or longer than the request")
			return ""
		}
		// every blob must be the preimage of a requested hash, in request order
		j := 0
		for _, blob := range it.List {
			h := refmpt.Keccak(blob.Bytes)
			for j < len(hashes) && !bytes.Equal(hashes[j], h) {
				j++
			}
			if j == len(hashes) {
				fail("NodeData returned a blob that hashes to %x, which was not requested (in order)", h[:6])
				return ""
			}
			j++
		}
		if len(it.List) > 0 {
			return "nodedata-preimages"
		}
		return "nodedata-empty"
	case cGetReceipts:
		r := firstOf(seen, cReceipts)
		if r == nil {
			fail("no Receipts answer to a well-formed GetReceipts")
			return ""
		}
		if _, err := refrlp.DecodeExact(r.payload); err != nil {
			fail("Receipts answer is not canonical RLP")
		}
		return "receipts-answered"
	}
	return ""
}

// ---------- the property ----------

type subCase struct {
	Layer   string `json:"layer"`
	Code    uint64 `json:"code"`
	Class   string `json:"class"`
	Size    uint32 `json:"size"`
	Payload string `json:"payload"`
}

var peerSeq uint64

var subClasses = []string{"valid", "valid", "valid", "valid", "valid", "valid", "field-mutated", "field-mutated", "truncated", "random", "nested", "oversize", "trailing"}

// assigned codes are drawn more often than the unassigned ones
var codePool = []uint64{1, 2, 3, 4, 5, 6, 7, 0x0d, 0x0e, 0x0f, 0x10, 1, 2, 3, 4, 5, 6, 7, 0x0d, 0x0e, 0x0f, 0x10, 0, 8, 9, 0x0a, 0x0b, 0x0c}


func TestSubprotoMessages(t *testing.T) {
	sn := getSubNode()
	ev.Check(t, ev.N(1800, 36_000), func(t *rapid.T) {
		protoIdx := rapid.IntRange(0, len(sn.pm.SubProtocols)-1).Draw(t, "proto")
		var id discover.NodeID
		copy(id[8:], rapid.SliceOfN(rapid.Byte(), 56, 56).Draw(t, "peerid"))
		binary.BigEndian.PutUint64(id[:8], atomic.AddUint64(&peerSeq, 1)) // the peer-set key is the first 8 bytes
		fail := failer(t)
		s := newSession(sn, protoIdx, id)
		defer s.close()

		// ---- status handshake ----
		hsClass := rapid.SampledFrom([]string{"ok", "ok", "ok", "ok", "ok", "ok", "wrong-network", "wrong-genesis", "wrong-version", "mutated", "truncated", "random", "wrong-code", "oversize"}).Draw(t, "hs")
		st := sn.statusItem(s.version)
		status := refrlp.Encode(st)
		hsCode := uint64(cStatus)
		mustReject := true
		switch hsClass {
		case "ok":
			mustReject = false
		case "wrong-network":
			st.List[1] = refrlp.U(rapid.SampledFrom([]uint64{0, 1, networkID + 1, 1<<64 - 1}).Draw(t, "net"))
			status = refrlp.Encode(st)
		case "wrong-genesis":
			g := append([]byte{}, st.List[4].Bytes...)
			g[rapid.IntRange(0, 31).Draw(t, "gpos")] ^= 0x40
			st.List[4] = refrlp.B(g)
			status = refrlp.Encode(st)
		case "wrong-version":
			st.List[0] = refrlp.U(rapid.SampledFrom([]uint64{0, 1, 62, 63, 66, 1<<32 - 1, 1 << 32}).Draw(t, "ver"))
			status = refrlp.Encode(st)
		case "mutated":
			idx := rapid.IntRange(0, countLeaves(st)-1).Draw(t, "hsnode")
			_, f := drawFieldMutation(t)
			status = refrlp.Encode(mutateNode(st, &idx, f))
			mustReject = false // some mutations (TD, head hash) leave a valid status
		case "truncated":
			status = status[:rapid.IntRange(0, len(status)-1).Draw(t, "hscut")]
		case "random":
			status = rapid.SliceOfN(rapid.Byte(), 0, 100).Draw(t, "hsrnd")
			mustReject = false
		case "wrong-code":
			hsCode = rapid.SampledFrom(allCodes[1:]).Draw(t, "hscode")
		}
		writeInflight(subCase{"subproto-status", hsCode, hsClass, uint32(len(status)), hex.EncodeToString(status)})
		var out string
		var runErr error
		var pn interface{}
		if hsClass == "oversize" {
			out, runErr, pn = s.await(func(m recvMsg) bool { return m.code == cStatus }, nil, 10*time.Second)
			if out == "matched" {
				s.sendSync(cStatus, nil, subMaxMsg+1+uint32(rapid.IntRange(0, 1<<20).Draw(t, "over")))
			}
		} else {
			out, runErr, pn = s.handshake(status, hsCode)
		}
		if pn != nil {
			fail("Run panicked during the status handshake (%s): %v", hsClass, pn)
		}
		if out == "timeout" {
			fail("node sent no status message")
		}
		labels := []string{"status:" + hsClass}
		var seen []recvMsg
		if out != "ended" {
			out, runErr, pn = s.probe(&seen)
		}
		switch out {
		case "panicked":
			fail("Run panicked after status (%s): %v", hsClass, pn)
		case "timeout":
			fail("handler neither dropped the peer nor serves it after status (%s) %x", hsClass, status)
		case "ended":
			if runErr == nil {
				fail("Run returned nil after status (%s)", hsClass)
			}
			if hsClass == "ok" {
				fail("valid status handshake refused: %v", runErr)
			}
			ev.Case(true, append([]byte("status|"+hsClass+"|"), status...), append(labels, "status-rejected")...)
			return
		case "matched":
			if mustReject {
				fail("peer with an invalid status (%s) is being served: %x", hsClass, status)
			}
			labels = append(labels, "status-accepted")
		}

		// ---- message sequence ----
		nmsg := rapid.IntRange(1, 6).Draw(t, "nmsg")
		canon := []byte("sub|")
		var announced []common.Hash
	msgs:
		for i := 0; i < nmsg; i++ {
			code := rapid.SampledFrom(codePool).Draw(t, "code")
			class := rapid.SampledFrom(subClasses).Draw(t, "class")
			// (a value in the middle of the range: rapid favours the ends)
			if rapid.IntRange(0, ev.Pick(250, 80)).Draw(t, "fetchsel") == 17 {
				class, code = "announce-fetch", cNewBlockHashes
			}
			valid, aux := sn.validMessage(t, code, s)
			payload := refrlp.Encode(valid)
			lazy := uint32(0)
			switch class {
			case "field-mutated":
				idx := rapid.IntRange(0, countLeaves(valid)-1).Draw(t, "node")
				kind, f := drawFieldMutation(t)
				payload = refrlp.Encode(mutateNode(valid, &idx, f))
				labels = append(labels, "mut:"+kind)
				aux = nil
			case "truncated":
				if len(payload) > 0 {
					payload = payload[:rapid.IntRange(0, min(64, len(payload)-1)).Draw(t, "cut")]
				}
				aux = nil
			case "random":
				payload = rapid.SliceOfN(rapid.Byte(), 0, 120).Draw(t, "rnd")
				aux = nil
			case "nested":
				payload = drawNested(t)
				aux = nil
			case "trailing":
				payload = append(payload, rapid.SliceOfN(rapid.Byte(), 1, 8).Draw(t, "trail")...)
				aux = nil
			case "announce-fetch":
				hash, num, hp, bp, kind := sn.drawVariant(t)
				s.mu.Lock()
				s.answers[string(hash.Bytes())] = [2][]byte{hp, bp}
				s.mu.Unlock()
				payload = refrlp.Encode(refrlp.L(refrlp.L(refrlp.B(hash.Bytes()), refrlp.U(num))))
				announced = append(announced, hash)
				labels = append(labels, "fetch:"+kind)
				aux = nil
			case "oversize":
				lazy = subMaxMsg + uint32(rapid.SampledFrom([]int{1, 2, 1 << 20, 1<<24 - 1 - subMaxMsg, 1<<32 - 1 - subMaxMsg}).Draw(t, "over"))
				aux = nil
			}
			size := uint32(len(payload))
			if lazy > 0 {
				size = lazy
				payload = nil
			}
			writeInflight(subCase{"subproto", code, class, size, hex.EncodeToString(payload[:min(len(payload), 8192)])})
			seen = seen[:0]
			alloc := memDelta(func() {
				if !s.sendSync(code, payload, lazy) {
					out = "timeout"
					return
				}
				out, runErr, pn = s.probe(&seen)
			})
			canon = append(canon, fmt.Sprintf("%x:%s:%x;", code, class, refmpt.Keccak(payload)[:4])...)
			labels = append(labels, fmt.Sprintf("code:%#02x", code), "class:"+class)
			switch out {
			case "panicked":
				fail("Run panicked on code %#x (%s) payload %x: %v", code, class, payload, pn)
			case "timeout":
				fail("handler wedged: neither dropped the peer nor answers after code %#x (%s) payload %x", code, class, payload)
			}
			bound := allocBoundSub(len(payload))
			if lazy > 0 {
				bound = allocSmall // must be refused before it is read
			}
			if alloc > bound {
				// block imports and syncs started by earlier messages run on the node's own
				// goroutines: believe the excess only if the process is otherwise quiet
				if backgroundNoisy() {
					labels = append(labels, "alloc-noise-skipped")
				} else {
					fail("handling code %#x (%s, %d bytes) allocated %d bytes", code, class, size, alloc)
				}
			}
			if out == "ended" {
				if runErr == nil {
					fail("Run returned nil after code %#x (%s)", code, class)
				}
				if class == "valid" && code != cStatus && code <= cReceipts && (code <= cNewBlock || code >= cGetNodeData) {
					fail("peer dropped for a well-formed message code %#x %x: %v", code, payload, runErr)
				}
				labels = append(labels, "dropped")
				break msgs
			}
			// still serving
			if lazy > 0 {
				fail("message of declared size %d (> 10 MiB) was accepted (code %#x)", lazy, code)
			}
			labels = append(labels, "served")
			if aux != nil {
				if l := sn.checkResponse(fail, code, aux, seen); l != "" {
					labels = append(labels, l)
				}
			}
		}
		// let the fetcher pull the announced blocks from this peer (it asks ~400 ms after the
		// announcement) and import or refuse them while this session is the in-flight case
		if len(announced) > 0 && out != "ended" {
			deadline := time.Now().Add(1500 * time.Millisecond)
			served := false
			for time.Now().Before(deadline) {
				o, _, p := s.await(func(m recvMsg) bool { return m.code == cGetBodies }, nil, 100*time.Millisecond)
				if o == "panicked" {
					fail("Run panicked while the fetcher was pulling an announced block: %v", p)
				}
				if o == "ended" {
					break
				}
				if o == "matched" {
					served = true
					time.Sleep(150 * time.Millisecond)
					break
				}
				if atomic.LoadInt64(&s.bodiesServed) > 0 {
					served = true
					time.Sleep(150 * time.Millisecond)
					break
				}
			}
			if served {
				labels = append(labels, "fetch:body-served")
			}
			if o, _, p := s.probe(nil); o == "panicked" || o == "timeout" {
				fail("handler %s after an announce/fetch exchange: %v", o, p)
			}
		}
		ev.Case(true, canon, labels...)
		ev.Sample(map[string]interface{}{"kind": "subproto-session", "status": hsClass, "trace": string(canon)})
	})
}

// runSubCase opens a session with a valid status handshake, sends one message
// and checks the handler either dropped the peer or still serves.
func runSubCase(fail func(string, ...interface{}), c subCase) {
	sn := getSubNode()
	payload, err := hex.DecodeString(c.Payload)
	if err != nil {
		fail("bad hex in case: %v", err)
		return
	}
	var id discover.NodeID
	binary.BigEndian.PutUint64(id[:8], atomic.AddUint64(&peerSeq, 1))
	s := newSession(sn, 0, id)
	defer s.close()
	if c.Layer == "subproto-status" {
		out, _, pn := s.handshake(payload, c.Code)
		if pn != nil || out == "timeout" {
			fail("status handshake: %s %v", out, pn)
			return
		}
	} else {
		if out, _, pn := s.handshake(refrlp.Encode(sn.statusItem(s.version)), cStatus); out != "sent" {
			fail("valid status handshake failed: %s %v", out, pn)
			return
		}
		lazy := uint32(0)
		if int(c.Size) > len(payload) {
			lazy = c.Size
		}
		writeInflight(c)
		if !s.sendSync(c.Code, payload, lazy) {
			fail("handler did not consume the message (code %#x)", c.Code)
			return
		}
	}
	out, runErr, pn := s.probe(nil)
	switch {
	case out == "panicked":
		fail("Run panicked on code %#x payload %s: %v", c.Code, c.Payload, pn)
	case out == "timeout":
		fail("handler wedged after code %#x payload %s", c.Code, c.Payload)
	case out == "ended" && runErr == nil:
		fail("Run returned nil after code %#x", c.Code)
	}
}

func FuzzSubproto(f *testing.F) {
	sn := getSubNode()
	f.Add(byte(3), refrlp.Encode(refrlp.L(refrlp.U(0), refrlp.U(3), refrlp.U(0), refrlp.U(0))))
	f.Add(byte(5), refrlp.Encode(refrlp.L(refrlp.B(sn.blocks[1].Hash().Bytes()))))
	f.Add(byte(7), refrlp.Encode(refrlp.L(encItem(sn.next), refrlp.U(1))))
	f.Add(byte(4), refrlp.Encode(refrlp.L(encItem(sn.blocks[2].Header()))))
	f.Add(byte(6), refrlp.Encode(refrlp.L(refrlp.L(encItem(sn.blocks[3].Transactions()), encItem(sn.blocks[3].Uncles())))))
	f.Add(byte(2), refrlp.Encode(refrlp.L(encItem(sn.blocks[1].Transactions()[0]))))
	f.Add(byte(1), refrlp.Encode(refrlp.L(refrlp.L(refrlp.B(sn.blocks[1].Hash().Bytes()), refrlp.U(1)))))
	f.Add(byte(0x0d), refrlp.Encode(refrlp.L(refrlp.B(sn.blocks[1].Root().Bytes()))))
	f.Add(byte(0x10), []byte{0xc1, 0xc0})
	f.Add(byte(0x0e), []byte{0xc0})
	f.Fuzz(func(t *testing.T, code byte, payload []byte) {
		if len(payload) > 1<<16 {
			return
		}
		runSubCase(func(f string, a ...interface{}) { t.Fatalf(f, a...) },
			subCase{Layer: "subproto", Code: uint64(code % 0x12), Class: "fuzz", Size: uint32(len(payload)), Payload: hex.EncodeToString(payload)})
	})
}

// patternReader streams head followed by elem repeated count times.
type patternReader struct {
	head, elem []byte
	count      int
	pos        int
}

func (p *patternReader) size() int { return len(p.head) + p.count*len(p.elem) }

func (p *patternReader) Read(b []byte) (int, error) {
	n := 0
	for n < len(b) {
		if p.pos >= p.size() {
			if n == 0 {
				return 0, io.EOF
			}
			return n, nil
		}
		if p.pos < len(p.head) {
			c := copy(b[n:], p.head[p.pos:])
			n += c
			p.pos += c
			continue
		}
		off := (p.pos - len(p.head)) % len(p.elem)
		c := copy(b[n:], p.elem[off:])
		n += c
		p.pos += c
	}
	return n, nil
}

// listOf builds a streaming RLP list of count copies of elem.
func listOf(elem []byte, count int) *patternReader {
	n := count * len(elem)
	head := []byte{0xfa, byte(n >> 16), byte(n >> 8), byte(n)}
	if n >= 1<<24 {
		head = []byte{0xfb, byte(n >> 24), byte(n >> 16), byte(n >> 8), byte(n)}
	}
	return &patternReader{head: head, elem: elem, count: count}
}

const keyAmplify = "subproto/small-element-amplification"

// allocBoundSub: 1 MiB for inputs below 1 KiB; otherwise 4 x the 10 MiB message
// limit, or 8 x the bytes really received if that is more.
func allocBoundSub(n int) uint64 {
	if n < 1024 {
		return allocSmall
	}
	if b := uint64(8 * n); b > allocSubLarge {
		return b
	}
	return allocSubLarge
}

type sizeShape struct {
	name    string
	code    uint64
	elem    []byte
	amplify bool // a reply made of empty elements: the shape of the listed finding
}

var sizeShapes = []sizeShape{
	{"nodedata-64B-blobs", cNodeData, append([]byte{0xb8, 0x40}, bytes.Repeat([]byte{0xab}, 64)...), false},
	{"getnodedata-hashes", cGetNodeData, append([]byte{0xa0}, bytes.Repeat([]byte{0xcd}, 32)...), false},
	{"getbodies-hashes", cGetBodies, append([]byte{0xa0}, bytes.Repeat([]byte{0xcd}, 32)...), false},
	{"receipts-empty-lists", cReceipts, []byte{0xc0}, true},
	{"bodies-empty", cBodies, []byte{0xc2, 0xc0, 0xc0}, true},
	{"nodedata-empty-blobs", cNodeData, []byte{0x80}, true},
}

// sendShaped opens a session, sends count copies of elem as one list message
// and reports (outcome of the liveness probe, Run's error, panic, bytes allocated, message size).
func sendShaped(t *testing.T, sn *subNode, sh sizeShape, count int) (out string, runErr error, pn interface{}, alloc uint64, size int) {
	pr := listOf(sh.elem, count)
	size = pr.size()
	var id discover.NodeID
	binary.BigEndian.PutUint64(id[:8], atomic.AddUint64(&peerSeq, 1))
	s := newSession(sn, 0, id)
	defer s.close()
	if out, _, pn := s.handshake(refrlp.Encode(sn.statusItem(s.version)), cStatus); out != "sent" {
		t.Fatalf("valid status handshake failed: %s %v", out, pn)
	}
	if out, _, _ := s.probe(nil); out != "matched" {
		t.Fatalf("fresh session does not serve: %s", out)
	}
	writeInflight(subCase{"subproto-size", sh.code, sh.name, uint32(size), ""})
	alloc = memDelta(func() {
		done := make(chan struct{})
		go func() {
			s.app.WriteMsg(p2p.Msg{Code: sh.code, Size: uint32(size), Payload: pr})
			close(done)
		}()
		select {
		case <-done:
		case <-time.After(120 * time.Second):
			out = "timeout"
			return
		}
		out, runErr, pn = s.probe(nil)
	})
	return
}

// TestSubprotoSizeLimit sends well-formed messages made of very many small
// elements: just above the 10 MiB limit (must be refused without being read),
// and within it (must be handled without crashing, wedging or allocating out
// of proportion to what was received).
func TestSubprotoSizeLimit(t *testing.T) {
	sn := getSubNode()
	fail := failer(t)
	judge := func(sh sizeShape, over bool, out string, runErr error, pn interface{}, alloc uint64, size int) {
		switch {
		case out == "panicked":
			fail("Run panicked on %s (%d bytes): %v", sh.name, size, pn)
		case out == "timeout":
			fail("handler wedged on %s (%d bytes)", sh.name, size)
		case over && out != "ended":
			fail("well-formed %s message of %d bytes (> 10 MiB) was accepted", sh.name, size)
		case over && alloc > allocSmall && !backgroundNoisy():
			fail("refusing a %d-byte %s message allocated %d bytes", size, sh.name, alloc)
		case out == "ended" && runErr == nil:
			fail("Run returned nil")
		}
	}
	// the fixed witness of the listed finding: 1 MiB of empty lists as a Receipts reply
	{
		sh := sizeShapes[3]
		out, runErr, pn, alloc, size := sendShaped(t, sn, sh, 1<<20)
		judge(sh, false, out, runErr, pn, alloc, size)
		if alloc > allocBoundSub(size) {
			if ev.Known(keyAmplify) {
				ev.KnownFinding(keyAmplify)
			} else if !backgroundNoisy() {
				ev.SaveCase("TestSubprotoSizeLimit", subCase{"subproto-size", sh.code, sh.name, uint32(size), ""})
				fail("a %d-byte Receipts message made of empty lists made the handler allocate %d bytes", size, alloc)
			}
		}
		ev.Add("alloc_MiB_for_1MiB_"+sh.name, int64(alloc>>20))
		ev.Case(true, []byte("sizelimit|witness"), "sizelimit:amplification-witness")
	}
	for _, sh := range sizeShapes {
		// above the limit
		count := (subMaxMsg + 1 + len(sh.elem)) / len(sh.elem)
		out, runErr, pn, alloc, size := sendShaped(t, sn, sh, count)
		if size <= subMaxMsg {
			t.Fatalf("harness: size %d", size)
		}
		judge(sh, true, out, runErr, pn, alloc, size)
		ev.Case(true, []byte("sizelimit|over|"+sh.name), "sizelimit:over-refused", "class:oversize")

		// within the limit
		if sh.amplify {
			if ev.Known(keyAmplify) {
				ev.Excluded(keyAmplify)
				continue
			}
			if !ev.Thorough() || ev.Shard() != 0 {
				count = (1 << 20) / len(sh.elem) // quick: 1 MiB instead of 10
			} else {
				count = (subMaxMsg - 8) / len(sh.elem)
			}
		} else {
			if !ev.Thorough() && sh.name != "nodedata-64B-blobs" {
				continue
			}
			count = (subMaxMsg - 8) / len(sh.elem)
		}
		out, runErr, pn, alloc, size = sendShaped(t, sn, sh, count)
		judge(sh, false, out, runErr, pn, alloc, size)
		if alloc > allocBoundSub(size) && !backgroundNoisy() {
			fail("a %d-byte %s message made the handler allocate %d bytes", size, sh.name, alloc)
		}
		ev.Add("alloc_MiB_"+sh.name, int64(alloc>>20))
		ev.Case(true, []byte("sizelimit|under|"+sh.name), "sizelimit:under")
	}
}
