package c17

// An in-memory, buffered, full-duplex byte link with two net.Conn ends, made
// for adversarial tests of stream protocols:
//
//   - writes never block (unbounded buffer), so a framed exchange can be driven
//     from a single goroutine and buffered bytes can be tampered with in place
//     between a write and the matching read;
//   - deadlines are virtual: when every party that is still running is blocked
//     in Read on an empty buffer, nobody can ever make progress, and all of them
//     get an i/o timeout at once (what the real deadlines would deliver, without
//     waiting for them).

import (
	"errors"
	"io"
	"net"
	"sync"
	"time"
)

type timeoutErr struct{}

func (timeoutErr) Error() string   { return "i/o timeout (virtual deadline)" }
func (timeoutErr) Timeout() bool   { return true }
func (timeoutErr) Temporary() bool { return true }

type stream struct {
	buf     []byte
	written int64 // bytes accepted from the writer so far
	nwrites int
	eof     bool
	// onWrite, if set, may replace the bytes of the n-th Write call (n from 0)
	onWrite func(n int, p []byte) []byte
}

type link struct {
	mu      sync.Mutex
	cond    *sync.Cond
	dir     [2]*stream // dir[i] carries bytes written by end i
	parties int        // goroutines that may still read or write
	waiting [2]int     // readers waiting on dir[i]
	gen     int // bumped when a deadlock is declared
	closed  bool
}

type endConn struct {
	l  *link
	me int
}

func newLink(parties int) (*link, *endConn, *endConn) {
	l := &link{dir: [2]*stream{{}, {}}, parties: parties}
	l.cond = sync.NewCond(&l.mu)
	return l, &endConn{l, 0}, &endConn{l, 1}
}

// setParties declares how many goroutines are driving the link from now on.
func (l *link) setParties(n int) {
	l.mu.Lock()
	l.parties = n
	l.checkDeadlock()
	l.mu.Unlock()
}

// partyDone says one driving goroutine has finished.
func (l *link) partyDone() {
	l.mu.Lock()
	l.parties--
	l.checkDeadlock()
	l.mu.Unlock()
}

// stuck counts waiting readers that have nothing to wake up for.
func (l *link) stuck() int {
	n := 0
	for i, s := range l.dir {
		if len(s.buf) == 0 && !s.eof && !l.closed {
			n += l.waiting[i]
		}
	}
	return n
}

func (l *link) checkDeadlock() {
	if n := l.stuck(); n > 0 && n >= l.parties {
		l.gen++
		l.cond.Broadcast()
	}
}

func (l *link) closeAll() {
	l.mu.Lock()
	l.closed = true
	l.cond.Broadcast()
	l.mu.Unlock()
}

func (c *endConn) Read(p []byte) (int, error) {
	l := c.l
	s := l.dir[1-c.me]
	l.mu.Lock()
	defer l.mu.Unlock()
	if len(p) == 0 {
		return 0, nil
	}
	for {
		if len(s.buf) > 0 {
			n := copy(p, s.buf)
			s.buf = s.buf[n:]
			return n, nil
		}
		if l.closed {
			return 0, io.ErrClosedPipe
		}
		if s.eof {
			return 0, io.EOF
		}
		if l.stuck()+1 >= l.parties {
			l.gen++
			l.cond.Broadcast()
			return 0, timeoutErr{}
		}
		gen := l.gen
		l.waiting[1-c.me]++
		l.cond.Wait()
		l.waiting[1-c.me]--
		if l.gen != gen && len(s.buf) == 0 && !s.eof {
			return 0, timeoutErr{}
		}
	}
}

func (c *endConn) Write(p []byte) (int, error) {
	l := c.l
	s := l.dir[c.me]
	l.mu.Lock()
	defer l.mu.Unlock()
	if l.closed {
		return 0, io.ErrClosedPipe
	}
	if s.eof {
		return 0, errors.New("write after shutdown")
	}
	q := p
	if s.onWrite != nil {
		q = s.onWrite(s.nwrites, append([]byte{}, p...))
	}
	s.nwrites++
	s.buf = append(s.buf, q...)
	s.written += int64(len(q))
	l.cond.Broadcast()
	return len(p), nil
}

// shutdownWrite makes the peer's reads return EOF once the buffer is drained.
func (c *endConn) shutdownWrite() {
	c.l.mu.Lock()
	c.l.dir[c.me].eof = true
	c.l.cond.Broadcast()
	c.l.mu.Unlock()
}

// pending returns the bytes written by this end that the peer has not read yet
// (the live buffer: the caller may modify it in place or replace it with setPending).
func (c *endConn) pending() []byte {
	c.l.mu.Lock()
	defer c.l.mu.Unlock()
	return c.l.dir[c.me].buf
}

func (c *endConn) setPending(b []byte) {
	c.l.mu.Lock()
	c.l.dir[c.me].buf = b
	c.l.mu.Unlock()
}

func (c *endConn) Close() error                       { c.l.closeAll(); return nil }
func (c *endConn) LocalAddr() net.Addr                { return &net.TCPAddr{IP: net.IPv4(127, 0, 0, 1), Port: 1000 + c.me} }
func (c *endConn) RemoteAddr() net.Addr               { return &net.TCPAddr{IP: net.IPv4(127, 0, 0, 1), Port: 1001 - c.me} }
func (c *endConn) SetDeadline(t time.Time) error      { return nil }
func (c *endConn) SetReadDeadline(t time.Time) error  { return nil }
func (c *endConn) SetWriteDeadline(t time.Time) error { return nil }
