// C17 — Network input is authenticated or rejected, and never fatal.
//
// Four layers, each with round-trip / tamper-detection / totality /
// allocation-bound oracles:
//
//	discv4_test.go    discovery datagrams (decodePacket, handlePacket on a live table)
//	rlpx_test.go      RLPx encryption handshake and framing over an in-memory, tamperable stream
//	subproto_test.go  aqua sub-protocol messages into ProtocolManager.SubProtocols[i].Run
//	server_test.go    p2p.Server as the connection handler: rejected / dying inbound connections, base-protocol messages, Stop
//	stall_test.go     p2p.Server: sessions that end while the node's writes to them are blocked (remote stopped reading, keep-alive ping due)
package c17

import (
	"encoding/json"
	"fmt"
	"os"
	"runtime"
	"sync/atomic"
	"testing"
	"time"

	"verifharness/ev"
	"verifharness/gen"
)

func TestMain(m *testing.M) {
	gen.Quiet()
	ev.MustHit(
		// layer 1: every packet type accepted in both modes, every tamper region, the semantic outcomes
		"accepted:PING/v4", "accepted:PONG/v4", "accepted:FINDNODE/v4", "accepted:NEIGHBORS/v4",
		"mode:aqua", "mode:netcompat", "signed-but-short", "outer-auth-ok", "outer-auth-fails",
		"mutated:hash", "mutated:sig", "mutated:type", "mutated:payload", "rehashed-tamper",
		"live:PING/v4", "pong-verified", "findnode-served", "findnode-refused-unbonded", "unsolicited-reply-refused",
		"expired:PING/v4", "expired:FINDNODE/v4", "class:truncate-every", "class:nested-resigned", "class:random-resigned",
		// layer 2
		"hs:ok", "payload-consumed-after-next-read", "hs:rejected", "delivered", "snappy:on", "snappy:off", "scenario:wrong-dial", "scenario:tamper-handshake",
		"tamper:header", "tamper:header-mac", "tamper:frame", "tamper:frame-mac", "tamper-detected",
		"tamper-kind:flip", "tamper-kind:drop", "tamper-kind:insert", "snappy-bomb",
		"size:0", "size:<16", "size:16-17", "size:<=1KiB", "size:<=64KiB",
		"hsbytes:to-receiver", "hsbytes:to-initiator", "hsbytes:eip8-garbage", "hsbytes:eip8-rlp", "hsbytes:plain-garbage",
		"hsbytes:prefix-underflow", "hsbytes:prefix-huge", "hsbytes:rejected",
		// layer 3: every message code, every payload class, both outcomes, answered requests
		"code:0x00", "code:0x01", "code:0x02", "code:0x03", "code:0x04", "code:0x05", "code:0x06", "code:0x07", "code:0x08",
		"code:0x09", "code:0x0a", "code:0x0b", "code:0x0c", "code:0x0d", "code:0x0e", "code:0x0f", "code:0x10",
		"class:valid", "class:field-mutated", "class:truncated", "class:random", "class:nested", "class:oversize", "class:trailing",
		"class:announce-fetch", "fetch:body-served", "served", "dropped", "status-accepted", "status-rejected",
		"status:wrong-network", "status:wrong-genesis", "status:wrong-version", "status:oversize",
		"headers-exact", "bodies-exact", "nodedata-preimages", "receipts-answered",
	)
	ev.MustHit(
		// layer 2, round 3: delivered payloads held across several later reads on the same connection
		"held-across:1", "held-across:2", "held-across:3", "held-across:4",
		// layer 4: p2p.Server as the connection handler
		"srv:legit-after-1+offenders", "srv:offenders>=slots", "srv:netrestrict", "srv:offender-outside-netrestrict",
		"srv:offender-lingers", "srv:offender-queued-behind-full-slots", "srv:legit-after-session", "srv:stop-returned",
		"srv:offender:connect-close", "srv:offender:attacker-auth", "srv:offender:truncated-auth", "srv:offender:silent",
		"srv:offender:hs-close", "srv:offender:hs-disc", "srv:offender:hs-wrong-id", "srv:offender:hs-zero-id", "srv:offender:hs-no-caps",
		"srv:offender:hs-garbage", "srv:offender:hs-wrong-code", "srv:offender:hs-too-big", "srv:offender:hs-short-id", "srv:offender:peer-drop",
		"srv:session-stays-served", "srv:session-closed-by-node", "srv:base:ping", "srv:base:pong", "srv:base:other-code",
		"srv:code-outside-protocols", "srv:disc:list1", "srv:disc-reason:0-16", "srv:disc-reason:18..2^63-1", "srv:disc-reason:undecodable",
		"srv:hs-disc-reason:0-16", "srv:hs-disc-reason:18..2^63-1", "srv:disc-enumerated",
		"srv:read-loop-frame-while-handler-holds", "srv:frames-while-handler-holds:2", "srv:peer-snappy:false", "srv:peer-snappy:true", "srv:log-formats-all",
	)
	ev.MustHit(
		// layer 4b: sessions that end while the node's write to them (and its keep-alive ping behind it) is blocked
		"stall:teardown-while-write-and-ping-blocked", "stall:node-write-blocked", "stall:end-past-ping",
		"stall:peer-forgotten", "stall:same-identity-served-again", "stall:stop-returned",
	)
	ev.MustHitThorough("size:>64KiB", "size:~16MiB", "write-refused-too-large", "fetch:valid-block-imported")
	ev.Main(m, ev.Config{
		Property: "C17",
		Level:    "exploration",
		Rule: "four layers. (1) discv4: one case = one datagram (<=1280 B) handed to decodePacket and to handlePacket of a live table (aqua and netcompat mode) as coming from one of 6 attacker keys (3 bonded with the table); " +
			"classes: valid packets of the 4 types built by an independent encoder (refrlp + btcec + keccak), one-byte mutations in hash/sig/type/payload, re-hashed signature tampering, and correctly hashed+signed bodies that are mutated / truncated (also every length, enumerated) / random / deeply nested / length bombs / 1-6 bytes short / of unknown type / of the other mode, plus raw bytes; " +
			"non-trivial = the datagram passes the reference's hash+signature check, i.e. reaches payload decoding; distinct by mode + signed body. " +
			"(2) RLPx: one case = one session over an in-memory link: generated key pairs, encryption handshake, 1-8 messages (codes 0..2^64-1, sizes 0..64 KiB quick / ..16 MiB-1 thorough, snappy on/off, both directions), " +
			"with one of: nothing / one byte flipped, dropped or inserted at a generated position of one frame (header, header MAC, body, frame MAC) / one byte of a handshake packet tampered / a dial to the wrong identity / a hostile snappy length; " +
			"plus attacker-chosen bytes presented as auth or auth-response packet (random, size-prefix edge cases, correctly ECIES-sealed garbage and hostile RLP); every session is non-trivial; distinct by scenario, keys and message trace. " +
			"a delivered message whose payload the reader has not consumed yet is held across 1-4 later reads on the same connection (frames come in runs of one direction, small and large mixed) and must then still be what was written; " +
			"(3) sub-protocol: one case = one peer session on a ProtocolManager with a 9-block chain: status handshake (valid or 8 invalid kinds) then 1-6 messages over all codes 0x00-0x10 from {valid, one field mutated (13 mutations), truncated <=64, random, nested/bombs, trailing bytes, declared size > 10 MiB}, " +
			"and announce/fetch exchanges in which the peer serves spoiled headers, uncles and bodies to the block fetcher; after every message the peer is either dropped with an error or a liveness probe is answered; every session is non-trivial; distinct by message trace. " +
			"(4) p2p.Server: one case = one real Server on 127.0.0.1:0 (real listener, real RLPx transport; 1/2/3/5 handshake slots, with or without NetRestrict=127.0.0.1/32, with or without a logger that formats every record) and, in order: " +
			"0-12 inbound connections that are rejected or die early, from 127.0.0.1 / 127.0.0.2 / 127.0.0.77 (connect-and-close, silent, attacker bytes as auth packet incl. correctly ECIES-sealed ones, a real auth packet cut at a generated length, a completed encryption handshake followed by close / a disconnect message / a handshake with a wrong, zero or short id / without a matching capability / garbage / another code / more than 2 KiB, a complete peer that drops dead; some stay open while later ones arrive, also more than there are slots); " +
			"then a legitimate peer (devp2p v4 / v5+snappy, any name, extra capabilities and fields) that must get both handshakes and a sub-protocol message echoed; then 0-8 messages on its session from {sub-protocol message 0 B-64 KiB which the node's handler keeps unconsumed for up to 0-3 further messages, ping, pong, other base-protocol codes with any payload up to 64 KiB, disconnect with reasons 0..2^64-1 in regular and 10 malformed encodings, a code outside every protocol} plus up to 2 frames behind a final one; " +
			"every message the node's handler consumed is echoed with its declared size and must equal what was written (in order), the connection always ends up either served (its last message echoed) or closed by the node and never silent, a session of nothing but sub-protocol messages and canonical pings / pongs must be served (other base-protocol traffic may be rejected by closing; pongs are counted, not demanded), a session that was ended is closed by the node; then a second legitimate peer must be served and Server.Stop must return; " +
			"(4b) teardown under blocked writes: one case = one real Server (1/2/3/5 handshake slots, logger formatting or not) and 4-8 legitimate peers over loopback TCP (receive buffer 4 KiB) that connect and run CONCURRENTLY; each is served, then asks for an echo of 1/3/6/8 MiB (more than the kernel buffers between the two ends hold: observed per session in /proc/net/tcp) or stays idle, sends 0-20 pings behind it and never reads again, " +
			"waits 0-14 s (before the node's first keep-alive ping, due 15 s after the peer started) or 15.3-16.5 s (the ping is due and waits behind the blocked write), then ends the session by one of {a correctly sealed frame with one bit flipped / one byte missing at a generated position, raw garbage, a disconnect message (regular and malformed reasons), a code outside every protocol, a half-close, nothing} and drops the connection 0-1 s later; " +
			"required: the server forgets the peer (Server.Peers) within 30 s of the drop, the SAME identity then connects again and is served, afterwards a fresh peer is served and Server.Stop returns; every case has at least one session whose end falls while the node's write and ping are blocked; distinct by the sessions' parameters; " +
			"plus, enumerated, the regular disconnect message for 32 reason values (all defined ones, 16/17/18, byte/word edges, 2^63, 2^64-1) before the protocol handshake and from a running peer; every case is non-trivial; distinct by the trace of connections and messages",
		Assumptions: []string{
			"the reference envelope codec (harness/c17/refdisc.go: btcec signatures, x/crypto keccak, refrlp) is a correct reading of the discv4 wire format; it shares no code with p2p/discover, crypto or rlp",
			"expiration is judged with a 30 s margin around the wall clock (the code under test reads the clock)",
			"allocation is TotalAlloc (process-wide) around one input, re-measured once before it is believed; bounds: 1 MiB for every datagram and every input < 1 KiB, 4 x 16 MiB per RLPx frame, 4 x 10 MiB per sub-protocol message; judged up to and including the first failing read of a connection, because the node stops reading a connection at the first error",
			"RLPx: both ends are the implementation under test (round trip and tamper detection are inverse/metamorphic oracles, frame lengths are checked against the format); ECIES from crypto/ecies is used only as the attacker's tool for sealing hostile handshake packets",
			"the in-memory link delivers an i/o timeout as soon as every running party is blocked on an empty buffer (virtual deadlines instead of the 5 s / 30 s real ones)",
			"sub-protocol messages travel over p2p.MsgPipe with Size equal to the real payload length (as RLPx framing guarantees); a declared size > 10 MiB is backed by a lazy reader of that many bytes",
			"a panic in a goroutine owned by the node (fetcher, downloader, tx pool, discovery loops) kills the test process; the case in flight is in the file 'inflight' of the working directory and the driver reports the crash log",
			"p2p.Server cases use real loopback TCP: a step that takes milliseconds (the node answering an auth packet or a protocol handshake, echoing a message, closing a connection it has given up, Stop returning) is a violation only when it has not happened after 20 s; connections that the generator leaves open are closed before a step that needs an answer when they could occupy every slot (otherwise the node's own 5 s handshake timeout would be waited for; that is generated in the thorough tier only, with at most as many stalled connections as slots)",
			"teardown cases (4b): the remote always drops its connection (with unread data, i.e. a reset) at most 1 s after it ended the session, so every blocked write of the node fails at once and the 30 s bound is generous; a remote that ends a session but keeps the socket open without reading is NOT generated (the node then waits for its own 20 s frameWriteTimeout once per queued write; the statement sets no bound for that); the waits of 0-16.5 s only aim at an interleaving and decide nothing; whether the node's write was really blocked is read from /proc/net/tcp (bytes in the kernel < size of the echo) and only sets labels",
		"the sub-protocol the test Server runs is an echo handler written like the node's own handlers (reads from rw, consumes every payload completely); message code k lets it go back to ReadMsg with up to k earlier messages not yet consumed, the deterministic stand-in for a handler that is still busy with a message while Peer.readLoop reads the following frames",
			"a panic in a goroutine of the Server (listenLoop, SetupConn, run, runPeer, Peer.readLoop) kills the test process and is reported by the driver as a crash; the listed finding p2p/disc-reason-out-of-table is stepped around exactly: a disconnect payload whose first list element is a canonical integer equal to 17 or >= 2^63",
			"GetBlockHeaders answers are compared with a reference traversal only where the handler's arithmetic does not wrap (skip < 2^62, amount < 2^63) and below the harness-built stable head; beyond that only authenticity (every header is one this harness built) is demanded",
		},
	})
}

// ---------- shared helpers ----------

var failPrints int32

const allocSmall = 1 << 20 // inputs below 1 KiB (and every <=1280-byte datagram): at most 1 MiB allocated while handling

func memDelta(f func()) uint64 {
	var a, b runtime.MemStats
	runtime.ReadMemStats(&a)
	f()
	runtime.ReadMemStats(&b)
	return b.TotalAlloc - a.TotalAlloc
}

// backgroundNoisy reports whether the process allocates noticeably while the
// harness is idle (TotalAlloc is process-wide): used to tell an allocation
// excess caused by the input from one caused by unrelated goroutines.
func backgroundNoisy() bool {
	return memDelta(func() { time.Sleep(50 * time.Millisecond) }) > 128<<10
}

func failer(t interface {
	Fatalf(string, ...interface{})
}) func(string, ...interface{}) {
	return func(f string, a ...interface{}) {
		// rapid hides the message of a failure it cannot reproduce; keep the first few on stderr
		if atomic.AddInt32(&failPrints, 1) <= 5 {
			msg := fmt.Sprintf(f, a...)
			if len(msg) > 2000 {
				msg = msg[:2000] + "..."
			}
			fmt.Fprintln(os.Stderr, "C17 FAIL:", msg)
		}
		t.Fatalf(f, a...)
	}
}

// TestReplay re-runs one saved JSON case (VERIF_REPLAY) without rapid.
func TestReplay(t *testing.T) {
	p := ev.ReplayPath()
	if p == "" {
		t.Skip("no VERIF_REPLAY")
	}
	b, err := os.ReadFile(p)
	if err != nil {
		t.Fatal(err)
	}
	fail := func(f string, a ...interface{}) { t.Errorf(f, a...) }
	var probe map[string]json.RawMessage
	if err := json.Unmarshal(b, &probe); err != nil {
		t.Fatalf("replay file is not a JSON case: %v", err)
	}
	switch {
	case probe["datagram"] != nil:
		var c dgramCase
		json.Unmarshal(b, &c)
		runDgramCase(fail, c)
	case probe["layer"] != nil:
		var c subCase
		json.Unmarshal(b, &c)
		runSubCase(fail, c)
	case probe["disc_reason"] != nil:
		var c discReasonCase
		json.Unmarshal(b, &c)
		runDiscReasonCase(fail, c, 0)
	default:
		t.Fatalf("unknown case kind in %s", p)
	}
}
