package c08

// Call trees: the instructions of the computational subset must compute what
// the specification defines in EVERY frame of a transaction, not only in the
// top one, and what a frame's code does may depend only on that code, its
// input, its gas and its environment - never on which other code ran earlier
// in the same call tree (the interpreter keeps per-call-tree state: the
// JUMPDEST analysis cache handed from caller to callee, the integer pool, the
// return data buffer).
//
// Oracle: the real interpreter runs the whole tree once under a recording
// tracer; every frame it executed (code, input, gas, address, caller, value
// as the frame received them) is then evaluated on its own by the one-frame
// reference and compared step by step. Instructions outside the subset
// (CREATE, CALL*, SLOAD, ...) are not modelled: the reference takes the
// observed state right after them (gas, pushed word, memory; return data from
// the reference's own verdict on the child frame) and goes on, so the frame's
// instructions before and after a nested frame are all judged against a
// machine that knows nothing about the other frames.

import (
	"bytes"
	"fmt"
	"math/big"
	"sort"
	"strings"
	"testing"
	"time"

	"gitlab.com/aquachain/aquachain/aquadb"
	"gitlab.com/aquachain/aquachain/common"
	"gitlab.com/aquachain/aquachain/core/state"
	"gitlab.com/aquachain/aquachain/core/vm"
	"pgregory.net/rapid"
	"verifharness/c08/refevm"
	"verifharness/ev"
)

// ---------------------------------------------------------------- recording the real run

type rstep struct {
	PC        uint64
	Op        byte
	Gas, Cost uint64
	Stack     []*big.Int // the topmost stackWindow items (an instruction reaches no deeper than 17)
	Depth     int
	MemLen    int
	Mem       []byte // nil when not captured (longer than memSnapshotMax and not needed to resume the reference)
}

type rframe struct {
	id         int
	depth      int
	contract   *vm.Contract // identity of the frame while it runs
	parent     *rframe
	parentStep int // index of the parent's step that started this frame
	startOp    byte
	code       []byte
	input      []byte
	address    [20]byte
	caller     [20]byte
	value      *big.Int
	gas0       uint64
	steps      []rstep
	fault      *realEvent
	faultErr   error
	children   map[int]*rframe

	judged      bool
	ref         *refevm.Result
	problem     string
	resultKnown bool
}

const maxTreeSteps = 20_000

// stackWindow: how much of the stack is kept and compared per step in the
// call-tree legs. No instruction reads or moves anything below the 17th item,
// so a wrong word deeper down is seen as soon as it can matter.
const stackWindow = 17

type treeTracer struct {
	frames  []*rframe
	open    []*rframe
	nsteps  int
	tooBig  bool
	broken  string
	evmStop func()
}

func (tt *treeTracer) CaptureStart(from common.Address, to common.Address, call bool, input []byte, gas uint64, value *big.Int) error {
	return nil
}
func (tt *treeTracer) CaptureEnd(output []byte, gasUsed uint64, d time.Duration, err error) error {
	return nil
}

func (tt *treeTracer) frameFor(c *vm.Contract, depth int, gas uint64) *rframe {
	if depth < 1 {
		tt.broken = "depth < 1"
		return nil
	}
	for len(tt.open) > depth {
		tt.open = tt.open[:len(tt.open)-1]
	}
	if len(tt.open) == depth {
		if f := tt.open[depth-1]; f.contract == c {
			return f
		}
		tt.open = tt.open[:depth-1] // a sibling: the earlier frame at this depth has ended
	}
	if len(tt.open) != depth-1 {
		tt.broken = fmt.Sprintf("event at depth %d while %d frames are open", depth, len(tt.open))
		return nil
	}
	f := &rframe{id: len(tt.frames), depth: depth, contract: c, code: append([]byte(nil), c.Code...), input: append([]byte(nil), c.Input...),
		address: c.Address(), caller: c.Caller(), value: new(big.Int), gas0: gas, children: map[int]*rframe{}, parentStep: -1}
	if v := c.Value(); v != nil {
		f.value.Set(v)
	}
	if depth > 1 {
		p := tt.open[depth-2]
		f.parent, f.parentStep = p, len(p.steps)-1
		if f.parentStep < 0 {
			tt.broken = "nested frame whose caller executed nothing"
			return nil
		}
		f.startOp = p.steps[f.parentStep].Op
		if p.children[f.parentStep] != nil {
			tt.broken = "two nested frames started by one instruction"
			return nil
		}
		p.children[f.parentStep] = f
	}
	tt.frames = append(tt.frames, f)
	tt.open = append(tt.open, f)
	return f
}

func (tt *treeTracer) CaptureState(env *vm.EVM, pc uint64, op vm.OpCode, gas, cost uint64, memory *vm.Memory, stack *vm.Stack, contract *vm.Contract, depth int, err error) error {
	if tt.tooBig || tt.broken != "" {
		return nil
	}
	f := tt.frameFor(contract, depth, gas)
	if f == nil {
		return nil
	}
	if err != nil { // failed before the instruction was charged
		f.fault, f.faultErr = &realEvent{PC: pc, Op: byte(op), GasBefore: gas}, err
		return nil
	}
	tt.nsteps++
	if tt.nsteps > maxTreeSteps {
		tt.tooBig = true
		tt.evmStop()
		return nil
	}
	st := rstep{PC: pc, Op: byte(op), Gas: gas, Cost: cost, MemLen: memory.Len()}
	data := stack.Data()
	st.Depth = len(data)
	if len(data) > stackWindow {
		data = data[len(data)-stackWindow:]
	}
	st.Stack = make([]*big.Int, len(data))
	for i, v := range data {
		st.Stack[i] = new(big.Int).Set(v)
	}
	afterExternal := len(f.steps) > 0 && !refevm.Modelled(f.steps[len(f.steps)-1].Op)
	if st.MemLen <= memSnapshotMax || afterExternal {
		st.Mem = append([]byte{}, memory.Data()...)
	}
	f.steps = append(f.steps, st)
	return nil
}

func (tt *treeTracer) CaptureFault(env *vm.EVM, pc uint64, op vm.OpCode, gas, cost uint64, memory *vm.Memory, stack *vm.Stack, contract *vm.Contract, depth int, err error) error {
	if tt.tooBig || tt.broken != "" {
		return nil
	}
	if f := tt.frameFor(contract, depth, gas); f != nil {
		f.fault, f.faultErr = &realEvent{PC: pc, Op: byte(op), GasBefore: gas}, err
	}
	return nil
}

type treeRun struct {
	tt      *treeTracer
	Ret     []byte
	GasLeft uint64
	Err     error
	Panic   string
}

func newTreeState(k *kase) *state.StateDB {
	db, err := state.New(common.Hash{}, state.NewDatabase(aquadb.NewMemDatabase()))
	if err != nil {
		panic(err)
	}
	addr := common.Address(k.Address)
	db.CreateAccount(addr)
	db.SetNonce(addr, 1)
	db.SetCode(addr, k.Code)
	for _, p := range k.Pool {
		a := common.Address(p.Address)
		db.CreateAccount(a)
		db.SetNonce(a, 1)
		db.SetCode(a, p.Code)
	}
	return db
}

func treeContext(k *kase) vm.Context {
	return vm.Context{
		CanTransfer: func(vm.StateDB, common.Address, *big.Int) bool { return true },
		Transfer:    func(vm.StateDB, common.Address, common.Address, *big.Int) {},
		GetHash:     func(n uint64) common.Hash { return common.Hash(blockHash(n)) },
		Origin:      common.Address(k.Origin),
		GasPrice:    new(big.Int).Set(k.GasPrice),
		Coinbase:    common.Address(k.Coinbase),
		GasLimit:    k.GasLimit,
		BlockNumber: new(big.Int).SetUint64(k.Number),
		Time:        new(big.Int).Set(k.Time),
		Difficulty:  new(big.Int).Set(k.Difficulty),
	}
}

// runTree executes the case (root account + pool accounts) on the real
// interpreter and records every frame.
func runTree(k *kase) (run *treeRun) {
	run = &treeRun{tt: &treeTracer{}}
	defer func() {
		if r := recover(); r != nil {
			run.Panic = fmt.Sprint(r)
		}
	}()
	evm := vm.NewEVM(treeContext(k), newTreeState(k), k.Cfg.config(), vm.Config{Debug: true, Tracer: run.tt})
	run.tt.evmStop = evm.Cancel
	ret, left, err := evm.Call(vm.AccountRef(common.Address(k.Caller)), common.Address(k.Address), append([]byte(nil), k.Input...), k.Gas, new(big.Int).Set(k.Value))
	run.Ret, run.GasLeft, run.Err = append([]byte(nil), ret...), left, err
	return run
}

// gasUsedUntraced runs the case without a tracer and returns the gas it used
// (input selection for the exact-gas modes only; no verdict hangs on it).
func gasUsedUntraced(k *kase) (used uint64, ok bool) {
	defer func() {
		if r := recover(); r != nil {
			ok = false
		}
	}()
	evm := vm.NewEVM(treeContext(k), newTreeState(k), k.Cfg.config(), vm.Config{})
	_, left, _ := evm.Call(vm.AccountRef(common.Address(k.Caller)), common.Address(k.Address), append([]byte(nil), k.Input...), k.Gas, new(big.Int).Set(k.Value))
	return k.Gas - left, true
}

// ---------------------------------------------------------------- judging the frames

func isCallOrCreate(op byte) bool {
	return op == 0xf0 || op == 0xf1 || op == 0xf2 || op == 0xf4 || op == 0xfa
}

// frameKase is the frame seen as a one-frame case: what the frame received
// (code, input, gas, address, caller, value) in the transaction's block context.
func frameKase(k *kase, f *rframe) *kase {
	if f.parent == nil {
		return k
	}
	fk := *k
	fk.Pool = nil
	fk.Code, fk.Input, fk.Gas, fk.Value = f.code, f.input, f.gas0, f.value
	fk.Address, fk.Caller = f.address, f.caller
	return &fk
}

func recStepDiff(i int, r *rstep, s *refevm.Step) string {
	return stepDiff(i, r.PC, r.Op, r.Gas, r.Cost, r.Stack, r.Depth, r.Mem, r.MemLen, s)
}

// judgeFrame evaluates one recorded frame against the reference (memoised).
func judgeFrame(k *kase, run *treeRun, f *rframe) {
	if f.judged {
		return
	}
	f.judged = true
	fk := frameKase(k, f)
	env := &refevm.Env{Address: fk.Address, Origin: fk.Origin, Caller: fk.Caller, Coinbase: fk.Coinbase,
		Value: fk.Value, GasPrice: fk.GasPrice, Time: fk.Time, Number: new(big.Int).SetUint64(fk.Number), Difficulty: fk.Difficulty,
		GasLimit: fk.GasLimit, BlockHash: blockHash, Code: fk.Code, Input: fk.Input, Gas: fk.Gas, MemSnapshotMax: memSnapshotMax, StackWindow: stackWindow}
	env.External = func(i int, op byte) *refevm.ExtResult {
		if i+1 >= len(f.steps) || f.steps[i].Op != op {
			return nil // the frame ended at this instruction (or the runs have parted: reported as a step difference)
		}
		nx := &f.steps[i+1]
		// the tracer sees memory after the expansion an instruction pays for and
		// before its execution: the memory the outside instruction left behind is
		// the next step's, cut to the size the outside instruction expanded it to
		own := f.steps[i].MemLen
		if len(nx.Mem) < own {
			return nil
		}
		r := &refevm.ExtResult{Gas: nx.Gas, Mem: nx.Mem[:own]}
		if n := len(nx.Stack); n > 0 {
			r.Push = nx.Stack[n-1]
		}
		if isCallOrCreate(op) {
			if c := f.children[i]; c != nil {
				judgeFrame(k, run, c)
				if c.resultKnown {
					r.RetKnown = true
					switch {
					case c.ref.Halt == refevm.Revert:
						r.Ret = c.ref.Ret
					case c.ref.Halt == refevm.Return && op != 0xf0:
						r.Ret = c.ref.Ret
					}
				}
			}
		}
		return r
	}
	ref := refevm.Run(epochOf(fk.Cfg.config(), fk.Number), env)
	f.ref = ref
	upto, _, known := comparedSteps(ref)
	real := &realRes{NSteps: len(f.steps), Fault: f.fault, Err: f.faultErr, Nested: f.parent != nil}
	if f.parent == nil {
		real.Ret, real.GasLeft, real.Err = run.Ret, run.GasLeft, run.Err
	}
	for i := 0; i < upto && i < len(f.steps); i++ {
		if d := recStepDiff(i, &f.steps[i], &ref.Steps[i]); d != "" {
			real.Diff = d
			break
		}
	}
	if upto < len(f.steps) {
		s := &f.steps[upto]
		real.Extra = &realEvent{PC: s.PC, Op: s.Op, GasBefore: s.Gas}
	}
	f.problem = compare(fk, ref, real)
	f.resultKnown = f.problem == "" && !known && ref.Halt != refevm.Unmodelled
}

func (f *rframe) path() string {
	if f.parent == nil {
		return "top frame"
	}
	return fmt.Sprintf("%s > %s at step %d (pc=%d)", f.parent.path(), opName(f.startOp), f.parentStep, f.parent.steps[f.parentStep].PC)
}

// judgeTree runs the case on the real interpreter and judges every frame.
// inconclusive is set when the run was cut short by the step budget.
func judgeTree(k *kase) (run *treeRun, labels []string, problem string, inconclusive bool) {
	run = runTree(k)
	tt := run.tt
	if run.Panic != "" {
		return run, nil, "the interpreter panicked: " + run.Panic, false
	}
	if tt.tooBig {
		return run, []string{"tree:over-step-budget"}, "", true
	}
	if tt.broken != "" {
		return run, nil, "the tracer events do not form a call tree: " + tt.broken, false
	}
	if len(tt.frames) == 0 {
		// no instruction at all: empty code
		if len(k.Code) != 0 {
			return run, nil, "no instruction was executed", false
		}
		return run, []string{"tree:frames=1"}, "", false
	}
	for _, f := range tt.frames {
		judgeFrame(k, run, f)
	}
	for _, f := range tt.frames {
		if f.problem != "" {
			return run, treeLabels(k, tt), fmt.Sprintf("frame %d (%s): %s [the frame: address %x, caller %x, value %x, gas %d, input %x, code %x]", f.id, f.path(), f.problem, f.address, f.caller, f.value, f.gas0, f.input, f.code), false
		}
	}
	return run, treeLabels(k, tt), "", false
}

// attemptedJump: the frame executed at least one taken JUMP/JUMPI or halted on a bad destination.
func attemptedJump(ref *refevm.Result) bool {
	return ref.JumpsTaken > 0 || (ref.Halt == refevm.Exceptional && ref.Exc&refevm.ExcBadJump != 0)
}

func treeLabels(k *kase, tt *treeTracer) []string {
	seen := map[string]bool{}
	add := func(l string) { seen[l] = true }
	ep := epochOf(k.Cfg.config(), k.Number)
	switch n := len(tt.frames); {
	case n == 1:
		add("tree:frames=1")
	case n == 2:
		add("tree:frames=2")
	case n <= 4:
		add("tree:frames=3..4")
	default:
		add("tree:frames>=5")
	}
	var jumpedInits [][]byte // init codes of earlier CREATE frames that attempted a jump
	for _, f := range tt.frames {
		if f.ref == nil {
			continue
		}
		for _, l := range classify(frameKase(k, f), ep, f.ref) {
			if f.parent == nil || !strings.HasPrefix(l, "epoch:") {
				add(l)
			}
		}
		ext := -1
		for i := range f.ref.Steps {
			s := &f.ref.Steps[i]
			if s.External {
				ext = i
				add("tree:external:" + opName(s.Op))
			} else if ext >= 0 {
				add("tree:resumed-after-external")
				if (s.Op == 0x3d || s.Op == 0x3e) && isCallOrCreate(f.ref.Steps[ext].Op) {
					add("tree:returndata-after-nested-frame")
				}
				if s.Op == 0x56 || s.Op == 0x57 {
					add("tree:jump-after-nested-frame")
				}
			}
		}
		if f.parent == nil {
			continue
		}
		kind := map[byte]string{0xf0: "create", 0xf1: "call", 0xf2: "callcode", 0xf4: "delegatecall", 0xfa: "staticcall"}[f.startOp]
		add("tree:frame:" + kind)
		if f.depth >= 3 {
			add("tree:depth>=3")
		}
		if len(f.ref.Steps) > 0 && f.ref.Steps[0].Op == 0x3d && f.parent.ref != nil {
			// the caller's buffer was not empty when this frame started?
			for i := f.parentStep - 1; i >= 0 && i < len(f.parent.ref.Steps); i-- {
				if s := &f.parent.ref.Steps[i]; s.External && isCallOrCreate(s.Op) {
					if c := f.parent.children[i]; c != nil && c.ref != nil && len(c.ref.Ret) > 0 && s.Op != 0xf0 {
						add("tree:new-frame-reads-returndata/caller-holds-some")
					}
					break
				}
			}
		}
		if f.ref.JumpsTaken > 0 {
			add("tree:nested-jump-taken")
		}
		switch f.ref.Halt {
		case refevm.Exceptional:
			add("tree:nested-exceptional-halt")
			if f.ref.Exc&refevm.ExcBadJump != 0 {
				add("tree:nested-bad-jump")
				if n := len(f.ref.EndStack); n > 0 {
					top := f.ref.EndStack[n-1]
					if top.IsUint64() && top.Uint64() < uint64(len(f.code)) && f.code[top.Uint64()] == 0x5b {
						add("tree:nested-jump-into-pushdata")
					}
				}
			}
		case refevm.Revert:
			add("tree:nested-revert")
		case refevm.Return:
			add("tree:nested-return")
			if len(f.ref.Ret) > 0 && f.startOp != 0xf0 {
				add("tree:call-returned-data")
			}
		}
		if attemptedJump(f.ref) {
			if f.startOp == 0xf0 {
				for _, c := range jumpedInits {
					if !bytes.Equal(c, f.code) {
						// the class: an init code decides a jump after a DIFFERENT init code of the same call tree did
						add("tree:jump-in-later-init-code")
						if jumpMapsDiffer(c, f.code) {
							add("tree:jump-in-later-init-code/maps-differ")
						}
					}
				}
				jumpedInits = append(jumpedInits, f.code)
			}
			for _, g := range tt.frames[:f.id] {
				if g.ref != nil && g != f && attemptedJump(g.ref) && !bytes.Equal(g.code, f.code) {
					add("tree:jump-after-other-code-jumped")
					break
				}
			}
		}
	}
	out := make([]string, 0, len(seen))
	for l := range seen {
		out = append(out, l)
	}
	sort.Strings(out)
	return out
}

// jumpMapsDiffer: do the two codes classify some common offset differently
// (valid destination in one, not in the other)?
func jumpMapsDiffer(a, b []byte) bool {
	da, db := refevm.JumpDests(a), refevm.JumpDests(b)
	for p := range db {
		if int(p) < len(a) && !da[p] {
			return true
		}
	}
	for p := range da {
		if int(p) < len(b) && !db[p] {
			return true
		}
	}
	return false
}

// ---------------------------------------------------------------- generating call trees

var poolAddrs = [][20]byte{
	{0xd0, 0xde, 19: 0x11}, {0xd0, 0xde, 19: 0x12}, {0xd0, 0xde, 19: 0x13},
}

// progCtx makes drawProgram emit instructions that start nested frames.
type progCtx struct {
	level int
	pool  []poolAcct // accounts with code that exist when the case runs
	inits *[][]byte  // every init code generated for this tree so far
}

func (px *progCtx) maxFrag() int {
	switch px.level {
	case 0:
		return ev.Pick(36, 60)
	case 1:
		return 14
	default:
		return 8
	}
}

func (px *progCtx) extPct() int {
	switch px.level {
	case 0:
		return 22
	case 1:
		return 12
	case 2:
		return 6
	default:
		return 0
	}
}

const maxInitLen = 1200

func smallWord(t *rapid.T, max int, l string) *big.Int {
	return big.NewInt(int64(rapid.IntRange(0, max).Draw(t, l)))
}

// external emits one action outside the computational subset and returns its
// fragments, the data it wants behind the program and its net stack effect.
func (px *progCtx) external(t *rapid.T, ep refevm.Epoch, inputLen int, number uint64, nextLabel *int, pushWord func(*big.Int) []byte) (frags, tail []fragment, depth int) {
	plain := func(code []byte) { frags = append(frags, fragment{code: code, labelRef: -1, defines: -1}) }
	// after: what happens to the word the action pushed
	after := func(a *asm) {
		switch rapid.IntRange(0, 3).Draw(t, "xafter") {
		case 0:
			depth++ // keep
		case 1:
			a.pushU(uint64(rapid.IntRange(0, 6).Draw(t, "xslot") * 32)).op(0x52) // MSTORE
		default:
			a.op(0x50)
		}
	}
	// create: bring an init code into memory and CREATE it; the address stays on the stack
	create := func() {
		var init []byte
		if n := len(*px.inits); n > 0 && rapid.IntRange(0, 9).Draw(t, "xreuse") == 0 {
			init = (*px.inits)[rapid.IntRange(0, n-1).Draw(t, "xreuseIdx")]
		} else {
			init, _ = drawProgram(t, ep, inputLen, number, &progCtx{level: px.level + 1, pool: px.pool, inits: px.inits})
			if len(init) > maxInitLen {
				init = init[:maxInitLen]
			}
			*px.inits = append(*px.inits, init)
		}
		base := uint64(rapid.SampledFrom([]int{0, 0, 32, 64, 5, 100, 1000}).Draw(t, "xbase"))
		if rapid.Bool().Draw(t, "xcodecopy") {
			l := *nextLabel
			*nextLabel++
			a := (&asm{}).pushN(big.NewInt(int64(len(init))), 2)
			at := len(a.b) + 1
			a.op(0x61, 0, 0).pushU(base).op(0x39) // PUSH2 <data> PUSH base CODECOPY
			frags = append(frags, fragment{code: a.b, labelRef: l, refAt: at, defines: -1})
			tail = append(tail, fragment{code: init, labelRef: -1, defines: l})
		} else {
			a := &asm{}
			for i := 0; i < len(init); i += 32 {
				chunk := make([]byte, 32)
				copy(chunk, init[i:])
				a.op(0x7f).op(chunk...).pushU(base + uint64(i)).op(0x52)
			}
			plain(a.b)
		}
		size := len(init)
		switch rapid.IntRange(0, 11).Draw(t, "xsize") {
		case 0:
			size += rapid.IntRange(1, 40).Draw(t, "xsizeMore") // zero bytes (STOP) behind the init code
		case 1:
			if size > 0 {
				size -= rapid.IntRange(1, size).Draw(t, "xsizeLess")
			}
		}
		value := big.NewInt(0)
		if rapid.IntRange(0, 9).Draw(t, "xvalue") == 0 {
			value = genWord().Draw(t, "xvalueW")
		}
		a := (&asm{}).pushU(uint64(size)).pushU(base)
		a.b = append(a.b, pushWord(value)...)
		a.op(0xf0)
		plain(a.b)
	}
	// callArgs pushes outSize outOff inSize inOff [value]
	callArgs := func(op byte) *asm {
		a := &asm{}
		a.push(smallWord(t, 64, "xoutSize")).push(smallWord(t, 200, "xoutOff"))
		a.push(smallWord(t, 64, "xinSize")).push(smallWord(t, 200, "xinOff"))
		if op == 0xf1 || op == 0xf2 {
			v := big.NewInt(0)
			switch rapid.IntRange(0, 9).Draw(t, "xcallValue") {
			case 0:
				v = big.NewInt(1)
			case 1:
				v = genWord().Draw(t, "xcallValueW")
			}
			a.b = append(a.b, pushWord(v)...)
		}
		return a
	}
	callGas := func(a *asm) {
		switch rapid.IntRange(0, 5).Draw(t, "xgas") {
		case 0, 1:
			a.op(0x5a) // GAS: everything
		case 2:
			a.pushU(0xffffff)
		case 3:
			a.pushU(uint64(rapid.SampledFrom([]int{0, 1, 700, 2300, 10000, 100000}).Draw(t, "xgasSmall")))
		case 4:
			a.pushU(uint64(rapid.IntRange(0, 60000).Draw(t, "xgasAny")))
		default:
			a.b = append(a.b, pushWord(genWord().Draw(t, "xgasW"))...)
		}
	}
	callOp := func() byte {
		ops := []byte{0xf1, 0xf1, 0xf2, 0xf4, 0xfa}
		op := ops[rapid.IntRange(0, len(ops)-1).Draw(t, "xcallOp")]
		if !refevm.Valid(ep, op) && rapid.IntRange(0, 9).Draw(t, "xinvalidCall") > 0 {
			op = 0xf1
		}
		return op
	}
	afterCall := func(a *asm) {
		after(a)
		if ep.Byzantium || rapid.IntRange(0, 9).Draw(t, "xrdAnyway") == 0 {
			switch rapid.IntRange(0, 3).Draw(t, "xrd") {
			case 0: // RETURNDATASIZE
				a.op(0x3d)
				if rapid.Bool().Draw(t, "xrdKeep") {
					depth++
				} else {
					a.op(0x50)
				}
			case 1: // RETURNDATACOPY(dst, src, len)
				a.push(smallWord(t, 40, "xrdLen")).push(smallWord(t, 40, "xrdSrc")).push(smallWord(t, 200, "xrdDst")).op(0x3e)
			}
		}
	}

	canCreate := px.level <= 2
	x := rapid.IntRange(0, 99).Draw(t, "xkind")
	switch {
	case x < 50 && canCreate: // CREATE
		create()
		a := &asm{}
		afterCall(a)
		plain(a.b)
	case x < 58 && canCreate: // CREATE, then call what was created
		op := callOp()
		plain(callArgs(op).b)
		create()
		a := &asm{}
		callGas(a)
		a.op(op)
		afterCall(a)
		plain(a.b)
	case x < 85: // a call to an account
		op := callOp()
		a := callArgs(op)
		switch k := rapid.IntRange(0, 9).Draw(t, "xtarget"); {
		case k < 6 && len(px.pool) > 0:
			p := px.pool[rapid.IntRange(0, len(px.pool)-1).Draw(t, "xpool")]
			a.pushN(new(big.Int).SetBytes(p.Address[:]), 20)
		case k < 7:
			a.op(0x30) // ADDRESS: the executing account itself
		case k < 8:
			a.pushU(uint64(rapid.IntRange(1, 9).Draw(t, "xprecompile")))
		case k < 9:
			a.pushN(new(big.Int).SetBytes([]byte{0xee, 0xee, 0x01}), 20) // no such account
		default:
			a.b = append(a.b, pushWord(genWord().Draw(t, "xtargetW"))...)
		}
		callGas(a)
		a.op(op)
		afterCall(a)
		plain(a.b)
	default: // state access and logs
		a := &asm{}
		switch rapid.IntRange(0, 7).Draw(t, "xstate") {
		case 0:
			a.push(smallWord(t, 3, "xkey")).op(0x54) // SLOAD
			after(a)
		case 1:
			a.b = append(a.b, pushWord(genWord().Draw(t, "xsval"))...)
			a.push(smallWord(t, 3, "xkey")).op(0x55) // SSTORE
		case 2:
			a.op(0x30, 0x31) // ADDRESS BALANCE
			after(a)
		case 3:
			if len(px.pool) > 0 {
				a.pushN(new(big.Int).SetBytes(px.pool[0].Address[:]), 20)
			} else {
				a.op(0x30)
			}
			a.op(0x3b) // EXTCODESIZE
			after(a)
		case 4:
			a.push(smallWord(t, 64, "xeLen")).push(smallWord(t, 64, "xeSrc")).push(smallWord(t, 200, "xeDst"))
			if len(px.pool) > 0 {
				a.pushN(new(big.Int).SetBytes(px.pool[len(px.pool)-1].Address[:]), 20)
			} else {
				a.op(0x30)
			}
			a.op(0x3c) // EXTCODECOPY
		case 5, 6:
			n := rapid.IntRange(0, 4).Draw(t, "xlogN")
			for i := 0; i < n; i++ {
				a.b = append(a.b, pushWord(genWord().Draw(t, "xtopic"))...)
			}
			a.push(smallWord(t, 64, "xlLen")).push(smallWord(t, 200, "xlOff")).op(byte(0xa0 + n))
		default:
			if rapid.IntRange(0, 3).Draw(t, "xsd") == 0 {
				a.op(0x33, 0xff) // CALLER SELFDESTRUCT
			} else {
				a.op(0x30, 0x31)
				after(a)
			}
		}
		plain(a.b)
	}
	return frags, tail, depth
}

const treeGas = 30_000_000

func drawTree(t *rapid.T) (*kase, []string) {
	ne := drawEpoch(t)
	ep := epochOf(ne.Cfg.config(), ne.Number)
	input := drawInput(t)
	var inits [][]byte
	var pool []poolAcct
	for i, n := 0, rapid.IntRange(0, 3).Draw(t, "npool"); i < n; i++ {
		// a pool contract may call the ones drawn before it
		code, _ := drawProgram(t, ep, len(input), ne.Number, &progCtx{level: 1 + rapid.IntRange(0, 1).Draw(t, "poolLevel"), pool: append([]poolAcct(nil), pool...), inits: &inits})
		pool = append(pool, poolAcct{Address: poolAddrs[i], Code: code})
	}
	code, classes := drawProgram(t, ep, len(input), ne.Number, &progCtx{level: 0, pool: pool, inits: &inits})
	k := newKase(ne, code, input, treeGas)
	k.Pool = pool
	drawEnv(t, k)
	for _, p := range pool { // the drawn address must not shadow a pool account
		if p.Address == k.Address {
			k.Address[0] ^= 0x40
		}
	}
	mode := rapid.IntRange(0, 9).Draw(t, "treeGasMode")
	frac := rapid.Uint64().Draw(t, "treeGasFrac")
	if mode >= 7 {
		if used, ok := gasUsedUntraced(k); ok {
			switch mode {
			case 7:
				k.Gas = used
				classes = append(classes, "tree:gas-exact")
			case 8:
				if used > 0 {
					k.Gas = used - 1
				}
				classes = append(classes, "tree:gas-exact-minus-1")
			default:
				k.Gas = frac % (used + 1)
				classes = append(classes, "tree:gas-fraction")
			}
		}
	}
	return k, classes
}

// TestCallTrees: generated programs that start nested frames.
func TestCallTrees(t *testing.T) {
	ev.Check(t, ev.N(1_000, 120_000), func(t *rapid.T) {
		k, classes := drawTree(t)
		run, lbls, problem, inconclusive := judgeTree(k)
		for _, l := range lbls {
			if strings.HasPrefix(l, "tree:jump-in-later-init-code") || strings.HasPrefix(l, "tree:frames") || l == "tree:jump-after-other-code-jumped" {
				lbls = append(lbls, "generated-"+l)
			}
		}
		lbls = append(lbls, "leg:call-trees")
		lbls = append(lbls, classes...)
		nested := 0
		jumps := false
		for _, f := range run.tt.frames {
			if f.parent != nil {
				nested++
				if f.ref != nil && f.ref.JumpsTaken > 0 {
					jumps = true
				}
			}
		}
		ev.Case(!inconclusive && nested > 0 && jumps, k.canon("tree"), lbls...)
		ev.Add("tree_frames", int64(len(run.tt.frames)))
		ev.Add("tree_steps", int64(run.tt.nsteps))
		ev.Sample(map[string]interface{}{"leg": "call-trees", "epoch": epochLabel(epochOf(k.Cfg.config(), k.Number)), "code": hx(k.Code), "pool": len(k.Pool), "gas": k.Gas, "frames": len(run.tt.frames), "steps": run.tt.nsteps, "labels": lbls})
		if problem != "" {
			t.Fatalf("%s\ncase: %s", problem, mustJSON(k.toJSON(problem)))
		}
	})
}

// ---------------------------------------------------------------- enumerated: pairs of corner programs as init codes of one factory

// factoryOf returns a program that CREATEs every init code in order (each
// copied from the program's own tail) and returns one word per CREATE.
func factoryOf(inits ...[]byte) []byte { return factoryOfAt(0, inits...) }

// cornerInits are the crafted corner programs whose subject is a jump.
func cornerInits() []crafted {
	var out []crafted
	for _, c := range craftedPrograms() {
		if strings.HasPrefix(c.name, "jump-") || c.name == "gas-pc-msize" || c.name == "return-data" {
			out = append(out, c)
		}
	}
	// a loop, a conditional jump over PUSH data, a jump field
	out = append(out, crafted{name: "jumpi-over-push32", code: (&asm{}).pushU(1).pushU(38).op(0x57).pushN(memPattern2, 32).op(0x5b).pushU(0).pushU(0).op(0xf3).b})
	out = append(out, crafted{name: "countdown", code: (&asm{}).pushU(3).op(0x5b).pushU(1).op(0x90, 0x03, 0x80).pushU(2).op(0x57, 0x00).b})
	// what a new frame finds in the return data buffer (EIP-211: nothing), whatever the frames before it left there
	out = append(out, crafted{name: "returndatasize-first", code: (&asm{}).op(0x3d).pushU(0).op(0x52).pushU(32).pushU(0).op(0xf3).b})
	out = append(out, crafted{name: "returndatacopy-first", code: (&asm{}).pushU(1).pushU(0).pushU(0).op(0x3e).pushU(32).pushU(0).op(0xf3).b})
	out = append(out, crafted{name: "jump-field-255", code: tupleProgram(0x56, []*big.Int{big.NewInt(255)}, false)})
	out = append(out, crafted{name: "jump-field-256", code: tupleProgram(0x56, []*big.Int{big.NewInt(256)}, false)})
	out = append(out, crafted{name: "jump-field-299", code: tupleProgram(0x56, []*big.Int{big.NewInt(299)}, false)})
	return out
}

// TestCreatePairs enumerates every ordered pair of corner programs as the two
// init codes of one factory (and, for the pair's first member, as a contract
// the factory calls before creating the second).
func TestCreatePairs(t *testing.T) {
	sink := &failSink{t: t, leg: "create-pairs"}
	shard, nsh := ev.Shard(), ev.NShards()
	inits := cornerInits()
	epochs := []int{1, 4}
	if ev.Thorough() {
		epochs = []int{0, 1, 2, 3, 4, 5, 6}
	}
	idx := 0
	for _, ei := range epochs {
		ne := baseEpochs[ei]
		for ai, a := range inits {
			for bi, b := range inits {
				for variant := 0; variant < 2; variant++ {
					idx++
					if idx%nsh != shard {
						continue
					}
					var k *kase
					if variant == 0 {
						k = newKase(ne, factoryOf(a.code, b.code), fixedInput, 10_000_000)
					} else {
						// CALL a deployed copy of a, then CREATE b
						call := (&asm{}).pushU(0).pushU(0).pushU(0).pushU(0).pushU(0).pushN(new(big.Int).SetBytes(poolAddrs[0][:]), 20).pushU(100_000).op(0xf1, 0x50)
						k = newKase(ne, append(call.b, factoryOfAt(len(call.b), b.code)...), fixedInput, 10_000_000)
						k.Pool = []poolAcct{{Address: poolAddrs[0], Code: a.code}}
					}
					_, lbls, problem, inconclusive := judgeTree(k)
					ev.Case(!inconclusive, []byte{'P', byte(ei), byte(ai), byte(bi), byte(variant)}, append(lbls, "leg:create-pairs")...)
					if problem != "" {
						sink.report(k, a.name+" then "+b.name+": "+problem)
						if sink.failed > 20 {
							return
						}
					}
				}
			}
		}
	}
	if sink.failed == 0 {
		ev.Exhaustive(fmt.Sprintf("every ordered pair of %d corner jump programs as (init code, init code) and (called contract, init code) of one transaction x %d epochs", len(inits), len(epochs)))
	}
}

// factoryOfAt is factoryOf for a factory placed at offset off of a longer program.
func factoryOfAt(off int, inits ...[]byte) []byte {
	a := &asm{}
	var refs []int
	for i, init := range inits {
		a.pushN(big.NewInt(int64(len(init))), 2)
		refs = append(refs, len(a.b)+1)
		a.op(0x61, 0, 0).pushU(0).op(0x39)
		a.pushN(big.NewInt(int64(len(init))), 2).pushU(0).pushU(0).op(0xf0)
		a.pushU(uint64(0x800 + 32*i)).op(0x52)
	}
	a.pushU(uint64(32 * len(inits))).pushU(0x800).op(0xf3)
	for i, init := range inits {
		p := off + len(a.b)
		a.b[refs[i]], a.b[refs[i]+1] = byte(p>>8), byte(p)
		a.op(init...)
	}
	return a.b
}
