// C08 — EVM instructions compute what the specification defines.
//
// Oracle: refevm (harness/c08/refevm), an independent one-frame reference
// interpreter transcribed from the Yellow Paper and the EIPs. Every case is a
// (chain configuration, block number, environment, code, input, gas) tuple; the
// real interpreter is driven through vm.NewEVM(...).Call with a vm.Tracer and
// its full step trace, result, return data, leftover gas and halt class are
// compared with the reference's.
//
// Call trees (calltree_test.go): a transaction that starts nested frames is
// run once under a recording tracer and EVERY frame is judged on its own by
// the same one-frame reference, the instructions outside the subset being
// resolved from what was observed right after them.
package c08

import (
	"bytes"
	"encoding/hex"
	"encoding/json"
	"fmt"
	"math/big"
	"os"
	"runtime/debug"
	"sort"
	"strings"
	"testing"
	"time"

	"gitlab.com/aquachain/aquachain/aquadb"
	"gitlab.com/aquachain/aquachain/common"
	"gitlab.com/aquachain/aquachain/core/state"
	"gitlab.com/aquachain/aquachain/core/vm"
	"gitlab.com/aquachain/aquachain/params"
	"verifharness/c08/refevm"
	"verifharness/ev"
	"verifharness/gen"
)

const keySAR = "SAR/value=0/shift>=256"

func TestMain(m *testing.M) {
	gen.Quiet()
	debug.SetGCPercent(400) // every case allocates a fresh EVM (stack, pool, jump table): collect less often
	var must []string
	for op := 0; op < 256; op++ {
		if refevm.Modelled(byte(op)) {
			must = append(must, "op:"+refevm.Name(byte(op)))
		}
	}
	for n := 0; n <= 32; n++ {
		must = append(must, fmt.Sprintf("exp-bytes:%d/G=10", n), fmt.Sprintf("exp-bytes:%d/G=50", n))
	}
	must = append(must,
		"operand:0", "operand:2^255", "operand:2^256-1", "shift>=256", "copy-src-offset>=2^64", "copy-mem-offset>=2^64",
		"signextend-k>=31", "sdiv-min/-1",
		"halt:stop", "halt:return", "halt:revert", "halt:invalid-op", "halt:stack-underflow", "halt:stack-overflow",
		"halt:out-of-gas", "halt:bad-jump", "halt:returndata-oob", "halt:unmodelled-prefix",
		"jump-taken", "jumpi-not-taken", "jump-into-pushdata", "mem-expansion", "gas-exact", "gas-exact-minus-1",
		"run-off-code-end", "push-truncated", "single-byte:valid", "single-byte:invalid",
		"epoch:frontier/G=10", "epoch:homestead/G=10", "epoch:homestead/G=50", "epoch:byzantium-ops+shifts/G=50",
		"epoch:byzantium-ops+shifts/G=10", "epoch:byzantium-ops/G=50", "fork-boundary:at", "fork-boundary:before",
		"leg:lattice", "leg:random-operands", "leg:programs", "leg:single-byte", "leg:crafted", "leg:env",
		"program:mutated", "program:loop", "program:straight-line", "program:branching",
		// call trees: every frame of a transaction judged on its own
		"leg:call-trees", "leg:create-pairs",
		"tree:frame:create", "tree:frame:call", "tree:frame:callcode", "tree:frame:delegatecall", "tree:frame:staticcall", "tree:depth>=3",
		"tree:nested-jump-taken", "tree:nested-bad-jump", "tree:nested-jump-into-pushdata", "tree:nested-return", "tree:nested-exceptional-halt",
		"tree:resumed-after-external", "tree:jump-after-nested-frame", "tree:returndata-after-nested-frame",
		"tree:jump-after-other-code-jumped", "tree:jump-in-later-init-code", "tree:jump-in-later-init-code/maps-differ",
		"generated-tree:frames>=5", "generated-tree:jump-after-other-code-jumped", "generated-tree:jump-in-later-init-code", "generated-tree:jump-in-later-init-code/maps-differ")
	ev.MustHit(must...)
	ev.Main(m, ev.Config{
		Property: "C08",
		Level:    "exploration",
		Rule: "a case is one execution of a byte program in one (chain config, block number) epoch compared step by step with the reference interpreter. " +
			"legs: (1) lattice, enumerated: every modelled opcode with 1-3 operands x every tuple over an 18-point boundary lattice x 7 epochs (quick: 3-operand instructions on a 9-point sub-lattice in 5 of them) (plus a second pass with pre-filled memory for memory instructions, all EXP exponent byte lengths 0..32, DUP/SWAP 1..16, the environment lattice); " +
			"(2) random operands: rapid-drawn 256-bit operands (uniform, lattice +-delta, powers of two +-1, byte lengths) with drawn environment, epoch and gas (ample / exactly enough / one less / fraction); " +
			"(3) programs: rapid-generated stack-aware programs (<= 200 fragments: pushes, operations with fresh operands, raw opcodes, forward jumps, bounded loops, jumps to bad targets and into PUSH data, RETURN/REVERT/STOP/INVALID, 15% byte-mutated or truncated); " +
			"(4) single-byte: all 256 one-byte programs, bare and behind 17 pushes, at every epoch and at heights h-1,h,h+1 of every fork of every shipped config; (5) crafted corner programs and the saved corpus; " +
			"(6) call trees: one transaction whose top program (8-36 fragments of leg 3, quick) also starts nested frames - CREATE of generated init codes (<= 14 fragments, more control flow: forward jumps to real JUMPDESTs, loops, jumps to far/bad targets and into PUSH data holding 0x5b, final RETURN/REVERT; brought into memory by CODECOPY from the program's tail or by PUSH32/MSTORE; reused init codes; init codes that CREATE and CALL themselves, four levels of generated code), CALL / CALLCODE / DELEGATECALL / STATICCALL to up to 3 pre-deployed generated contracts, to the executing account, to what was just created, to precompiles and to missing accounts, state access and LOGs in between, RETURNDATASIZE/RETURNDATACOPY after them; 30M gas or exactly enough / one less / a fraction. " +
			"The real interpreter runs the tree once under a recording tracer; EVERY frame it executed (code, input, gas, address, caller, value as received) is evaluated alone by the one-frame reference and compared step by step (pc, op, gas, cost, the 17 topmost stack items and the depth, memory), the instructions outside the subset being resolved from the observed state right after them (gas, pushed word, memory; return data from the reference's verdict on the child), so a frame is judged before and after its nested frames by a machine that knows nothing about the other frames of the tree; " +
			"(7) create pairs, enumerated: every ordered pair of 62 corner programs (jumps into PUSH data of every width, to the JUMPDEST behind it, past the end, to 2^63 / 2^64+x, a jump field, a loop, RETURN with data, RETURNDATASIZE / RETURNDATACOPY as the first instruction) as (init code, init code) of one factory and as (called contract, init code) of one transaction. " +
			"non-trivial: tuple legs = the instruction under test was executed (not out-of-gas before it); programs = at least one taken jump or a memory expansion; single-byte = always; call trees = a nested frame took a jump; create pairs = always. " +
			"distinct = hash of (leg, epoch, code, input, gas, environment words, pool accounts)",
		Assumptions: []string{
			"refevm is a correct transcription of the Yellow Paper / EIP-7/140/145/160/211/214 for the computational subset (checked by its own vector tests)",
			"gas per frame <= 2^32 in all cases: the specification has no memory limit, the implementation refuses memory above 0xffffffffe0 bytes, which costs more gas than any generated case has",
			"when several exceptional-halting conditions hold at once the specification gives none precedence: the real halt class must be a member of the reference's set",
			"instructions outside the computational subset (state access, logs, calls, create, selfdestruct) are only judged for validity and stack arity: legs 1-5 compare a program reaching one up to that instruction; legs 6-7 also take their observed effect on the frame (gas left, pushed word, memory) as given and go on, and take what a nested frame received (code, input, gas, address, caller, value) as given - whether CREATE/CALL pass the right things is C07's subject",
			"legs 6-7: a nested frame's returned data and leftover gas are not observable through the tracer, so they are judged through the caller only (the return data buffer read by RETURNDATASIZE/RETURNDATACOPY must equal what the reference says the child returned); when the child is not judged to its end, or no child ran (precompile, empty account), the caller is compared up to its next RETURNDATASIZE/RETURNDATACOPY",
			"legs 6-7 keep and compare the 17 topmost stack items and the stack depth per step (no instruction reaches deeper, so a wrong deeper word is seen when it comes within reach); a tree of more than 20000 steps is cut off and not judged (counted under tree:over-step-budget)",
			"configurations: the shipped ones plus synthetic ones with HomesteadBlock 0/nil, ByzantiumBlock and HF1/HF5 at arbitrary heights; ConstantinopleBlock is never set (no shipped config sets it)",
		},
	})
}

// ---------------------------------------------------------------- configurations and epochs

type cfgSpec struct {
	Name      string            `json:"name,omitempty"` // a shipped configuration
	Homestead *uint64           `json:"homestead,omitempty"`
	Byzantium *uint64           `json:"byzantium,omitempty"`
	HF        map[string]uint64 `json:"hf,omitempty"`
}

var shipped = map[string]*params.ChainConfig{
	"mainnet":  params.MainnetChainConfig,
	"testnet":  params.TestnetChainConfig,
	"testnet2": params.Testnet2ChainConfig,
	"testnet3": params.Testnet3ChainConfig,
	"test":     params.TestChainConfig,
	"all":      params.AllAquahashProtocolChanges,
}

func u64p(v uint64) *uint64 { return &v }

func (s cfgSpec) config() *params.ChainConfig {
	if s.Name != "" {
		c := shipped[s.Name]
		if c == nil {
			panic("unknown shipped config " + s.Name)
		}
		return c
	}
	c := &params.ChainConfig{ChainId: big.NewInt(7777), EIP150Block: big.NewInt(0), Aquahash: new(params.AquahashConfig)}
	if s.Homestead != nil {
		c.HomesteadBlock = new(big.Int).SetUint64(*s.Homestead)
	}
	if s.Byzantium != nil {
		c.ByzantiumBlock = new(big.Int).SetUint64(*s.Byzantium)
	}
	if len(s.HF) > 0 {
		c.HF = params.ForkMap{}
		for k, v := range s.HF {
			var n int
			fmt.Sscanf(k, "%d", &n)
			c.HF[n] = new(big.Int).SetUint64(v)
		}
	}
	return c
}

func (s cfgSpec) String() string {
	b, _ := json.Marshal(s)
	return string(b)
}

func active(h *big.Int, num uint64) bool {
	return h != nil && h.Cmp(new(big.Int).SetUint64(num)) <= 0
}

// epochOf is the fork schedule read straight from the configuration's fields
// (not through the ChainConfig methods the interpreter uses): homestead set;
// + REVERT/RETURNDATA*/STATICCALL from Byzantium or HF5; + shifts from HF5;
// EXP byte price 50 from HF1.
func epochOf(c *params.ChainConfig, num uint64) refevm.Epoch {
	hf5 := active(c.HF[5], num)
	ep := refevm.Epoch{
		Homestead:  active(c.HomesteadBlock, num),
		Byzantium:  active(c.ByzantiumBlock, num) || hf5,
		Shifts:     hf5,
		ExpByteGas: 10,
	}
	if active(c.HF[1], num) {
		ep.ExpByteGas = 50
	}
	return ep
}

func epochLabel(ep refevm.Epoch) string {
	s := "frontier"
	switch {
	case ep.Shifts:
		s = "byzantium-ops+shifts"
	case ep.Byzantium:
		s = "byzantium-ops"
	case ep.Homestead:
		s = "homestead"
	}
	return fmt.Sprintf("epoch:%s/G=%d", s, ep.ExpByteGas)
}

// the seven epochs used by the enumerated legs
type namedEpoch struct {
	Cfg    cfgSpec
	Number uint64
}

var baseEpochs = []namedEpoch{
	{cfgSpec{}, 10},                   // frontier: no homestead block, no forks
	{cfgSpec{Name: "mainnet"}, 3599},  // homestead, G_expbyte 10
	{cfgSpec{Name: "mainnet"}, 3600},  // homestead, G_expbyte 50 (HF1)
	{cfgSpec{Name: "mainnet"}, 22800}, // HF5 without Byzantium
	{cfgSpec{Name: "mainnet"}, 36050}, // HF5 + Byzantium
	{cfgSpec{Homestead: u64p(0), Byzantium: u64p(4), HF: map[string]uint64{"1": 2}}, 300}, // Byzantium without HF5
	{cfgSpec{Name: "testnet2"}, 1}, // HF5 without HF1: shifts with G_expbyte 10
}

// forkHeights lists the heights at which anything changes in a config.
func forkHeights(c *params.ChainConfig) []uint64 {
	set := map[uint64]bool{}
	add := func(h *big.Int) {
		if h != nil && h.IsUint64() {
			set[h.Uint64()] = true
		}
	}
	add(c.HomesteadBlock)
	add(c.ByzantiumBlock)
	for _, h := range c.HF {
		add(h)
	}
	var out []uint64
	for h := range set {
		out = append(out, h)
	}
	sort.Slice(out, func(i, j int) bool { return out[i] < out[j] })
	return out
}

// ---------------------------------------------------------------- a case

type kase struct {
	Cfg                               cfgSpec
	Number                            uint64
	Code, Input                       []byte
	Gas                               uint64
	Value, GasPrice, Time, Difficulty *big.Int
	GasLimit                          uint64
	Origin, Caller, Address, Coinbase [20]byte
	Pool                              []poolAcct // further accounts with code the program may call (call-tree leg)
}

// poolAcct is an account that exists with code before the case runs.
type poolAcct struct {
	Address [20]byte
	Code    []byte
}

type poolJSON struct {
	Address string `json:"address"`
	Code    string `json:"code"`
	Asm     string `json:"disassembly,omitempty"`
}

type kaseJSON struct {
	Cfg        cfgSpec    `json:"cfg"`
	Number     uint64     `json:"number"`
	Code       string     `json:"code"`
	Input      string     `json:"input"`
	Gas        uint64     `json:"gas"`
	Value      string     `json:"value"`
	GasPrice   string     `json:"gasPrice"`
	Time       string     `json:"time"`
	Difficulty string     `json:"difficulty"`
	GasLimit   uint64     `json:"gasLimit"`
	Origin     string     `json:"origin"`
	Caller     string     `json:"caller"`
	Address    string     `json:"address"`
	Coinbase   string     `json:"coinbase"`
	Pool       []poolJSON `json:"pool,omitempty"`
	Asm        string     `json:"disassembly,omitempty"`
	Problem    string     `json:"problem,omitempty"`
}

func hx(b []byte) string { return hex.EncodeToString(b) }

func (k *kase) toJSON(problem string) kaseJSON {
	var pool []poolJSON
	for _, p := range k.Pool {
		pool = append(pool, poolJSON{Address: hx(p.Address[:]), Code: hx(p.Code), Asm: disasm(p.Code)})
	}
	return kaseJSON{Pool: pool, Cfg: k.Cfg, Number: k.Number, Code: hx(k.Code), Input: hx(k.Input), Gas: k.Gas,
		Value: k.Value.Text(16), GasPrice: k.GasPrice.Text(16), Time: k.Time.Text(16), Difficulty: k.Difficulty.Text(16),
		GasLimit: k.GasLimit, Origin: hx(k.Origin[:]), Caller: hx(k.Caller[:]), Address: hx(k.Address[:]), Coinbase: hx(k.Coinbase[:]),
		Asm: disasm(k.Code), Problem: problem}
}

func fromJSON(j kaseJSON) (*kase, error) {
	k := &kase{Cfg: j.Cfg, Number: j.Number, Gas: j.Gas, GasLimit: j.GasLimit}
	var err error
	dec := func(s string) []byte {
		b, e := hex.DecodeString(s)
		if e != nil {
			err = e
		}
		return b
	}
	bigOf := func(s string) *big.Int {
		if s == "" {
			return new(big.Int)
		}
		v, ok := new(big.Int).SetString(s, 16)
		if !ok || v.Sign() < 0 || v.Cmp(refevm.Two256) >= 0 {
			err = fmt.Errorf("bad word %q", s)
			return new(big.Int)
		}
		return v
	}
	k.Code, k.Input = dec(j.Code), dec(j.Input)
	k.Value, k.GasPrice, k.Time, k.Difficulty = bigOf(j.Value), bigOf(j.GasPrice), bigOf(j.Time), bigOf(j.Difficulty)
	copy(k.Origin[:], dec(j.Origin))
	copy(k.Caller[:], dec(j.Caller))
	copy(k.Address[:], dec(j.Address))
	copy(k.Coinbase[:], dec(j.Coinbase))
	for _, p := range j.Pool {
		a := poolAcct{Code: dec(p.Code)}
		copy(a.Address[:], dec(p.Address))
		k.Pool = append(k.Pool, a)
	}
	return k, err
}

func (k *kase) canon(leg string) []byte {
	var b bytes.Buffer
	fmt.Fprintf(&b, "%s|%s|%d|%x|%x|%d|%x|%x|%x|%x|%d", leg, k.Cfg.String(), k.Number, k.Code, k.Input, k.Gas, k.Value, k.GasPrice, k.Time, k.Difficulty, k.GasLimit)
	for _, p := range k.Pool {
		fmt.Fprintf(&b, "|%x=%x", p.Address, p.Code)
	}
	return b.Bytes()
}

func disasm(code []byte) string {
	var sb strings.Builder
	for i := 0; i < len(code) && sb.Len() < 3000; i++ {
		op := code[i]
		name := refevm.Name(op)
		if name == "" {
			name = fmt.Sprintf("0x%02x", op)
		}
		if op >= 0x60 && op <= 0x7f {
			n := int(op) - 0x5f
			end := i + 1 + n
			if end > len(code) {
				end = len(code)
			}
			fmt.Fprintf(&sb, "%d:%s 0x%x; ", i, name, code[i+1:end])
			i += n
			continue
		}
		fmt.Fprintf(&sb, "%d:%s; ", i, name)
	}
	return sb.String()
}

var (
	defOrigin   = [20]byte{0x0a, 0x11, 19: 0x01}
	defCaller   = [20]byte{0xca, 0x11, 19: 0x02}
	defAddress  = [20]byte{0xc0, 0xde, 19: 0x03}
	defCoinbase = [20]byte{0xc0, 0x1b, 19: 0x04}
)

func newKase(ne namedEpoch, code, input []byte, gas uint64) *kase {
	return &kase{Cfg: ne.Cfg, Number: ne.Number, Code: code, Input: input, Gas: gas,
		Value: big.NewInt(0), GasPrice: big.NewInt(1), Time: big.NewInt(1_600_000_000), Difficulty: big.NewInt(131072),
		GasLimit: 8_000_000, Origin: defOrigin, Caller: defCaller, Address: defAddress, Coinbase: defCoinbase}
}

// blockHash is the environment's block hash oracle: both sides get the same one.
func blockHash(n uint64) (h [32]byte) {
	h[0] = 0xb1
	for i := 0; i < 8; i++ {
		h[31-i] = byte(n >> (8 * uint(i)))
	}
	return h
}

const memSnapshotMax = 2048

// ---------------------------------------------------------------- the real interpreter, observed through a Tracer

// realEvent is an instruction the real interpreter reported (pc, op, gas before).
type realEvent struct {
	PC        uint64
	Op        byte
	GasBefore uint64
}

// realRes is what the real interpreter did. Its steps are compared with the
// reference's while it runs, on the interpreter's own stack and memory (no
// copies): Diff is the first difference among the first len(want) steps.
type realRes struct {
	NSteps  int        // depth-1 steps logged as executed
	Diff    string     // first differing step
	Extra   *realEvent // the first step logged beyond the compared ones
	Fault   *realEvent // the instruction that ended the run with an error
	Ret     []byte
	GasLeft uint64
	Err     error
	Panic   string
	Nested  bool // a frame below the top of a call tree: Ret and GasLeft are not observable
}

type tracer struct {
	res  *realRes
	want []refevm.Step // the steps to compare with
}

func (t *tracer) CaptureStart(from common.Address, to common.Address, call bool, input []byte, gas uint64, value *big.Int) error {
	return nil
}

func (t *tracer) CaptureState(env *vm.EVM, pc uint64, op vm.OpCode, gas, cost uint64, memory *vm.Memory, stack *vm.Stack, contract *vm.Contract, depth int, err error) error {
	if depth != 1 {
		return nil
	}
	if err != nil { // a failure before the instruction was charged (reported through the deferred hook)
		t.res.Fault = &realEvent{PC: pc, Op: byte(op), GasBefore: gas}
		return nil
	}
	i := t.res.NSteps
	t.res.NSteps++
	switch {
	case i < len(t.want):
		if t.res.Diff == "" {
			t.res.Diff = stepDiff(i, pc, byte(op), gas, cost, stack.Data(), len(stack.Data()), memory.Data(), memory.Len(), &t.want[i])
		}
	case i == len(t.want):
		t.res.Extra = &realEvent{PC: pc, Op: byte(op), GasBefore: gas}
	}
	return nil
}

func (t *tracer) CaptureFault(env *vm.EVM, pc uint64, op vm.OpCode, gas, cost uint64, memory *vm.Memory, stack *vm.Stack, contract *vm.Contract, depth int, err error) error {
	if depth != 1 {
		return nil
	}
	t.res.Fault = &realEvent{PC: pc, Op: byte(op), GasBefore: gas}
	return nil
}

func (t *tracer) CaptureEnd(output []byte, gasUsed uint64, d time.Duration, err error) error {
	return nil
}

// runReal executes the case on the real interpreter, comparing its steps with want.
func runReal(k *kase, want []refevm.Step) (res *realRes) {
	res = &realRes{}
	defer func() {
		if r := recover(); r != nil {
			res.Panic = fmt.Sprint(r)
		}
	}()
	db, err := state.New(common.Hash{}, state.NewDatabase(aquadb.NewMemDatabase()))
	if err != nil {
		panic(err)
	}
	addr := common.Address(k.Address)
	db.CreateAccount(addr)
	db.SetNonce(addr, 1)
	db.SetCode(addr, k.Code)
	ctx := vm.Context{
		CanTransfer: func(vm.StateDB, common.Address, *big.Int) bool { return true },
		Transfer:    func(vm.StateDB, common.Address, common.Address, *big.Int) {},
		GetHash:     func(n uint64) common.Hash { return common.Hash(blockHash(n)) },
		Origin:      common.Address(k.Origin),
		GasPrice:    new(big.Int).Set(k.GasPrice),
		Coinbase:    common.Address(k.Coinbase),
		GasLimit:    k.GasLimit,
		BlockNumber: new(big.Int).SetUint64(k.Number),
		Time:        new(big.Int).Set(k.Time),
		Difficulty:  new(big.Int).Set(k.Difficulty),
	}
	evm := vm.NewEVM(ctx, db, k.Cfg.config(), vm.Config{Debug: true, Tracer: &tracer{res: res, want: want}})
	ret, left, cerr := evm.Call(vm.AccountRef(common.Address(k.Caller)), addr, append([]byte(nil), k.Input...), k.Gas, new(big.Int).Set(k.Value))
	res.Ret, res.GasLeft, res.Err = append([]byte(nil), ret...), left, cerr
	return res
}

func runRef(k *kase) *refevm.Result {
	env := &refevm.Env{Address: k.Address, Origin: k.Origin, Caller: k.Caller, Coinbase: k.Coinbase,
		Value: k.Value, GasPrice: k.GasPrice, Time: k.Time, Number: new(big.Int).SetUint64(k.Number), Difficulty: k.Difficulty,
		GasLimit: k.GasLimit, BlockHash: blockHash, Code: k.Code, Input: k.Input, Gas: k.Gas, MemSnapshotMax: memSnapshotMax}
	return refevm.Run(epochOf(k.Cfg.config(), k.Number), env)
}

// classOf maps the real interpreter's error to the specification's condition.
func classOf(err error) (refevm.Exc, bool) {
	s := err.Error()
	switch {
	case strings.HasPrefix(s, "invalid opcode"):
		return refevm.ExcInvalidOp, true
	case strings.HasPrefix(s, "stack underflow"):
		return refevm.ExcStackUnderflow, true
	case strings.HasPrefix(s, "stack limit reached"):
		return refevm.ExcStackOverflow, true
	case err == vm.ErrOutOfGas, s == "gas uint64 overflow":
		return refevm.ExcOutOfGas, true
	case strings.HasPrefix(s, "invalid jump destination"):
		return refevm.ExcBadJump, true
	case s == "evm: return data out of bounds":
		return refevm.ExcReturnDataOOB, true
	}
	return 0, false
}

const revertMsg = "evm: execution reverted"

// knownShapeAt returns the index of the first executed SAR step with value 0
// and shift >= 256 (the recorded finding's exact shape), or -1.
func knownShapeAt(steps []refevm.Step) int {
	for i, s := range steps {
		if s.Op == 0x1d {
			n := len(s.Stack)
			if s.Stack[n-1].Cmp(big.NewInt(256)) >= 0 && s.Stack[n-2].Sign() == 0 {
				return i
			}
		}
	}
	return -1
}

// stepDiff compares one executed instruction with the reference's step. stack
// holds the topmost items of a stack of the given depth (all of them, or a
// window); mem may be nil when only the memory size memLen was kept.
func stepDiff(i int, pc uint64, op byte, gasBefore, cost uint64, stack []*big.Int, depth int, mem []byte, memLen int, s *refevm.Step) string {
	if pc != s.PC || op != s.Op {
		return fmt.Sprintf("step %d: at pc=%d op=%s, specification is at pc=%d op=%s", i, pc, opName(op), s.PC, opName(s.Op))
	}
	where := fmt.Sprintf("step %d (pc=%d %s)", i, s.PC, opName(s.Op))
	if gasBefore != s.GasBefore {
		return fmt.Sprintf("%s: gas before = %d, specification %d", where, gasBefore, s.GasBefore)
	}
	if s.External {
		// an instruction outside the computational subset: only where it is
		// executed and the stack it finds are judged
		return stackDiff(where, stack, depth, s)
	}
	if cost != s.Cost {
		return fmt.Sprintf("%s: charged %d gas, specification %d", where, cost, s.Cost)
	}
	if d := stackDiff(where, stack, depth, s); d != "" {
		return d
	}
	if uint64(memLen) != s.MemSize {
		return fmt.Sprintf("%s: memory size %d, specification %d", where, memLen, s.MemSize)
	}
	if s.Mem != nil && mem != nil && !bytes.Equal(mem, s.Mem) {
		return fmt.Sprintf("%s: memory content differs: %x, specification %x", where, mem, s.Mem)
	}
	return ""
}

func stackDiff(where string, stack []*big.Int, depth int, s *refevm.Step) string {
	if depth != s.Depth {
		return fmt.Sprintf("%s: stack depth %d, specification %d", where, depth, s.Depth)
	}
	for j := 0; j < len(stack) && j < len(s.Stack); j++ { // j-th item from the top
		if a, b := stack[len(stack)-1-j], s.Stack[len(s.Stack)-1-j]; a.Cmp(b) != 0 {
			return fmt.Sprintf("%s: stack[%d from top] = 0x%x, specification 0x%x", where, j, a, b)
		}
	}
	return ""
}

func opName(op byte) string {
	if n := refevm.Name(op); n != "" {
		return n
	}
	return fmt.Sprintf("0x%02x", op)
}

// comparedSteps says how many of the reference's steps are judged and whether
// only that prefix is judged (the run reaches an unmodelled instruction, or an
// instance of the recorded finding).
func comparedSteps(ref *refevm.Result) (upto int, prefixOnly, known bool) {
	if i := knownShapeAt(ref.Steps); i >= 0 && ev.Known(keySAR) {
		return i + 1, true, true
	}
	return len(ref.Steps), ref.Halt == refevm.Unmodelled, false
}

// compare judges one case. It returns "" when the real interpreter did what
// the specification defines.
func compare(k *kase, ref *refevm.Result, real *realRes) string {
	if real.Panic != "" {
		return "the interpreter panicked: " + real.Panic
	}
	upto, prefixOnly, known := comparedSteps(ref)
	if real.Diff != "" {
		return real.Diff
	}
	if real.NSteps < upto {
		return fmt.Sprintf("execution ended after %d steps (err=%v), specification executes %d steps and halts with %v %v", real.NSteps, real.Err, len(ref.Steps), ref.Halt, ref.Exc)
	}
	if known {
		// recorded finding: the result of exactly this instruction instance is
		// wrong; everything up to and including its pre-state and price was judged
		ev.Excluded(keySAR)
		return ""
	}
	if prefixOnly {
		// the next event of the real run must be at the unmodelled instruction
		nxt := real.Extra
		if nxt == nil {
			nxt = real.Fault
		}
		if nxt == nil {
			return fmt.Sprintf("no step at the unmodelled instruction pc=%d %s", ref.EndPC, opName(ref.EndOp))
		}
		if nxt.PC != ref.EndPC || nxt.Op != ref.EndOp || nxt.GasBefore != ref.EndGas {
			return fmt.Sprintf("at the unmodelled instruction: pc=%d op=%s gas=%d, specification pc=%d op=%s gas=%d", nxt.PC, opName(nxt.Op), nxt.GasBefore, ref.EndPC, opName(ref.EndOp), ref.EndGas)
		}
		return ""
	}
	nsteps := real.NSteps
	if ref.Halt == refevm.Exceptional && nsteps == upto+1 && real.Fault != nil {
		// conditions found while executing (bad jump destination, return data
		// bounds) are reported by the tracer after the step itself was logged
		if r := real.Extra; r.PC == ref.EndPC && r.Op == ref.EndOp && r.GasBefore == ref.EndGas {
			nsteps = upto
		}
	}
	if nsteps > upto {
		r := real.Extra
		return fmt.Sprintf("executed a further step (pc=%d %s) where the specification halts with %v %v", r.PC, opName(r.Op), ref.Halt, ref.Exc)
	}
	switch ref.Halt {
	case refevm.Stop, refevm.Return:
		if real.Err != nil {
			return fmt.Sprintf("error %q, specification halts normally (%v)", real.Err, ref.Halt)
		}
	case refevm.Revert:
		if real.Err == nil || real.Err.Error() != revertMsg {
			return fmt.Sprintf("err=%v, specification: REVERT", real.Err)
		}
	case refevm.Exceptional:
		if real.Err == nil || real.Err.Error() == revertMsg {
			return fmt.Sprintf("err=%v, specification: exceptional halt (%v) at pc=%d %s", real.Err, ref.Exc, ref.EndPC, opName(ref.EndOp))
		}
		cl, ok := classOf(real.Err)
		if !ok {
			return fmt.Sprintf("unclassified error %q, specification: %v", real.Err, ref.Exc)
		}
		if cl&ref.Exc == 0 {
			return fmt.Sprintf("halt class %v (%q), specification: %v at pc=%d %s", cl, real.Err, ref.Exc, ref.EndPC, opName(ref.EndOp))
		}
		if real.Fault == nil {
			return "no fault reported to the tracer for an exceptional halt"
		}
		if real.Fault.PC != ref.EndPC || real.Fault.Op != ref.EndOp || real.Fault.GasBefore != ref.EndGas {
			return fmt.Sprintf("fault at pc=%d op=%s gas=%d, specification pc=%d op=%s gas=%d", real.Fault.PC, opName(real.Fault.Op), real.Fault.GasBefore, ref.EndPC, opName(ref.EndOp), ref.EndGas)
		}
	}
	if real.Nested {
		return ""
	}
	if real.GasLeft != ref.GasLeft {
		return fmt.Sprintf("leftover gas %d, specification %d (%v)", real.GasLeft, ref.GasLeft, ref.Halt)
	}
	if !bytes.Equal(real.Ret, ref.Ret) {
		return fmt.Sprintf("return data %x, specification %x (%v)", real.Ret, ref.Ret, ref.Halt)
	}
	return ""
}

// classify adds the labels a reference run earns.
func classify(k *kase, ep refevm.Epoch, ref *refevm.Result) []string {
	seen := map[string]bool{}
	add := func(l string) { seen[l] = true }
	add(epochLabel(ep))
	two64 := new(big.Int).Lsh(big.NewInt(1), 64)
	for i := range ref.Steps {
		s := &ref.Steps[i]
		add("op:" + refevm.Name(s.Op))
		pops, _ := refevm.Arity(s.Op)
		n := len(s.Stack)
		if s.Op < 0x60 || s.Op > 0x9f {
			for j := 0; j < pops; j++ {
				v := s.Stack[n-1-j]
				switch {
				case v.Sign() == 0:
					add("operand:0")
				case v.Cmp(refevm.Two255) == 0:
					add("operand:2^255")
				case v.Cmp(refevm.MaxWord) == 0:
					add("operand:2^256-1")
				}
			}
		}
		switch s.Op {
		case 0x1b, 0x1c, 0x1d:
			if s.Stack[n-1].Cmp(big.NewInt(256)) >= 0 {
				add("shift>=256")
			}
		case 0x0a:
			add(fmt.Sprintf("exp-bytes:%d/G=%d", (s.Stack[n-2].BitLen()+7)/8, ep.ExpByteGas))
		case 0x37, 0x39:
			if s.Stack[n-2].Cmp(two64) >= 0 && s.Stack[n-3].Sign() > 0 {
				add("copy-src-offset>=2^64")
			}
		case 0x0b:
			if s.Stack[n-1].Cmp(big.NewInt(31)) >= 0 {
				add("signextend-k>=31")
			}
		case 0x05:
			if s.Stack[n-1].Cmp(refevm.Two255) == 0 && s.Stack[n-2].Cmp(refevm.MaxWord) == 0 {
				add("sdiv-min/-1")
			}
		case 0x57:
			if s.Stack[n-2].Sign() == 0 {
				add("jumpi-not-taken")
			}
		case 0x00:
			if s.PC >= uint64(len(k.Code)) {
				add("run-off-code-end")
			}
		}
		if s.Op >= 0x60 && s.Op <= 0x7f && s.PC+1+uint64(s.Op-0x5f) > uint64(len(k.Code)) {
			add("push-truncated")
		}
	}
	if ref.JumpsTaken > 0 {
		add("jump-taken")
	}
	if ref.MemExpanded {
		add("mem-expansion")
	}
	switch ref.Halt {
	case refevm.Stop:
		add("halt:stop")
	case refevm.Return:
		add("halt:return")
	case refevm.Revert:
		add("halt:revert")
	case refevm.Unmodelled:
		add("halt:unmodelled-prefix")
	case refevm.Exceptional:
		for _, n := range strings.Split(ref.Exc.String(), "|") {
			add("halt:" + n)
		}
		if n := len(ref.EndStack); n > 0 {
			top := ref.EndStack[n-1]
			if ref.Exc&refevm.ExcBadJump != 0 && top.IsUint64() && top.Uint64() < uint64(len(k.Code)) && k.Code[top.Uint64()] == 0x5b {
				add("jump-into-pushdata") // a 0x5b byte that is PUSH data
			}
			if (ref.EndOp == 0x37 || ref.EndOp == 0x39) && n >= 3 && top.Cmp(two64) >= 0 && ref.EndStack[n-3].Sign() > 0 {
				add("copy-mem-offset>=2^64")
			}
		}
	}
	out := make([]string, 0, len(seen))
	for l := range seen {
		out = append(out, l)
	}
	sort.Strings(out)
	return out
}

// judge runs both interpreters on k and returns the reference result, the
// labels, and the problem ("" = conforming).
func judge(k *kase) (*refevm.Result, []string, string) {
	ref := runRef(k)
	upto, _, _ := comparedSteps(ref)
	real := runReal(k, ref.Steps[:upto])
	problem := compare(k, ref, real)
	return ref, classify(k, epochOf(k.Cfg.config(), k.Number), ref), problem
}

// ---------------------------------------------------------------- replay and corpus

func loadCase(path string) (*kase, error) {
	b, err := os.ReadFile(path)
	if err != nil {
		return nil, err
	}
	var j kaseJSON
	if err := json.Unmarshal(b, &j); err != nil {
		return nil, err
	}
	return fromJSON(j)
}

// TestReplay re-runs one saved case file without rapid.
func TestReplay(t *testing.T) {
	p := ev.ReplayPath()
	if p == "" {
		t.Skip("no VERIF_REPLAY")
	}
	k, err := loadCase(p)
	if err != nil {
		t.Fatalf("cannot load %s: %v", p, err)
	}
	if _, _, problem := judge(k); problem != "" {
		t.Fatalf("%s\ncase: %s", problem, mustJSON(k.toJSON(problem)))
	}
	if _, _, problem, _ := judgeTree(k); problem != "" {
		t.Fatalf("%s\ncase: %s", problem, mustJSON(k.toJSON(problem)))
	}
}

func mustJSON(v interface{}) string {
	b, _ := json.Marshal(v)
	return string(b)
}

// TestCorpus replays every saved case under corpus/C08.
func TestCorpus(t *testing.T) {
	dir := os.Getenv("VERIF_CORPUS")
	ents, _ := os.ReadDir(dir)
	for _, e := range ents {
		if !strings.HasSuffix(e.Name(), ".json") {
			continue
		}
		k, err := loadCase(dir + "/" + e.Name())
		if err != nil {
			t.Errorf("%s: %v", e.Name(), err)
			continue
		}
		ref, lbls, problem := judge(k)
		ev.Case(true, k.canon("corpus"), append(lbls, "corpus")...)
		_ = ref
		if problem == "" {
			_, _, problem, _ = judgeTree(k)
		}
		if problem != "" {
			ev.SaveCase("corpus-"+strings.TrimSuffix(e.Name(), ".json"), k.toJSON(problem))
			t.Errorf("%s: %s", e.Name(), problem)
		}
	}
}
