package c08

import (
	"encoding/binary"
	"encoding/json"
	"fmt"
	"math/big"
	"os"
	"sort"
	"strings"
	"testing"

	"pgregory.net/rapid"
	"verifharness/c08/refevm"
	"verifharness/ev"
)

// ---------------------------------------------------------------- words

func pow2(n uint) *big.Int { return new(big.Int).Lsh(big.NewInt(1), n) }
func sub(a *big.Int, d int64) *big.Int {
	return new(big.Int).Sub(a, big.NewInt(d))
}
func add(a *big.Int, d int64) *big.Int {
	return new(big.Int).Add(a, big.NewInt(d))
}

// lattice is the boundary-value lattice of the enumerated leg.
var lattice = []*big.Int{
	big.NewInt(0), big.NewInt(1), big.NewInt(2), big.NewInt(31), big.NewInt(32), big.NewInt(33),
	big.NewInt(255), big.NewInt(256), big.NewInt(257),
	sub(pow2(63), 1), pow2(63), sub(pow2(64), 1), pow2(64),
	sub(pow2(255), 1), pow2(255), add(pow2(255), 1), sub(pow2(256), 2), sub(pow2(256), 1),
}

func wrapWord(x *big.Int) *big.Int { return new(big.Int).Mod(x, refevm.Two256) }

func genWord() *rapid.Generator[*big.Int] {
	return rapid.Custom(func(t *rapid.T) *big.Int {
		switch rapid.IntRange(0, 10).Draw(t, "wkind") {
		case 0, 1:
			return lattice[rapid.IntRange(0, len(lattice)-1).Draw(t, "lat")]
		case 2:
			l := lattice[rapid.IntRange(0, len(lattice)-1).Draw(t, "lat")]
			return wrapWord(add(l, int64(rapid.IntRange(-3, 3).Draw(t, "delta"))))
		case 3, 4:
			return new(big.Int).SetBytes(rapid.SliceOfN(rapid.Byte(), 32, 32).Draw(t, "w32"))
		case 5:
			return big.NewInt(int64(rapid.IntRange(0, 300).Draw(t, "small")))
		case 6:
			n := rapid.IntRange(0, 32).Draw(t, "nbytes")
			b := rapid.SliceOfN(rapid.Byte(), n, n).Draw(t, "wn")
			if n > 0 && b[0] == 0 {
				b[0] = 1
			}
			return new(big.Int).SetBytes(b)
		case 7:
			p := pow2(uint(rapid.IntRange(0, 255).Draw(t, "pow")))
			return wrapWord(add(p, int64(rapid.IntRange(-1, 1).Draw(t, "pd"))))
		case 8: // small negative numbers
			return wrapWord(new(big.Int).Neg(big.NewInt(int64(rapid.IntRange(1, 70000).Draw(t, "neg")))))
		case 9:
			return new(big.Int).SetUint64(rapid.Uint64().Draw(t, "u64"))
		default: // high bytes 0xff.., random tail: sign-extended shapes
			n := rapid.IntRange(1, 31).Draw(t, "ffn")
			b := make([]byte, 32)
			for i := 0; i < n; i++ {
				b[i] = 0xff
			}
			copy(b[n:], rapid.SliceOfN(rapid.Byte(), 32-n, 32-n).Draw(t, "tail"))
			return new(big.Int).SetBytes(b)
		}
	})
}

// drawOperands draws the operands of op (index 0 = top of the stack) from
// distributions that keep the interesting region of each instruction likely.
func drawOperands(t *rapid.T, op byte, inputLen, codeLen int, number uint64) []*big.Int {
	pops, _ := refevm.Arity(op)
	out := make([]*big.Int, pops)
	for i := range out {
		out[i] = genWord().Draw(t, "operand")
	}
	small := func(max int, l string) *big.Int { return big.NewInt(int64(rapid.IntRange(0, max).Draw(t, l))) }
	tailored := rapid.IntRange(0, 9).Draw(t, "tailored") < 7
	if !tailored {
		return out
	}
	switch op {
	case 0x51, 0x52, 0x53: // MLOAD, MSTORE, MSTORE8
		out[0] = small(200, "moff")
	case 0x20, 0xf3, 0xfd: // SHA3, RETURN, REVERT
		out[0], out[1] = small(150, "moff"), small(100, "mlen")
	case 0x37, 0x39, 0x3e:
		out[0] = small(150, "moff")
		src := inputLen
		if op == 0x39 {
			src = codeLen
		}
		if rapid.Bool().Draw(t, "srcsmall") {
			out[1] = small(src+40, "soff")
		}
		out[2] = small(100, "clen")
		if op == 0x3e && rapid.Bool().Draw(t, "rdc0") {
			out[1], out[2] = big.NewInt(0), big.NewInt(0)
		}
	case 0x1b, 0x1c, 0x1d:
		out[0] = small(260, "shift")
	case 0x0b:
		out[0] = small(40, "k")
	case 0x1a:
		out[0] = small(40, "i")
	case 0x35:
		out[0] = small(inputLen+40, "cdoff")
	case 0x40:
		d := int64(rapid.IntRange(-300, 5).Draw(t, "bhd"))
		v := new(big.Int).Add(new(big.Int).SetUint64(number), big.NewInt(d))
		if v.Sign() < 0 {
			v.SetInt64(0)
		}
		out[0] = v
	}
	return out
}

// ---------------------------------------------------------------- tiny assembler

type asm struct{ b []byte }

func (a *asm) op(ops ...byte) *asm { a.b = append(a.b, ops...); return a }

// push emits the shortest PUSH holding v (PUSH1 0 for zero).
func (a *asm) push(v *big.Int) *asm { return a.pushN(v, 0) }

// pushN emits PUSHn with n >= the minimal width (n = 0: minimal).
func (a *asm) pushN(v *big.Int, n int) *asm {
	b := v.Bytes()
	if len(b) == 0 {
		b = []byte{0}
	}
	if n < len(b) {
		n = len(b)
	}
	if n > 32 {
		panic("word too wide")
	}
	a.b = append(a.b, byte(0x5f+n))
	a.b = append(a.b, make([]byte, n-len(b))...)
	a.b = append(a.b, b...)
	return a
}

func (a *asm) pushU(v uint64) *asm { return a.push(new(big.Int).SetUint64(v)) }

// fixedInput is the call data of the enumerated legs: 70 non-zero bytes.
var fixedInput = func() []byte {
	b := make([]byte, 70)
	for i := range b {
		b[i] = byte(0xa0 + i%0x50)
	}
	return b
}()

var memPattern1 = new(big.Int).SetBytes([]byte("\x01\x02\x03\x04\x05\x06\x07\x08\x09\x0a\x0b\x0c\x0d\x0e\x0f\x10\x11\x12\x13\x14\x15\x16\x17\x18\x19\x1a\x1b\x1c\x1d\x1e\x1f\x20"))
var memPattern2 = new(big.Int).SetBytes([]byte("\xf1\xf2\xf3\xf4\xf5\xf6\xf7\xf8\xf9\xfa\xfb\xfc\xfd\xfe\xff\xe0\xe1\xe2\xe3\xe4\xe5\xe6\xe7\xe8\xe9\xea\xeb\xec\xed\xee\xef\x5b"))

// tupleProgram applies op to the operands (index 0 = top) and makes the
// result observable: a pushed result is stored and returned, otherwise the
// whole memory is returned. For JUMP/JUMPI the code continues with a field of
// destinations some of which are valid, one is a PUSH opcode and one is a
// 0x5b byte inside PUSH data.
func tupleProgram(op byte, operands []*big.Int, prefill bool) []byte {
	a := &asm{}
	if prefill {
		a.pushN(memPattern1, 32).pushU(0).op(0x52)
		a.pushN(memPattern2, 32).pushU(32).op(0x52)
	}
	for i := len(operands) - 1; i >= 0; i-- {
		a.pushN(operands[i], 32)
	}
	a.op(op)
	_, pushes := refevm.Arity(op)
	switch {
	case op == 0x56 || op == 0x57:
		// field: JUMPDEST everywhere up to 300, except 255 = PUSH1, 256 = its data byte 0x5b
		for len(a.b) < 300 {
			switch len(a.b) {
			case 255:
				a.op(0x60)
			default:
				a.op(0x5b)
			}
		}
	case pushes == 1 && op < 0x80:
		a.pushU(0).op(0x52).pushU(32).pushU(0).op(0xf3)
	default:
		a.op(0x59).pushU(0).op(0xf3) // MSIZE PUSH1 0 RETURN
	}
	return a.b
}

// instructionExecuted reports whether the reference executed the instruction
// at pc (the tuple legs' non-triviality rule).
func instructionExecuted(ref *refevm.Result, op byte) bool {
	for i := range ref.Steps {
		if ref.Steps[i].Op == op {
			return true
		}
	}
	return false
}

func isKnownSARTuple(op byte, operands []*big.Int) bool {
	return op == 0x1d && operands[1].Sign() == 0 && operands[0].Cmp(big.NewInt(256)) >= 0
}

type failSink struct {
	t      *testing.T
	leg    string
	failed int
}

func (f *failSink) report(k *kase, problem string) {
	f.failed++
	if f.failed <= 3 {
		p := ev.SaveCase(fmt.Sprintf("%s-%d", f.leg, f.failed), k.toJSON(problem))
		f.t.Errorf("%s: %s\n  case saved to %s\n  %s", f.leg, problem, p, mustJSON(k.toJSON(problem)))
	}
}

// ---------------------------------------------------------------- leg 1: the lattice, enumerated

// tupleOps are the modelled instructions that take 1..3 operands and are not DUP/SWAP.
func tupleOps() []byte {
	var out []byte
	for op := 0; op < 256; op++ {
		pops, _ := refevm.Arity(byte(op))
		if refevm.Modelled(byte(op)) && pops >= 1 && pops <= 3 && (op < 0x80 || op > 0x9f) {
			out = append(out, byte(op))
		}
	}
	return out
}

func usesMemory(op byte) bool {
	switch op {
	case 0x20, 0x37, 0x39, 0x3e, 0x51, 0x52, 0x53, 0xf3, 0xfd:
		return true
	}
	return false
}

// subLattice is the reduced lattice used for three-operand instructions in
// the epochs that repeat an instruction set already enumerated in full (quick
// tier only; the thorough tier enumerates the full lattice everywhere).
var subLattice = []int{0, 1, 4, 5, 7, 11, 12, 14, 17} // 0, 1, 32, 33, 256, 2^64-1, 2^64, 2^255, 2^256-1

// fullEpoch: the epochs whose three-operand tuples are enumerated over the
// full lattice in the quick tier (the oldest and the newest instruction set
// and both EXP prices between them).
func fullEpoch(ei int) bool { return ev.Thorough() || ei == 1 || ei == 4 }

func TestLattice(t *testing.T) {
	sink := &failSink{t: t, leg: "lattice"}
	shard, nsh := ev.Shard(), ev.NShards()
	idx := 0
	for ei, ne := range baseEpochs {
		ep := epochOf(ne.Cfg.config(), ne.Number)
		for _, op := range tupleOps() {
			if !refevm.Valid(ep, op) {
				continue // its invalidity is decided by the single-byte leg
			}
			pops, _ := refevm.Arity(op)
			passes := 1
			if usesMemory(op) {
				passes = 2
			}
			points := make([]int, len(lattice))
			for i := range points {
				points[i] = i
			}
			if pops == 3 && !fullEpoch(ei) {
				points = subLattice
			}
			n := 1
			for i := 0; i < pops; i++ {
				n *= len(points)
			}
			for pass := 0; pass < passes; pass++ {
				for c := 0; c < n; c++ {
					idx++
					if idx%nsh != shard {
						continue
					}
					operands := make([]*big.Int, pops)
					cls := make([]byte, pops)
					for i, r := 0, c; i < pops; i++ {
						operands[i], cls[i] = lattice[points[r%len(points)]], byte(points[r%len(points)])
						r /= len(points)
					}
					if isKnownSARTuple(op, operands) && ev.Known(keySAR) {
						ev.Excluded(keySAR)
						continue
					}
					k := newKase(ne, tupleProgram(op, operands, pass == 1), fixedInput, 100_000)
					ref, lbls, problem := judge(k)
					canon := append([]byte{'L', byte(ei), op, byte(pass)}, cls...)
					ev.Case(instructionExecuted(ref, op), canon, append(lbls, "leg:lattice")...)
					if idx%20011 == 0 {
						ev.Sample(map[string]interface{}{"leg": "lattice", "op": refevm.Name(op), "epoch": epochLabel(ep), "operands": fmt.Sprintf("%x", operands), "halt": ref.Halt.String(), "gasLeft": ref.GasLeft})
					}
					if problem != "" {
						sink.report(k, problem)
						if sink.failed > 20 {
							return
						}
					}
				}
			}
		}
	}
	if sink.failed == 0 {
		if ev.Thorough() {
			ev.Exhaustive(fmt.Sprintf("every modelled 1..3-operand instruction x every operand tuple over the %d-point lattice x %d epochs (memory instructions also with pre-filled memory)", len(lattice), len(baseEpochs)))
		} else {
			ev.Exhaustive(fmt.Sprintf("every modelled 1..2-operand instruction x every operand tuple over the %d-point lattice x %d epochs; 3-operand instructions over the full lattice in the homestead/G=10 and HF5+Byzantium/G=50 epochs and over a %d-point sub-lattice in the other %d (memory instructions also with pre-filled memory)", len(lattice), len(baseEpochs), len(subLattice), len(baseEpochs)-2))
		}
	}
}

// TestExpByteLengths enumerates EXP over every exponent byte length 0..32
// (smallest and largest exponent of the length) x lattice bases x epochs.
func TestExpByteLengths(t *testing.T) {
	sink := &failSink{t: t, leg: "exp"}
	var exps []*big.Int
	exps = append(exps, big.NewInt(0))
	for n := 1; n <= 32; n++ {
		exps = append(exps, pow2(uint(8*(n-1))), sub(pow2(uint(8*n)), 1))
	}
	bases := append([]*big.Int{big.NewInt(3), big.NewInt(0x100), sub(pow2(128), 1)}, lattice...)
	for ei, ne := range baseEpochs {
		for xi, e := range exps {
			for bi, b := range bases {
				k := newKase(ne, tupleProgram(0x0a, []*big.Int{b, e}, false), nil, 100_000)
				ref, lbls, problem := judge(k)
				ev.Case(instructionExecuted(ref, 0x0a), []byte{'X', byte(ei), byte(xi), byte(bi)}, append(lbls, "leg:lattice")...)
				if problem != "" {
					sink.report(k, problem)
				}
			}
		}
	}
	if sink.failed == 0 {
		ev.Exhaustive("EXP with the smallest and largest exponent of every byte length 0..32 x 21 bases x all epochs")
	}
}

// TestDupSwap enumerates DUP1..16 and SWAP1..16 over stacks of every depth
// 0..17 holding distinct lattice words.
func TestDupSwap(t *testing.T) {
	sink := &failSink{t: t, leg: "dupswap"}
	for ei, ne := range baseEpochs[1:3] {
		for op := 0x80; op <= 0x9f; op++ {
			for depth := 0; depth <= 17; depth++ {
				a := &asm{}
				for i := 0; i < depth; i++ {
					a.pushN(wrapWord(add(lattice[i%len(lattice)], int64(i))), 1+(i*7)%32)
				}
				a.op(byte(op))
				// fold the whole stack into memory so every slot is observable in the return data
				for i := 0; i < depth+1; i++ {
					a.pushU(uint64(32 * i)).op(0x52)
				}
				a.op(0x59).pushU(0).op(0xf3)
				k := newKase(ne, a.b, nil, 100_000)
				ref, lbls, problem := judge(k)
				ev.Case(instructionExecuted(ref, byte(op)), []byte{'D', byte(ei), byte(op), byte(depth)}, append(lbls, "leg:lattice")...)
				if problem != "" {
					sink.report(k, problem)
				}
			}
		}
	}
	if sink.failed == 0 {
		ev.Exhaustive("DUP1..16 and SWAP1..16 on stacks of every depth 0..17")
	}
}

// TestEnvironment enumerates the zero-operand instructions over the lattice
// of environment values.
func TestEnvironment(t *testing.T) {
	sink := &failSink{t: t, leg: "env"}
	ops := []byte{0x30, 0x32, 0x33, 0x34, 0x36, 0x38, 0x3a, 0x3d, 0x41, 0x42, 0x43, 0x44, 0x45, 0x58, 0x59, 0x5a}
	for ei, ne := range baseEpochs {
		ep := epochOf(ne.Cfg.config(), ne.Number)
		for li, v := range lattice {
			for _, inLen := range []int{0, 1, 31, 32, 33, 70} {
				a := &asm{}
				slot := uint64(0)
				for _, op := range ops {
					if !refevm.Valid(ep, op) {
						continue
					}
					a.op(op).pushU(slot).op(0x52)
					slot += 32
				}
				a.op(0x5b).op(0x59).pushU(0).op(0xf3)
				k := newKase(ne, a.b, fixedInput[:inLen], 100_000)
				k.Value, k.GasPrice, k.Time, k.Difficulty = v, lattice[(li+1)%len(lattice)], lattice[(li+2)%len(lattice)], lattice[(li+3)%len(lattice)]
				if v.IsUint64() {
					k.GasLimit = v.Uint64()
				}
				var ad [20]byte
				copy(ad[:], v.FillBytes(make([]byte, 32))[12:])
				k.Address, k.Origin, k.Caller, k.Coinbase = ad, [20]byte{19: byte(li)}, [20]byte{0xff, 0xff, 19: byte(li + 1)}, [20]byte{1: 0x01, 18: byte(li)}
				k.Address[0], k.Address[1] = 0xc0, 0xde // never a precompile
				_, lbls, problem := judge(k)
				ev.Case(true, []byte{0x45, byte(ei), byte(li), byte(inLen)}, append(lbls, "leg:env")...)
				if problem != "" {
					sink.report(k, problem)
				}
			}
		}
	}
	if sink.failed == 0 {
		ev.Exhaustive("zero-operand environment / block / PC / MSIZE / GAS instructions x lattice of environment values x all epochs")
	}
}

// ---------------------------------------------------------------- leg 4: single-byte programs, fork boundaries

func epochPoints() []namedEpoch {
	pts := append([]namedEpoch{}, baseEpochs...)
	for _, name := range []string{"mainnet", "testnet", "testnet2", "testnet3", "test", "all"} {
		c := shipped[name]
		for _, h := range forkHeights(c) {
			for _, d := range []int64{-1, 0, 1} {
				if int64(h)+d < 0 {
					continue
				}
				pts = append(pts, namedEpoch{cfgSpec{Name: name}, uint64(int64(h) + d)})
			}
		}
		pts = append(pts, namedEpoch{cfgSpec{Name: name}, 10_000_000})
	}
	// synthetic: forks in the other order and far apart
	pts = append(pts,
		namedEpoch{cfgSpec{Homestead: u64p(0), Byzantium: u64p(100), HF: map[string]uint64{"1": 50, "5": 200}}, 99},
		namedEpoch{cfgSpec{Homestead: u64p(0), Byzantium: u64p(100), HF: map[string]uint64{"1": 50, "5": 200}}, 100},
		namedEpoch{cfgSpec{Homestead: u64p(0), Byzantium: u64p(100), HF: map[string]uint64{"1": 50, "5": 200}}, 199},
		namedEpoch{cfgSpec{Homestead: u64p(0), Byzantium: u64p(100), HF: map[string]uint64{"1": 50, "5": 200}}, 200},
		namedEpoch{cfgSpec{Homestead: u64p(7), HF: map[string]uint64{"1": 3}}, 6},
		namedEpoch{cfgSpec{Homestead: u64p(7), HF: map[string]uint64{"1": 3}}, 7},
		namedEpoch{cfgSpec{Homestead: u64p(0), HF: map[string]uint64{"5": 1 << 40}}, 1<<40 - 1},
		namedEpoch{cfgSpec{Homestead: u64p(0), HF: map[string]uint64{"5": 1 << 40}}, 1 << 40},
	)
	return pts
}

// boundaryLabels says whether (cfg, number) sits at, or one before, a height
// where the epoch changes.
func boundaryLabels(ne namedEpoch) []string {
	c := ne.Cfg.config()
	var out []string
	here := epochOf(c, ne.Number)
	if ne.Number > 0 && epochOf(c, ne.Number-1) != here {
		out = append(out, "fork-boundary:at")
	}
	if epochOf(c, ne.Number+1) != here {
		out = append(out, "fork-boundary:before")
	}
	return out
}

func TestSingleByte(t *testing.T) {
	sink := &failSink{t: t, leg: "singlebyte"}
	shard, nsh := ev.Shard(), ev.NShards()
	pts := epochPoints()
	for pi, ne := range pts {
		if pi%nsh != shard {
			continue
		}
		ep := epochOf(ne.Cfg.config(), ne.Number)
		bl := boundaryLabels(ne)
		for b := 0; b < 256; b++ {
			for variant := 0; variant < 2; variant++ {
				a := &asm{}
				if variant == 1 {
					for i := 0; i < 17; i++ {
						a.pushU(uint64(i + 1))
					}
				}
				a.op(byte(b))
				if variant == 1 {
					a.op(0x00)
				}
				k := newKase(ne, a.b, fixedInput, 200_000)
				_, lbls, problem := judge(k)
				v := "single-byte:invalid"
				if refevm.Valid(ep, byte(b)) {
					v = "single-byte:valid"
				}
				lbls = append(lbls, "leg:single-byte", v)
				lbls = append(lbls, bl...)
				ev.Case(true, k.canon("single"), lbls...)
				if problem != "" {
					sink.report(k, problem)
					if sink.failed > 20 {
						return
					}
				}
			}
		}
	}
	if sink.failed == 0 {
		ev.Exhaustive(fmt.Sprintf("all 256 one-byte programs (bare, and behind 17 pushes) at %d (config, height) points: 7 epochs and h-1,h,h+1 of every fork of every shipped config", len(pts)))
	}
}

// ---------------------------------------------------------------- leg 5: crafted corner programs

type crafted struct {
	name  string
	code  []byte
	input []byte
	gas   uint64
}

func craftedPrograms() []crafted {
	var out []crafted
	addc := func(name string, code []byte, gas uint64) { out = append(out, crafted{name, code, fixedInput, gas}) }
	// stack overflow by a loop: JUMPDEST PC PUSH1 0 JUMP leaves one word per turn
	addc("overflow-loop", (&asm{}).op(0x5b, 0x58).pushU(0).op(0x56).b, 100_000)
	// stack overflow straight-line: PUSH1 0 then 1024 x DUP1
	a := (&asm{}).pushU(7)
	for i := 0; i < 1024; i++ {
		a.op(0x80)
	}
	addc("overflow-dup", a.b, 100_000)
	// exactly 1024 items is fine
	a = (&asm{}).pushU(7)
	for i := 0; i < 1023; i++ {
		a.op(0x80)
	}
	addc("stack-1024-ok", a.b, 100_000)
	// out of gas inside an infinite loop
	addc("oog-loop", (&asm{}).op(0x5b).pushU(0).op(0x56).b, 5_000)
	// PUSH32 truncated by the end of the code, at every truncation length
	for n := 0; n <= 32; n += 8 {
		c := append([]byte{0x7f}, make([]byte, n)...)
		for i := 1; i < len(c); i++ {
			c[i] = byte(0x10 + i)
		}
		addc(fmt.Sprintf("push32-truncated-%d", n), c, 1000)
	}
	// JUMPDEST bytes inside PUSH data of every width: jump to each data byte
	for _, w := range []int{1, 2, 8, 9, 16, 17, 31, 32} {
		for pos := 0; pos < w; pos += 3 {
			data := make([]byte, w)
			for i := range data {
				data[i] = 0x5b
			}
			b := (&asm{}).pushU(uint64(4+1+pos)).op(0x56, 0x00)
			// code so far: PUSH1 x JUMP STOP = 4 bytes; then PUSHw data; then JUMPDEST STOP
			b.op(byte(0x5f+w)).op(data...).op(0x5b, 0x00)
			addc(fmt.Sprintf("jump-into-push%d-data-%d", w, pos), b.b, 1000)
		}
		// and the first byte after the data is a real JUMPDEST
		b := (&asm{}).pushU(uint64(4+1+w)).op(0x56, 0x00)
		data := make([]byte, w)
		for i := range data {
			data[i] = 0x5b
		}
		b.op(byte(0x5f+w)).op(data...).op(0x5b, 0x00)
		addc(fmt.Sprintf("jump-after-push%d-data", w), b.b, 1000)
	}
	// a PUSH whose data is cut by the end of the code followed by nothing: jump past the end
	addc("jump-past-end", (&asm{}).pushU(200).op(0x56).b, 1000)
	addc("jump-to-2^63", (&asm{}).push(pow2(63)).op(0x56).b, 1000)
	addc("jump-to-2^64+jumpdest", (&asm{}).push(add(pow2(64), 35)).op(0x56, 0x5b).b, 1000)
	// memory: quadratic region and the largest offsets
	for _, off := range []uint64{0, 31, 32, 704, 705, 736, 737, 1 << 16, 1 << 20, 1<<32 - 32, 1<<32 - 31, 0xffffffffe0 - 32, 0xffffffffe0 - 31, 0xffffffffe0, 1<<63 - 32, 1<<64 - 33, 1<<64 - 32, 1<<64 - 1} {
		addc(fmt.Sprintf("mstore-%d", off), (&asm{}).pushU(1).pushU(off).op(0x52, 0x59).pushU(0).op(0x52).b, 3_000_000)
		addc(fmt.Sprintf("mload-%d", off), (&asm{}).pushU(off).op(0x51, 0x59).b, 3_000_000)
		addc(fmt.Sprintf("mstore8-%d", off), (&asm{}).pushU(0xabcd).pushU(off).op(0x53, 0x59).b, 3_000_000)
		addc(fmt.Sprintf("sha3-len0-%d", off), (&asm{}).pushU(0).pushU(off).op(0x20).b, 1000)
		addc(fmt.Sprintf("return-len0-%d", off), (&asm{}).pushU(0).pushU(off).op(0xf3).b, 1000)
		addc(fmt.Sprintf("calldatacopy-len0-%d", off), (&asm{}).pushU(0).pushU(off).pushU(off).op(0x37, 0x59).b, 1000)
		addc(fmt.Sprintf("calldatacopy-src-%d", off), (&asm{}).pushU(40).pushU(off).pushU(3).op(0x37, 0x59).pushU(0).op(0xf3).b, 1000)
		addc(fmt.Sprintf("codecopy-src-%d", off), (&asm{}).pushU(40).pushU(off).pushU(3).op(0x39, 0x59).pushU(0).op(0xf3).b, 1000)
		addc(fmt.Sprintf("calldataload-%d", off), (&asm{}).pushU(off).op(0x35).pushU(0).op(0x52).pushU(32).pushU(0).op(0xf3).b, 1000)
		addc(fmt.Sprintf("sha3-len-%d", off), (&asm{}).pushU(off).pushU(0).op(0x20).b, 3_000_000)
	}
	// offset + length overflowing 2^64 and 2^256
	addc("mem-off+len-2^64", (&asm{}).pushU(2).pushU(1<<64-1).op(0xf3).b, 100_000)
	addc("mem-off+len-2^256", (&asm{}).push(sub(pow2(256), 1)).push(sub(pow2(256), 1)).op(0x20).b, 100_000)
	addc("copy-len-2^256-1", (&asm{}).push(sub(pow2(256), 1)).pushU(0).pushU(0).op(0x37).b, 100_000)
	// SHA3 of known memory
	addc("sha3-abc", (&asm{}).push(new(big.Int).SetBytes([]byte("abc"))).pushU(0).op(0x52).pushU(3).pushU(29).op(0x20).pushU(0).op(0x52).pushU(32).pushU(0).op(0xf3).b, 1000)
	addc("sha3-empty", (&asm{}).pushU(0).pushU(0).op(0x20).pushU(0).op(0x52).pushU(32).pushU(0).op(0xf3).b, 1000)
	// REVERT / RETURN with data; RETURNDATACOPY in and out of bounds
	addc("revert-data", (&asm{}).push(memPattern1).pushU(0).op(0x52).pushU(7).pushU(3).op(0xfd).b, 1000)
	addc("return-data", (&asm{}).push(memPattern1).pushU(0).op(0x52).pushU(7).pushU(3).op(0xf3).b, 1000)
	addc("returndatacopy-0-0", (&asm{}).pushU(0).pushU(0).pushU(0).op(0x3e, 0x3d, 0x59).b, 1000)
	addc("returndatacopy-0-1", (&asm{}).pushU(1).pushU(0).pushU(0).op(0x3e).b, 1000)
	addc("returndatacopy-1-0", (&asm{}).pushU(0).pushU(1).pushU(0).op(0x3e).b, 1000)
	addc("returndatacopy-big-0", (&asm{}).pushU(0).push(sub(pow2(256), 1)).pushU(0).op(0x3e).b, 1000)
	addc("returndatacopy-mem-big-len0", (&asm{}).pushU(0).pushU(0).push(sub(pow2(256), 1)).op(0x3e, 0x59).b, 1000)
	// GAS, PC, MSIZE interplay
	addc("gas-pc-msize", (&asm{}).op(0x5a, 0x58, 0x59).pushU(100).op(0x51, 0x59, 0x5a, 0x58).b, 1000)
	// BLOCKHASH window
	for _, d := range []int64{-258, -257, -256, -255, -1, 0, 1} {
		// number + d computed at run time: NUMBER PUSH d ADD BLOCKHASH
		addc(fmt.Sprintf("blockhash%+d", d), (&asm{}).push(wrapWord(big.NewInt(d))).op(0x43, 0x01, 0x40).pushU(0).op(0x52).pushU(32).pushU(0).op(0xf3).b, 1000)
	}
	// single boundary tuples every shard must see
	addc("sdiv-min/-1", tupleProgram(0x05, []*big.Int{pow2(255), sub(pow2(256), 1)}, false), 1000)
	addc("smod-min/-1", tupleProgram(0x07, []*big.Int{pow2(255), sub(pow2(256), 1)}, false), 1000)
	addc("signextend-31", tupleProgram(0x0b, []*big.Int{big.NewInt(31), pow2(255)}, false), 1000)
	addc("signextend-30", tupleProgram(0x0b, []*big.Int{big.NewInt(30), pow2(247)}, false), 1000)
	addc("sar-neg-256", tupleProgram(0x1d, []*big.Int{big.NewInt(256), pow2(255)}, false), 1000)
	addc("sar-pos-256", tupleProgram(0x1d, []*big.Int{big.NewInt(256), big.NewInt(1)}, false), 1000)
	addc("shl-256", tupleProgram(0x1b, []*big.Int{big.NewInt(256), big.NewInt(1)}, false), 1000)
	addc("shr-2^64", tupleProgram(0x1c, []*big.Int{pow2(64), sub(pow2(256), 1)}, false), 1000)
	addc("byte-31", tupleProgram(0x1a, []*big.Int{big.NewInt(31), big.NewInt(0x1234)}, false), 1000)
	addc("byte-2^64", tupleProgram(0x1a, []*big.Int{pow2(64), sub(pow2(256), 1)}, false), 1000)
	// INVALID and bytes never assigned
	addc("invalid-fe", []byte{0x60, 0x01, 0xfe}, 1000)
	addc("undefined-0c", []byte{0x60, 0x01, 0x0c}, 1000)
	// the unmodelled family behind enough stack (prefix comparison)
	addc("sstore-prefix", (&asm{}).pushU(1).pushU(2).op(0x01).pushU(0).op(0x55, 0x00).b, 100_000)
	addc("call-prefix", (&asm{}).pushU(0).pushU(0).pushU(0).pushU(0).pushU(0).pushU(0).pushU(0).op(0xf1).b, 100_000)
	return out
}

func TestCrafted(t *testing.T) {
	sink := &failSink{t: t, leg: "crafted"}
	progs := craftedPrograms()
	for ei, ne := range baseEpochs {
		for _, c := range progs {
			base := newKase(ne, c.code, c.input, c.gas)
			ref := runRef(base)
			gases := []uint64{c.gas}
			if ref.Halt != refevm.Exceptional && ref.Halt != refevm.Unmodelled && fullEpoch(ei) {
				used := c.gas - ref.GasLeft
				gases = append(gases, used, used+1)
				if used > 0 {
					gases = append(gases, used-1)
				}
			}
			for gi, g := range gases {
				k := newKase(ne, c.code, c.input, g)
				r2, lbls, problem := judge(k)
				lbls = append(lbls, "leg:crafted")
				if gi == 1 && r2.Halt != refevm.Exceptional {
					lbls = append(lbls, "gas-exact")
				}
				if gi == 3 && r2.Halt == refevm.Exceptional {
					lbls = append(lbls, "gas-exact-minus-1")
				}
				ev.Case(true, k.canon("crafted"), lbls...)
				if problem != "" {
					sink.report(k, c.name+": "+problem)
				}
			}
		}
	}
}

// TestMainnetSchedule pins the schedule the property's epochs are read from
// for the deployed chain (transcribed from the fork list in params/config.go's
// comments): a silent change of a fork height is a change of the valid opcode
// set at a height.
func TestMainnetSchedule(t *testing.T) {
	want := []struct {
		num uint64
		ep  refevm.Epoch
	}{
		{0, refevm.Epoch{Homestead: true, ExpByteGas: 10}},
		{3599, refevm.Epoch{Homestead: true, ExpByteGas: 10}},
		{3600, refevm.Epoch{Homestead: true, ExpByteGas: 50}},
		{22799, refevm.Epoch{Homestead: true, ExpByteGas: 50}},
		{22800, refevm.Epoch{Homestead: true, Byzantium: true, Shifts: true, ExpByteGas: 50}},
		{36050, refevm.Epoch{Homestead: true, Byzantium: true, Shifts: true, ExpByteGas: 50}},
	}
	for _, w := range want {
		if got := epochOf(shipped["mainnet"], w.num); got != w.ep {
			t.Errorf("mainnet height %d: schedule gives %+v, expected %+v", w.num, got, w.ep)
		}
	}
}

// ---------------------------------------------------------------- known finding witness

// TestKnownSAR runs the fixed witness of the recorded finding: SAR(shift=256, value=0).
func TestKnownSAR(t *testing.T) {
	for _, shift := range []*big.Int{big.NewInt(256), sub(pow2(256), 1)} {
		ne := baseEpochs[4]
		k := newKase(ne, tupleProgram(0x1d, []*big.Int{shift, big.NewInt(0)}, false), nil, 100_000)
		ref := runRef(k)
		real := runReal(k, ref.Steps)
		if new(big.Int).SetBytes(ref.Ret).Sign() != 0 || ref.Halt != refevm.Return {
			t.Fatalf("reference: SAR(%v, 0) must return 0, got %x (%v)", shift, ref.Ret, ref.Halt)
		}
		reproduces := real.Err == nil && new(big.Int).SetBytes(real.Ret).Sign() != 0
		switch {
		case reproduces && ev.Known(keySAR):
			ev.KnownFinding(keySAR)
		case reproduces:
			ev.SaveCase("sar-witness", k.toJSON("SAR(shift>=256, 0) != 0"))
			t.Fatalf("SAR(shift=%v, value=0) = 0x%x, specification (EIP-145): 0", shift, real.Ret)
		default:
			// repaired (or never broken): the full comparison must hold
			saved := compareIgnoringKnown(k, ref, real)
			if saved != "" {
				t.Fatalf("SAR witness: %s", saved)
			}
		}
	}
}

// compareIgnoringKnown is compare without the known-finding short cut.
func compareIgnoringKnown(k *kase, ref *refevm.Result, real *realRes) string {
	if real.Diff != "" {
		return real.Diff
	}
	if real.NSteps != len(ref.Steps) {
		return fmt.Sprintf("%d steps, specification %d", real.NSteps, len(ref.Steps))
	}
	if string(real.Ret) != string(ref.Ret) || real.GasLeft != ref.GasLeft {
		return fmt.Sprintf("result %x/%d, specification %x/%d", real.Ret, real.GasLeft, ref.Ret, ref.GasLeft)
	}
	return ""
}

// ---------------------------------------------------------------- drawing epochs and environments

func drawEpoch(t *rapid.T) namedEpoch {
	switch rapid.IntRange(0, 5).Draw(t, "epochKind") {
	case 0, 1:
		return baseEpochs[rapid.IntRange(0, len(baseEpochs)-1).Draw(t, "baseEpoch")]
	case 2, 3:
		pts := epochPointsCached
		return pts[rapid.IntRange(0, len(pts)-1).Draw(t, "epochPoint")]
	default:
		// synthetic schedule: each fork absent or at a small height; the number near them
		var s cfgSpec
		if rapid.IntRange(0, 9).Draw(t, "hasHomestead") > 0 {
			s.Homestead = u64p(0)
			if rapid.Bool().Draw(t, "hasByz") {
				s.Byzantium = u64p(uint64(rapid.IntRange(0, 12).Draw(t, "byzH")))
			}
			if rapid.Bool().Draw(t, "hasHF5") {
				s.HF = map[string]uint64{"5": uint64(rapid.IntRange(0, 12).Draw(t, "hf5H"))}
			}
		}
		if rapid.Bool().Draw(t, "hasHF1") {
			if s.HF == nil {
				s.HF = map[string]uint64{}
			}
			s.HF["1"] = uint64(rapid.IntRange(0, 12).Draw(t, "hf1H"))
		}
		return namedEpoch{s, uint64(rapid.IntRange(0, 14).Draw(t, "number"))}
	}
}

var epochPointsCached = epochPoints()

func drawEnv(t *rapid.T, k *kase) {
	if rapid.IntRange(0, 3).Draw(t, "envKind") == 0 {
		return // defaults
	}
	k.Value, k.GasPrice = genWord().Draw(t, "value"), genWord().Draw(t, "gasPrice")
	k.Time, k.Difficulty = genWord().Draw(t, "time"), genWord().Draw(t, "difficulty")
	k.GasLimit = rapid.Uint64().Draw(t, "gasLimit")
	a := rapid.SliceOfN(rapid.Byte(), 20, 20)
	copy(k.Origin[:], a.Draw(t, "origin"))
	copy(k.Caller[:], a.Draw(t, "caller"))
	copy(k.Coinbase[:], a.Draw(t, "coinbase"))
	copy(k.Address[:], a.Draw(t, "address"))
	k.Address[0] |= 0x80 // never a precompile address
}

func drawInput(t *rapid.T) []byte {
	switch rapid.IntRange(0, 3).Draw(t, "inputKind") {
	case 0:
		return nil
	case 1:
		return fixedInput
	default:
		n := rapid.SampledFrom([]int{1, 4, 31, 32, 33, 36, 64, 100}).Draw(t, "inputLen")
		return rapid.SliceOfN(rapid.Byte(), n, n).Draw(t, "input")
	}
}

// chooseGas turns a drawn (mode, fraction) into a gas amount using the gas the
// reference needs with ample gas.
func chooseGas(k *kase, ample uint64, mode int, frac uint64) (uint64, string) {
	k.Gas = ample
	ref := runRef(k)
	if ref.Halt == refevm.Exceptional || ref.Halt == refevm.Unmodelled {
		if mode >= 3 {
			return frac % (ample + 1), ""
		}
		return ample, ""
	}
	used := ample - ref.GasLeft
	switch mode {
	case 1:
		return used, "gas-exact"
	case 2:
		if used > 0 {
			return used - 1, "gas-exact-minus-1"
		}
		return 0, ""
	case 3:
		return used + 1, ""
	case 4:
		return frac % (used + 1), ""
	}
	return ample, ""
}

// ---------------------------------------------------------------- leg 2: random operands

func TestRandomOperands(t *testing.T) {
	ops := tupleOps()
	ev.Check(t, ev.N(25_000, 2_400_000), func(t *rapid.T) {
		ne := drawEpoch(t)
		ep := epochOf(ne.Cfg.config(), ne.Number)
		op := ops[rapid.IntRange(0, len(ops)-1).Draw(t, "op")]
		input := drawInput(t)
		prefill := rapid.Bool().Draw(t, "prefill")
		// the code length is needed for CODECOPY source offsets: build once with placeholders
		pops, _ := refevm.Arity(op)
		zeros := make([]*big.Int, pops)
		for i := range zeros {
			zeros[i] = new(big.Int)
		}
		codeLen := len(tupleProgram(op, zeros, prefill))
		operands := drawOperands(t, op, len(input), codeLen, ne.Number)
		mode := rapid.IntRange(0, 6).Draw(t, "gasMode")
		frac := rapid.Uint64().Draw(t, "gasFrac")
		k := newKase(ne, tupleProgram(op, operands, prefill), input, 0)
		drawEnv(t, k)
		gas, glabel := chooseGas(k, 200_000, mode, frac)
		k.Gas = gas
		ref, lbls, problem := judge(k)
		lbls = append(lbls, "leg:random-operands", glabel)
		lbls = append(lbls, boundaryLabels(ne)...)
		ev.Case(instructionExecuted(ref, op) && refevm.Valid(ep, op), k.canon("rand"), lbls...)
		ev.Sample(map[string]interface{}{"leg": "random-operands", "op": opName(op), "epoch": epochLabel(ep), "operands": fmt.Sprintf("%x", operands), "gas": gas, "halt": ref.Halt.String(), "exc": ref.Exc.String()})
		if problem != "" {
			t.Fatalf("%s\ncase: %s", problem, mustJSON(k.toJSON(problem)))
		}
	})
}

// ---------------------------------------------------------------- leg 3: generated programs

type fragment struct {
	code     []byte
	labelRef int // >= 0: code ends with PUSH2 <label> and the two bytes are patched
	refAt    int
	defines  int // >= 0: this fragment's first byte (+defOff) is the label's position
	defOff   int
}

func modelledOps(ep refevm.Epoch, onlyValid bool) []byte {
	var out []byte
	for op := 0; op < 256; op++ {
		if refevm.Modelled(byte(op)) && (!onlyValid || refevm.Valid(ep, byte(op))) {
			out = append(out, byte(op))
		}
	}
	return out
}

// drawProgram builds a program and reports its shape class. With px == nil the
// program stays inside the computational subset (plus raw opcodes); with a
// progCtx it also starts nested frames (see calltree_test.go).
func drawProgram(t *rapid.T, ep refevm.Epoch, inputLen int, number uint64, px *progCtx) ([]byte, []string) {
	maxFrag := ev.Pick(60, 200)
	if px != nil {
		maxFrag = px.maxFrag()
	}
	minFrag := 1
	if px != nil && px.level == 0 {
		minFrag = 8 // room for several nested frames
	}
	nfrag := rapid.IntRange(minFrag, maxFrag).Draw(t, "nfrag")
	validOps := modelledOps(ep, true)
	allOps := modelledOps(ep, false)
	var frags []fragment
	var tail []fragment // data placed behind the program (init codes fetched with CODECOPY)
	nextLabel := 0
	pendingAt := map[int][]int{} // fragment index -> labels to define before it
	classes := map[string]bool{}
	depth := 0 // rough stack depth estimate along the straight line
	emit := func(code []byte) { frags = append(frags, fragment{code: code, labelRef: -1, defines: -1}) }
	pushWord := func(v *big.Int) []byte {
		a := &asm{}
		switch rapid.IntRange(0, 3).Draw(t, "pushWidth") {
		case 0:
			a.pushN(v, 32)
		case 1:
			a.pushN(v, rapid.IntRange(1, 32).Draw(t, "width"))
		default:
			a.push(v)
		}
		return a.b
	}
	if px != nil && px.level > 0 && rapid.IntRange(0, 4).Draw(t, "readsReturnData") == 0 {
		// a nested frame that first looks at the return data buffer: empty in a new frame, whatever its caller's holds
		if rapid.Bool().Draw(t, "rdSize") {
			emit([]byte{0x3d})
			depth++
		} else {
			emit((&asm{}).pushU(uint64(rapid.IntRange(0, 3).Draw(t, "rdLen"))).pushU(0).pushU(0).op(0x3e).b)
		}
	}
	for i := 0; i < nfrag; i++ {
		for _, l := range pendingAt[i] {
			frags = append(frags, fragment{code: []byte{0x5b}, labelRef: -1, defines: l})
		}
		kind := -1
		if px != nil {
			x := rapid.IntRange(0, 99).Draw(t, "xfrag")
			switch {
			case x < px.extPct():
				fs, tl, d := px.external(t, ep, inputLen, number, &nextLabel, pushWord)
				frags = append(frags, fs...)
				tail = append(tail, tl...)
				depth += d
				if depth < 0 {
					depth = 0
				}
				continue
			case x < px.extPct()+25: // more control flow than the plain leg: forward jumps, loops, bad targets, PUSH data
				kind = rapid.IntRange(72, 94).Draw(t, "jfrag")
			}
		}
		if kind < 0 {
			kind = rapid.IntRange(0, 99).Draw(t, "frag")
		}
		if px != nil && px.level == 0 && kind >= 88 && kind < 95 && rapid.IntRange(0, 3).Draw(t, "rootSurvives") > 0 {
			kind = 72 // the top frame mostly lives on to start further frames: a forward jump instead of a bad one
		}
		switch {
		case kind < 18: // push a word
			emit(pushWord(genWord().Draw(t, "pushed")))
			depth++
		case kind < 55: // an operation with fresh operands
			op := validOps[rapid.IntRange(0, len(validOps)-1).Draw(t, "aop")]
			if op == 0x56 || op == 0x57 || op == 0x00 || op == 0xf3 || op == 0xfd || (op >= 0x60 && op <= 0x9f) {
				op = 0x01
			}
			pops, pushes := refevm.Arity(op)
			var code []byte
			operands := drawOperands(t, op, inputLen, 300, number)
			for j := pops - 1; j >= 0; j-- {
				code = append(code, pushWord(operands[j])...)
			}
			code = append(code, op)
			depth += pushes
			if pushes == 1 && rapid.IntRange(0, 3).Draw(t, "keep") == 0 {
				code = append(code, 0x50) // POP
				depth--
			}
			emit(code)
		case kind < 72: // a raw opcode working on whatever is on the stack
			pool := validOps
			if rapid.IntRange(0, 9).Draw(t, "anyop") == 0 {
				pool = allOps
			}
			op := pool[rapid.IntRange(0, len(pool)-1).Draw(t, "rop")]
			pops, pushes := refevm.Arity(op)
			if pops > depth && rapid.IntRange(0, 9).Draw(t, "allowUnderflow") > 0 {
				// prefer something that fits the stack
				op = 0x58 // PC
				pops, pushes = 0, 1
			}
			if op == 0x56 || op == 0x57 || op == 0xf3 || op == 0xfd || op == 0x00 {
				if rapid.IntRange(0, 4).Draw(t, "rawctl") > 0 {
					op, pops, pushes = 0x5b, 0, 0
				}
			}
			code := []byte{op}
			if op >= 0x60 && op <= 0x7f {
				n := int(op) - 0x5f
				code = append(code, rapid.SliceOfN(rapid.Byte(), n, n).Draw(t, "pushdata")...)
			}
			depth += pushes - pops
			if depth < 0 {
				depth = 0
			}
			emit(code)
		case kind < 84: // forward jump to a later fragment
			target := i + 1 + rapid.IntRange(0, 8).Draw(t, "jumpAhead")
			l := nextLabel
			nextLabel++
			pendingAt[target] = append(pendingAt[target], l)
			a := &asm{}
			cond := rapid.IntRange(0, 2).Draw(t, "jkind")
			if cond > 0 {
				var c *big.Int
				if cond == 1 {
					c = genWord().Draw(t, "cond")
				} else {
					c = big.NewInt(0)
				}
				a.b = append(a.b, pushWord(c)...)
			}
			a.op(0x61, 0, 0)
			f := fragment{code: a.b, labelRef: l, refAt: len(a.b) - 2, defines: -1}
			if cond > 0 {
				f.code = append(f.code, 0x57)
			} else {
				f.code = append(f.code, 0x56)
			}
			frags = append(frags, f)
			classes["program:branching"] = true
		case kind < 88: // bounded loop with a stack-neutral body
			n := rapid.IntRange(1, 5).Draw(t, "loopN")
			l := nextLabel
			nextLabel++
			emit((&asm{}).pushU(uint64(n)).b)
			frags = append(frags, fragment{code: []byte{0x5b}, labelRef: -1, defines: l})
			body := &asm{}
			for j, m := 0, rapid.IntRange(0, 3).Draw(t, "bodyN"); j < m; j++ {
				op := validOps[rapid.IntRange(0, len(validOps)-1).Draw(t, "bop")]
				pops, pushes := refevm.Arity(op)
				if op == 0x56 || op == 0x57 || op == 0x00 || op == 0xf3 || op == 0xfd || op >= 0x60 && op <= 0x9f {
					continue
				}
				operands := drawOperands(t, op, inputLen, 300, number)
				for q := pops - 1; q >= 0; q-- {
					body.pushN(operands[q], 0)
				}
				body.op(op)
				if pushes == 1 {
					body.op(0x50)
				}
			}
			emit(body.b)
			// counter: PUSH1 1 SWAP1 SUB DUP1 PUSH2 l JUMPI, then POP the zero
			c := (&asm{}).pushU(1).op(0x90, 0x03, 0x80).op(0x61, 0, 0)
			f := fragment{code: c.b, labelRef: l, refAt: len(c.b) - 2, defines: -1}
			f.code = append(f.code, 0x57, 0x50)
			frags = append(frags, f)
			classes["program:loop"] = true
		case kind < 92: // jump to a bad place
			a := &asm{}
			if rapid.Bool().Draw(t, "badcond") {
				a.b = append(a.b, pushWord(big.NewInt(1))...)
				a.b = append(a.b, pushWord(genWord().Draw(t, "baddest"))...)
				a.op(0x57)
			} else {
				a.b = append(a.b, pushWord(genWord().Draw(t, "baddest"))...)
				a.op(0x56)
			}
			emit(a.b)
			classes["program:branching"] = true
		case kind < 95: // jump into PUSH data holding 0x5b
			l := nextLabel
			nextLabel++
			a := (&asm{}).op(0x61, 0, 0)
			f := fragment{code: a.b, labelRef: l, refAt: 1, defines: -1}
			f.code = append(f.code, 0x56)
			frags = append(frags, f)
			w := rapid.IntRange(1, 32).Draw(t, "pdw")
			data := make([]byte, w)
			for j := range data {
				data[j] = 0x5b
			}
			off := rapid.IntRange(1, w).Draw(t, "pdoff")
			frags = append(frags, fragment{code: append([]byte{byte(0x5f + w)}, data...), labelRef: -1, defines: l, defOff: off})
			classes["program:branching"] = true
		default: // a terminator
			a := &asm{}
			switch rapid.IntRange(0, 5).Draw(t, "term") {
			case 0:
				a.op(0x00)
			case 1:
				a.op(0xfe)
			case 2, 3:
				a.pushU(uint64(rapid.IntRange(0, 100).Draw(t, "rlen"))).pushU(uint64(rapid.IntRange(0, 150).Draw(t, "roff"))).op(0xf3)
			default:
				a.pushU(uint64(rapid.IntRange(0, 100).Draw(t, "rlen"))).pushU(uint64(rapid.IntRange(0, 150).Draw(t, "roff"))).op(0xfd)
			}
			// mostly only as the last fragment
			if i == nfrag-1 || rapid.IntRange(0, 5).Draw(t, "earlyTerm") == 0 {
				emit(a.b)
			}
		}
	}
	if px != nil && px.level > 0 && rapid.Bool().Draw(t, "nestedTerm") {
		// a nested frame that gets to its end hands something back: RETURN (for an init code: the code to deploy) or REVERT
		a := (&asm{}).pushU(uint64(rapid.SampledFrom([]int{32, 1, 0, 33, 64, 100, 7}).Draw(t, "rlen"))).pushU(uint64(rapid.IntRange(0, 150).Draw(t, "roff")))
		if rapid.IntRange(0, 3).Draw(t, "nestedRevert") == 0 {
			a.op(0xfd)
		} else {
			a.op(0xf3)
		}
		emit(a.b)
	}
	// labels whose target lies beyond the last fragment are defined at the end
	var late []int
	for i := range pendingAt {
		if i >= nfrag {
			late = append(late, i)
		}
	}
	sort.Ints(late) // not in map order: the layout must be a function of the draws alone
	for _, i := range late {
		for _, l := range pendingAt[i] {
			frags = append(frags, fragment{code: []byte{0x5b}, labelRef: -1, defines: l})
		}
	}
	if len(tail) > 0 {
		frags = append(frags, fragment{code: []byte{0x00}, labelRef: -1, defines: -1})
		frags = append(frags, tail...)
	}
	// layout and patching
	pos := map[int]int{}
	var code []byte
	for _, f := range frags {
		if f.defines >= 0 {
			pos[f.defines] = len(code) + f.defOff
		}
		code = append(code, f.code...)
	}
	off := 0
	for _, f := range frags {
		if f.labelRef >= 0 {
			p, ok := pos[f.labelRef]
			if !ok {
				p = len(code)
			}
			binary.BigEndian.PutUint16(code[off+f.refAt:], uint16(p))
		}
		off += len(f.code)
	}
	if len(code) > 0xffff {
		code = code[:0xffff]
	}
	// mutation
	mutPct := 15
	if px != nil && px.level == 0 {
		mutPct = 2 // a mutated top frame rarely gets as far as starting another frame
	}
	if rapid.IntRange(0, 99).Draw(t, "mutate") < mutPct && len(code) > 0 {
		classes["program:mutated"] = true
		for j, m := 0, rapid.IntRange(1, 4).Draw(t, "nmut"); j < m; j++ {
			p := rapid.IntRange(0, len(code)-1).Draw(t, "mpos")
			switch rapid.IntRange(0, 3).Draw(t, "mkind") {
			case 0:
				code[p] = rapid.Byte().Draw(t, "mbyte")
			case 1:
				code = append(code[:p], code[p+1:]...)
			case 2:
				code = append(code[:p], append([]byte{rapid.Byte().Draw(t, "ibyte")}, code[p:]...)...)
			default:
				code = code[:p+1]
			}
			if len(code) == 0 {
				break
			}
		}
	}
	if !classes["program:branching"] && !classes["program:loop"] && !classes["program:mutated"] {
		classes["program:straight-line"] = true
	}
	var cl []string
	for c := range classes {
		cl = append(cl, c)
	}
	return code, cl
}

func TestPrograms(t *testing.T) {
	ev.Check(t, ev.N(4_000, 320_000), func(t *rapid.T) {
		ne := drawEpoch(t)
		ep := epochOf(ne.Cfg.config(), ne.Number)
		input := drawInput(t)
		code, classes := drawProgram(t, ep, len(input), ne.Number, nil)
		mode := rapid.IntRange(0, 6).Draw(t, "gasMode")
		frac := rapid.Uint64().Draw(t, "gasFrac")
		k := newKase(ne, code, input, 0)
		drawEnv(t, k)
		gas, glabel := chooseGas(k, 60_000, mode, frac)
		k.Gas = gas
		ref, lbls, problem := judge(k)
		lbls = append(lbls, "leg:programs", glabel)
		lbls = append(lbls, classes...)
		lbls = append(lbls, boundaryLabels(ne)...)
		ev.Case(ref.JumpsTaken > 0 || ref.MemExpanded, k.canon("prog"), lbls...)
		ev.Add("program_steps", int64(len(ref.Steps)))
		ev.Sample(map[string]interface{}{"leg": "programs", "epoch": epochLabel(ep), "code": hx(code), "gas": gas, "steps": len(ref.Steps), "halt": ref.Halt.String(), "exc": ref.Exc.String(), "classes": classes})
		if problem != "" {
			t.Fatalf("%s\ncase: %s", problem, mustJSON(k.toJSON(problem)))
		}
	})
}

// ---------------------------------------------------------------- native fuzz target

// FuzzProgram: raw code, input, gas and an epoch selector; same oracle.
func FuzzProgram(f *testing.F) {
	for i, c := range craftedPrograms() {
		if i%7 == 0 {
			f.Add(c.code, c.input, uint32(c.gas), uint8(i))
		}
	}
	f.Add(tupleProgram(0x1d, []*big.Int{big.NewInt(255), pow2(255)}, false), []byte{}, uint32(100000), uint8(4))
	f.Add(tupleProgram(0x0b, []*big.Int{big.NewInt(30), pow2(247)}, true), []byte{1, 2, 3}, uint32(100000), uint8(2))
	ci := cornerInits()
	for i := 0; i+1 < len(ci); i += 9 {
		f.Add(factoryOf(ci[i].code, ci[len(ci)-1-i].code), []byte{}, uint32(1_900_000), uint8(i))
	}
	f.Fuzz(func(t *testing.T, code, input []byte, gas uint32, sel uint8) {
		if len(code) > 4096 || len(input) > 1024 {
			return
		}
		pts := epochPointsCached
		ne := pts[int(sel)%len(pts)]
		k := newKase(ne, code, input, uint64(gas)%2_000_000)
		if _, _, problem := judge(k); problem != "" {
			t.Fatalf("%s\ncase: %s", problem, mustJSON(k.toJSON(problem)))
		}
		// and every frame of the call tree the program starts (CREATE / CALL* bytes in the fuzzed code)
		if _, _, problem, _ := judgeTree(k); problem != "" {
			t.Fatalf("%s\ncase: %s", problem, mustJSON(k.toJSON(problem)))
		}
	})
}

// TestWriteCorpus regenerates the seed corpus (corpus/C08/*.json) from the
// crafted programs when C08_WRITE_CORPUS names a directory; skipped otherwise.
func TestWriteCorpus(t *testing.T) {
	dir := os.Getenv("C08_WRITE_CORPUS")
	if dir == "" {
		t.Skip("C08_WRITE_CORPUS not set")
	}
	pick := map[string]int{ // crafted program -> base epoch index
		"overflow-loop": 1, "overflow-dup": 4, "stack-1024-ok": 2, "oog-loop": 0, "push32-truncated-8": 3,
		"jump-into-push32-data-30": 4, "jump-into-push1-data-0": 1, "jump-after-push16-data": 2, "jump-to-2^63": 5,
		"jump-to-2^64+jumpdest": 6, "mstore-704": 1, "mstore-736": 2, "mload-1099511627744": 4, "mstore-18446744073709551584": 4,
		"calldatacopy-src-18446744073709551615": 3, "codecopy-src-9223372036854775776": 0, "mem-off+len-2^64": 4,
		"mem-off+len-2^256": 1, "copy-len-2^256-1": 5, "sha3-abc": 6, "revert-data": 4, "returndatacopy-0-1": 5,
		"returndatacopy-mem-big-len0": 3, "blockhash-256": 4, "blockhash-257": 3, "sdiv-min/-1": 0, "signextend-30": 1,
		"sar-neg-256": 4, "sar-pos-256": 6, "byte-2^64": 2, "sstore-prefix": 1, "call-prefix": 4, "invalid-fe": 4, "gas-pc-msize": 2,
	}
	n := 0
	for _, c := range craftedPrograms() {
		ei, ok := pick[c.name]
		if !ok {
			continue
		}
		k := newKase(baseEpochs[ei], c.code, c.input, c.gas)
		b, _ := json.MarshalIndent(k.toJSON(""), "", " ")
		name := strings.NewReplacer("/", "_", "^", "e", "+", "p").Replace(c.name)
		if err := os.WriteFile(fmt.Sprintf("%s/%s.json", dir, name), append(b, '\n'), 0o644); err != nil {
			t.Fatal(err)
		}
		n++
	}
	if n != len(pick) {
		t.Fatalf("wrote %d of %d corpus cases", n, len(pick))
	}
}

// TestReferenceVectors keeps the reference honest inside the driver's run:
// published / hand-computed vectors (EIP-145 tables, Yellow Paper examples)
// evaluated by refevm alone. The full vector suite is refevm's own unit test.
func TestReferenceVectors(t *testing.T) {
	h := func(s string) *big.Int { v, _ := new(big.Int).SetString(s, 16); return v }
	max, min := sub(pow2(256), 1), pow2(255)
	neg := func(n int64) *big.Int { return wrapWord(big.NewInt(-n)) }
	vec := []struct {
		op   byte
		args []*big.Int
		want *big.Int
		cost uint64
	}{
		{0x1d, []*big.Int{big.NewInt(1), min}, h("c000000000000000000000000000000000000000000000000000000000000000"), 3},
		{0x1d, []*big.Int{big.NewInt(0x100), min}, max, 3},
		{0x1d, []*big.Int{big.NewInt(0x100), sub(min, 1)}, big.NewInt(0), 3},
		{0x1d, []*big.Int{big.NewInt(0xfe), pow2(254)}, big.NewInt(1), 3},
		{0x1d, []*big.Int{big.NewInt(0x100), big.NewInt(0)}, big.NewInt(0), 3},
		{0x1b, []*big.Int{big.NewInt(0xff), big.NewInt(1)}, min, 3},
		{0x1b, []*big.Int{big.NewInt(0x100), big.NewInt(1)}, big.NewInt(0), 3},
		{0x1c, []*big.Int{big.NewInt(0xff), min}, big.NewInt(1), 3},
		{0x1c, []*big.Int{big.NewInt(0x100), min}, big.NewInt(0), 3},
		{0x05, []*big.Int{min, max}, min, 5},
		{0x05, []*big.Int{neg(7), big.NewInt(2)}, neg(3), 5},
		{0x07, []*big.Int{neg(7), big.NewInt(3)}, neg(1), 5},
		{0x07, []*big.Int{big.NewInt(7), neg(3)}, big.NewInt(1), 5},
		{0x08, []*big.Int{max, max, big.NewInt(7)}, big.NewInt(2), 8},
		{0x09, []*big.Int{max, max, big.NewInt(12)}, big.NewInt(9), 8},
		{0x0b, []*big.Int{big.NewInt(0), big.NewInt(0xff)}, max, 5},
		{0x0b, []*big.Int{big.NewInt(1), big.NewInt(0x8000)}, sub(pow2(256), 0x8000), 5},
		{0x0b, []*big.Int{big.NewInt(31), min}, min, 5},
		{0x1a, []*big.Int{big.NewInt(0), add(pow2(255), 5)}, big.NewInt(0x80), 3},
		{0x1a, []*big.Int{big.NewInt(31), add(pow2(255), 5)}, big.NewInt(5), 3},
		{0x12, []*big.Int{max, big.NewInt(1)}, big.NewInt(1), 3},
		{0x13, []*big.Int{max, big.NewInt(1)}, big.NewInt(0), 3},
		{0x0a, []*big.Int{big.NewInt(2), big.NewInt(255)}, min, 60},
		{0x0a, []*big.Int{big.NewInt(2), big.NewInt(256)}, big.NewInt(0), 110},
	}
	for _, v := range vec {
		k := newKase(baseEpochs[4], tupleProgram(v.op, v.args, false), nil, 100_000)
		r := runRef(k)
		if r.Halt != refevm.Return || new(big.Int).SetBytes(r.Ret).Cmp(v.want) != 0 || r.Steps[len(v.args)].Cost != v.cost {
			t.Errorf("reference: %s%x = %x (cost %d), published %x (cost %d)", opName(v.op), v.args, r.Ret, r.Steps[len(v.args)].Cost, v.want, v.cost)
		}
	}
	if got := fmt.Sprintf("%x", refevm.Keccak([]byte("abc"))); got != "4e03657aea45a94fc7d47ba826c8d667c0d1e6e33a64a036ec44f58fa12d6c45" {
		t.Errorf("reference keccak(abc) = %s", got)
	}
}
