package refevm

import (
	"encoding/hex"
	"math/big"
	"testing"
)

var all = Epoch{Homestead: true, Byzantium: true, Shifts: true, ExpByteGas: 50}

func w(s string) *big.Int {
	v, ok := new(big.Int).SetString(s, 16)
	if !ok {
		panic(s)
	}
	return v
}

func push32(v *big.Int) []byte {
	b := make([]byte, 33)
	b[0] = 0x7f
	vb := v.Bytes()
	copy(b[33-len(vb):], vb)
	return b
}

func env(code []byte, gas uint64) *Env {
	return &Env{Value: big0, GasPrice: big1, Time: big1, Number: big.NewInt(1000), Difficulty: big1,
		BlockHash: func(n uint64) (h [32]byte) { h[31] = byte(n); return }, Code: code, Gas: gas, MemSnapshotMax: 4096}
}

// eval runs op on args (args[0] = top) and returns the word left on top.
func eval(t *testing.T, ep Epoch, op byte, args ...*big.Int) (*big.Int, uint64) {
	t.Helper()
	var code []byte
	for i := len(args) - 1; i >= 0; i-- {
		code = append(code, push32(args[i])...)
	}
	code = append(code, op, 0x60, 0x00, 0x52, 0x60, 0x20, 0x60, 0x00, 0xf3)
	r := Run(ep, env(code, 1_000_000))
	if r.Halt != Return {
		t.Fatalf("op %s: halt %v %v", Name(op), r.Halt, r.Exc)
	}
	return new(big.Int).SetBytes(r.Ret), r.Steps[len(args)].Cost
}

const (
	ff   = "ffffffffffffffffffffffffffffffffffffffffffffffffffffffffffffffff"
	fe   = "fffffffffffffffffffffffffffffffffffffffffffffffffffffffffffffffe"
	x7f  = "7fffffffffffffffffffffffffffffffffffffffffffffffffffffffffffffff"
	x80  = "8000000000000000000000000000000000000000000000000000000000000000"
	x40  = "4000000000000000000000000000000000000000000000000000000000000000"
	xc0  = "c000000000000000000000000000000000000000000000000000000000000000"
	zero = "0"
)

func TestShiftVectorsEIP145(t *testing.T) {
	type v struct{ value, shift, want string }
	run := func(op byte, vs []v) {
		for _, c := range vs {
			got, cost := eval(t, all, op, w(c.shift), w(c.value))
			if got.Cmp(w(c.want)) != 0 || cost != 3 {
				t.Errorf("%s(shift=%s, value=%s) = %x cost %d, want %s cost 3", Name(op), c.shift, c.value, got, cost, c.want)
			}
		}
	}
	run(0x1b, []v{{"1", "0", "1"}, {"1", "1", "2"}, {"1", "ff", x80}, {"1", "100", zero}, {"1", "101", zero},
		{ff, "0", ff}, {ff, "1", fe}, {ff, "ff", x80}, {ff, "100", zero}, {zero, "1", zero}, {x7f, "1", fe}})
	run(0x1c, []v{{"1", "0", "1"}, {"1", "1", zero}, {x80, "1", x40}, {x80, "ff", "1"}, {x80, "100", zero}, {x80, "101", zero},
		{ff, "0", ff}, {ff, "1", x7f}, {ff, "ff", "1"}, {ff, "100", zero}, {zero, "1", zero}})
	run(0x1d, []v{{"1", "0", "1"}, {"1", "1", zero}, {x80, "1", xc0}, {x80, "ff", ff}, {x80, "100", ff}, {x80, "101", ff},
		{ff, "0", ff}, {ff, "1", ff}, {ff, "ff", ff}, {ff, "100", ff}, {zero, "1", zero}, {x40, "fe", "1"}, {x7f, "f8", "7f"},
		{x7f, "fe", "1"}, {x7f, "ff", zero}, {x7f, "100", zero},
		// EIP-145: "if arg1 >= 256 the result is 0 if arg2 is non-negative or -1 if arg2 is negative"; 0 is non-negative
		{zero, "100", zero}, {zero, ff, zero}})
}

func TestArithmeticVectors(t *testing.T) {
	neg := func(n int64) *big.Int { return new(big.Int).Mod(big.NewInt(-n), Two256) }
	cases := []struct {
		op   byte
		args []*big.Int
		want *big.Int
		cost uint64
	}{
		{0x01, []*big.Int{w(ff), big.NewInt(1)}, big.NewInt(0), 3},
		{0x03, []*big.Int{big.NewInt(0), big.NewInt(1)}, w(ff), 3},
		{0x02, []*big.Int{w(x80), big.NewInt(2)}, big.NewInt(0), 5},
		{0x04, []*big.Int{big.NewInt(7), big.NewInt(0)}, big.NewInt(0), 5},
		{0x04, []*big.Int{big.NewInt(7), big.NewInt(2)}, big.NewInt(3), 5},
		{0x05, []*big.Int{w(x80), w(ff)}, w(x80), 5},         // -2^255 / -1 = -2^255
		{0x05, []*big.Int{neg(7), big.NewInt(2)}, neg(3), 5}, // truncation toward zero
		{0x05, []*big.Int{big.NewInt(7), neg(2)}, neg(3), 5},
		{0x05, []*big.Int{neg(7), neg(2)}, big.NewInt(3), 5},
		{0x05, []*big.Int{neg(7), big.NewInt(0)}, big.NewInt(0), 5},
		{0x06, []*big.Int{big.NewInt(7), big.NewInt(0)}, big.NewInt(0), 5},
		{0x07, []*big.Int{neg(7), big.NewInt(3)}, neg(1), 5}, // sign of the dividend
		{0x07, []*big.Int{big.NewInt(7), neg(3)}, big.NewInt(1), 5},
		{0x07, []*big.Int{neg(7), neg(3)}, neg(1), 5},
		{0x07, []*big.Int{w(x80), w(ff)}, big.NewInt(0), 5},
		{0x08, []*big.Int{w(ff), w(ff), big.NewInt(7)}, big.NewInt(2), 8}, // (2^257-2) mod 7
		{0x08, []*big.Int{w(ff), w(ff), big.NewInt(0)}, big.NewInt(0), 8},
		{0x09, []*big.Int{w(ff), w(ff), big.NewInt(12)}, big.NewInt(9), 8}, // (2^256-1)^2 mod 12
		{0x0a, []*big.Int{big.NewInt(2), big.NewInt(255)}, w(x80), 10 + 50},
		{0x0a, []*big.Int{big.NewInt(2), big.NewInt(256)}, big.NewInt(0), 10 + 100},
		{0x0a, []*big.Int{big.NewInt(0), big.NewInt(0)}, big.NewInt(1), 10},
		{0x0a, []*big.Int{big.NewInt(3), w(ff)}, w("5555555555555555555555555555555555555555555555555555555555555555" /* placeholder, fixed below */), 10 + 32*50},
		{0x0b, []*big.Int{big.NewInt(0), big.NewInt(0xff)}, w(ff), 5},
		{0x0b, []*big.Int{big.NewInt(0), big.NewInt(0x7f)}, big.NewInt(0x7f), 5},
		{0x0b, []*big.Int{big.NewInt(0), big.NewInt(0x17f)}, big.NewInt(0x7f), 5},
		{0x0b, []*big.Int{big.NewInt(1), big.NewInt(0x8000)}, w("ffffffffffffffffffffffffffffffffffffffffffffffffffffffffffff8000"), 5},
		{0x0b, []*big.Int{big.NewInt(30), w(x80)}, big.NewInt(0), 5},
		{0x0b, []*big.Int{big.NewInt(30), w("0080000000000000000000000000000000000000000000000000000000000000")}, w("ff80000000000000000000000000000000000000000000000000000000000000"), 5},
		{0x0b, []*big.Int{big.NewInt(31), w(x80)}, w(x80), 5},
		{0x0b, []*big.Int{w(ff), big.NewInt(0xff)}, big.NewInt(0xff), 5},
		{0x10, []*big.Int{big.NewInt(1), w(ff)}, big.NewInt(1), 3},
		{0x12, []*big.Int{big.NewInt(1), w(ff)}, big.NewInt(0), 3}, // 1 < -1 false
		{0x12, []*big.Int{w(ff), big.NewInt(1)}, big.NewInt(1), 3},
		{0x13, []*big.Int{big.NewInt(1), w(ff)}, big.NewInt(1), 3},
		{0x13, []*big.Int{w(x80), w(x7f)}, big.NewInt(0), 3},
		{0x15, []*big.Int{big.NewInt(0)}, big.NewInt(1), 3},
		{0x19, []*big.Int{big.NewInt(0)}, w(ff), 3},
		{0x1a, []*big.Int{big.NewInt(0), w("ab00000000000000000000000000000000000000000000000000000000000012")}, big.NewInt(0xab), 3},
		{0x1a, []*big.Int{big.NewInt(31), w("ab00000000000000000000000000000000000000000000000000000000000012")}, big.NewInt(0x12), 3},
		{0x1a, []*big.Int{big.NewInt(32), w(ff)}, big.NewInt(0), 3},
		{0x1a, []*big.Int{w(x80), w(ff)}, big.NewInt(0), 3},
	}
	// 3^(2^256-1) mod 2^256 by repeated squaring written out independently
	acc, base := big.NewInt(1), big.NewInt(3)
	for i := 0; i < 256; i++ {
		acc.Mul(acc, base).Mod(acc, Two256)
		base.Mul(base, base).Mod(base, Two256)
	}
	for i := range cases {
		if cases[i].op == 0x0a && cases[i].args[1].Cmp(w(ff)) == 0 {
			cases[i].want = acc
		}
	}
	for _, c := range cases {
		got, cost := eval(t, all, c.op, c.args...)
		if got.Cmp(c.want) != 0 || cost != c.cost {
			t.Errorf("%s%x = %x cost %d, want %x cost %d", Name(c.op), c.args, got, cost, c.want, c.cost)
		}
	}
	if _, cost := eval(t, Epoch{ExpByteGas: 10}, 0x0a, big.NewInt(2), big.NewInt(256)); cost != 30 {
		t.Errorf("EXP with a 2-byte exponent at G_expbyte 10 costs %d, want 30", cost)
	}
}

func TestKeccakAndMemory(t *testing.T) {
	if got := hex.EncodeToString(Keccak(nil)); got != "c5d2460186f7233c927e7db2dcc703c0e500b653ca82273b7bfad8045d85a470" {
		t.Fatalf("keccak(empty) = %s", got)
	}
	if got := hex.EncodeToString(Keccak([]byte("abc"))); got != "4e03657aea45a94fc7d47ba826c8d667c0d1e6e33a64a036ec44f58fa12d6c45" {
		t.Fatalf("keccak(abc) = %s", got)
	}
	// C_mem: 22 words = 66, 23 words = 70, 724 words = 2172 + 1023
	for _, c := range []struct{ words, want int64 }{{0, 0}, {1, 3}, {22, 66}, {23, 70}, {32, 98}, {724, 3195}} {
		if got := cmem(big.NewInt(c.words)); got.Int64() != c.want {
			t.Errorf("cmem(%d) = %v, want %d", c.words, got, c.want)
		}
	}
	// PUSH1 1 PUSH1 0 MSTORE8 MSIZE: memory grows to one word, MSTORE8 costs 3+3
	r := Run(all, env([]byte{0x60, 0x01, 0x60, 0x00, 0x53, 0x59}, 100))
	if r.Halt != Stop || r.Steps[2].Cost != 6 || r.Steps[2].MemSize != 32 || r.GasLeft != 100-3-3-6-2 {
		t.Errorf("mstore8 trace wrong: %+v", r)
	}
	// out of gas by one
	r = Run(all, env([]byte{0x60, 0x01, 0x60, 0x00, 0x53, 0x59}, 13))
	if r.Halt != Exceptional || r.Exc != ExcOutOfGas || r.EndPC != 5 || r.GasLeft != 0 {
		t.Errorf("expected out-of-gas at MSIZE: %+v", r)
	}
}

func TestJumpDestsAndValidity(t *testing.T) {
	// PUSH2 5b5b JUMPDEST PUSH1 5b JUMPDEST
	d := JumpDests([]byte{0x61, 0x5b, 0x5b, 0x5b, 0x60, 0x5b, 0x5b})
	if len(d) != 2 || !d[3] || !d[6] {
		t.Fatalf("jump destinations: %v", d)
	}
	// a PUSH32 at the end whose data is cut
	d = JumpDests([]byte{0x5b, 0x7f, 0x5b, 0x5b})
	if len(d) != 1 || !d[0] {
		t.Fatalf("jump destinations: %v", d)
	}
	hs := Epoch{Homestead: true, ExpByteGas: 10}
	count := func(ep Epoch) int {
		n := 0
		for op := 0; op < 256; op++ {
			if Valid(ep, byte(op)) {
				n++
			}
		}
		return n
	}
	// Yellow Paper (homestead): 0x00-0x0b (12), 0x10-0x1a (11), 0x20 (1), 0x30-0x3c (13), 0x40-0x45 (6),
	// 0x50-0x5b (12), PUSH (32), DUP (16), SWAP (16), LOG (5), 0xf0-0xf4 (5), 0xff (1) = 130
	if n := count(hs); n != 130 {
		t.Errorf("homestead has %d instructions, want 130", n)
	}
	if n := count(Epoch{ExpByteGas: 10}); n != 129 {
		t.Errorf("frontier has %d instructions, want 129", n)
	}
	if n := count(Epoch{Homestead: true, Byzantium: true}); n != 134 {
		t.Errorf("byzantium has %d instructions, want 134", n)
	}
	if n := count(all); n != 137 {
		t.Errorf("byzantium+shifts has %d instructions, want 137", n)
	}
	if Valid(all, 0xfe) || Valid(hs, 0xfd) || Valid(hs, 0x1b) || !Valid(all, 0xfa) || Valid(Epoch{}, 0xf4) {
		t.Errorf("validity table wrong")
	}
}

func TestExceptionalSets(t *testing.T) {
	// JUMP to a non-destination with too little gas: both conditions are reported
	r := Run(all, env([]byte{0x60, 0x07, 0x56}, 5))
	if r.Halt != Exceptional || r.Exc != ExcOutOfGas|ExcBadJump {
		t.Errorf("got %v %v", r.Halt, r.Exc)
	}
	// stack underflow masks everything else
	r = Run(all, env([]byte{0x01}, 0))
	if r.Exc != ExcStackUnderflow {
		t.Errorf("got %v", r.Exc)
	}
	// JUMPI with a zero condition does not look at the destination
	r = Run(all, env([]byte{0x60, 0x00, 0x60, 0xff, 0x57}, 100))
	if r.Halt != Stop || r.GasLeft != 100-16 {
		t.Errorf("got %v %v gas %d", r.Halt, r.Exc, r.GasLeft)
	}
	// REVERT keeps the gas and returns data; invalid before Byzantium
	code := []byte{0x60, 0x01, 0x60, 0x00, 0xfd}
	r = Run(all, env(code, 100))
	if r.Halt != Revert || r.GasLeft != 100-6-3 || len(r.Ret) != 1 {
		t.Errorf("revert: %+v", r)
	}
	r = Run(Epoch{Homestead: true, ExpByteGas: 10}, env(code, 100))
	if r.Exc != ExcInvalidOp {
		t.Errorf("revert before byzantium: %v", r.Exc)
	}
}

// An instruction outside the subset resolved by Env.External: the run goes on
// from the supplied state; the return data buffer is what a CALL left (EIP-211).
func TestExternalResume(t *testing.T) {
	// PUSH1 0 x6 ; PUSH1 0xaa ; GAS ; CALL ; RETURNDATASIZE ; PUSH1 2 PUSH1 1 PUSH1 0 RETURNDATACOPY ; PUSH1 3 PUSH1 1 PUSH1 0 RETURNDATACOPY
	code := []byte{0x60, 0, 0x60, 0, 0x60, 0, 0x60, 0, 0x60, 0, 0x60, 0xaa, 0x5a, 0xf1, 0x3d, 0x60, 2, 0x60, 1, 0x60, 0, 0x3e, 0x60, 3, 0x60, 1, 0x60, 0, 0x3e}
	e := env(code, 100_000)
	asked := 0
	e.External = func(i int, op byte) *ExtResult {
		asked++
		if i != 7 || op != 0xf1 {
			t.Fatalf("asked about step %d op %x", i, op)
		}
		return &ExtResult{Gas: 5000, Push: big.NewInt(1), Mem: nil, Ret: []byte{1, 2, 3}, RetKnown: true}
	}
	r := Run(all, e)
	if asked != 1 || r.Halt != Exceptional || r.Exc != ExcReturnDataOOB {
		t.Fatalf("asked %d, halt %v %v", asked, r.Halt, r.Exc)
	}
	if !r.Steps[7].External || r.Steps[7].Depth != 7 || r.Steps[8].GasBefore != 5000 || r.Steps[8].Depth != 1 {
		t.Fatalf("steps around the call: %+v %+v", r.Steps[7], r.Steps[8])
	}
	// RETURNDATASIZE pushed 3; the first copy (2 bytes from 1) is in bounds and lands in memory
	last := r.Steps[len(r.Steps)-1]
	if last.Op != 0x60 || last.Stack[len(last.Stack)-1].Int64() != 1 || hex.EncodeToString(last.Mem[:2]) != "0203" {
		t.Fatalf("after the first copy: %+v", last)
	}
	if r.EndStack[0].Int64() != 1 || r.EndStack[1].Int64() != 3 { // call result, RETURNDATASIZE
		t.Fatalf("end stack %v", r.EndStack)
	}
	// unknown buffer: the run stops at RETURNDATASIZE
	e.External = func(i int, op byte) *ExtResult { return &ExtResult{Gas: 5000, Push: big.NewInt(0)} }
	if r := Run(all, e); r.Halt != Unmodelled || r.EndOp != 0x3d || len(r.Steps) != 8 {
		t.Fatalf("unknown return data: %v at %x after %d steps", r.Halt, r.EndOp, len(r.Steps))
	}
	// no answer: as without External
	e.External = func(i int, op byte) *ExtResult { return nil }
	if r := Run(all, e); r.Halt != Unmodelled || r.EndOp != 0xf1 || len(r.Steps) != 7 {
		t.Fatalf("no answer: %v at %x after %d steps", r.Halt, r.EndOp, len(r.Steps))
	}
}
