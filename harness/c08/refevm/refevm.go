// Package refevm is an independent reference interpreter for ONE call frame of
// the EVM over the computational instruction subset (arithmetic, comparison,
// bitwise, shifts, SHA3, environment / block context, call data and code
// access, stack, memory, control flow, RETURN / REVERT).
//
// It is transcribed from the Yellow Paper (appendix H: instruction set, gas
// tiers of appendix G, memory cost C_mem, exceptional halting Z), EIP-7
// (DELEGATECALL), EIP-140 (REVERT), EIP-211 (RETURNDATA*), EIP-214
// (STATICCALL), EIP-145 (shifts) and EIP-160 (EXP byte price 10 -> 50).
// It imports nothing from the node under test: words are math/big integers
// reduced modulo 2^256 here, gas numbers are literals from the papers, jump
// destination analysis is its own linear scan.
//
// Instructions that touch world state or start another frame (BALANCE,
// EXTCODE*, SLOAD, SSTORE, LOG*, CREATE, CALL*, SELFDESTRUCT) are known to the
// validity / stack-arity tables but are not executed: a run that reaches one
// with enough stack items stops with Halt == Unmodelled and the caller judges
// only the prefix - unless Env.External supplies the observed machine state
// after that instruction (ExtResult), in which case the run goes on from it:
// the frame's own instructions before and after a nested frame are all judged,
// the nested frame's effect on this one is taken as given.
package refevm

import (
	"math/big"

	"golang.org/x/crypto/sha3"
)

var (
	big0    = big.NewInt(0)
	big1    = big.NewInt(1)
	big32   = big.NewInt(32)
	big256  = big.NewInt(256)
	Two255  = new(big.Int).Lsh(big1, 255)
	Two256  = new(big.Int).Lsh(big1, 256)
	MaxWord = new(big.Int).Sub(Two256, big1)
	two64   = new(big.Int).Lsh(big1, 64)
)

// Epoch selects the instruction set and the one epoch-dependent price of the
// computational subset.
type Epoch struct {
	Homestead  bool   // DELEGATECALL is an instruction (EIP-7)
	Byzantium  bool   // REVERT, RETURNDATASIZE, RETURNDATACOPY, STATICCALL are instructions
	Shifts     bool   // SHL, SHR, SAR are instructions (EIP-145)
	ExpByteGas uint64 // G_expbyte: 10 (Yellow Paper), 50 (EIP-160)
}

// Env is the execution environment I of the frame plus the block header
// fields the block-context instructions read.
type Env struct {
	Address, Origin, Caller, Coinbase [20]byte
	Value, GasPrice                   *big.Int
	Time, Number, Difficulty          *big.Int
	GasLimit                          uint64
	BlockHash                         func(n uint64) [32]byte
	Code, Input                       []byte
	Gas                               uint64
	MemSnapshotMax                    int // steps carry a copy of memory when it is at most this long
	StackWindow                       int // > 0: steps carry only this many topmost stack items (Depth is always the full depth)
	// External, when set, is asked for the observed effect of an instruction
	// outside the computational subset (the i-th step of the frame). A nil
	// answer ends the run with Halt == Unmodelled as if External were unset.
	External func(i int, op byte) *ExtResult
}

// ExtResult is the machine state right after an instruction the reference
// does not execute itself (state access, LOG, CREATE, CALL*): taken from an
// observation, never computed. The reference removes the instruction's
// operands from its own stack, pushes Push (when the instruction pushes a
// word), continues at pc+1 with Gas and Mem, and - for CREATE / CALL* only -
// replaces the frame's return data buffer by Ret.
type ExtResult struct {
	Gas      uint64
	Push     *big.Int
	Mem      []byte
	Ret      []byte
	RetKnown bool // false: RETURNDATASIZE / RETURNDATACOPY end the run as Unmodelled
}

type Halt uint8

const (
	Stop        Halt = iota // STOP, or the program counter ran off the code
	Return                  // RETURN
	Revert                  // REVERT: state reverted, remaining gas kept, data returned
	Exceptional             // all gas consumed, no output
	Unmodelled              // reached an instruction outside the computational subset
)

func (h Halt) String() string {
	return [...]string{"stop", "return", "revert", "exceptional", "unmodelled"}[h]
}

// Exc is a set of exceptional-halting conditions (Yellow Paper (137), Z). The
// paper defines Z as a disjunction: when several hold at once none has
// precedence, so the reference reports the whole set.
type Exc uint8

const (
	ExcInvalidOp Exc = 1 << iota
	ExcStackUnderflow
	ExcStackOverflow
	ExcOutOfGas
	ExcBadJump
	ExcReturnDataOOB
)

func (e Exc) String() string {
	s := ""
	for i, n := range []string{"invalid-op", "stack-underflow", "stack-overflow", "out-of-gas", "bad-jump", "returndata-oob"} {
		if e&(1<<uint(i)) != 0 {
			if s != "" {
				s += "|"
			}
			s += n
		}
	}
	return s
}

// Step is the machine state at one executed instruction: stack before the
// instruction, memory size after the expansion the instruction pays for.
type Step struct {
	PC        uint64
	Op        byte
	GasBefore uint64
	Cost      uint64
	Stack     []*big.Int // bottom first; values are never mutated afterwards; the top Env.StackWindow items when that is set
	Depth     int        // number of items on the stack
	MemSize   uint64     // bytes, multiple of 32, after expansion
	Mem       []byte     // copy (after expansion, before execution) or nil when larger than MemSnapshotMax
	External  bool       // an instruction outside the subset resolved by Env.External: Cost, MemSize and Mem are not set
}

type Result struct {
	Halt    Halt
	Exc     Exc // non-zero iff Halt == Exceptional
	Ret     []byte
	GasLeft uint64
	Steps   []Step
	// the instruction at which the run ended exceptionally or unmodelled
	EndPC    uint64
	EndOp    byte
	EndGas   uint64
	EndStack []*big.Int // stack at that instruction (bottom first)
	// classification helpers for the harness
	JumpsTaken   int
	MemExpanded  bool
	FinalMemSize uint64
}

// ---------------------------------------------------------------- op table

type opInfo struct {
	name      string
	pops      int
	pushes    int
	gas       uint64 // constant part of the price
	modelled  bool
	since     uint8 // 0 frontier, 1 homestead, 2 byzantium, 3 shifts
	defined   bool
	memOff    int // stack index (0 = top) of the memory offset operand, -1 none
	memLen    int // stack index of the length operand, -1: fixed length memFixed
	memFixed  uint64
	copyWords int // stack index of the length whose words are charged 3 (copy) / 6 (sha3) each, -1 none
	wordGas   uint64
}

const (
	gZero    = 0
	gBase    = 2
	gVeryLow = 3
	gLow     = 5
	gMid     = 8
	gHigh    = 10
	gExt     = 20
)

var table [256]opInfo

func def(op byte, name string, pops, pushes int, gas uint64, modelled bool) *opInfo {
	table[op] = opInfo{name: name, pops: pops, pushes: pushes, gas: gas, modelled: modelled, defined: true, memOff: -1, memLen: -1, copyWords: -1}
	return &table[op]
}

func init() {
	def(0x00, "STOP", 0, 0, gZero, true)
	def(0x01, "ADD", 2, 1, gVeryLow, true)
	def(0x02, "MUL", 2, 1, gLow, true)
	def(0x03, "SUB", 2, 1, gVeryLow, true)
	def(0x04, "DIV", 2, 1, gLow, true)
	def(0x05, "SDIV", 2, 1, gLow, true)
	def(0x06, "MOD", 2, 1, gLow, true)
	def(0x07, "SMOD", 2, 1, gLow, true)
	def(0x08, "ADDMOD", 3, 1, gMid, true)
	def(0x09, "MULMOD", 3, 1, gMid, true)
	def(0x0a, "EXP", 2, 1, 10, true)
	def(0x0b, "SIGNEXTEND", 2, 1, gLow, true)
	def(0x10, "LT", 2, 1, gVeryLow, true)
	def(0x11, "GT", 2, 1, gVeryLow, true)
	def(0x12, "SLT", 2, 1, gVeryLow, true)
	def(0x13, "SGT", 2, 1, gVeryLow, true)
	def(0x14, "EQ", 2, 1, gVeryLow, true)
	def(0x15, "ISZERO", 1, 1, gVeryLow, true)
	def(0x16, "AND", 2, 1, gVeryLow, true)
	def(0x17, "OR", 2, 1, gVeryLow, true)
	def(0x18, "XOR", 2, 1, gVeryLow, true)
	def(0x19, "NOT", 1, 1, gVeryLow, true)
	def(0x1a, "BYTE", 2, 1, gVeryLow, true)
	def(0x1b, "SHL", 2, 1, gVeryLow, true).since = 3
	def(0x1c, "SHR", 2, 1, gVeryLow, true).since = 3
	def(0x1d, "SAR", 2, 1, gVeryLow, true).since = 3
	o := def(0x20, "SHA3", 2, 1, 30, true)
	o.memOff, o.memLen, o.copyWords, o.wordGas = 0, 1, 1, 6
	def(0x30, "ADDRESS", 0, 1, gBase, true)
	def(0x31, "BALANCE", 1, 1, 0, false)
	def(0x32, "ORIGIN", 0, 1, gBase, true)
	def(0x33, "CALLER", 0, 1, gBase, true)
	def(0x34, "CALLVALUE", 0, 1, gBase, true)
	def(0x35, "CALLDATALOAD", 1, 1, gVeryLow, true)
	def(0x36, "CALLDATASIZE", 0, 1, gBase, true)
	o = def(0x37, "CALLDATACOPY", 3, 0, gVeryLow, true)
	o.memOff, o.memLen, o.copyWords, o.wordGas = 0, 2, 2, 3
	def(0x38, "CODESIZE", 0, 1, gBase, true)
	o = def(0x39, "CODECOPY", 3, 0, gVeryLow, true)
	o.memOff, o.memLen, o.copyWords, o.wordGas = 0, 2, 2, 3
	def(0x3a, "GASPRICE", 0, 1, gBase, true)
	def(0x3b, "EXTCODESIZE", 1, 1, 0, false)
	def(0x3c, "EXTCODECOPY", 4, 0, 0, false)
	def(0x3d, "RETURNDATASIZE", 0, 1, gBase, true).since = 2
	o = def(0x3e, "RETURNDATACOPY", 3, 0, gVeryLow, true)
	o.since = 2
	o.memOff, o.memLen, o.copyWords, o.wordGas = 0, 2, 2, 3
	def(0x40, "BLOCKHASH", 1, 1, gExt, true)
	def(0x41, "COINBASE", 0, 1, gBase, true)
	def(0x42, "TIMESTAMP", 0, 1, gBase, true)
	def(0x43, "NUMBER", 0, 1, gBase, true)
	def(0x44, "DIFFICULTY", 0, 1, gBase, true)
	def(0x45, "GASLIMIT", 0, 1, gBase, true)
	def(0x50, "POP", 1, 0, gBase, true)
	o = def(0x51, "MLOAD", 1, 1, gVeryLow, true)
	o.memOff, o.memFixed = 0, 32
	o = def(0x52, "MSTORE", 2, 0, gVeryLow, true)
	o.memOff, o.memFixed = 0, 32
	o = def(0x53, "MSTORE8", 2, 0, gVeryLow, true)
	o.memOff, o.memFixed = 0, 1
	def(0x54, "SLOAD", 1, 1, 0, false)
	def(0x55, "SSTORE", 2, 0, 0, false)
	def(0x56, "JUMP", 1, 0, gMid, true)
	def(0x57, "JUMPI", 2, 0, gHigh, true)
	def(0x58, "PC", 0, 1, gBase, true)
	def(0x59, "MSIZE", 0, 1, gBase, true)
	def(0x5a, "GAS", 0, 1, gBase, true)
	def(0x5b, "JUMPDEST", 0, 0, 1, true)
	for i := 0; i < 32; i++ {
		def(byte(0x60+i), "PUSH"+itoa(i+1), 0, 1, gVeryLow, true)
	}
	for i := 0; i < 16; i++ {
		def(byte(0x80+i), "DUP"+itoa(i+1), i+1, i+2, gVeryLow, true)
		def(byte(0x90+i), "SWAP"+itoa(i+1), i+2, i+2, gVeryLow, true)
	}
	for i := 0; i <= 4; i++ {
		def(byte(0xa0+i), "LOG"+itoa(i), i+2, 0, 0, false)
	}
	def(0xf0, "CREATE", 3, 1, 0, false)
	def(0xf1, "CALL", 7, 1, 0, false)
	def(0xf2, "CALLCODE", 7, 1, 0, false)
	o = def(0xf3, "RETURN", 2, 0, gZero, true)
	o.memOff, o.memLen = 0, 1
	def(0xf4, "DELEGATECALL", 6, 1, 0, false).since = 1
	def(0xfa, "STATICCALL", 6, 1, 0, false).since = 2
	o = def(0xfd, "REVERT", 2, 0, gZero, true)
	o.since = 2
	o.memOff, o.memLen = 0, 1
	def(0xff, "SELFDESTRUCT", 1, 0, 0, false)
}

func itoa(i int) string {
	if i < 10 {
		return string(rune('0' + i))
	}
	return string(rune('0'+i/10)) + string(rune('0'+i%10))
}

// Valid reports whether op is an instruction in the epoch.
func Valid(ep Epoch, op byte) bool {
	o := &table[op]
	if !o.defined {
		return false
	}
	switch o.since {
	case 1:
		return ep.Homestead
	case 2:
		return ep.Byzantium
	case 3:
		return ep.Shifts
	}
	return true
}

// Name returns the mnemonic ("" when the byte is not an instruction in any epoch).
func Name(op byte) string { return table[op].name }

// Arity returns the number of stack items removed and added.
func Arity(op byte) (pops, pushes int) { return table[op].pops, table[op].pushes }

// Modelled reports whether the reference executes op.
func Modelled(op byte) bool { return table[op].defined && table[op].modelled }

// JumpDests is the set of valid jump destinations of code: positions holding
// 0x5b that are reached by walking the code from 0 and skipping PUSH data.
func JumpDests(code []byte) map[uint64]bool {
	d := map[uint64]bool{}
	for i := 0; i < len(code); i++ {
		b := code[i]
		if b == 0x5b {
			d[uint64(i)] = true
		} else if b >= 0x60 && b <= 0x7f {
			i += int(b) - 0x5f
		}
	}
	return d
}

func Keccak(b []byte) []byte {
	h := sha3.NewLegacyKeccak256()
	h.Write(b)
	return h.Sum(nil)
}

// ---------------------------------------------------------------- words

func wrap(x *big.Int) *big.Int { // x mod 2^256, result in [0, 2^256)
	return new(big.Int).Mod(x, Two256)
}

func signed(x *big.Int) *big.Int {
	if x.Cmp(Two255) >= 0 {
		return new(big.Int).Sub(x, Two256)
	}
	return new(big.Int).Set(x)
}

func fromBytes(b []byte) *big.Int { return new(big.Int).SetBytes(b) }

func word32(x *big.Int) []byte {
	out := make([]byte, 32)
	b := x.Bytes()
	copy(out[32-len(b):], b)
	return out
}

func boolWord(b bool) *big.Int {
	if b {
		return big.NewInt(1)
	}
	return big.NewInt(0)
}

// slicePad returns data[off:off+n] with zeros where the range is outside data.
func slicePad(data []byte, off *big.Int, n uint64) []byte {
	out := make([]byte, n)
	if off.Cmp(big.NewInt(int64(len(data)))) >= 0 {
		return out
	}
	o := off.Uint64()
	copy(out, data[o:])
	return out
}

// ---------------------------------------------------------------- interpreter

const stackLimit = 1024

type machine struct {
	ep    Epoch
	env   *Env
	stack []*big.Int
	mem   []byte
	gas   uint64
	pc    uint64
	dests map[uint64]bool
	// the return data buffer (EIP-211): empty until a CREATE / CALL* resolved
	// by Env.External replaces it
	retData    []byte
	retUnknown bool
}

func (m *machine) top(i int) *big.Int { return m.stack[len(m.stack)-1-i] }

// window is the copy of the stack a Step carries.
func (m *machine) window() []*big.Int {
	st := m.stack
	if w := m.env.StackWindow; w > 0 && len(st) > w {
		st = st[len(st)-w:]
	}
	return append([]*big.Int(nil), st...)
}

// memWords is the Yellow Paper's M(s, f, l): the active word count after an
// access of l bytes at f.
func memWordsAfter(cur uint64, off, l *big.Int) *big.Int {
	c := new(big.Int).SetUint64(cur)
	if l.Sign() == 0 {
		return c
	}
	end := new(big.Int).Add(off, l)
	end.Add(end, big.NewInt(31))
	end.Div(end, big32)
	if end.Cmp(c) > 0 {
		return end
	}
	return c
}

// cmem is C_mem(a) = 3a + floor(a^2 / 512).
func cmem(words *big.Int) *big.Int {
	sq := new(big.Int).Mul(words, words)
	sq.Div(sq, big.NewInt(512))
	return sq.Add(sq, new(big.Int).Mul(words, big.NewInt(3)))
}

// Run executes the frame.
func Run(ep Epoch, env *Env) *Result {
	m := &machine{ep: ep, env: env, gas: env.Gas, dests: JumpDests(env.Code)}
	res := &Result{}
	code := env.Code
	finish := func(h Halt, ret []byte) *Result {
		res.Halt, res.Ret, res.GasLeft = h, ret, m.gas
		res.FinalMemSize = uint64(len(m.mem))
		return res
	}
	exceptional := func(op byte, e Exc) *Result {
		res.Halt, res.Exc, res.Ret, res.GasLeft = Exceptional, e, nil, 0
		res.EndPC, res.EndOp, res.EndGas = m.pc, op, m.gas
		res.EndStack = append([]*big.Int(nil), m.stack...)
		res.FinalMemSize = uint64(len(m.mem))
		return res
	}
	if len(code) == 0 {
		return finish(Stop, nil)
	}
	for {
		var op byte // STOP when the counter is outside the code
		if m.pc < uint64(len(code)) {
			op = code[m.pc]
		}
		info := &table[op]
		if !Valid(ep, op) {
			return exceptional(op, ExcInvalidOp)
		}
		if len(m.stack) < info.pops {
			return exceptional(op, ExcStackUnderflow)
		}
		var exc Exc
		if len(m.stack)-info.pops+info.pushes > stackLimit {
			exc |= ExcStackOverflow
		}
		if !info.modelled || ((op == 0x3d || op == 0x3e) && m.retUnknown) {
			var r *ExtResult
			if !info.modelled && env.External != nil {
				r = env.External(len(res.Steps), op)
			}
			if r == nil {
				res.Halt, res.GasLeft = Unmodelled, m.gas
				res.EndPC, res.EndOp, res.EndGas = m.pc, op, m.gas
				res.EndStack = append([]*big.Int(nil), m.stack...)
				res.FinalMemSize = uint64(len(m.mem))
				return res
			}
			res.Steps = append(res.Steps, Step{PC: m.pc, Op: op, GasBefore: m.gas, Stack: m.window(), Depth: len(m.stack), External: true})
			m.stack = m.stack[:len(m.stack)-info.pops]
			if info.pushes == 1 {
				v := big.NewInt(0)
				if r.Push != nil {
					v = new(big.Int).Set(r.Push)
				}
				m.stack = append(m.stack, v)
			}
			m.gas = r.Gas
			m.mem = append([]byte(nil), r.Mem...)
			if op == 0xf0 || op == 0xf1 || op == 0xf2 || op == 0xf4 || op == 0xfa {
				m.retData, m.retUnknown = append([]byte(nil), r.Ret...), !r.RetKnown
			}
			m.pc++
			continue
		}

		// ---- price: constant tier + per-word part + memory expansion
		cost := new(big.Int).SetUint64(info.gas)
		if op == 0x0a { // EXP: 10 + G_expbyte * (number of bytes of the exponent)
			nbytes := (m.top(1).BitLen() + 7) / 8
			cost.Add(cost, new(big.Int).Mul(big.NewInt(int64(nbytes)), new(big.Int).SetUint64(ep.ExpByteGas)))
		}
		if info.copyWords >= 0 {
			w := new(big.Int).Add(m.top(info.copyWords), big.NewInt(31))
			w.Div(w, big32)
			cost.Add(cost, w.Mul(w, new(big.Int).SetUint64(info.wordGas)))
		}
		curWords := uint64(len(m.mem)) / 32
		newWords := new(big.Int).SetUint64(curWords)
		if info.memOff >= 0 {
			l := new(big.Int).SetUint64(info.memFixed)
			if info.memLen >= 0 {
				l = m.top(info.memLen)
			}
			newWords = memWordsAfter(curWords, m.top(info.memOff), l)
			cost.Add(cost, new(big.Int).Sub(cmem(newWords), cmem(new(big.Int).SetUint64(curWords))))
		}
		if cost.Cmp(new(big.Int).SetUint64(m.gas)) > 0 {
			exc |= ExcOutOfGas
		}

		// ---- instruction-specific exceptional conditions
		jumpTo := uint64(0)
		jumping := false
		switch op {
		case 0x56:
			jumping = true
		case 0x57:
			jumping = m.top(1).Sign() != 0
		case 0x3e:
			// EIP-211: start + length beyond the return data buffer (empty
			// until a call made in this frame returned)
			end := new(big.Int).Add(m.top(1), m.top(2))
			if end.Cmp(big.NewInt(int64(len(m.retData)))) > 0 {
				exc |= ExcReturnDataOOB
			}
		}
		if jumping {
			d := m.top(0)
			if d.Cmp(two64) >= 0 || !m.dests[d.Uint64()] {
				exc |= ExcBadJump
			} else {
				jumpTo = d.Uint64()
			}
		}
		if exc != 0 {
			return exceptional(op, exc)
		}

		// ---- commit: pay, grow memory, record, execute
		c := cost.Uint64()
		step := Step{PC: m.pc, Op: op, GasBefore: m.gas, Cost: c, Stack: m.window(), Depth: len(m.stack)}
		m.gas -= c
		if nw := newWords.Uint64(); nw > curWords {
			m.mem = append(m.mem, make([]byte, (nw-curWords)*32)...)
			res.MemExpanded = true
		}
		step.MemSize = uint64(len(m.mem))
		if len(m.mem) <= env.MemSnapshotMax {
			step.Mem = append([]byte(nil), m.mem...)
		}
		res.Steps = append(res.Steps, step)

		args := make([]*big.Int, info.pops)
		for i := range args {
			args[i] = m.top(i)
		}
		pop := func() { m.stack = m.stack[:len(m.stack)-info.pops] }
		push := func(x *big.Int) { m.stack = append(m.stack, x) }
		next := m.pc + 1

		switch {
		case op == 0x00:
			return finish(Stop, nil)
		case op >= 0x60 && op <= 0x7f: // PUSHn: bytes past the end of the code read as zero
			n := uint64(op) - 0x5f
			buf := make([]byte, n)
			if m.pc+1 < uint64(len(code)) {
				copy(buf, code[m.pc+1:])
			}
			push(fromBytes(buf))
			next = m.pc + 1 + n
		case op >= 0x80 && op <= 0x8f: // DUPn
			push(m.top(int(op) - 0x80))
		case op >= 0x90 && op <= 0x9f: // SWAPn
			n := int(op) - 0x90 + 1
			a, b := len(m.stack)-1, len(m.stack)-1-n
			m.stack[a], m.stack[b] = m.stack[b], m.stack[a]
		default:
			pop()
			switch op {
			case 0x01:
				push(wrap(new(big.Int).Add(args[0], args[1])))
			case 0x02:
				push(wrap(new(big.Int).Mul(args[0], args[1])))
			case 0x03:
				push(wrap(new(big.Int).Sub(args[0], args[1])))
			case 0x04:
				if args[1].Sign() == 0 {
					push(big.NewInt(0))
				} else {
					push(new(big.Int).Div(args[0], args[1]))
				}
			case 0x05: // SDIV: truncated signed division; -2^255 / -1 = -2^255
				a, b := signed(args[0]), signed(args[1])
				if b.Sign() == 0 {
					push(big.NewInt(0))
				} else {
					push(wrap(new(big.Int).Quo(a, b)))
				}
			case 0x06:
				if args[1].Sign() == 0 {
					push(big.NewInt(0))
				} else {
					push(new(big.Int).Mod(args[0], args[1]))
				}
			case 0x07: // SMOD: sign of the dividend
				a, b := signed(args[0]), signed(args[1])
				if b.Sign() == 0 {
					push(big.NewInt(0))
				} else {
					push(wrap(new(big.Int).Rem(a, b)))
				}
			case 0x08: // ADDMOD: intermediate not reduced modulo 2^256
				if args[2].Sign() == 0 {
					push(big.NewInt(0))
				} else {
					s := new(big.Int).Add(args[0], args[1])
					push(s.Mod(s, args[2]))
				}
			case 0x09:
				if args[2].Sign() == 0 {
					push(big.NewInt(0))
				} else {
					s := new(big.Int).Mul(args[0], args[1])
					push(s.Mod(s, args[2]))
				}
			case 0x0a:
				push(new(big.Int).Exp(args[0], args[1], Two256))
			case 0x0b: // SIGNEXTEND(k, x): x's low k+1 bytes read as a two's complement number
				k, x := args[0], args[1]
				if k.Cmp(big.NewInt(31)) >= 0 {
					push(x)
				} else {
					bits := uint(k.Uint64()+1) * 8
					mod := new(big.Int).Lsh(big1, bits)
					low := new(big.Int).Mod(x, mod)
					if low.Bit(int(bits)-1) == 1 {
						low.Sub(low, mod) // negative value
					}
					push(wrap(low))
				}
			case 0x10:
				push(boolWord(args[0].Cmp(args[1]) < 0))
			case 0x11:
				push(boolWord(args[0].Cmp(args[1]) > 0))
			case 0x12:
				push(boolWord(signed(args[0]).Cmp(signed(args[1])) < 0))
			case 0x13:
				push(boolWord(signed(args[0]).Cmp(signed(args[1])) > 0))
			case 0x14:
				push(boolWord(args[0].Cmp(args[1]) == 0))
			case 0x15:
				push(boolWord(args[0].Sign() == 0))
			case 0x16:
				push(new(big.Int).And(args[0], args[1]))
			case 0x17:
				push(new(big.Int).Or(args[0], args[1]))
			case 0x18:
				push(new(big.Int).Xor(args[0], args[1]))
			case 0x19:
				push(new(big.Int).Sub(MaxWord, args[0]))
			case 0x1a: // BYTE(i, x): i-th byte counted from the most significant end
				if args[0].Cmp(big32) >= 0 {
					push(big.NewInt(0))
				} else {
					push(big.NewInt(int64(word32(args[1])[args[0].Uint64()])))
				}
			case 0x1b: // SHL(shift, value)
				if args[0].Cmp(big256) >= 0 {
					push(big.NewInt(0))
				} else {
					push(wrap(new(big.Int).Lsh(args[1], uint(args[0].Uint64()))))
				}
			case 0x1c:
				if args[0].Cmp(big256) >= 0 {
					push(big.NewInt(0))
				} else {
					push(new(big.Int).Rsh(args[1], uint(args[0].Uint64())))
				}
			case 0x1d: // SAR: floor(signed(value) / 2^shift); shift >= 256 gives 0 or -1 by sign
				v := signed(args[1])
				if args[0].Cmp(big256) >= 0 {
					if v.Sign() < 0 {
						push(new(big.Int).Set(MaxWord))
					} else {
						push(big.NewInt(0))
					}
				} else {
					d := new(big.Int).Lsh(big1, uint(args[0].Uint64()))
					push(wrap(new(big.Int).Div(v, d))) // Euclidean division by a positive number = floor
				}
			case 0x20:
				n := args[1].Uint64()
				var data []byte
				if n > 0 {
					o := args[0].Uint64()
					data = m.mem[o : o+n]
				}
				push(fromBytes(Keccak(data)))
			case 0x30:
				push(fromBytes(env.Address[:]))
			case 0x32:
				push(fromBytes(env.Origin[:]))
			case 0x33:
				push(fromBytes(env.Caller[:]))
			case 0x34:
				push(new(big.Int).Set(env.Value))
			case 0x35:
				push(fromBytes(slicePad(env.Input, args[0], 32)))
			case 0x36:
				push(big.NewInt(int64(len(env.Input))))
			case 0x37, 0x39:
				src := env.Input
				if op == 0x39 {
					src = code
				}
				if n := args[2].Uint64(); n > 0 {
					copy(m.mem[args[0].Uint64():], slicePad(src, args[1], n))
				}
			case 0x38:
				push(big.NewInt(int64(len(code))))
			case 0x3a:
				push(new(big.Int).Set(env.GasPrice))
			case 0x3d:
				push(big.NewInt(int64(len(m.retData))))
			case 0x3e:
				if n := args[2].Uint64(); n > 0 {
					o := args[1].Uint64()
					copy(m.mem[args[0].Uint64():], m.retData[o:o+n])
				}
			case 0x40: // BLOCKHASH: one of the 256 most recent complete blocks, else 0
				n := args[0]
				age := new(big.Int).Sub(env.Number, n)
				if age.Sign() > 0 && age.Cmp(big256) <= 0 {
					h := env.BlockHash(n.Uint64())
					push(fromBytes(h[:]))
				} else {
					push(big.NewInt(0))
				}
			case 0x41:
				push(fromBytes(env.Coinbase[:]))
			case 0x42:
				push(new(big.Int).Set(env.Time))
			case 0x43:
				push(new(big.Int).Set(env.Number))
			case 0x44:
				push(new(big.Int).Set(env.Difficulty))
			case 0x45:
				push(new(big.Int).SetUint64(env.GasLimit))
			case 0x50:
			case 0x51:
				o := args[0].Uint64()
				push(fromBytes(m.mem[o : o+32]))
			case 0x52:
				copy(m.mem[args[0].Uint64():], word32(args[1]))
			case 0x53:
				m.mem[args[0].Uint64()] = word32(args[1])[31]
			case 0x56:
				next = jumpTo
				res.JumpsTaken++
			case 0x57:
				if jumping {
					next = jumpTo
					res.JumpsTaken++
				}
			case 0x58:
				push(new(big.Int).SetUint64(m.pc))
			case 0x59:
				push(big.NewInt(int64(len(m.mem))))
			case 0x5a:
				push(new(big.Int).SetUint64(m.gas))
			case 0x5b:
			case 0xf3, 0xfd:
				var out []byte
				if n := args[1].Uint64(); n > 0 {
					o := args[0].Uint64()
					out = append([]byte(nil), m.mem[o:o+n]...)
				}
				if op == 0xf3 {
					return finish(Return, out)
				}
				return finish(Revert, out)
			default:
				panic("refevm: modelled instruction without semantics: " + info.name)
			}
		}
		m.pc = next
	}
}
