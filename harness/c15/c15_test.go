// C15 — The pool's pending transactions are always executable, in order and bounded.
//
// Oracle: an invariant evaluated after every action of a generated history,
// with nonces / balances / gas limit read from the chain state at the head
// (never from the pool), plus a model of what was offered for the replacement
// and re-injection clauses.
package c15

import (
	"bytes"
	"fmt"
	"math/big"
	"runtime"
	"sort"
	"strings"
	"sync"
	"sync/atomic"
	"testing"
	"time"

	"gitlab.com/aquachain/aquachain/aqua/event"
	"gitlab.com/aquachain/aquachain/common"
	"gitlab.com/aquachain/aquachain/core"
	"gitlab.com/aquachain/aquachain/core/state"
	"gitlab.com/aquachain/aquachain/core/types"
	"pgregory.net/rapid"
	"verifharness/ev"
	"verifharness/gen"
)

func TestMain(m *testing.M) {
	gen.Quiet()
	ev.MustHit("replacement-accepted", "replacement-rejected", "evicted-by-limit", "reorg-reinjection-checked", "demoted-after-balance-drop", "local-exempt",
		"mined-subset", "reorg", "gap-queued", "external-tx-under-queued-run", "external-tx-under-pending-run", "mined-offered-unpooled", "tiny-limits", "default-limits", "concurrent-run",
		"reorg-to-lower-head", "reinjection-checked-after-reorg-to-lower-head", "balance-into-replacement-window", "gas-limit-into-replacement-window")
	ev.Main(m, ev.Config{
		Property: "C15",
		Level:    "exploration",
		Rule: "rapid state machine on a real BlockChain (fake PoW) behind a wrapper that owns the chain-head feed, so that the harness knows when the pool has finished a reset: actions AddLocal/AddRemote/AddRemotes of generated transactions (nonce in [stateNonce-1, pendingNonce+3], prices around the bump threshold of an existing same-nonce transaction, values around the balance of a poor or drained sender, gas 21000..100000 or in the band the block gas limit decays through within the next 0-3 blocks, duplicates), same-nonce replacements at prices around the bump threshold that keep or raise gas (up to that band) and value (up to what meets the balance), SetGasPrice, mining a generated subset of Pending(), reorganisation of the last 1-8 blocks to a strictly heavier sibling branch of fast blocks holding a different subset - the sibling is as long as it takes to out-weigh the old branch plus 0-2 blocks, so the new head is lower than, level with or higher than the old one depending on the history's block pace (13 s or 3000 s with jitter) and difficulty rule -, a spend made elsewhere that leaves any sender with nothing, little, or exactly / one wei short of the cost of one of its pooled transactions, mining transactions of a pool sender that never passed through the pool, mining offered transactions whether or not the pool kept them; a history may begin with 0-8 blocks (some with a transfer of a pool sender) mined before the first submission; pool limits default or tiny, price bump 1/10/100. " +
			"A second leg runs the same machine on the sub-domain steep difficulty / slow canonical branch / default limits, where a lower new head is reachable (5+ slow blocks are out-weighed by fewer fast ones) and re-injection is judged. After every head change the harness measures (labels) which previously pooled transactions the new balances and gas limit no longer cover and whether such a transaction had replaced a cheaper one that would still be covered. " +
			"Plus a concurrent leg (6 submitting goroutines + a head-advancing goroutine, built with -race). non-trivial = a history with a gap-creating event (mined subset, reorg or balance drain); distinct by hash of the action list",
		Assumptions: []string{
			"affordability is per transaction (cost <= balance), as the statement says, not cumulative",
			"re-injection after a reorganisation is demanded only for transactions that pass the pool's own admission rule at the new head (nonce >= state nonce, affordable, gas <= limit, price >= pool price for non-locals) and only while the configured limits are not saturated (never under the tiny limits); it is demanded whatever the height of the new head relative to the old one",
			"the block gas limit a pending transaction must fit is the limit of the head block (what the pool is told), read from the chain",
			"a sibling branch counts as the new head only when its total difficulty is strictly greater (at equal total difficulty and height the chain tosses a coin)",
			"pool resets are observed through the chain wrapper (StateAt call under the pool lock followed by a pool read), no sleeps",
		},
	})
}

// ---------- chain wrapper ----------

type poolChain struct {
	bc        *core.BlockChain
	feed      event.Feed
	stateAt   chan common.Hash
	headCalls int32
}

func (c *poolChain) CurrentBlock() *types.Block {
	atomic.AddInt32(&c.headCalls, 1)
	return c.bc.CurrentBlock()
}
func (c *poolChain) GetBlock(h common.Hash, n uint64) *types.Block { return c.bc.GetBlock(h, n) }
func (c *poolChain) StateAt(root common.Hash) (*state.StateDB, error) {
	select {
	case c.stateAt <- root:
	default:
	}
	return c.bc.StateAt(root)
}
func (c *poolChain) SubscribeChainHeadEvent(ch chan<- core.ChainHeadEvent) event.Subscription {
	return c.feed.Subscribe(ch)
}

type world struct {
	nc      gen.NamedConfig
	b       *gen.Builder
	pc      *poolChain
	pool    *core.TxPool
	cfg     core.TxPoolConfig
	keys    []gen.Key
	locals  map[common.Address]bool
	offered map[common.Hash]*types.Transaction // everything ever offered to the pool
	actions []string
	labels  map[string]bool
	gapEvt  bool
	// maintained: the last action ended with the pool's maintenance pass
	maintained bool
	// maintainedAccts: the accounts that pass covered with its per-account part (nil = all:
	// head change, SetGasPrice); the pool-wide part of a pass always covers everything
	maintainedAccts map[common.Address]bool
	// sureLocals: accounts the pool certainly treats as local (an accepted AddLocal that was
	// not a same-nonce replacement: TxPool.add returns before marking the account otherwise)
	sureLocals map[common.Address]bool
	// pace: seconds between the blocks of the canonical branch in this history (a slow canonical
	// branch loses total difficulty per block, so that a rival of fewer, faster blocks can out-weigh it)
	pace int64
	// replaced: accepted same-nonce replacement -> the transaction it replaced
	replaced map[common.Hash]*types.Transaction
}

// dt is the time delta of the next canonical block: the history's pace, now and then another one.
func (w *world) dt(t *rapid.T) int64 {
	if rapid.IntRange(0, 5).Draw(t, "jitter") == 0 {
		return rapid.SampledFrom([]int64{1, 13, 300, 3000}).Draw(t, "dt")
	}
	return w.pace
}

type TB interface {
	Fatalf(string, ...interface{})
}

// announce tells the pool about the new head and waits until its reset is over.
func (w *world) announce(t TB, head *types.Block) {
	for len(w.pc.stateAt) > 0 {
		<-w.pc.stateAt
	}
	hadP, hadQ := w.pool.Content()
	w.pc.feed.Send(core.ChainHeadEvent{Block: head})
	deadline := time.After(20 * time.Second)
	for {
		select {
		case r := <-w.pc.stateAt:
			if r == head.Root() {
				w.pool.Stats() // blocks until the reset releases the pool lock
				w.maintained, w.maintainedAccts = true, nil
				w.classifyHeadChange(t, head, hadP, hadQ)
				return
			}
		case <-deadline:
			t.Fatalf("the pool did not react to a chain head event within 20 s")
			return
		}
	}
}

// classifyHeadChange measures (labels only, no verdict) what the new head did to the transactions the
// pool held before it: which of them the new balances / gas limit no longer cover, and whether such a
// transaction had replaced a cheaper same-nonce one that the new head would still have covered.
func (w *world) classifyHeadChange(t TB, head *types.Block, hadP, hadQ map[common.Address]types.Transactions) {
	st, err := w.b.Chain.StateAt(head.Root())
	if err != nil {
		t.Fatalf("state of the announced head: %v", err)
	}
	for qi, m := range []map[common.Address]types.Transactions{hadP, hadQ} {
		where := "pending"
		if qi == 1 {
			where = "queued"
		}
		for addr, txs := range m {
			bal, nonce := st.GetBalance(addr), st.GetNonce(addr)
			for _, tx := range txs {
				if tx.Nonce() < nonce {
					continue
				}
				old := w.replaced[tx.Hash()]
				if tx.Cost().Cmp(bal) > 0 {
					w.labels["head-change-makes-"+where+"-tx-unaffordable"] = true
					if old != nil && old.Cost().Cmp(bal) <= 0 {
						w.labels["balance-into-replacement-window"] = true
					}
				}
				if tx.Gas() > head.GasLimit() {
					w.labels["gas-limit-fell-under-"+where+"-tx"] = true
					if old != nil && old.Gas() <= head.GasLimit() {
						w.labels["gas-limit-into-replacement-window"] = true
					}
				}
			}
		}
	}
}

func newWorld(t TB, nc gen.NamedConfig, cfg core.TxPoolConfig) *world {
	g := gen.Genesis(nc.Config, 0)
	// one poor sender: can afford a handful of plain transfers only
	g.Alloc[gen.Keys[3].Addr] = core.GenesisAccount{Balance: big.NewInt(21000 * 20 * 12)}
	b, err := gen.NewBuilder(g)
	if err != nil {
		t.Fatalf("builder: %v", err)
	}
	pc := &poolChain{bc: b.Chain, stateAt: make(chan common.Hash, 64)}
	cfg.Journal = ""
	pool := core.NewTxPool(cfg, nc.Config, pc)
	// wait until the pool's loop goroutine has read its initial head
	for i := 0; atomic.LoadInt32(&pc.headCalls) < 2 && i < 5000; i++ {
		runtime.Gosched()
		time.Sleep(time.Millisecond)
	}
	return &world{nc: nc, b: b, pc: pc, pool: pool, cfg: cfg, keys: gen.Keys[:4], locals: map[common.Address]bool{}, offered: map[common.Hash]*types.Transaction{}, labels: map[string]bool{}, maintained: true, sureLocals: map[common.Address]bool{}, pace: 13, replaced: map[common.Hash]*types.Transaction{}}
}

func (w *world) close() {
	w.pool.Stop()
	w.b.Chain.Stop()
}

func (w *world) headState(t TB) (*types.Block, *state.StateDB) {
	head := w.b.Chain.CurrentBlock()
	st, err := w.b.Chain.StateAt(head.Root())
	if err != nil {
		t.Fatalf("head state: %v", err)
	}
	return head, st
}

func (w *world) sender(tx *types.Transaction) common.Address {
	from, err := types.Sender(types.NewEIP155Signer(w.nc.Config.ChainId), tx)
	if err != nil {
		panic(err)
	}
	return from
}

// ---------- the invariant ----------

func (w *world) check(t TB, step string) {
	head, st := w.headState(t)
	pending, queued := w.pool.Content()
	seen := map[string]common.Hash{}
	totalPending, totalQueued := 0, 0
	for addr, txs := range pending {
		if len(txs) == 0 {
			continue
		}
		totalPending += len(txs)
		if w.locals[addr] && uint64(len(txs)) > w.cfg.AccountSlots {
			w.labels["local-exempt"] = true
		}
		sort.Slice(txs, func(i, j int) bool { return txs[i].Nonce() < txs[j].Nonce() })
		nonce := st.GetNonce(addr)
		bal := st.GetBalance(addr)
		for i, tx := range txs {
			if w.sender(tx) != addr {
				t.Fatalf("%s: a transaction of %x is filed under %x", step, w.sender(tx), addr)
			}
			if tx.Nonce() != nonce+uint64(i) {
				var ns []uint64
				for _, x := range txs {
					ns = append(ns, x.Nonce())
				}
				t.Fatalf("%s: pending nonces of %x are %v but the account's chain nonce is %d: not a gap-free run from the chain nonce", step, addr[:4], ns, nonce)
			}
			if tx.Cost().Cmp(bal) > 0 {
				t.Fatalf("%s: pending transaction %x (nonce %d) of %x costs %v but the account holds %v", step, tx.Hash().Bytes()[:4], tx.Nonce(), addr[:4], tx.Cost(), bal)
			}
			if tx.Gas() > head.GasLimit() {
				t.Fatalf("%s: pending transaction with gas %d above the block gas limit %d", step, tx.Gas(), head.GasLimit())
			}
			k := fmt.Sprintf("%x/%d", addr, tx.Nonce())
			if o, dup := seen[k]; dup {
				t.Fatalf("%s: two transactions for sender %x nonce %d: %x and %x", step, addr[:4], tx.Nonce(), o.Bytes()[:4], tx.Hash().Bytes()[:4])
			}
			seen[k] = tx.Hash()
		}
		if got, want := w.pool.State().GetNonce(addr), nonce+uint64(len(txs)); got != want {
			t.Fatalf("%s: the pool's pending nonce of %x is %d, its pending run ends at %d", step, addr[:4], got, want)
		}
	}
	for addr, txs := range queued {
		totalQueued += len(txs)
		if w.locals[addr] && uint64(len(txs)) > w.cfg.AccountQueue {
			w.labels["local-exempt"] = true
		}
		for _, tx := range txs {
			k := fmt.Sprintf("%x/%d", addr, tx.Nonce())
			if o, dup := seen[k]; dup {
				t.Fatalf("%s: sender %x nonce %d exists twice across pending and queue: %x and %x", step, addr[:4], tx.Nonce(), o.Bytes()[:4], tx.Hash().Bytes()[:4])
			}
			seen[k] = tx.Hash()
		}
		if len(txs) > 0 {
			w.labels["gap-queued"] = true
		}
	}
	// limits for non-local senders: enforced by the pool's maintenance pass, which runs on
	// every accepted submission, on SetGasPrice and on every head change; judged at those points
	if !w.maintained {
		return
	}
	if uint64(totalPending) > w.cfg.GlobalSlots {
		for addr, txs := range pending {
			if !w.locals[addr] && uint64(len(txs)) > w.cfg.AccountSlots {
				t.Fatalf("%s: %d pending transactions in total (limit %d) and non-local sender %x still holds %d (> %d per account)", step, totalPending, w.cfg.GlobalSlots, addr[:4], len(txs), w.cfg.AccountSlots)
			}
		}
	}
	nonLocalQueued := 0
	for addr, txs := range queued {
		if !w.locals[addr] {
			nonLocalQueued += len(txs)
			// (a submission's pass caps only the submitting accounts; a transaction evicted from a full
			// pool meanwhile sends its successors back to another account's queue uncapped until the next full pass)
			if uint64(len(txs)) > w.cfg.AccountQueue && (w.maintainedAccts == nil || w.maintainedAccts[addr]) {
				t.Fatalf("%s: non-local sender %x has %d queued transactions, limit %d", step, addr[:4], len(txs), w.cfg.AccountQueue)
			}
		}
	}
	if uint64(totalQueued) > w.cfg.GlobalQueue && nonLocalQueued > 0 {
		detail := ""
		for addr, txs := range queued {
			var ns []uint64
			for _, tx := range txs {
				ns = append(ns, tx.Nonce())
			}
			detail += fmt.Sprintf(" %x(local=%v):%v", addr[:2], w.locals[addr], ns)
		}
		t.Fatalf("%s: %d queued transactions in total, limit %d, and %d of them belong to non-local senders [%s ]", step, totalQueued, w.cfg.GlobalQueue, nonLocalQueued, detail)
	}
}

// inPool: the transaction is in the pending set or in the queue (a hash the
// pool merely remembers does not count as pooled).
func inPool(pool *core.TxPool, h common.Hash) bool {
	p, q := pool.Content()
	for _, m := range []map[common.Address]types.Transactions{p, q} {
		for _, l := range m {
			for _, tx := range l {
				if tx.Hash() == h {
					return true
				}
			}
		}
	}
	return false
}

// ---------- actions ----------

func (w *world) drawTx(t *rapid.T, st *state.StateDB, head *types.Block) *types.Transaction {
	k := rapid.SampledFrom(w.keys).Draw(t, "sender")
	stNonce := st.GetNonce(k.Addr)
	pendNonce := w.pool.State().GetNonce(k.Addr)
	lo := int(stNonce) - 1
	if lo < 0 {
		lo = 0
	}
	nonce := uint64(rapid.IntRange(lo, int(pendNonce)+3).Draw(t, "nonce"))
	price := big.NewInt(int64(rapid.SampledFrom([]int{1, 2, 5, 10, 11, 20, 100}).Draw(t, "price")))
	gas := uint64(rapid.SampledFrom([]int{21000, 21000, 30000, 100000}).Draw(t, "gas"))
	switch rapid.IntRange(0, 19).Draw(t, "biggas") {
	case 0:
		gas = head.GasLimit() + 1
	case 1, 2:
		gas = nearGasLimit(t, head)
	}
	bal := st.GetBalance(k.Addr)
	value := big.NewInt(int64(rapid.SampledFrom([]int{0, 1, 1000}).Draw(t, "value")))
	if bal.Cmp(poorBelow) < 0 && rapid.Bool().Draw(t, "nearbalance") {
		// around a poor sender's balance (the sender that starts poor, or one that was drained)
		value = new(big.Int).Sub(bal, new(big.Int).Mul(price, new(big.Int).SetUint64(gas)))
		value.Add(value, big.NewInt(int64(rapid.IntRange(-2, 2).Draw(t, "off"))))
		if value.Sign() < 0 {
			value = big.NewInt(0)
		}
	}
	to := rapid.SampledFrom([]common.Address{gen.Keys[0].Addr, gen.Keys[5].Addr, gen.AddrStore}).Draw(t, "to")
	return gen.SignedTx(w.nc.Config, new(big.Int).Add(head.Number(), big.NewInt(1)), k, nonce, &to, value, gas, price, nil)
}

// poorBelow: a sender holding less than this is "poor" (values are then drawn around its balance).
var poorBelow = big.NewInt(1_000_000_000_000)

// nearGasLimit draws a gas amount in the band the block gas limit moves through within the next few
// blocks: the head's limit minus 0..3 per-block decay steps (parent limit / 1024), give or take one.
func nearGasLimit(t *rapid.T, head *types.Block) uint64 {
	limit := head.GasLimit()
	step := limit / 1024
	g := limit - uint64(rapid.IntRange(0, 3).Draw(t, "gassteps"))*step
	g = uint64(int64(g) + int64(rapid.IntRange(-1, 1).Draw(t, "gasoff")))
	if g < 21000 {
		g = 21000
	}
	return g
}

// existing returns the pool's transaction of the given sender and nonce.
func existing(pool *core.TxPool, addr common.Address, nonce uint64) *types.Transaction {
	p, q := pool.Content()
	for _, tx := range append(p[addr], q[addr]...) {
		if tx.Nonce() == nonce {
			return tx
		}
	}
	return nil
}

func (w *world) add(t *rapid.T, tx *types.Transaction, local bool) {
	from := w.sender(tx)
	old := existing(w.pool, from, tx.Nonce())
	sameNonce := old != nil
	if np, nq := w.pool.Stats(); uint64(np+nq)+1 >= w.cfg.GlobalSlots+w.cfg.GlobalQueue {
		// a full pool first evicts its cheapest transactions to make room; the
		// predecessor may then vanish by eviction, which is not a replacement
		old = nil
	}
	w.offered[tx.Hash()] = tx
	var err error
	if local {
		err = w.pool.AddLocal(tx)
		if err == nil {
			w.locals[from] = true
			if !sameNonce {
				w.sureLocals[from] = true
			}
		}
	} else {
		err = w.pool.AddRemote(tx)
	}
	w.actions = append(w.actions, fmt.Sprintf("add(local=%v,from=%x,nonce=%d,price=%v,gas=%d,value=%v)=%v", local, from[:2], tx.Nonce(), tx.GasPrice(), tx.Gas(), tx.Value(), err))
	// an accepted submission ends with the pool's maintenance pass, except when it replaced a
	// same-nonce transaction (TxPool.addTx skips promoteExecutables then): a full pool that
	// evicted to make room for a replacement may hold demoted transactions above the queue
	// limit until its next pass, while pending+queue stays within GlobalSlots+GlobalQueue
	w.maintained, w.maintainedAccts = err == nil && !sameNonce, map[common.Address]bool{from: true}
	if err == nil && old != nil && old.Hash() != tx.Hash() && inPool(w.pool, tx.Hash()) {
		w.replaced[tx.Hash()] = old // (measurement only: see classifyHeadChange)
		if tx.Cost().Cmp(old.Cost()) > 0 && tx.Gas() > old.Gas() {
			w.labels["replacement-dearer-and-more-gas"] = true
		}
	}
	// under tiny limits a full pool evicts its cheapest transactions before inserting, so a
	// predecessor can vanish by eviction rather than replacement: judged with ample limits only
	if old != nil && old.Hash() != tx.Hash() && w.cfg.GlobalSlots > 1000 {
		if inPool(w.pool, tx.Hash()) {
			// a same-nonce replacement was accepted: only with the configured bump
			// prices are whole wei: the threshold is old x (100+bump)/100 rounded down to the wei
			need := new(big.Int).Mul(old.GasPrice(), big.NewInt(int64(100+w.cfg.PriceBump)))
			need.Div(need, big.NewInt(100))
			have := tx.GasPrice()
			if have.Cmp(need) < 0 || have.Cmp(old.GasPrice()) <= 0 {
				t.Fatalf("a same-nonce replacement at price %v was accepted over price %v with a configured bump of %d%%", tx.GasPrice(), old.GasPrice(), w.cfg.PriceBump)
			}
			if inPool(w.pool, old.Hash()) {
				t.Fatalf("both the replaced and the replacing transaction are in the pool")
			}
			w.labels["replacement-accepted"] = true
		} else {
			w.labels["replacement-rejected"] = true
		}
	}
}

// mine builds a block on parent containing the given transactions and makes it known to chain and pool.
func (w *world) mine(t *rapid.T, parent *types.Block, txs []*types.Transaction, dt int64) *types.Block {
	built, err := w.b.Build(parent, gen.BlockSpec{TimeDelta: dt, Coinbase: gen.Keys[6].Addr, Txs: txs})
	if err != nil {
		t.Fatalf("build: %v", err)
	}
	return built.Block
}

func prefixSubset(t *rapid.T, pending map[common.Address]types.Transactions) []*types.Transaction {
	var addrs []common.Address
	for a := range pending {
		addrs = append(addrs, a)
	}
	sort.Slice(addrs, func(i, j int) bool { return strings.Compare(addrs[i].Hex(), addrs[j].Hex()) < 0 })
	var out []*types.Transaction
	for _, a := range addrs {
		txs := pending[a]
		sort.Slice(txs, func(i, j int) bool { return txs[i].Nonce() < txs[j].Nonce() })
		n := rapid.IntRange(0, len(txs)).Draw(t, "take")
		out = append(out, txs[:n]...)
	}
	return out
}

func poolConfig(t *rapid.T) (core.TxPoolConfig, string) {
	cfg := core.DefaultTxPoolConfig
	kind := rapid.SampledFrom([]string{"default", "tiny", "tiny"}).Draw(t, "limits")
	if kind == "tiny" {
		cfg.AccountSlots, cfg.GlobalSlots, cfg.AccountQueue, cfg.GlobalQueue = 2, 6, 3, 5
	}
	cfg.PriceBump = uint64(rapid.SampledFrom([]int{1, 10, 100}).Draw(t, "bump"))
	return cfg, kind
}

func TestPoolInvariant(t *testing.T) {
	ev.Check(t, ev.N(100, 5000), func(t *rapid.T) { poolHistory(t, false) })
}

// TestPoolInvariantSlowBranch is the same machine on the sub-domain in which a reorganisation can end
// on a LOWER head and its re-injection is judged: difficulty that reacts steeply to the block time, a slow
// canonical branch (a rival of fewer, faster blocks out-weighs five or more of its blocks), ample pool limits.
func TestPoolInvariantSlowBranch(t *testing.T) {
	ev.Check(t, ev.N(40, 2000), func(t *rapid.T) { poolHistory(t, true) })
}

func poolHistory(t *rapid.T, slowBranch bool) {
	{
		nc := gen.ConfigByName(rapid.SampledFrom([]string{"steep", "steep", "all-at-0", "nofork"}).Draw(t, "config"))
		cfg, kind := poolConfig(t)
		pace := rapid.SampledFrom([]int64{13, 3000}).Draw(t, "pace")
		if slowBranch {
			nc, pace = gen.ConfigByName("steep"), 3000
			if kind != "default" {
				kind = "default"
				bump := cfg.PriceBump
				cfg = core.DefaultTxPoolConfig
				cfg.PriceBump = bump
			}
		}
		w := newWorld(t, nc, cfg)
		defer w.close()
		w.labels[kind+"-limits"] = true
		w.pace = pace
		// the history may begin with some blocks mined before anything is submitted (with or without
		// transactions of the senders the pool will see); the pool follows them one by one
		prelude := rapid.SampledFrom([]int{0, 0, 0, 1, 3, 6}).Draw(t, "prelude")
		depths := []int{1, 1, 2, 2, 3, 3, 4, 5, 6, 7, 8}
		if slowBranch {
			prelude = rapid.IntRange(5, 8).Draw(t, "slowprelude")
			depths = []int{1, 2, 3, 5, 5, 6, 6, 7, 7, 8}
		}
		for i := 0; i < prelude; i++ {
			head, st := w.headState(t)
			var txs []*types.Transaction
			if rapid.Bool().Draw(t, "preludetx") {
				k := rapid.SampledFrom(w.keys).Draw(t, "preludesender")
				to := gen.Keys[5].Addr
				txs = append(txs, gen.SignedTx(w.nc.Config, new(big.Int).Add(head.Number(), big.NewInt(1)), k, st.GetNonce(k.Addr), &to, big.NewInt(1), 21000, big.NewInt(1), nil))
			}
			w.announce(t, w.mine(t, head, txs, w.dt(t)))
		}
		if prelude > 0 {
			w.actions = append(w.actions, fmt.Sprintf("prelude(%d blocks)", prelude))
		}
		w.check(t, "initially")
		t.Repeat(map[string]func(*rapid.T){
			"add": func(t *rapid.T) {
				head, st := w.headState(t)
				tx := w.drawTx(t, st, head)
				w.add(t, tx, rapid.IntRange(0, 3).Draw(t, "local") == 0)
			},
			"addBatch": func(t *rapid.T) {
				head, st := w.headState(t)
				var txs []*types.Transaction
				for i, n := 0, rapid.IntRange(2, 8).Draw(t, "n"); i < n; i++ {
					tx := w.drawTx(t, st, head)
					txs = append(txs, tx)
					w.offered[tx.Hash()] = tx
				}
				// which of them cannot be a same-nonce replacement (only those end in a maintenance pass)
				fresh := make([]bool, len(txs))
				seenNonce := map[string]bool{}
				for i, tx := range txs {
					from := w.sender(tx)
					k := fmt.Sprintf("%x/%d", from, tx.Nonce())
					fresh[i] = !seenNonce[k] && existing(w.pool, from, tx.Nonce()) == nil
					seenNonce[k] = true
				}
				errs := w.pool.AddRemotes(txs)
				w.maintained, w.maintainedAccts = false, map[common.Address]bool{}
				for i, e := range errs {
					if e == nil && fresh[i] {
						w.maintained = true
						w.maintainedAccts[w.sender(txs[i])] = true
					}
				}
				w.actions = append(w.actions, fmt.Sprintf("addRemotes(%d)", len(txs)))
			},
			"replace": func(t *rapid.T) {
				// aim at the bump threshold of an existing transaction
				p, q := w.pool.Content()
				var all []*types.Transaction
				for _, l := range p {
					all = append(all, l...)
				}
				for _, l := range q {
					all = append(all, l...)
				}
				if len(all) == 0 {
					t.Skip("pool empty")
				}
				sort.Slice(all, func(i, j int) bool { return all[i].Hash().Big().Cmp(all[j].Hash().Big()) < 0 })
				old := all[rapid.IntRange(0, len(all)-1).Draw(t, "which")]
				from := w.sender(old)
				var k gen.Key
				for _, x := range gen.Keys {
					if x.Addr == from {
						k = x
					}
				}
				thr := new(big.Int).Mul(old.GasPrice(), big.NewInt(int64(100+w.cfg.PriceBump)))
				thr.Add(thr, big.NewInt(99)).Div(thr, big.NewInt(100)) // ceil
				price := new(big.Int).Add(thr, big.NewInt(int64(rapid.IntRange(-2, 1).Draw(t, "around"))))
				if price.Sign() <= 0 {
					price = big.NewInt(1)
				}
				head, st := w.headState(t)
				// the replacement may ask for more gas and carry more value than what it replaces:
				// the same gas, somewhat more, or an amount in the band the block gas limit moves through
				gas := old.Gas()
				switch rapid.IntRange(0, 5).Draw(t, "moregas") {
				case 0:
					gas += uint64(rapid.SampledFrom([]int{1, 9000, 79000}).Draw(t, "gasplus"))
				case 1, 2:
					gas = nearGasLimit(t, head)
				}
				// value: a token amount, more than before, or what makes the cost meet the sender's balance
				value := big.NewInt(7)
				switch rapid.IntRange(0, 5).Draw(t, "morevalue") {
				case 0:
					value = new(big.Int).Add(old.Value(), big.NewInt(int64(rapid.SampledFrom([]int{1, 1000, 400000}).Draw(t, "valueplus"))))
				case 1:
					v := new(big.Int).Sub(st.GetBalance(from), new(big.Int).Mul(price, new(big.Int).SetUint64(gas)))
					v.Sub(v, big.NewInt(int64(rapid.IntRange(-1, 2).Draw(t, "short"))))
					if v.Sign() > 0 {
						value = v
					}
				}
				to := gen.Keys[5].Addr
				tx := gen.SignedTx(w.nc.Config, new(big.Int).Add(head.Number(), big.NewInt(1)), k, old.Nonce(), &to, value, gas, price, nil)
				w.add(t, tx, false)
			},
			"setGasPrice": func(t *rapid.T) {
				p := big.NewInt(int64(rapid.SampledFrom([]int{1, 2, 6, 11}).Draw(t, "minprice")))
				w.pool.SetGasPrice(p)
				w.maintained, w.maintainedAccts = true, nil
				w.actions = append(w.actions, fmt.Sprintf("setGasPrice(%v)", p))
			},
			"mine": func(t *rapid.T) {
				pending, _ := w.pool.Pending()
				sub := prefixSubset(t, pending)
				head := w.b.Chain.CurrentBlock()
				blk := w.mine(t, head, sub, w.dt(t))
				if w.b.Chain.CurrentBlock().Hash() != blk.Hash() {
					t.Fatalf("mined block did not become the head")
				}
				w.announce(t, blk)
				w.actions = append(w.actions, fmt.Sprintf("mine(%d txs)", len(blk.Transactions())))
				if len(blk.Transactions()) > 0 {
					w.labels["mined-subset"] = true
					w.gapEvt = true
				}
			},
			"drain": func(t *rapid.T) {
				// a spend made elsewhere (a directly mined transfer) that leaves a sender - the poor one or any
				// other - with next to nothing, or with a balance at the edge of what one of its pooled
				// transactions costs (exactly the cost, or one wei short of it)
				head, st := w.headState(t)
				had, hadQ := w.pool.Content()
				k := gen.Keys[3]
				if rapid.Bool().Draw(t, "anyvictim") {
					k = rapid.SampledFrom(w.keys).Draw(t, "victim")
					// mostly a sender that has something in the pool
					var busy []gen.Key
					for _, x := range w.keys {
						if len(had[x.Addr])+len(hadQ[x.Addr]) > 0 {
							busy = append(busy, x)
						}
					}
					if len(busy) > 0 && rapid.IntRange(0, 3).Draw(t, "busyvictim") != 0 {
						k = rapid.SampledFrom(busy).Draw(t, "victim2")
					}
				}
				bal := st.GetBalance(k.Addr)
				fee := big.NewInt(21000)
				if bal.Cmp(new(big.Int).Mul(fee, big.NewInt(3))) < 0 {
					t.Skip("already drained")
				}
				keeps := []*big.Int{big.NewInt(0), big.NewInt(21000), big.NewInt(50000)}
				// edges: the costs of the sender's pooled transactions that outlive the spend's nonce; the
				// dearest of them is singled out half of the time (the spend then invalidates exactly that one)
				var edges []*big.Int
				var dearest *big.Int
				for _, tx := range append(append(types.Transactions{}, had[k.Addr]...), hadQ[k.Addr]...) {
					if tx.Nonce() <= st.GetNonce(k.Addr) {
						continue
					}
					edges = append(edges, new(big.Int).Sub(tx.Cost(), big.NewInt(1)), tx.Cost())
					if dearest == nil || tx.Cost().Cmp(dearest) > 0 {
						dearest = tx.Cost()
					}
				}
				if len(edges) > 0 && rapid.IntRange(0, 3).Draw(t, "edge") != 0 {
					keeps = edges
					if rapid.Bool().Draw(t, "dearest") {
						keeps = []*big.Int{new(big.Int).Sub(dearest, big.NewInt(1)), dearest}
					}
				}
				keep := keeps[rapid.IntRange(0, len(keeps)-1).Draw(t, "keep")]
				value := new(big.Int).Sub(bal, fee)
				value.Sub(value, keep)
				if value.Sign() <= 0 {
					t.Skip("nothing to drain")
				}
				to := gen.Keys[5].Addr
				tx := gen.SignedTx(w.nc.Config, new(big.Int).Add(head.Number(), big.NewInt(1)), k, st.GetNonce(k.Addr), &to, value, 21000, big.NewInt(1), nil)
				blk := w.mine(t, head, []*types.Transaction{tx}, w.dt(t))
				w.announce(t, blk) // (the block is the new head whether or not the transaction fitted)
				if len(blk.Transactions()) != 1 {
					w.actions = append(w.actions, "drain(did not fit)")
					return
				}
				w.actions = append(w.actions, fmt.Sprintf("drain(%x, keeps %v)", k.Addr[:2], keep))
				w.gapEvt = true
				if len(had[k.Addr]) > 0 {
					w.labels["demoted-after-balance-drop"] = true
				}
			},
			"external": func(t *rapid.T) {
				// transactions of a pool sender that reach the chain without passing through this pool
				// (sent through another node): the chain nonce moves under the pool's pending run and queue
				head, st := w.headState(t)
				k := rapid.SampledFrom(w.keys).Draw(t, "extsender")
				n := rapid.IntRange(1, 2).Draw(t, "extcount")
				to := gen.Keys[5].Addr
				var txs []*types.Transaction
				for i := 0; i < n; i++ {
					txs = append(txs, gen.SignedTx(w.nc.Config, new(big.Int).Add(head.Number(), big.NewInt(1)), k, st.GetNonce(k.Addr)+uint64(i), &to, big.NewInt(1), 21000, big.NewInt(1), nil))
				}
				hadP, hadQ := w.pool.Content()
				blk := w.mine(t, head, txs, w.dt(t))
				w.announce(t, blk) // (the block is the new head whether or not the transactions fitted)
				w.actions = append(w.actions, fmt.Sprintf("external(%x,%d)", k.Addr[:2], len(blk.Transactions())))
				if len(blk.Transactions()) == 0 {
					return
				}
				w.gapEvt = true
				if len(hadQ[k.Addr]) > 0 && len(hadP[k.Addr]) == 0 {
					w.labels["external-tx-under-queued-run"] = true
				}
				if len(hadP[k.Addr]) > 0 {
					w.labels["external-tx-under-pending-run"] = true
				}
			},
			"mineOffered": func(t *rapid.T) {
				// a block made elsewhere from transactions this pool has been offered, whether or not it kept them
				head, st := w.headState(t)
				var hs []common.Hash
				for h := range w.offered {
					hs = append(hs, h)
				}
				sort.Slice(hs, func(i, j int) bool { return bytes.Compare(hs[i][:], hs[j][:]) < 0 })
				byNonce := map[common.Address]map[uint64][]*types.Transaction{}
				for _, h := range hs {
					tx := w.offered[h]
					from := w.sender(tx)
					if byNonce[from] == nil {
						byNonce[from] = map[uint64][]*types.Transaction{}
					}
					byNonce[from][tx.Nonce()] = append(byNonce[from][tx.Nonce()], tx)
				}
				var txs []*types.Transaction
				unpooled := 0
				for _, k := range w.keys {
					n := st.GetNonce(k.Addr)
					take := rapid.IntRange(0, 4).Draw(t, "takeoffered")
					for i := 0; i < take; i++ {
						cands := byNonce[k.Addr][n+uint64(i)]
						if len(cands) == 0 {
							break
						}
						tx := cands[rapid.IntRange(0, len(cands)-1).Draw(t, "which")]
						if tx.Gas() > head.GasLimit() {
							break
						}
						if !inPool(w.pool, tx.Hash()) {
							unpooled++
						}
						txs = append(txs, tx)
					}
				}
				if len(txs) == 0 {
					t.Skip("no offered transaction is executable")
				}
				blk := w.mine(t, head, txs, w.dt(t))
				w.announce(t, blk) // (the block is the new head whatever fitted)
				w.actions = append(w.actions, fmt.Sprintf("mineOffered(%d of %d, %d not pooled)", len(blk.Transactions()), len(txs), unpooled))
				if len(blk.Transactions()) > 0 {
					w.gapEvt = true
					w.labels["mined-offered"] = true
					if unpooled > 0 {
						w.labels["mined-offered-unpooled"] = true
					}
				}
			},
			"reorg": func(t *rapid.T) {
				// replace the last d blocks by a heavier sibling branch with a different subset of their
				// transactions. The sibling is made of fast blocks and is as long as it takes to out-weigh the
				// old branch, plus 0..2 blocks: on a slow old branch that is FEWER blocks than it replaces (the
				// new head has a lower number than the old one), otherwise as many or more
				head := w.b.Chain.CurrentBlock()
				if head.NumberU64() < 1 {
					t.Skip("nothing to reorganise")
				}
				d := uint64(rapid.SampledFrom(depths).Draw(t, "depth"))
				if d > head.NumberU64() {
					d = head.NumberU64()
				}
				fork := w.b.Chain.GetBlockByNumber(head.NumberU64() - d)
				var dropped types.Transactions
				for x := head; x.NumberU64() > fork.NumberU64(); x = w.b.Chain.GetBlock(x.ParentHash(), x.NumberU64()-1) {
					dropped = append(dropped, x.Transactions()...)
				}
				sort.Slice(dropped, func(i, j int) bool {
					if a, b := w.sender(dropped[i]), w.sender(dropped[j]); a != b {
						return a.Hex() < b.Hex()
					}
					return dropped[i].Nonce() < dropped[j].Nonce()
				})
				parent := fork
				included := map[common.Hash]bool{}
				// (strictly heavier: at equal total difficulty and equal height the chain tosses a coin)
				oldTd := w.b.Chain.GetTd(head.Hash(), head.NumberU64())
				extra := rapid.SampledFrom([]int{0, 0, 0, 1, 2}).Draw(t, "extra")
				length, heavier := uint64(0), false
				for i := uint64(0); i <= d+2 && (!heavier || extra > 0); i++ {
					if heavier {
						extra--
					}
					var sub []*types.Transaction
					if i == 0 {
						for _, tx := range dropped {
							if rapid.IntRange(0, 2).Draw(t, "keep") == 0 {
								sub = append(sub, tx)
							}
						}
					}
					blk := w.mine(t, parent, sub, 1)
					for _, tx := range blk.Transactions() {
						included[tx.Hash()] = true
					}
					parent = blk
					length++
					heavier = w.b.Chain.GetTd(blk.Hash(), blk.NumberU64()).Cmp(oldTd) > 0
				}
				if !heavier || w.b.Chain.CurrentBlock().Hash() != parent.Hash() {
					// (not reachable with fast sibling blocks; should a coin toss have moved the head, tell the pool)
					if cur := w.b.Chain.CurrentBlock(); cur.Hash() != head.Hash() {
						w.announce(t, cur)
					}
					t.Skip("the sibling branch did not become the head")
				}
				poolFullBefore := w.saturated()
				w.announce(t, parent)
				w.actions = append(w.actions, fmt.Sprintf("reorg(%d blocks replaced by %d, %d dropped, %d re-included)", d, length, len(dropped), len(included)))
				w.labels["reorg"] = true
				w.gapEvt = true
				shape := "reorg-to-higher-head"
				if length < d {
					shape = "reorg-to-lower-head"
				} else if length == d {
					shape = "reorg-to-equal-height"
				}
				w.labels[shape] = true
				// re-injection of what dropped out and is still valid
				_, st := w.headState(t)
				for _, tx := range dropped {
					if included[tx.Hash()] {
						continue
					}
					from := w.sender(tx)
					valid := tx.Nonce() >= st.GetNonce(from) && tx.Cost().Cmp(st.GetBalance(from)) <= 0 && tx.Gas() <= parent.GasLimit() &&
						(w.sureLocals[from] || tx.GasPrice().Cmp(w.pool.GasPrice()) >= 0)
					if !valid || poolFullBefore || w.saturated() {
						ev.Label("reorg-reinjection-skipped")
						continue
					}
					// a transaction of the same sender and nonce offered meanwhile may legitimately hold the slot
					if ex := existing(w.pool, from, tx.Nonce()); ex != nil && ex.Hash() != tx.Hash() {
						continue
					}
					if !inPool(w.pool, tx.Hash()) {
						t.Fatalf("transaction %x (sender %x nonce %d) dropped out of the canonical chain by a reorganisation, is still valid at the new head, and was not pooled again (re-offering it now: %v)\nhistory:\n  %s", tx.Hash().Bytes()[:4], from[:4], tx.Nonce(), w.pool.AddRemote(tx), strings.Join(w.actions, "\n  "))
					}
					w.labels["reorg-reinjection-checked"] = true
					w.labels["reinjection-checked-after-"+shape] = true
				}
			},
			"": func(t *rapid.T) {
				w.check(t, fmt.Sprintf("limits=%v bump=%d history:\n  %s\nafter action %d (%s)", kind, cfg.PriceBump, strings.Join(w.actions, "\n  "), len(w.actions), last(w.actions)))
			},
		})
		// classification
		p, q := w.pool.Content()
		np, nq := 0, 0
		for a, l := range p {
			np += len(l)
			if w.locals[a] && uint64(len(l)) > w.cfg.AccountSlots {
				w.labels["local-exempt"] = true
			}
		}
		for a, l := range q {
			nq += len(l)
			if w.locals[a] && uint64(len(l)) > w.cfg.AccountQueue {
				w.labels["local-exempt"] = true
			}
		}
		offeredAlive := 0
		for h := range w.offered {
			if inPool(w.pool, h) {
				offeredAlive++
			}
		}
		if kind == "tiny" && len(w.offered) > np+nq+3 {
			w.labels["evicted-by-limit"] = true
		}
		var lb []string
		for k := range w.labels {
			lb = append(lb, k)
		}
		ev.Case(w.gapEvt, []byte(strings.Join(w.actions, ";")), append(lb, "config:"+nc.Name)...)
		ev.Sample(map[string]interface{}{"config": nc.Name, "limits": kind, "bump": cfg.PriceBump, "pace": w.pace, "actions": w.actions})
	}
}

func (w *world) saturated() bool {
	p, q := w.pool.Stats()
	return uint64(p)+2 >= w.cfg.GlobalSlots || uint64(q)+2 >= w.cfg.GlobalQueue || w.cfg.AccountSlots < 16
}

func last(a []string) string {
	if len(a) == 0 {
		return "-"
	}
	return a[len(a)-1]
}

// ---------- concurrent leg ----------

func TestConcurrentSubmissions(t *testing.T) {
	ev.Check(t, ev.N(12, 600), func(t *rapid.T) {
		nc := gen.ConfigByName(rapid.SampledFrom([]string{"steep", "all-at-0"}).Draw(t, "config"))
		cfg, kind := poolConfig(t)
		w := newWorld(t, nc, cfg)
		defer w.close()
		head, st := w.headState(t)
		// pre-generate everything with rapid; goroutines only replay
		const workers = 6
		var batches [workers][]*types.Transaction
		for g := 0; g < workers; g++ {
			for i, n := 0, rapid.IntRange(5, 25).Draw(t, "n"); i < n; i++ {
				k := w.keys[rapid.IntRange(0, len(w.keys)-1).Draw(t, "k")]
				nonce := st.GetNonce(k.Addr) + uint64(rapid.IntRange(0, 12).Draw(t, "nonce"))
				price := big.NewInt(int64(rapid.SampledFrom([]int{1, 2, 5, 10, 11, 20}).Draw(t, "price")))
				to := gen.Keys[5].Addr
				batches[g] = append(batches[g], gen.SignedTx(nc.Config, new(big.Int).Add(head.Number(), big.NewInt(1)), k, nonce, &to, big.NewInt(int64(i)), 21000, price, nil))
			}
		}
		nblocks := rapid.IntRange(1, 4).Draw(t, "blocks")
		var wg sync.WaitGroup
		for g := 0; g < workers; g++ {
			wg.Add(1)
			go func(g int) {
				defer wg.Done()
				for i, tx := range batches[g] {
					if g%2 == 0 && i%5 == 0 {
						w.pool.AddLocal(tx)
					} else if i%7 == 0 {
						w.pool.AddRemotes([]*types.Transaction{tx})
					} else {
						w.pool.AddRemote(tx)
					}
					if i%3 == 0 {
						w.pool.Pending()
						w.pool.Stats()
					}
				}
			}(g)
		}
		// head-advancing goroutine: mines what is pending at that moment
		fail := make(chan string, 1)
		wg.Add(1)
		go func() {
			defer wg.Done()
			for i := 0; i < nblocks; i++ {
				pending, _ := w.pool.Pending()
				var sub []*types.Transaction
				for _, l := range pending {
					sort.Slice(l, func(i, j int) bool { return l[i].Nonce() < l[j].Nonce() })
					sub = append(sub, l[:(len(l)+1)/2]...)
				}
				built, err := w.b.Build(w.b.Chain.CurrentBlock(), gen.BlockSpec{TimeDelta: 13, Coinbase: gen.Keys[6].Addr, Txs: sub})
				if err != nil {
					select {
					case fail <- err.Error():
					default:
					}
					return
				}
				w.pc.feed.Send(core.ChainHeadEvent{Block: built.Block})
			}
		}()
		wg.Wait()
		select {
		case msg := <-fail:
			t.Fatalf("builder: %s", msg)
		default:
		}
		// quiescence: one more announce of the current head, then judge
		for a := range map[common.Address]bool{} {
			_ = a
		}
		w.locals = map[common.Address]bool{}
		for g := 0; g < workers; g += 2 {
			for i, tx := range batches[g] {
				if i%5 == 0 {
					w.locals[w.sender(tx)] = true // possibly local (if that AddLocal succeeded): exempt from limits
				}
			}
		}
		w.announce(t, w.b.Chain.CurrentBlock())
		w.check(t, "after concurrent submissions and head changes")
		ev.Case(true, []byte(fmt.Sprintf("conc:%s:%s:%d:%x", nc.Name, kind, nblocks, w.b.Chain.CurrentBlock().Hash())), "concurrent-run", kind+"-limits")
	})
}
