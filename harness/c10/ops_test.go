package c10

// Case encoding shared by the rapid generator, the native fuzz target, the
// corpus replay and TestReplay: a 3-byte header followed by 7-byte op records.
// Every byte string decodes to a valid case (all fields are reduced modulo
// their range), so the fuzzer never wastes inputs on a parser.

import (
	"bytes"
	"encoding/hex"
	"fmt"
	"strings"

	"verifharness/ref/refmpt"
	"verifharness/ref/refrlp"
)

type mode uint8

const (
	modeVar    mode = iota // plain Trie, variable-length keys over a 3-symbol nibble alphabet (prefix keys)
	modeFixed              // plain Trie, 32-byte keys (patterned with long shared runs, and keccak images)
	modeMixed              // plain Trie, variable-length + 32-byte + RLP-index keys in one trie
	modeSecure             // SecureTrie (raw keys of any length; trie keys are their keccak images)
	modeNoDB               // zero-value Trie without a database (what types.DeriveSha uses): no commit
	nModes
)

var modeNames = [...]string{"var", "fixed32", "mixed", "secure", "nodb"}

type opKind uint8

const (
	kUpdate opKind = iota
	kDelete
	kUpdateEmpty // TryUpdate(key, empty) == delete
	kGet
	kHash
	kCommit
	kFlush // Commit + trie.Database.Commit(root) to the disk database
	kReopenSame
	kReopenFresh
	kCacheLimit
	kIterate
	kProve
	kCopy
	kGC // trie.Database.Dereference of an older referenced root
	nKinds
)

var kindNames = [...]string{"update", "delete", "update-empty", "get", "hash", "commit", "flush", "reopen-same", "reopen-fresh",
	"cachelimit", "iterate", "prove", "copy", "gc"}

// kindTable is the weighting of op kinds (32 slots so that a fuzz byte maps evenly).
var kindTable = []opKind{
	kUpdate, kUpdate, kUpdate, kUpdate, kUpdate, kUpdate, kUpdate, kCopy,
	kDelete, kDelete, kDelete, kDelete, kUpdateEmpty, kUpdateEmpty,
	kGet, kGet, kHash, kHash,
	kCommit, kCommit, kCommit, kCommit, kFlush, kFlush,
	kReopenSame, kReopenFresh, kCacheLimit, kIterate,
	kProve, kProve, kCopy, kGC,
}

type op struct {
	Kind  uint8 // index into kindTable (mod len)
	Fam   uint8 // key family slot (mod 4), meaning depends on the mode
	Idx   uint16
	VLen  uint8 // index into valueLens (mod len)
	VFill uint8
	N     uint8 // cache limit selector / proof alteration seed / gc victim
}

type header struct {
	Mode  uint8 // mod nModes
	Limit uint8 // initial cache limit selector
	Flags uint8 // bit 0: reference every committed root in the trie.Database and allow Dereference (gc)
}

const opSize = 7
const hdrSize = 3
const maxDecodedOps = 96

func encodeCase(h header, ops []op) []byte {
	b := []byte{h.Mode, h.Limit, h.Flags}
	for _, o := range ops {
		b = append(b, o.Kind, o.Fam, byte(o.Idx>>8), byte(o.Idx), o.VLen, o.VFill, o.N)
	}
	return b
}

func decodeCase(b []byte) (header, []op) {
	var h header
	if len(b) > 0 {
		h.Mode = b[0]
	}
	if len(b) > 1 {
		h.Limit = b[1]
	}
	if len(b) > 2 {
		h.Flags = b[2]
	}
	var ops []op
	for i := hdrSize; i+opSize <= len(b) && len(ops) < maxDecodedOps; i += opSize {
		r := b[i : i+opSize]
		ops = append(ops, op{Kind: r[0], Fam: r[1], Idx: uint16(r[2])<<8 | uint16(r[3]), VLen: r[4], VFill: r[5], N: r[6]})
	}
	return h, ops
}

func (h header) mode() mode { return mode(h.Mode % uint8(nModes)) }
func (h header) gc() bool   { return h.Flags&1 == 1 && h.mode() != modeNoDB }

var cacheLimits = [...]uint16{0, 1, 2, 3, 10}

func limitOf(sel uint8) uint16 { return cacheLimits[int(sel)%len(cacheLimits)] }

func (o op) kind() opKind { return kindTable[int(o.Kind)%len(kindTable)] }

// ---------- values ----------

var valueLens = [...]int{1, 2, 3, 31, 32, 33, 100, 1}

func (o op) value() []byte {
	return bytes.Repeat([]byte{o.VFill}, valueLens[int(o.VLen)%len(valueLens)])
}

// ---------- key families ----------

const (
	famVar   = iota // 0..3 bytes over nibble alphabet {0,1,f}
	famPat          // 32-byte keys differing at byte 0, 15 and 31 only
	famKec          // keccak([i]), i < 24
	famRlp          // rlp(uint) index keys as used by DeriveSha
	famReuse        // a key used earlier in this history
)

var famsByMode = [nModes][4]uint8{
	modeVar:    {famVar, famVar, famReuse, famReuse},
	modeFixed:  {famPat, famKec, famReuse, famReuse},
	modeMixed:  {famVar, famPat, famRlp, famReuse},
	modeSecure: {famVar, famRlp, famPat, famReuse},
	modeNoDB:   {famVar, famVar, famReuse, famReuse},
}

var alphaBytes = [9]byte{0x00, 0x01, 0x0f, 0x10, 0x11, 0x1f, 0xf0, 0xf1, 0xff}

func varKey(idx uint16) []byte {
	l := int(idx & 3)
	r := int(idx >> 2)
	k := make([]byte, l)
	for i := range k {
		k[i] = alphaBytes[r%9]
		r /= 9
	}
	return k
}

var patKeys, kecKeys, rlpKeys [][]byte

func init() {
	for _, a := range []byte{0x00, 0x01, 0x10} {
		for _, b := range []byte{0x00, 0x0f} {
			for _, c := range []byte{0x00, 0x01, 0x10} {
				k := bytes.Repeat([]byte{0xaa}, 32)
				k[0], k[15], k[31] = a, b, c
				patKeys = append(patKeys, k)
			}
		}
	}
	for i := 0; i < 24; i++ {
		kecKeys = append(kecKeys, refmpt.Keccak([]byte{byte(i)}))
	}
	for _, u := range []uint64{0, 1, 2, 0x7f, 0x80, 0x81, 0xff, 0x100, 0x101, 0xffff} {
		rlpKeys = append(rlpKeys, refrlp.Encode(refrlp.U(u)))
	}
}

// keyOf resolves an op's key. touched is the list of keys used so far.
func keyOf(m mode, o op, touched [][]byte) []byte {
	fam := famsByMode[m][o.Fam%4]
	if fam == famReuse {
		if len(touched) > 0 {
			return touched[int(o.Idx)%len(touched)]
		}
		fam = famsByMode[m][0]
	}
	switch fam {
	case famVar:
		return varKey(o.Idx)
	case famPat:
		return patKeys[int(o.Idx)%len(patKeys)]
	case famKec:
		return kecKeys[int(o.Idx)%len(kecKeys)]
	default:
		return rlpKeys[int(o.Idx)%len(rlpKeys)]
	}
}

// findKey is the inverse of keyOf for hand-written histories (corpus seeds).
func findKey(m mode, key []byte) (fam uint8, idx uint16) {
	for slot := uint8(0); slot < 4; slot++ {
		switch famsByMode[m][slot] {
		case famVar:
			if len(key) <= 3 {
				ok, r, mul := true, 0, 1
				for _, b := range key {
					p := bytes.IndexByte(alphaBytes[:], b)
					if p < 0 {
						ok = false
						break
					}
					r += p * mul
					mul *= 9
				}
				if ok {
					return slot, uint16(r<<2 | len(key))
				}
			}
		case famPat:
			for i, k := range patKeys {
				if bytes.Equal(k, key) {
					return slot, uint16(i)
				}
			}
		case famKec:
			for i, k := range kecKeys {
				if bytes.Equal(k, key) {
					return slot, uint16(i)
				}
			}
		case famRlp:
			for i, k := range rlpKeys {
				if bytes.Equal(k, key) {
					return slot, uint16(i)
				}
			}
		}
	}
	panic(fmt.Sprintf("findKey: %x is not in mode %s's key space", key, modeNames[m]))
}

// mk builds an op for a hand-written history.
func mk(m mode, kind opKind, key []byte, vlenIdx int, fill byte, n uint8) op {
	ki := -1
	for i, k := range kindTable {
		if k == kind {
			ki = i
			break
		}
	}
	o := op{Kind: uint8(ki), VLen: uint8(vlenIdx), VFill: fill, N: n}
	if key != nil {
		o.Fam, o.Idx = findKey(m, key)
	}
	return o
}

func describe(h header, ops []op) string {
	m := h.mode()
	var sb strings.Builder
	fmt.Fprintf(&sb, "mode=%s limit=%d gc=%v:", modeNames[m], limitOf(h.Limit), h.gc())
	var touched [][]byte
	seen := map[string]bool{}
	for _, o := range ops {
		k := keyOf(m, o, touched)
		if !seen[string(k)] {
			seen[string(k)] = true
			touched = append(touched, k)
		}
		switch o.kind() {
		case kUpdate:
			v := o.value()
			fmt.Fprintf(&sb, " update(%x,%dx%02x)", k, len(v), o.VFill)
		case kDelete, kUpdateEmpty, kGet, kProve, kIterate:
			fmt.Fprintf(&sb, " %s(%x)", kindNames[o.kind()], k)
		default:
			fmt.Fprintf(&sb, " %s[%d]", kindNames[o.kind()], o.N)
		}
	}
	return sb.String()
}

func hexCase(h header, ops []op) string { return hex.EncodeToString(encodeCase(h, ops)) }
