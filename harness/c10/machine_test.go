package c10

// The interpreter: runs one history against /repo/trie and judges every
// observation against a map model, the independent Yellow-Paper root
// (refmpt.Root) and the independent proof checker (refmpt.ProofCheck).

import (
	"bytes"
	"errors"
	"fmt"
	"runtime/debug"
	"sort"

	"gitlab.com/aquachain/aquachain/aquadb"
	"gitlab.com/aquachain/aquachain/common"
	"gitlab.com/aquachain/aquachain/trie"
	"verifharness/ev"
	"verifharness/ref/refmpt"
)

// trieAPI is the surface shared by *trie.Trie and *trie.SecureTrie.
type trieAPI interface {
	TryGet(key []byte) ([]byte, error)
	TryUpdate(key, value []byte) error
	TryDelete(key []byte) error
	Hash() common.Hash
	Commit(onleaf trie.LeafCallback) (common.Hash, error)
	NodeIterator(start []byte) trie.NodeIterator
	Prove(key []byte, fromLevel uint, proofDb aquadb.Putter) error
}

// countingDB counts node reads that reach the disk database: such a read can
// only come from resolving a hash reference inside a trie.
type countingDB struct {
	*aquadb.MemDatabase
	gets int
}

func (c *countingDB) Get(k []byte) ([]byte, error) {
	if len(k) == 32 {
		c.gets++
	}
	return c.MemDatabase.Get(k)
}

type failure struct{ msg string }

type shadow struct {
	tr   trieAPI
	snap map[string][]byte
	keys [][]byte
	at   int
}

type proofNode struct{ key, val []byte }
type proofList []proofNode

func (p *proofList) Put(k, v []byte) error {
	*p = append(*p, proofNode{append([]byte{}, k...), append([]byte{}, v...)})
	return nil
}

type machine struct {
	mode   mode
	gc     bool
	disk   *countingDB
	tdb    *trie.Database
	tr     trieAPI
	limit  uint16
	model  map[string][]byte // raw key -> value (never empty)
	touched [][]byte
	seen   map[string]bool

	wantValid bool
	want      common.Hash

	lastCommitted common.Hash
	haveCommitted bool
	bornEmpty     bool // the current trie object was created empty: every hash reference in it comes from unloading
	lastOpCommit  bool

	refOrder []common.Hash
	refs     map[common.Hash]int
	snaps    map[common.Hash]map[string][]byte

	shadows []shadow

	prevProof [][]byte // blobs of the previous proof (stale / foreign nodes for later proofs)

	step       int
	labels     map[string]bool
	nontrivial bool
	deep       bool // per-op root check through an observer copy
}

var emptyRoot = common.BytesToHash(refmpt.EmptyRoot)

func (m *machine) failf(f string, a ...interface{}) {
	panic(failure{fmt.Sprintf("op %d: ", m.step) + fmt.Sprintf(f, a...)})
}

func (m *machine) label(l string) { m.labels[l] = true }

func newMachine(h header, deep bool) *machine {
	m := &machine{mode: h.mode(), gc: h.gc(), limit: limitOf(h.Limit), model: map[string][]byte{}, seen: map[string]bool{},
		labels: map[string]bool{}, refs: map[common.Hash]int{}, snaps: map[common.Hash]map[string][]byte{}, deep: deep, bornEmpty: true}
	m.label("mode:" + modeNames[m.mode])
	if m.gc {
		m.label("gc-refs")
	}
	if m.mode == modeNoDB {
		m.tr = new(trie.Trie)
		return m
	}
	m.disk = &countingDB{MemDatabase: aquadb.NewMemDatabase()}
	m.tdb = trie.NewDatabase(m.disk)
	m.tr = m.open(common.Hash{})
	return m
}

func (m *machine) open(root common.Hash) trieAPI {
	if m.mode == modeSecure {
		t, err := trie.NewSecure(root, m.tdb, m.limit)
		if err != nil {
			m.failf("NewSecure(%x): %v", root, err)
		}
		return t
	}
	t, err := trie.New(root, m.tdb)
	if err != nil {
		m.failf("New(%x): %v", root, err)
	}
	t.SetCacheLimit(m.limit)
	return t
}

// trieKey maps a raw key to the key the underlying trie stores.
func (m *machine) trieKey(raw []byte) []byte {
	if m.mode == modeSecure {
		return refmpt.Keccak(raw)
	}
	return raw
}

func (m *machine) hashedModel(model map[string][]byte) map[string][]byte {
	if m.mode != modeSecure {
		return model
	}
	out := make(map[string][]byte, len(model))
	for k, v := range model {
		out[string(refmpt.Keccak([]byte(k)))] = v
	}
	return out
}

func (m *machine) wantRoot() common.Hash {
	if !m.wantValid {
		m.want = common.BytesToHash(refmpt.Root(m.hashedModel(m.model)))
		m.wantValid = true
	}
	return m.want
}

func (m *machine) checkRoot(got common.Hash, what string) {
	if want := m.wantRoot(); got != want {
		m.failf("%s: root %x, Yellow-Paper root of the model is %x (model %s)", what, got, want, m.dumpModel())
	}
}

func (m *machine) dumpModel() string {
	keys := make([]string, 0, len(m.model))
	for k := range m.model {
		keys = append(keys, k)
	}
	sort.Strings(keys)
	s := "{"
	for _, k := range keys {
		v := m.model[k]
		s += fmt.Sprintf(" %x:%dx%02x", k, len(v), v[0])
	}
	return s + " }"
}

func (m *machine) touch(k []byte) {
	if !m.seen[string(k)] {
		m.seen[string(k)] = true
		m.touched = append(m.touched, k)
	}
}

func nibblesOf(k []byte) []byte {
	n := make([]byte, 0, 2*len(k)+1)
	for _, b := range k {
		n = append(n, b>>4, b&15)
	}
	return n
}

func hexpath(tk []byte) []byte { return append(nibblesOf(tk), 16) }

func lcp(a, b []byte) int {
	i := 0
	for i < len(a) && i < len(b) && a[i] == b[i] {
		i++
	}
	return i
}

// classifyDelete says, from the model alone, what removing key does to the
// canonical shape: the deepest branch on the key's path loses one of its
// entries; with exactly two entries before, the branch must collapse.
func (m *machine) classifyDelete(raw []byte) {
	if _, ok := m.model[string(raw)]; !ok {
		m.label("delete-absent")
		return
	}
	if len(m.model) == 1 {
		m.label("delete-to-empty")
		m.nontrivial = true
		return
	}
	p := hexpath(m.trieKey(raw))
	var others [][]byte
	best := -1
	for k := range m.model {
		if k == string(raw) {
			continue
		}
		o := hexpath(m.trieKey([]byte(k)))
		others = append(others, o)
		if l := lcp(p, o); l > best {
			best = l
		}
	}
	syms := map[byte]bool{}
	for _, o := range others {
		if lcp(p, o) == best {
			syms[o[best]] = true
		}
	}
	if len(syms) == 1 {
		m.label("collapse")
		m.nontrivial = true
		if m.lastOpCommit {
			m.label("collapse-right-after-commit")
		}
		if p[best] == 16 {
			m.label("collapse-branch-value-removed")
		}
		for s := range syms {
			if s == 16 {
				m.label("collapse-onto-branch-value")
			}
		}
	} else {
		m.label("delete-keeps-branch")
	}
	if p[best] == 16 {
		m.label("branch-value-delete")
	}
}

func (m *machine) classifyInsert(raw, val []byte) {
	if old, ok := m.model[string(raw)]; ok {
		if bytes.Equal(old, val) {
			m.label("update-same-value")
		} else {
			m.label("overwrite")
		}
	}
	if len(val) >= 32 {
		m.label("val>=32")
	} else {
		m.label("val<32")
	}
	if m.mode == modeSecure {
		return
	}
	for k := range m.model {
		if len(k) < len(raw) && bytes.HasPrefix(raw, []byte(k)) {
			m.label("prefix-key")
			m.label("insert-extends-existing-key")
		}
		if len(k) > len(raw) && bytes.HasPrefix([]byte(k), raw) {
			m.label("prefix-key")
			m.label("branch-value")
		}
	}
	if len(raw) == 0 {
		m.label("empty-key")
	}
}

// observer returns a copy of the trie under test that shares its nodes
// (SecureTrie.Copy, and the same struct copy for the plain Trie): reading
// through it does not load nodes into, or cache hashes in, the trie under test.
func (m *machine) observer() trieAPI {
	switch t := m.tr.(type) {
	case *trie.Trie:
		c := *t
		return &c
	case *trie.SecureTrie:
		return t.Copy()
	}
	panic("unreachable")
}

func (m *machine) checkGet(t trieAPI, raw []byte, what string) {
	got, err := t.TryGet(raw)
	if err != nil {
		m.failf("%s: TryGet(%x): %v", what, raw, err)
	}
	want := m.model[string(raw)]
	if !bytes.Equal(got, want) || (len(want) > 0) != (len(got) > 0) {
		m.failf("%s: TryGet(%x) = %x, model has %x", what, raw, got, want)
	}
}

func (m *machine) run(ops []op) {
	for i, o := range ops {
		m.step = i
		m.exec(o)
	}
	m.step = len(ops)
	m.finish()
}

func (m *machine) exec(o op) {
	kind := o.kind()
	key := keyOf(m.mode, o, m.touched)
	m.touch(key)
	if m.mode == modeNoDB {
		switch kind {
		case kCommit, kFlush, kReopenSame, kReopenFresh, kCacheLimit, kGC:
			kind = kHash
		}
	}
	if kind == kGC && (!m.gc || len(m.refOrder) == 0) {
		kind = kHash
	}
	gets0 := 0
	if m.disk != nil {
		gets0 = m.disk.gets
	}
	isCommit := false
	switch kind {
	case kUpdate:
		val := o.value()
		m.classifyInsert(key, val)
		if err := m.tr.TryUpdate(key, val); err != nil {
			m.failf("TryUpdate(%x): %v", key, err)
		}
		m.model[string(key)] = val
		m.wantValid = false
	case kDelete, kUpdateEmpty:
		m.classifyDelete(key)
		var err error
		if kind == kDelete {
			err = m.tr.TryDelete(key)
		} else if o.N&1 == 0 {
			err = m.tr.TryUpdate(key, nil)
		} else {
			err = m.tr.TryUpdate(key, []byte{})
		}
		if err != nil {
			m.failf("%s(%x): %v", kindNames[kind], key, err)
		}
		delete(m.model, string(key))
		m.wantValid = false
	case kGet:
		m.checkGet(m.tr, key, "get")
	case kHash:
		m.checkRoot(m.tr.Hash(), "Hash()")
	case kCommit:
		m.commit()
		isCommit = true
	case kFlush:
		m.commit()
		m.flush()
		isCommit = true
	case kReopenSame:
		m.commit()
		m.tr = m.open(m.lastCommitted)
		m.bornEmpty = m.lastCommitted == emptyRoot
		m.label("reopen-same")
		m.nontrivial = m.nontrivial || len(m.model) > 0
		m.checkRoot(m.observer().Hash(), "Hash() after reopening on the same trie.Database")
		isCommit = true
	case kReopenFresh:
		m.commit()
		m.flush()
		m.tdb = trie.NewDatabase(m.disk)
		m.refOrder, m.refs, m.snaps = nil, map[common.Hash]int{}, map[common.Hash]map[string][]byte{}
		m.tr = m.open(m.lastCommitted)
		m.bornEmpty = m.lastCommitted == emptyRoot
		m.label("reopen-fresh")
		m.nontrivial = m.nontrivial || len(m.model) > 0
		m.checkRoot(m.observer().Hash(), "Hash() after reopening on a fresh trie.Database")
		m.walkDisk()
		isCommit = true
	case kCacheLimit:
		m.limit = limitOf(o.N)
		if t, ok := m.tr.(*trie.Trie); ok {
			t.SetCacheLimit(m.limit)
		}
		m.label(fmt.Sprintf("cachelimit:%d", m.limit))
	case kIterate:
		m.iterate(m.tr, m.model, nil, "full scan")
		m.iterate(m.tr, m.model, m.trieKey(key), "scan from start key")
		m.label("iterate")
	case kProve:
		m.prove(key, o.N)
	case kCopy:
		m.copyTrie()
	case kGC:
		m.collect(o.N)
	}
	m.lastOpCommit = isCommit

	// Invariant, observed through a copy so that the history is not perturbed.
	obs := m.observer()
	for _, k := range m.touched {
		m.checkGet(obs, k, "after "+kindNames[kind])
	}
	if m.deep {
		m.checkRoot(obs.Hash(), "Hash() of an observer copy after "+kindNames[kind])
	}
	if m.disk != nil && m.disk.gets > gets0 {
		m.label("reload-from-disk")
		if m.bornEmpty {
			// the trie object never decoded a stored root, so the reference that was
			// just resolved from disk was produced by unloading an in-memory node
			m.label("unload+reload")
			m.nontrivial = true
		}
	}
}

func (m *machine) commit() {
	root, err := m.tr.Commit(nil)
	if err != nil {
		m.failf("Commit: %v", err)
	}
	m.checkRoot(root, "Commit()")
	m.lastCommitted, m.haveCommitted = root, true
	m.label("commit")
	if m.gc && root != emptyRoot {
		m.tdb.Reference(root, common.Hash{})
		m.refs[root]++
		m.refOrder = append(m.refOrder, root)
		if _, ok := m.snaps[root]; !ok {
			m.snaps[root] = cloneModel(m.model)
		}
	}
}

func (m *machine) flush() {
	if err := m.tdb.Commit(m.lastCommitted, false); err != nil {
		m.failf("trie.Database.Commit(%x): %v", m.lastCommitted, err)
	}
	if m.lastCommitted != emptyRoot {
		blob, err := m.disk.MemDatabase.Get(m.lastCommitted[:])
		if err != nil || !bytes.Equal(refmpt.Keccak(blob), m.lastCommitted[:]) {
			m.failf("after trie.Database.Commit the root node %x is not on disk under its hash (err=%v)", m.lastCommitted, err)
		}
	}
	m.label("flush")
}

func cloneModel(in map[string][]byte) map[string][]byte {
	out := make(map[string][]byte, len(in))
	for k, v := range in {
		out[k] = v
	}
	return out
}

// walkDisk walks every node of the freshly reopened trie: each hashed node
// must be stored on disk under the keccak of its encoding.
func (m *machine) walkDisk() {
	it := m.observer().NodeIterator(nil)
	n := 0
	for it.Next(true) {
		h := it.Hash()
		if h == (common.Hash{}) {
			continue
		}
		blob, err := m.disk.MemDatabase.Get(h[:])
		if err != nil {
			m.failf("node %x at path %x is referenced but not on disk", h, it.Path())
		}
		if !bytes.Equal(refmpt.Keccak(blob), h[:]) {
			m.failf("disk entry %x does not hash to its key", h)
		}
		n++
	}
	if err := it.Error(); err != nil {
		m.failf("node iteration after reopen: %v", err)
	}
	if n > 1 {
		m.label("reopen-multi-node")
	}
}

type pair struct{ k, v []byte }

// iterate compares an Iterator scan with the model. Order is the trie's own
// order: nibble paths with the terminator (16) sorting after every nibble, which
// coincides with bytewise key order whenever no key is a prefix of another.
func (m *machine) iterate(t trieAPI, model map[string][]byte, start []byte, what string) {
	type exp struct {
		hp   []byte
		tk   []byte
		raw  string
		v    []byte
	}
	var want []exp
	sn := nibblesOf(start)
	for k, v := range model {
		tk := m.trieKey([]byte(k))
		hp := hexpath(tk)
		if bytes.Compare(hp, sn) >= 0 {
			want = append(want, exp{hp, tk, k, v})
		}
	}
	sort.Slice(want, func(a, b int) bool { return bytes.Compare(want[a].hp, want[b].hp) < 0 })
	it := trie.NewIterator(t.NodeIterator(start))
	var got []pair
	for it.Next() {
		got = append(got, pair{append([]byte{}, it.Key...), append([]byte{}, it.Value...)})
		if len(got) > len(model)+4 {
			break
		}
	}
	if it.Err != nil {
		m.failf("%s: iterator error: %v", what, it.Err)
	}
	render := func() string {
		s := ""
		for _, p := range got {
			s += fmt.Sprintf(" %x:%dB", p.k, len(p.v))
		}
		return s
	}
	if len(got) != len(want) {
		m.failf("%s (start %x): iterator returned %d pairs, model has %d: got%s; model %s", what, start, len(got), len(want), render(), m.dumpModel())
	}
	// content first (the property), then order
	gs := map[string][]byte{}
	for _, p := range got {
		if _, dup := gs[string(p.k)]; dup {
			m.failf("%s: iterator returned key %x twice", what, p.k)
		}
		gs[string(p.k)] = p.v
	}
	for _, w := range want {
		v, ok := gs[string(w.tk)]
		if !ok || !bytes.Equal(v, w.v) {
			m.failf("%s (start %x): iterator misses or alters key %x: got %x want %x; got%s", what, start, w.tk, v, w.v, render())
		}
	}
	for i, w := range want {
		if !bytes.Equal(got[i].k, w.tk) {
			m.failf("%s (start %x): iteration order: position %d is %x, expected %x", what, start, i, got[i].k, w.tk)
		}
	}
	if st, ok := t.(*trie.SecureTrie); ok {
		for _, w := range want {
			if pre := st.GetKey(w.tk); !bytes.Equal(pre, []byte(w.raw)) {
				m.failf("SecureTrie.GetKey(%x) = %x, the key that was inserted is %x", w.tk, pre, w.raw)
			}
		}
	}
}

func (m *machine) copyTrie() {
	if len(m.shadows) >= 3 {
		m.checkShadows()
		m.shadows = m.shadows[1:]
	}
	m.shadows = append(m.shadows, shadow{tr: m.observer(), snap: cloneModel(m.model), keys: append([][]byte{}, m.touched...), at: m.step})
	m.label("copy")
}

func (m *machine) checkShadows() {
	for _, s := range m.shadows {
		for _, k := range s.keys {
			got, err := s.tr.TryGet(k)
			if err != nil {
				m.failf("copy taken at op %d: TryGet(%x): %v", s.at, k, err)
			}
			if want := s.snap[string(k)]; !bytes.Equal(got, want) {
				m.failf("copy taken at op %d changed with the original: TryGet(%x) = %x, at copy time %x", s.at, k, got, want)
			}
		}
		want := common.BytesToHash(refmpt.Root(m.hashedModel(s.snap)))
		if got := s.tr.Hash(); got != want {
			m.failf("copy taken at op %d: root %x, expected %x", s.at, got, want)
		}
		m.label("copy-checked")
	}
}

// collect drops one reference to an older committed root and checks that every
// root that is still referenced (and the trie under test) stays complete.
func (m *machine) collect(n uint8) {
	var cand []int
	for i, r := range m.refOrder {
		if r != m.lastCommitted {
			cand = append(cand, i)
		}
	}
	if len(cand) == 0 {
		return
	}
	i := cand[int(n)%len(cand)]
	victim := m.refOrder[i]
	m.refOrder = append(m.refOrder[:i:i], m.refOrder[i+1:]...)
	m.refs[victim]--
	m.shadows = nil // copies may hang on nodes of the root that is being released
	m.tdb.Dereference(victim, common.Hash{})
	m.label("gc-dereference")
	if len(m.refOrder) > 0 {
		r := m.refOrder[int(n/2)%len(m.refOrder)]
		t := m.open(r)
		snap := m.snaps[r]
		if got, want := t.Hash(), common.BytesToHash(refmpt.Root(m.hashedModel(snap))); got != want || got != r {
			m.failf("harness: snapshot root mismatch %x %x %x", got, want, r)
		}
		m.iterate(t, snap, nil, fmt.Sprintf("scan of still-referenced root %x after Dereference(%x)", r, victim))
		m.label("gc-survivor-checked")
	}
}

func (m *machine) finish() {
	// neighbours of live keys: absent keys that end inside or just below existing paths
	probes := append([][]byte{}, m.touched...)
	if m.mode != modeSecure {
		keys := make([]string, 0, len(m.model))
		for k := range m.model {
			keys = append(keys, k)
		}
		sort.Strings(keys)
		for _, k := range keys {
			b := []byte(k)
			if len(b) > 0 {
				probes = append(probes, b[:len(b)-1], append(append([]byte{}, b[:len(b)-1]...), b[len(b)-1]^0x01))
			}
			probes = append(probes, append(append([]byte{}, b...), 0x00))
		}
	}
	for _, k := range probes {
		m.checkGet(m.tr, k, "final")
	}
	m.checkRoot(m.tr.Hash(), "final Hash()")
	m.iterate(m.tr, m.model, nil, "final scan")
	m.checkShadows()
	if len(m.model) == 0 {
		m.label("ends-empty")
	}
}

// ---------- proofs ----------

type mapDB struct {
	base  map[string][]byte
	del   string
	addK  string
	addV  []byte
	added bool
}

func (d *mapDB) Get(k []byte) ([]byte, error) {
	if d.added && string(k) == d.addK {
		return d.addV, nil
	}
	if string(k) == d.del {
		return nil, errors.New("not found")
	}
	if v, ok := d.base[string(k)]; ok {
		return v, nil
	}
	return nil, errors.New("not found")
}

func (d *mapDB) Has(k []byte) (bool, error) {
	v, _ := d.Get(k)
	return v != nil, nil
}

func dbOf(blobs [][]byte) *mapDB {
	d := &mapDB{base: map[string][]byte{}}
	for _, b := range blobs {
		d.base[string(refmpt.Keccak(b))] = b
	}
	return d
}

func (m *machine) prove(raw []byte, seed uint8) {
	tk := m.trieKey(raw) // SecureTrie.Prove takes the stored (hashed) key, as its callers pass it
	var pl proofList
	if err := m.tr.Prove(tk, 0, &pl); err != nil {
		m.failf("Prove(%x): %v", tk, err)
	}
	root := m.wantRoot()
	var blobs [][]byte
	for _, n := range pl {
		if !bytes.Equal(n.key, refmpt.Keccak(n.val)) {
			m.failf("Prove(%x) stored a node under %x which is not the keccak of its encoding", tk, n.key)
		}
		blobs = append(blobs, n.val)
	}
	want := m.model[string(raw)]
	if len(m.model) == 0 {
		// No root node exists; Prove is documented to return "at least the root node"
		// only for a trie that has one. Nothing may verify to a value.
		m.label("proof-empty-trie")
		if len(pl) != 0 {
			m.failf("Prove on an empty trie produced %d nodes", len(pl))
		}
		if v, err, _ := trie.VerifyProof(root, tk, dbOf(nil)); v != nil || err == nil {
			m.failf("VerifyProof with an empty proof returned (%x, %v)", v, err)
		}
		return
	}
	if len(pl) == 0 || !bytes.Equal(pl[0].key, root[:]) {
		m.failf("Prove(%x): first proof node is not the root node of the model's root %x", tk, root)
	}
	db := dbOf(blobs)
	got, err, _ := trie.VerifyProof(root, tk, db)
	if err != nil {
		m.failf("VerifyProof(%x) of the proof just produced: %v", tk, err)
	}
	if !bytes.Equal(got, want) || (len(got) > 0) != (len(want) > 0) {
		m.failf("VerifyProof(%x) = %x, model has %x", tk, got, want)
	}
	rv, rerr := refmpt.ProofCheck(root[:], tk, blobs)
	if rerr != nil || !bytes.Equal(rv, want) {
		m.failf("independent proof check of Prove(%x) output: (%x, %v), model has %x", tk, rv, rerr, want)
	}
	if len(want) > 0 {
		m.label("proof-present")
	} else {
		m.label("proof-absent")
	}
	if len(pl) > 1 {
		m.label("proof-multi-node")
	}

	// never a different value: whatever is done to the list, a nil error must come with the model's value
	judge := func(what string, key []byte, wantV []byte, d *mapDB) {
		v, err, _ := trie.VerifyProof(root, key, d)
		ev.Add("proof_alterations", 1)
		if err != nil {
			return
		}
		if !bytes.Equal(v, wantV) || (len(v) > 0) != (len(wantV) > 0) {
			m.failf("%s: VerifyProof(%x) accepted the altered proof and returned %x, the trie holds %x", what, key, v, wantV)
		}
	}
	// (a) node deletion
	for i := range blobs {
		rest := append(append([][]byte{}, blobs[:i]...), blobs[i+1:]...)
		judge(fmt.Sprintf("proof with node %d removed", i), tk, want, dbOf(rest))
	}
	// (b) reordering, duplication, foreign nodes (the receiver keys by hash)
	rev := make([][]byte, 0, len(blobs)+len(m.prevProof))
	for i := len(blobs) - 1; i >= 0; i-- {
		rev = append(rev, blobs[i])
	}
	rev = append(rev, blobs[0])
	rev = append(rev, m.prevProof...)
	d := dbOf(rev)
	if v, err, _ := trie.VerifyProof(root, tk, d); err != nil || !bytes.Equal(v, want) {
		m.failf("reordered proof with duplicate and foreign nodes: VerifyProof(%x) = (%x, %v), model has %x", tk, v, err, want)
	}
	// (c) single-byte alterations, node re-keyed by the hash of its altered content
	total := 0
	for _, b := range blobs {
		total += len(b)
	}
	masks := []byte{seed | 1, 0x80, 0xff}
	alter := func(i, j int, mask byte) {
		nb := append([]byte{}, blobs[i]...)
		nb[j] ^= mask
		d := &mapDB{base: db.base, del: string(refmpt.Keccak(blobs[i])), addK: string(refmpt.Keccak(nb)), addV: nb, added: true}
		judge(fmt.Sprintf("proof node %d byte %d xor %02x", i, j, mask), tk, want, d)
	}
	if total <= 160 {
		for i, b := range blobs {
			for j := range b {
				alter(i, j, masks[(i+j)%3])
			}
		}
		m.label("proof-all-bytes-altered")
	} else {
		x := uint32(seed)*2654435761 + uint32(total)
		for n := 0; n < 40; n++ {
			x = x*1664525 + 1013904223
			i := int(x>>8) % len(blobs)
			x = x*1664525 + 1013904223
			j := int(x>>8) % len(blobs[i])
			alter(i, j, masks[n%3])
		}
		// always the first and last byte of every node (list header, value tail)
		for i, b := range blobs {
			alter(i, 0, masks[0])
			alter(i, len(b)-1, masks[0])
		}
	}
	// (d) the same proof presented for other keys
	for n := 0; n < 6 && n < len(m.touched); n++ {
		other := m.touched[(int(seed)+n*7)%len(m.touched)]
		judge(fmt.Sprintf("proof for %x presented for another key", tk), m.trieKey(other), m.model[string(other)], db)
	}
	// (e) fromLevel skips leading proof elements
	if len(pl) > 1 && seed%4 == 1 {
		var tail proofList
		if err := m.tr.Prove(tk, 1, &tail); err != nil {
			m.failf("Prove(fromLevel=1): %v", err)
		}
		if len(tail) != len(pl)-1 {
			m.failf("Prove(%x, fromLevel=1) returned %d nodes, the full proof has %d", tk, len(tail), len(pl))
		}
		for i := range tail {
			if !bytes.Equal(tail[i].val, pl[i+1].val) {
				m.failf("Prove(%x, fromLevel=1) node %d differs from the full proof", tk, i)
			}
		}
		m.label("proof-fromlevel")
	}
	m.prevProof = blobs
}

// runCase runs one history; a violation comes back as an error.
func runCase(h header, ops []op, deep bool) (labels []string, nontrivial bool, err error) {
	var m *machine
	defer func() {
		if r := recover(); r != nil {
			if f, ok := r.(failure); ok {
				err = errors.New(f.msg)
			} else {
				step := -1
				if m != nil {
					step = m.step
				}
				err = fmt.Errorf("panic at op %d: %v\n%s", step, r, debug.Stack())
			}
		}
	}()
	m = newMachine(h, deep)
	m.run(ops)
	for l := range m.labels {
		labels = append(labels, l)
	}
	sort.Strings(labels)
	return labels, m.nontrivial, nil
}
