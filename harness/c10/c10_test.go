// C10 — The Merkle-Patricia trie commits to exactly its content.
//
// Oracles: a map model for lookups / iteration / reopen, refmpt.Root (the
// Yellow-Paper root computed from the content alone) for every root the trie
// reports, refmpt.ProofCheck (independent verifier) for every proof, and the
// "never a different value" rule for altered proofs.
package c10

import (
	"bytes"
	"encoding/hex"
	"encoding/json"
	"fmt"
	"os"
	"path/filepath"
	"sort"
	"strings"
	"testing"

	"gitlab.com/aquachain/aquachain/common"
	"gitlab.com/aquachain/aquachain/common/log"
	"gitlab.com/aquachain/aquachain/core/types"
	"pgregory.net/rapid"
	"verifharness/ev"
	"verifharness/ref/refmpt"
)

func TestMain(m *testing.M) {
	log.Root().SetHandler(log.DiscardHandler())
	ev.MustHit("prefix-key", "branch-value", "val>=32", "val<32", "delete-to-empty", "collapse", "collapse-right-after-commit",
		"branch-value-delete", "unload+reload", "reload-from-disk", "reopen-same", "reopen-fresh", "reopen-multi-node",
		"proof-present", "proof-absent", "proof-multi-node", "proof-all-bytes-altered", "iterate", "copy-checked",
		"gc-dereference", "gc-survivor-checked", "empty-key",
		"mode:var", "mode:fixed32", "mode:mixed", "mode:secure", "mode:nodb",
		"derivesha>128", "derivesha<=128", "derivesha-empty")
	ev.Main(m, ev.Config{
		Property: "C10",
		Level:    "exploration",
		Rule: "a case is a history of 1..50 operations (update / delete / update-with-empty-value / get / Hash / Commit / Commit+trie.Database.Commit to disk / reopen from the committed root on the same or a fresh trie.Database / SetCacheLimit / Iterator scan from nil and from a start key / Prove+VerifyProof with altered proofs / taking a copy (SecureTrie.Copy; the identical struct copy for the plain Trie) that is later compared with its own snapshot / Dereference of an older referenced root) " +
			"over one of five tries (plain Trie with 0..3-byte keys over nibble alphabet {0,1,f}; plain Trie with 32-byte keys; plain Trie mixing both with RLP-index keys; SecureTrie; zero-value Trie without database), values of length 1,2,3,31,32,33,100; " +
			"after every operation all keys used so far are looked up through a node-sharing copy and the root of that copy is compared with the Yellow-Paper root of the model. " +
			"A second family of cases is types.DeriveSha over lists of 0..300 items against refmpt.RootList. " +
			"non-trivial = the history deletes a key whose removal must collapse a branch (decided from the model), empties the trie, reopens a non-empty trie, or resolves from disk a reference that was created by unloading; for DeriveSha: more than one item. distinct = hash of the encoded history (mode, cache limit, op records) / of the list",
		Assumptions: []string{
			"refmpt.Root / refmpt.ProofCheck / refmpt.Keccak (harness/ref/refmpt, no code shared with /repo/trie) implement Yellow Paper appendix D; unit vectors from the ethereum trie tests pass",
			"plain Trie keys may be prefixes of each other (keybytesToHex appends a terminator; the package doc states no fixed-length precondition); SecureTrie keys are hashed so no prefix relation exists there",
			"SecureTrie.Prove is given the hashed key (it forwards its argument unhashed, and its callers pass the hashed key)",
			"altered proofs are presented the way a receiver stores them: every blob keyed by the keccak of its content (VerifyProof does not re-hash what the database returns, and callers key by hash)",
			"a proof for an empty trie is the empty list and VerifyProof reports an error for it (there is no root node to present): accepted, only 'never a value' is demanded there",
			"iteration order is checked as nibble-path order with the terminator sorting last (bytewise key order when no key is a prefix of another); the property itself only needs the content to be exact",
			"Dereference is only applied to roots that were Referenced and are not the last committed root of the trie under test (how core/blockchain uses it)",
			"copies of a trie (SecureTrie.Copy, which copies the embedded Trie struct; the same struct copy for a plain Trie) are independent values sharing immutable nodes: used for the per-operation lookups so that checking does not load nodes into the trie under test, and as long-lived copies that must keep their own content",
		},
	})
}

// ---------- rapid generator ----------

var modeWeights = []mode{modeVar, modeVar, modeVar, modeVar, modeVar, modeVar, modeVar,
	modeFixed, modeFixed, modeFixed, modeMixed, modeMixed, modeMixed,
	modeSecure, modeSecure, modeSecure, modeSecure, modeSecure, modeNoDB, modeNoDB}

// drawIdx composes the key index from small draws (rapid's wide integer
// generators are skewed towards small magnitudes, which would make almost every
// variable-length key empty or all-zero).
func drawIdx(t *rapid.T) uint16 {
	l := rapid.IntRange(0, 3).Draw(t, "klen")
	r := 0
	for i, mul := 0, 1; i < 3; i, mul = i+1, mul*9 {
		r += mul * rapid.IntRange(0, 8).Draw(t, "ksym")
	}
	return uint16(r<<2 | l)
}

func drawOp(t *rapid.T) op {
	o := op{
		Kind:  uint8(rapid.IntRange(0, len(kindTable)-1).Draw(t, "kind")),
		Fam:   uint8(rapid.IntRange(0, 3).Draw(t, "fam")),
		Idx:   drawIdx(t),
		VLen:  uint8(rapid.IntRange(0, len(valueLens)-2).Draw(t, "vlen")),
		VFill: rapid.Byte().Draw(t, "fill"),
		N:     rapid.Byte().Draw(t, "n"),
	}
	switch o.kind() {
	case kDelete, kUpdateEmpty, kGet, kProve:
		// mostly aim at keys that were used before
		if rapid.IntRange(0, 3).Draw(t, "reuse") > 0 {
			o.Fam = 3
		}
	}
	return o
}

func drawCase(t *rapid.T) (header, []op) {
	h := header{
		Mode:  uint8(rapid.SampledFrom(modeWeights).Draw(t, "mode")),
		Limit: uint8(rapid.IntRange(0, len(cacheLimits)-1).Draw(t, "limit")),
	}
	if rapid.IntRange(0, 3).Draw(t, "gc") == 0 {
		h.Flags = 1
	}
	minLen := rapid.IntRange(1, 40).Draw(t, "minlen")
	ops := rapid.SliceOfN(rapid.Custom(drawOp), minLen, 50).Draw(t, "ops")
	return h, ops
}

var caseCounter int

func TestHistories(t *testing.T) {
	ev.Check(t, ev.N(10000, 1_000_000), func(t *rapid.T) {
		h, ops := drawCase(t)
		caseCounter++
		deep := true
		labels, nontrivial, err := runCase(h, ops, deep)
		if err != nil {
			t.Fatalf("%v\nhistory: %s\nhex: %s", err, describe(h, ops), hexCase(h, ops))
		}
		ev.Case(nontrivial, encodeCase(h, ops), labels...)
		ev.Add("ops", int64(len(ops)))
		ev.Sample(map[string]interface{}{"kind": "history", "history": describe(h, ops), "labels": strings.Join(labels, ",")})
	})
}

// ---------- types.DeriveSha against refmpt.RootList ----------

type blobList [][]byte

func (l blobList) Len() int            { return len(l) }
func (l blobList) GetRlp(i int) []byte { return l[i] }

func TestDeriveSha(t *testing.T) {
	sizes := []int{0, 1, 2, 3, 15, 16, 17, 55, 56, 127, 128, 129, 130, 200, 255, 256, 257, 300}
	ev.Check(t, ev.N(400, 40_000), func(t *rapid.T) {
		n := rapid.SampledFrom(sizes).Draw(t, "n")
		if rapid.Bool().Draw(t, "anysize") {
			n = rapid.IntRange(0, 300).Draw(t, "n2")
		}
		// item shapes: all items equal / per-item drawn; lengths from the value alphabet
		same := rapid.Bool().Draw(t, "same")
		items := make(blobList, n)
		var tmpl []byte
		for i := range items {
			if same && tmpl != nil {
				items[i] = tmpl
				continue
			}
			l := valueLens[rapid.IntRange(0, len(valueLens)-2).Draw(t, "len")]
			b := bytes.Repeat([]byte{rapid.Byte().Draw(t, "fill")}, l)
			if l > 3 {
				b[l-1] = byte(i)
				b[l-2] = byte(i >> 8)
			}
			items[i] = b
			tmpl = b
		}
		got := types.DeriveSha(items)
		want := common.BytesToHash(refmpt.RootList(items))
		if got != want {
			var hx []string
			for _, it := range items {
				hx = append(hx, hex.EncodeToString(it))
			}
			t.Fatalf("DeriveSha over %d items = %x, Yellow-Paper root of {rlp(i): item_i} = %x; items %v", n, got, want, hx)
		}
		lbl := "derivesha<=128"
		if n > 128 {
			lbl = "derivesha>128"
		}
		l2 := ""
		if n == 0 {
			l2 = "derivesha-empty"
		}
		canon := []byte("derivesha:")
		for _, it := range items {
			canon = append(canon, byte(len(it)))
			canon = append(canon, it...)
		}
		ev.Case(n > 1, canon, lbl, l2)
		if n <= 4 {
			ev.Sample(map[string]interface{}{"kind": "derivesha", "n": n, "root": hex.EncodeToString(got[:])})
		}
	})
}

// ---------- hand-written histories: seeds for the fuzzer, corpus on disk ----------

func seedCases() map[string][]byte {
	out := map[string][]byte{}
	add := func(name string, h header, ops []op) { out[name] = encodeCase(h, ops) }
	V := modeVar
	k := func(b ...byte) []byte { return b }
	// prefix chain: "", 00, 0000, 000000 with small and large values; delete the middle ones
	add("prefix-chain", header{Mode: uint8(V)}, []op{
		mk(V, kUpdate, k(), 0, 0x11, 0), mk(V, kUpdate, k(0), 4, 0x22, 0), mk(V, kUpdate, k(0, 0), 1, 0x33, 0), mk(V, kUpdate, k(0, 0, 0), 6, 0x44, 0),
		mk(V, kHash, nil, 0, 0, 0), mk(V, kProve, k(0, 0), 0, 0, 1), mk(V, kDelete, k(0), 0, 0, 0), mk(V, kCommit, nil, 0, 0, 0),
		mk(V, kDelete, k(0, 0), 0, 0, 0), mk(V, kCommit, nil, 0, 0, 0), mk(V, kProve, k(0, 0), 0, 0, 5), mk(V, kIterate, k(0), 0, 0, 0),
		mk(V, kDelete, k(), 0, 0, 0), mk(V, kDelete, k(0, 0, 0), 0, 0, 0), mk(V, kHash, nil, 0, 0, 0),
	})
	// collapse onto a sibling that was unloaded by two commits and flushed to disk
	add("collapse-unloaded-sibling", header{Mode: uint8(V)}, []op{
		mk(V, kUpdate, k(0x10, 0x00), 5, 0xa1, 0), mk(V, kUpdate, k(0x10, 0x01), 5, 0xa2, 0), mk(V, kUpdate, k(0x1f), 5, 0xa3, 0),
		mk(V, kFlush, nil, 0, 0, 0), mk(V, kCommit, nil, 0, 0, 0), mk(V, kDelete, k(0x1f), 0, 0, 0), mk(V, kHash, nil, 0, 0, 0),
		mk(V, kDelete, k(0x10, 0x01), 0, 0, 0), mk(V, kCommit, nil, 0, 0, 0), mk(V, kReopenFresh, nil, 0, 0, 0), mk(V, kIterate, k(), 0, 0, 0),
	})
	// embedded branch under an extension, values of 31/32/33 bytes around the embedding limit
	add("embedding-limit", header{Mode: uint8(V), Limit: 1}, []op{
		mk(V, kUpdate, k(0x11, 0x10), 0, 0x01, 0), mk(V, kUpdate, k(0x11, 0x1f), 0, 0x02, 0), mk(V, kHash, nil, 0, 0, 0),
		mk(V, kUpdate, k(0x11, 0x11), 3, 0x03, 0), mk(V, kCommit, nil, 0, 0, 0), mk(V, kUpdate, k(0x11, 0x11), 4, 0x03, 0), mk(V, kCommit, nil, 0, 0, 0),
		mk(V, kUpdate, k(0x11, 0x11), 5, 0x03, 0), mk(V, kCommit, nil, 0, 0, 0), mk(V, kProve, k(0x11, 0x11), 0, 0, 9), mk(V, kProve, k(0x11), 0, 0, 2),
		mk(V, kDelete, k(0x11, 0x11), 0, 0, 0), mk(V, kReopenSame, nil, 0, 0, 0), mk(V, kProve, k(0x11, 0x10), 0, 0, 3),
	})
	// a long-lived copy must not see later structural edits of the original (shared key slices, shared nodes)
	add("copy-then-merge", header{Mode: uint8(V)}, []op{
		mk(V, kUpdate, k(0x11, 0x01), 0, 0x01, 0), mk(V, kUpdate, k(0x1f, 0x00), 0, 0x02, 0), mk(V, kCopy, nil, 0, 0, 0), mk(V, kDelete, k(0x1f, 0x00), 0, 0, 0),
		mk(V, kUpdate, k(0x11), 4, 0x03, 0), mk(V, kCopy, nil, 0, 0, 0), mk(V, kDelete, k(0x11, 0x01), 0, 0, 0), mk(V, kUpdate, k(0x11, 0xff), 0, 0x04, 0),
		mk(V, kCopy, nil, 0, 0, 0), mk(V, kDelete, k(0x11), 0, 0, 0), mk(V, kCommit, nil, 0, 0, 0), mk(V, kCopy, nil, 0, 0, 0), mk(V, kUpdate, k(0x11, 0xff), 1, 0x05, 0),
	})
	F := modeFixed
	add("fixed32-extension-split", header{Mode: uint8(F), Flags: 1}, []op{
		mk(F, kUpdate, patKeys[0], 4, 0x51, 0), mk(F, kUpdate, patKeys[1], 4, 0x52, 0), mk(F, kCommit, nil, 0, 0, 0),
		mk(F, kUpdate, patKeys[3], 6, 0x53, 0), mk(F, kCommit, nil, 0, 0, 0), mk(F, kUpdate, patKeys[9], 0, 0x54, 0), mk(F, kCommit, nil, 0, 0, 0),
		mk(F, kGC, nil, 0, 0, 0), mk(F, kDelete, patKeys[3], 0, 0, 0), mk(F, kFlush, nil, 0, 0, 0), mk(F, kGC, nil, 0, 0, 1),
		mk(F, kProve, patKeys[3], 0, 0, 7), mk(F, kProve, patKeys[0], 0, 0, 1), mk(F, kIterate, patKeys[1], 0, 0, 0), mk(F, kReopenFresh, nil, 0, 0, 0),
	})
	S := modeSecure
	add("secure-copy", header{Mode: uint8(S)}, []op{
		mk(S, kUpdate, k(0x00), 4, 0x61, 0), mk(S, kUpdate, k(0x00, 0x00), 1, 0x62, 0), mk(S, kCommit, nil, 0, 0, 0), mk(S, kCopy, nil, 0, 0, 0),
		mk(S, kUpdate, k(0x00), 6, 0x63, 0), mk(S, kDelete, k(0x00, 0x00), 0, 0, 0), mk(S, kCopy, nil, 0, 0, 0), mk(S, kCommit, nil, 0, 0, 0),
		mk(S, kCommit, nil, 0, 0, 0), mk(S, kUpdate, k(0x01), 0, 0x64, 0), mk(S, kProve, k(0x00), 0, 0, 1), mk(S, kIterate, k(0x00), 0, 0, 0), mk(S, kReopenFresh, nil, 0, 0, 0),
	})
	M := modeMixed
	add("mixed-rlp-index", header{Mode: uint8(M), Limit: 0}, []op{
		mk(M, kUpdate, rlpKeys[0], 6, 0x71, 0), mk(M, kUpdate, rlpKeys[1], 6, 0x72, 0), mk(M, kUpdate, rlpKeys[3], 6, 0x73, 0), mk(M, kUpdate, rlpKeys[4], 6, 0x74, 0),
		mk(M, kUpdate, rlpKeys[7], 0, 0x75, 0), mk(M, kUpdate, patKeys[0], 4, 0x76, 0), mk(M, kUpdate, k(), 0, 0x77, 0), mk(M, kFlush, nil, 0, 0, 0),
		mk(M, kCommit, nil, 0, 0, 0), mk(M, kDelete, rlpKeys[4], 0, 0, 0), mk(M, kProve, rlpKeys[4], 0, 0, 1), mk(M, kDelete, k(), 0, 0, 0), mk(M, kIterate, k(), 0, 0, 0),
	})
	N := modeNoDB
	add("nodb", header{Mode: uint8(N)}, []op{
		mk(N, kUpdate, k(0xff), 0, 0x7f, 0), mk(N, kUpdate, k(0xff, 0xff), 0, 0x80, 0), mk(N, kUpdate, k(0xf0), 2, 0x00, 0), mk(N, kHash, nil, 0, 0, 0),
		mk(N, kDelete, k(0xff), 0, 0, 0), mk(N, kProve, k(0xff), 0, 0, 0), mk(N, kIterate, k(0xf0), 0, 0, 0), mk(N, kDelete, k(0xf0), 0, 0, 0), mk(N, kDelete, k(0xff, 0xff), 0, 0, 0),
	})
	return out
}

// TestSeeds runs the hand-written histories (always deep).
func TestSeeds(t *testing.T) {
	seeds := seedCases()
	names := make([]string, 0, len(seeds))
	for n := range seeds {
		names = append(names, n)
	}
	sort.Strings(names)
	for _, n := range names {
		h, ops := decodeCase(seeds[n])
		labels, nontrivial, err := runCase(h, ops, true)
		if err != nil {
			ev.SaveCase("TestSeeds", map[string]string{"hex": hex.EncodeToString(seeds[n])})
			t.Errorf("seed %s: %v\nhistory: %s", n, err, describe(h, ops))
			continue
		}
		ev.Case(nontrivial, seeds[n], append(labels, "seed")...)
	}
	if dir := os.Getenv("C10_WRITE_CORPUS"); dir != "" {
		for _, n := range names {
			os.WriteFile(filepath.Join(dir, "seed-"+n+".hex"), []byte(hex.EncodeToString(seeds[n])+"\n"), 0o644)
		}
	}
}

// TestCorpusReplay runs every saved history in /verif/corpus/C10 (hex files).
func TestCorpusReplay(t *testing.T) {
	dir := os.Getenv("VERIF_CORPUS")
	if dir == "" {
		t.Skip("no VERIF_CORPUS")
	}
	ents, _ := os.ReadDir(dir)
	for _, e := range ents {
		raw, err := os.ReadFile(filepath.Join(dir, e.Name()))
		if err != nil {
			continue
		}
		b, err := hex.DecodeString(strings.TrimSpace(string(raw)))
		if err != nil {
			b = raw
		}
		h, ops := decodeCase(b)
		labels, nontrivial, err := runCase(h, ops, true)
		if err != nil {
			ev.SaveCase("TestCorpusReplay", map[string]string{"hex": hex.EncodeToString(b), "file": e.Name()})
			t.Errorf("corpus %s: %v\nhistory: %s", e.Name(), err, describe(h, ops))
			continue
		}
		ev.Case(nontrivial, b, append(labels, "corpus")...)
	}
}

// TestReplay re-runs one saved case file {"hex": "..."} without rapid.
func TestReplay(t *testing.T) {
	p := ev.ReplayPath()
	if p == "" {
		t.Skip("no VERIF_REPLAY")
	}
	raw, err := os.ReadFile(p)
	if err != nil {
		t.Fatal(err)
	}
	var c struct {
		Hex string `json:"hex"`
	}
	if err := json.Unmarshal(raw, &c); err != nil {
		c.Hex = strings.Trim(strings.TrimSpace(string(raw)), "\"")
	}
	b, err := hex.DecodeString(c.Hex)
	if err != nil {
		t.Fatalf("replay file has no hex case: %v", err)
	}
	h, ops := decodeCase(b)
	if _, _, err := runCase(h, ops, true); err != nil {
		t.Fatalf("%v\nhistory: %s", err, describe(h, ops))
	}
}

// FuzzOps is the coverage-guided target: bytes -> (mode, op list), same oracle.
func FuzzOps(f *testing.F) {
	for _, b := range seedCases() {
		f.Add(b)
	}
	f.Fuzz(func(t *testing.T, in []byte) {
		if len(in) > hdrSize+opSize*maxDecodedOps {
			return
		}
		h, ops := decodeCase(in)
		if len(ops) == 0 {
			return
		}
		if _, _, err := runCase(h, ops, true); err != nil {
			t.Fatalf("%v\nhistory: %s", err, describe(h, ops))
		}
	})
}

var _ = fmt.Sprintf
