// C06 — Every included transaction is charged, nonced and rolled back exactly.
//
// Oracle: accounting equations evaluated on complete state walks before and
// after core.ApplyTransaction, with the gas figures (execution gas, refund
// counter) recomputed independently from the tracer's step stream.
package c06

import (
	"fmt"
	"math/big"
	"testing"

	"gitlab.com/aquachain/aquachain/aquadb"
	"gitlab.com/aquachain/aquachain/common"
	"gitlab.com/aquachain/aquachain/core"
	"gitlab.com/aquachain/aquachain/core/state"
	"gitlab.com/aquachain/aquachain/core/types"
	"gitlab.com/aquachain/aquachain/core/vm"
	"gitlab.com/aquachain/aquachain/crypto"
	"gitlab.com/aquachain/aquachain/params"
	"pgregory.net/rapid"
	"verifharness/ev"
	"verifharness/gen"
)

func TestMain(m *testing.M) {
	gen.Quiet()
	ev.MustHit("outcome:success", "outcome:failed", "outcome:failed-creation", "refund-below-cap", "refund-capped", "refund-selfdestruct",
		"boundary:balance-exact", "boundary:gas-intrinsic-exact", "boundary:gas-blockleft-exact",
		"invalid:nonce-low", "invalid:nonce-high", "invalid:cannot-prepay-gas", "invalid:cannot-pay-value", "invalid:gas-below-intrinsic", "invalid:gas-above-block-left",
		"receipt:status", "receipt:poststate", "block-rejected", "multi-tx-block")
	ev.Main(m, ev.Config{
		Property: "C06",
		Level:    "exploration",
		Rule: "rapid-generated transactions of every zoo kind (success, REVERT, out-of-gas, invalid opcode, failed creation, refund-earning SSTORE clears below and above the gasUsed/2 cap, self-destruct refunds), with the sender's balance and the gas limit placed at, just inside and just outside each bound, applied with core.ApplyTransaction on a state the harness owns (pre-Byzantium and Byzantium heights); " +
			"plus invalid variants (nonce +-1, cannot prepay gas, cannot then pay value, gas below intrinsic, gas above the gas left in the block) at ApplyTransaction level and inside otherwise valid blocks given to InsertChain; plus whole generated blocks for the cumulative-gas rules. " +
			"non-trivial = a transaction that executes contract code or fails; distinct by tx hash + pre-state root",
		Assumptions: []string{
			"intrinsic gas is the harness's own formula (21000 / 53000 for creation, 4 per zero byte, 68 per non-zero byte)",
			"execution gas and the refund counter (15000 per cleared non-zero slot, 24000 per first self-destruct, only in frames that did not fail) are recomputed from the vm.Tracer step stream by harness/gen/tracer.go",
			"the coinbase is an address no generated program pays to, so its balance change is exactly the fee; the sender equation is exact when no frame paid value back to the sender (else only conservation is demanded)",
		},
	})
}

var coinbase = common.HexToAddress("0x00000000000000000000000000000000c01bba5e")

type env struct {
	nc     gen.NamedConfig
	b      *gen.Builder
	sdb    state.Database
	header *types.Header
}

func newEnv(t *rapid.T) *env {
	nc := rapid.SampledFrom([]gen.NamedConfig{gen.ConfigByName("test-hf1-7"), gen.ConfigByName("all-at-0"), gen.ConfigByName("spread"), gen.ConfigByName("nofork")}).Draw(t, "config")
	b, err := gen.NewBuilder(gen.Genesis(nc.Config, 0))
	if err != nil {
		t.Fatal(err)
	}
	num := int64(rapid.SampledFrom([]int{1, 3, 6, 9}).Draw(t, "height"))
	h := &types.Header{ParentHash: b.Chain.Genesis().Hash(), Number: big.NewInt(num), GasLimit: 6_000_000, Time: big.NewInt(1_500_001_000),
		Difficulty: big.NewInt(1 << 30), Coinbase: coinbase, Version: nc.Config.GetBlockVersion(big.NewInt(num))}
	return &env{nc: nc, b: b, sdb: state.NewDatabase(b.DB), header: h}
}

func (e *env) snapshot(t *rapid.T, st *state.StateDB) *gen.WorldState {
	cp := st.Copy()
	// commit the copy with the same empty-account rule the block's own commit uses
	root, err := cp.Commit(e.nc.Config.IsEIP158(e.header.Number))
	if err != nil {
		t.Fatal(err)
	}
	w, err := gen.WalkState(e.sdb.TrieDB(), root)
	if err != nil {
		t.Fatalf("state walk: %v", err)
	}
	return w
}

type result struct {
	receipt *types.Receipt
	gas     uint64
	err     error
	ft      *gen.FrameTracer
	pre     *gen.WorldState
	post    *gen.WorldState
}

func (e *env) apply(t *rapid.T, st *state.StateDB, gp *core.GasPool, usedGas *uint64, tx *types.Transaction, idx int) *result {
	r := &result{ft: &gen.FrameTracer{}}
	r.pre = e.snapshot(t, st)
	st.Prepare(tx.Hash(), common.Hash{}, idx)
	snap := st.Snapshot()
	gpBefore, usedBefore := *gp, *usedGas
	r.receipt, r.gas, r.err = core.ApplyTransaction(e.nc.Config, e.b.Chain, nil, gp, st, e.header, tx, usedGas, vm.Config{Debug: true, Tracer: r.ft})
	if r.err != nil {
		st.RevertToSnapshot(snap)
		*gp, *usedGas = gpBefore, usedBefore
	}
	r.post = e.snapshot(t, st)
	return r
}

func mul(a uint64, b *big.Int) *big.Int { return new(big.Int).Mul(new(big.Int).SetUint64(a), b) }

// judge checks every equation of the statement for one included transaction.
func (e *env) judge(t *rapid.T, tx *types.Transaction, sender common.Address, r *result, gasLeftBefore uint64, cumBefore uint64) (labels []string, nontrivial bool) {
	if r.err != nil {
		t.Fatalf("valid-by-construction transaction was refused: %v", r.err)
	}
	rc := r.receipt
	creation := tx.To() == nil
	intrinsic := gen.Intrinsic(tx.Data(), creation)
	price := tx.GasPrice()
	// nonce
	if got, want := r.post.NonceOf(sender), r.pre.NonceOf(sender)+1; got != want {
		t.Fatalf("sender nonce is %d after the transaction, want %d", got, want)
	}
	// gas bounds
	if r.gas != rc.GasUsed || rc.CumulativeGasUsed != cumBefore+r.gas {
		t.Fatalf("receipt gas %d / cumulative %d inconsistent with gas used %d after %d", rc.GasUsed, rc.CumulativeGasUsed, r.gas, cumBefore)
	}
	if r.gas > tx.Gas() {
		t.Fatalf("gas used %d above the gas limit %d", r.gas, tx.Gas())
	}
	if !r.ft.Ended {
		t.Fatalf("tracer saw no end of execution")
	}
	// The bounds of the statement apply to the gas consumed; the reported
	// figure is that minus the (capped) refund, so it may lie below the
	// intrinsic cost by protocol (never below half of what was consumed).
	before := intrinsic + r.ft.ExecGas // gas consumed before the refund
	if before < intrinsic || before > tx.Gas() {
		t.Fatalf("gas consumed %d outside [intrinsic %d, gas limit %d]", before, intrinsic, tx.Gas())
	}
	if r.gas < (before+1)/2 || r.gas > before {
		t.Fatalf("gas used %d outside [half of consumed %d, consumed %d]: refund not capped at half", r.gas, (before+1)/2, before)
	}
	if r.ft.Refund == 0 && r.gas < intrinsic {
		t.Fatalf("gas used %d below the intrinsic cost %d without any refund", r.gas, intrinsic)
	}
	failed := r.ft.ExecErr != nil
	refund := r.ft.Refund
	if failed {
		refund = 0
	}
	cap := before / 2
	applied := refund
	if applied > cap {
		applied = cap
		labels = append(labels, "refund-capped")
	} else if refund > 0 {
		labels = append(labels, "refund-below-cap")
	}
	if r.ft.TxSD > 0 && !failed {
		labels = append(labels, "refund-selfdestruct")
	}
	if r.gas != before-applied {
		t.Fatalf("gas used %d, want %d = (intrinsic %d + execution %d) - min(refund %d, half %d)", r.gas, before-applied, intrinsic, r.ft.ExecGas, refund, cap)
	}
	fee := mul(r.gas, price)
	// coinbase credited exactly the fee
	if d := new(big.Int).Sub(r.post.BalanceOf(coinbase), r.pre.BalanceOf(coinbase)); d.Cmp(fee) != 0 {
		t.Fatalf("coinbase balance changed by %v, want gasUsed x gasPrice = %v", d, fee)
	}
	// sender
	dSender := new(big.Int).Sub(r.post.BalanceOf(sender), r.pre.BalanceOf(sender))
	want := new(big.Int).Neg(fee)
	if !failed {
		want.Sub(want, tx.Value())
	}
	selfPay := tx.To() != nil && *tx.To() == sender
	if (!r.ft.ValueTargets[sender] && !selfPay) || failed {
		if dSender.Cmp(want) != 0 {
			t.Fatalf("sender balance changed by %v, want %v (fee %v, value %v, failed=%v)", dSender, want, fee, tx.Value(), failed)
		}
	} else if dSender.Cmp(want) < 0 {
		t.Fatalf("sender balance changed by %v, less than -(fee+value) = %v", dSender, want)
	}
	// receipt form
	byz := e.nc.Config.IsByzantium(e.header.Number)
	if byz {
		labels = append(labels, "receipt:status")
		if len(rc.PostState) != 0 {
			t.Fatalf("Byzantium receipt carries a post-state root")
		}
		if (rc.Status == types.ReceiptStatusFailed) != failed {
			t.Fatalf("receipt status %d but execution error = %v", rc.Status, r.ft.ExecErr)
		}
	} else {
		labels = append(labels, "receipt:poststate")
		if len(rc.PostState) != 32 {
			t.Fatalf("pre-Byzantium receipt without post-state root")
		}
	}
	// failure leaves nothing but the charge
	if failed {
		labels = append(labels, "outcome:failed")
		if creation {
			labels = append(labels, "outcome:failed-creation")
		}
		if len(rc.Logs) != 0 {
			t.Fatalf("failed transaction kept %d logs", len(rc.Logs))
		}
		for _, h := range gen.Diff(r.pre, r.post) {
			if h != gen.HashedAddr(sender) && h != gen.HashedAddr(coinbase) {
				if isEmptyRecipientShape(e, tx, r, h) && ev.Known(keyEmptyRecipient) {
					ev.Excluded(keyEmptyRecipient)
					continue
				}
				t.Fatalf("failed transaction (to=%v, config %s height %v, eip158=%v, err=%v) changed account %x (only sender and coinbase may change): present before=%v, after=%+v",
					tx.To(), e.nc.Name, e.header.Number, e.nc.Config.IsEIP158(e.header.Number), r.ft.ExecErr, h, r.pre.Accts[h] != nil, describeAcct(r.post.Accts[h]))
			}
		}
		if creation {
			ca := crypto.CreateAddress(sender, tx.Nonce())
			if a := r.post.Get(ca); a != nil && len(a.Code) > 0 {
				t.Fatalf("failed creation left code at %x", ca)
			}
		}
	} else {
		labels = append(labels, "outcome:success")
		// without a surviving self-destruct the total is conserved
		if r.ft.TxSD == 0 {
			if d := new(big.Int).Sub(r.post.Sum(), r.pre.Sum()); d.Sign() != 0 {
				t.Fatalf("successful transaction changed the sum of all balances by %v", d)
			}
		}
	}
	return labels, failed || r.ft.TxSteps > 0
}

func fundedKey(i int) gen.Key {
	// keys outside the genesis allocation whose balance the test sets exactly
	k, _ := crypto.HexToBtcec(fmt.Sprintf("%064x", 0xabc000+i))
	return gen.Key{Priv: k, Addr: crypto.PubkeyToAddress(k.PubKey())}
}

func TestTransactionAccounting(t *testing.T) {
	ev.Check(t, ev.N(900, 16000), func(t *rapid.T) {
		e := newEnv(t)
		defer e.b.Chain.Stop()
		st, err := state.New(e.b.Chain.Genesis().Root(), e.sdb)
		if err != nil {
			t.Fatal(err)
		}
		// pre-populate some storage so that clears earn refunds
		for i := 0; i < 30; i++ {
			st.SetState(gen.AddrMultiStore, common.BigToHash(big.NewInt(int64(i))), common.BigToHash(big.NewInt(7)))
		}
		for i := 0; i < 6; i++ {
			st.SetState(gen.AddrStore, common.BigToHash(big.NewInt(int64(i))), common.BigToHash(big.NewInt(7)))
		}
		st.Finalise(false)
		gp := new(core.GasPool).AddGas(e.header.GasLimit)
		var used uint64
		ntx := rapid.IntRange(1, 6).Draw(t, "ntx")
		for i := 0; i < ntx; i++ {
			mode := rapid.SampledFrom([]string{"zoo", "zoo", "zoo", "balance-exact", "gas-intrinsic-exact", "gas-blockleft-exact", "big-clear"}).Draw(t, "mode")
			var tx *types.Transaction
			var sender gen.Key
			var kind string
			lbl := ""
			switch mode {
			case "zoo":
				tx, kind = gen.DrawTx(t, gen.TxCtx{Config: e.nc.Config, Num: e.header.Number, State: st, GasLeft: gp.Gas(), Keys: gen.Keys[:3]})
				if tx == nil {
					continue
				}
				from, _ := types.Sender(types.MakeSigner(e.nc.Config, e.header.Number), tx)
				for _, k := range gen.Keys {
					if k.Addr == from {
						sender = k
					}
				}
			case "balance-exact":
				// a fresh account holding exactly gasLimit x price + value
				sender = fundedKey(i)
				gas := uint64(21000 + rapid.SampledFrom([]int{0, 9000, 50000}).Draw(t, "gasx"))
				price := big.NewInt(int64(rapid.SampledFrom([]int{1, 3, 1_000_000_000}).Draw(t, "price")))
				value := big.NewInt(int64(rapid.SampledFrom([]int{0, 1, 12345}).Draw(t, "value")))
				to := rapid.SampledFrom([]common.Address{gen.Keys[0].Addr, gen.AddrBouncer, gen.AddrReverter, gen.AddrStore}).Draw(t, "to")
				if gas > gp.Gas() {
					continue
				}
				st.SetBalance(sender.Addr, new(big.Int).Add(mul(gas, price), value))
				tx = gen.SignedTx(e.nc.Config, e.header.Number, sender, st.GetNonce(sender.Addr), &to, value, gas, price, nil)
				kind, lbl = "balance-exact", "boundary:balance-exact"
			case "gas-intrinsic-exact":
				sender = gen.Keys[rapid.IntRange(0, 2).Draw(t, "k")]
				data := rapid.SliceOfN(rapid.Byte(), 0, 40).Draw(t, "data")
				var to *common.Address
				if rapid.Bool().Draw(t, "call") {
					a := rapid.SampledFrom([]common.Address{gen.Keys[1].Addr, gen.AddrStore, gen.AddrOOG}).Draw(t, "to")
					to = &a
				}
				gas := gen.Intrinsic(data, to == nil)
				if gas > gp.Gas() {
					continue
				}
				tx = gen.SignedTx(e.nc.Config, e.header.Number, sender, st.GetNonce(sender.Addr), to, big.NewInt(0), gas, big.NewInt(2), data)
				kind, lbl = "gas-intrinsic-exact", "boundary:gas-intrinsic-exact"
			case "gas-blockleft-exact":
				sender = gen.Keys[rapid.IntRange(0, 2).Draw(t, "k")]
				if gp.Gas() < 21000 || gp.Gas() > 3_000_000 && i < ntx-1 {
					continue
				}
				to := rapid.SampledFrom([]common.Address{gen.Keys[1].Addr, gen.AddrOOG, gen.AddrRecursor}).Draw(t, "to")
				tx = gen.SignedTx(e.nc.Config, e.header.Number, sender, st.GetNonce(sender.Addr), &to, big.NewInt(0), gp.Gas(), big.NewInt(1), nil)
				kind, lbl = "gas-blockleft-exact", "boundary:gas-blockleft-exact"
			case "big-clear":
				// clear many pre-populated slots: refund reaches the cap
				sender = gen.Keys[rapid.IntRange(0, 2).Draw(t, "k")]
				n := rapid.IntRange(1, 25).Draw(t, "nclear")
				// slots 0..29 are populated; starting near the end mixes refund-earning clears with plain 0->0 writes
				data := gen.Cat(gen.Word(uint64(rapid.SampledFrom([]int{0, 5, 20, 26, 28, 28, 29, 29, 30}).Draw(t, "start"))), gen.Word(uint64(n)), gen.Word(0))
				gas := gen.Intrinsic(data, false) + uint64(n)*6000 + 5000
				if gas > gp.Gas() {
					continue
				}
				to := gen.AddrMultiStore
				tx = gen.SignedTx(e.nc.Config, e.header.Number, sender, st.GetNonce(sender.Addr), &to, big.NewInt(0), gas, big.NewInt(1), data)
				kind = "big-clear"
			}
			gasLeft, cum := gp.Gas(), used
			r := e.apply(t, st, gp, &used, tx, i)
			labels, nt := e.judge(t, tx, sender.Addr, r, gasLeft, cum)
			if gp.Gas() != gasLeft-r.gas {
				t.Fatalf("block gas pool went from %d to %d for a transaction that used %d", gasLeft, gp.Gas(), r.gas)
			}
			if used > e.header.GasLimit {
				t.Fatalf("cumulative gas %d exceeds the block gas limit %d", used, e.header.GasLimit)
			}
			ev.Case(nt, append(tx.Hash().Bytes(), r.pre.Root[:]...), append(labels, "kind:"+kind, lbl, "config:"+e.nc.Name)...)
			ev.Sample(map[string]interface{}{"config": e.nc.Name, "height": e.header.Number, "kind": kind, "gasLimit": tx.Gas(), "gasUsed": r.gas,
				"execGas": r.ft.ExecGas, "refundCounter": r.ft.Refund, "failed": r.ft.ExecErr != nil, "labels": labels})
		}
	})
}

// invalidVariant derives a consensus-invalid transaction for the current state.
func invalidVariant(t *rapid.T, e *env, st *state.StateDB, gasLeft uint64, i int) (*types.Transaction, string) {
	class := rapid.SampledFrom([]string{"nonce-low", "nonce-high", "cannot-prepay-gas", "cannot-pay-value", "gas-below-intrinsic", "gas-above-block-left"}).Draw(t, "invalid")
	k := gen.Keys[rapid.IntRange(0, 2).Draw(t, "k")]
	to := rapid.SampledFrom([]common.Address{gen.Keys[3].Addr, gen.AddrStore, gen.AddrBouncer}).Draw(t, "to")
	nonce := st.GetNonce(k.Addr)
	price, value, gas := big.NewInt(1), big.NewInt(0), uint64(60000)
	var data []byte
	switch class {
	case "nonce-low":
		if nonce == 0 {
			// make the account have sent one transaction first: use nonce-high instead
			class = "nonce-high"
			nonce++
		} else {
			nonce--
		}
	case "nonce-high":
		nonce += uint64(rapid.IntRange(1, 3).Draw(t, "gap"))
	case "cannot-prepay-gas":
		k = fundedKey(100 + i)
		st.SetBalance(k.Addr, new(big.Int).Sub(mul(gas, price), big.NewInt(1)))
		nonce = st.GetNonce(k.Addr)
	case "cannot-pay-value":
		k = fundedKey(200 + i)
		value = big.NewInt(int64(rapid.SampledFrom([]int{1, 1000}).Draw(t, "value")))
		st.SetBalance(k.Addr, new(big.Int).Add(mul(gas, price), new(big.Int).Sub(value, big.NewInt(1))))
		nonce = st.GetNonce(k.Addr)
	case "gas-below-intrinsic":
		data = rapid.SliceOfN(rapid.Byte(), 0, 30).Draw(t, "data")
		gas = gen.Intrinsic(data, false) - uint64(rapid.SampledFrom([]int{1, 2, 21000}).Draw(t, "short"))
	case "gas-above-block-left":
		gas = gasLeft + uint64(rapid.SampledFrom([]int{1, 2, 100000}).Draw(t, "over"))
	}
	return gen.SignedTx(e.nc.Config, e.header.Number, k, nonce, &to, value, gas, price, data), class
}

func TestInvalidTransactionsRefused(t *testing.T) {
	ev.Check(t, ev.N(1200, 16000), func(t *rapid.T) {
		e := newEnv(t)
		defer e.b.Chain.Stop()
		st, _ := state.New(e.b.Chain.Genesis().Root(), e.sdb)
		gp := new(core.GasPool).AddGas(e.header.GasLimit)
		var used uint64
		// a few valid transactions first so that nonces are non-zero and gas is consumed
		for i, n := 0, rapid.IntRange(0, 3).Draw(t, "warmup"); i < n; i++ {
			tx, _ := gen.DrawTx(t, gen.TxCtx{Config: e.nc.Config, Num: e.header.Number, State: st, GasLeft: gp.Gas(), Keys: gen.Keys[:3], Kinds: []string{"transfer", "store-set", "emit"}})
			if tx != nil {
				if r := e.apply(t, st, gp, &used, tx, i); r.err != nil {
					t.Fatalf("warm-up tx refused: %v", r.err)
				}
			}
		}
		tx, class := invalidVariant(t, e, st, gp.Gas(), 0)
		st.Finalise(false)
		gasLeft, usedBefore := gp.Gas(), used
		pre := e.snapshot(t, st)
		st.Prepare(tx.Hash(), common.Hash{}, 5)
		snap := st.Snapshot()
		_, _, err := core.ApplyTransaction(e.nc.Config, e.b.Chain, nil, gp, st, e.header, tx, &used, vm.Config{})
		if err == nil {
			t.Fatalf("a transaction that is invalid (%s) was applied without error: it would be included in a valid block", class)
		}
		// the importer aborts the block here; the miner reverts to the snapshot: after that nothing may differ
		st.RevertToSnapshot(snap)
		post := e.snapshot(t, st)
		if d := gen.Diff(pre, post); len(d) != 0 {
			t.Fatalf("refused transaction (%s) left state changes behind after revert: %x", class, d)
		}
		if used != usedBefore {
			t.Fatalf("refused transaction changed the block's used gas")
		}
		_ = gasLeft
		ev.Case(true, append([]byte(class), tx.Hash().Bytes()...), "invalid:"+class)
	})
}

// TestInvalidTxMakesBlockInvalid places an invalid transaction into an
// otherwise valid block and gives it to the import path.
func TestInvalidTxMakesBlockInvalid(t *testing.T) {
	ev.Check(t, ev.N(150, 3000), func(t *rapid.T) {
		nc := rapid.SampledFrom([]gen.NamedConfig{gen.ConfigByName("test-hf1-7"), gen.ConfigByName("all-at-0")}).Draw(t, "config")
		tr := gen.DrawTree(t, nc, gen.TreeOpts{MaxBranches: 1, MaxDepth: 4, MinMain: 2, MaxTxs: 3, Kinds: []string{"transfer", "store-set", "emit", "bouncer"}})
		defer tr.Close()
		core.VerifResetGlobals()
		n, err := gen.NewNode(aquadb.NewMemDatabase(), tr.B.Genesis, gen.Archive(), nil)
		if err != nil {
			t.Fatal(err)
		}
		defer func() { n.Chain.Stop() }()
		last := tr.Nodes[len(tr.Nodes)-1]
		for _, nd := range tr.Nodes[1 : len(tr.Nodes)-1] {
			if _, err := n.Chain.InsertChain(types.Blocks{nd.Block}); err != nil {
				t.Fatalf("import: %v", err)
			}
		}
		// state at the parent of the last block, to derive the invalid variant
		e := &env{nc: nc, b: tr.B, sdb: state.NewDatabase(tr.B.DB), header: last.Block.Header()}
		st, _ := state.New(last.Parent.Block.Root(), e.sdb)
		bad, class := invalidVariant(t, e, st, last.Block.GasLimit(), 0)
		if class == "cannot-prepay-gas" || class == "cannot-pay-value" {
			// these need a specially funded account that is not in the chain state; use an unfunded fresh key instead
			k := fundedKey(300)
			to := gen.Keys[0].Addr
			bad = gen.SignedTx(nc.Config, last.Block.Number(), k, 0, &to, big.NewInt(0), 21000, big.NewInt(1), nil)
			class = "cannot-prepay-gas"
		}
		txs := append(types.Transactions{}, last.Block.Transactions()...)
		pos := rapid.IntRange(0, len(txs)).Draw(t, "pos")
		txs = append(txs[:pos], append(types.Transactions{bad}, txs[pos:]...)...)
		h := last.Block.Header()
		h.TxHash = types.DeriveSha(txs)
		forged := types.NewBlockWithHeader(h).WithBody(txs, last.Block.Uncles())
		headBefore := n.Chain.CurrentBlock().Hash()
		if _, err := n.Chain.InsertChain(types.Blocks{forged}); err == nil {
			t.Fatalf("a block containing an invalid transaction (%s) at position %d was accepted", class, pos)
		}
		if n.Chain.CurrentBlock().Hash() != headBefore {
			t.Fatalf("head moved although the block was rejected")
		}
		if n.Chain.GetBlockByHash(forged.Hash()) != nil && n.Chain.HasState(forged.Root()) && forged.Root() != last.Block.Root() {
			t.Fatalf("rejected block's state was kept")
		}
		// the good block still imports
		if _, err := n.Chain.InsertChain(types.Blocks{last.Block}); err != nil {
			t.Fatalf("the valid block was refused after the forged one: %v", err)
		}
		lbl := []string{"block-rejected", "blockinvalid:" + class}
		if len(last.Block.Transactions()) > 1 {
			lbl = append(lbl, "multi-tx-block")
		}
		ev.Case(true, forged.Hash().Bytes(), lbl...)
	})
}

var _ = params.TestChainConfig
