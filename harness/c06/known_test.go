package c06

import (
	"math/big"
	"testing"

	"gitlab.com/aquachain/aquachain/common"
	"gitlab.com/aquachain/aquachain/core"
	"gitlab.com/aquachain/aquachain/core/state"
	"gitlab.com/aquachain/aquachain/core/types"
	"pgregory.net/rapid"
	"verifharness/ev"
	"verifharness/gen"
)

// keyEmptyRecipient: before EIP-158 a transaction whose top-level call fails
// leaves an empty account behind at a recipient address that did not exist
// (the recipient is created before the call's snapshot is taken).
const keyEmptyRecipient = "failed-tx-creates-empty-recipient/pre-EIP158"

// isEmptyRecipientShape recognises exactly that shape: the changed account is
// the transaction's recipient, it was absent before and is empty afterwards,
// and EIP-158 is not active.
func isEmptyRecipientShape(e *env, tx *types.Transaction, r *result, h common.Hash) bool {
	if tx.To() == nil || e.nc.Config.IsEIP158(e.header.Number) || h != gen.HashedAddr(*tx.To()) {
		return false
	}
	post := r.post.Accts[h]
	return r.pre.Accts[h] == nil && post != nil && post.Nonce == 0 && post.Balance.Sign() == 0 && len(post.Code) == 0 && len(post.Storage) == 0
}

// TestKnownWitnesses re-runs the fixed witness of every listed known finding
// and prints its KNOWN-FINDING line while it still reproduces.
func TestKnownWitnesses(t *testing.T) {
	if !ev.Known(keyEmptyRecipient) {
		return
	}
	rapid.Check(t, func(rt *rapid.T) {
		nc := gen.ConfigByName("nofork") // no EIP-158
		b, err := gen.NewBuilder(gen.Genesis(nc.Config, 0))
		if err != nil {
			rt.Fatal(err)
		}
		defer b.Chain.Stop()
		e := &env{nc: nc, b: b, sdb: state.NewDatabase(b.DB), header: &types.Header{ParentHash: b.Chain.Genesis().Hash(), Number: big.NewInt(1),
			GasLimit: 6_000_000, Time: big.NewInt(1_500_001_000), Difficulty: big.NewInt(1 << 30), Coinbase: coinbase, Version: nc.Config.GetBlockVersion(big.NewInt(1))}}
		st, _ := state.New(b.Chain.Genesis().Root(), e.sdb)
		to := common.BytesToAddress([]byte{2}) // SHA-256 precompile, not in the genesis state
		data := make([]byte, 64)
		tx := gen.SignedTx(nc.Config, big.NewInt(1), gen.Keys[0], 0, &to, big.NewInt(0), gen.Intrinsic(data, false)+10, big.NewInt(1), data)
		gp := new(core.GasPool).AddGas(e.header.GasLimit)
		var used uint64
		r := e.apply(rt, st, gp, &used, tx, 0)
		if r.err == nil && r.ft.ExecErr != nil && isEmptyRecipientShape(e, tx, r, gen.HashedAddr(to)) {
			ev.KnownFinding(keyEmptyRecipient)
		}
	})
}

func describeAcct(a *gen.Acct) string {
	if a == nil {
		return "absent"
	}
	return "nonce=" + big.NewInt(int64(a.Nonce)).String() + " balance=" + a.Balance.String() + " codeLen=" + big.NewInt(int64(len(a.Code))).String() + " slots=" + big.NewInt(int64(len(a.Storage))).String()
}
