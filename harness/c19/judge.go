package c19

// The oracle: invariants over a recorded history. Pure function of the event
// list; does not import the package under test.
//
// Sequence numbers come from one atomic counter. An event "X-call"/"send-begin"
// is logged BEFORE the call is made and "X-ret"/"send-end" AFTER it returned,
// a "recv" after the value came out of the channel. Therefore
//   sub-ret(k).Seq  < send-begin(v).Seq  =>  Subscribe had returned before Send(v) was called
//   send-end(v).Seq < unsub-call(k).Seq  =>  Send(v) had returned before Unsubscribe was called
//   unsub-ret(k).Seq < send-begin(v).Seq =>  Unsubscribe had returned before Send(v) was called
// and nothing stronger is ever assumed about operations whose intervals overlap.

import (
	"fmt"
	"sort"
)

type subInfo struct {
	subCall, subRet     int64
	tracked             bool
	trackNil            bool // Track returned nil: the scope was closed already
	scope               int
	unsubCall, unsubRet int64 // earliest known; 0 = never
	recv                []Event
	hasSnap             bool
	snapSeq             int64
	snapN               int
	blockedCalls        []int64 // unsub-call events flagged "send in flight and my buffer full"
	unsubIntervals      [][2]int64
}

type sendInfo struct {
	begin, end int64
	nsent      int
	sender     string
	nBegin     int
	nEnd       int
}

// closeIv is one SubscriptionScope.Close call (ret = 0: it has not returned).
type closeIv struct {
	scope     int
	g         string
	call, ret int64
}

type parsed struct {
	subs   []*subInfo
	sends  map[int]*sendInfo
	order  []int // values by send-begin
	closes []*closeIv
	// per scope: the earliest Close call and the earliest Close return of ANY
	// caller. Once Close has returned to somebody the scope is closed for
	// everybody: every subscription it tracked is unsubscribed.
	closeCall map[int]int64
	closeRet  map[int]int64
}

func minNZ(a, b int64) int64 {
	if a == 0 {
		return b
	}
	if b == 0 || a < b {
		return a
	}
	return b
}

func parse(nsubs int, hist []Event) *parsed {
	p := &parsed{sends: map[int]*sendInfo{}, closeCall: map[int]int64{}, closeRet: map[int]int64{}}
	openClose := map[string]*closeIv{}
	for i := 0; i < nsubs; i++ {
		p.subs = append(p.subs, &subInfo{})
	}
	h := append([]Event(nil), hist...)
	sort.Slice(h, func(i, j int) bool { return h[i].Seq < h[j].Seq })
	open := map[string]int64{} // G/sub -> seq of the pending unsub-call
	for _, e := range h {
		var s *subInfo
		if e.Sub >= 0 && e.Sub < nsubs {
			s = p.subs[e.Sub]
		}
		switch e.Kind {
		case KSendBegin:
			si := p.sends[e.Val]
			if si == nil {
				si = &sendInfo{}
				p.sends[e.Val] = si
				p.order = append(p.order, e.Val)
			}
			si.begin, si.sender = e.Seq, e.G
			si.nBegin++
		case KSendEnd:
			si := p.sends[e.Val]
			if si == nil {
				si = &sendInfo{}
				p.sends[e.Val] = si
			}
			si.end, si.nsent = e.Seq, e.N
			si.nEnd++
		case KCloseCall:
			iv := &closeIv{scope: e.Val, g: e.G, call: e.Seq}
			p.closes = append(p.closes, iv)
			openClose[e.G] = iv
			p.closeCall[e.Val] = minNZ(p.closeCall[e.Val], e.Seq)
		case KCloseRet:
			if iv := openClose[e.G]; iv != nil && iv.scope == e.Val {
				iv.ret = e.Seq
				delete(openClose, e.G)
			}
			p.closeRet[e.Val] = minNZ(p.closeRet[e.Val], e.Seq)
		}
		if s == nil {
			continue
		}
		switch e.Kind {
		case KSubCall:
			s.subCall = e.Seq
		case KSubRet:
			s.subRet = e.Seq
			s.tracked, s.trackNil, s.scope = e.N == 1, e.N == 2, e.Val
		case KUnsubCall:
			s.unsubCall = minNZ(s.unsubCall, e.Seq)
			if e.Val == 1 {
				s.blockedCalls = append(s.blockedCalls, e.Seq)
			}
			open[fmt.Sprintf("%s/%d", e.G, e.Sub)] = e.Seq
		case KUnsubRet:
			s.unsubRet = minNZ(s.unsubRet, e.Seq)
			k := fmt.Sprintf("%s/%d", e.G, e.Sub)
			if c, ok := open[k]; ok {
				s.unsubIntervals = append(s.unsubIntervals, [2]int64{c, e.Seq})
				delete(open, k)
			}
		case KUnsubSeen:
			s.unsubRet = minNZ(s.unsubRet, e.Seq)
		case KSnap:
			if !s.hasSnap {
				s.hasSnap, s.snapSeq, s.snapN = true, e.Seq, e.N
			}
		case KRecv:
			s.recv = append(s.recv, e)
		}
	}
	// SubscriptionScope.Close unsubscribes every tracked subscription: a Close
	// call is an Unsubscribe call on each of them and the return of Close - to
	// whichever caller, also one that found the scope being closed by somebody
	// else - is the return of all those Unsubscribe calls.
	for _, s := range p.subs {
		if s.tracked {
			// also when Close was called before Track returned: the
			// subscription may be unsubscribed at any moment from then on
			s.unsubCall = minNZ(s.unsubCall, p.closeCall[s.scope])
			s.unsubRet = minNZ(s.unsubRet, p.closeRet[s.scope])
		}
	}
	return p
}

// Judge returns the violated invariants (empty = history is consistent with
// the property). complete=false (deadlock / panic) restricts the judgement to
// the safety invariants that do not need a finished run.
func Judge(nsubs int, hist []Event, complete bool) []string {
	p := parse(nsubs, hist)
	var bad []string
	addf := func(f string, a ...interface{}) {
		if len(bad) < 20 {
			bad = append(bad, fmt.Sprintf(f, a...))
		}
	}
	for v, si := range p.sends {
		if si.nBegin != 1 || (complete && si.nEnd != 1) {
			addf("harness: value %d has %d send-begin / %d send-end events", v, si.nBegin, si.nEnd)
		}
	}
	received := map[int]int{} // value -> number of subscribers that received it
	totalRecv := 0
	for k, s := range p.subs {
		seen := map[int]int{}
		var maxBegin int64
		maxBeginVal := -1
		for _, e := range s.recv {
			totalRecv++
			si := p.sends[e.Val]
			if si == nil || si.nBegin == 0 {
				addf("(1) invention: subscriber %d received %d which was never sent (seq %d)", k, e.Val, e.Seq)
				continue
			}
			if e.Seq < si.begin {
				addf("(1) invention: subscriber %d received %d at seq %d before its send began (seq %d)", k, e.Val, e.Seq, si.begin)
			}
			seen[e.Val]++
			if seen[e.Val] == 2 {
				addf("(1) duplicate: subscriber %d received %d twice (second at seq %d)", k, e.Val, e.Seq)
			}
			if seen[e.Val] == 1 {
				received[e.Val]++
			}
			if si.end != 0 && s.subCall != 0 && si.end < s.subCall {
				addf("(1) subscriber %d received %d whose send had returned (seq %d) before Subscribe was called (seq %d)", k, e.Val, si.end, s.subCall)
			}
			// (5b) delivered by a send that began after Unsubscribe had returned
			if s.unsubRet != 0 && si.begin > s.unsubRet {
				how := "Unsubscribe"
				if s.tracked && s.unsubRet == p.closeRet[s.scope] {
					how = fmt.Sprintf("Close of scope %d, which tracks it,", s.scope)
				}
				addf("(5) delivery after unsubscription: subscriber %d received %d (send began at seq %d) although %s had returned at seq %d", k, e.Val, si.begin, how, s.unsubRet)
			}
			// (4b) channel order must respect the real-time order of sends
			if si.end != 0 && maxBeginVal >= 0 && si.end < maxBegin {
				addf("(4) order: subscriber %d received %d after %d although Send(%d) had returned (seq %d) before Send(%d) began (seq %d)", k, e.Val, maxBeginVal, e.Val, si.end, maxBeginVal, maxBegin)
			}
			if si.begin > maxBegin {
				maxBegin, maxBeginVal = si.begin, e.Val
			}
		}
		// (5a) nothing is put on the channel after Unsubscribe returned: the only
		// receiver read len(chan)=snapN after it knew; it may take out at most that many.
		if s.hasSnap {
			after := 0
			for _, e := range s.recv {
				if e.Seq > s.snapSeq {
					after++
				}
			}
			if after > s.snapN {
				addf("(5) delivery after unsubscription: subscriber %d held %d buffered values when Unsubscribe had returned (seq %d) but took %d more values out of its channel", k, s.snapN, s.snapSeq, after)
			}
		}
		// (2) completeness
		if complete && s.subRet != 0 {
			for _, v := range p.order {
				si := p.sends[v]
				if s.subRet < si.begin && si.end != 0 && (s.unsubCall == 0 || s.unsubCall > si.end) && seen[v] == 0 {
					addf("(2) lost: subscriber %d (Subscribe returned at seq %d, Unsubscribe called at seq %d) never received %d (send seq %d..%d)", k, s.subRet, s.unsubCall, v, si.begin, si.end)
				}
			}
		}
	}
	// (3) nsent
	if complete {
		sum := 0
		for _, v := range p.order {
			si := p.sends[v]
			sum += si.nsent
			if si.nsent != received[v] {
				addf("(3) Send(%d) returned nsent=%d but %d subscribers received it", v, si.nsent, received[v])
			}
		}
		if sum != totalRecv {
			addf("(3) sum of nsent = %d but %d values were received in total", sum, totalRecv)
		}
	}
	// (4a) one common order
	for a := 0; a < len(p.subs); a++ {
		for b := a + 1; b < len(p.subs); b++ {
			pos := map[int]int{}
			for i, e := range p.subs[b].recv {
				if _, dup := pos[e.Val]; !dup {
					pos[e.Val] = i
				}
			}
			last, lastVal := -1, 0
			done := map[int]bool{}
			for _, e := range p.subs[a].recv {
				i, ok := pos[e.Val]
				if !ok || done[e.Val] {
					continue
				}
				done[e.Val] = true
				if i < last {
					addf("(4) order: subscriber %d received %d before %d, subscriber %d received them the other way round", a, lastVal, e.Val, b)
					break
				}
				last, lastVal = i, e.Val
			}
		}
	}
	return bad
}

func overlaps(a0, a1, b0, b1 int64) bool {
	return a0 != 0 && a1 != 0 && b0 != 0 && b1 != 0 && a0 < b1 && b0 < a1
}

// Classify names the interleaving classes a recorded run reached.
func Classify(nsubs int, hist []Event) map[string]bool {
	p := parse(nsubs, hist)
	c := map[string]bool{}
	vals := p.order
	// two sends of different senders in flight together
	for i := 0; i < len(vals) && !c["two-concurrent-senders"]; i++ {
		for j := i + 1; j < len(vals); j++ {
			a, b := p.sends[vals[i]], p.sends[vals[j]]
			if a.sender != b.sender && isSender(a.sender) && isSender(b.sender) && overlaps(a.begin, a.end, b.begin, b.end) {
				c["two-concurrent-senders"] = true
				break
			}
		}
	}
	for _, iv := range p.closes {
		for _, v := range vals {
			si := p.sends[v]
			if overlaps(iv.call, iv.ret, si.begin, si.end) {
				c["scope-close-during-send"] = true
				for _, s := range p.subs {
					if s.tracked && s.scope == iv.scope && s.subRet < si.begin && !has(s.recv, v) {
						c["scope-close-during-blocked-send"] = true
					}
				}
			}
		}
	}
	// the scope classes: concurrent Close calls and sends made once a Close
	// has returned
	tracks := map[int]bool{} // scope -> it tracked a subscription before its first Close returned
	for _, s := range p.subs {
		if s.tracked && (p.closeRet[s.scope] == 0 || s.subCall < p.closeRet[s.scope]) {
			tracks[s.scope] = true
		}
		if s.trackNil {
			c["scope:track-after-close"] = true
		}
	}
	if len(p.closeCall) > 1 {
		c["scope:several-scopes-closed"] = true
	}
	for i, a := range p.closes {
		if !tracks[a.scope] {
			continue
		}
		for _, b := range p.closes[i+1:] {
			if a.scope != b.scope {
				continue
			}
			c["scope:closed-twice"] = true
			if !overlaps(a.call, a.ret, b.call, b.ret) {
				continue
			}
			c["scope:concurrent-close"] = true
			first, last := a.ret, b.ret
			if last < first {
				first, last = last, first
			}
			for _, v := range vals {
				// Close had returned to one caller and not yet to the other
				// one when this send began
				if si := p.sends[v]; first < si.begin && si.begin < last {
					c["scope:send-between-returns-of-concurrent-closes"] = true
				}
			}
		}
	}
	for sc, ret := range p.closeRet {
		if !tracks[sc] {
			continue
		}
		for _, v := range vals {
			if si := p.sends[v]; si.begin > ret {
				c["scope:send-after-close-returned"] = true
				if !isSender(si.sender) {
					c["scope:closer-sends-after-its-close"] = true
				}
			}
		}
	}
	for _, s := range p.subs {
		if s.subRet == 0 {
			continue
		}
		anySendBetween := false
		for _, v := range vals {
			si := p.sends[v]
			if overlaps(s.subCall, s.subRet, si.begin, si.end) {
				c["subscribe-during-send"] = true
				if has(s.recv, v) {
					c["subscribe-during-send:got-value"] = true
				} else {
					c["subscribe-during-send:missed-value"] = true
				}
			}
			if s.unsubRet != 0 && si.end > s.subCall && si.begin < s.unsubRet {
				anySendBetween = true
			}
			for _, iv := range s.unsubIntervals {
				if overlaps(iv[0], iv[1], si.begin, si.end) {
					c["unsub-overlaps-send"] = true
				}
			}
			if s.tracked {
				for _, iv := range p.closes {
					if iv.scope == s.scope && overlaps(iv.call, iv.ret, si.begin, si.end) {
						c["unsub-overlaps-send"] = true
					}
				}
			}
			// the send was in flight when Unsubscribe was called, this
			// subscriber was part of it, had stopped receiving with a full
			// buffer, and never got the value: the send was blocked on it.
			for _, q := range s.blockedCalls {
				if si.begin < q && q < si.end && s.subRet < si.begin && !has(s.recv, v) {
					c["unsub-during-blocked-send"] = true
				}
			}
		}
		if s.unsubRet != 0 && !anySendBetween {
			c["unsub-before-any-send"] = true
		}
		if s.hasSnap && s.snapN > 0 {
			c["buffered-values-held-at-unsub"] = true
		}
		if len(s.unsubIntervals) > 0 && s.tracked {
			for _, iv := range p.closes {
				if iv.scope == s.scope && overlaps(s.unsubIntervals[0][0], s.unsubIntervals[0][1], iv.call, iv.ret) {
					c["scoped-self-unsub-during-close"] = true
				}
			}
		}
	}
	return c
}

// isSender tells a sender goroutine (S<i>) from a closer that sends (C<c>).
func isSender(g string) bool { return len(g) > 0 && g[0] == 'S' }

func has(recv []Event, v int) bool {
	for _, e := range recv {
		if e.Val == v {
			return true
		}
	}
	return false
}
