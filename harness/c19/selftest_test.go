package c19

import (
	"encoding/json"
	"fmt"
	"os"
	"path/filepath"
	"sort"
	"strings"
	"sync"
	"testing"

	"gitlab.com/aquachain/aquachain/aqua/event"
	"verifharness/ev"
)

// hostilePrograms are hand-written programs aimed at the windows the property
// talks about. They are the source of /verif/corpus/C19/*.json and the
// programs of the harness self-test.
func hostilePrograms() map[string]*Program {
	return map[string]*Program{
		"blocked-unbuffered": {Procs: 4, Plan: []uint8{1, 0, 2, 0, 3}, Runs: 30,
			Senders: []Sender{{Count: 10}, {Count: 10, Gap: 1}},
			Subs: []Sub{
				{Mode: ModeNever},
				{Mode: ModeSelf, UnsubAfter: 2, Blocked: true, Polls: 3},
				{Mode: ModeSelf, Buf: 2, UnsubAfter: 1, Blocked: true, Polls: 2},
				{Mode: ModeNever, Buf: 4, Slow: 3},
			}},
		"inbox-churn": {Procs: 2, Plan: []uint8{0, 1}, Runs: 30,
			Senders: []Sender{{Count: 15, Gap: 2, Delay: 3}},
			Subs: []Sub{
				{Mode: ModeSelf},
				{Mode: ModeSelf, Buf: 3, SubAt: 3},
				{Mode: ModeSelf, SubAt: 5},
				{Mode: ModeNever, Buf: 1},
				{Mode: ModeExt, Buf: 2},
				{Mode: ModeScopeSelf, Buf: 1},
			}},
		"scope-stoppers": {Procs: 4, Plan: []uint8{2, 0, 0, 1, 0, 3, 1}, Runs: 30, CloseAt: 30,
			Senders: []Sender{{Count: 8}, {Count: 8, Delay: 2}, {Count: 8, Gap: 1}},
			Subs: []Sub{
				{Mode: ModeScopeStop, UnsubAfter: 2},
				{Mode: ModeScopeStop, UnsubAfter: 1, Buf: 3},
				{Mode: ModeScope, Buf: 2, Slow: 2},
				{Mode: ModeScopeSelf, UnsubAfter: 3, Blocked: true, Polls: 2},
				{Mode: ModeNever, Buf: 8},
			}},
		"four-senders-six-subs": {Procs: 16, Plan: []uint8{1, 1, 0, 2, 0, 0, 3, 0, 1, 2, 0}, Runs: 30, CloseAt: 20,
			Senders: []Sender{{Count: 12}, {Count: 12, Gap: 1}, {Count: 12, Delay: 4}, {Count: 12, Gap: 2}},
			Subs: []Sub{
				{Mode: ModeNever},
				{Mode: ModeSelf, Buf: 1, UnsubAfter: 5, Blocked: true, Polls: 4},
				{Mode: ModeExt, Buf: 4, ExtAt: 17, Slow: 1},
				{Mode: ModeScope, Buf: 8},
				{Mode: ModeScopeStop, UnsubAfter: 9, SubAt: 6},
				{Mode: ModeSelf, SubAt: 11, UnsubAfter: 7},
			}},
		"late-subscribers": {Procs: 1, Plan: []uint8{0, 2, 1}, Runs: 30,
			Senders: []Sender{{Count: 20}, {Count: 20, Gap: 1}},
			Subs: []Sub{
				{Mode: ModeNever, SubAt: 1},
				{Mode: ModeNever, Buf: 1, SubAt: 5},
				{Mode: ModeExt, SubAt: 10, ExtAt: 25},
				{Mode: ModeNever, Buf: 2, SubAt: 20, Slow: 2},
				{Mode: ModeSelf, SubAt: 39, Buf: 1},
				{Mode: ModeNever, Buf: 8},
			}},
		"one-proc-slow-unbuffered": {Procs: 1, Plan: []uint8{3, 0, 1, 0}, Runs: 30,
			Senders: []Sender{{Count: 12}, {Count: 6, Gap: 3}},
			Subs: []Sub{
				{Mode: ModeNever, Slow: 4},
				{Mode: ModeSelf, Slow: 2, UnsubAfter: 3, Blocked: true, Polls: 5},
				{Mode: ModeExt, Slow: 1, ExtAt: 9},
			}},
	}
}

// scopePrograms are hand-written programs aimed at SubscriptionScope: several
// goroutines close the same scope at the same moment, closers send as soon as
// their Close has returned, tracked subscriptions whose Unsubscribe is slow,
// several scopes over one feed. They are run against the real feed and scope
// by TestScopeCorpus and are the programs of the scope self-test.
func scopePrograms() map[string]*Program {
	return map[string]*Program{
		"two-closers-many-tracked": {Procs: 4, Plan: []uint8{1, 0, 2, 0, 1, 3}, Runs: 30,
			Senders: []Sender{{Count: 12, Gap: 1}, {Count: 12, Delay: 2}},
			Subs: []Sub{
				{Mode: ModeScope, Buf: 4}, {Mode: ModeScope, Buf: 2, UnsubYields: 2}, {Mode: ModeScope, Buf: 8, Slow: 1},
				{Mode: ModeScope, UnsubYields: 4}, {Mode: ModeScope, Buf: 1}, {Mode: ModeScope, Buf: 3, UnsubYields: 1},
				{Mode: ModeNever, Buf: 4},
			},
			Closers: []Closer{{At: 8, Probe: true, Count: true}, {At: 8, Probe: true}}},
		"three-closers-one-proc": {Procs: 1, Plan: []uint8{2, 1, 0, 3}, Runs: 30,
			Senders: []Sender{{Count: 10}, {Count: 10, Gap: 2}},
			Subs: []Sub{
				{Mode: ModeScope, Buf: 8, UnsubYields: 3}, {Mode: ModeScope, Buf: 8}, {Mode: ModeScopeSelf, Buf: 2, UnsubAfter: 4},
				{Mode: ModeScope, Buf: 1, Slow: 2, UnsubYields: 1}, {Mode: ModeNever},
			},
			Closers: []Closer{{At: 5, Probe: true}, {At: 5, Yields: 1, Probe: true, Count: true}, {At: 6, Yields: 2, Probe: true}}},
		"two-scopes-stoppers": {Procs: 16, Plan: []uint8{0, 1, 1, 0, 2}, Runs: 30, Scopes: 2,
			Senders: []Sender{{Count: 9}, {Count: 9, Gap: 1}, {Count: 9, Delay: 3}},
			Subs: []Sub{
				{Mode: ModeScopeStop, UnsubAfter: 3, Scope: 0}, {Mode: ModeScope, Buf: 2, Scope: 0, UnsubYields: 5},
				{Mode: ModeScope, Buf: 4, Scope: 1}, {Mode: ModeScopeStop, UnsubAfter: 6, Buf: 1, Scope: 1, UnsubYields: 2},
				{Mode: ModeScope, Scope: 1, SubAt: 4}, {Mode: ModeScopeSelf, Scope: 0, UnsubAfter: 2, Blocked: true, Polls: 2},
				{Mode: ModeSelf, UnsubAfter: 5, Buf: 1},
			},
			Closers: []Closer{{Scope: 0, At: 27, Probe: true}, {Scope: 0, At: 27, Probe: true}, {Scope: 1, At: 27, Count: true}, {Scope: 1, At: 27, Yields: 1, Probe: true}}},
		"late-trackers": {Procs: 2, Plan: []uint8{1, 2}, Runs: 30,
			Senders: []Sender{{Count: 20, Gap: 1}},
			Subs: []Sub{
				{Mode: ModeScope, Buf: 2}, {Mode: ModeScope, SubAt: 9, Buf: 2}, {Mode: ModeScope, SubAt: 10, UnsubYields: 2},
				{Mode: ModeScope, SubAt: 11, Buf: 1}, {Mode: ModeScopeSelf, SubAt: 10, UnsubAfter: 1}, {Mode: ModeNever, Buf: 2},
			},
			Closers: []Closer{{At: 10, Probe: true, Count: true}, {At: 10, Probe: true}, {At: 12, Probe: true}}},
	}
}

// TestWriteCorpus regenerates the corpus files (developer tool; does nothing
// unless VERIF_C19_WRITE_CORPUS names a directory).
func TestWriteCorpus(t *testing.T) {
	dir := os.Getenv("VERIF_C19_WRITE_CORPUS")
	if dir == "" {
		t.Skip()
	}
	for name, p := range hostilePrograms() {
		b, _ := json.MarshalIndent(&CaseFile{Program: p}, "", " ")
		if err := os.WriteFile(filepath.Join(dir, name+".json"), b, 0o644); err != nil {
			t.Fatal(err)
		}
	}
}

// ---------- a small independent feed, and broken variants of it ----------

// toyFeed is a straightforward mutex-based feed (sequential delivery, one
// quit channel per subscription). With bug == "" it satisfies the property;
// each named bug breaks one clause.
type toyFeed struct {
	bug    string
	sendMu sync.Mutex
	mu     sync.Mutex
	subs   []*toySub
	count  int
}

type toySub struct {
	f    *toyFeed
	ch   chan int
	quit chan struct{}
	err  chan error
	once sync.Once
	busy sync.Mutex
	dead bool // late-unsub: removal is applied by a later Send
}

func (f *toyFeed) Subscribe(c interface{}) event.Subscription {
	s := &toySub{f: f, ch: c.(chan int), quit: make(chan struct{}), err: make(chan error, 1)}
	f.mu.Lock()
	f.subs = append(f.subs, s)
	f.mu.Unlock()
	return s
}

func (f *toyFeed) Send(value interface{}) int {
	v := value.(int)
	if f.bug != "no-send-lock" {
		f.sendMu.Lock()
		defer f.sendMu.Unlock()
	}
	f.mu.Lock()
	subs := append([]*toySub(nil), f.subs...)
	f.count++
	count := f.count
	if f.bug == "late-unsub" {
		// subscriptions unsubscribed before this send are only dropped now, for the NEXT send
		keep := f.subs[:0]
		for _, s := range f.subs {
			if !s.dead {
				keep = append(keep, s)
			}
		}
		f.subs = keep
	}
	f.mu.Unlock()
	if f.bug == "no-send-lock" && v%2 == 1 {
		for i, j := 0, len(subs)-1; i < j; i, j = i+1, j-1 {
			subs[i], subs[j] = subs[j], subs[i]
		}
	}
	n := 0
	for i, s := range subs {
		if f.bug == "lose" && (count+i)%5 == 0 {
			continue
		}
		s.busy.Lock()
		select {
		case <-s.quit:
		default:
			select {
			case s.ch <- v:
				n++
				if f.bug == "dup" && (count+i)%3 == 0 {
					select {
					case s.ch <- v:
					default:
					}
				}
			case <-s.quit:
			}
		}
		s.busy.Unlock()
	}
	if f.bug == "nsent" && n > 0 && count%4 == 0 {
		n--
	}
	return n
}

func (s *toySub) Unsubscribe() {
	s.once.Do(func() {
		if s.f.bug == "late-unsub" {
			s.f.mu.Lock()
			s.dead = true
			s.f.mu.Unlock()
			close(s.err)
			return
		}
		close(s.quit)
		s.busy.Lock() // wait for a delivery in progress
		s.busy.Unlock()
		s.f.mu.Lock()
		for i, x := range s.f.subs {
			if x == s {
				s.f.subs = append(s.f.subs[:i:i], s.f.subs[i+1:]...)
				break
			}
		}
		s.f.mu.Unlock()
		close(s.err)
	})
}

func (s *toySub) Err() <-chan error { return s.err }

// toyScope is a straightforward scope (slice + mutex). With bug == "" Close
// holds the lock while it unsubscribes, so nobody can find the scope closed
// before everything is unsubscribed; "close-returns-early" gives the lock up
// first.
type toyScope struct {
	bug    string
	mu     sync.Mutex
	subs   []*toyScopeSub
	closed bool
}

type toyScopeSub struct {
	sc *toyScope
	s  event.Subscription
}

func (sc *toyScope) Track(s event.Subscription) event.Subscription {
	sc.mu.Lock()
	defer sc.mu.Unlock()
	if sc.closed {
		return nil
	}
	w := &toyScopeSub{sc, s}
	sc.subs = append(sc.subs, w)
	return w
}

func (sc *toyScope) Close() {
	sc.mu.Lock()
	if sc.closed {
		sc.mu.Unlock()
		return
	}
	sc.closed = true
	subs := sc.subs
	sc.subs = nil
	if sc.bug == "close-returns-early" {
		sc.mu.Unlock()
	} else {
		defer sc.mu.Unlock()
	}
	for _, w := range subs {
		w.s.Unsubscribe()
	}
}

func (sc *toyScope) Count() int {
	sc.mu.Lock()
	defer sc.mu.Unlock()
	return len(sc.subs)
}

func (w *toyScopeSub) Unsubscribe() {
	w.s.Unsubscribe()
	w.sc.mu.Lock()
	defer w.sc.mu.Unlock()
	for i, x := range w.sc.subs {
		if x == w {
			w.sc.subs = append(w.sc.subs[:i:i], w.sc.subs[i+1:]...)
			break
		}
	}
}

func (w *toyScopeSub) Err() <-chan error { return w.s.Err() }

func toyWorld(feedBug, scopeBug string) World {
	return World{
		Feed:  func() FeedAPI { return &toyFeed{bug: feedBug} },
		Scope: func() ScopeAPI { return &toyScope{bug: scopeBug} },
	}
}

// TestScopeCorpus runs the hand-written scope programs against the real feed
// and scope.
func TestScopeCorpus(t *testing.T) {
	progs := scopePrograms()
	names := make([]string, 0, len(progs))
	for name := range progs {
		names = append(names, name)
	}
	sort.Strings(names)
	for _, name := range names {
		p := progs[name]
		if err := p.Validate(); err != nil {
			t.Fatalf("%s: %v", name, err)
		}
		runs := p.Runs
		if ev.Thorough() {
			runs *= 10
		}
		ev.Label("corpus")
		checkProgram(t, "TestScopeCorpus", p, runs)
	}
}

// TestScopeSelfTest: silent on the independent correct scope over the correct
// toy feed AND over the real feed; a scope whose Close returns to a second
// caller while the first one is still unsubscribing must be flagged with (5).
func TestScopeSelfTest(t *testing.T) {
	progs := scopePrograms()
	for name, p := range progs {
		for _, w := range []World{toyWorld("", ""), {Feed: realWorld.Feed, Scope: func() ScopeAPI { return &toyScope{} }}} {
			if cf, _ := runProgram(p, 15, w); cf != nil {
				t.Fatalf("false alarm on the reference scope, program %s:\n%s", name, render(cf))
			}
		}
	}
	ev.Label("selftest:reference-scope-clean")
	found := false
	var seen []string
search:
	for round := 0; round < 20; round++ {
		for _, name := range []string{"two-closers-many-tracked", "three-closers-one-proc", "two-scopes-stoppers", "late-trackers"} {
			cf, _ := runProgram(progs[name], 10, World{Feed: realWorld.Feed, Scope: func() ScopeAPI { return &toyScope{bug: "close-returns-early"} }})
			if cf == nil {
				continue
			}
			for _, v := range cf.Violations {
				if strings.HasPrefix(v, "(5)") {
					found = true
					break search
				}
			}
			seen = append(seen, fmt.Sprint(cf.Violations))
		}
	}
	if !found {
		t.Fatalf("self-test: a scope whose Close returns early to a concurrent caller was not flagged with clause (5) (other violations seen: %v)", seen)
	}
	ev.Label("selftest:broken-scope-flagged")
}

// TestHarnessSelfTest: the engine + judge must stay silent on the independent
// correct feed and must flag every broken variant with the expected clause.
func TestHarnessSelfTest(t *testing.T) {
	progs := hostilePrograms()
	for name, p := range progs {
		cf, _ := runProgram(p, 15, toyWorld("", ""))
		if cf != nil {
			t.Fatalf("false alarm on the reference feed, program %s:\n%s", name, render(cf))
		}
	}
	ev.Label("selftest:reference-feed-clean")
	expect := map[string]string{
		"dup":          "(1) duplicate",
		"nsent":        "(3)",
		"lose":         "(2) lost",
		"late-unsub":   "(5)",
		"no-send-lock": "(4)",
	}
	for bug, clause := range expect {
		found := false
		var seen []string
	search:
		for round := 0; round < 20 && !found; round++ {
			for _, name := range []string{"four-senders-six-subs", "blocked-unbuffered", "inbox-churn", "scope-stoppers", "late-subscribers"} {
				cf, _ := runProgram(progs[name], 10, toyWorld(bug, ""))
				if cf == nil {
					continue
				}
				for _, v := range cf.Violations {
					if strings.HasPrefix(v, clause) {
						found = true
						break search
					}
				}
				seen = append(seen, fmt.Sprint(cf.Violations))
			}
		}
		if !found {
			t.Fatalf("self-test: broken feed %q was not flagged with clause %s (other violations seen: %v)", bug, clause, seen)
		}
	}
	ev.Label("selftest:broken-feeds-flagged")
}
