package c19

import (
	"encoding/json"
	"flag"
	"fmt"
	"os"
	"path/filepath"
	"runtime"
	"sort"
	"strings"
	"sync"
	"syscall"
	"testing"
	"time"

	"gitlab.com/aquachain/aquachain/aqua/event"
	"pgregory.net/rapid"
	"verifharness/ev"
)

func TestMain(m *testing.M) {
	// A data race is a violation of the property. The race runtime only reports
	// to stderr and lets the program go on, which would leave no reproducer:
	// with halt_on_error the process dies inside the racing program, whose
	// "inflight" case file is then picked up by the driver as the replay.
	if raceEnabled && os.Getenv("GORACE") == "" && os.Getenv("VERIF_C19_NOEXEC") == "" {
		env := append(os.Environ(), "GORACE=halt_on_error=1 exitcode=1", "VERIF_C19_NOEXEC=1")
		if exe, err := os.Executable(); err == nil {
			syscall.Exec(exe, os.Args, env) // only returns on error: then simply run without it
		}
	}
	ev.MustHit("nontrivial", "unsub-during-blocked-send", "subscribe-during-send", "two-concurrent-senders", "scope-close-during-send",
		"scope-close-during-blocked-send", "unsub-before-any-send", "buffered-values-held-at-unsub",
		"subscribe-during-send:got-value", "subscribe-during-send:missed-value",
		"sub:unbuffered", "sub:buffered", "sub:slow", "selftest:broken-feeds-flagged", "selftest:reference-feed-clean",
		// SubscriptionScope: Close called by several goroutines at once, a Send begun after Close had returned to
		// one caller (and: while the Close of another caller had not returned yet), Track on a closed scope
		"scope:concurrent-close", "scope:send-after-close-returned", "scope:closer-sends-after-its-close",
		"scope:send-between-returns-of-concurrent-closes", "scope:track-after-close", "scope:several-scopes-closed",
		"sub:tracked-with-slow-unsubscribe", "selftest:broken-scope-flagged", "selftest:reference-scope-clean")
	ev.Main(m, ev.Config{
		Property: "C19",
		Level:    "exploration",
		Rule: "a case is a generated concurrent program (1-4 senders x 1-30 uniquely numbered values; 1-6 subscribers, unbuffered or buffered 1-8, fast or slow, " +
			"subscribed before the senders start or after a generated number of sends has begun, behaviour never/self-unsubscribe(optionally once a send is blocked on it)/" +
			"unsubscribed by another goroutine/scope-tracked (drain, stop-and-wait-for-Close, self-unsubscribe); 1-3 SubscriptionScopes over the one feed, every scoped subscriber is Tracked by one of them " +
			"(directly, or through a Subscription wrapper whose Unsubscribe yields 1-6 times first), possibly after that scope was closed (Track returns nil: it stays a plain subscriber); " +
			"per scope in use 1-3 (TestScopePrograms: 2-4) closer goroutines that call Close once a generated number of sends has begun - mostly the same number, so that the Close calls of one scope run concurrently - " +
			"optionally call Count before/after, and mostly Send one more value (9000+i) as soon as their own Close has returned; a yield plan for the verif hooks; GOMAXPROCS in {1,2,4,16}) " +
			"executed on real goroutines `runs` times (extra counter `runs`) against a fresh event.Feed and fresh event.SubscriptionScopes, the plan rotated by the run index; each recorded history is judged by invariants (1)-(6), " +
			"where a Close call counts as an Unsubscribe call on every subscription the scope tracks and the EARLIEST return of Close to any caller as the return of those Unsubscribe calls (5); " +
			"TestFeedPrograms and TestScopePrograms draw from the same grammar with different weights, TestCorpus/TestScopeCorpus run hand-written programs; " +
			"the binary is built with -race (7). evaluations counts programs, not runs. non-trivial = at least one run in which an Unsubscribe/Close call interval overlapped a Send interval in the log; " +
			"(observed, hence schedule-dependent: the count can differ by a few between two runs with the same seed; the generated programs are identical); distinct by hash of the program's JSON. Labels are per program (class reached in at least one run); runs:<class> counters are per run.",
		Assumptions: []string{
			"scope Close is an unsubscription of everything the scope tracks for every caller it returns to: also a caller that finds the scope already being closed by another goroutine may rely on 'nothing tracked receives any more' once its Close has returned (the property's 'delivers after unsubscription has returned' with 'scope Close' in its quantifier)",
			"SubscriptionScope.Count is called but its value is not judged (the statement says nothing about it); it is there for the race detector",
			"the Go scheduler is not controllable from a library: schedules are sampled (yield hooks, GOMAXPROCS, repeated runs), not enumerated",
			"logged sequence numbers order only non-overlapping operations; for overlapping Subscribe/Unsubscribe/Send both outcomes are accepted",
			"deadlock = no goroutine of the program logged an event for 10 s while the program had not finished (programs terminate by construction on a correct feed: every subscriber keeps receiving until all senders are done or unsubscribes)",
			"a data race reported by the race detector terminates the shard (GORACE=halt_on_error=1) and is reported as a violation with the in-flight program as replay",
			"Subscription.Err() is closed only after the channel has been removed (feedSub.Unsubscribe closes it after Feed.remove returned); receivers use it to learn about an Unsubscribe made by another goroutine",
		},
	})
}

// ---------- generator ----------

// genProgram draws a program. scopeFocus shifts the weights towards the scope
// part of the API (more tracked subscribers, more closers per scope); the
// domain is the same.
func genProgram(t *rapid.T, scopeFocus bool) *Program {
	p := &Program{}
	p.Procs = rapid.SampledFrom([]int{1, 2, 4, 16}).Draw(t, "gomaxprocs")
	ns := rapid.IntRange(1, 4).Draw(t, "senders")
	for i := 0; i < ns; i++ {
		p.Senders = append(p.Senders, Sender{
			Count: rapid.IntRange(1, 30).Draw(t, "count"),
			Gap:   rapid.IntRange(0, 3).Draw(t, "gap"),
			Delay: rapid.IntRange(0, 4).Draw(t, "delay"),
		})
	}
	total := p.TotalSends()
	nr := rapid.IntRange(1, 6).Draw(t, "subs")
	modes := []string{ModeNever, ModeNever, ModeSelf, ModeSelf, ModeSelf, ModeExt, ModeExt, ModeScope, ModeScopeStop, ModeScopeSelf}
	if scopeFocus {
		nr = rapid.IntRange(2, 8).Draw(t, "moreSubs")
		modes = []string{ModeNever, ModeSelf, ModeExt, ModeScope, ModeScope, ModeScope, ModeScope, ModeScopeStop, ModeScopeSelf, ModeScopeSelf}
	}
	p.Scopes = rapid.SampledFrom([]int{1, 1, 1, 2, 2, 3}).Draw(t, "scopes")
	for k := 0; k < nr; k++ {
		s := Sub{Mode: rapid.SampledFrom(modes).Draw(t, "mode")}
		if scoped(s.Mode) {
			s.Scope = rapid.IntRange(0, p.Scopes-1).Draw(t, "scope")
			if rapid.Bool().Draw(t, "lazyUnsub") {
				s.UnsubYields = rapid.IntRange(1, 6).Draw(t, "unsubYields")
			}
		}
		if rapid.IntRange(0, 2).Draw(t, "buffered") > 0 {
			s.Buf = rapid.IntRange(1, 8).Draw(t, "buf")
		}
		if rapid.Bool().Draw(t, "slow") {
			s.Slow = rapid.IntRange(1, 6).Draw(t, "slowYields")
		}
		if rapid.IntRange(0, 2).Draw(t, "late") == 0 {
			s.SubAt = rapid.IntRange(1, total).Draw(t, "subAt")
		}
		switch s.Mode {
		case ModeSelf, ModeScopeSelf, ModeScopeStop:
			hi := total
			if hi > 12 {
				hi = 12
			}
			s.UnsubAfter = rapid.IntRange(0, hi).Draw(t, "unsubAfter")
			if s.Mode != ModeScopeStop {
				s.Blocked = rapid.Bool().Draw(t, "blocked")
				if s.Blocked {
					s.Polls = rapid.IntRange(1, 8).Draw(t, "polls")
				}
			}
		case ModeExt:
			s.ExtAt = rapid.IntRange(0, total).Draw(t, "extAt")
		}
		p.Subs = append(p.Subs, s)
	}
	// closers: every scope that tracks somebody gets 1-3 (focus: 2-4) of them;
	// most closers of one scope share the trigger, so that their Close calls
	// run concurrently; most send a value as soon as their Close has returned
	for sc := 0; sc < p.Scopes; sc++ {
		used := false
		for _, s := range p.Subs {
			used = used || (scoped(s.Mode) && s.Scope == sc)
		}
		if !used {
			continue
		}
		nc := rapid.SampledFrom([]int{1, 2, 2, 3}).Draw(t, "closers")
		if scopeFocus {
			nc = rapid.IntRange(2, 4).Draw(t, "moreClosers")
		}
		at := rapid.IntRange(0, total).Draw(t, "closeAt")
		for i := 0; i < nc; i++ {
			c := Closer{Scope: sc, At: at}
			if i > 0 && rapid.IntRange(0, 3).Draw(t, "ownTrigger") == 0 {
				c.At = rapid.IntRange(0, total).Draw(t, "closeAtOwn")
			}
			c.Yields = rapid.IntRange(0, 3).Draw(t, "closerYields")
			c.Probe = rapid.IntRange(0, 2).Draw(t, "probe") > 0
			c.Count = rapid.Bool().Draw(t, "count")
			p.Closers = append(p.Closers, c)
		}
	}
	if rapid.IntRange(0, 4).Draw(t, "hasPlan") > 0 {
		n := rapid.IntRange(1, 24).Draw(t, "planLen")
		for i := 0; i < n; i++ {
			p.Plan = append(p.Plan, uint8(rapid.IntRange(0, 3).Draw(t, "y")))
		}
	}
	p.Runs = ev.Pick(quickRuns, thoroughRuns)
	return p
}

const (
	quickRuns    = 20
	thoroughRuns = 50
)

// ---------- running and judging a program ----------

type CaseFile struct {
	Program    *Program  `json:"program"`
	Run        int       `json:"run"`
	Plan       YieldPlan `json:"planOfThisRun"`
	Violations []string  `json:"violations,omitempty"`
	Result     *Result   `json:"result,omitempty"`
}

func rotate(plan YieldPlan, by int) YieldPlan {
	if len(plan) == 0 {
		return nil
	}
	out := make(YieldPlan, len(plan))
	for i := range plan {
		out[i] = plan[(i+by)%len(plan)]
	}
	return out
}

var execMu sync.Mutex // the yield plan and GOMAXPROCS are process-global

// runProgram executes p `runs` times. It returns the first failing run (nil if
// none) and, per class, the number of runs that reached it.
func runProgram(p *Program, runs int, w World) (*CaseFile, map[string]int) {
	execMu.Lock()
	defer execMu.Unlock()
	prev := runtime.GOMAXPROCS(p.Procs)
	defer runtime.GOMAXPROCS(prev)
	defer event.VerifSetYieldPlan(nil)
	classes := map[string]int{}
	for run := 0; run < runs; run++ {
		plan := rotate(p.Plan, run)
		event.VerifSetYieldPlan(plan)
		res := Execute(p, w)
		bad := Judge(len(p.Subs), res.History, res.Complete())
		if res.Deadlock {
			bad = append([]string{fmt.Sprintf("(6) deadlock: no goroutine made progress for %v and the program did not finish", watchdog)}, bad...)
			watchdog = 3 * time.Second // shrinking re-runs the deadlock: do not pay 10 s each time
		}
		for _, pn := range res.Panics {
			bad = append([]string{"(6) " + pn}, bad...)
		}
		if len(bad) > 0 {
			return &CaseFile{Program: p, Run: run, Plan: plan, Violations: bad, Result: res}, classes
		}
		for c := range Classify(len(p.Subs), res.History) {
			classes[c]++
		}
	}
	return nil, classes
}

// realWorld is the code under test.
var realWorld = World{
	Feed:  func() FeedAPI { return new(event.Feed) },
	Scope: func() ScopeAPI { return new(event.SubscriptionScope) },
}

func render(cf *CaseFile) string {
	// the verdict goes last: the driver shows the tail of the log
	var b strings.Builder
	fmt.Fprintf(&b, "C19: history of the failing run (%d events):\n", len(cf.Result.History))
	for _, e := range cf.Result.History {
		b.WriteString(e.String())
		b.WriteByte('\n')
	}
	if cf.Result.Dump != "" {
		fmt.Fprintf(&b, "goroutine dump:\n%s\n", cf.Result.Dump)
	}
	fmt.Fprintf(&b, "program: %s\nyield plan of this run: %v\nC19 violated in run %d:\n", cf.Program.JSON(), cf.Plan, cf.Run)
	for _, v := range cf.Violations {
		fmt.Fprintf(&b, "  %s\n", v)
	}
	return b.String()
}

type failer interface {
	Fatalf(format string, args ...any)
}

func programLabels(p *Program, classes map[string]int) []string {
	l := []string{fmt.Sprintf("senders:%d", len(p.Senders)), fmt.Sprintf("subs:%d", len(p.Subs)), fmt.Sprintf("gomaxprocs:%d", p.Procs)}
	seen := map[string]bool{}
	for _, s := range p.Subs {
		seen["mode:"+s.Mode] = true
		if s.Buf == 0 {
			seen["sub:unbuffered"] = true
		} else {
			seen["sub:buffered"] = true
		}
		if s.Slow > 0 {
			seen["sub:slow"] = true
		}
		if s.SubAt > 0 {
			seen["sub:late"] = true
		}
		if s.Blocked {
			seen["sub:waits-for-blocked-send"] = true
		}
		if s.UnsubYields > 0 {
			seen["sub:tracked-with-slow-unsubscribe"] = true
		}
	}
	if cl := p.AllClosers(); len(cl) > 0 {
		l = append(l, fmt.Sprintf("closers:%d", len(cl)))
		per := map[int]int{}
		for _, c := range cl {
			per[c.Scope]++
			if per[c.Scope] > 1 {
				seen["scope:several-closers"] = true
			}
		}
		l = append(l, fmt.Sprintf("scopes-in-use:%d", len(per)))
	}
	if len(p.Plan) == 0 {
		seen["plan:none"] = true
	}
	for c := range classes {
		seen[c] = true
	}
	for c := range seen {
		l = append(l, c)
	}
	sort.Strings(l)
	return l
}

// checkProgram is the property body shared by the rapid property, the corpus
// and the replay.
func checkProgram(t failer, name string, p *Program, runs int) {
	inflight := ev.SaveCase("inflight", &CaseFile{Program: p})
	cf, classes := runProgram(p, runs, realWorld)
	ev.Case(classes["unsub-overlaps-send"] > 0, p.JSON(), programLabels(p, classes)...)
	ev.Add("runs", int64(runs))
	for c, n := range classes {
		ev.Add("runs:"+c, int64(n))
	}
	ev.Sample(map[string]interface{}{"program": p, "runsReachingClass": classes})
	if inflight != "" {
		os.Remove(inflight)
	}
	if cf != nil {
		ev.SaveCase(name, cf)
		t.Fatalf("%s", render(cf))
	}
}

func TestFeedPrograms(t *testing.T) {
	if os.Getenv("VERIF_SHRINKTIME") == "" {
		// schedule-dependent failures shrink unreliably and a deadlock costs
		// seconds per attempt: the saved history is the artefact, not the shrink
		flag.Set("rapid.shrinktime", "10s")
	}
	ev.Check(t, ev.N(quickPrograms, thoroughPrograms), func(t *rapid.T) {
		p := genProgram(t, false)
		checkProgram(t, "TestFeedPrograms", p, p.Runs)
	})
}

// TestScopePrograms: the same property over programs drawn with the weights
// shifted to SubscriptionScope (Track / concurrent Close / Count, a Send right
// after a Close returned).
func TestScopePrograms(t *testing.T) {
	if os.Getenv("VERIF_SHRINKTIME") == "" {
		flag.Set("rapid.shrinktime", "10s")
	}
	ev.Check(t, ev.N(quickScopePrograms, thoroughScopePrograms), func(t *rapid.T) {
		p := genProgram(t, true)
		ev.Label("scope-focus")
		checkProgram(t, "TestScopePrograms", p, p.Runs)
	})
}

const (
	quickPrograms    = 400
	thoroughPrograms = 8000

	quickScopePrograms    = 200
	thoroughScopePrograms = 4000
)

// ---------- corpus of hand-written hostile programs ----------

func TestCorpus(t *testing.T) {
	dir := os.Getenv("VERIF_CORPUS")
	if dir == "" {
		dir = filepath.Join("..", "..", "corpus", "C19")
	}
	files, _ := filepath.Glob(filepath.Join(dir, "*.json"))
	sort.Strings(files)
	if len(files) == 0 {
		t.Skip("no corpus")
	}
	for _, f := range files {
		b, err := os.ReadFile(f)
		if err != nil {
			t.Fatal(err)
		}
		var cf CaseFile
		if err := json.Unmarshal(b, &cf); err != nil || cf.Program == nil {
			t.Fatalf("%s: not a C19 case file: %v", f, err)
		}
		if err := cf.Program.Validate(); err != nil {
			t.Fatalf("%s: %v", f, err)
		}
		runs := cf.Program.Runs
		if runs <= 0 {
			runs = 30
		}
		if ev.Thorough() {
			runs *= 10
		}
		ev.Label("corpus")
		checkProgram(t, "TestCorpus", cf.Program, runs)
	}
}

// TestReplay re-runs a saved case 1000 times (schedule-dependent failures do
// not replay deterministically).
func TestReplay(t *testing.T) {
	path := ev.ReplayPath()
	if path == "" {
		t.Skip("no VERIF_REPLAY")
	}
	b, err := os.ReadFile(path)
	if err != nil {
		t.Fatal(err)
	}
	var cf CaseFile
	if err := json.Unmarshal(b, &cf); err != nil || cf.Program == nil {
		t.Fatalf("not a C19 case file: %v", err)
	}
	if err := cf.Program.Validate(); err != nil {
		t.Fatal(err)
	}
	if len(cf.Violations) > 0 {
		t.Logf("recorded violations: %v", cf.Violations)
	}
	checkProgram(t, "TestReplay", cf.Program, 1000)
}
