//go:build race

package c19

const raceEnabled = true
