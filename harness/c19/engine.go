package c19

import (
	"fmt"
	"runtime"
	"runtime/debug"
	"sort"
	"sync"
	"sync/atomic"
	"time"

	"gitlab.com/aquachain/aquachain/aqua/event"
)

// FeedAPI is what the engine drives. *event.Feed satisfies it; the self-test
// plugs in deliberately broken feeds to show that the judge notices.
type FeedAPI interface {
	Subscribe(channel interface{}) event.Subscription
	Send(value interface{}) int
}

// ScopeAPI is the scope the engine drives. *event.SubscriptionScope satisfies
// it; the self-test plugs in a deliberately broken one.
type ScopeAPI interface {
	Track(s event.Subscription) event.Subscription
	Close()
	Count() int
}

// World names the implementations a program is executed against.
type World struct {
	Feed  func() FeedAPI
	Scope func() ScopeAPI
}

// lazySub is a Subscription whose Unsubscribe takes a while (yields) before it
// forwards to the wrapped subscription.
type lazySub struct {
	event.Subscription
	yields int
}

func (l *lazySub) Unsubscribe() {
	for i := 0; i < l.yields; i++ {
		runtime.Gosched()
	}
	l.Subscription.Unsubscribe()
}

type Result struct {
	History  []Event  `json:"history"`
	Deadlock bool     `json:"deadlock"`
	Panics   []string `json:"panics,omitempty"`
	Dump     string   `json:"goroutineDump,omitempty"`
}

// Complete reports whether every goroutine of the program finished.
func (r *Result) Complete() bool { return !r.Deadlock && len(r.Panics) == 0 }

type glog struct {
	mu sync.Mutex // only the owner and (after the run) the collector take it: no cross-goroutine ordering is introduced
	ev []Event
}

type runner struct {
	p      *Program
	feed   FeedAPI
	scopes []ScopeAPI

	seq     atomic.Int64
	started atomic.Int64  // sends begun
	ended   atomic.Int64  // sends returned
	stopped []atomic.Bool // per scope: a scope-stop subscriber stopped receiving

	start       chan struct{} // closed when every SubAt==0 subscriber is subscribed
	regularDone chan struct{} // every sender goroutine has returned
	sendersDone chan struct{} // ... and every closer too (a closer may send after its Close): every Send has returned
	abort       chan struct{} // closed on deadlock / panic so that pollers exit
	abortOnce   sync.Once

	logsMu sync.Mutex
	logs   []*glog

	panicMu sync.Mutex
	panics  []string
	panicCh chan struct{}

	preSub sync.WaitGroup
	all    sync.WaitGroup
}

func (r *runner) newLog() *glog {
	g := &glog{}
	r.logsMu.Lock()
	r.logs = append(r.logs, g)
	r.logsMu.Unlock()
	return g
}

func (r *runner) log(g *glog, name, kind string, sub, val, n int) {
	q := r.seq.Add(1)
	g.mu.Lock()
	g.ev = append(g.ev, Event{Seq: q, G: name, Kind: kind, Sub: sub, Val: val, N: n})
	g.mu.Unlock()
}

func (r *runner) aborted() bool {
	select {
	case <-r.abort:
		return true
	default:
		return false
	}
}

func (r *runner) regularFinished() bool {
	select {
	case <-r.regularDone:
		return true
	default:
		return false
	}
}

func (r *runner) sendersFinished() bool {
	select {
	case <-r.sendersDone:
		return true
	default:
		return false
	}
}

func (r *runner) guard(name string) {
	if e := recover(); e != nil {
		r.panicMu.Lock()
		r.panics = append(r.panics, fmt.Sprintf("goroutine %s panicked: %v\n%s", name, e, debug.Stack()))
		r.panicMu.Unlock()
		select {
		case r.panicCh <- struct{}{}:
		default:
		}
	}
}

// pause yields; after a while it sleeps so that long waits do not burn a
// processor that the goroutines being waited for may need.
func pause(spins *int) {
	*spins++
	if *spins%64 == 0 {
		time.Sleep(20 * time.Microsecond)
		return
	}
	runtime.Gosched()
}

// waitStarted polls until n sends have begun (or all senders are done).
func (r *runner) waitStarted(n int) bool {
	spins := 0
	for r.started.Load() < int64(n) {
		if r.regularFinished() {
			return true
		}
		if r.aborted() {
			return false
		}
		pause(&spins)
	}
	return true
}

func (r *runner) sender(i int) {
	defer r.all.Done()
	name := fmt.Sprintf("S%d", i)
	defer r.guard(name)
	g := r.newLog()
	s := r.p.Senders[i]
	select {
	case <-r.start:
	case <-r.abort:
		return
	}
	for d := 0; d < s.Delay; d++ {
		runtime.Gosched()
	}
	for j := 0; j < s.Count; j++ {
		for d := 0; d < s.Gap; d++ {
			runtime.Gosched()
		}
		v := i*1000 + j
		r.log(g, name, KSendBegin, -1, v, 0)
		r.started.Add(1)
		n := r.feed.Send(v)
		r.ended.Add(1)
		r.log(g, name, KSendEnd, -1, v, n)
	}
}

func (r *runner) extUnsub(k int, sub event.Subscription, at int) {
	defer r.all.Done()
	name := fmt.Sprintf("X%d", k)
	defer r.guard(name)
	g := r.newLog()
	if !r.waitStarted(at) {
		return
	}
	r.log(g, name, KUnsubCall, k, 0, -1)
	sub.Unsubscribe()
	r.log(g, name, KUnsubRet, k, 0, 0)
}

func (r *runner) closer(ci int, c Closer) {
	defer r.all.Done()
	name := fmt.Sprintf("C%d", ci)
	defer r.guard(name)
	g := r.newLog()
	sc := r.scopes[c.Scope]
	spins := 0
	for r.started.Load() < int64(c.At) && !r.stopped[c.Scope].Load() && !r.regularFinished() {
		if r.aborted() {
			return
		}
		pause(&spins)
	}
	for d := 0; d < c.Yields; d++ {
		runtime.Gosched()
	}
	if c.Count {
		r.log(g, name, KCount, -1, c.Scope, sc.Count())
	}
	r.log(g, name, KCloseCall, -1, c.Scope, 0)
	sc.Close()
	r.log(g, name, KCloseRet, -1, c.Scope, 0)
	if c.Probe {
		// Close has returned to me: from my point of view everything the
		// scope tracked is unsubscribed. This send must not reach any of it.
		v := ProbeBase + ci
		r.log(g, name, KSendBegin, -1, v, 0)
		r.started.Add(1)
		n := r.feed.Send(v)
		r.ended.Add(1)
		r.log(g, name, KSendEnd, -1, v, n)
	}
	if c.Count {
		r.log(g, name, KCount, -1, c.Scope, sc.Count())
	}
}

func (r *runner) subscriber(k int) {
	defer r.all.Done()
	name := fmt.Sprintf("R%d", k)
	defer r.guard(name)
	g := r.newLog()
	s := r.p.Subs[k]
	ch := make(chan int, s.Buf)
	preDone := false
	if s.SubAt == 0 {
		defer func() {
			if !preDone {
				r.preSub.Done()
			}
		}()
	} else if !r.waitStarted(s.SubAt) {
		return
	}
	r.log(g, name, KSubCall, k, 0, 0)
	sub := r.feed.Subscribe(ch)
	tracked := 0
	if scoped(s.Mode) {
		inner := sub
		if s.UnsubYields > 0 {
			inner = &lazySub{Subscription: sub, yields: s.UnsubYields}
		}
		if t := r.scopes[s.Scope].Track(inner); t != nil {
			sub, tracked = t, 1
		} else {
			tracked = 2 // the scope was already closed: Track returned nil, the subscription is mine
		}
	}
	r.log(g, name, KSubRet, k, s.Scope, tracked)
	if s.SubAt == 0 {
		preDone = true
		r.preSub.Done()
	}
	mode := s.Mode
	if scoped(mode) && tracked != 1 {
		mode = ModeNever
	}
	if mode == ModeExt {
		r.all.Add(1)
		go r.extUnsub(k, sub, s.ExtAt)
	}

	recvd := 0
	unsubscribed := false
loop:
	for {
		if recvd >= s.UnsubAfter {
			switch mode {
			case ModeSelf, ModeScopeSelf:
				if s.Blocked {
					// stop receiving and wait until a send is blocked on me
					need := s.Polls
					if need < 1 {
						need = 1
					}
					spins := 0
					for c := 0; c < need; {
						if r.sendersFinished() {
							break
						}
						if r.aborted() {
							return
						}
						if r.started.Load() > r.ended.Load() && len(ch) == cap(ch) {
							c++
						} else {
							c = 0
						}
						pause(&spins)
					}
				}
				blocked := 0
				if r.started.Load() > r.ended.Load() && len(ch) == cap(ch) {
					blocked = 1
				}
				r.log(g, name, KUnsubCall, k, blocked, len(ch))
				sub.Unsubscribe()
				r.log(g, name, KUnsubRet, k, 0, 0)
				unsubscribed = true
				break loop
			case ModeScopeStop:
				r.stopped[s.Scope].Store(true)
				select {
				case <-sub.Err():
				case <-r.abort:
					return
				}
				r.log(g, name, KUnsubSeen, k, 0, 0)
				unsubscribed = true
				break loop
			}
		}
		for d := 0; d < s.Slow; d++ {
			runtime.Gosched()
		}
		select {
		case v := <-ch:
			recvd++
			r.log(g, name, KRecv, k, v, 0)
		case <-sub.Err():
			r.log(g, name, KUnsubSeen, k, 0, 0)
			unsubscribed = true
			break loop
		case <-r.sendersDone:
			break loop
		case <-r.abort:
			return
		}
	}
	if unsubscribed {
		// Unsubscribe has returned and I am the only receiver: whatever is in
		// the buffer now was delivered before; nothing may be added.
		r.log(g, name, KSnap, k, 0, len(ch))
		// keep the receiving end open until all senders are done: a send that
		// wrongly still targets this channel is taken and shows in the log
	post:
		for {
			select {
			case v := <-ch:
				r.log(g, name, KRecv, k, v, 1)
			case <-r.sendersDone:
				break post
			case <-r.abort:
				return
			}
		}
	} else {
		// every Send has returned
		r.log(g, name, KUnsubCall, k, 0, len(ch))
		sub.Unsubscribe()
		r.log(g, name, KUnsubRet, k, 0, 0)
		r.log(g, name, KSnap, k, 0, len(ch))
	}
	for {
		select {
		case v := <-ch:
			r.log(g, name, KRecv, k, v, 1)
			continue
		default:
		}
		break
	}
	sub.Unsubscribe() // "can be called any number of times"
}

var watchdog = 10 * time.Second

// Execute runs the program once on a fresh feed. plan is installed by the
// caller (it is process-global).
func Execute(p *Program, w World) *Result {
	r := &runner{
		p: p, feed: w.Feed(),
		start: make(chan struct{}), regularDone: make(chan struct{}), sendersDone: make(chan struct{}), abort: make(chan struct{}),
		panicCh: make(chan struct{}, 1),
	}
	for i := 0; i < p.NScopes(); i++ {
		r.scopes = append(r.scopes, w.Scope())
	}
	r.stopped = make([]atomic.Bool, p.NScopes())
	var senders, closers sync.WaitGroup
	for _, s := range p.Subs {
		if s.SubAt == 0 {
			r.preSub.Add(1)
		}
	}
	r.all.Add(len(p.Subs) + len(p.Senders))
	for k := range p.Subs {
		go r.subscriber(k)
	}
	for ci, c := range p.AllClosers() {
		r.all.Add(1)
		closers.Add(1)
		go func(ci int, c Closer) {
			defer closers.Done()
			r.closer(ci, c)
		}(ci, c)
	}
	go func() {
		r.preSub.Wait()
		close(r.start)
	}()
	senders.Add(len(p.Senders))
	for i := range p.Senders {
		go func(i int) {
			defer senders.Done()
			r.sender(i)
		}(i)
	}
	go func() {
		// a sender that panicked has not sent everything: the run is aborted
		// by the panic path, never declared finished.
		npanics := func() int {
			r.panicMu.Lock()
			defer r.panicMu.Unlock()
			return len(r.panics)
		}
		senders.Wait()
		if npanics() != 0 {
			return
		}
		close(r.regularDone)
		closers.Wait()
		if npanics() != 0 {
			return
		}
		close(r.sendersDone)
	}()
	done := make(chan struct{})
	go func() {
		r.all.Wait()
		close(done)
	}()

	res := &Result{}
	tick := time.NewTicker(250 * time.Millisecond)
	defer tick.Stop()
	last, lastChange := r.seq.Load(), time.Now()
wait:
	for {
		select {
		case <-done:
			break wait
		case <-r.panicCh:
			break wait
		case <-tick.C:
			if q := r.seq.Load(); q != last {
				last, lastChange = q, time.Now()
			} else if time.Since(lastChange) > watchdog {
				// no goroutine has logged anything for the whole watchdog
				// period and the program has not finished
				res.Deadlock = true
				buf := make([]byte, 1<<20)
				res.Dump = string(buf[:runtime.Stack(buf, true)])
				break wait
			}
		}
	}
	r.panicMu.Lock()
	res.Panics = append(res.Panics, r.panics...)
	r.panicMu.Unlock()
	if !res.Complete() {
		r.abortOnce.Do(func() { close(r.abort) })
		time.Sleep(20 * time.Millisecond) // let pollers leave; goroutines blocked inside the feed stay behind
	}
	r.logsMu.Lock()
	for _, g := range r.logs {
		g.mu.Lock()
		res.History = append(res.History, g.ev...)
		g.mu.Unlock()
	}
	r.logsMu.Unlock()
	sort.Slice(res.History, func(i, j int) bool { return res.History[i].Seq < res.History[j].Seq })
	return res
}
