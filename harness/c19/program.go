// Package c19 checks property C19: event feeds deliver every value exactly once
// to every live subscriber.
//
// A generated concurrent PROGRAM (senders, subscribers, subscription scopes
// that track some of them, one or several closer goroutines per scope which
// may send right after their Close returned, a yield plan, GOMAXPROCS) is
// executed on real goroutines against event.Feed / event.SubscriptionScope; every
// goroutine logs what it called and what it observed with a global atomic
// sequence number; the recorded history is judged by judge.go, which knows
// nothing about the feed's implementation (it does not import package event).
package c19

import (
	"encoding/json"
	"fmt"
)

// Subscriber behaviours. Every behaviour terminates when the feed is correct:
// a subscriber either keeps receiving until all senders are done, or it
// unsubscribes (which never needs the co-operation of anybody else).
const (
	// receive until all senders are done, then Unsubscribe and drain
	ModeNever = "never"
	// after UnsubAfter receives: stop receiving; if Blocked wait until a send
	// is in flight and my buffer is full for Polls consecutive polls (the
	// send is blocked on me); then call Unsubscribe from my own goroutine
	ModeSelf = "self"
	// another goroutine calls Unsubscribe once ExtAt sends have started,
	// while I keep receiving; I learn about it from Err()
	ModeExt = "ext"
	// tracked by the SubscriptionScope; keep receiving until the scope is closed
	ModeScope = "scope"
	// tracked; after UnsubAfter receives stop receiving and wait for the scope
	// to be closed (my stopping triggers the closer): Close while a send is
	// blocked on a scoped subscriber
	ModeScopeStop = "scope-stop"
	// tracked; after UnsubAfter receives call Unsubscribe on the scope's
	// wrapper myself (may run concurrently with Close)
	ModeScopeSelf = "scope-self"
)

// Closer is a goroutine that closes one scope. Several closers may be given
// for the same scope: they call Close concurrently (two shutdown paths).
type Closer struct {
	Scope  int  `json:"scope"`
	At     int  `json:"at"`     // Close is called once At sends have begun (or a scope-stop subscriber of that scope stopped, or all senders are done)
	Yields int  `json:"yields"` // runtime.Gosched calls between the trigger and the Close call
	Probe  bool `json:"probe"`  // Send one value (9000+closer index) right after Close has returned
	Count  bool `json:"count"`  // call Count() before and after Close (logged, not judged: exercised for the race detector)
}

func scoped(mode string) bool {
	return mode == ModeScope || mode == ModeScopeStop || mode == ModeScopeSelf
}

// Sender sends Count values i*1000+j (i = sender index), yielding Delay times
// before the first and Gap times before every send.
type Sender struct {
	Count int `json:"count"`
	Gap   int `json:"gap"`
	Delay int `json:"delay"`
}

type Sub struct {
	Buf        int    `json:"buf"`   // 0 = unbuffered
	Slow       int    `json:"slow"`  // runtime.Gosched calls before each receive
	SubAt      int    `json:"subAt"` // 0 = subscribed before any sender starts, else once SubAt sends have begun
	Mode       string `json:"mode"`
	UnsubAfter int    `json:"unsubAfter"` // receives before the unsubscribe point (self / scope-stop / scope-self)
	Blocked    bool   `json:"blocked"`    // self: wait until a send is blocked on me
	Polls      int    `json:"polls"`      // self+blocked: consecutive polls the blocked condition must hold
	ExtAt      int    `json:"extAt"`      // ext: the other goroutine unsubscribes once ExtAt sends have begun
	// scoped modes: index of the scope that tracks the subscription
	Scope int `json:"scope,omitempty"`
	// scoped modes: the tracked Subscription is a wrapper whose Unsubscribe
	// yields UnsubYields times before it forwards to the feed subscription (a
	// scope tracks any Subscription; Unsubscribe of some kinds takes a while)
	UnsubYields int `json:"unsubYields,omitempty"`
}

type Program struct {
	Procs   int       `json:"gomaxprocs"`
	Plan    YieldPlan `json:"yieldPlan"`
	Senders []Sender  `json:"senders"`
	Subs    []Sub     `json:"subs"`
	CloseAt int       `json:"closeAt"` // without Closers: scope 0 is closed by one closer once CloseAt sends have begun (or a scope-stop subscriber stopped)
	Runs    int       `json:"runs"`
	Scopes  int       `json:"scopes,omitempty"`  // number of SubscriptionScopes (0 = 1)
	Closers []Closer  `json:"closers,omitempty"` // every scope that tracks a subscriber has at least one
}

// NScopes is the number of scopes of the program.
func (p *Program) NScopes() int {
	if p.Scopes < 1 {
		return 1
	}
	return p.Scopes
}

// AllClosers returns the closer goroutines of the program (older case files
// give one closer of scope 0 through CloseAt).
func (p *Program) AllClosers() []Closer {
	if len(p.Closers) > 0 {
		return p.Closers
	}
	if p.HasScope() {
		return []Closer{{Scope: 0, At: p.CloseAt}}
	}
	return nil
}

// ProbeBase + closer index is the value a closer sends after its Close returned.
const ProbeBase = 9000

func (p *Program) TotalSends() int {
	n := 0
	for _, s := range p.Senders {
		n += s.Count
	}
	return n
}

func (p *Program) HasScope() bool {
	for _, s := range p.Subs {
		if scoped(s.Mode) {
			return true
		}
	}
	return false
}

func (p *Program) JSON() []byte {
	b, _ := json.Marshal(p)
	return b
}

// Validate rejects programs the engine is not built for (replay / corpus files
// are hand-editable).
func (p *Program) Validate() error {
	if len(p.Senders) < 1 || len(p.Senders) > 8 || len(p.Subs) < 1 || len(p.Subs) > 16 {
		return fmt.Errorf("need 1-8 senders and 1-16 subscribers")
	}
	for _, s := range p.Senders {
		if s.Count < 1 || s.Count >= 1000 || s.Gap < 0 || s.Delay < 0 {
			return fmt.Errorf("bad sender %+v", s)
		}
	}
	for _, s := range p.Subs {
		switch s.Mode {
		case ModeNever, ModeSelf, ModeExt, ModeScope, ModeScopeStop, ModeScopeSelf:
		default:
			return fmt.Errorf("bad mode %q", s.Mode)
		}
		if s.Buf < 0 || s.Buf > 64 || s.Slow < 0 || s.SubAt < 0 || s.UnsubAfter < 0 || s.ExtAt < 0 || s.Polls < 0 {
			return fmt.Errorf("bad subscriber %+v", s)
		}
	}
	if p.Scopes < 0 || p.Scopes > 8 || len(p.Closers) > 16 {
		return fmt.Errorf("need at most 8 scopes and 16 closers")
	}
	closed := map[int]bool{}
	for _, c := range p.AllClosers() {
		if c.Scope < 0 || c.Scope >= p.NScopes() || c.At < 0 || c.Yields < 0 {
			return fmt.Errorf("bad closer %+v", c)
		}
		closed[c.Scope] = true
	}
	for _, s := range p.Subs {
		if s.Scope < 0 || s.Scope >= p.NScopes() || s.UnsubYields < 0 {
			return fmt.Errorf("bad subscriber %+v", s)
		}
		if scoped(s.Mode) && !closed[s.Scope] {
			return fmt.Errorf("scope %d tracks a subscriber but has no closer", s.Scope)
		}
	}
	if p.Procs < 1 || p.Procs > 64 {
		return fmt.Errorf("bad gomaxprocs %d", p.Procs)
	}
	return nil
}

// Event kinds.
const (
	KSendBegin = "send-begin" // Val = value; logged before Feed.Send is called
	KSendEnd   = "send-end"   // Val = value, N = nsent; logged after Feed.Send returned
	KSubCall   = "sub-call"   // logged before Feed.Subscribe
	KSubRet    = "sub-ret"    // logged after Subscribe (and Track) returned; N = 1 if tracked by scope Val, 2 if Track returned nil (scope Val was closed)
	KUnsubCall = "unsub-call" // logged before Unsubscribe; N = len(chan), Val = 1 if a send was in flight and the buffer full
	KUnsubRet  = "unsub-ret"  // logged after Unsubscribe returned
	KUnsubSeen = "unsub-seen" // the receiver observed Err() closed (Unsubscribe by another goroutine has removed the channel)
	KSnap      = "snap"       // N = len(chan) read by the only receiver after it knew Unsubscribe had returned
	KRecv      = "recv"       // Val = value received from the subscriber's channel
	KCloseCall = "close-call" // before SubscriptionScope.Close of scope Val
	KCloseRet  = "close-ret"  // after it returned
	KCount     = "count"      // N = SubscriptionScope.Count() of scope Val
)

type Event struct {
	Seq  int64  `json:"q"`
	G    string `json:"g"` // S<i> sender, R<k> receiver, X<k> external unsubscriber, C<c> closer
	Kind string `json:"k"`
	Sub  int    `json:"s"` // subscriber index or -1
	Val  int    `json:"v"`
	N    int    `json:"n"`
}

func (e Event) String() string {
	switch e.Kind {
	case KSendBegin:
		return fmt.Sprintf("%5d %-3s send-begin v=%d", e.Seq, e.G, e.Val)
	case KSendEnd:
		return fmt.Sprintf("%5d %-3s send-end   v=%d nsent=%d", e.Seq, e.G, e.Val, e.N)
	case KRecv:
		return fmt.Sprintf("%5d %-3s recv       sub=%d v=%d", e.Seq, e.G, e.Sub, e.Val)
	case KSubRet:
		return fmt.Sprintf("%5d %-3s sub-ret    sub=%d tracked=%d scope=%d", e.Seq, e.G, e.Sub, e.N, e.Val)
	case KUnsubCall:
		return fmt.Sprintf("%5d %-3s unsub-call sub=%d len=%d sendBlockedOnMe=%d", e.Seq, e.G, e.Sub, e.N, e.Val)
	case KSnap:
		return fmt.Sprintf("%5d %-3s snap       sub=%d len=%d", e.Seq, e.G, e.Sub, e.N)
	case KCloseCall, KCloseRet:
		return fmt.Sprintf("%5d %-3s %s scope=%d", e.Seq, e.G, e.Kind, e.Val)
	case KCount:
		return fmt.Sprintf("%5d %-3s count      scope=%d n=%d", e.Seq, e.G, e.Val, e.N)
	}
	return fmt.Sprintf("%5d %-3s %-10s sub=%d", e.Seq, e.G, e.Kind, e.Sub)
}

// YieldPlan is the argument of event.VerifSetYieldPlan; it is written to case
// files as a list of numbers (encoding/json would print []uint8 as base64).
type YieldPlan []uint8

func (y YieldPlan) MarshalJSON() ([]byte, error) {
	ints := make([]int, len(y))
	for i, v := range y {
		ints[i] = int(v)
	}
	return json.Marshal(ints)
}

func (y *YieldPlan) UnmarshalJSON(b []byte) error {
	var ints []int
	if err := json.Unmarshal(b, &ints); err != nil {
		return err
	}
	*y = nil
	for _, v := range ints {
		if v < 0 || v > 255 {
			return fmt.Errorf("yield plan entry %d out of range", v)
		}
		*y = append(*y, uint8(v))
	}
	return nil
}
